// c16 replays the cases enumerated by spec/ingest/MC_ProfTree.tla into the REAL profile pipeline:
//
//	abstract case (profiles = bags of (stack, values))  --concretise-->  github.com/google/pprof/profile.Profile
//	  --Write-->  bytes  --/ingest parsers (unmarshal.UnmarshalProfileProtoV2 multipart+gzip,
//	                       unmarshal.UnmarshalBinaryStreamProfileProtoV2 raw)-->  model.ProfileData{Tree, Function, ValuesAgg}
//	  --shape of the MergeRawPlanner SQL ([parent, fn, node, self, total] of one sample type; [id, name])-->
//	  reader/service.NewTree().MergeTrie(rows, functions, type)  -->  BFS / Total
//
// and compares with the expected values computed by the specification (stored tree per profile, merged tree, level
// layout for the two canonical row orders).  All other profile orders / row orders / call chunkings are run as well: the
// merged tree is compared with the spec's (order free), and a seeded reservoir sample of (row order, observed tree and
// levels) is written out to be validated by TLC against ProfTree.tla (MC_ProfTreeObs).
//
// Depth: a seeded part of the cases (every case.deep-th / -deepmod-th) is run a second time STRETCHED to real depths by the
// map ProfTree.tla proves to commute with build / merge / layout on the small cases (SBag, STree, SRows, SLevels): the
// abstract level case.cap (ProfTree!LevelCap) gets as many real frames as the writer's level clamp of the node ids (probed:
// the level field of the ids of a very deep stack saturates there; 511) or one less / one more / another bit-width
// boundary, the levels beyond it 1..thousands of frames; frames of a chain are one recursive function, a cycle of
// mutually recursive functions or all distinct functions.  The stretched expectation (tree per profile, merged tree,
// canonical layouts) and the statement's clauses read directly off the real rows are compared exactly as for the plain case.
//
//	c16 run -cases cases.ndjson -out result.json -obs <dir> -seed S [-permmax N] [-obsmax N] [-deepmod N] [-levelclamp N]
package main

import (
	"bufio"
	"bytes"
	"context"
	"encoding/json"
	"flag"
	"fmt"
	"hash/fnv"
	"math/rand"
	"mime/multipart"
	"os"
	"path/filepath"
	"runtime"
	"sort"
	"strconv"
	"strings"
	"sync"

	pprof "github.com/google/pprof/profile"
	rprof "github.com/metrico/qryn/reader/prof"
	rsvc "github.com/metrico/qryn/reader/service"
	wmodel "github.com/metrico/qryn/writer/model"
	"github.com/metrico/qryn/writer/utils/unmarshal"
	"google.golang.org/protobuf/proto"
)

// ---------- case format (ToJson of MC_ProfTree!CaseRec) ----------

type Sample struct {
	Stack []string `json:"stack"` // leaf first
	Val   []int64  `json:"val"`
	N     int      `json:"n"`
}
type Node struct {
	ID     []string `json:"id"`
	Parent []string `json:"parent"`
	Fn     string   `json:"fn"`
	Self   []int64  `json:"self"`
	Total  []int64  `json:"total"`
}
type Bar struct {
	Off   int64  `json:"off"`
	Total int64  `json:"total"`
	Self  int64  `json:"self"`
	Fn    string `json:"fn"`
}
type Layout struct {
	Levels  [][]Bar `json:"levels"`
	Total   int64   `json:"total"`
	Maxself int64   `json:"maxself"`
}
type RowRef struct {
	P  int      `json:"p"` // 1-based profile index; 0 = row aggregated over all profiles (the MergeJoinedPlanner SQL)
	ID []string `json:"id"`
}
type PStack struct {
	Stack []string `json:"stack"` // leaf first
	Val   []int64  `json:"val"`
}
type Case struct {
	Cfg     string     `json:"cfg"`
	K       int        `json:"k"`
	Cap     int        `json:"cap"`  // ProfTree!LevelCap of the configuration: the abstract level that stands for the code's level clamp
	Deep    int        `json:"deep"` // > 0: every Deep-th case of this configuration (by content hash and seed) is also run depth-stretched
	Profs   [][]Sample `json:"profs"`
	Trees   [][]Node   `json:"trees"`
	Sums    [][]int64  `json:"sums"`
	Stacked [][]int64  `json:"stacked"`
	Roots   [][]int64  `json:"roots"`
	Merged  []Node     `json:"merged"`
	PMerged []PStack   `json:"pmerged"` // ProfTree!PayloadMerged: the merged pprof payload, one value vector per distinct stack
	Rows    []RowRef   `json:"rows"`
	Asc     []Layout   `json:"asc"`
	Desc    []Layout   `json:"desc"`
}

// ---------- result format ----------

type Mismatch struct {
	Signature string      `json:"signature"`
	Kind      string      `json:"kind"`
	Case      int         `json:"case"`
	Cfg       string      `json:"cfg"`
	Msg       string      `json:"msg"`
	Abstract  interface{} `json:"abstract"`
	Concrete  interface{} `json:"concrete"`
	Expected  interface{} `json:"expected,omitempty"`
	Observed  interface{} `json:"observed,omitempty"`
	Weight    int         `json:"-"` // stretched case: frames of the case (smaller witnesses are kept)
}
type Obs struct {
	Case   int        `json:"case"`
	K      int        `json:"k"`
	Profs  [][]Sample `json:"profs"`
	Ty     int        `json:"ty"`
	Order  string     `json:"order"`
	Rows   []RowRef   `json:"rows"`
	Tree   []ObsNode  `json:"tree"`
	Levels [][]Bar    `json:"levels"`
	Total  int64      `json:"total"`
}
type ObsNode struct {
	ID     []string `json:"id"`
	Parent []string `json:"parent"`
	Fn     string   `json:"fn"`
	Self   int64    `json:"self"`
	Total  int64    `json:"total"`
}
type Result struct {
	Cases           int                    `json:"cases"`
	Profiles        int                    `json:"profiles"`
	Parses          int                    `json:"parses"`
	MergeRuns       int                    `json:"merge_runs"`
	CanonLayouts    int                    `json:"canon_layouts"`
	Classes         map[string]int         `json:"classes"`
	NonTrivial      int                    `json:"distinct_nontrivial"`
	MismatchCounts  map[string]int         `json:"mismatch_counts"`
	Mismatches      []Mismatch             `json:"mismatches"`
	ObsWritten      map[string]int         `json:"obs_written"`
	Aux             map[string]interface{} `json:"aux"`
	Sample          interface{}            `json:"sample"`
	NamePoolUsed    map[string]int         `json:"name_pool_used"`
	OrdersPerCaseMx int                    `json:"orders_per_case_max"`
	StretchedNodes  int                    `json:"stretched_nodes_expected"`
	LevelClamp      map[string]int         `json:"level_clamp"`
}

func newResult() Result {
	return Result{Classes: map[string]int{}, MismatchCounts: map[string]int{}, ObsWritten: map[string]int{},
		Aux: map[string]interface{}{}, NamePoolUsed: map[string]int{}}
}

// worker: cases are independent (own seeded rng), so they are spread over goroutines; results are merged at the end.
type worker struct {
	res  Result
	aux  auxStats
	resv map[int]*reservoir
}

func newWorker(obsmax int) *worker {
	return &worker{res: newResult(), aux: auxStats{PanicMsgs: map[string]int{}, PanicByClass: map[string]int{}, DeepRefusals: map[string]int{}}, resv: map[int]*reservoir{1: {max: obsmax}, 2: {max: obsmax}, 3: {max: obsmax}}}
}

func absSize(m *Mismatch) int {
	b, _ := json.Marshal(m.Abstract)
	return len(b) + m.Weight
}

// report keeps, per signature, the three smallest witnesses this worker has seen.
func (w *worker) report(m Mismatch) {
	w.res.MismatchCounts[m.Signature]++
	n, worst, worstSize := 0, -1, -1
	for i := range w.res.Mismatches {
		if w.res.Mismatches[i].Signature == m.Signature {
			n++
			if sz := absSize(&w.res.Mismatches[i]); sz > worstSize {
				worst, worstSize = i, sz
			}
		}
	}
	if n < 3 {
		w.res.Mismatches = append(w.res.Mismatches, m)
	} else if absSize(&m) < worstSize {
		w.res.Mismatches[worst] = m
	}
}

// ---------- concretisation ----------

const noLine = "\x00NOLINE" // the atom is realised as locations WITHOUT line info (the writer names them "n/a")

var namePool = []string{"main.work", "", "runtime.mcall", "日本語.関数✓", "a:b c\t\"q\"\\", "total", "n/a", noLine,
	"github.com/x/y.(*T).Method-fm", " leading and trailing ", "{}[]()<>,;='`"}

var typePool = [][2]string{{"cpu", "nanoseconds"}, {"samples", "count"}, {"alloc_space", "bytes"}, {"", ""},
	{"ünï", "côde"}, {"inuse objects", "count"}}

type Concrete struct {
	Names map[string]string // atom -> concrete name (or noLine)
	Types [][2]string
	Base  *Concrete // stretched case: the concretisation of the abstract atoms (frame k > 0 of a chain of f is named name(f)·k)
}

func (c *Concrete) display() map[string]interface{} {
	if c.Base != nil {
		d := c.Base.display()
		d["chain_frames"] = "frame k > 0 of a cycle of f is the function named name(f)\u00b7k"
		return d
	}
	n := map[string]string{}
	for a, v := range c.Names {
		if v == noLine {
			v = "<location without line info>"
		}
		n[a] = v
	}
	return map[string]interface{}{"names": n, "sample_types": c.Types}
}

func concretise(rng *rand.Rand, atoms []string, k int) *Concrete {
	for {
		perm := rng.Perm(len(namePool))
		c := &Concrete{Names: map[string]string{}}
		hasNoLine, hasNA := false, false
		for i, a := range atoms {
			n := namePool[perm[i]]
			c.Names[a] = n
			hasNoLine = hasNoLine || n == noLine
			hasNA = hasNA || n == "n/a"
		}
		if hasNoLine && hasNA { // both would be the function "n/a": two atoms, one name
			continue
		}
		tp := rng.Perm(len(typePool))
		for j := 0; j < k; j++ {
			c.Types = append(c.Types, typePool[tp[j]])
		}
		return c
	}
}

func (c *Concrete) typeName(j int) string { return c.Types[j][0] + ":" + c.Types[j][1] }

// realName is the function name the writer is expected to record for an atom.
func (c *Concrete) realName(atom string) string {
	if c.Names[atom] == noLine {
		return "n/a"
	}
	return c.Names[atom]
}

// buildPprof turns one abstract profile (bag of samples) into a pprof profile.  The same atom is realised by one or two
// pprof Functions with the same Name and different ids, and by shared or private Locations; sample order is shuffled.
func buildPprof(rng *rand.Rand, c *Concrete, k int, prof []Sample, cl map[string]int) *pprof.Profile {
	p := &pprof.Profile{
		PeriodType:    &pprof.ValueType{Type: "cpu", Unit: "nanoseconds"},
		Period:        10000000,
		TimeNanos:     1700000000000000000,
		DurationNanos: 10000000000,
	}
	for j := 0; j < k; j++ {
		p.SampleType = append(p.SampleType, &pprof.ValueType{Type: c.Types[j][0], Unit: c.Types[j][1]})
	}
	// what a location carries besides its function (ProfTree!LocClasses): no mapping in the profile at all, one mapping with the
	// dense id 1, a sparse id, or two mappings (dense or sparse ids); every location is bound to one of them or to none
	var mappings []*pprof.Mapping
	layout := rng.Intn(6)
	switch layout {
	case 0: // no mapping at all
	case 1, 2: // one mapping, id 1
		mappings = []*pprof.Mapping{{ID: 1, Start: 0x1000, Limit: 0x9000, File: "/bin/app", BuildID: "abc"}}
	case 3: // one mapping, sparse id
		mappings = []*pprof.Mapping{{ID: uint64(rng.Intn(6) + 2), Start: 0x1000, Limit: 0x9000, File: "/bin/app", BuildID: "abc"}}
	case 4: // two mappings, dense ids
		mappings = []*pprof.Mapping{{ID: 1, Start: 0x1000, Limit: 0x9000, File: "/bin/app", BuildID: "abc"},
			{ID: 2, Start: 0x10000, Limit: 0x90000, File: "/lib/libjit.so", BuildID: ""}}
	case 5: // two mappings, sparse ids in any order
		a := uint64(rng.Intn(4) + 2)
		b := a + uint64(rng.Intn(4)+1)
		if rng.Intn(2) == 0 {
			a, b = b, a
		}
		mappings = []*pprof.Mapping{{ID: a, Start: 0x1000, Limit: 0x9000, File: "/bin/app", BuildID: "abc"},
			{ID: b, Start: 0x10000, Limit: 0x90000, File: "/lib/libjit.so", BuildID: "def"}}
	}
	p.Mapping = append(p.Mapping, mappings...)
	mapMode := rng.Intn(3) // 0: every location unmapped, 1: mixed, 2: every location mapped (when there is a mapping)
	fnID := uint64(rng.Intn(5) + 1)
	locID := uint64(rng.Intn(5) + 1)
	funcs := map[string][]*pprof.Function{}
	locs := map[string][]*pprof.Location{}
	newLoc := func(atom string) *pprof.Location {
		l := &pprof.Location{ID: locID, Address: 0x1000 + locID*16}
		locID += uint64(rng.Intn(3) + 1)
		if len(mappings) > 0 && (mapMode == 2 || (mapMode == 1 && rng.Intn(2) == 0)) {
			l.Mapping = mappings[rng.Intn(len(mappings))]
		}
		if cl != nil {
			switch {
			case l.Mapping == nil:
				cl["payload_location_unmapped"]++
			case l.Mapping.ID > uint64(len(mappings)):
				cl["payload_location_sparse_mapping_id"]++
			case l.Mapping == mappings[0]:
				cl["payload_location_mapped"]++
			default:
				cl["payload_location_second_mapping"]++
			}
		}
		if c.Names[atom] != noLine {
			fs := funcs[atom]
			if len(fs) == 0 || (len(fs) < 2 && rng.Intn(2) == 0) {
				f := &pprof.Function{ID: fnID, Name: c.Names[atom], SystemName: fmt.Sprintf("sys_%s_%d", atom, fnID),
					Filename: fmt.Sprintf("/src/%s_%d.go", atom, len(fs)), StartLine: int64(rng.Intn(100))}
				fnID += uint64(rng.Intn(3) + 1)
				funcs[atom] = append(funcs[atom], f)
				p.Function = append(p.Function, f)
				fs = funcs[atom]
			}
			l.Line = []pprof.Line{{Function: fs[rng.Intn(len(fs))], Line: int64(rng.Intn(1000))}}
		}
		locs[atom] = append(locs[atom], l)
		p.Location = append(p.Location, l)
		return l
	}
	for _, s := range prof {
		for n := 0; n < s.N; n++ {
			smp := &pprof.Sample{Value: append([]int64(nil), s.Val...)}
			for _, atom := range s.Stack {
				var l *pprof.Location
				if ls := locs[atom]; len(ls) > 0 && (rng.Intn(3) != 0 || (len(s.Stack) > 64 && rng.Intn(16) != 0)) {
					l = ls[rng.Intn(len(ls))]
				} else {
					l = newLoc(atom)
				}
				smp.Location = append(smp.Location, l)
			}
			if rng.Intn(4) == 0 {
				smp.Label = map[string][]string{"thread": {fmt.Sprint(rng.Intn(3))}}
			}
			p.Sample = append(p.Sample, smp)
		}
	}
	rng.Shuffle(len(p.Sample), func(i, j int) { p.Sample[i], p.Sample[j] = p.Sample[j], p.Sample[i] })
	rng.Shuffle(len(p.Function), func(i, j int) { p.Function[i], p.Function[j] = p.Function[j], p.Function[i] })
	rng.Shuffle(len(p.Location), func(i, j int) { p.Location[i], p.Location[j] = p.Location[j], p.Location[i] })
	return p
}

// ---------- the real writer ----------

func ingestCtx() context.Context {
	ctx := context.WithValue(context.Background(), "from", "1700000000")
	ctx = context.WithValue(ctx, "until", "1700000010")
	ctx = context.WithValue(ctx, "name", "app.cpu{foo=bar,baz=qux}")
	return ctx
}

func drain(ch chan *wmodel.ParserResponse) (pd *wmodel.ProfileData, err error) {
	for r := range ch {
		if r.Error != nil {
			err = r.Error
		}
		if r.ProfileRequest != nil {
			if d, ok := r.ProfileRequest.(*wmodel.ProfileData); ok && d != nil {
				pd = d
			}
		}
	}
	return
}

// parseReal runs the parser the /ingest route registers for the content type.
func parseReal(route string, p *pprof.Profile) (pd *wmodel.ProfileData, err error) {
	defer func() {
		if r := recover(); r != nil {
			err = fmt.Errorf("panic: %v", r)
		}
	}()
	switch route {
	case "multipart":
		var gz bytes.Buffer
		if err := p.Write(&gz); err != nil { // gzip-compressed, what pyroscope clients upload
			return nil, fmt.Errorf("driver: pprof write: %w", err)
		}
		var body bytes.Buffer
		mw := multipart.NewWriter(&body)
		fw, _ := mw.CreateFormFile("profile", "profile.pprof")
		fw.Write(gz.Bytes())
		mw.Close()
		return drain(unmarshal.UnmarshalProfileProtoV2(ingestCtx(), &body, nil))
	case "binary":
		var raw bytes.Buffer
		if err := p.WriteUncompressed(&raw); err != nil {
			return nil, fmt.Errorf("driver: pprof write: %w", err)
		}
		return drain(unmarshal.UnmarshalBinaryStreamProfileProtoV2(ingestCtx(), &raw, nil))
	case "binarygz":
		var gz bytes.Buffer
		if err := p.Write(&gz); err != nil {
			return nil, fmt.Errorf("driver: pprof write: %w", err)
		}
		return drain(unmarshal.UnmarshalBinaryStreamProfileProtoV2(ingestCtx(), &gz, nil))
	}
	return nil, fmt.Errorf("driver: unknown route")
}

// ---------- mapping real ids to abstract paths ----------

func key(id []string) string { return strings.Join(id, "/") }

type realNode struct {
	Parent, Fn, ID uint64
	Path           []string
	Self, Total    []int64 // per sample type of the case, by name lookup (arrayFirst semantics of the reader SQL)
}

// resolve maps the stored rows of one profile to the ids of the expected tree by following parent ids and function
// names from the root: trie holds key(parent id)+"\x00"+function symbol -> id of the expected (merged) tree; a stored
// node the expected tree does not have gets the id parent+symbol (marked "?" in a stretched case, whose ids are compact).
func resolve(c *Concrete, atoms []string, k int, pd *wmodel.ProfileData, trie map[string][]string, stretched bool) (map[uint64]*realNode, string) {
	name2atom := map[string]string{}
	for _, a := range atoms {
		name2atom[c.realName(a)] = a
	}
	fnName := map[uint64]string{}
	for _, f := range pd.Function {
		if old, ok := fnName[f.ValueInt64]; ok && old != f.ValueStr {
			return nil, fmt.Sprintf("function id %d listed with two names %q and %q", f.ValueInt64, old, f.ValueStr)
		}
		fnName[f.ValueInt64] = f.ValueStr
	}
	nodes := map[uint64]*realNode{}
	for _, t := range pd.Tree {
		if _, dup := nodes[t.Field3]; dup {
			return nil, fmt.Sprintf("node id %d stored twice", t.Field3)
		}
		n := &realNode{Parent: t.Field1, Fn: t.Field2, ID: t.Field3, Self: make([]int64, k), Total: make([]int64, k)}
		for j := 0; j < k; j++ {
			for _, v := range t.ValueArrTuple {
				if v.ValueStr == c.typeName(j) {
					n.Self[j], n.Total[j] = v.FirstValueInt64, v.SecondValueInt64
					break
				}
			}
		}
		nodes[t.Field3] = n
	}
	for _, start := range nodes {
		// climb to the first ancestor whose path is known (or the root), then name the chain top down
		var chain []*realNode
		for cur := start; cur.Path == nil; {
			chain = append(chain, cur)
			if len(chain) > len(nodes) {
				return nil, "parent chain does not end at the root"
			}
			if cur.Parent == 0 {
				break
			}
			par, ok := nodes[cur.Parent]
			if !ok {
				return nil, fmt.Sprintf("node %d has parent %d which is not stored", cur.ID, cur.Parent)
			}
			cur = par
		}
		for i := len(chain) - 1; i >= 0; i-- {
			n := chain[i]
			nm, ok := fnName[n.Fn]
			if !ok {
				return nil, fmt.Sprintf("node %d refers to function id %d which is not in the function rows", n.ID, n.Fn)
			}
			atom, ok := name2atom[nm]
			if !ok {
				return nil, fmt.Sprintf("function name %q is none of the profile's functions", nm)
			}
			var pp []string
			if n.Parent != 0 {
				pp = nodes[n.Parent].Path
			}
			if id, ok := trie[key(pp)+"\x00"+atom]; ok {
				n.Path = id
			} else if stretched {
				n.Path = append(append([]string{}, pp...), "?"+atom)
			} else {
				n.Path = append(append([]string{}, pp...), atom)
			}
		}
	}
	return nodes, ""
}

// ---------- reader side ----------

func rowOf(n *realNode, ty int) []any {
	return []any{n.Parent, n.Fn, n.ID, n.Self[ty], n.Total[ty]}
}

func fnRows(pd *wmodel.ProfileData) [][]any {
	var r [][]any
	for _, f := range pd.Function {
		r = append(r, []any{f.ValueInt64, f.ValueStr})
	}
	return r
}

type readerOut struct {
	Tree   map[string]ObsNode
	Levels [][]Bar
	Total  int64
	Err    string
}

// runReader feeds the rows (in the given order, cut into calls by chunks) to the real MergeTrie, then BFS.
func runReader(c *Concrete, atoms []string, id2path map[uint64][]string, fnOf map[string]string, rows [][]any, chunks []int, fns [][]any, ty int) (out readerOut) {
	defer func() {
		if r := recover(); r != nil {
			out.Err = fmt.Sprintf("panic: %v", r)
		}
	}()
	st := c.typeName(ty)
	t := rsvc.NewTree()
	t.SampleTypes = []string{st}
	pos := 0
	for _, n := range chunks {
		t.MergeTrie(rows[pos:pos+n], fns, st)
		pos += n
	}
	if len(chunks) == 0 {
		t.MergeTrie(nil, fns, st)
	}
	out.Tree = map[string]ObsNode{}
	for parent, kids := range t.Nodes {
		var pp []string
		if parent != 0 {
			var ok bool
			if pp, ok = id2path[parent]; !ok {
				out.Err = fmt.Sprintf("merged tree has children under unknown parent id %d", parent)
				return
			}
		}
		for _, kid := range kids {
			p, ok := id2path[kid.NodeID]
			if !ok {
				out.Err = fmt.Sprintf("merged tree has unknown node id %d", kid.NodeID)
				return
			}
			kp := key(p)
			if _, dup := out.Tree[kp]; dup {
				out.Err = fmt.Sprintf("merged tree holds node %v twice", p)
				return
			}
			if len(kid.Self) != 1 || len(kid.Total) != 1 {
				out.Err = "merged node without exactly one value per selected sample type"
				return
			}
			fn := "?"
			if f, ok := fnOf[kp]; ok {
				fn = f
			} else if len(p) > 0 {
				fn = p[len(p)-1]
			}
			if idx, ok := t.NamesMap[kid.FnID]; !ok || idx >= len(t.Names) || t.Names[idx] != c.realName(fn) {
				out.Err = fmt.Sprintf("merged node %v: function id %d does not resolve to name %q", p, kid.FnID, c.realName(fn))
				return
			}
			out.Tree[kp] = ObsNode{ID: p, Parent: append([]string{}, pp...), Fn: fn, Self: kid.Self[0], Total: kid.Total[0]}
		}
	}
	name2atom := map[string]string{}
	for _, a := range atoms {
		name2atom[c.realName(a)] = a
	}
	levels := t.BFS(st)
	if levels == nil {
		out.Err = "BFS returned nil for the selected sample type"
		return
	}
	for li, l := range levels {
		if len(l.Values)%4 != 0 {
			out.Err = "level length is not a multiple of 4"
			return
		}
		var bars []Bar
		for i := 0; i < len(l.Values); i += 4 {
			idx := l.Values[i+3]
			fn := ""
			switch {
			case idx < 0 || int(idx) >= len(t.Names):
				fn = fmt.Sprintf("?badindex%d", idx)
			case li == 0 && idx == 0:
				fn = "total"
			default:
				if a, ok := name2atom[t.Names[idx]]; ok && idx != 0 {
					fn = a
				} else {
					fn = "?" + t.Names[idx]
				}
			}
			bars = append(bars, Bar{Off: l.Values[i], Total: l.Values[i+1], Self: l.Values[i+2], Fn: fn})
		}
		out.Levels = append(out.Levels, bars)
	}
	for len(out.Levels) > 0 && len(out.Levels[len(out.Levels)-1]) == 0 { // the loop's trailing empty level(s)
		out.Levels = out.Levels[:len(out.Levels)-1]
	}
	tot := t.Total()
	if len(tot) != 1 {
		out.Err = "Total() has not one entry"
		return
	}
	out.Total = tot[0]
	return
}

// nestDirect reads the statement's "every level's bars nest inside their parent's span" straight off the levels:
// bars of a level are disjoint and ordered (offsets >= 0) and each lies inside the span of some bar one level up.
func nestDirect(levels [][]Bar) string {
	type span struct{ a, b int64 }
	var prev []span
	for li, l := range levels {
		var cur []span
		x := int64(0)
		for bi, b := range l {
			if b.Off < 0 || b.Total < 0 {
				return fmt.Sprintf("level %d bar %d has negative offset/width", li, bi)
			}
			x += b.Off
			s := span{x, x + b.Total}
			x += b.Total
			if li > 0 {
				ok := false
				for _, p := range prev {
					if p.a <= s.a && s.b <= p.b {
						ok = true
						break
					}
				}
				if !ok {
					return fmt.Sprintf("level %d bar %d [%d,%d) lies in no bar of level %d", li, bi, s.a, s.b, li-1)
				}
			}
			cur = append(cur, s)
		}
		prev = cur
	}
	return ""
}

// ---------- comparison helpers ----------

func eqVec(a, b []int64) bool {
	if len(a) != len(b) {
		return false
	}
	for i := range a {
		if a[i] != b[i] {
			return false
		}
	}
	return true
}

func eqLevels(a, b [][]Bar) bool {
	if len(a) != len(b) {
		return false
	}
	for i := range a {
		if len(a[i]) != len(b[i]) {
			return false
		}
		for j := range a[i] {
			if a[i][j] != b[i][j] {
				return false
			}
		}
	}
	return true
}

func atomsOf(cs *Case) []string {
	set := map[string]bool{}
	for _, p := range cs.Profs {
		for _, s := range p {
			for _, a := range s.Stack {
				set[a] = true
			}
		}
	}
	var r []string
	for a := range set {
		r = append(r, a)
	}
	sort.Strings(r)
	return r
}

func hasEmptyStackWeight(p []Sample) bool {
	for _, s := range p {
		if len(s.Stack) == 0 {
			for _, v := range s.Val {
				if v != 0 {
					return true
				}
			}
		}
	}
	return false
}

// ---------- reservoirs of observations ----------

type prioObs struct {
	prio uint64
	obs  Obs
}

// reservoir keeps the max observations with the smallest seeded priorities: a uniform sample that does not depend on
// how the cases are scheduled over the workers.
type reservoir struct {
	max   int
	seen  int
	items []prioObs
	cut   uint64
}

func (r *reservoir) offer(rng *rand.Rand, mk func() Obs) {
	r.seen++
	pr := rng.Uint64()
	if len(r.items) >= r.max && pr >= r.cut {
		return
	}
	r.items = append(r.items, prioObs{pr, mk()})
	if len(r.items) >= 2*r.max {
		r.trim()
	}
}

func (r *reservoir) trim() {
	sort.Slice(r.items, func(i, j int) bool { return r.items[i].prio < r.items[j].prio })
	if len(r.items) > r.max {
		r.items = r.items[:r.max]
	}
	if len(r.items) == r.max && r.max > 0 {
		r.cut = r.items[len(r.items)-1].prio
	} else {
		r.cut = ^uint64(0)
	}
}

// ---------- depth stretching (ProfTree.tla: Chain / SPath / SBag / STree / SRows / SLevels) ----------
//
// TLC enumerates call paths of a few levels around the abstract clamp level LevelCap and proves on them that building,
// merging and laying out commute with stretching every level l into a chain of R[l] frames (StretchHom, StretchLayout).
// The driver applies that same map with real sizes: the levels 1..LevelCap together get as many frames as the code's
// level clamp (or one less / one more, or another bit-width boundary), the levels beyond it 1..thousands, so the
// abstract stacks below / at / beyond LevelCap become real stacks below / at / beyond the real limit.

type stretchPlan struct {
	R      []int           // frames per abstract level (index l-1)
	M      []int           // cycle length per level: 1 recursion, >= R[l] distinct functions, else mutual recursion
	Flat   map[string]bool // atoms that always recurse (locations without line info have one name)
	Cap    int             // abstract LevelCap
	Target int             // real depth the abstract level Cap is mapped to
}

func (pl *stretchPlan) display() map[string]interface{} {
	return map[string]interface{}{"frames_per_level": pl.R, "cycle_length_per_level": pl.M, "abstract_level_cap": pl.Cap,
		"level_cap_real_depth": pl.Target,
		"reading":              "level l of every abstract call path is a chain of frames_per_level[l] real frames (cycle 1 = recursion, cycle = frames: distinct functions f·k); node [.. f #j] = j-th frame of the chain of f, [.. f] = its last frame"}
}

func (pl *stretchPlan) sym(atom string, l, j int) string {
	k := 0
	if !pl.Flat[atom] {
		k = (j - 1) % pl.M[l-1]
	}
	if k == 0 {
		return atom
	}
	return atom + "~" + strconv.Itoa(k)
}

func splitSym(sy string) (string, int) {
	i := strings.LastIndex(sy, "~")
	if i < 0 {
		return sy, -1
	}
	k, err := strconv.Atoi(sy[i+1:])
	if err != nil {
		return sy, -1
	}
	return sy[:i], k
}

// chainID is the compact id of frame j of the chain of abstract node p (level len(p)).
func (pl *stretchPlan) chainID(p []string, j int) []string {
	if j >= pl.R[len(p)-1] {
		return p
	}
	return append(append([]string{}, p...), "#"+strconv.Itoa(j))
}

// depthOf is the real depth of the node with compact id id.
func (pl *stretchPlan) depthOf(id []string) int {
	d, l := 0, 0
	for _, e := range id {
		if strings.HasPrefix(e, "#") {
			j, _ := strconv.Atoi(e[1:])
			return d - pl.R[l-1] + j
		}
		if l < len(pl.R) {
			d += pl.R[l]
		} else {
			d++
		}
		l++
	}
	return d
}

func maxDepth(cs *Case) int {
	m := 0
	for _, p := range cs.Profs {
		for _, s := range p {
			if len(s.Stack) > m {
				m = len(s.Stack)
			}
		}
	}
	return m
}

var nearTargets = []int{127, 128, 255, 256, 257, 600, 1023, 1024, 1025}
var farTargets = []int{2047, 2048, 4095, 4096, 5000}

func choosePlan(rng *rand.Rand, cs *Case, realCap int, flat map[string]bool) *stretchPlan {
	maxd := maxDepth(cs)
	if maxd == 0 {
		return nil
	}
	c := cs.Cap
	if c < 1 {
		c = 2
	}
	pl := &stretchPlan{Flat: flat, Cap: c}
	switch x := rng.Intn(100); {
	case x < 68:
		pl.Target = realCap + []int{-1, 0, 0, 1}[rng.Intn(4)]
	case x < 92:
		pl.Target = nearTargets[rng.Intn(len(nearTargets))]
	default:
		pl.Target = farTargets[rng.Intn(len(farTargets))]
	}
	if pl.Target < c {
		pl.Target = c
	}
	n := c
	if maxd > n {
		n = maxd
	}
	pl.R = make([]int, n)
	for i := range pl.R {
		pl.R[i] = 1
	}
	// the levels 1..c share Target frames
	spare := pl.Target - c
	switch rng.Intn(4) {
	case 0:
		pl.R[0] += spare
	case 1:
		pl.R[c-1] += spare
	case 2:
		for i := 0; i < c; i++ {
			pl.R[i] += spare / c
		}
		pl.R[rng.Intn(c)] += spare % c
	default:
		for i := 0; i < c-1 && spare > 0; i++ {
			k := rng.Intn(spare + 1)
			pl.R[i] += k
			spare -= k
		}
		pl.R[c-1] += spare
	}
	// the levels beyond the clamp
	budget := 9000 - pl.Target
	for i := c; i < n; i++ {
		r := 1
		switch x := rng.Intn(100); {
		case x < 45:
		case x < 60:
			r = 2
		case x < 70:
			r = 3
		case x < 84:
			r = 89
		case x < 95:
			r = 513
		default:
			r = 1500 + rng.Intn(1500)
		}
		if r > budget {
			r = 1
		}
		budget -= r
		pl.R[i] = r
	}
	pl.M = make([]int, n)
	for i := range pl.M {
		switch x := rng.Intn(100); {
		case x < 40 || pl.R[i] == 1:
			pl.M[i] = 1
		case x < 75:
			pl.M[i] = pl.R[i]
		default:
			pl.M[i] = 2 + rng.Intn(2)
		}
	}
	return pl
}

// account books the depth classes a stretched case exercises.
func (pl *stretchPlan) account(cl map[string]int, cs *Case, realCap int) {
	for _, p := range cs.Profs {
		for _, s := range p {
			if len(s.Stack) == 0 {
				continue
			}
			d := 0
			for l := 1; l <= len(s.Stack); l++ {
				d += pl.R[l-1]
			}
			switch {
			case d < realCap:
				cl["real_stack_below_level_clamp"]++
			case d == realCap:
				cl["real_stack_at_level_clamp"]++
			case d == realCap+1:
				cl["real_stack_one_beyond_level_clamp"]++
			default:
				cl["real_stack_beyond_level_clamp"]++
			}
			if d >= 2000 {
				cl["real_stack_of_thousands_of_frames"]++
			}
			switch {
			case len(s.Stack) < pl.Cap:
				cl["abstract_stack_below_cap"]++
			case len(s.Stack) == pl.Cap:
				cl["abstract_stack_at_cap"]++
			default:
				cl["abstract_stack_beyond_cap"]++
			}
		}
	}
	for i := range pl.R {
		switch {
		case pl.R[i] == 1:
		case pl.M[i] == 1:
			cl["level_stretched_by_recursion"]++
		case pl.M[i] >= pl.R[i]:
			cl["level_stretched_by_distinct_functions"]++
		default:
			cl["level_stretched_by_mutual_recursion"]++
		}
	}
}

func (pl *stretchPlan) nodes(ns []Node, k int) []Node {
	var out []Node
	zero := make([]int64, k)
	for _, n := range ns {
		l := len(n.ID)
		prev := n.Parent
		for j := 1; j <= pl.R[l-1]; j++ {
			id := pl.chainID(n.ID, j)
			self := zero
			if j == pl.R[l-1] {
				self = n.Self
			}
			out = append(out, Node{ID: id, Parent: prev, Fn: pl.sym(n.Fn, l, j), Self: self, Total: n.Total})
			prev = id
		}
	}
	return out
}

func (pl *stretchPlan) layout(lo Layout) Layout {
	out := Layout{Total: lo.Total, Maxself: lo.Maxself}
	for l, lvl := range lo.Levels {
		if l == 0 {
			out.Levels = append(out.Levels, lvl)
			continue
		}
		for j := 1; j <= pl.R[l-1]; j++ {
			bars := make([]Bar, len(lvl))
			for b, bar := range lvl {
				bars[b] = Bar{Off: bar.Off, Total: bar.Total, Fn: pl.sym(bar.Fn, l, j)}
				if j == pl.R[l-1] {
					bars[b].Self = bar.Self
				}
			}
			out.Levels = append(out.Levels, bars)
		}
	}
	return out
}

// stretchCase is ProfTree!SBag / STree / SRows / SLevels applied to an exported case.
func stretchCase(cs *Case, pl *stretchPlan) *Case {
	out := &Case{Cfg: cs.Cfg, K: cs.K, Cap: cs.Cap, Sums: cs.Sums, Stacked: cs.Stacked, Roots: cs.Roots}
	for _, p := range cs.Profs {
		sp := []Sample{}
		for _, s := range p {
			d := len(s.Stack)
			var rootFirst []string
			for l := 1; l <= d; l++ {
				for j := 1; j <= pl.R[l-1]; j++ {
					rootFirst = append(rootFirst, pl.sym(s.Stack[d-l], l, j))
				}
			}
			st := make([]string, len(rootFirst))
			for i, f := range rootFirst {
				st[len(rootFirst)-1-i] = f
			}
			sp = append(sp, Sample{Stack: st, Val: s.Val, N: s.N})
		}
		out.Profs = append(out.Profs, sp)
	}
	for _, t := range cs.Trees {
		st := pl.nodes(t, cs.K)
		if st == nil {
			st = []Node{}
		}
		out.Trees = append(out.Trees, st)
	}
	out.Merged = pl.nodes(cs.Merged, cs.K)
	for _, r := range cs.Rows {
		for j := 1; j <= pl.R[len(r.ID)-1]; j++ {
			out.Rows = append(out.Rows, RowRef{P: r.P, ID: pl.chainID(r.ID, j)})
		}
	}
	for _, lo := range cs.Asc {
		out.Asc = append(out.Asc, pl.layout(lo))
	}
	for _, lo := range cs.Desc {
		out.Desc = append(out.Desc, pl.layout(lo))
	}
	return out
}

// slim keeps a report readable when the payload is a tree of thousands of nodes.
func slim(v interface{}) interface{} {
	if v == nil {
		return nil
	}
	b, err := json.Marshal(v)
	if err != nil || len(b) <= 3000 {
		return v
	}
	return map[string]interface{}{"json_bytes": len(b), "head": string(b[:1500]), "tail": string(b[len(b)-600:])}
}

// probeLevelClamp asks the real writer where its node ids stop counting levels: one stack of distinct functions far
// deeper than any plausible limit; the level field of the stored node ids (top 9 bits) saturates at the clamp.  The
// answer only positions the depths the stretched cases aim at; 0 = no answer.
func probeLevelClamp() int {
	p := &pprof.Profile{PeriodType: &pprof.ValueType{Type: "cpu", Unit: "nanoseconds"}, Period: 1, TimeNanos: 1700000000000000000, DurationNanos: 1,
		SampleType: []*pprof.ValueType{{Type: "cpu", Unit: "nanoseconds"}}}
	smp := &pprof.Sample{Value: []int64{1}}
	for i := 0; i < 3000; i++ {
		f := &pprof.Function{ID: uint64(i + 1), Name: "probe.f" + strconv.Itoa(i)}
		l := &pprof.Location{ID: uint64(i + 1), Line: []pprof.Line{{Function: f, Line: 1}}}
		p.Function = append(p.Function, f)
		p.Location = append(p.Location, l)
		smp.Location = append(smp.Location, l)
	}
	p.Sample = []*pprof.Sample{smp}
	pd, err := parseReal("binary", p)
	if err != nil || pd == nil {
		return 0
	}
	seen := map[uint64]bool{}
	top := uint64(0)
	for _, t := range pd.Tree {
		lv := t.Field3 >> 55
		seen[lv] = true
		if lv > top {
			top = lv
		}
	}
	for lv := uint64(1); lv <= top; lv++ { // a level counter: every level up to the top one occurs
		if !seen[lv] {
			return 0
		}
	}
	if top < 2 || top >= 3000 {
		return 0
	}
	return int(top)
}

// ---------- one case ----------

var routes = []string{"multipart", "binary", "binarygz"}

func sortedTree(m map[string]ObsNode) []ObsNode {
	var ks []string
	for k := range m {
		ks = append(ks, k)
	}
	sort.Strings(ks)
	r := []ObsNode{}
	for _, k := range ks {
		r = append(r, m[k])
	}
	return r
}

type auxStats struct {
	Runs, Panics, WeightMismatch, Errors int
	PanicMsgs                            map[string]int
	PanicByClass                         map[string]int
	DeepRefusals                         map[string]int
	FirstPanicCase, FirstMismatchCase    interface{}
}

// stackKey names a stack by the function names the writer records (leaf first).
func stackKey(names []string) string { return strconv.Itoa(len(names)) + "\x00" + strings.Join(names, "\x00") } // (the empty stack and the stack of one function named "" differ)

// payloadMerge is the binding of ProfTree!PayloadMerged: the stored payloads of the case's profiles are merged by the REAL
// ProfileMergeV2 (what SelectMergeProfile answers) in the given order of the profiles; the merged profile, read back as a
// bag of (stack of function names, values), must carry for every stack the value vector of the specification -- no stack
// lost, none invented, the totals the sums of the inputs.
func (w *worker) payloadMerge(cs *Case, c *Concrete, pds []*wmodel.ProfileData, order []int,
	mk func(kind, sigTail, msg string, exp, obs interface{})) {
	w.res.Classes["payload_merge_runs"]++
	want := map[string][]int64{}
	show := map[string][]string{}
	inOrder := map[int]bool{}
	for _, i := range order {
		inOrder[i] = true
	}
	if len(inOrder) != len(cs.Profs) { // (always every profile of the case: PayloadMerged is the merge of all of them)
		return
	}
	for _, ps := range cs.PMerged {
		names := make([]string, len(ps.Stack))
		for i, a := range ps.Stack {
			names[i] = c.realName(a)
		}
		want[stackKey(names)] = ps.Val
		show[stackKey(names)] = ps.Stack
	}
	got := map[string][]int64{}
	var mp *rprof.Profile
	err := func() (err error) {
		defer func() {
			if r := recover(); r != nil {
				err = fmt.Errorf("panic: %v", r)
			}
		}()
		m := rsvc.NewProfileMergeV2()
		for _, i := range order {
			for _, payload := range pds[i].Payload {
				var p rprof.Profile
				if e := proto.Unmarshal(payload, &p); e != nil {
					return fmt.Errorf("driver: unmarshal of a stored payload: %w", e)
				}
				if e := m.Merge(&p); e != nil {
					return e
				}
			}
		}
		mp = m.Profile()
		for si, s := range mp.Sample {
			names := make([]string, len(s.LocationId))
			for i, id := range s.LocationId {
				if id == 0 || id > uint64(len(mp.Location)) {
					return fmt.Errorf("dangling: sample %d refers to location %d of %d", si, id, len(mp.Location))
				}
				loc := mp.Location[id-1]
				if len(loc.Line) == 0 {
					names[i] = "n/a"
					continue
				}
				fid := loc.Line[0].FunctionId
				if fid == 0 || fid > uint64(len(mp.Function)) {
					return fmt.Errorf("dangling: location %d refers to function %d of %d", id, fid, len(mp.Function))
				}
				ni := mp.Function[fid-1].Name
				if ni < 0 || ni >= int64(len(mp.StringTable)) {
					return fmt.Errorf("dangling: function %d refers to string %d of %d", fid, ni, len(mp.StringTable))
				}
				names[i] = mp.StringTable[ni]
			}
			k := stackKey(names)
			if got[k] == nil {
				got[k] = make([]int64, cs.K)
			}
			if len(s.Value) != cs.K {
				return fmt.Errorf("dangling: sample %d has %d values, the profile %d sample types", si, len(s.Value), cs.K)
			}
			for j, v := range s.Value {
				got[k][j] += v
			}
		}
		return nil
	}()
	if err != nil {
		switch {
		case strings.HasPrefix(err.Error(), "driver:"):
			fmt.Fprintln(os.Stderr, "driver error:", err)
			os.Exit(3)
		case strings.HasPrefix(err.Error(), "panic"):
			mk("payload_merge", "panic", fmt.Sprintf("merging the stored payloads in profile order %v: the real ProfileMergeV2 crashed: %v", order, err), cs.PMerged, nil)
		case strings.HasPrefix(err.Error(), "dangling"):
			mk("payload_merge", "dangling_reference", fmt.Sprintf("merging the stored payloads in profile order %v: the merged profile is not well-formed: %v", order, err), cs.PMerged, nil)
		default:
			mk("payload_merge", "error", fmt.Sprintf("merging the stored payloads in profile order %v: the real ProfileMergeV2 refused profiles of one sample type list: %v", order, err), cs.PMerged, nil)
		}
		return
	}
	zero := func(v []int64) bool {
		for _, x := range v {
			if x != 0 {
				return false
			}
		}
		return true
	}
	disp := func(k string) []string { return strings.Split(k, "\x00")[1:] }
	keys := make([]string, 0, len(want))
	for k := range want {
		keys = append(keys, k)
	}
	sort.Strings(keys)
	for _, k := range keys {
		g, present := got[k]
		switch {
		case !present && zero(want[k]): // a stack of weight 0 need not be kept
		case !present:
			mk("payload_merge", "lost_stack", fmt.Sprintf("merging the stored payloads in profile order %v: the stack %v (leaf first; functions %q) of weight %v is not in the merged profile",
				order, show[k], disp(k), want[k]), cs.PMerged, got)
		case !eqVec(g, want[k]):
			mk("payload_merge", "stack_weight", fmt.Sprintf("merging the stored payloads in profile order %v: the stack %v (leaf first; functions %q) has the merged values %v, the sums of the inputs are %v",
				order, show[k], disp(k), g, want[k]), cs.PMerged, got)
		}
	}
	gk := make([]string, 0, len(got))
	for k := range got {
		gk = append(gk, k)
	}
	sort.Strings(gk)
	for _, k := range gk {
		if _, present := want[k]; !present && !zero(got[k]) {
			mk("payload_merge", "invented_stack", fmt.Sprintf("merging the stored payloads in profile order %v: the merged profile has the stack %q of weight %v that no input has",
				order, disp(k), got[k]), cs.PMerged, got)
		}
	}
	w.res.Classes["payload_stacks_compared"] += len(want)
}

func (w *worker) auxMergeV2(cs *Case, c *Concrete, pds []*wmodel.ProfileData, order []int) {
	w.aux.Runs++
	var got []int64
	err := func() (err error) {
		defer func() {
			if r := recover(); r != nil {
				err = fmt.Errorf("panic: %v", r)
			}
		}()
		m := rsvc.NewProfileMergeV2()
		for _, i := range order {
			for _, payload := range pds[i].Payload {
				var p rprof.Profile
				if e := proto.Unmarshal(payload, &p); e != nil {
					return fmt.Errorf("unmarshal payload: %w", e)
				}
				if e := m.Merge(&p); e != nil {
					return e
				}
			}
		}
		mp := m.Profile()
		got = make([]int64, cs.K)
		for _, s := range mp.Sample {
			for j, v := range s.Value {
				if j < cs.K {
					got[j] += v
				}
			}
		}
		return nil
	}()
	if err != nil {
		if strings.HasPrefix(err.Error(), "panic") {
			w.aux.Panics++
			w.aux.PanicMsgs[err.Error()]++
			cl := ""
			for _, i := range order {
				for _, sm := range cs.Profs[i] {
					if len(sm.Stack) == 0 && !strings.Contains(cl, "empty_stack") {
						cl += "+empty_stack"
					}
					for _, a := range sm.Stack {
						if c.Names[a] == noLine && !strings.Contains(cl, "lineless") {
							cl += "+lineless_location"
						}
					}
				}
			}
			if cl == "" {
				cl = "neither"
			}
			w.aux.PanicByClass[cl]++
			if w.aux.FirstPanicCase == nil {
				w.aux.FirstPanicCase = map[string]interface{}{"profs": cs.Profs, "concrete": c.display(), "err": err.Error()}
			}
		} else {
			w.aux.Errors++
		}
		return
	}
	want := make([]int64, cs.K)
	for _, i := range order {
		for j := range want {
			want[j] += cs.Sums[i][j]
		}
	}
	if !eqVec(got, want) {
		w.aux.WeightMismatch++
		if w.aux.FirstMismatchCase == nil {
			w.aux.FirstMismatchCase = map[string]interface{}{"profs": cs.Profs, "concrete": c.display(), "got": got, "want": want}
		}
	}
}

func (w *worker) runCase(ci int, lineHash uint64, cs *Case, seed int64, permmax int, allPermsUpTo int, deepmod int, realCap int) {
	// seeded by the CONTENT of the case: the same case gets the same concretisation wherever it stands in the file
	rng := rand.New(rand.NewSource(seed*1000003 + int64(lineHash>>1)))
	atoms := atomsOf(cs)
	c := concretise(rng, atoms, cs.K)
	for _, a := range atoms {
		n := c.Names[a]
		if n == noLine {
			n = "<noline>"
		}
		w.res.NamePoolUsed[n]++
	}
	np := len(cs.Profs)
	w.res.Cases++
	w.res.Profiles += np
	// ---- classes (vacuity accounting) ----
	nontrivial := false
	for pi, p := range cs.Profs {
		for _, s := range p {
			if len(s.Stack) == 0 {
				w.res.Classes["empty_stack_sample"]++
			}
			seen := map[string]bool{}
			for _, a := range s.Stack {
				if seen[a] {
					w.res.Classes["recursive_stack"]++
					break
				}
				seen[a] = true
			}
			for _, a := range s.Stack {
				if c.Names[a] == noLine {
					w.res.Classes["sample_with_lineless_location"]++
					break
				}
			}
		}
		if len(p) == 0 {
			w.res.Classes["profile_without_samples"]++
		}
		for _, n := range cs.Trees[pi] {
			if len(cs.Profs[pi]) > 1 {
				for j := range n.Total {
					if n.Total[j] != n.Self[j] && n.Self[j] != 0 {
						w.res.Classes["node_with_self_and_children"]++
						nontrivial = true
						break
					}
				}
			}
		}
		if len(cs.Trees[pi]) > 0 {
			nontrivial = true
		}
	}
	if np > 1 {
		w.res.Classes["multi_profile_case"]++
		cnt := 0
		for _, t := range cs.Trees {
			cnt += len(t)
		}
		if cnt > len(cs.Merged) {
			w.res.Classes["merge_with_shared_nodes"]++
		}
	}
	if nontrivial {
		w.res.NonTrivial++
	}

	w.runVariant(ci, cs, cs.Profs, c, atoms, rng, permmax, allPermsUpTo, nil)

	// ---- the same case with its call paths stretched to real depths (ProfTree!SBag / STree / SRows / SLevels) ----
	if dm := pick(cs.Deep, deepmod); dm > 0 && (lineHash>>7+uint64(seed))%uint64(dm) == 0 {
		rng2 := rand.New(rand.NewSource(seed*7919 + int64(lineHash>>2) + 0x5deece66d))
		flat := map[string]bool{}
		for _, a := range atoms {
			flat[a] = c.Names[a] == noLine
		}
		pl := choosePlan(rng2, cs, realCap, flat)
		if pl == nil {
			return
		}
		cs2 := stretchCase(cs, pl)
		atoms2 := atomsOf(cs2)
		c2 := &Concrete{Names: map[string]string{}, Types: c.Types, Base: c}
		for _, sy := range atoms2 {
			base, k := splitSym(sy)
			switch {
			case k < 0:
				c2.Names[sy] = c.Names[base]
			default:
				c2.Names[sy] = c.Names[base] + "\u00b7" + strconv.Itoa(k)
			}
		}
		w.res.Classes["stretched_cases"]++
		pl.account(w.res.Classes, cs, realCap)
		w.runVariant(ci, cs2, map[string]interface{}{"profs": cs.Profs, "stretch": pl.display()}, c2, atoms2, rng2, 1, 0, pl)
	}
}

func pick(a, b int) int {
	if a > 0 {
		return a
	}
	return b
}

// runVariant pushes one (plain or depth-stretched) case through the real writer and reader and compares with the
// expectation the case carries.  abs is what a report shows as the abstract case.
func (w *worker) runVariant(ci int, cs *Case, abs interface{}, c *Concrete, atoms []string, rng *rand.Rand, permmax int, allPermsUpTo int, pl *stretchPlan) {
	np := len(cs.Profs)
	stretched := pl != nil
	if stretched {
		w.res.Profiles += np
	}
	mk := func(kind, sigTail, msg string, exp, obs interface{}) {
		sig := kind
		if sigTail != "" {
			sig += "|" + sigTail
		}
		if stretched {
			if !(kind == "root_sum" && sigTail == "empty_stack") { // (that one is no matter of depth: same signature as in the plain case)
				sig += "|deep"
			}
			exp, obs = slim(exp), slim(obs)
		}
		weight := 0
		if stretched {
			for _, r := range pl.R {
				weight += r
			}
		}
		w.report(Mismatch{Signature: sig, Kind: kind, Case: ci, Cfg: cs.Cfg, Msg: msg, Abstract: abs, Concrete: c.display(), Expected: exp, Observed: obs, Weight: weight})
	}
	at := func(id []string) string { // how a report names a node
		if !stretched {
			return fmt.Sprint(id)
		}
		return fmt.Sprintf("%v (frame %d of the real stack)", id, pl.depthOf(id))
	}
	trie := map[string][]string{}
	fnOf := map[string]string{}
	parentOf := map[string][]string{}
	for _, n := range cs.Merged {
		trie[key(n.Parent)+"\x00"+n.Fn] = n.ID
		fnOf[key(n.ID)] = n.Fn
		parentOf[key(n.ID)] = n.Parent
	}
	for _, t := range cs.Trees { // (= a subset of the merged tree; kept for a case whose expectation is inconsistent)
		for _, n := range t {
			if _, ok := fnOf[key(n.ID)]; !ok {
				trie[key(n.Parent)+"\x00"+n.Fn] = n.ID
				fnOf[key(n.ID)] = n.Fn
				parentOf[key(n.ID)] = n.Parent
			}
		}
	}
	// ---- writer: every profile through every route ----
	ok := true
	pds := make([]*wmodel.ProfileData, np)
	nodesOf := make([]map[uint64]*realNode, np)
	byPath := make([]map[string]*realNode, np)
	id2path := map[uint64][]string{}
	path2id := map[string]uint64{}
	for pi, p := range cs.Profs {
		pp := buildPprof(rng, c, cs.K, p, w.res.Classes)
		for ri, route := range routes {
			if ri == 2 && ((ci+pi)%4 != 0 || stretched) { // the gzip body on the binary route: every 4th profile
				continue
			}
			pd, err := parseReal(route, pp)
			w.res.Parses++
			if err != nil || pd == nil {
				kind := "parse_error"
				if err != nil && strings.HasPrefix(err.Error(), "panic") {
					kind = "panic"
				}
				if err != nil && strings.HasPrefix(err.Error(), "driver:") {
					fmt.Fprintln(os.Stderr, "driver error:", err)
					os.Exit(3)
				}
				if stretched && kind == "parse_error" {
					// a profile of thousands of frames may be refused (the multipart route limits the uncompressed body): nothing
					// is stored, nothing to conserve; booked, and the routes that accept it carry the comparison
					w.res.Classes["stretched_profile_refused_by_"+route]++
					msg := err.Error()
					if len(msg) > 120 {
						msg = msg[:120]
					}
					w.aux.DeepRefusals[route+": "+msg]++
					continue
				}
				mk(kind, "writer|"+route, fmt.Sprintf("route %s: the real parser rejected/crashed on a valid profile: %v", route, err), nil, nil)
				ok = false
				continue
			}
			nodes, e := resolve(c, atoms, cs.K, pd, trie, stretched)
			if e != "" {
				mk("tree_mismatch", "structure|"+route, "stored tree is not a tree over the profile's functions: "+e, cs.Trees[pi], pd.Tree)
				ok = false
				continue
			}
			bp := map[string]*realNode{}
			for _, n := range nodes {
				if o, dup := bp[key(n.Path)]; dup {
					mk("tree_mismatch", "duplicate_path|"+route, fmt.Sprintf("two stored nodes (%d, %d) for the same call path %v", o.ID, n.ID, n.Path), cs.Trees[pi], pd.Tree)
					ok = false
				}
				bp[key(n.Path)] = n
			}
			// stored tree == Build(profile) of the spec, per node and sample type
			exp := map[string]Node{}
			for _, n := range cs.Trees[pi] {
				exp[key(n.ID)] = n
			}
			var firstMissing *Node // stretched case: the shallowest missing frame stands for the missing rest of its chain
			nMissing := 0
			for k2, n := range exp {
				r, present := bp[k2]
				if !present {
					ok = false
					if stretched {
						nMissing++
						if firstMissing == nil || pl.depthOf(n.ID) < pl.depthOf(firstMissing.ID) {
							n2 := n
							firstMissing = &n2
						}
						continue
					}
					mk("tree_mismatch", "missing_node|"+route, fmt.Sprintf("profile %d: call path %s is not stored", pi+1, at(n.ID)), n, nil)
					continue
				}
				if !eqVec(r.Total, n.Total) {
					mk("tree_mismatch", "total|"+route, fmt.Sprintf("profile %d: node %s total %v, spec %v", pi+1, at(n.ID), r.Total, n.Total), n, r)
					ok = false
				}
				if !eqVec(r.Self, n.Self) {
					mk("tree_mismatch", "self|"+route, fmt.Sprintf("profile %d: node %s self %v, spec %v", pi+1, at(n.ID), r.Self, n.Self), n, r)
					ok = false
				}
			}
			if firstMissing != nil {
				mk("tree_mismatch", "missing_node|"+route, fmt.Sprintf("profile %d: call path %s is not stored (nor are %d deeper frames; %d of %d expected nodes are stored)", pi+1, at(firstMissing.ID), nMissing-1, len(exp)-nMissing, len(exp)), *firstMissing, nil)
			}
			for k2, r := range bp {
				if _, present := exp[k2]; !present {
					mk("tree_mismatch", "extra_node|"+route, fmt.Sprintf("profile %d: stored node for call path %v which no sample has", pi+1, r.Path), nil, r)
					ok = false
				}
			}
			// the statement, read directly off the real rows: conservation and root sum
			kidsum := map[uint64][]int64{}
			for _, n := range nodes {
				if kidsum[n.Parent] == nil {
					kidsum[n.Parent] = make([]int64, cs.K)
				}
				for j := range n.Total {
					kidsum[n.Parent][j] += n.Total[j]
				}
			}
			for _, n := range nodes {
				ks := kidsum[n.ID]
				if ks == nil {
					ks = make([]int64, cs.K)
				}
				for j := range n.Total {
					if n.Total[j] != n.Self[j]+ks[j] {
						mk("conservation", "stored|"+route, fmt.Sprintf("profile %d: node %s type %d: total %d != self %d + children %d", pi+1, at(n.Path), j+1, n.Total[j], n.Self[j], ks[j]), nil, n)
						ok = false
					}
				}
			}
			roots := kidsum[0]
			if roots == nil {
				roots = make([]int64, cs.K)
			}
			if !eqVec(roots, cs.Sums[pi]) {
				class := "other"
				if hasEmptyStackWeight(p) && eqVec(roots, cs.Stacked[pi]) {
					class = "empty_stack"
				}
				mk("root_sum", class, fmt.Sprintf("profile %d (%s): root totals %v != sum of the sample values %v", pi+1, route, roots, cs.Sums[pi]), cs.Sums[pi], roots)
			}
			if pds[pi] == nil { // the first route that took the profile feeds the reader part
				if stretched {
					w.res.Classes["stretched_profile_stored_by_"+route]++
				}
				pds[pi], nodesOf[pi], byPath[pi] = pd, nodes, bp
				for _, n := range nodes {
					if old, seen := path2id[key(n.Path)]; seen && old != n.ID {
						mk("merge_mismatch", "unstable_node_id", fmt.Sprintf("call path %v has node id %d in one profile and %d in another", n.Path, old, n.ID), nil, nil)
						ok = false
					}
					if old, seen := id2path[n.ID]; seen && key(old) != key(n.Path) {
						mk("merge_mismatch", "node_id_collision", fmt.Sprintf("node id %d stands for %v and %v", n.ID, old, n.Path), nil, nil)
						ok = false
					}
					path2id[key(n.Path)] = n.ID
					id2path[n.ID] = n.Path
				}
			}
		}
	}
	if !ok {
		return // the reader part needs the stored trees to be the spec's trees (row references are by call path)
	}
	for pi := range pds {
		if pds[pi] == nil { // (stretched case refused by every route)
			w.res.Classes["stretched_case_refused_by_every_route"]++
			return
		}
	}

	// ---- reader: merge + layout ----
	var fns [][]any
	for _, pd := range pds {
		fns = append(fns, fnRows(pd)...)
	}
	expMerged := map[string]Node{}
	for _, n := range cs.Merged {
		expMerged[key(n.ID)] = n
	}
	orders := 0
	for ty := 0; ty < cs.K; ty++ {
		rowFor := func(ref RowRef) []any {
			if ref.P == 0 { // aggregated over the profiles as the MergeJoinedPlanner SQL does (sum ... group by parent, fn, node)
				var acc []any
				for pi := range byPath {
					if n, ok := byPath[pi][key(ref.ID)]; ok {
						if acc == nil {
							acc = rowOf(n, ty)
						} else {
							acc[3] = acc[3].(int64) + n.Self[ty]
							acc[4] = acc[4].(int64) + n.Total[ty]
						}
					}
				}
				return acc
			}
			return rowOf(byPath[ref.P-1][key(ref.ID)], ty)
		}
		check := func(order string, refs []RowRef, chunks []int, expLayout *Layout) {
			rows := make([][]any, len(refs))
			for i, r := range refs {
				rows[i] = rowFor(r)
			}
			out := runReader(c, atoms, id2path, fnOf, rows, chunks, fns, ty)
			w.res.MergeRuns++
			orders++
			okind := strings.SplitN(order, ":", 2)[0]
			if out.Err != "" {
				kind := "merge_mismatch"
				if strings.HasPrefix(out.Err, "panic") {
					kind = "panic"
				}
				mk(kind, "reader|"+okind, fmt.Sprintf("type %d order %s: %s", ty+1, order, out.Err), nil, refs)
				return
			}
			// merged tree == MergeDef of the spec (order free)
			for k2, n := range expMerged {
				o, present := out.Tree[k2]
				if !present {
					mk("merge_mismatch", "missing_node|"+okind, fmt.Sprintf("type %d order %s: merged tree lacks %v", ty+1, order, n.ID), n, refs)
					return
				}
				if o.Total != n.Total[ty] || o.Self != n.Self[ty] || key(o.Parent) != key(n.Parent) {
					mk("merge_mismatch", "values|"+okind, fmt.Sprintf("type %d order %s: node %v self/total %d/%d under %v, spec %d/%d under %v", ty+1, order, n.ID, o.Self, o.Total, o.Parent, n.Self[ty], n.Total[ty], n.Parent), n, map[string]interface{}{"node": o, "rows": refs})
					return
				}
			}
			if len(out.Tree) != len(expMerged) {
				mk("merge_mismatch", "extra_node|"+okind, fmt.Sprintf("type %d order %s: merged tree has %d nodes, spec %d", ty+1, order, len(out.Tree), len(expMerged)), cs.Merged, sortedTree(out.Tree))
				return
			}
			// flame graph total = sum of the inputs
			var want int64
			for pi := range cs.Roots {
				want += cs.Roots[pi][ty]
			}
			if out.Total != want || len(out.Levels) == 0 || len(out.Levels[0]) != 1 || out.Levels[0][0].Total != want {
				mk("flame_total", okind, fmt.Sprintf("type %d order %s: flame graph total %d (level 0: %v), sum of the inputs %d", ty+1, order, out.Total, out.Levels, want), want, out.Total)
			}
			if e := nestDirect(out.Levels); e != "" {
				mk("layout_nesting", okind, fmt.Sprintf("type %d order %s: %s", ty+1, order, e), nil, out.Levels)
			}
			if expLayout != nil {
				w.res.CanonLayouts++
				if !eqLevels(out.Levels, expLayout.Levels) {
					mk("layout_mismatch", okind, fmt.Sprintf("type %d order %s: levels differ from the spec's layout", ty+1, order), expLayout.Levels, out.Levels)
				}
			} else if !stretched { // (TLC validates observations of the small cases; the stretched ones are compared here)
				w.resv[cs.K].offer(rng, func() Obs {
					if refs == nil {
						refs = []RowRef{}
					}
					return Obs{Case: ci, K: cs.K, Profs: cs.Profs, Ty: ty + 1, Order: order, Rows: refs, Tree: sortedTree(out.Tree), Levels: out.Levels, Total: out.Total}
				})
			}
		}
		one := func(n int) []int {
			if n == 0 {
				return nil
			}
			return []int{n}
		}
		chunking := func(n int) []int {
			mode := rng.Intn(3)
			if mode == 1 && n > 256 { // (every call walks all function rows: row-by-row calls only for the shorter row lists)
				mode = 2
			}
			switch mode {
			case 0:
				return one(n)
			case 1:
				r := make([]int, n)
				for i := range r {
					r[i] = 1
				}
				return r
			}
			var r []int
			for n > 0 {
				k := 1 + rng.Intn(n)
				r = append(r, k)
				n -= k
			}
			return r
		}
		// canonical orders with the layout computed by the spec
		asc := cs.Rows
		desc := make([]RowRef, len(asc))
		for i := range asc {
			desc[len(asc)-1-i] = asc[i]
		}
		check("asc", asc, one(len(asc)), &cs.Asc[ty])
		check("desc", desc, chunking(len(desc)), &cs.Desc[ty])
		// the order the writer stored the rows in, every order of the profiles
		writerRefs := make([][]RowRef, np)
		for pi := range pds {
			for _, t := range pds[pi].Tree {
				writerRefs[pi] = append(writerRefs[pi], RowRef{P: pi + 1, ID: id2path[t.Field3]})
			}
		}
		perm := make([]int, np)
		for i := range perm {
			perm[i] = i
		}
		var permute func(k int)
		permute = func(k int) {
			if k == np {
				if stretched && np > 1 { // long rows: the given order of the profiles and its reverse only
					asc, desc := true, true
					for i := range perm {
						asc = asc && perm[i] == i
						desc = desc && perm[i] == np-1-i
					}
					if !asc && !desc {
						return
					}
				}
				var refs []RowRef
				var ch []int
				for _, pi := range perm {
					refs = append(refs, writerRefs[pi]...)
					if len(writerRefs[pi]) > 0 {
						ch = append(ch, len(writerRefs[pi]))
					}
				}
				if rng.Intn(2) == 0 {
					ch = one(len(refs))
				}
				check(fmt.Sprintf("writer:%v", perm), refs, ch, nil)
				if ty == 0 && !stretched {
					w.auxMergeV2(cs, c, pds, perm)
					w.payloadMerge(cs, c, pds, perm, mk)
				}
				return
			}
			for i := k; i < np; i++ {
				perm[k], perm[i] = perm[i], perm[k]
				permute(k + 1)
				perm[k], perm[i] = perm[i], perm[k]
			}
		}
		permute(0)
		// what production feeds: rows summed per (parent, fn, node) and ordered by parent id
		var agg []RowRef
		for _, n := range cs.Merged {
			agg = append(agg, RowRef{P: 0, ID: n.ID})
		}
		rng.Shuffle(len(agg), func(i, j int) { agg[i], agg[j] = agg[j], agg[i] })
		sort.SliceStable(agg, func(i, j int) bool {
			pi, pj := uint64(0), uint64(0)
			if len(agg[i].ID) > 1 {
				pi = path2id[key(agg[i].ID[:len(agg[i].ID)-1])]
			}
			if len(agg[j].ID) > 1 {
				pj = path2id[key(agg[j].ID[:len(agg[j].ID)-1])]
			}
			return pi < pj
		})
		check("sqlagg", agg, one(len(agg)), nil)
		// every / many row orders of the raw rows
		var all []RowRef
		for pi := range writerRefs {
			all = append(all, writerRefs[pi]...)
		}
		fact := 1
		for i := 2; i <= len(all) && fact <= 720; i++ {
			fact *= i
		}
		if len(all) >= 2 && fact <= allPermsUpTo {
			idx := make([]int, len(all))
			for i := range idx {
				idx[i] = i
			}
			var rec func(k int)
			rec = func(k int) {
				if k == len(idx) {
					refs := make([]RowRef, len(idx))
					for i, x := range idx {
						refs[i] = all[x]
					}
					check("perm:all", refs, chunking(len(refs)), nil)
					return
				}
				for i := k; i < len(idx); i++ {
					idx[k], idx[i] = idx[i], idx[k]
					rec(k + 1)
					idx[k], idx[i] = idx[i], idx[k]
				}
			}
			rec(0)
			w.res.Classes["cases_with_all_row_orders"]++
		} else if len(all) >= 2 {
			for n := 0; n < permmax; n++ {
				refs := append([]RowRef{}, all...)
				rng.Shuffle(len(refs), func(i, j int) { refs[i], refs[j] = refs[j], refs[i] })
				check("perm:random", refs, chunking(len(refs)), nil)
			}
		}
	}
	if stretched {
		w.res.Classes["stretched_cases_through_reader"]++
		w.res.StretchedNodes += len(cs.Merged)
	}
	if orders > w.res.OrdersPerCaseMx {
		w.res.OrdersPerCaseMx = orders
	}
	if !stretched && w.res.Sample == nil && np >= 1 && len(cs.Merged) >= 3 {
		var tr []interface{}
		for _, t := range pds[0].Tree {
			tr = append(tr, map[string]interface{}{"parent": fmt.Sprint(t.Field1), "fn": fmt.Sprint(t.Field2), "node": fmt.Sprint(t.Field3), "values": t.ValueArrTuple, "path": id2path[t.Field3]})
		}
		w.res.Sample = map[string]interface{}{"case": ci, "cfg": cs.Cfg, "abstract": cs.Profs, "concrete": c.display(),
			"real_tree_rows_profile1": tr, "real_function_rows_profile1": pds[0].Function, "real_values_agg_profile1": pds[0].ValuesAgg,
			"spec_merged": cs.Merged, "spec_layout_asc": cs.Asc}
	}
}

func main() {
	if len(os.Args) < 2 || os.Args[1] != "run" {
		fmt.Fprintln(os.Stderr, "usage: c16 run -cases f.ndjson -out r.json -obs dir -seed S")
		os.Exit(2)
	}
	fs := flag.NewFlagSet("run", flag.ExitOnError)
	casesP := fs.String("cases", "", "ndjson of cases")
	outP := fs.String("out", "", "result json")
	obsP := fs.String("obs", "", "directory for obs_k<K>.ndjson")
	seed := fs.Int64("seed", 1, "seed")
	permmax := fs.Int("permmax", 6, "random row orders per case and sample type when not all orders are run")
	allperms := fs.Int("allperms", 24, "run ALL row orders of a case when there are at most this many")
	obsmax := fs.Int("obsmax", 1500, "observations kept per number of sample types")
	nw := fs.Int("workers", runtime.NumCPU(), "goroutines")
	deepmod := fs.Int("deepmod", 8, "every n-th case (by content hash and seed) is also run depth-stretched; 0 = only the cases marked deep")
	capDefault := fs.Int("levelclamp", 511, "level clamp of the node ids (used when the writer does not reveal it)")
	fs.Parse(os.Args[2:])

	// the parsers print diagnostics to stdout; the driver's own output goes to files
	devnull, _ := os.OpenFile(os.DevNull, os.O_WRONLY, 0)
	stdout := os.Stdout
	os.Stdout = devnull

	realCap := *capDefault
	probed := probeLevelClamp()
	if probed > 0 {
		realCap = probed
	}
	f, err := os.Open(*casesP)
	if err != nil {
		fmt.Fprintln(os.Stderr, err)
		os.Exit(2)
	}
	type job struct {
		ci   int
		line []byte
	}
	jobs := make(chan job, 256)
	workers := make([]*worker, *nw)
	var wg sync.WaitGroup
	for i := range workers {
		workers[i] = newWorker(*obsmax)
		wg.Add(1)
		go func(w *worker) {
			defer wg.Done()
			for j := range jobs {
				var cs Case
				if err := json.Unmarshal(j.line, &cs); err != nil {
					fmt.Fprintln(os.Stderr, "bad case line", j.ci, err)
					os.Exit(2)
				}
				if cs.K < 1 || cs.K > 3 {
					fmt.Fprintln(os.Stderr, "bad case: k", j.ci)
					os.Exit(2)
				}
				h := fnv.New64a()
				h.Write(j.line)
				w.runCase(j.ci, h.Sum64(), &cs, *seed, *permmax, *allperms, *deepmod, realCap)
			}
		}(workers[i])
	}
	sc := bufio.NewScanner(f)
	sc.Buffer(make([]byte, 1<<20), 64<<20)
	ci := 0
	for sc.Scan() {
		line := bytes.TrimSpace(sc.Bytes())
		if len(line) == 0 {
			continue
		}
		jobs <- job{ci, append([]byte(nil), line...)}
		ci++
	}
	close(jobs)
	wg.Wait()
	if err := sc.Err(); err != nil {
		fmt.Fprintln(os.Stderr, err)
		os.Exit(2)
	}
	// merge the workers
	res := newResult()
	aux := auxStats{PanicMsgs: map[string]int{}, PanicByClass: map[string]int{}, DeepRefusals: map[string]int{}}
	resv := map[int]*reservoir{}
	for _, w := range workers {
		r := w.res
		res.Cases += r.Cases
		res.Profiles += r.Profiles
		res.Parses += r.Parses
		res.MergeRuns += r.MergeRuns
		res.CanonLayouts += r.CanonLayouts
		res.NonTrivial += r.NonTrivial
		res.StretchedNodes += r.StretchedNodes
		for k, v := range r.Classes {
			res.Classes[k] += v
		}
		for k, v := range r.NamePoolUsed {
			res.NamePoolUsed[k] += v
		}
		for k, v := range r.MismatchCounts {
			res.MismatchCounts[k] += v
		}
		res.Mismatches = append(res.Mismatches, r.Mismatches...)
		if r.OrdersPerCaseMx > res.OrdersPerCaseMx {
			res.OrdersPerCaseMx = r.OrdersPerCaseMx
		}
		if r.Sample != nil && (res.Sample == nil || r.Sample.(map[string]interface{})["case"].(int) < res.Sample.(map[string]interface{})["case"].(int)) {
			res.Sample = r.Sample
		}
		aux.Runs += w.aux.Runs
		aux.Panics += w.aux.Panics
		aux.Errors += w.aux.Errors
		aux.WeightMismatch += w.aux.WeightMismatch
		for k, v := range w.aux.PanicMsgs {
			aux.PanicMsgs[k] += v
		}
		for k, v := range w.aux.PanicByClass {
			aux.PanicByClass[k] += v
		}
		for k, v := range w.aux.DeepRefusals {
			aux.DeepRefusals[k] += v
		}
		if aux.FirstPanicCase == nil {
			aux.FirstPanicCase = w.aux.FirstPanicCase
		}
		if aux.FirstMismatchCase == nil {
			aux.FirstMismatchCase = w.aux.FirstMismatchCase
		}
		for k, r := range w.resv {
			if resv[k] == nil {
				resv[k] = &reservoir{max: *obsmax}
			}
			resv[k].items = append(resv[k].items, r.items...)
			resv[k].seen += r.seen
		}
	}
	// smallest witnesses first
	size := func(m Mismatch) int { return absSize(&m) }
	sort.SliceStable(res.Mismatches, func(i, j int) bool {
		if si, sj := size(res.Mismatches[i]), size(res.Mismatches[j]); si != sj {
			return si < sj
		}
		return res.Mismatches[i].Case < res.Mismatches[j].Case
	})
	kept := map[string]int{}
	var mm []Mismatch
	for _, m := range res.Mismatches {
		kept[m.Signature]++
		if kept[m.Signature] <= 3 {
			mm = append(mm, m)
		}
	}
	res.Mismatches = mm
	for k, r := range resv {
		r.trim()
		if r.seen == 0 {
			continue
		}
		sort.Slice(r.items, func(i, j int) bool {
			if r.items[i].obs.Case != r.items[j].obs.Case {
				return r.items[i].obs.Case < r.items[j].obs.Case
			}
			return r.items[i].prio < r.items[j].prio
		})
		p := filepath.Join(*obsP, fmt.Sprintf("obs_k%d.ndjson", k))
		of, err := os.Create(p)
		if err != nil {
			fmt.Fprintln(os.Stderr, err)
			os.Exit(2)
		}
		bw := bufio.NewWriter(of)
		for _, o := range r.items {
			b, _ := json.Marshal(o.obs)
			bw.Write(b)
			bw.WriteByte('\n')
		}
		bw.Flush()
		of.Close()
		res.ObsWritten[fmt.Sprint(k)] = len(r.items)
		res.Aux[fmt.Sprintf("obs_candidates_k%d", k)] = r.seen
	}
	res.Aux["profile_merge_v2"] = aux
	res.Aux["stretched_profiles_refused"] = aux.DeepRefusals
	res.LevelClamp = map[string]int{"probed_from_the_writer": probed, "used": realCap}
	b, _ := json.MarshalIndent(res, "", " ")
	if err := os.WriteFile(*outP, b, 0o644); err != nil {
		fmt.Fprintln(os.Stderr, err)
		os.Exit(2)
	}
	fmt.Fprintf(stdout, "cases=%d mismatch_signatures=%d\n", res.Cases, len(res.MismatchCounts))
}

// c16 replays the cases enumerated by spec/ingest/MC_ProfTree.tla into the REAL profile pipeline:
//
//	abstract case (profiles = bags of (stack, values))  --concretise-->  github.com/google/pprof/profile.Profile
//	  --Write-->  bytes  --/ingest parsers (unmarshal.UnmarshalProfileProtoV2 multipart+gzip,
//	                       unmarshal.UnmarshalBinaryStreamProfileProtoV2 raw)-->  model.ProfileData{Tree, Function, ValuesAgg}
//	  --shape of the MergeRawPlanner SQL ([parent, fn, node, self, total] of one sample type; [id, name])-->
//	  reader/service.NewTree().MergeTrie(rows, functions, type)  -->  BFS / Total
//
// and compares with the expected values computed by the specification (stored tree per profile, merged tree, level
// layout for the two canonical row orders).  All other profile orders / row orders / call chunkings are run as well: the
// merged tree is compared with the spec's (order free), and a seeded reservoir sample of (row order, observed tree and
// levels) is written out to be validated by TLC against ProfTree.tla (MC_ProfTreeObs).
//
//	c16 run -cases cases.ndjson -out result.json -obs <dir> -seed S [-permmax N] [-obsmax N]
package main

import (
	"bufio"
	"bytes"
	"context"
	"encoding/json"
	"flag"
	"fmt"
	"hash/fnv"
	"math/rand"
	"mime/multipart"
	"os"
	"path/filepath"
	"runtime"
	"sort"
	"strings"
	"sync"

	pprof "github.com/google/pprof/profile"
	rprof "github.com/metrico/qryn/reader/prof"
	rsvc "github.com/metrico/qryn/reader/service"
	wmodel "github.com/metrico/qryn/writer/model"
	"github.com/metrico/qryn/writer/utils/unmarshal"
	"google.golang.org/protobuf/proto"
)

// ---------- case format (ToJson of MC_ProfTree!CaseRec) ----------

type Sample struct {
	Stack []string `json:"stack"` // leaf first
	Val   []int64  `json:"val"`
	N     int      `json:"n"`
}
type Node struct {
	ID     []string `json:"id"`
	Parent []string `json:"parent"`
	Fn     string   `json:"fn"`
	Self   []int64  `json:"self"`
	Total  []int64  `json:"total"`
}
type Bar struct {
	Off   int64  `json:"off"`
	Total int64  `json:"total"`
	Self  int64  `json:"self"`
	Fn    string `json:"fn"`
}
type Layout struct {
	Levels  [][]Bar `json:"levels"`
	Total   int64   `json:"total"`
	Maxself int64   `json:"maxself"`
}
type RowRef struct {
	P  int      `json:"p"` // 1-based profile index; 0 = row aggregated over all profiles (the MergeJoinedPlanner SQL)
	ID []string `json:"id"`
}
type Case struct {
	Cfg     string     `json:"cfg"`
	K       int        `json:"k"`
	Profs   [][]Sample `json:"profs"`
	Trees   [][]Node   `json:"trees"`
	Sums    [][]int64  `json:"sums"`
	Stacked [][]int64  `json:"stacked"`
	Roots   [][]int64  `json:"roots"`
	Merged  []Node     `json:"merged"`
	Rows    []RowRef   `json:"rows"`
	Asc     []Layout   `json:"asc"`
	Desc    []Layout   `json:"desc"`
}

// ---------- result format ----------

type Mismatch struct {
	Signature string      `json:"signature"`
	Kind      string      `json:"kind"`
	Case      int         `json:"case"`
	Cfg       string      `json:"cfg"`
	Msg       string      `json:"msg"`
	Abstract  interface{} `json:"abstract"`
	Concrete  interface{} `json:"concrete"`
	Expected  interface{} `json:"expected,omitempty"`
	Observed  interface{} `json:"observed,omitempty"`
}
type Obs struct {
	Case   int        `json:"case"`
	K      int        `json:"k"`
	Profs  [][]Sample `json:"profs"`
	Ty     int        `json:"ty"`
	Order  string     `json:"order"`
	Rows   []RowRef   `json:"rows"`
	Tree   []ObsNode  `json:"tree"`
	Levels [][]Bar    `json:"levels"`
	Total  int64      `json:"total"`
}
type ObsNode struct {
	ID     []string `json:"id"`
	Parent []string `json:"parent"`
	Fn     string   `json:"fn"`
	Self   int64    `json:"self"`
	Total  int64    `json:"total"`
}
type Result struct {
	Cases           int                    `json:"cases"`
	Profiles        int                    `json:"profiles"`
	Parses          int                    `json:"parses"`
	MergeRuns       int                    `json:"merge_runs"`
	CanonLayouts    int                    `json:"canon_layouts"`
	Classes         map[string]int         `json:"classes"`
	NonTrivial      int                    `json:"distinct_nontrivial"`
	MismatchCounts  map[string]int         `json:"mismatch_counts"`
	Mismatches      []Mismatch             `json:"mismatches"`
	ObsWritten      map[string]int         `json:"obs_written"`
	Aux             map[string]interface{} `json:"aux"`
	Sample          interface{}            `json:"sample"`
	NamePoolUsed    map[string]int         `json:"name_pool_used"`
	OrdersPerCaseMx int                    `json:"orders_per_case_max"`
}

func newResult() Result {
	return Result{Classes: map[string]int{}, MismatchCounts: map[string]int{}, ObsWritten: map[string]int{},
		Aux: map[string]interface{}{}, NamePoolUsed: map[string]int{}}
}

// worker: cases are independent (own seeded rng), so they are spread over goroutines; results are merged at the end.
type worker struct {
	res  Result
	aux  auxStats
	resv map[int]*reservoir
}

func newWorker(obsmax int) *worker {
	return &worker{res: newResult(), aux: auxStats{PanicMsgs: map[string]int{}, PanicByClass: map[string]int{}}, resv: map[int]*reservoir{1: {max: obsmax}, 2: {max: obsmax}, 3: {max: obsmax}}}
}

func absSize(m *Mismatch) int {
	b, _ := json.Marshal(m.Abstract)
	return len(b)
}

// report keeps, per signature, the three smallest witnesses this worker has seen.
func (w *worker) report(m Mismatch) {
	w.res.MismatchCounts[m.Signature]++
	n, worst, worstSize := 0, -1, -1
	for i := range w.res.Mismatches {
		if w.res.Mismatches[i].Signature == m.Signature {
			n++
			if sz := absSize(&w.res.Mismatches[i]); sz > worstSize {
				worst, worstSize = i, sz
			}
		}
	}
	if n < 3 {
		w.res.Mismatches = append(w.res.Mismatches, m)
	} else if absSize(&m) < worstSize {
		w.res.Mismatches[worst] = m
	}
}

// ---------- concretisation ----------

const noLine = "\x00NOLINE" // the atom is realised as locations WITHOUT line info (the writer names them "n/a")

var namePool = []string{"main.work", "", "runtime.mcall", "日本語.関数✓", "a:b c\t\"q\"\\", "total", "n/a", noLine,
	"github.com/x/y.(*T).Method-fm", " leading and trailing ", "{}[]()<>,;='`"}

var typePool = [][2]string{{"cpu", "nanoseconds"}, {"samples", "count"}, {"alloc_space", "bytes"}, {"", ""},
	{"ünï", "côde"}, {"inuse objects", "count"}}

type Concrete struct {
	Names map[string]string // atom -> concrete name (or noLine)
	Types [][2]string
}

func (c *Concrete) display() map[string]interface{} {
	n := map[string]string{}
	for a, v := range c.Names {
		if v == noLine {
			v = "<location without line info>"
		}
		n[a] = v
	}
	return map[string]interface{}{"names": n, "sample_types": c.Types}
}

func concretise(rng *rand.Rand, atoms []string, k int) *Concrete {
	for {
		perm := rng.Perm(len(namePool))
		c := &Concrete{Names: map[string]string{}}
		hasNoLine, hasNA := false, false
		for i, a := range atoms {
			n := namePool[perm[i]]
			c.Names[a] = n
			hasNoLine = hasNoLine || n == noLine
			hasNA = hasNA || n == "n/a"
		}
		if hasNoLine && hasNA { // both would be the function "n/a": two atoms, one name
			continue
		}
		tp := rng.Perm(len(typePool))
		for j := 0; j < k; j++ {
			c.Types = append(c.Types, typePool[tp[j]])
		}
		return c
	}
}

func (c *Concrete) typeName(j int) string { return c.Types[j][0] + ":" + c.Types[j][1] }

// realName is the function name the writer is expected to record for an atom.
func (c *Concrete) realName(atom string) string {
	if c.Names[atom] == noLine {
		return "n/a"
	}
	return c.Names[atom]
}

// buildPprof turns one abstract profile (bag of samples) into a pprof profile.  The same atom is realised by one or two
// pprof Functions with the same Name and different ids, and by shared or private Locations; sample order is shuffled.
func buildPprof(rng *rand.Rand, c *Concrete, k int, prof []Sample) *pprof.Profile {
	p := &pprof.Profile{
		PeriodType:    &pprof.ValueType{Type: "cpu", Unit: "nanoseconds"},
		Period:        10000000,
		TimeNanos:     1700000000000000000,
		DurationNanos: 10000000000,
	}
	for j := 0; j < k; j++ {
		p.SampleType = append(p.SampleType, &pprof.ValueType{Type: c.Types[j][0], Unit: c.Types[j][1]})
	}
	var mapping *pprof.Mapping
	if rng.Intn(2) == 0 {
		mapping = &pprof.Mapping{ID: 1, Start: 0x1000, Limit: 0x9000, File: "/bin/app", BuildID: "abc"}
		p.Mapping = append(p.Mapping, mapping)
	}
	fnID := uint64(rng.Intn(5) + 1)
	locID := uint64(rng.Intn(5) + 1)
	funcs := map[string][]*pprof.Function{}
	locs := map[string][]*pprof.Location{}
	newLoc := func(atom string) *pprof.Location {
		l := &pprof.Location{ID: locID, Address: 0x1000 + locID*16}
		locID += uint64(rng.Intn(3) + 1)
		if rng.Intn(2) == 0 {
			l.Mapping = mapping
		}
		if c.Names[atom] != noLine {
			fs := funcs[atom]
			if len(fs) == 0 || (len(fs) < 2 && rng.Intn(2) == 0) {
				f := &pprof.Function{ID: fnID, Name: c.Names[atom], SystemName: fmt.Sprintf("sys_%s_%d", atom, fnID),
					Filename: fmt.Sprintf("/src/%s_%d.go", atom, len(fs)), StartLine: int64(rng.Intn(100))}
				fnID += uint64(rng.Intn(3) + 1)
				funcs[atom] = append(funcs[atom], f)
				p.Function = append(p.Function, f)
				fs = funcs[atom]
			}
			l.Line = []pprof.Line{{Function: fs[rng.Intn(len(fs))], Line: int64(rng.Intn(1000))}}
		}
		locs[atom] = append(locs[atom], l)
		p.Location = append(p.Location, l)
		return l
	}
	for _, s := range prof {
		for n := 0; n < s.N; n++ {
			smp := &pprof.Sample{Value: append([]int64(nil), s.Val...)}
			for _, atom := range s.Stack {
				var l *pprof.Location
				if ls := locs[atom]; len(ls) > 0 && rng.Intn(3) != 0 {
					l = ls[rng.Intn(len(ls))]
				} else {
					l = newLoc(atom)
				}
				smp.Location = append(smp.Location, l)
			}
			if rng.Intn(4) == 0 {
				smp.Label = map[string][]string{"thread": {fmt.Sprint(rng.Intn(3))}}
			}
			p.Sample = append(p.Sample, smp)
		}
	}
	rng.Shuffle(len(p.Sample), func(i, j int) { p.Sample[i], p.Sample[j] = p.Sample[j], p.Sample[i] })
	rng.Shuffle(len(p.Function), func(i, j int) { p.Function[i], p.Function[j] = p.Function[j], p.Function[i] })
	rng.Shuffle(len(p.Location), func(i, j int) { p.Location[i], p.Location[j] = p.Location[j], p.Location[i] })
	return p
}

// ---------- the real writer ----------

func ingestCtx() context.Context {
	ctx := context.WithValue(context.Background(), "from", "1700000000")
	ctx = context.WithValue(ctx, "until", "1700000010")
	ctx = context.WithValue(ctx, "name", "app.cpu{foo=bar,baz=qux}")
	return ctx
}

func drain(ch chan *wmodel.ParserResponse) (pd *wmodel.ProfileData, err error) {
	for r := range ch {
		if r.Error != nil {
			err = r.Error
		}
		if r.ProfileRequest != nil {
			if d, ok := r.ProfileRequest.(*wmodel.ProfileData); ok && d != nil {
				pd = d
			}
		}
	}
	return
}

// parseReal runs the parser the /ingest route registers for the content type.
func parseReal(route string, p *pprof.Profile) (pd *wmodel.ProfileData, err error) {
	defer func() {
		if r := recover(); r != nil {
			err = fmt.Errorf("panic: %v", r)
		}
	}()
	switch route {
	case "multipart":
		var gz bytes.Buffer
		if err := p.Write(&gz); err != nil { // gzip-compressed, what pyroscope clients upload
			return nil, fmt.Errorf("driver: pprof write: %w", err)
		}
		var body bytes.Buffer
		mw := multipart.NewWriter(&body)
		fw, _ := mw.CreateFormFile("profile", "profile.pprof")
		fw.Write(gz.Bytes())
		mw.Close()
		return drain(unmarshal.UnmarshalProfileProtoV2(ingestCtx(), &body, nil))
	case "binary":
		var raw bytes.Buffer
		if err := p.WriteUncompressed(&raw); err != nil {
			return nil, fmt.Errorf("driver: pprof write: %w", err)
		}
		return drain(unmarshal.UnmarshalBinaryStreamProfileProtoV2(ingestCtx(), &raw, nil))
	case "binarygz":
		var gz bytes.Buffer
		if err := p.Write(&gz); err != nil {
			return nil, fmt.Errorf("driver: pprof write: %w", err)
		}
		return drain(unmarshal.UnmarshalBinaryStreamProfileProtoV2(ingestCtx(), &gz, nil))
	}
	return nil, fmt.Errorf("driver: unknown route")
}

// ---------- mapping real ids to abstract paths ----------

func key(id []string) string { return strings.Join(id, "/") }

type realNode struct {
	Parent, Fn, ID uint64
	Path           []string
	Self, Total    []int64 // per sample type of the case, by name lookup (arrayFirst semantics of the reader SQL)
}

// resolve maps the stored rows of one profile to abstract paths by following parent ids and function names.
func resolve(c *Concrete, atoms []string, k int, pd *wmodel.ProfileData) (map[uint64]*realNode, string) {
	name2atom := map[string]string{}
	for _, a := range atoms {
		name2atom[c.realName(a)] = a
	}
	fnName := map[uint64]string{}
	for _, f := range pd.Function {
		if old, ok := fnName[f.ValueInt64]; ok && old != f.ValueStr {
			return nil, fmt.Sprintf("function id %d listed with two names %q and %q", f.ValueInt64, old, f.ValueStr)
		}
		fnName[f.ValueInt64] = f.ValueStr
	}
	nodes := map[uint64]*realNode{}
	for _, t := range pd.Tree {
		if _, dup := nodes[t.Field3]; dup {
			return nil, fmt.Sprintf("node id %d stored twice", t.Field3)
		}
		n := &realNode{Parent: t.Field1, Fn: t.Field2, ID: t.Field3, Self: make([]int64, k), Total: make([]int64, k)}
		for j := 0; j < k; j++ {
			for _, v := range t.ValueArrTuple {
				if v.ValueStr == c.typeName(j) {
					n.Self[j], n.Total[j] = v.FirstValueInt64, v.SecondValueInt64
					break
				}
			}
		}
		nodes[t.Field3] = n
	}
	var path func(n *realNode, depth int) ([]string, string)
	path = func(n *realNode, depth int) ([]string, string) {
		if n.Path != nil {
			return n.Path, ""
		}
		if depth > 64 {
			return nil, "parent chain does not end at the root"
		}
		nm, ok := fnName[n.Fn]
		if !ok {
			return nil, fmt.Sprintf("node %d refers to function id %d which is not in the function rows", n.ID, n.Fn)
		}
		atom, ok := name2atom[nm]
		if !ok {
			return nil, fmt.Sprintf("function name %q is none of the profile's functions", nm)
		}
		var pp []string
		if n.Parent != 0 {
			par, ok := nodes[n.Parent]
			if !ok {
				return nil, fmt.Sprintf("node %d has parent %d which is not stored", n.ID, n.Parent)
			}
			var e string
			pp, e = path(par, depth+1)
			if e != "" {
				return nil, e
			}
		}
		n.Path = append(append([]string{}, pp...), atom)
		return n.Path, ""
	}
	for _, n := range nodes {
		if _, e := path(n, 0); e != "" {
			return nil, e
		}
	}
	return nodes, ""
}

// ---------- reader side ----------

func rowOf(n *realNode, ty int) []any {
	return []any{n.Parent, n.Fn, n.ID, n.Self[ty], n.Total[ty]}
}

func fnRows(pd *wmodel.ProfileData) [][]any {
	var r [][]any
	for _, f := range pd.Function {
		r = append(r, []any{f.ValueInt64, f.ValueStr})
	}
	return r
}

type readerOut struct {
	Tree   map[string]ObsNode
	Levels [][]Bar
	Total  int64
	Err    string
}

// runReader feeds the rows (in the given order, cut into calls by chunks) to the real MergeTrie, then BFS.
func runReader(c *Concrete, atoms []string, id2path map[uint64][]string, rows [][]any, chunks []int, fns [][]any, ty int) (out readerOut) {
	defer func() {
		if r := recover(); r != nil {
			out.Err = fmt.Sprintf("panic: %v", r)
		}
	}()
	st := c.typeName(ty)
	t := rsvc.NewTree()
	t.SampleTypes = []string{st}
	pos := 0
	for _, n := range chunks {
		t.MergeTrie(rows[pos:pos+n], fns, st)
		pos += n
	}
	if len(chunks) == 0 {
		t.MergeTrie(nil, fns, st)
	}
	out.Tree = map[string]ObsNode{}
	for parent, kids := range t.Nodes {
		var pp []string
		if parent != 0 {
			var ok bool
			if pp, ok = id2path[parent]; !ok {
				out.Err = fmt.Sprintf("merged tree has children under unknown parent id %d", parent)
				return
			}
		}
		for _, kid := range kids {
			p, ok := id2path[kid.NodeID]
			if !ok {
				out.Err = fmt.Sprintf("merged tree has unknown node id %d", kid.NodeID)
				return
			}
			if _, dup := out.Tree[key(p)]; dup {
				out.Err = fmt.Sprintf("merged tree holds node %v twice", p)
				return
			}
			if len(kid.Self) != 1 || len(kid.Total) != 1 {
				out.Err = "merged node without exactly one value per selected sample type"
				return
			}
			fn := "?"
			if len(p) > 0 {
				fn = p[len(p)-1]
			}
			if idx, ok := t.NamesMap[kid.FnID]; !ok || idx >= len(t.Names) || t.Names[idx] != c.realName(fn) {
				out.Err = fmt.Sprintf("merged node %v: function id %d does not resolve to name %q", p, kid.FnID, c.realName(fn))
				return
			}
			out.Tree[key(p)] = ObsNode{ID: p, Parent: append([]string{}, pp...), Fn: fn, Self: kid.Self[0], Total: kid.Total[0]}
		}
	}
	name2atom := map[string]string{}
	for _, a := range atoms {
		name2atom[c.realName(a)] = a
	}
	levels := t.BFS(st)
	if levels == nil {
		out.Err = "BFS returned nil for the selected sample type"
		return
	}
	for li, l := range levels {
		if len(l.Values)%4 != 0 {
			out.Err = "level length is not a multiple of 4"
			return
		}
		var bars []Bar
		for i := 0; i < len(l.Values); i += 4 {
			idx := l.Values[i+3]
			fn := ""
			switch {
			case idx < 0 || int(idx) >= len(t.Names):
				fn = fmt.Sprintf("?badindex%d", idx)
			case li == 0 && idx == 0:
				fn = "total"
			default:
				if a, ok := name2atom[t.Names[idx]]; ok && idx != 0 {
					fn = a
				} else {
					fn = "?" + t.Names[idx]
				}
			}
			bars = append(bars, Bar{Off: l.Values[i], Total: l.Values[i+1], Self: l.Values[i+2], Fn: fn})
		}
		out.Levels = append(out.Levels, bars)
	}
	for len(out.Levels) > 0 && len(out.Levels[len(out.Levels)-1]) == 0 { // the loop's trailing empty level(s)
		out.Levels = out.Levels[:len(out.Levels)-1]
	}
	tot := t.Total()
	if len(tot) != 1 {
		out.Err = "Total() has not one entry"
		return
	}
	out.Total = tot[0]
	return
}

// nestDirect reads the statement's "every level's bars nest inside their parent's span" straight off the levels:
// bars of a level are disjoint and ordered (offsets >= 0) and each lies inside the span of some bar one level up.
func nestDirect(levels [][]Bar) string {
	type span struct{ a, b int64 }
	var prev []span
	for li, l := range levels {
		var cur []span
		x := int64(0)
		for bi, b := range l {
			if b.Off < 0 || b.Total < 0 {
				return fmt.Sprintf("level %d bar %d has negative offset/width", li, bi)
			}
			x += b.Off
			s := span{x, x + b.Total}
			x += b.Total
			if li > 0 {
				ok := false
				for _, p := range prev {
					if p.a <= s.a && s.b <= p.b {
						ok = true
						break
					}
				}
				if !ok {
					return fmt.Sprintf("level %d bar %d [%d,%d) lies in no bar of level %d", li, bi, s.a, s.b, li-1)
				}
			}
			cur = append(cur, s)
		}
		prev = cur
	}
	return ""
}

// ---------- comparison helpers ----------

func eqVec(a, b []int64) bool {
	if len(a) != len(b) {
		return false
	}
	for i := range a {
		if a[i] != b[i] {
			return false
		}
	}
	return true
}

func eqLevels(a, b [][]Bar) bool {
	if len(a) != len(b) {
		return false
	}
	for i := range a {
		if len(a[i]) != len(b[i]) {
			return false
		}
		for j := range a[i] {
			if a[i][j] != b[i][j] {
				return false
			}
		}
	}
	return true
}

func atomsOf(cs *Case) []string {
	set := map[string]bool{}
	for _, p := range cs.Profs {
		for _, s := range p {
			for _, a := range s.Stack {
				set[a] = true
			}
		}
	}
	var r []string
	for a := range set {
		r = append(r, a)
	}
	sort.Strings(r)
	return r
}

func hasEmptyStackWeight(p []Sample) bool {
	for _, s := range p {
		if len(s.Stack) == 0 {
			for _, v := range s.Val {
				if v != 0 {
					return true
				}
			}
		}
	}
	return false
}

// ---------- reservoirs of observations ----------

type prioObs struct {
	prio uint64
	obs  Obs
}

// reservoir keeps the max observations with the smallest seeded priorities: a uniform sample that does not depend on
// how the cases are scheduled over the workers.
type reservoir struct {
	max   int
	seen  int
	items []prioObs
	cut   uint64
}

func (r *reservoir) offer(rng *rand.Rand, mk func() Obs) {
	r.seen++
	pr := rng.Uint64()
	if len(r.items) >= r.max && pr >= r.cut {
		return
	}
	r.items = append(r.items, prioObs{pr, mk()})
	if len(r.items) >= 2*r.max {
		r.trim()
	}
}

func (r *reservoir) trim() {
	sort.Slice(r.items, func(i, j int) bool { return r.items[i].prio < r.items[j].prio })
	if len(r.items) > r.max {
		r.items = r.items[:r.max]
	}
	if len(r.items) == r.max && r.max > 0 {
		r.cut = r.items[len(r.items)-1].prio
	} else {
		r.cut = ^uint64(0)
	}
}

// ---------- one case ----------

var routes = []string{"multipart", "binary", "binarygz"}

func sortedTree(m map[string]ObsNode) []ObsNode {
	var ks []string
	for k := range m {
		ks = append(ks, k)
	}
	sort.Strings(ks)
	r := []ObsNode{}
	for _, k := range ks {
		r = append(r, m[k])
	}
	return r
}

type auxStats struct {
	Runs, Panics, WeightMismatch, Errors int
	PanicMsgs                            map[string]int
	PanicByClass                         map[string]int
	FirstPanicCase, FirstMismatchCase    interface{}
}

func (w *worker) auxMergeV2(cs *Case, c *Concrete, pds []*wmodel.ProfileData, order []int) {
	w.aux.Runs++
	var got []int64
	err := func() (err error) {
		defer func() {
			if r := recover(); r != nil {
				err = fmt.Errorf("panic: %v", r)
			}
		}()
		m := rsvc.NewProfileMergeV2()
		for _, i := range order {
			for _, payload := range pds[i].Payload {
				var p rprof.Profile
				if e := proto.Unmarshal(payload, &p); e != nil {
					return fmt.Errorf("unmarshal payload: %w", e)
				}
				if e := m.Merge(&p); e != nil {
					return e
				}
			}
		}
		mp := m.Profile()
		got = make([]int64, cs.K)
		for _, s := range mp.Sample {
			for j, v := range s.Value {
				if j < cs.K {
					got[j] += v
				}
			}
		}
		return nil
	}()
	if err != nil {
		if strings.HasPrefix(err.Error(), "panic") {
			w.aux.Panics++
			w.aux.PanicMsgs[err.Error()]++
			cl := ""
			for _, i := range order {
				for _, sm := range cs.Profs[i] {
					if len(sm.Stack) == 0 && !strings.Contains(cl, "empty_stack") {
						cl += "+empty_stack"
					}
					for _, a := range sm.Stack {
						if c.Names[a] == noLine && !strings.Contains(cl, "lineless") {
							cl += "+lineless_location"
						}
					}
				}
			}
			if cl == "" {
				cl = "neither"
			}
			w.aux.PanicByClass[cl]++
			if w.aux.FirstPanicCase == nil {
				w.aux.FirstPanicCase = map[string]interface{}{"profs": cs.Profs, "concrete": c.display(), "err": err.Error()}
			}
		} else {
			w.aux.Errors++
		}
		return
	}
	want := make([]int64, cs.K)
	for _, i := range order {
		for j := range want {
			want[j] += cs.Sums[i][j]
		}
	}
	if !eqVec(got, want) {
		w.aux.WeightMismatch++
		if w.aux.FirstMismatchCase == nil {
			w.aux.FirstMismatchCase = map[string]interface{}{"profs": cs.Profs, "concrete": c.display(), "got": got, "want": want}
		}
	}
}

func (w *worker) runCase(ci int, lineHash uint64, cs *Case, seed int64, permmax int, allPermsUpTo int) {
	// seeded by the CONTENT of the case: the same case gets the same concretisation wherever it stands in the file
	rng := rand.New(rand.NewSource(seed*1000003 + int64(lineHash>>1)))
	atoms := atomsOf(cs)
	c := concretise(rng, atoms, cs.K)
	for _, a := range atoms {
		n := c.Names[a]
		if n == noLine {
			n = "<noline>"
		}
		w.res.NamePoolUsed[n]++
	}
	np := len(cs.Profs)
	w.res.Cases++
	w.res.Profiles += np
	mk := func(kind, sigTail, msg string, exp, obs interface{}) {
		sig := kind
		if sigTail != "" {
			sig += "|" + sigTail
		}
		w.report(Mismatch{Signature: sig, Kind: kind, Case: ci, Cfg: cs.Cfg, Msg: msg, Abstract: cs.Profs, Concrete: c.display(), Expected: exp, Observed: obs})
	}

	// ---- classes (vacuity accounting) ----
	nontrivial := false
	for pi, p := range cs.Profs {
		for _, s := range p {
			if len(s.Stack) == 0 {
				w.res.Classes["empty_stack_sample"]++
			}
			seen := map[string]bool{}
			for _, a := range s.Stack {
				if seen[a] {
					w.res.Classes["recursive_stack"]++
					break
				}
				seen[a] = true
			}
			for _, a := range s.Stack {
				if c.Names[a] == noLine {
					w.res.Classes["sample_with_lineless_location"]++
					break
				}
			}
		}
		if len(p) == 0 {
			w.res.Classes["profile_without_samples"]++
		}
		for _, n := range cs.Trees[pi] {
			if len(cs.Profs[pi]) > 1 {
				for j := range n.Total {
					if n.Total[j] != n.Self[j] && n.Self[j] != 0 {
						w.res.Classes["node_with_self_and_children"]++
						nontrivial = true
						break
					}
				}
			}
		}
		if len(cs.Trees[pi]) > 0 {
			nontrivial = true
		}
	}
	if np > 1 {
		w.res.Classes["multi_profile_case"]++
		cnt := 0
		for _, t := range cs.Trees {
			cnt += len(t)
		}
		if cnt > len(cs.Merged) {
			w.res.Classes["merge_with_shared_nodes"]++
		}
	}
	if nontrivial {
		w.res.NonTrivial++
	}

	// ---- writer: every profile through every route ----
	pds := make([]*wmodel.ProfileData, np)
	nodesOf := make([]map[uint64]*realNode, np)
	byPath := make([]map[string]*realNode, np)
	id2path := map[uint64][]string{}
	path2id := map[string]uint64{}
	ok := true
	for pi, p := range cs.Profs {
		pp := buildPprof(rng, c, cs.K, p)
		for ri, route := range routes {
			if ri == 2 && (ci+pi)%4 != 0 { // the gzip body on the binary route: every 4th profile
				continue
			}
			pd, err := parseReal(route, pp)
			w.res.Parses++
			if err != nil || pd == nil {
				kind := "parse_error"
				if err != nil && strings.HasPrefix(err.Error(), "panic") {
					kind = "panic"
				}
				if err != nil && strings.HasPrefix(err.Error(), "driver:") {
					fmt.Fprintln(os.Stderr, "driver error:", err)
					os.Exit(3)
				}
				mk(kind, "writer|"+route, fmt.Sprintf("route %s: the real parser rejected/crashed on a valid profile: %v", route, err), nil, nil)
				ok = false
				continue
			}
			nodes, e := resolve(c, atoms, cs.K, pd)
			if e != "" {
				mk("tree_mismatch", "structure|"+route, "stored tree is not a tree over the profile's functions: "+e, cs.Trees[pi], pd.Tree)
				ok = false
				continue
			}
			bp := map[string]*realNode{}
			for _, n := range nodes {
				if o, dup := bp[key(n.Path)]; dup {
					mk("tree_mismatch", "duplicate_path|"+route, fmt.Sprintf("two stored nodes (%d, %d) for the same call path %v", o.ID, n.ID, n.Path), cs.Trees[pi], pd.Tree)
					ok = false
				}
				bp[key(n.Path)] = n
			}
			// stored tree == Build(profile) of the spec, per node and sample type
			exp := map[string]Node{}
			for _, n := range cs.Trees[pi] {
				exp[key(n.ID)] = n
			}
			for k2, n := range exp {
				r, present := bp[k2]
				if !present {
					mk("tree_mismatch", "missing_node|"+route, fmt.Sprintf("profile %d: call path %v is not stored", pi+1, n.ID), n, nil)
					ok = false
					continue
				}
				if !eqVec(r.Total, n.Total) {
					mk("tree_mismatch", "total|"+route, fmt.Sprintf("profile %d: node %v total %v, spec %v", pi+1, n.ID, r.Total, n.Total), n, r)
					ok = false
				}
				if !eqVec(r.Self, n.Self) {
					mk("tree_mismatch", "self|"+route, fmt.Sprintf("profile %d: node %v self %v, spec %v", pi+1, n.ID, r.Self, n.Self), n, r)
					ok = false
				}
			}
			for k2, r := range bp {
				if _, present := exp[k2]; !present {
					mk("tree_mismatch", "extra_node|"+route, fmt.Sprintf("profile %d: stored node for call path %v which no sample has", pi+1, r.Path), nil, r)
					ok = false
				}
			}
			// the statement, read directly off the real rows: conservation and root sum
			kidsum := map[uint64][]int64{}
			for _, n := range nodes {
				if kidsum[n.Parent] == nil {
					kidsum[n.Parent] = make([]int64, cs.K)
				}
				for j := range n.Total {
					kidsum[n.Parent][j] += n.Total[j]
				}
			}
			for _, n := range nodes {
				ks := kidsum[n.ID]
				if ks == nil {
					ks = make([]int64, cs.K)
				}
				for j := range n.Total {
					if n.Total[j] != n.Self[j]+ks[j] {
						mk("conservation", "stored|"+route, fmt.Sprintf("profile %d: node %v type %d: total %d != self %d + children %d", pi+1, n.Path, j+1, n.Total[j], n.Self[j], ks[j]), nil, n)
						ok = false
					}
				}
			}
			roots := kidsum[0]
			if roots == nil {
				roots = make([]int64, cs.K)
			}
			if !eqVec(roots, cs.Sums[pi]) {
				class := "other"
				if hasEmptyStackWeight(p) && eqVec(roots, cs.Stacked[pi]) {
					class = "empty_stack"
				}
				mk("root_sum", class, fmt.Sprintf("profile %d (%s): root totals %v != sum of the sample values %v", pi+1, route, roots, cs.Sums[pi]), cs.Sums[pi], roots)
			}
			if ri == 0 {
				pds[pi], nodesOf[pi], byPath[pi] = pd, nodes, bp
				for _, n := range nodes {
					if old, seen := path2id[key(n.Path)]; seen && old != n.ID {
						mk("merge_mismatch", "unstable_node_id", fmt.Sprintf("call path %v has node id %d in one profile and %d in another", n.Path, old, n.ID), nil, nil)
						ok = false
					}
					if old, seen := id2path[n.ID]; seen && key(old) != key(n.Path) {
						mk("merge_mismatch", "node_id_collision", fmt.Sprintf("node id %d stands for %v and %v", n.ID, old, n.Path), nil, nil)
						ok = false
					}
					path2id[key(n.Path)] = n.ID
					id2path[n.ID] = n.Path
				}
			}
		}
	}
	if !ok {
		return // the reader part needs the stored trees to be the spec's trees (row references are by call path)
	}

	// ---- reader: merge + layout ----
	var fns [][]any
	for _, pd := range pds {
		fns = append(fns, fnRows(pd)...)
	}
	expMerged := map[string]Node{}
	for _, n := range cs.Merged {
		expMerged[key(n.ID)] = n
	}
	orders := 0
	for ty := 0; ty < cs.K; ty++ {
		rowFor := func(ref RowRef) []any {
			if ref.P == 0 { // aggregated over the profiles as the MergeJoinedPlanner SQL does (sum ... group by parent, fn, node)
				var acc []any
				for pi := range byPath {
					if n, ok := byPath[pi][key(ref.ID)]; ok {
						if acc == nil {
							acc = rowOf(n, ty)
						} else {
							acc[3] = acc[3].(int64) + n.Self[ty]
							acc[4] = acc[4].(int64) + n.Total[ty]
						}
					}
				}
				return acc
			}
			return rowOf(byPath[ref.P-1][key(ref.ID)], ty)
		}
		check := func(order string, refs []RowRef, chunks []int, expLayout *Layout) {
			rows := make([][]any, len(refs))
			for i, r := range refs {
				rows[i] = rowFor(r)
			}
			out := runReader(c, atoms, id2path, rows, chunks, fns, ty)
			w.res.MergeRuns++
			orders++
			okind := strings.SplitN(order, ":", 2)[0]
			if out.Err != "" {
				kind := "merge_mismatch"
				if strings.HasPrefix(out.Err, "panic") {
					kind = "panic"
				}
				mk(kind, "reader|"+okind, fmt.Sprintf("type %d order %s: %s", ty+1, order, out.Err), nil, refs)
				return
			}
			// merged tree == MergeDef of the spec (order free)
			for k2, n := range expMerged {
				o, present := out.Tree[k2]
				if !present {
					mk("merge_mismatch", "missing_node|"+okind, fmt.Sprintf("type %d order %s: merged tree lacks %v", ty+1, order, n.ID), n, refs)
					return
				}
				if o.Total != n.Total[ty] || o.Self != n.Self[ty] || key(o.Parent) != key(n.Parent) {
					mk("merge_mismatch", "values|"+okind, fmt.Sprintf("type %d order %s: node %v self/total %d/%d under %v, spec %d/%d under %v", ty+1, order, n.ID, o.Self, o.Total, o.Parent, n.Self[ty], n.Total[ty], n.Parent), n, map[string]interface{}{"node": o, "rows": refs})
					return
				}
			}
			if len(out.Tree) != len(expMerged) {
				mk("merge_mismatch", "extra_node|"+okind, fmt.Sprintf("type %d order %s: merged tree has %d nodes, spec %d", ty+1, order, len(out.Tree), len(expMerged)), cs.Merged, sortedTree(out.Tree))
				return
			}
			// flame graph total = sum of the inputs
			var want int64
			for pi := range cs.Roots {
				want += cs.Roots[pi][ty]
			}
			if out.Total != want || len(out.Levels) == 0 || len(out.Levels[0]) != 1 || out.Levels[0][0].Total != want {
				mk("flame_total", okind, fmt.Sprintf("type %d order %s: flame graph total %d (level 0: %v), sum of the inputs %d", ty+1, order, out.Total, out.Levels, want), want, out.Total)
			}
			if e := nestDirect(out.Levels); e != "" {
				mk("layout_nesting", okind, fmt.Sprintf("type %d order %s: %s", ty+1, order, e), nil, out.Levels)
			}
			if expLayout != nil {
				w.res.CanonLayouts++
				if !eqLevels(out.Levels, expLayout.Levels) {
					mk("layout_mismatch", okind, fmt.Sprintf("type %d order %s: levels differ from the spec's layout", ty+1, order), expLayout.Levels, out.Levels)
				}
			} else {
				w.resv[cs.K].offer(rng, func() Obs {
					if refs == nil {
						refs = []RowRef{}
					}
					return Obs{Case: ci, K: cs.K, Profs: cs.Profs, Ty: ty + 1, Order: order, Rows: refs, Tree: sortedTree(out.Tree), Levels: out.Levels, Total: out.Total}
				})
			}
		}
		one := func(n int) []int {
			if n == 0 {
				return nil
			}
			return []int{n}
		}
		chunking := func(n int) []int {
			switch rng.Intn(3) {
			case 0:
				return one(n)
			case 1:
				r := make([]int, n)
				for i := range r {
					r[i] = 1
				}
				return r
			}
			var r []int
			for n > 0 {
				k := 1 + rng.Intn(n)
				r = append(r, k)
				n -= k
			}
			return r
		}
		// canonical orders with the layout computed by the spec
		asc := cs.Rows
		desc := make([]RowRef, len(asc))
		for i := range asc {
			desc[len(asc)-1-i] = asc[i]
		}
		check("asc", asc, one(len(asc)), &cs.Asc[ty])
		check("desc", desc, chunking(len(desc)), &cs.Desc[ty])
		// the order the writer stored the rows in, every order of the profiles
		writerRefs := make([][]RowRef, np)
		for pi := range pds {
			for _, t := range pds[pi].Tree {
				writerRefs[pi] = append(writerRefs[pi], RowRef{P: pi + 1, ID: id2path[t.Field3]})
			}
		}
		perm := make([]int, np)
		for i := range perm {
			perm[i] = i
		}
		var permute func(k int)
		permute = func(k int) {
			if k == np {
				var refs []RowRef
				var ch []int
				for _, pi := range perm {
					refs = append(refs, writerRefs[pi]...)
					if len(writerRefs[pi]) > 0 {
						ch = append(ch, len(writerRefs[pi]))
					}
				}
				if rng.Intn(2) == 0 {
					ch = one(len(refs))
				}
				check(fmt.Sprintf("writer:%v", perm), refs, ch, nil)
				if ty == 0 {
					w.auxMergeV2(cs, c, pds, perm)
				}
				return
			}
			for i := k; i < np; i++ {
				perm[k], perm[i] = perm[i], perm[k]
				permute(k + 1)
				perm[k], perm[i] = perm[i], perm[k]
			}
		}
		permute(0)
		// what production feeds: rows summed per (parent, fn, node) and ordered by parent id
		var agg []RowRef
		for _, n := range cs.Merged {
			agg = append(agg, RowRef{P: 0, ID: n.ID})
		}
		rng.Shuffle(len(agg), func(i, j int) { agg[i], agg[j] = agg[j], agg[i] })
		sort.SliceStable(agg, func(i, j int) bool {
			pi, pj := uint64(0), uint64(0)
			if len(agg[i].ID) > 1 {
				pi = path2id[key(agg[i].ID[:len(agg[i].ID)-1])]
			}
			if len(agg[j].ID) > 1 {
				pj = path2id[key(agg[j].ID[:len(agg[j].ID)-1])]
			}
			return pi < pj
		})
		check("sqlagg", agg, one(len(agg)), nil)
		// every / many row orders of the raw rows
		var all []RowRef
		for pi := range writerRefs {
			all = append(all, writerRefs[pi]...)
		}
		fact := 1
		for i := 2; i <= len(all) && fact <= 720; i++ {
			fact *= i
		}
		if len(all) >= 2 && fact <= allPermsUpTo {
			idx := make([]int, len(all))
			for i := range idx {
				idx[i] = i
			}
			var rec func(k int)
			rec = func(k int) {
				if k == len(idx) {
					refs := make([]RowRef, len(idx))
					for i, x := range idx {
						refs[i] = all[x]
					}
					check("perm:all", refs, chunking(len(refs)), nil)
					return
				}
				for i := k; i < len(idx); i++ {
					idx[k], idx[i] = idx[i], idx[k]
					rec(k + 1)
					idx[k], idx[i] = idx[i], idx[k]
				}
			}
			rec(0)
			w.res.Classes["cases_with_all_row_orders"]++
		} else if len(all) >= 2 {
			for n := 0; n < permmax; n++ {
				refs := append([]RowRef{}, all...)
				rng.Shuffle(len(refs), func(i, j int) { refs[i], refs[j] = refs[j], refs[i] })
				check("perm:random", refs, chunking(len(refs)), nil)
			}
		}
	}
	if orders > w.res.OrdersPerCaseMx {
		w.res.OrdersPerCaseMx = orders
	}
	if w.res.Sample == nil && np >= 1 && len(cs.Merged) >= 3 {
		var tr []interface{}
		for _, t := range pds[0].Tree {
			tr = append(tr, map[string]interface{}{"parent": fmt.Sprint(t.Field1), "fn": fmt.Sprint(t.Field2), "node": fmt.Sprint(t.Field3), "values": t.ValueArrTuple, "path": id2path[t.Field3]})
		}
		w.res.Sample = map[string]interface{}{"case": ci, "cfg": cs.Cfg, "abstract": cs.Profs, "concrete": c.display(),
			"real_tree_rows_profile1": tr, "real_function_rows_profile1": pds[0].Function, "real_values_agg_profile1": pds[0].ValuesAgg,
			"spec_merged": cs.Merged, "spec_layout_asc": cs.Asc}
	}
}

func main() {
	if len(os.Args) < 2 || os.Args[1] != "run" {
		fmt.Fprintln(os.Stderr, "usage: c16 run -cases f.ndjson -out r.json -obs dir -seed S")
		os.Exit(2)
	}
	fs := flag.NewFlagSet("run", flag.ExitOnError)
	casesP := fs.String("cases", "", "ndjson of cases")
	outP := fs.String("out", "", "result json")
	obsP := fs.String("obs", "", "directory for obs_k<K>.ndjson")
	seed := fs.Int64("seed", 1, "seed")
	permmax := fs.Int("permmax", 6, "random row orders per case and sample type when not all orders are run")
	allperms := fs.Int("allperms", 24, "run ALL row orders of a case when there are at most this many")
	obsmax := fs.Int("obsmax", 1500, "observations kept per number of sample types")
	nw := fs.Int("workers", runtime.NumCPU(), "goroutines")
	fs.Parse(os.Args[2:])

	// the parsers print diagnostics to stdout; the driver's own output goes to files
	devnull, _ := os.OpenFile(os.DevNull, os.O_WRONLY, 0)
	stdout := os.Stdout
	os.Stdout = devnull

	f, err := os.Open(*casesP)
	if err != nil {
		fmt.Fprintln(os.Stderr, err)
		os.Exit(2)
	}
	type job struct {
		ci   int
		line []byte
	}
	jobs := make(chan job, 256)
	workers := make([]*worker, *nw)
	var wg sync.WaitGroup
	for i := range workers {
		workers[i] = newWorker(*obsmax)
		wg.Add(1)
		go func(w *worker) {
			defer wg.Done()
			for j := range jobs {
				var cs Case
				if err := json.Unmarshal(j.line, &cs); err != nil {
					fmt.Fprintln(os.Stderr, "bad case line", j.ci, err)
					os.Exit(2)
				}
				if cs.K < 1 || cs.K > 3 {
					fmt.Fprintln(os.Stderr, "bad case: k", j.ci)
					os.Exit(2)
				}
				h := fnv.New64a()
				h.Write(j.line)
				w.runCase(j.ci, h.Sum64(), &cs, *seed, *permmax, *allperms)
			}
		}(workers[i])
	}
	sc := bufio.NewScanner(f)
	sc.Buffer(make([]byte, 1<<20), 64<<20)
	ci := 0
	for sc.Scan() {
		line := bytes.TrimSpace(sc.Bytes())
		if len(line) == 0 {
			continue
		}
		jobs <- job{ci, append([]byte(nil), line...)}
		ci++
	}
	close(jobs)
	wg.Wait()
	if err := sc.Err(); err != nil {
		fmt.Fprintln(os.Stderr, err)
		os.Exit(2)
	}
	// merge the workers
	res := newResult()
	aux := auxStats{PanicMsgs: map[string]int{}, PanicByClass: map[string]int{}}
	resv := map[int]*reservoir{}
	for _, w := range workers {
		r := w.res
		res.Cases += r.Cases
		res.Profiles += r.Profiles
		res.Parses += r.Parses
		res.MergeRuns += r.MergeRuns
		res.CanonLayouts += r.CanonLayouts
		res.NonTrivial += r.NonTrivial
		for k, v := range r.Classes {
			res.Classes[k] += v
		}
		for k, v := range r.NamePoolUsed {
			res.NamePoolUsed[k] += v
		}
		for k, v := range r.MismatchCounts {
			res.MismatchCounts[k] += v
		}
		res.Mismatches = append(res.Mismatches, r.Mismatches...)
		if r.OrdersPerCaseMx > res.OrdersPerCaseMx {
			res.OrdersPerCaseMx = r.OrdersPerCaseMx
		}
		if r.Sample != nil && (res.Sample == nil || r.Sample.(map[string]interface{})["case"].(int) < res.Sample.(map[string]interface{})["case"].(int)) {
			res.Sample = r.Sample
		}
		aux.Runs += w.aux.Runs
		aux.Panics += w.aux.Panics
		aux.Errors += w.aux.Errors
		aux.WeightMismatch += w.aux.WeightMismatch
		for k, v := range w.aux.PanicMsgs {
			aux.PanicMsgs[k] += v
		}
		for k, v := range w.aux.PanicByClass {
			aux.PanicByClass[k] += v
		}
		if aux.FirstPanicCase == nil {
			aux.FirstPanicCase = w.aux.FirstPanicCase
		}
		if aux.FirstMismatchCase == nil {
			aux.FirstMismatchCase = w.aux.FirstMismatchCase
		}
		for k, r := range w.resv {
			if resv[k] == nil {
				resv[k] = &reservoir{max: *obsmax}
			}
			resv[k].items = append(resv[k].items, r.items...)
			resv[k].seen += r.seen
		}
	}
	// smallest witnesses first
	size := func(m Mismatch) int { b, _ := json.Marshal(m.Abstract); return len(b) }
	sort.SliceStable(res.Mismatches, func(i, j int) bool {
		if si, sj := size(res.Mismatches[i]), size(res.Mismatches[j]); si != sj {
			return si < sj
		}
		return res.Mismatches[i].Case < res.Mismatches[j].Case
	})
	kept := map[string]int{}
	var mm []Mismatch
	for _, m := range res.Mismatches {
		kept[m.Signature]++
		if kept[m.Signature] <= 3 {
			mm = append(mm, m)
		}
	}
	res.Mismatches = mm
	for k, r := range resv {
		r.trim()
		if r.seen == 0 {
			continue
		}
		sort.Slice(r.items, func(i, j int) bool {
			if r.items[i].obs.Case != r.items[j].obs.Case {
				return r.items[i].obs.Case < r.items[j].obs.Case
			}
			return r.items[i].prio < r.items[j].prio
		})
		p := filepath.Join(*obsP, fmt.Sprintf("obs_k%d.ndjson", k))
		of, err := os.Create(p)
		if err != nil {
			fmt.Fprintln(os.Stderr, err)
			os.Exit(2)
		}
		bw := bufio.NewWriter(of)
		for _, o := range r.items {
			b, _ := json.Marshal(o.obs)
			bw.Write(b)
			bw.WriteByte('\n')
		}
		bw.Flush()
		of.Close()
		res.ObsWritten[fmt.Sprint(k)] = len(r.items)
		res.Aux[fmt.Sprintf("obs_candidates_k%d", k)] = r.seen
	}
	res.Aux["profile_merge_v2"] = aux
	b, _ := json.MarshalIndent(res, "", " ")
	if err := os.WriteFile(*outP, b, 0o644); err != nil {
		fmt.Fprintln(os.Stderr, err)
		os.Exit(2)
	}
	fmt.Fprintf(stdout, "cases=%d mismatch_signatures=%d\n", res.Cases, len(res.MismatchCounts))
}

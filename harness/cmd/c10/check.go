package main

import (
	"bytes"
	"context"
	"database/sql/driver"
	"fmt"
	"net/http"
	"net/http/httptest"
	"net/url"
	"strconv"
	"strings"
	"sync"

	"verif/harness/chsql"
	"verif/harness/e2e"
	"verif/harness/fakesql"
)

// ---- the world: real reader routes over a recording database session ---------------------------------------------

type world struct {
	w   *e2e.World
	mu  sync.Mutex
	rec []string
}

func newWorld() (*world, error) {
	w, err := e2e.New(e2e.Options{})
	if err != nil {
		return nil, err
	}
	wd := &world{w: w}
	tables := w.Bridge.Tables
	// every statement handed to the session is recorded; the answer is empty (the property is about the text)
	w.SQL.Handler = func(ctx context.Context, q string, args []driver.NamedValue) (*fakesql.Answer, error) {
		if a := fakesql.VersionAnswers(q, tables, map[string]string{}); a != nil {
			return a, nil
		}
		wd.mu.Lock()
		wd.rec = append(wd.rec, q)
		wd.mu.Unlock()
		return &fakesql.Answer{Cols: []string{"c"}, ErrAt: -1}, nil
	}
	return wd, nil
}

type request struct {
	Method string
	Path   string // already escaped
	Query  url.Values
	Body   []byte
	CType  string
}

func (r *request) String() string {
	s := r.Method + " " + r.Path
	if len(r.Query) > 0 {
		s += "?" + r.Query.Encode()
	}
	if len(r.Body) > 0 {
		s += " body=" + strconv.Quote(string(r.Body))
	}
	return s
}

// run sends the request through the real reader router; returns status, recorded SQL, and a recovered panic.
func (wd *world) run(r *request) (code int, sqls []string, panicked string) {
	wd.mu.Lock()
	wd.rec = nil
	wd.mu.Unlock()
	target := r.Path
	if len(r.Query) > 0 {
		target += "?" + r.Query.Encode()
	}
	func() {
		defer func() {
			if e := recover(); e != nil {
				panicked = fmt.Sprint(e)
			}
		}()
		var req *http.Request
		if r.Body != nil {
			req = httptest.NewRequest(r.Method, target, bytes.NewReader(r.Body))
		} else {
			req = httptest.NewRequest(r.Method, target, nil)
		}
		if r.CType != "" {
			req.Header.Set("Content-Type", r.CType)
		}
		rw := httptest.NewRecorder()
		wd.w.Reader.ServeHTTP(rw, req)
		code = rw.Code
	}()
	wd.mu.Lock()
	sqls = wd.rec
	wd.rec = nil
	wd.mu.Unlock()
	return
}

// ---- expectations --------------------------------------------------------------------------------------------------

// lit is one acceptable decoded literal value for the user string.
type lit struct {
	Like bool   // the literal is a LIKE pattern that must mean ANY <Val literally> ANY
	Val  string // exact decoded value (Like=false) or the literal text inside the pattern (Like=true)
}

func (l lit) matches(tokVal string) bool {
	if l.Like {
		return likeEq(likeDecode(tokVal), likeIntended(l.Val))
	}
	return tokVal == l.Val
}

func (l lit) describe() string {
	if l.Like {
		return "LIKE pattern meaning " + strconv.Quote(likeString(likeIntended(l.Val)))
	}
	return strconv.Quote(l.Val)
}

// position is one string-valued place of a request.
type position struct {
	Name    string
	Family  string // the position without its host query shape
	Host    int    // index of the host query shape within the family
	Hosts   int
	Primary bool
	Group string // mechanism that renders the literal (for signatures): StringVal | doLike | ident | none
	// Build places s; ok=false when the position cannot express s (front-end quoting impossible).
	// eff is the USER string as the front-end parser of that position yields it (normally s itself).
	Build func(s string) (req *request, eff string, ok bool)
	// Want gives the acceptable decoded literals for the effective user string; nil = the string never reaches SQL.
	Want func(eff string) []lit
	// Shape selects the baseline (a position may legitimately render different SQL for different kinds of
	// strings, e.g. |~ with a literal regex is a LIKE, otherwise match()). Baselines: harmless strings per shape.
	Shape     func(eff string) string
	Baselines map[string]string
	// Alts: harmless strings of OTHER kinds (e.g. a pattern with a metacharacter next to a literal one). A planner may choose
	// its rendering by the kind of string (equality for a literal pattern, match() otherwise): the statements of a request
	// string must be those of its shape's baseline or of one of these.
	Alts []string
	// NoSlot: the harmless string is expected NOT to reach SQL either (the stage runs in process)
	NoSlot bool
}

func exactWant(eff string) []lit { return []lit{{Val: eff}} }

// anchoredWant: the label-index planners (planner_stream_select.go, prof/transpiler/planner_selector.go) render the pattern of
// a =~ / !~ stream or series MATCHER wrapped as ^(?:<pattern>)$ (match() alone is an unanchored search)
func anchoredWant(eff string) []lit { return []lit{{Val: "^(?:" + eff + ")$"}} }

// matcherWant gives the literal a label matcher with operator op (the suffix of a position name) renders
func matcherWant(op string) func(string) []lit {
	if strings.HasSuffix(op, "=~") || strings.HasSuffix(op, "!~") {
		return anchoredWant
	}
	return exactWant
}

const marker = "Zq7Zq"

type tokInfo struct {
	Kind chsql.TokKind
	Text string
	Val  string
	Slot int // index into Want(baseline) or -1
}

type baseline struct {
	Str   string
	Code  int
	SQL   []string
	Toks  [][]tokInfo
	Slots int
}

type mismatch struct {
	Position string   `json:"position"`
	Group    string   `json:"group"`
	Kind     string   `json:"kind"` // lexfail | structure | foreign | value | panic
	Abstract string   `json:"abstract"`
	S        string   `json:"s_quoted"`
	Eff      string   `json:"user_string_quoted"`
	Request  string   `json:"request"`
	Status   int      `json:"status"`
	SQL      []string `json:"sql"`
	BaseSQL  []string `json:"baseline_sql"`
	Detail   string   `json:"detail"`
	Expected string   `json:"expected_literal"`
	Observed string   `json:"observed_literal"`
	Judgement string  `json:"judgement"`
}

type posStats struct {
	Cases      int            `json:"cases"`
	Reached    int            `json:"reached_sql"`   // the string reached at least one statement
	Rejected   int            `json:"rejected"`      // the front end refused the request (no SQL)
	Inexpr     int            `json:"inexpressible"` // the position cannot carry this string
	Mismatches int            `json:"mismatches"`
	PlainQuote int            `json:"plain_quote"`  // reached SQL: a pattern without metacharacter (its own literal) that carries a quote
	MetaPat    int            `json:"meta_pattern"` // reached SQL: a pattern that is not a literal
	RegexKinds bool           `json:"regex_kinds"`  // the position takes a regular expression as a comparison value
	ViaAlt     int            `json:"via_other_kind"` // the statements are those of a harmless string of ANOTHER kind (Alts)
	Classes    map[string]int `json:"-"`
	Slots      int            `json:"baseline_slots"`
	Statements int            `json:"baseline_statements"`
}

type checker struct {
	wd    *world
	base  map[string]*baseline // position|shape
	stats map[string]*posStats
	mism  []mismatch
	// family|kind|group -> failing abstract strings
	failing map[string]map[string]bool
	infra []string
	// position|alt -> why an alternative baseline could not be established (not an error by itself: the alternative is unused)
	altErrs map[string]string
}

func newChecker(wd *world) *checker {
	return &checker{wd: wd, base: map[string]*baseline{}, stats: map[string]*posStats{}, failing: map[string]map[string]bool{}, altErrs: map[string]string{}}
}

func lexAll(sqls []string) ([][]chsql.Token, int, error) {
	out := make([][]chsql.Token, len(sqls))
	for i, q := range sqls {
		t, err := chsql.Lex(q)
		if err != nil {
			return nil, i, err
		}
		out[i] = t
	}
	return out, -1, nil
}

func (c *checker) getBaseline(p *position, shape string) (*baseline, error) {
	key := p.Name + "|" + shape
	if b, ok := c.base[key]; ok {
		return b, nil
	}
	bs, ok := p.Baselines[shape]
	if !ok {
		return nil, fmt.Errorf("position %s: no baseline for shape %q", p.Name, shape)
	}
	req, eff, ok := p.Build(bs)
	if !ok {
		return nil, fmt.Errorf("position %s: cannot express its own baseline %q", p.Name, bs)
	}
	if eff != bs {
		return nil, fmt.Errorf("position %s: baseline %q arrives as %q", p.Name, bs, eff)
	}
	code, sqls, pan := c.wd.run(req)
	if pan != "" {
		return nil, fmt.Errorf("position %s: baseline request panics: %s", p.Name, pan)
	}
	// determinism: the same request must give the same statements
	_, sqls2, _ := c.wd.run(req)
	if strings.Join(sqls, "\x00") != strings.Join(sqls2, "\x00") {
		return nil, fmt.Errorf("position %s: SQL is not deterministic for the same request:\n%s\n---\n%s", p.Name, strings.Join(sqls, "\n"), strings.Join(sqls2, "\n"))
	}
	if len(sqls) == 0 {
		return nil, fmt.Errorf("position %s: baseline %s produced no SQL (status %d)", p.Name, req.String(), code)
	}
	toks, i, err := lexAll(sqls)
	if err != nil {
		return nil, fmt.Errorf("position %s: baseline SQL does not lex (%v): %s", p.Name, err, sqls[i])
	}
	b := &baseline{Str: bs, Code: code, SQL: sqls}
	var want []lit
	if p.Want != nil {
		want = p.Want(bs)
	}
	for _, ts := range toks {
		row := make([]tokInfo, len(ts))
		for j, t := range ts {
			row[j] = tokInfo{Kind: t.Kind, Text: t.Text, Val: t.Val, Slot: -1}
			if t.Kind == chsql.TokString {
				for k, w := range want {
					if w.matches(t.Val) {
						row[j].Slot = k
						b.Slots++
						break
					}
				}
			}
		}
		b.Toks = append(b.Toks, row)
	}
	if p.NoSlot {
		if strings.Contains(strings.Join(sqls, "\n"), marker) {
			return nil, fmt.Errorf("position %s: declared not to reach SQL but the marker does: %s", p.Name, strings.Join(sqls, "\n"))
		}
	} else if b.Slots == 0 && shape != "empty" {
		return nil, fmt.Errorf("position %s: the harmless string %q is not found as a literal in the baseline SQL: %s", p.Name, bs, strings.Join(sqls, "\n"))
	}
	c.base[key] = b
	return b, nil
}

func (c *checker) stat(p *position) *posStats {
	st := c.stats[p.Name]
	if st == nil {
		st = &posStats{Classes: map[string]int{}}
		c.stats[p.Name] = st
	}
	return st
}

// record keeps the full detail of a mismatch only when no proper substring of its abstract string already failed in the
// same position family with the same kind (cases arrive in order of increasing length, so the globally minimal witnesses
// are always kept); every failing abstract string is listed in c.failing.
func (c *checker) record(p *position, m mismatch) {
	st := c.stat(p)
	st.Mismatches++
	k := p.Family + "|" + m.Kind + "|" + p.Group
	set := c.failing[k]
	if set == nil {
		set = map[string]bool{}
		c.failing[k] = set
	}
	explained := false
	a := m.Abstract
	for i := 0; i <= len(a) && !explained; i++ {
		for j := i; j <= len(a); j++ {
			if j-i < len(a) && set[a[i:j]] {
				explained = true
				break
			}
		}
	}
	if set[a] {
		explained = true // the same abstract string in another host shape / concretisation
	}
	set[a] = true
	if !explained {
		c.mism = append(c.mism, m)
	}
}

func kindsOf(ts []chsql.Token) string {
	var b strings.Builder
	for _, t := range ts {
		b.WriteString(t.Kind.String())
		b.WriteByte(' ')
	}
	return b.String()
}

// check places s (abstract code string `abs`) into position p and compares with the baseline.
func (c *checker) check(p *position, abs, s string) {
	st := c.stat(p)
	st.Cases++
	req, eff, ok := p.Build(s)
	if !ok {
		st.Inexpr++
		return
	}
	shape := "default"
	if p.Shape != nil {
		shape = p.Shape(eff)
	}
	b, err := c.getBaseline(p, shape)
	if err != nil {
		c.infra = append(c.infra, err.Error())
		return
	}
	st.Slots, st.Statements = b.Slots, len(b.SQL)
	code, sqls, pan := c.wd.run(req)
	mk := func(kind, detail, exp, obs, judge string) mismatch {
		return mismatch{Position: p.Name, Group: p.Group, Kind: kind, Abstract: abs, S: strconv.Quote(s), Eff: strconv.Quote(eff),
			Request: req.String(), Status: code, SQL: sqls, BaseSQL: b.SQL, Detail: detail, Expected: exp, Observed: obs, Judgement: judge}
	}
	if len(sqls) == 0 {
		// the front end refused the string (parse error, validation): nothing reached the database
		st.Rejected++
		return
	}
	_ = pan
	st.Reached++
	if len(p.Alts) > 0 {
		st.RegexKinds = true
		if l, ok := regexLiteral(eff); !ok {
			st.MetaPat++
		} else if l == eff && strings.Contains(eff, "'") {
			st.PlainQuote++
		}
	}
	for i := 0; i < len(abs); i++ {
		st.Classes[abs[i:i+1]]++
	}
	var want []lit
	if p.Want != nil {
		want = p.Want(eff)
	}
	// the statements must be those of a harmless string: of the one of the string's own kind (shape) or of one of the
	// other kinds the position knows (Alts) -- WHICH rendering a planner picks for a string is its own business (a literal
	// pattern may become an equality or a LIKE), that every rendering keeps the string inside its literal is the property
	f := c.compare(b, sqls, want)
	if f == nil {
		return
	}
	if f.kind != "lexfail" {
		for i := range p.Alts {
			ab, err := c.getBaseline(p, altKey(i))
			if err != nil {
				c.altErrs[p.Name+"|"+altKey(i)] = err.Error()
				continue
			}
			if c.compare(ab, sqls, want) == nil {
				st.ViaAlt++
				return
			}
		}
	}
	m := mk(f.kind, f.detail, f.exp, f.obs, f.judge)
	c.record(p, m)
}

type cmpFail struct{ kind, detail, exp, obs, judge string }

func altKey(i int) string { return fmt.Sprintf("alt:%d", i) }

// compare tokenises the statements and compares them with the baseline token by token; nil = same structure, every literal
// of the request string carries an acceptable value, no other token differs.
func (c *checker) compare(b *baseline, sqls []string, want []lit) *cmpFail {
	if len(sqls) > len(b.SQL) {
		// (fewer statements: the request stopped early, e.g. an error after the first statement; the prefix is compared)
		return &cmpFail{"structure", fmt.Sprintf("%d statements instead of %d", len(sqls), len(b.SQL)), "", "", "a different number of statements is sent"}
	}
	for i, q := range sqls {
		ts, err := chsql.Lex(q)
		if err != nil {
			return &cmpFail{"lexfail", fmt.Sprintf("statement %d does not tokenise: %v", i, err), "", "",
				"INJECTION: the literal is not closed where the planner thinks it is; the rest of the statement changes meaning"}
		}
		bt := b.Toks[i]
		if len(ts) != len(bt) {
			return &cmpFail{"structure", fmt.Sprintf("statement %d has %d tokens, baseline %d\n got: %s\nbase: %s", i, len(ts), len(bt), kindsOf(ts), kindsOfInfo(bt)), "", "",
				"INJECTION: the token structure differs from the one of a harmless string"}
		}
		for j, t := range ts {
			if t.Kind != bt[j].Kind {
				return &cmpFail{"structure", fmt.Sprintf("statement %d token %d is %s %q, baseline %s %q", i, j, t.Kind, t.Text, bt[j].Kind, bt[j].Text), "", "",
					"INJECTION: the token structure differs from the one of a harmless string"}
			}
		}
		for j, t := range ts {
			if bt[j].Slot >= 0 {
				w := want[bt[j].Slot]
				if !w.matches(t.Val) {
					obs := strconv.Quote(t.Val)
					if w.Like {
						obs += " = LIKE pattern meaning " + strconv.Quote(likeString(likeDecode(t.Val)))
					}
					return &cmpFail{"value", fmt.Sprintf("statement %d token %d: literal %s", i, j, t.Text), w.describe(), obs,
						"WRONG ANSWER: same token structure, but the literal decodes to a different value than the user's string"}
				}
			} else if t.Text != bt[j].Text {
				return &cmpFail{"foreign", fmt.Sprintf("statement %d token %d: %q, baseline %q", i, j, t.Text, bt[j].Text), "", "",
					"the request string changes a token that is not its own literal"}
			}
		}
	}
	return nil
}

func kindsOfInfo(ts []tokInfo) string {
	var b strings.Builder
	for _, t := range ts {
		b.WriteString(t.Kind.String())
		b.WriteByte(' ')
	}
	return b.String()
}

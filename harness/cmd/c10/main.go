// Command c10 binds spec/query/Escape.tla to the real reader: every string exported by TLC is concretised and placed in
// every string-valued position of the real HTTP routes; the SQL handed to the database session is tokenised with the
// ClickHouse reference lexer (chsql.Lex) and compared with the SQL of a harmless string in the same position.
package main

import (
	"bufio"
	"encoding/json"
	"flag"
	"fmt"
	"hash/fnv"
	"io"
	"math/rand"
	"os"
	"runtime/pprof"
	"sort"
	"strconv"
	"strings"
	"syscall"
	"time"
)

type tlcCase struct {
	S     string `json:"s"`     // abstract string (class codes)
	Esc   string `json:"esc"`   // Esc(s) of the spec
	Like  string `json:"like"`  // LikeContent(s) of the spec
	Dec   string `json:"dec"`   // LikeDecoded(s) of the spec
	Flags string `json:"flags"` // EscOK LikeStructOK LikeValueOK
}

type output struct {
	Cases            int                  `json:"cases"`
	Strings          int                  `json:"abstract_strings"`
	Concrete         int                  `json:"concrete_strings"`
	Positions        int                  `json:"positions"`
	Stats            map[string]*posStats `json:"stats"`
	ClassesReached   map[string]int       `json:"classes_reached"`
	Mismatches       []mismatch           `json:"mismatches"`
	Failing          map[string][]string  `json:"failing"` // family|kind|group -> failing abstract strings
	Conformance      confResult           `json:"conformance"`
	Infra            []string             `json:"infra"`
	AltErrs          map[string]string    `json:"alt_baseline_errors"`
	Samples          []map[string]any     `json:"samples"`
	WallS            float64              `json:"wall_s"`
	Shard            string               `json:"shard"`
}

func loadCases(path string) ([]tlcCase, error) {
	f, err := os.Open(path)
	if err != nil {
		return nil, err
	}
	defer f.Close()
	var out []tlcCase
	sc := bufio.NewScanner(f)
	sc.Buffer(make([]byte, 1<<20), 1<<20)
	for sc.Scan() {
		line := strings.TrimSpace(sc.Text())
		if line == "" {
			continue
		}
		var c tlcCase
		if err := json.Unmarshal([]byte(line), &c); err != nil {
			return nil, fmt.Errorf("bad case line %q: %v", line, err)
		}
		out = append(out, c)
	}
	return out, sc.Err()
}

func main() {
	if len(os.Args) < 2 {
		fmt.Println("usage: c10 show | run -cases f -out f -seed n -shard i/n -reps k")
		os.Exit(2)
	}
	switch os.Args[1] {
	case "show":
		show()
	case "run":
		run(os.Args[2:])
	default:
		os.Exit(2)
	}
}

// silence points file descriptors 1 and 2 to /dev/null (loggers created at init time keep the original *os.File) and
// returns a handle on the original stdout.
func silence() *os.File {
	devnull, _ := os.OpenFile(os.DevNull, os.O_WRONLY, 0)
	keep, err := syscall.Dup(1)
	realOut := os.Stdout
	if err == nil {
		realOut = os.NewFile(uintptr(keep), "stdout")
	}
	syscall.Dup3(int(devnull.Fd()), 1, 0)
	syscall.Dup3(int(devnull.Fd()), 2, 0)
	return realOut
}

func show() {
	out := silence()
	os.Stdout = out
	wd, err := newWorld()
	if err != nil {
		panic(err)
	}
	c := newChecker(wd)
	for _, p := range allPositions() {
		for shape := range p.Baselines {
			b, err := c.getBaseline(p, shape)
			if err != nil {
				fmt.Println("!!", err)
				continue
			}
			fmt.Printf("== %s [%s] status=%d slots=%d\n", p.Name, shape, b.Code, b.Slots)
			for _, q := range b.SQL {
				fmt.Println("   ", q)
			}
		}
	}
	if len(os.Args) > 2 {
		// try a string everywhere
		s, _ := strconv.Unquote(os.Args[2])
		t0 := time.Now()
		n := 0
		for _, p := range allPositions() {
			c.check(p, "?", s)
			n++
		}
		fmt.Println(n, "checks in", time.Since(t0))
		for name, st := range c.stats {
			if st.Reached == 0 {
				fmt.Printf("not reached: %s %+v\n", name, *st)
			}
		}
		for _, m := range c.mism {
			j, _ := json.MarshalIndent(m, "", " ")
			fmt.Println(string(j))
		}
		for _, e := range c.infra {
			fmt.Println("INFRA", e)
		}
	}
}

func hashOf(parts ...string) uint64 {
	h := fnv.New64a()
	for _, p := range parts {
		io.WriteString(h, p)
		h.Write([]byte{0})
	}
	return h.Sum64()
}

// selected decides whether abstract string s is placed into position p in this tier.
//   length <= 2: every position, every host query shape (both tiers)
//   longer:      one host query shape per position family (rotating with the string);
//     thorough:  length 3 -> every family; longer (sampled) -> the primary families
//     quick:     the primary families only: every LIKE position, 1/4 of the others per string
func selected(tier, s string, p *position) bool {
	if len(s) <= 2 {
		return true
	}
	if p.Hosts > 1 && int(hashOf(s, "host")%uint64(p.Hosts)) != p.Host {
		return false
	}
	if tier == "thorough" {
		return len(s) == 3 || p.Primary
	}
	if !p.Primary {
		return false
	}
	if p.Group == "doLike" {
		return true
	}
	return hashOf(s, p.Family)%4 == 0
}

func run(args []string) {
	fs := flag.NewFlagSet("run", flag.ExitOnError)
	casesPath := fs.String("cases", "", "ndjson cases exported by TLC")
	outPath := fs.String("out", "", "result json")
	seed := fs.Int64("seed", 1, "seed")
	shard := fs.String("shard", "0/1", "i/n")
	nreps := fs.Int("reps", 1, "concretisations per (string, position) for strings longer than 2")
	nrepsShort := fs.Int("reps-short", 1, "concretisations per (string, position) for strings of length 2 (3 for shorter ones)")
	posFilter := fs.String("positions", "", "substring filter on position names")
	cpuprof := fs.String("cpuprofile", "", "write a CPU profile")
	tier := fs.String("tier", "quick", "quick or thorough: see selected()")
	fs.Parse(args)
	if *cpuprof != "" {
		f, _ := os.Create(*cpuprof)
		pprof.StartCPUProfile(f)
		defer pprof.StopCPUProfile()
	}
	var si, sn int
	fmt.Sscanf(*shard, "%d/%d", &si, &sn)
	if sn <= 0 {
		sn = 1
	}
	t0 := time.Now()
	cases, err := loadCases(*casesPath)
	if err != nil {
		fmt.Fprintln(os.Stderr, err)
		os.Exit(2)
	}
	// the reader prints every label query and some errors on stdout/stderr
	realOut := silence()
	wd, err := newWorld()
	if err != nil {
		fmt.Fprintln(realOut, "world:", err)
		os.Exit(2)
	}
	ck := newChecker(wd)
	var positions []*position
	for _, p := range allPositions() {
		if *posFilter == "" || strings.Contains(p.Name, *posFilter) {
			positions = append(positions, p)
		}
	}
	out := output{Stats: ck.stats, ClassesReached: map[string]int{}, Shard: *shard, Positions: len(positions)}
	// conformance of the spec's transducers with the real code: shard 0 only (it is cheap)
	if si == 0 {
		out.Conformance = conformance(cases)
	}
	concrete := map[string]bool{}
	for ci, cs := range cases {
		if ci%sn != si {
			continue
		}
		out.Strings++
		for pi, p := range positions {
			if !selected(*tier, cs.S, p) {
				continue
			}
			k := *nreps
			if len(cs.S) <= 1 {
				k = 3
			} else if len(cs.S) == 2 {
				k = *nrepsShort
			}
			h := fnv.New64a()
			io.WriteString(h, cs.S)
			io.WriteString(h, p.Name)
			rng := rand.New(rand.NewSource(*seed*1000003 + int64(h.Sum64()>>1)))
			seen := map[string]bool{}
			for r := 0; r < k; r++ {
				var s string
				if r == 0 && (pi+ci)%4 == 0 {
					s = canon(cs.S)
				} else {
					s = concretise(cs.S, rng)
				}
				if seen[s] {
					continue
				}
				seen[s] = true
				concrete[s] = true
				ck.check(p, cs.S, s)
				out.Cases++
			}
		}
		if len(ck.infra) > 20 {
			break
		}
	}
	out.Concrete = len(concrete)
	for _, st := range ck.stats {
		for c, n := range st.Classes {
			out.ClassesReached[c] += n
		}
	}
	sort.Slice(ck.mism, func(i, j int) bool {
		a, b := ck.mism[i], ck.mism[j]
		if a.Position != b.Position {
			return a.Position < b.Position
		}
		if len(a.Abstract) != len(b.Abstract) {
			return len(a.Abstract) < len(b.Abstract)
		}
		return a.Abstract < b.Abstract
	})
	out.Mismatches = ck.mism
	out.Failing = map[string][]string{}
	for k, set := range ck.failing {
		for a := range set {
			out.Failing[k] = append(out.Failing[k], a)
		}
		sort.Strings(out.Failing[k])
	}
	out.Infra = ck.infra
	out.AltErrs = ck.altErrs
	// a few cases written out
	for i, cs := range cases {
		if i%sn == si && len(cs.S) == 2 && len(out.Samples) < 3 {
			s := canon(cs.S)
			out.Samples = append(out.Samples, map[string]any{"abstract": cs.S, "concrete": strconv.Quote(s), "spec_esc": cs.Esc, "spec_like": cs.Like, "spec_flags": cs.Flags})
		}
	}
	out.WallS = time.Since(t0).Seconds()
	b, _ := json.MarshalIndent(out, "", " ")
	if err := os.WriteFile(*outPath, b, 0o644); err != nil {
		fmt.Fprintln(realOut, err)
		os.Exit(2)
	}
}

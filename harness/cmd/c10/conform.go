package main

import (
	"fmt"
	"regexp"
	"strconv"
	"strings"
	"unicode/utf8"

	"github.com/metrico/qryn/reader/logql/logql_transpiler_v2/clickhouse_planner"
	"github.com/metrico/qryn/reader/logql/logql_transpiler_v2/shared"
	sql "github.com/metrico/qryn/reader/utils/sql_select"
	"verif/harness/chsql"
)

// Conformance of Escape.tla with the code it transcribes, on the canonical concretisation of every exported string:
//   spec Esc(s)          = real sql.NewStringVal(s).String()
//   spec LikeText(s)     = the literal the real LineFilterPlanner renders for |= s
//   spec RegexPlain(s)   = regexp/syntax parses s as the literal s (and regexp.QuoteMeta leaves it alone)
//   spec Lex / LikeDecode = chsql.Lex / likeDecode on those texts (the spec's flags EscOK, LikeStructOK, LikeValueOK and
//                           the decoded pattern are recomputed from the REAL text with the reference lexer)
// A TLC counterexample (flag 0) that the real code does not reproduce is an infrastructure problem, and so is a
// transducer mismatch: the spec no longer describes the code.

type confMismatch struct {
	Abstract string `json:"abstract"`
	S        string `json:"s_quoted"`
	What     string `json:"what"`
	Spec     string `json:"spec"`
	Real     string `json:"real"`
}

type confResult struct {
	Checked          int            `json:"checked"`
	Mismatches       []confMismatch `json:"mismatches"`
	MismatchCount    int            `json:"mismatch_count"`
	SpecEscViol      int            `json:"spec_esc_violations"`
	SpecLikeStruct   int            `json:"spec_like_structure_violations"`
	SpecLikeValue    int            `json:"spec_like_value_violations"`
	RealEscViol      int            `json:"real_esc_violations"`
	RealLikeStruct   int            `json:"real_like_structure_violations"`
	RealLikeValue    int            `json:"real_like_value_violations"`
	FirstRealLike    []string       `json:"first_real_like_value_violations"`
	FirstRealEsc     []string       `json:"first_real_esc_violations"`
}

type stubPlanner struct{}

func (stubPlanner) Process(ctx *shared.PlannerContext) (sql.ISelect, error) {
	return sql.NewSelect().Select(sql.NewRawObject("1")).From(sql.NewRawObject("t")), nil
}

func sqlCtx() *sql.Ctx {
	return &sql.Ctx{Params: map[string]sql.SQLObject{}, Result: map[string]sql.SQLObject{}}
}

// realLikeLiteral renders `|= s` with the real LineFilterPlanner and returns the text of the pattern literal.
func realLikeLiteral(s string) (string, error) {
	p := &clickhouse_planner.LineFilterPlanner{Op: "|=", Val: s, Main: stubPlanner{}}
	sel, err := p.Process(&shared.PlannerContext{})
	if err != nil {
		return "", err
	}
	q, err := sel.String(sqlCtx())
	if err != nil {
		return "", err
	}
	const pre = "like(string, "
	i := strings.Index(q, pre)
	j := strings.LastIndex(q, ")) == (1))")
	if i < 0 || j < i {
		return "", fmt.Errorf("unexpected rendering %q", q)
	}
	return q[i+len(pre) : j], nil
}

func oneLiteral(text string) (val string, ok bool) {
	ts, err := chsql.Lex(text)
	if err != nil || len(ts) != 1 || ts[0].Kind != chsql.TokString {
		return "", false
	}
	return ts[0].Val, true
}

func decToElems(dec string) ([]likeElem, bool) {
	var r []likeElem
	for i := 0; i < len(dec); i++ {
		switch dec[i] {
		case 'A':
			r = append(r, likeElem{Kind: 'A'})
		case 'O':
			r = append(r, likeElem{Kind: 'O'})
		case 'E':
			r = append(r, likeElem{Kind: 'E'})
		case 'C':
			return nil, false
		default:
			for _, b := range []byte(canon(dec[i : i+1])) {
				r = append(r, likeElem{Kind: 'L', B: b})
			}
		}
	}
	return r, true
}

func conformance(cases []tlcCase) confResult {
	var res confResult
	add := func(cs tlcCase, s, what, spec, real string) {
		res.MismatchCount++
		if len(res.Mismatches) < 10 {
			res.Mismatches = append(res.Mismatches, confMismatch{Abstract: cs.S, S: strconv.Quote(s), What: what, Spec: strconv.Quote(spec), Real: strconv.Quote(real)})
		}
	}
	for _, cs := range cases {
		if strings.HasPrefix(cs.Flags, "xxx") {
			continue // a TLC counterexample string added by the checker without the spec's values
		}
		if len(cs.Flags) != 4 {
			add(cs, "", "flags", cs.Flags, "")
			continue
		}
		res.Checked++
		s := canon(cs.S)
		// --- StringVal.String
		realQ, err := sql.NewStringVal(s).String(sqlCtx())
		specQ := "'" + canon(cs.Esc) + "'"
		if err != nil || realQ != specQ {
			add(cs, s, "Esc", specQ, realQ)
		}
		v, ok := oneLiteral(realQ)
		realEscOK := ok && v == s
		if !realEscOK {
			res.RealEscViol++
			if len(res.FirstRealEsc) < 5 {
				res.FirstRealEsc = append(res.FirstRealEsc, strconv.Quote(s)+" -> "+realQ)
			}
		}
		if cs.Flags[0] == '0' {
			res.SpecEscViol++
		}
		if realEscOK != (cs.Flags[0] == '1') {
			add(cs, s, "EscOK (spec Lex vs chsql.Lex on the real text)", cs.Flags[0:1], fmt.Sprint(realEscOK))
		}
		// --- doLike
		realL, err := realLikeLiteral(s)
		specL := "'%" + canon(cs.Like) + "%'"
		if err != nil || realL != specL {
			add(cs, s, "LikeText", specL, realL)
		}
		lv, lok := oneLiteral(realL)
		if !lok {
			res.RealLikeStruct++
		}
		if cs.Flags[1] == '0' {
			res.SpecLikeStruct++
		}
		if lok != (cs.Flags[1] == '1') {
			add(cs, s, "LikeStructOK", cs.Flags[1:2], fmt.Sprint(lok))
		}
		realValOK := lok && likeEq(likeDecode(lv), likeIntended(s))
		if !realValOK {
			res.RealLikeValue++
			if len(res.FirstRealLike) < 5 {
				res.FirstRealLike = append(res.FirstRealLike, strconv.Quote(s)+" -> "+realL+" means "+strconv.Quote(likeString(likeDecode(lv))))
			}
		}
		if cs.Flags[2] == '0' {
			res.SpecLikeValue++
		}
		if realValOK != (cs.Flags[2] == '1') {
			add(cs, s, "LikeValueOK", cs.Flags[2:3], fmt.Sprint(realValOK))
		}
		// --- RegexPlain: the spec's class "the pattern is its own literal" against regexp/syntax (what the planners consult
		// when they choose a rendering by the kind of pattern) and against regexp.QuoteMeta
		lit, isLit := regexLiteral(s)
		realPlain := isLit && lit == s
		if realPlain != (cs.Flags[3] == '1') {
			add(cs, s, "RegexPlain (regexp/syntax)", cs.Flags[3:4], fmt.Sprint(realPlain))
		}
		if utf8.ValidString(s) && s != "" && (regexp.QuoteMeta(s) == s) != (cs.Flags[3] == '1') {
			add(cs, s, "RegexPlain (regexp.QuoteMeta)", cs.Flags[3:4], fmt.Sprint(regexp.QuoteMeta(s) == s))
		}
		if lok {
			if want, ok := decToElems(cs.Dec); ok && !likeEq(want, likeDecode(lv)) {
				add(cs, s, "LikeDecoded", likeString(want), likeString(likeDecode(lv)))
			}
		}
	}
	return res
}

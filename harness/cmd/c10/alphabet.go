package main

import (
	"math/rand"
	"strings"
)

// One printable code per character class; the same codes as MC_Escape.tla (operator Code).
// Sigma: the input alphabet of the spec. The extra letters (0 1 n r b t x) only occur in escaped text.
var sigmaCodes = "BQDZNRPTS%_-/*#;HXaK"

// representatives: concrete byte strings standing for a class. The FIRST entry is the canonical one (used for the
// spec <-> code conformance of the escaping transducers, where 'a' must be the letter a because of \x1a).
var reps = map[byte][]string{
	'B': {`\`},
	'Q': {`'`},
	'D': {`"`},
	'Z': {"\x00"},
	'N': {"\n"},
	'R': {"\r"},
	'P': {"\b"},
	'T': {"\t"},
	'S': {"\x1a"},
	'%': {"%"},
	'_': {"_"},
	'-': {"-", "--"},
	'/': {"/"},
	'*': {"*"},
	'#': {"#", "# ", "#!"},
	';': {";"},
	// multi-byte UTF-8: 2, 3 and 4 byte forms, look-alike quotes, a line separator
	'H': {"é", "€", "\U0001D11E", "\u02bc", "\uff07", "\u00a0", "\u2028", "\uff3c"},
	// invalid UTF-8: lone start byte, lone continuation bytes, 0xff, a truncated 3-byte form, an overlong quote
	'X': {"\xff", "\xc0", "\x80", "\xbf", "\xe2\x82", "\xc0\xa7", "\xa7"},
	// the backtick: raw-string quote of the query languages in front of SQL (a value re-quoted with backticks must not be able
	// to close its own quote and continue as query text), identifier quote of ClickHouse
	'K': {"`", "`,x=`", "`}|={x=`", "``"},
	// harmless letters / digits: n r t b x 0 after a backslash are ClickHouse escapes, a is \a
	'a': {"a", "n", "x", "0", "Z", "b", "t", "r", "e", "N"},
	// letters emitted by the escaping code
	'0': {"0"}, '1': {"1"}, 'n': {"n"}, 'r': {"r"}, 'b': {"b"}, 't': {"t"}, 'x': {"x"},
}

// canon concretises a code string with the canonical representative of every class.
func canon(code string) string {
	var b strings.Builder
	for i := 0; i < len(code); i++ {
		b.WriteString(reps[code[i]][0])
	}
	return b.String()
}

// concretise picks a representative per POSITION (so that "HH" may become two different runes).
func concretise(code string, rng *rand.Rand) string {
	var b strings.Builder
	for i := 0; i < len(code); i++ {
		r := reps[code[i]]
		b.WriteString(r[rng.Intn(len(r))])
	}
	return b.String()
}

// likeElem is one element of a decoded LIKE pattern.
type likeElem struct {
	Kind byte // 'A' any, 'O' one, 'L' literal byte, 'E' error (escape at the end)
	B    byte
}

// likeDecode is ClickHouse's likePatternToRegexp read as a sequence of wildcards / literal bytes
// (same rules as harness/chsql/funcs_string.go likeToRegexp and Escape.tla LikeDecode).
func likeDecode(p string) []likeElem {
	var r []likeElem
	for i := 0; i < len(p); i++ {
		c := p[i]
		switch c {
		case '%':
			r = append(r, likeElem{Kind: 'A'})
		case '_':
			r = append(r, likeElem{Kind: 'O'})
		case '\\':
			if i+1 == len(p) {
				r = append(r, likeElem{Kind: 'E'})
				return r
			}
			switch p[i+1] {
			case '%', '_', '\\':
				r = append(r, likeElem{Kind: 'L', B: p[i+1]})
				i++
			default:
				r = append(r, likeElem{Kind: 'L', B: '\\'})
			}
		default:
			r = append(r, likeElem{Kind: 'L', B: c})
		}
	}
	return r
}

func likeIntended(s string) []likeElem {
	r := []likeElem{{Kind: 'A'}}
	for i := 0; i < len(s); i++ {
		r = append(r, likeElem{Kind: 'L', B: s[i]})
	}
	return append(r, likeElem{Kind: 'A'})
}

func likeEq(a, b []likeElem) bool {
	if len(a) != len(b) {
		return false
	}
	for i := range a {
		if a[i] != b[i] {
			return false
		}
	}
	return true
}

func likeString(p []likeElem) string {
	var b strings.Builder
	for _, e := range p {
		switch e.Kind {
		case 'A':
			b.WriteString("<ANY>")
		case 'O':
			b.WriteString("<ONE>")
		case 'E':
			b.WriteString("<ERROR:escape at end>")
		default:
			b.WriteByte(e.B)
		}
	}
	return b.String()
}

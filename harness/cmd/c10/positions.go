package main

import (
	"encoding/json"
	"fmt"
	"net/url"
	"regexp"
	"regexp/syntax"
	"strconv"
	"strings"
	"unicode/utf8"

	"github.com/metrico/qryn/reader/prof"
	typesv1 "github.com/metrico/qryn/reader/prof/types/v1"
	"google.golang.org/protobuf/proto"
)

const (
	startNs = "1700000000000000000"
	endNs   = "1700000600000000000"
	startS  = "1700000000"
	endS    = "1700000600"
	startMs = int64(1700000000000)
	endMs   = int64(1700000600000)
)

// ---- front-end quoting ------------------------------------------------------------------------------------------------

// jsonQuote renders s as a JSON string literal keeping every byte >= 0x20 except " and \ as it is.
func jsonQuote(s string) string {
	var b strings.Builder
	b.WriteByte('"')
	for i := 0; i < len(s); i++ {
		c := s[i]
		switch {
		case c == '"' || c == '\\':
			b.WriteByte('\\')
			b.WriteByte(c)
		case c < 0x20 || c == 0x7f:
			fmt.Fprintf(&b, `\u%04x`, c)
		default:
			b.WriteByte(c)
		}
	}
	b.WriteByte('"')
	return b.String()
}

// jsonRoundTrip: what encoding/json yields for the literal (invalid UTF-8 bytes become U+FFFD): the USER string of every
// LogQL / TraceQL position (their Unquote is json.Unmarshal).
func jsonRoundTrip(s string) (string, bool) {
	var r string
	if err := json.Unmarshal([]byte(jsonQuote(s)), &r); err != nil {
		return "", false
	}
	return r, true
}

// qlString renders s for the LogQL / TraceQL lexers: "..." (JSON escapes) or, for strings without backslash, backtick and
// control characters, sometimes `...`.
func qlString(s string) (text, eff string, ok bool) {
	eff, ok = jsonRoundTrip(s)
	if !ok {
		return "", "", false
	}
	plain := true
	for i := 0; i < len(s); i++ {
		if s[i] == '\\' || s[i] == '`' || s[i] < 0x20 || s[i] == 0x7f {
			plain = false
		}
	}
	if plain && len(s) > 0 && (len(s)+int(s[0]))%3 == 0 {
		return "`" + s + "`", eff, true
	}
	return jsonQuote(s), eff, true
}

// goQuote: strconv.Quote, for front ends that use strconv.Unquote (Tempo tags, Pyroscope selectors, PromQL).
func goQuote(s string) (text, eff string, ok bool) { return strconv.Quote(s), s, true }

var logqlIdent = regexp.MustCompile(`^[a-zA-Z][a-zA-Z0-9_]*$`) // leading _ is the macro token
var traceqlIdent = regexp.MustCompile(`^[a-zA-Z_][.a-zA-Z0-9_-]*$`)
var promIdent = regexp.MustCompile(`^[a-zA-Z_][a-zA-Z0-9_]*$`)

var logqlKeywords = map[string]bool{"by": true, "without": true, "json": true, "logfmt": true, "regexp": true, "unwrap": true, "drop": true,
	"line_format": true, "label_format": true, "and": true, "or": true, "bool": true, "on": true, "ignoring": true}

func identOf(re *regexp.Regexp, reserved map[string]bool) func(string) (string, string, bool) {
	return func(s string) (string, string, bool) {
		if !re.MatchString(s) || reserved[strings.ToLower(s)] {
			return "", "", false
		}
		return s, s, true
	}
}

// ---- request builders -------------------------------------------------------------------------------------------------------

func lokiRange(q string) *request {
	return &request{Method: "GET", Path: "/loki/api/v1/query_range", Query: url.Values{
		"query": {q}, "start": {startNs}, "end": {endNs}, "step": {"60"}, "limit": {"100"}}}
}

type quoter func(string) (string, string, bool)

// logql builds positions from a LogQL template with one %s hole, in three host query shapes.
func logqlPositions(name, group, tmpl string, q quoter, want func(string) []lit, extra ...func(*position)) []*position {
	// rate over >= 15s takes the metrics_15s shortcut when the pipeline allows it (a different statement shape);
	// bytes_over_time never does
	hosts := []struct{ n, f string }{
		{"log", "%s"},
		{"rate", "rate(%s [1m])"},
		{"sumby", "sum by (b) (bytes_over_time(%s [1m]))"},
	}
	if strings.HasPrefix(name, "labelfilter=") || strings.HasPrefix(name, "labelfilter!") || strings.HasPrefix(name, "ident.labelfilter.simple") {
		// the shortcut drops a label filter on stream labels: use a range it does not apply to
		hosts[1].f = "rate(%s [10s])"
	}
	var out []*position
	for hi, h := range hosts {
		h := h
		p := &position{Name: "logql." + name + "@" + h.n, Family: "logql." + name, Host: hi, Hosts: len(hosts), Group: group, Want: want, Baselines: map[string]string{"default": marker},
			Build: func(s string) (*request, string, bool) {
				t, eff, ok := q(s)
				if !ok {
					return nil, "", false
				}
				return lokiRange(fmt.Sprintf(h.f, fmt.Sprintf(tmpl, t))), eff, true
			}}
		for _, e := range extra {
			e(p)
		}
		out = append(out, p)
	}
	return out
}

// regex line filters: a literal regex becomes a LIKE on its literal text, everything else match(string, re)
func regexLiteral(eff string) (string, bool) {
	exp, err := syntax.Parse(eff, syntax.PerlX)
	if err != nil {
		return "", false
	}
	if exp.Op != syntax.OpLiteral || exp.Flags & ^(syntax.PerlX|syntax.FoldCase) != 0 {
		return "", false
	}
	if exp.Flags&syntax.FoldCase != 0 {
		return "", false // not reachable with the alphabet of the spec
	}
	return string(exp.Rune), true
}

func regexShape(p *position) {
	p.Shape = func(eff string) string {
		if _, ok := regexLiteral(eff); ok {
			return "like"
		}
		return "match"
	}
	p.Baselines = map[string]string{"like": marker, "match": marker + ".*"}
	p.Want = func(eff string) []lit {
		if l, ok := regexLiteral(eff); ok {
			return []lit{{Like: true, Val: l}}
		}
		return []lit{{Val: eff}}
	}
}

// regexKinds: a position that takes a regular expression as a comparison value (label matchers, label filters, TraceQL and
// tag comparisons). Escape.tla MatcherValues: besides the rendering with the (anchored) pattern a planner may compare with the
// pattern's LITERAL TEXT when the pattern is a literal (regexp/syntax OpLiteral; the text is the string itself when
// regexp.QuoteMeta leaves it alone). Both values are acceptable in the string's literal; the statements may be those of a
// harmless literal pattern or of a harmless pattern with a metacharacter.
func regexKinds(p *position) {
	base := p.Want
	p.Want = func(eff string) []lit {
		w := append([]lit{}, base(eff)...)
		if l, ok := regexLiteral(eff); ok {
			return append(w, lit{Val: l})
		}
		if eff == "" {
			return append(w, lit{Val: ""}) // the empty pattern, anchored, is equality with the empty string
		}
		return append(w, w[0]) // fixed length: slots are indices
	}
	p.Alts = append(p.Alts, marker+".*")
	p.Baselines[altKey(0)] = marker + ".*"
}

func likeWant(eff string) []lit { return []lit{{Like: true, Val: eff}} }

// emptyShape: an empty string legitimately renders a different statement in some positions (drop a="" drops by name
// only; an empty line filter lets rate() take the metrics_15s shortcut and disappear).
func emptyShape(p *position) {
	prev := p.Shape
	p.Shape = func(eff string) string {
		if eff == "" {
			return "empty"
		}
		if prev != nil {
			return prev(eff)
		}
		return "default"
	}
	p.Baselines["empty"] = ""
}

func protoBody(m proto.Message) []byte {
	b, err := proto.Marshal(m)
	if err != nil {
		return nil
	}
	return b
}

func profReq(path string, m proto.Message) *request {
	b := protoBody(m)
	if b == nil {
		return nil
	}
	return &request{Method: "POST", Path: path, Body: b, CType: "application/proto"}
}

const typeID = "process_cpu:cpu:nanoseconds:cpu:nanoseconds"

// primaryFamilies: one position per distinct front end x rendering site; the quick tier sends the strings of length >= 3
// only to these (every string of length <= 2 goes everywhere in both tiers).
var primaryFamilies = map[string]bool{
	"logql.matcher=": true, "logql.matcher=~": true, "logql.labelfilter=": true, "logql.labelfilter=~": true,
	"logql.labelfilter.afterjson=": true, "logql.linefilter|=": true, "logql.linefilter!=": true, "logql.linefilter|~": true,
	"logql.linefilter!~": true, "logql.linefilter.second|=": true, "logql.json.path": true, "logql.regexp.param": true,
	"logql.drop.value": true, "logql.drop.value.afterjson": true,
	"loki.label.name.url": true, "loki.label.values.match[]=": true, "loki.series.match[]=~": true,
	"prom.label.name.url": true, "prom.query.matcher=": true, "prom.query_range.matcher=~": true, "prom.series.match[]=": true,
	"prom.label.values.match[]=": true, "prom.query.metricname=": true,
	"traceql.attr.value=": true, "traceql.attr.value=~": true, "traceql.name.value=": true, "tempo.v2.values.tag.url": true,
	"tempo.v2.tags.q.value": true, "tempo.values.tag.url": true, "tempo.search.tags.value=": true, "tempo.search.tags.value=~": true,
	"tempo.search.tags.name": true,
	"prof.stacktraces.selector.value=": true, "prof.stacktraces.selector.value=~": true, "prof.stacktraces.selector.__profile_type__=": true,
	"prof.labelvalues.name": true, "prof.series.groupby": true, "prof.seriesapi.labelnames": true, "prof.stacktraces.typeid.name": true,
	"prof.stacktraces.typeid.sample_type": true, "prof.renderdiff.leftquery.value": true, "prof.labelnames.matchers.value=": true,
}

func allPositions() []*position {
	var ps []*position
	add := func(p ...*position) { ps = append(ps, p...) }

	// ================= LogQL through /loki/api/v1/query_range =================
	for _, op := range []string{"=", "!=", "=~", "!~"} {
		add(logqlPositions("matcher"+op, "StringVal", "{a"+op+"%s}", qlString, matcherWant(op))...)
		add(logqlPositions("labelfilter"+op, "StringVal", `{b="x"} | a`+op+"%s", qlString, exactWant)...)
		add(logqlPositions("labelfilter.afterjson"+op, "StringVal", `{b="x"} | json c="c" | a`+op+"%s", qlString, exactWant)...)
	}
	add(logqlPositions("linefilter|=", "doLike", `{b="x"} |= %s`, qlString, likeWant, emptyShape)...)
	add(logqlPositions("linefilter!=", "doLike", `{b="x"} != %s`, qlString, likeWant, emptyShape)...)
	add(logqlPositions("linefilter|~", "doLike", `{b="x"} |~ %s`, qlString, nil, regexShape, emptyShape)...)
	add(logqlPositions("linefilter!~", "doLike", `{b="x"} !~ %s`, qlString, nil, regexShape, emptyShape)...)
	add(logqlPositions("linefilter.second|=", "doLike", `{b="x"} |= "k" |= %s`, qlString, likeWant, emptyShape)...)
	// json parameter: the string is one quoted field of the path
	jsonPath := func(s string) (string, string, bool) {
		eff, ok := jsonRoundTrip(s)
		if !ok {
			return "", "", false
		}
		eff2, _ := jsonRoundTrip(eff)
		return jsonQuote("[" + jsonQuote(eff) + "]"), eff2, true
	}
	add(logqlPositions("json.path", "StringVal", `{b="x"} | json c=%s`, jsonPath, exactWant)...)
	add(logqlPositions("regexp.param", "StringVal", `{b="x"} | regexp %s`, qlString, exactWant)...)
	add(logqlPositions("drop.value", "StringVal", `{b="x"} | drop a=%s`, qlString, exactWant, emptyShape)...)
	add(logqlPositions("drop.value.afterjson", "StringVal", `{b="x"} | json c="c" | drop a=%s`, qlString, exactWant, emptyShape)...)
	add(logqlPositions("label_format.template", "none", `{b="x"} | label_format a=%s`, qlString, nil, func(p *position) { p.NoSlot = true })...)
	add(logqlPositions("line_format.template", "none", `{b="x"} | line_format %s`, qlString, nil, func(p *position) { p.NoSlot = true })...)
	// identifiers (restricted by the LogQL lexer): only strings that ARE one identifier can be expressed
	lid := identOf(logqlIdent, logqlKeywords)
	add(logqlPositions("ident.matcher.name", "ident", `{%s="x"}`, lid, exactWant)...)
	add(logqlPositions("ident.labelfilter.name", "ident", `{b="x"} | json c="c" | %s="v"`, lid, func(e string) []lit {
		return []lit{{Val: e}}
	})...)
	// raw Sprintf sites: JSONExtractString(labels, '%s') and labels['%s'] take the label NAME without escaping
	add(logqlPositions("ident.labelfilter.simple.name", "ident", `{b="x"} | %s="v"`, lid, exactWant)...)
	add(logqlPositions("ident.labelfilter.simple.numeric.name", "ident", `{b="x"} | %s > 5`, lid, exactWant)...)
	add(logqlPositions("ident.labelfilter.numeric.name", "ident", `{b="x"} | json c="c" | %s >= 5`, lid, exactWant)...)
	add(logqlPositions("ident.json.label", "ident", `{b="x"} | json %s="c"`, lid, exactWant)...)
	add(logqlPositions("ident.drop.name", "ident", `{b="x"} | json c="c" | drop %s`, lid, exactWant)...)
	add(logqlPositions("ident.label_format.name", "none", `{b="x"} | label_format %s="v"`, lid, nil, func(p *position) { p.NoSlot = true })...)
	for _, fn := range []string{"by", "without"} {
		fn := fn
		add(&position{Name: "logql.ident." + fn, Group: "ident", Want: exactWant, Baselines: map[string]string{"default": marker},
			Build: func(s string) (*request, string, bool) {
				t, eff, ok := lid(s)
				if !ok {
					return nil, "", false
				}
				return lokiRange(fmt.Sprintf(`sum %s (%s) (count_over_time({b="x"} | json c="c" [1m]))`, fn, t)), eff, true
			}})
	}
	add(&position{Name: "logql.ident.unwrap", Group: "ident", Want: exactWant, Baselines: map[string]string{"default": marker},
		Build: func(s string) (*request, string, bool) {
			t, eff, ok := lid(s)
			if !ok {
				return nil, "", false
			}
			return lokiRange(fmt.Sprintf(`sum_over_time({b="x"} | json c="c" | unwrap %s [1m])`, t)), eff, true
		}})

	// ================= Loki label / series routes =================
	pathSeg := func(prefix, suffix string, q url.Values) func(string) (*request, string, bool) {
		return func(s string) (*request, string, bool) {
			if s == "" || strings.Contains(s, "/") || s == "." || s == ".." {
				return nil, "", false // gorilla/mux cannot route it into the {name} variable
			}
			return &request{Method: "GET", Path: prefix + url.PathEscape(s) + suffix, Query: q}, s, true
		}
	}
	nsRange := url.Values{"start": {startNs}, "end": {endNs}}
	sRange := url.Values{"start": {startS}, "end": {endS}}
	add(&position{Name: "loki.label.name.url", Group: "StringVal", Want: exactWant, Baselines: map[string]string{"default": marker},
		Build: pathSeg("/loki/api/v1/label/", "/values", nsRange)})
	withQ := func(base url.Values, k, v string) url.Values {
		r := url.Values{}
		for a, b := range base {
			r[a] = b
		}
		r[k] = []string{v}
		return r
	}
	for _, op := range []string{"=", "=~"} {
		op := op
		add(&position{Name: "loki.label.values.match[]" + op, Group: "StringVal", Want: matcherWant(op), Baselines: map[string]string{"default": marker},
			Build: func(s string) (*request, string, bool) {
				t, eff, ok := qlString(s)
				if !ok {
					return nil, "", false
				}
				return &request{Method: "GET", Path: "/loki/api/v1/label/a/values", Query: withQ(nsRange, "match[]", "{a"+op+t+"}")}, eff, true
			}})
		add(&position{Name: "loki.series.match[]" + op, Group: "StringVal", Want: matcherWant(op), Baselines: map[string]string{"default": marker},
			Build: func(s string) (*request, string, bool) {
				t, eff, ok := qlString(s)
				if !ok {
					return nil, "", false
				}
				return &request{Method: "GET", Path: "/loki/api/v1/series", Query: withQ(nsRange, "match[]", "{a"+op+t+"}")}, eff, true
			}})
	}

	// ================= Prometheus routes =================
	add(&position{Name: "prom.label.name.url", Group: "StringVal", Want: exactWant, Baselines: map[string]string{"default": marker},
		Build: pathSeg("/api/v1/label/", "/values", sRange)})
	for _, op := range []string{"=", "!=", "=~", "!~"} {
		op := op
		mk := func(name, path string, base url.Values, key, tmpl string) {
			add(&position{Name: name + op, Group: "StringVal", Want: matcherWant(op), Baselines: map[string]string{"default": marker},
				Build: func(s string) (*request, string, bool) {
					t, eff, ok := goQuote(s)
					if !ok {
						return nil, "", false
					}
					return &request{Method: "GET", Path: path, Query: withQ(base, key, fmt.Sprintf(tmpl, op+t))}, eff, true
				}})
		}
		mk("prom.query.matcher", "/api/v1/query", url.Values{"time": {startS}}, "query", `m{a%s}`)
		mk("prom.query_range.matcher", "/api/v1/query_range", url.Values{"start": {startS}, "end": {endS}, "step": {"60"}}, "query", `sum by (b) (rate(m{a%s}[1m]))`)
		if op == "=" || op == "=~" {
			mk("prom.series.match[]", "/api/v1/series", sRange, "match[]", `m{a%s}`)
			mk("prom.label.values.match[]", "/api/v1/label/a/values", sRange, "match[]", `m{a%s}`)
			mk("prom.query.metricname", "/api/v1/query", url.Values{"time": {startS}}, "query", `{__name__%s}`)
		}
	}
	pid := identOf(promIdent, map[string]bool{})
	add(&position{Name: "prom.ident.label.name", Group: "ident", Want: exactWant, Baselines: map[string]string{"default": marker},
		Build: func(s string) (*request, string, bool) {
			t, eff, ok := pid(s)
			if !ok {
				return nil, "", false
			}
			return &request{Method: "GET", Path: "/api/v1/query", Query: url.Values{"time": {startS}, "query": {`m{` + t + `="v"}`}}}, eff, true
		}})
	add(&position{Name: "prom.ident.metric", Group: "ident", Want: exactWant, Baselines: map[string]string{"default": marker},
		Build: func(s string) (*request, string, bool) {
			t, eff, ok := pid(s)
			if !ok {
				return nil, "", false
			}
			return &request{Method: "GET", Path: "/api/v1/query", Query: url.Values{"time": {startS}, "query": {t + `{b="v"}`}}}, eff, true
		}})

	// ================= Tempo / TraceQL =================
	search := url.Values{"start": {startS}, "end": {endS}, "limit": {"10"}}
	tq := func(name, group, tmpl string, q quoter, path string, base url.Values) {
		add(&position{Name: name, Group: group, Want: exactWant, Baselines: map[string]string{"default": marker},
			Build: func(s string) (*request, string, bool) {
				t, eff, ok := q(s)
				if !ok {
					return nil, "", false
				}
				return &request{Method: "GET", Path: path, Query: withQ(base, "q", fmt.Sprintf(tmpl, t))}, eff, true
			}})
	}
	for _, op := range []string{"=", "!=", "=~", "!~"} {
		tq("traceql.attr.value"+op, "StringVal", `{.a`+op+`%s}`, qlString, "/api/search", search)
	}
	tq("traceql.span.attr.value=", "StringVal", `{span.a=%s}`, qlString, "/api/search", search)
	tq("traceql.resource.attr.value=", "StringVal", `{resource.a=%s}`, qlString, "/api/search", search)
	tq("traceql.name.value=", "StringVal", `{name=%s}`, qlString, "/api/search", search)
	tq("traceql.and.value=", "StringVal", `{.b="x" && .a=%s}`, qlString, "/api/search", search)
	tq("traceql.or.selectors.value=~", "StringVal", `{.b="x"} || {.a=~%s}`, qlString, "/api/search", search)
	tq("traceql.agg.host.value=", "StringVal", `{.a=%s} | avg(.c) > 1`, qlString, "/api/search", search)
	tid := func(s string) (string, string, bool) {
		if !traceqlIdent.MatchString(s) {
			return "", "", false
		}
		return s, s, true
	}
	tq("traceql.ident.attr.name", "ident", `{.%s="x"}`, tid, "/api/search", search)
	tq("traceql.ident.agg.attr", "ident", `{.b="x"} | avg(.%s) > 1`, tid, "/api/search", search)
	tq("tempo.v2.tags.q.value", "StringVal", `{.a=%s}`, qlString, "/api/v2/search/tags", search)
	tq("tempo.v2.values.q.value", "StringVal", `{.a=%s}`, qlString, "/api/v2/search/tag/b/values", search)
	add(&position{Name: "tempo.v2.values.tag.url", Group: "StringVal", Want: exactWant, Baselines: map[string]string{"default": marker},
		Build: pathSeg("/api/v2/search/tag/", "/values", withQ(search, "q", `{.b="x"}`))})
	add(&position{Name: "tempo.values.tag.url", Group: "StringVal", Want: exactWant, Baselines: map[string]string{"default": marker},
		Build: pathSeg("/api/search/tag/", "/values", nil)})
	// (since fix 03a7357 a hex id shorter than 32 digits is left-padded with zeros, as the writer stores it: the padded form is the
	// request's own id too)
	add(&position{Name: "tempo.trace.id.url", Group: "none", Baselines: map[string]string{"default": "000000000000000000000000000000a1"},
		Want: func(eff string) []lit {
			if len(eff) > 0 && len(eff) < 32 && strings.Trim(strings.ToLower(eff), "0123456789abcdef") == "" {
				return []lit{{Val: strings.Repeat("0", 32-len(eff)) + eff}}
			}
			return []lit{{Val: eff}}
		},
		Build: pathSeg("/api/traces/", "", nil)})
	for _, op := range []string{"=", "!=", "=~", "!~"} {
		op := op
		add(&position{Name: "tempo.search.tags.value" + op, Group: "StringVal", Want: exactWant, Baselines: map[string]string{"default": marker},
			Build: func(s string) (*request, string, bool) {
				t, eff, _ := goQuote(s)
				return &request{Method: "GET", Path: "/api/search", Query: withQ(search, "tags", "a"+op+t)}, eff, true
			}})
	}
	add(&position{Name: "tempo.search.tags.name", Group: "StringVal", Want: exactWant, Baselines: map[string]string{"default": marker},
		Build: func(s string) (*request, string, bool) {
			t, eff, _ := goQuote(s)
			return &request{Method: "GET", Path: "/api/search", Query: withQ(search, "tags", t+`="v"`)}, eff, true
		}})
	add(&position{Name: "tempo.search.tags.second.value", Group: "StringVal", Want: exactWant, Baselines: map[string]string{"default": marker},
		Build: func(s string) (*request, string, bool) {
			t, eff, _ := goQuote(s)
			return &request{Method: "GET", Path: "/api/search", Query: withQ(search, "tags", `b="x" a=`+t)}, eff, true
		}})

	// ================= Pyroscope =================
	profSel := func(name, group, tmpl string, q quoter, build func(sel string) *request) {
		add(&position{Name: name, Group: group, Want: matcherWant(name), Baselines: map[string]string{"default": marker},
			Build: func(s string) (*request, string, bool) {
				t, eff, ok := q(s)
				if !ok || !utf8.ValidString(s) {
					return nil, "", false // protobuf string fields must be valid UTF-8
				}
				r := build(fmt.Sprintf(tmpl, t))
				return r, eff, r != nil
			}})
	}
	mst := func(sel string) *request {
		return profReq(prof.QuerierService_SelectMergeStacktraces_FullMethodName, &prof.SelectMergeStacktracesRequest{
			ProfileTypeID: typeID, LabelSelector: sel, Start: startMs, End: endMs})
	}
	for _, op := range []string{"=", "!=", "=~", "!~"} {
		profSel("prof.stacktraces.selector.value"+op, "StringVal", `{a`+op+`%s}`, goQuote, mst)
	}
	for _, n := range []string{"service_name", "__name__", "__period_type__", "__sample_type__", "__profile_type__"} {
		profSel("prof.stacktraces.selector."+n+"=", "StringVal", `{`+n+`=%s}`, goQuote, mst)
	}
	profSel("prof.stacktraces.selector.__sample_unit__=~", "StringVal", `{__sample_unit__=~%s}`, goQuote, mst)
	prid := identOf(promIdent, map[string]bool{})
	profSel("prof.ident.selector.name", "ident", `{%s="v"}`, prid, mst)
	profSel("prof.series.selector.value=", "StringVal", `{a=%s}`, goQuote, func(sel string) *request {
		return profReq(prof.QuerierService_SelectSeries_FullMethodName, &prof.SelectSeriesRequest{
			ProfileTypeID: typeID, LabelSelector: sel, Start: startMs, End: endMs, Step: 15, GroupBy: []string{"b"}})
	})
	profSel("prof.mergeprofile.selector.value=", "StringVal", `{a=%s}`, goQuote, func(sel string) *request {
		return profReq(prof.QuerierService_SelectMergeProfile_FullMethodName, &prof.SelectMergeProfileRequest{
			ProfileTypeID: typeID, LabelSelector: sel, Start: startMs, End: endMs})
	})
	profSel("prof.seriesapi.matchers.value=", "StringVal", `{a=%s}`, goQuote, func(sel string) *request {
		return profReq(prof.QuerierService_Series_FullMethodName, &prof.SeriesRequest{
			Matchers: []string{sel}, LabelNames: []string{"b"}, Start: startMs, End: endMs})
	})
	profSel("prof.labelnames.matchers.value=", "StringVal", `{a=%s}`, goQuote, func(sel string) *request {
		return profReq(prof.QuerierService_LabelNames_FullMethodName, &typesv1.LabelNamesRequest{
			Matchers: []string{sel}, Start: startMs, End: endMs})
	})
	profSel("prof.labelvalues.matchers.value=", "StringVal", `{a=%s}`, goQuote, func(sel string) *request {
		return profReq(prof.QuerierService_LabelValues_FullMethodName, &typesv1.LabelValuesRequest{
			Name: "b", Matchers: []string{sel}, Start: startMs, End: endMs})
	})
	profSel("prof.analyze.query.value=", "StringVal", `{a=%s}`, goQuote, func(sel string) *request {
		return profReq(prof.QuerierService_AnalyzeQuery_FullMethodName, &prof.AnalyzeQueryRequest{
			Query: sel, Start: startMs, End: endMs})
	})
	raw := func(s string) (string, string, bool) { return s, s, true }
	profSel("prof.labelvalues.name", "StringVal", `%s`, raw, func(name string) *request {
		return profReq(prof.QuerierService_LabelValues_FullMethodName, &typesv1.LabelValuesRequest{
			Name: name, Start: startMs, End: endMs})
	})
	profSel("prof.series.groupby", "StringVal", `%s`, raw, func(name string) *request {
		return profReq(prof.QuerierService_SelectSeries_FullMethodName, &prof.SelectSeriesRequest{
			ProfileTypeID: typeID, LabelSelector: `{b="x"}`, Start: startMs, End: endMs, Step: 15, GroupBy: []string{name}})
	})
	profSel("prof.seriesapi.labelnames", "StringVal", `%s`, raw, func(name string) *request {
		return profReq(prof.QuerierService_Series_FullMethodName, &prof.SeriesRequest{
			Matchers: []string{`{b="x"}`}, LabelNames: []string{name}, Start: startMs, End: endMs})
	})
	// profile type id components: name:sample_type:sample_unit:period_type:period_unit
	for i, comp := range []string{"name", "sample_type", "sample_unit", "period_type", "period_unit"} {
		i := i
		add(&position{Name: "prof.stacktraces.typeid." + comp, Group: "StringVal", Baselines: map[string]string{"default": marker},
			Want: func(eff string) []lit {
				parts := []string{"process_cpu", "cpu", "nanoseconds", "cpu", "nanoseconds"}
				parts[i] = eff
				// (since fix e8a627d the planner matches the whole id as ONE __profile_type__ literal; the component-wise literals of
				// the older rendering stay accepted)
				return []lit{{Val: eff}, {Val: parts[0] + ":" + parts[3] + ":" + parts[4]}, {Val: parts[1] + ":" + parts[2]}, {Val: strings.Join(parts, ":")}}
			},
			Build: func(s string) (*request, string, bool) {
				if !utf8.ValidString(s) || strings.Contains(s, ":") {
					return nil, "", false
				}
				parts := []string{"process_cpu", "cpu", "nanoseconds", "cpu", "nanoseconds"}
				parts[i] = s
				r := profReq(prof.QuerierService_SelectMergeStacktraces_FullMethodName, &prof.SelectMergeStacktracesRequest{
					ProfileTypeID: strings.Join(parts, ":"), LabelSelector: `{b="x"}`, Start: startMs, End: endMs})
				return r, s, r != nil
			}})
	}
	add(&position{Name: "prof.renderdiff.leftquery.value", Group: "StringVal", Want: exactWant, Baselines: map[string]string{"default": marker},
		Build: func(s string) (*request, string, bool) {
			t, eff, _ := goQuote(s)
			q := url.Values{"leftQuery": {typeID + `{a=` + t + `}`}, "rightQuery": {typeID + `{b="x"}`},
				"leftFrom": {fmt.Sprint(startMs)}, "leftUntil": {fmt.Sprint(endMs)}, "rightFrom": {fmt.Sprint(startMs)}, "rightUntil": {fmt.Sprint(endMs)}}
			return &request{Method: "GET", Path: "/pyroscope/render-diff", Query: q}, eff, true
		}})
	// regular-expression operators outside the line filters (which have regexShape): the rendering may depend on the kind
	// of pattern -- see Escape.tla MatcherValues
	for _, p := range ps {
		if (strings.Contains(p.Name, "=~") || strings.Contains(p.Name, "!~")) && !strings.Contains(p.Name, "linefilter") && p.Want != nil && p.Group != "ident" {
			regexKinds(p)
		}
	}
	for _, p := range ps {
		if p.Family == "" {
			p.Family, p.Hosts = p.Name, 1
		}
		p.Primary = primaryFamilies[p.Family]
	}
	return ps
}

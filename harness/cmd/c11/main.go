// c11: binding of spec/query/TraceQLSem.tla to the real TraceQL planner.
//
// Input: cases exported by TLC (one JSON object per line: abstract query, abstract trace database, the
// definition's result Eval, the mechanism's results PlanEval and the deviation rules that explain a difference).
// Every case is concretised (abstract atoms -> hostile strings / numbers / timestamps from seeded pools), the
// spans are stored (directly into tempo_traces + tempo_traces_attrs_gin, or through the REAL writer routes
// /tempo/spans (Zipkin JSON) and /v1/traces (OTLP protobuf)), the query goes through the REAL reader route
// (/api/search, /api/v2/search/tags, /api/v2/search/tag/{tag}/values), the generated SQL is executed by chsql
// and the answer is compared with Eval.  Every executed statement must parse and run.
//
// The evaluator (TraceQLSem part 3): a case carries the answer `cx` of the complexity query and the hash class
// `part[ti]` of every trace.  The complexity statement of the request is executed by chsql like every other
// statement (it must be valid) and, when cx > 0, answered with cx instead of the handful of rows a small database
// counts; the trace ids are picked so that cityHash64(trace_id) % np is the class the case says.  The request
// then runs in np portions on the SAME plan; every portion statement is executed by chsql, the number of
// executions is compared with TraceQLSem!Portions and the merged answer with Eval.
package main

import (
	"bufio"
	"context"
	"database/sql/driver"
	"encoding/hex"
	"encoding/json"
	"errors"
	"flag"
	"fmt"
	"math"
	"net/url"
	"os"
	"regexp"
	"sort"
	"strconv"
	"strings"
	"time"

	commonv1 "go.opentelemetry.io/proto/otlp/common/v1"
	resourcev1 "go.opentelemetry.io/proto/otlp/resource/v1"
	tracev1 "go.opentelemetry.io/proto/otlp/trace/v1"
	"google.golang.org/protobuf/proto"

	"verif/harness/chsql"
	"verif/harness/e2e"
	"verif/harness/fakesql"
)

// ---------------------------------------------------------------- abstract case (TLC export)

type Term struct {
	K   string `json:"k"`
	Key string `json:"key"`
	Op  string `json:"op"`
	Cs  string `json:"cs"`
	Cn  int    `json:"cn"`
	Pfx string `json:"pfx"`
}
type Agg struct {
	Fn   string `json:"fn"`
	Attr string `json:"attr"`
	Op   string `json:"op"`
	C    int    `json:"c"`
}
type Sel struct {
	Sh  string `json:"sh"`
	T   []Term `json:"t"`
	Agg Agg    `json:"agg"`
}
type Query struct {
	Kind  string   `json:"kind"`
	Sels  []Sel    `json:"sels"`
	Ops   []string `json:"ops"`
	From  int      `json:"from"`
	To    int      `json:"to"`
	Limit int      `json:"limit"`
	Vkey  string   `json:"vkey"`
}
type Span struct {
	A   string `json:"a"`
	B   string `json:"b"`
	Nm  string `json:"nm"`
	Dur int    `json:"dur"`
	Ts  int    `json:"ts"`
}
type Outcome struct {
	Err  string   `json:"err"`
	M    []int    `json:"M"`
	Ms   [][]int  `json:"ms"`
	Seqs [][]int  `json:"seqs"`
	Strs []string `json:"strs"`
}
type Case struct {
	Layer   string    `json:"layer"`
	H       int       `json:"h"`
	I       int       `json:"i"`
	Q       Query     `json:"q"`
	Db      [][]Span  `json:"db"`
	Cx      int64     `json:"cx"`   // answer of the complexity query (0 = whatever the database counts)
	Np      int       `json:"np"`   // TraceQLSem!Portions(cx): 0 = one execution without random filter
	Part    []int     `json:"part"` // hash class of every trace: cityHash64(trace_id) % np
	Ph      int       `json:"ph"`   // sub-second phase of the stored span timestamps: 0 = whole seconds, 1 = off the second
	Def     Outcome   `json:"def"`
	Mech    []Outcome `json:"mech"`
	Cand    bool      `json:"cand"`
	Explain []string  `json:"explain"`
}

// ---------------------------------------------------------------- concretisation

var keyPairs = [][2]string{
	{"http.status", "httpXstatus"}, {"k-1", "k_1"}, {"Attr", "attr"}, {"a.b.c", "a.b"}, {"x_y", "x.y"}, {"span.kind", "spanXkind"},
}

// sx, sy (decoy partner of sx), zz (stored nowhere)
var strTriples = [][3]string{
	{"a.b", "aXb", "a.bb"},
	{"it's", "its", "it''s"},
	{`q"uo"te`, "quote", `q\"uo\"te`},
	{`back\slash`, "backslash", `back\\slash`},
	{"50%", "50x", "5_%"},
	{"a_b", "aZb", "a__b"},
	{"x|y", "x", "y"},
	{"(grp)+", "grp", "(grp)"},
	{"[a-c]", "b", "[a-c]+"},
	{"^start$", "start", "^start"},
	{"ünï€", "uni", "ÜNÏ"},
	{"tab\there", "tab here", "tabthere"},
	{"a`tick", "atick", "a``tick"},
	{"x' OR '1'='1", "x", "x' OR 1=1 --"},
	{"plain", "PLAIN", "plai"},
}
var nameTriples = [][3]string{
	{"GET /a.b", "GET /aXb", "GET /a"},
	{"op'1", "op1", "op''1"},
	{`n\d`, "n7", `n\\d`},
	{"run(x)", "runx", "run"},
	{"lookup", "LOOKUP", "look"},
}
var alphas = []float64{4, 2.5, 35, 0.5, 12}
var durUnits = []int64{500000, 250000, 1000000, 60000000} // microseconds per duration unit

type Variant struct {
	ID          int
	KeyA, KeyB  string
	SX, SY, ZZ  string
	NP, NQ, NZZ string
	Alpha       float64
	NumStyle    int   // spelling of stored numeric values
	DurUnitUs   int64 // microseconds
	Layout      int   // 0: 8h ticks across midnights; 1: 1s ticks inside one day; 2: 1h ticks across one midnight
	Collide     bool  // span ids are reused across traces
	Quote       int   // bias for the quoting style of string constants
}

func mkVariant(id int) Variant {
	r := uint64(id)*0x9E3779B97F4A7C15 + 0x1234567
	next := func(n int) int {
		r ^= r << 13
		r ^= r >> 7
		r ^= r << 17
		return int(r % uint64(n))
	}
	kp := keyPairs[next(len(keyPairs))]
	st := strTriples[next(len(strTriples))]
	nt := nameTriples[next(len(nameTriples))]
	v := Variant{ID: id, KeyA: kp[0], KeyB: kp[1], SX: st[0], SY: st[1], ZZ: st[2], NP: nt[0], NQ: nt[1], NZZ: nt[2],
		Alpha: alphas[next(len(alphas))], NumStyle: next(4), DurUnitUs: durUnits[next(len(durUnits))],
		Layout: next(3), Collide: next(2) == 1, Quote: next(3)}
	if next(2) == 1 {
		v.KeyA, v.KeyB = v.KeyB, v.KeyA
	}
	return v
}

func (v *Variant) tick(t int) int64 { // unix seconds of tick t
	const midnight = 1700006400 // 2023-11-15 00:00:00 UTC
	switch v.Layout {
	case 0: // DayOfTick = <<0,0,1,1,1,2>>: ticks 0,1 | 2,3,4 | 5
		return midnight - 15*3600 + int64(t)*8*3600
	case 1:
		return midnight + 3600 + int64(t)
	default: // midnight between tick 1 and tick 2
		return midnight - 2*3600 + 1800 + int64(t)*3600
	}
}

func fnum(f float64) string { return strconv.FormatFloat(f, 'f', -1, 64) }

// stored spelling of numeric value n (abstract 1 or 3)
func (v *Variant) numStored(n int) string {
	f := float64(n) * v.Alpha
	p := fnum(f)
	switch v.NumStyle {
	case 1:
		if strings.Contains(p, ".") {
			return p + "0"
		}
		return p + ".0"
	case 2:
		return "0" + p
	case 3:
		return strconv.FormatFloat(f, 'e', -1, 64)
	}
	return p
}

// spelling of numeric constant c in a query (grammar: -?Integer(.Integer)?)
func (v *Variant) numConst(c int, salt int, allowNeg bool) string {
	if c == 0 && allowNeg && salt%2 == 1 {
		return "-" + fnum(v.Alpha/2)
	}
	p := fnum(float64(c) * v.Alpha)
	if salt%3 == 1 {
		if strings.Contains(p, ".") {
			return p + "0"
		}
		return p + ".0"
	}
	return p
}

func (v *Variant) durConst(c int, salt int) string {
	us := int64(c) * v.DurUnitUs
	switch {
	case us%1000000 == 0 && salt%2 == 0:
		return fmt.Sprintf("%ds", us/1000000)
	case us%1000 == 0 && salt%3 != 2:
		return fmt.Sprintf("%dms", us/1000)
	case us%1000 == 0:
		return fnum(float64(us)/1e6) + "s"
	}
	return fmt.Sprintf("%dus", us)
}

func (v *Variant) atomVal(a string) (string, bool) {
	switch a {
	case "n1":
		return v.numStored(1), true
	case "n3":
		return v.numStored(3), true
	case "sx":
		return v.SX, true
	case "sy":
		return v.SY, true
	case "p":
		return v.NP, true
	case "q":
		return v.NQ, true
	}
	return "", false
}

func (v *Variant) keyName(k string) string {
	switch k {
	case "a":
		return v.KeyA
	case "b":
		return v.KeyB
	}
	return k
}

// quote a string constant for TraceQL: "..." (JSON escapes) or `...`
func quoteTQ(s string, style int) string {
	tickOK := !strings.ContainsAny(s, "`\t\n\r") && !strings.HasSuffix(s, `\`)
	if tickOK {
		// an odd number of trailing backslashes would escape the closing tick; any backslash is kept literally
		n := 0
		for i := len(s) - 1; i >= 0 && s[i] == '\\'; i-- {
			n++
		}
		tickOK = n%2 == 0
	}
	if style == 1 && tickOK {
		return "`" + s + "`"
	}
	var sb strings.Builder
	enc := json.NewEncoder(&sb)
	enc.SetEscapeHTML(false)
	_ = enc.Encode(s)
	return strings.TrimSuffix(sb.String(), "\n")
}

func (v *Variant) strConst(t Term, salt int) string {
	isName := t.Key == "name"
	lit := func(a string) string {
		switch a {
		case "zz":
			if isName {
				return v.NZZ
			}
			return v.ZZ
		}
		s, _ := v.atomVal(a)
		return s
	}
	var s string
	re := t.Op == "=~" || t.Op == "!~"
	switch t.Cs {
	case "xy":
		s = "^(?:" + regexp.QuoteMeta(v.SX) + "|" + regexp.QuoteMeta(v.SY) + ")$"
	case "pq":
		s = "^(?:" + regexp.QuoteMeta(v.NP) + "|" + regexp.QuoteMeta(v.NQ) + ")$"
	default:
		s = lit(t.Cs)
		if re {
			s = "^" + regexp.QuoteMeta(s) + "$"
		}
	}
	return quoteTQ(s, (salt+v.Quote)%2)
}

func termSalt(t Term) int {
	h := 7
	for _, c := range t.K + t.Key + t.Op + t.Cs + t.Pfx {
		h = h*31 + int(c)
	}
	return (h + t.Cn*13) & 0x7fffffff
}

func (v *Variant) renderTerm(t Term) string {
	salt := termSalt(t)
	sp := ""
	if salt%4 == 0 {
		sp = " "
	}
	var label, val string
	switch t.K {
	case "dur":
		label, val = "duration", v.durConst(t.Cn, salt)
	case "num":
		label, val = t.Pfx+v.keyName(t.Key), v.numConst(t.Cn, salt, true)
	default:
		if t.Key == "name" {
			label = "name"
		} else {
			label = t.Pfx + v.keyName(t.Key)
		}
		val = v.strConst(t, salt)
	}
	return label + sp + t.Op + sp + val
}

var shapeTpl = map[string]string{
	"empty": "", "s1": "%1", "p1": "(%1)", "and2": "%1 && %2", "or2": "%1 || %2", "pand2": "((%1) && %2)",
	"and3": "%1 && %2 && %3", "or3": "%1 || %2 || %3", "ao": "%1 && %2 || %3", "oa": "%1 || %2 && %3",
	"pao": "(%1 && %2) || %3", "apo": "%1 && (%2 || %3)", "poa": "(%1 || %2) && %3", "opa": "%1 || (%2 && %3)",
	"papa": "(%1 && %2) || (%3 && %4)", "popo": "(%1 || %2) && (%3 || %4)", "nest": "%1 && (%2 || (%3 && %4))",
	"nest2": "((%1 || %2) && %3) || %4", "flat4": "%1 || %2 && %3 || %4", "flat4b": "%1 && %2 || %3 && %4",
}

func (v *Variant) renderSel(s Sel) (string, error) {
	tpl, ok := shapeTpl[s.Sh]
	if !ok {
		return "", fmt.Errorf("unknown shape %q", s.Sh)
	}
	for i := 0; i < 4 && i < len(s.T); i++ {
		ph := fmt.Sprintf("%%%d", i+1)
		if strings.Contains(tpl, ph) {
			tpl = strings.ReplaceAll(tpl, ph, v.renderTerm(s.T[i]))
		}
	}
	res := "{" + tpl + "}"
	if s.Agg.Fn != "none" {
		salt := s.Agg.C*7 + len(s.Agg.Op)
		attr, num := "", ""
		switch {
		case s.Agg.Fn == "count":
			num = strconv.Itoa(s.Agg.C)
		case s.Agg.Attr == "dur":
			attr, num = "duration", v.durConst(s.Agg.C, salt)
		default:
			attr = []string{".", "span.", "resource."}[salt%3] + v.keyName(s.Agg.Attr)
			num = v.numConst(s.Agg.C, salt, false)
		}
		res += " | " + s.Agg.Fn + "(" + attr + ") " + s.Agg.Op + " " + num
	}
	return res, nil
}

func (v *Variant) renderQuery(q Query) (string, error) {
	var parts []string
	for i, s := range q.Sels {
		r, err := v.renderSel(s)
		if err != nil {
			return "", err
		}
		if i > 0 {
			parts = append(parts, q.Ops[i-1])
		}
		parts = append(parts, r)
	}
	return strings.Join(parts, " "), nil
}

// ---------------------------------------------------------------- concrete data

type CSpan struct {
	Ti, Si   int
	TraceID  []byte
	SpanID   []byte
	TsNs     int64
	DurNs    int64
	Name     string
	Service  string
	Keys     []string
	Vals     []string
	NumKinds map[string]int // key -> abstract numeric value (1|3), for the OTLP typed encoding
}

func traceID(ti int, salt int) []byte {
	b := make([]byte, 16)
	copy(b, []byte{0xc1, 0x1c, 0x0f, 0xfe, 0xe0, 0x00, 0x27, 0x5c})
	b[8] = byte(0xa0 + ti)
	b[9] = byte(salt)
	b[15] = byte(ti)
	return b
}

// hashes[ti][salt] = cityHash64(traceID(ti, salt)) as chsql (= ClickHouse) computes it for the stored column
const maxTraces, maxSalt = 4, 48

var hashes [maxTraces + 1][maxSalt]uint64

func initHashes(w *e2e.World) error {
	for ti := 1; ti <= maxTraces; ti++ {
		for salt := 0; salt < maxSalt; salt++ {
			res, err := w.Store.DB.Query("SELECT cityHash64(unhex('" + hex.EncodeToString(traceID(ti, salt)) + "'))")
			if err != nil {
				return err
			}
			if len(res.Rows) != 1 || len(res.Rows[0]) != 1 {
				return fmt.Errorf("cityHash64: unexpected answer %v", res.Rows)
			}
			h, ok := res.Rows[0][0].(uint64)
			if !ok {
				return fmt.Errorf("cityHash64: unexpected type %T", res.Rows[0][0])
			}
			hashes[ti][salt] = h
		}
	}
	return nil
}

// salt of trace ti such that cityHash64(trace_id) % np == class
func saltFor(ti, np, class int) (int, error) {
	if np <= 1 {
		return 0, nil
	}
	if ti > maxTraces {
		return 0, fmt.Errorf("trace index %d too large", ti)
	}
	for salt := 0; salt < maxSalt; salt++ {
		if int(hashes[ti][salt]%uint64(np)) == class {
			return salt, nil
		}
	}
	return 0, fmt.Errorf("no trace id of trace %d hashes to class %d of %d", ti, class, np)
}
func spanID(ti, si int, collide bool) []byte {
	b := make([]byte, 8)
	copy(b, []byte{0x5b, 0xa7, 0x00, 0x25})
	if !collide {
		b[4] = byte(ti)
	}
	b[7] = byte(0x10 + si)
	return b
}

// sub-second offsets of phase 1 (multiples of 1 us: zipkin timestamps are microseconds; < 1 s = the smallest tick)
var subSecondNs = []int64{1000, 999999000, 500000000, 123456000, 1000000, 999000000}

func subNs(ph, h int) int64 {
	if ph == 0 {
		return 0
	}
	if h < 0 {
		h = -h
	}
	return subSecondNs[(h/7)%len(subSecondNs)]
}

func (v *Variant) concreteDB(db [][]Span, np int, part []int, sub int64) ([]CSpan, error) {
	var res []CSpan
	for ti, tr := range db {
		salt := 0
		if np > 1 {
			if ti >= len(part) {
				return nil, fmt.Errorf("case without hash class for trace %d", ti+1)
			}
			var err error
			if salt, err = saltFor(ti+1, np, part[ti]); err != nil {
				return nil, err
			}
		}
		for si, s := range tr {
			c := CSpan{Ti: ti + 1, Si: si + 1, TraceID: traceID(ti+1, salt), SpanID: spanID(ti+1, si+1, v.Collide),
				TsNs: v.tick(s.Ts)*1e9 + sub, DurNs: int64(s.Dur) * v.DurUnitUs * 1000, Service: "svc", NumKinds: map[string]int{}}
			c.Name, _ = v.atomVal(s.Nm)
			for _, kv := range [][2]string{{"a", s.A}, {"b", s.B}} {
				if val, ok := v.atomVal(kv[1]); ok {
					c.Keys = append(c.Keys, v.keyName(kv[0]))
					c.Vals = append(c.Vals, val)
					if kv[1] == "n1" {
						c.NumKinds[v.keyName(kv[0])] = 1
					} else if kv[1] == "n3" {
						c.NumKinds[v.keyName(kv[0])] = 3
					}
				}
			}
			res = append(res, c)
		}
	}
	return res, nil
}

// rows exactly as writer/utils/unmarshal/zipkinJsonUnmarshal.go + builder.go onSpan produce them
func directRows(spans []CSpan) (traces [][]any, attrs [][]any) {
	for _, s := range spans {
		traces = append(traces, []any{string(s.TraceID), string(s.SpanID), "", s.Name, s.TsNs, s.DurNs, s.Service, int8(1), "{}"})
		date := chsql.Date(s.TsNs / 1e9 / 86400)
		add := func(k, val string) {
			attrs = append(attrs, []any{date, k, val, string(s.TraceID), string(s.SpanID), s.TsNs, s.DurNs})
		}
		add("name", s.Name)
		add("local_endpoint_service_name", s.Service)
		for i, k := range s.Keys {
			add(k, s.Vals[i])
		}
		add("service.name", s.Service)
	}
	return
}

func zipkinBody(spans []CSpan) []byte {
	var arr []map[string]any
	for _, s := range spans {
		tags := map[string]string{}
		for i, k := range s.Keys {
			tags[k] = s.Vals[i]
		}
		arr = append(arr, map[string]any{
			"traceId": hex.EncodeToString(s.TraceID), "id": hex.EncodeToString(s.SpanID),
			"timestamp": s.TsNs / 1000, "duration": s.DurNs / 1000, "name": s.Name,
			"localEndpoint": map[string]any{"serviceName": s.Service}, "tags": tags,
		})
	}
	b, _ := json.Marshal(arr)
	return b
}

func otlpBody(v *Variant, spans []CSpan) []byte {
	str := func(s string) *commonv1.AnyValue {
		return &commonv1.AnyValue{Value: &commonv1.AnyValue_StringValue{StringValue: s}}
	}
	rs := &tracev1.ResourceSpans{
		Resource:   &resourcev1.Resource{Attributes: []*commonv1.KeyValue{{Key: "service.name", Value: str("svc")}}},
		ScopeSpans: []*tracev1.ScopeSpans{{}},
	}
	for _, s := range spans {
		sp := &tracev1.Span{TraceId: s.TraceID, SpanId: s.SpanID, Name: s.Name,
			StartTimeUnixNano: uint64(s.TsNs), EndTimeUnixNano: uint64(s.TsNs + s.DurNs)}
		for i, k := range s.Keys {
			val := str(s.Vals[i])
			if n, ok := s.NumKinds[k]; ok && v.NumStyle == 0 {
				// typed numeric attribute: the writer prints integers with %d
				f := float64(n) * v.Alpha
				if f == math.Trunc(f) {
					val = &commonv1.AnyValue{Value: &commonv1.AnyValue_IntValue{IntValue: int64(f)}}
				}
			}
			sp.Attributes = append(sp.Attributes, &commonv1.KeyValue{Key: k, Value: val})
		}
		rs.ScopeSpans[0].Spans = append(rs.ScopeSpans[0].Spans, sp)
	}
	b, _ := proto.Marshal(&tracev1.TracesData{ResourceSpans: []*tracev1.ResourceSpans{rs}})
	return b
}

var traceCols = []string{"trace_id", "span_id", "parent_id", "name", "timestamp_ns", "duration_ns", "service_name", "payload_type", "payload"}
var attrCols = []string{"date", "key", "val", "trace_id", "span_id", "timestamp_ns", "duration"}

func truncate(w *e2e.World) error {
	for _, t := range []string{"tempo_traces", "tempo_traces_attrs_gin", "tempo_traces_kv"} {
		if err := w.Store.DB.Truncate(t); err != nil {
			return err
		}
	}
	return nil
}

func store(w *e2e.World, v *Variant, spans []CSpan, path string) error {
	if err := truncate(w); err != nil {
		return err
	}
	switch path {
	case "direct":
		tr, at := directRows(spans)
		if err := w.Store.Insert("tempo_traces", traceCols, tr); err != nil {
			return err
		}
		return w.Store.Insert("tempo_traces_attrs_gin", attrCols, at)
	case "zipkin":
		code, body := w.Push("POST", "/tempo/spans", "application/json", zipkinBody(spans), nil)
		if code/100 != 2 {
			return fmt.Errorf("zipkin push: %d %s", code, body)
		}
	case "zipkin2":
		code, body := w.Push("POST", "/api/v2/spans", "application/json", zipkinBody(spans), nil)
		if code/100 != 2 {
			return fmt.Errorf("zipkin push: %d %s", code, body)
		}
	case "otlp":
		code, body := w.Push("POST", "/v1/traces", "application/x-protobuf", otlpBody(v, spans), nil)
		if code/100 != 2 {
			return fmt.Errorf("otlp push: %d %s", code, body)
		}
	}
	if len(w.StoreErr) > 0 {
		return fmt.Errorf("store: %v", w.StoreErr)
	}
	return nil
}

func dumpTable(w *e2e.World, table string, skip map[string]bool) ([]string, error) {
	res, err := w.Store.DB.Query("SELECT * FROM " + table)
	if err != nil {
		return nil, err
	}
	var rows []string
	for _, r := range res.Rows {
		var f []string
		for i, c := range res.Cols {
			if skip[c] {
				continue
			}
			f = append(f, fmt.Sprintf("%s=%q", c, fmt.Sprint(r[i])))
		}
		rows = append(rows, strings.Join(f, " "))
	}
	sort.Strings(rows)
	return rows, nil
}

// the rows inserted directly must be the rows the real Zipkin route stores (payload excluded)
func writerEquivalence(w *e2e.World) (bool, string) {
	db := [][]Span{{{A: "sx", B: "n3", Nm: "p", Dur: 1, Ts: 1}, {A: "none", B: "sy", Nm: "q", Dur: 3, Ts: 2}}, {{A: "n1", B: "none", Nm: "p", Dur: 3, Ts: 4}}}
	for id := 0; id < 6; id++ {
		v := mkVariant(id)
		spans, _ := v.concreteDB(db, 0, nil, subNs(id%2, id*7)) // odd variants: span starts off the whole second
		skip := map[string]bool{"payload": true, "oid": true}
		var dumps [2][]string
		for i, path := range []string{"direct", "zipkin"} {
			if err := store(w, &v, spans, path); err != nil {
				return false, err.Error()
			}
			for _, t := range []string{"tempo_traces", "tempo_traces_attrs_gin", "tempo_traces_kv"} {
				d, err := dumpTable(w, t, skip)
				if err != nil {
					return false, err.Error()
				}
				dumps[i] = append(dumps[i], d...)
			}
		}
		if strings.Join(dumps[0], "\n") != strings.Join(dumps[1], "\n") {
			return false, fmt.Sprintf("variant %d: direct rows:\n%s\nwriter rows:\n%s", id, strings.Join(dumps[0], "\n"), strings.Join(dumps[1], "\n"))
		}
	}
	return true, ""
}

// ---------------------------------------------------------------- running a case

type Observed struct {
	Status   int                 `json:"status"`
	Err      string              `json:"err,omitempty"` // "" | sql:<class> | http:<msg class> | panic
	ErrText  string              `json:"err_text,omitempty"`
	Seq      []int               `json:"seq"`   // trace indexes in answer order
	Spans    map[int][]int       `json:"spans"` // trace index -> span indexes
	Strs     []string            `json:"strs,omitempty"`
	Unknown  []string            `json:"unknown,omitempty"` // ids in the answer that are not in the database
	SQL      []map[string]string `json:"sql,omitempty"`
	Body     string              `json:"body,omitempty"`
	Unsupp   []string            `json:"unsupported,omitempty"`
	Cplx     int                 `json:"complexity_statements"` // complexity statements of the request
	Execs    int                 `json:"executions"`            // executions of the plan (statements that are not the complexity query)
	Filtered int                 `json:"filtered_executions"`   // ... that carry a random filter cityHash64(trace_id) % n
}

// the complexity statement of TraceQLComplexityEvaluator: the counts of the selectors' index scans
// (EvalFinalizerPlanner: WITH pre_final AS (...) SELECT _count as _count FROM pre_final)
var complexityRe = regexp.MustCompile(`(?is)\bSELECT\s+_count(\s+as\s+_count)?\s+FROM\s+pre_final\s*$`)

func isComplexity(q string) bool { return complexityRe.MatchString(strings.TrimSpace(q)) }

// a complexity statement over index scans (count() of rows): the only kind whose answer is scripted
func countsRows(q string) bool { return isComplexity(q) && strings.Contains(q, "count()") }

// scripted answer of the complexity query of the request in flight (0 = the real answer)
var scriptedCx int64

func wrapHandler(inner fakesql.Handler) fakesql.Handler {
	return func(ctx context.Context, q string, args []driver.NamedValue) (*fakesql.Answer, error) {
		a, err := inner(ctx, q, args) // executed (and recorded) by chsql whatever the scripted answer is
		if err != nil || a == nil || scriptedCx == 0 || !countsRows(q) {
			return a, err
		}
		return &fakesql.Answer{Cols: a.Cols, Rows: [][]driver.Value{{scriptedCx}}, ErrAt: -1}, nil
	}
}

type Result struct {
	H        int      `json:"h"`
	Layer    string   `json:"layer"`
	Verdict  string   `json:"verdict"` // ok | explained | unexplained | not_reproduced | infra | decision
	Flags    []string `json:"flags,omitempty"`
	Diff     string   `json:"diff,omitempty"`
	Path     string   `json:"path"`
	Variant  int      `json:"variant"`
	TraceQL  string   `json:"traceql"`
	Detail   any      `json:"detail,omitempty"`
	ErrClass string   `json:"err_class,omitempty"`
}

func sqlErrClass(err error) string {
	switch {
	case errors.Is(err, chsql.ErrUnsupported):
		return "unsupported"
	case errors.Is(err, chsql.ErrSyntax):
		return "syntax"
	case errors.Is(err, chsql.ErrType):
		return "type"
	case errors.Is(err, chsql.ErrUnknownIdentifier):
		return "unknown_identifier"
	case errors.Is(err, chsql.ErrBadArguments):
		return "bad_arguments"
	}
	if strings.Contains(err.Error(), "not under an aggregate function") {
		return "not_aggregate"
	}
	return "other"
}

func safeGet(w *e2e.World, path string) (code int, body string, panicked string) {
	defer func() {
		if r := recover(); r != nil {
			code, panicked = 0, fmt.Sprint(r)
		}
	}()
	code, body = w.Get(path)
	return
}

func runQuery(w *e2e.World, v *Variant, c *Case, spans []CSpan, tql string) Observed {
	obs := Observed{Spans: map[int][]int{}}
	q := url.Values{}
	q.Set("q", tql)
	q.Set("start", strconv.FormatInt(v.tick(c.Q.From), 10))
	q.Set("end", strconv.FormatInt(v.tick(c.Q.To), 10))
	q.Set("limit", strconv.Itoa(c.Q.Limit))
	path := "/api/search"
	switch c.Q.Kind {
	case "tags":
		path = "/api/v2/search/tags"
	case "values":
		path = "/api/v2/search/tag/" + url.PathEscape(v.keyName(c.Q.Vkey)) + "/values"
	}
	w.Bridge.Drain()
	w.Bridge.Unsupported = nil
	scriptedCx = c.Cx
	code, body, pan := safeGet(w, path+"?"+q.Encode())
	scriptedCx = 0
	obs.Status = code
	for _, e := range w.Bridge.Drain() {
		m := map[string]string{"sql": e.SQL}
		if isComplexity(e.SQL) {
			obs.Cplx++
			m["role"] = "complexity"
		} else {
			obs.Execs++
			if strings.Contains(e.SQL, "cityHash64(trace_id) %") {
				obs.Filtered++
			}
		}
		if e.Err != nil {
			cl := sqlErrClass(e.Err)
			m["err"] = e.Err.Error()
			m["class"] = cl
			if cl == "unsupported" {
				obs.Unsupp = append(obs.Unsupp, e.Err.Error())
			} else if obs.Err == "" {
				obs.Err = "sql:" + cl
				obs.ErrText = e.Err.Error()
			}
		}
		obs.SQL = append(obs.SQL, m)
	}
	if pan != "" {
		obs.Err, obs.ErrText = "panic", pan
		return obs
	}
	if code != 200 {
		if obs.Err == "" {
			obs.Err = "http:" + strconv.Itoa(code)
			obs.ErrText = body
		}
		obs.Body = body
		return obs
	}
	byTrace := map[string]int{}
	bySpan := map[string]int{}
	for _, s := range spans {
		byTrace[hex.EncodeToString(s.TraceID)] = s.Ti
		bySpan[hex.EncodeToString(s.TraceID)+"/"+hex.EncodeToString(s.SpanID)] = s.Si
	}
	switch c.Q.Kind {
	case "search":
		var resp struct {
			Traces []struct {
				TraceID string `json:"traceID"`
				SpanSet struct {
					Spans []struct {
						SpanID string `json:"spanID"`
					} `json:"spans"`
				} `json:"spanSet"`
			} `json:"traces"`
		}
		if err := json.Unmarshal([]byte(body), &resp); err != nil {
			obs.Err, obs.ErrText, obs.Body = "badjson", err.Error(), body
			return obs
		}
		for _, t := range resp.Traces {
			ti, ok := byTrace[t.TraceID]
			if !ok {
				obs.Unknown = append(obs.Unknown, t.TraceID)
				continue
			}
			obs.Seq = append(obs.Seq, ti)
			var sp []int
			for _, s := range t.SpanSet.Spans {
				si, ok := bySpan[t.TraceID+"/"+s.SpanID]
				if !ok {
					obs.Unknown = append(obs.Unknown, t.TraceID+"/"+s.SpanID)
					continue
				}
				sp = append(sp, si)
			}
			sort.Ints(sp)
			obs.Spans[ti] = sp
		}
	case "tags":
		var resp struct {
			Scopes []struct {
				Tags []string `json:"tags"`
			} `json:"scopes"`
		}
		if err := json.Unmarshal([]byte(body), &resp); err != nil {
			obs.Err, obs.ErrText, obs.Body = "badjson", err.Error(), body
			return obs
		}
		for _, s := range resp.Scopes {
			obs.Strs = append(obs.Strs, s.Tags...)
		}
	case "values":
		var resp struct {
			TagValues []struct {
				Value string `json:"value"`
			} `json:"tagValues"`
		}
		if err := json.Unmarshal([]byte(body), &resp); err != nil {
			obs.Err, obs.ErrText, obs.Body = "badjson", err.Error(), body
			return obs
		}
		for _, s := range resp.TagValues {
			obs.Strs = append(obs.Strs, s.Value)
		}
	}
	if len(obs.Unknown) > 0 {
		obs.Body = body
	}
	return obs
}

func eqInts(a, b []int) bool {
	if len(a) != len(b) {
		return false
	}
	for i := range a {
		if a[i] != b[i] {
			return false
		}
	}
	return true
}
func sortedCopy(a []int) []int { b := append([]int(nil), a...); sort.Ints(b); return b }
func subset(a, b []int) bool {
	m := map[int]bool{}
	for _, x := range b {
		m[x] = true
	}
	for _, x := range a {
		if !m[x] {
			return false
		}
	}
	return true
}
func inSeqs(seq []int, seqs [][]int) bool {
	for _, s := range seqs {
		if eqInts(seq, s) {
			return true
		}
	}
	return false
}

// concrete strings of an abstract tags / values result
func (v *Variant) concStrs(kind string, strs []string) []string {
	var r []string
	for _, s := range strs {
		if kind == "tags" {
			r = append(r, v.keyName(s))
		} else if cv, ok := v.atomVal(s); ok {
			r = append(r, cv)
		} else {
			r = append(r, s)
		}
	}
	sort.Strings(r)
	return r
}

var writerKeys = map[string]bool{"local_endpoint_service_name": true, "remoteService.name": true}

// does the observed answer satisfy outcome o (Conforms of TraceQLSem.tla, on observables)?
// exact: spans must be equal (one selector); otherwise non-empty subset
func (v *Variant) satisfies(c *Case, obs *Observed, o *Outcome, exactSpans bool) (bool, string) {
	if obs.Err != "" {
		return false, "error"
	}
	if c.Q.Kind != "search" {
		var got []string
		seen := map[string]bool{}
		for _, s := range obs.Strs {
			if c.Q.Kind == "tags" && writerKeys[s] {
				continue
			}
			if !seen[s] {
				seen[s] = true
				got = append(got, s)
			}
		}
		sort.Strings(got)
		if strings.Join(got, "\x00") != strings.Join(v.concStrs(c.Q.Kind, o.Strs), "\x00") {
			return false, "strings"
		}
		return true, ""
	}
	if len(obs.Unknown) > 0 {
		return false, "unknown-ids"
	}
	if !inSeqs(obs.Seq, o.Seqs) {
		// classify
		set := func(seqs [][]int) map[string]bool {
			m := map[string]bool{}
			for _, s := range seqs {
				m[fmt.Sprint(sortedCopy(s))] = true
			}
			return m
		}
		if set(o.Seqs)[fmt.Sprint(sortedCopy(obs.Seq))] {
			return false, "order"
		}
		want := 0
		if len(o.Seqs) > 0 {
			want = len(o.Seqs[0])
		}
		switch {
		case len(obs.Seq) < want:
			return false, "missing-traces"
		case len(obs.Seq) > want:
			return false, "extra-traces"
		}
		return false, "wrong-traces"
	}
	for _, ti := range obs.Seq {
		want := sortedCopy(o.Ms[ti-1])
		got := obs.Spans[ti]
		if exactSpans {
			if !eqInts(got, want) {
				if subset(got, want) {
					return false, "missing-spans"
				}
				return false, "extra-spans"
			}
		} else if len(got) == 0 || !subset(got, want) {
			return false, "extra-spans"
		}
	}
	return true, ""
}

var errOfFlag = map[string]func(o *Observed) bool{
	"emptywhere": func(o *Observed) bool { return o.Err == "sql:type" && strings.Contains(o.ErrText, "Tuple()") },
	"chain3": func(o *Observed) bool {
		return o.Err == "sql:unknown_identifier" && strings.Contains(o.ErrText, "timestamp_ns")
	},
	"tagsv2": func(o *Observed) bool {
		return strings.HasPrefix(o.Err, "sql:") && strings.Contains(o.ErrText, "not under an aggregate function")
	},
}

func (v *Variant) judge(c *Case, obs *Observed) (verdict, diff string) {
	verdict, diff = v.judgeAnswer(c, obs)
	if verdict == "unexplained" || verdict == "infra" {
		return // a wrong answer is a verdict however the request was executed
	}
	if obs.Err == "" && c.Q.Kind == "search" {
		// the evaluator's decision (TraceQLSem!Portions): one execution without random filter below the
		// threshold, np executions with random filter otherwise; exactly one complexity statement
		wantExecs, wantFiltered := 1, 0
		if c.Np > 0 {
			wantExecs, wantFiltered = c.Np, c.Np
		}
		if obs.Cplx != 1 || obs.Execs != wantExecs || obs.Filtered != wantFiltered {
			// not a verdict about the property (which does not say how often the plan is executed): the
			// evaluator model does not describe this run, so the case does not cover what it claims to cover
			return "decision", fmt.Sprintf("complexity statements %d (1), executions %d (%d), with random filter %d (%d)",
				obs.Cplx, obs.Execs, wantExecs, obs.Filtered, wantFiltered)
		}
	}
	return
}

func (v *Variant) judgeAnswer(c *Case, obs *Observed) (verdict, diff string) {
	if len(obs.Unsupp) > 0 {
		return "infra", "chsql unsupported: " + obs.Unsupp[0]
	}
	exact := len(c.Q.Sels) == 1
	ok, diff := v.satisfies(c, obs, &c.Def, exact)
	// does the mechanism model predict the observation?
	predicted := false
	allMechBad := true
	for i := range c.Mech {
		o := &c.Mech[i]
		if o.Err != "" {
			if f := errOfFlag[o.Err]; f != nil && f(obs) {
				predicted = true
			}
			continue
		}
		if m, _ := v.satisfies(c, obs, o, true); m {
			predicted = true
		}
		// is this mechanism outcome itself conforming to the definition?
		good := subsetSeqs(o.Seqs, c.Def.Seqs) && eqStrs(o.Strs, c.Def.Strs)
		if good {
			for _, p := range o.Seqs {
				for _, ti := range p {
					a, b := sortedCopy(o.Ms[ti-1]), sortedCopy(c.Def.Ms[ti-1])
					if exact && !eqInts(a, b) || !exact && (len(a) == 0 || !subset(a, b)) {
						good = false
					}
				}
			}
		}
		if good {
			allMechBad = false
		}
	}
	switch {
	case ok && c.Cand && allMechBad && !predicted:
		// every answer the plan model allows violates the definition, yet the real answer conforms
		return "not_reproduced", ""
	case ok:
		return "ok", ""
	case predicted && c.Cand:
		return "explained", diff
	}
	return "unexplained", diff
}

func subsetSeqs(a, b [][]int) bool {
	for _, s := range a {
		if !inSeqs(s, b) {
			return false
		}
	}
	return true
}
func eqStrs(a, b []string) bool {
	x, y := append([]string(nil), a...), append([]string(nil), b...)
	sort.Strings(x)
	sort.Strings(y)
	return strings.Join(x, "\x00") == strings.Join(y, "\x00")
}

func describeDB(spans []CSpan) []map[string]any {
	var r []map[string]any
	for _, s := range spans {
		attrs := map[string]string{}
		for i, k := range s.Keys {
			attrs[k] = s.Vals[i]
		}
		r = append(r, map[string]any{"trace": s.Ti, "span": s.Si, "trace_id": hex.EncodeToString(s.TraceID), "span_id": hex.EncodeToString(s.SpanID),
			"timestamp_ns": s.TsNs, "duration_ns": s.DurNs, "name": s.Name, "attrs": attrs})
	}
	return r
}

func main() {
	casesPath := flag.String("cases", "", "ndjson file of cases exported by TLC")
	outPath := flag.String("out", "", "result json")
	seed := flag.Int("seed", 1, "seed")
	shard := flag.Int("shard", 0, "shard index")
	shards := flag.Int("shards", 1, "number of shards")
	writerEvery := flag.Int("writer-every", 40, "store every n-th distinct database through the real writer routes")
	maxDetail := flag.Int("max-detail", 40, "mismatches reported with full detail per verdict/flag class")
	flag.Parse()
	if *casesPath == "" || *outPath == "" {
		fmt.Fprintln(os.Stderr, "usage: c11 -cases cases.ndjson -out result.json [-seed n] [-shard i -shards n]")
		os.Exit(2)
	}
	t0 := time.Now()
	w, err := e2e.New(e2e.Options{})
	if err != nil {
		fmt.Fprintln(os.Stderr, "world:", err)
		os.Exit(2)
	}
	defer w.Close()
	w.SQL.Handler = wrapHandler(w.SQL.Handler)
	if err := initHashes(w); err != nil {
		fmt.Fprintln(os.Stderr, "hashes:", err)
		os.Exit(2)
	}

	out := map[string]any{}
	if *shard == 0 {
		okEq, msg := writerEquivalence(w)
		out["writer_equivalence"] = okEq
		out["writer_equivalence_detail"] = msg
	}

	f, err := os.Open(*casesPath)
	if err != nil {
		fmt.Fprintln(os.Stderr, err)
		os.Exit(2)
	}
	defer f.Close()
	sc := bufio.NewScanner(f)
	sc.Buffer(make([]byte, 1<<20), 64<<20)

	counts := map[string]int{}
	byLayer := map[string]map[string]int{}
	paths := map[string]int{}
	flagsSeen := map[string]int{}
	variants := map[int]bool{}
	features := map[string]int{}
	var results []Result
	detailCount := map[string]int{}
	var samples []Result
	distinct := map[string]bool{}
	lastDB := ""
	dbCount := 0
	line := 0
	ran := 0
	for sc.Scan() {
		line++
		if (line-1)%*shards != *shard {
			continue
		}
		var c Case
		if err := json.Unmarshal(sc.Bytes(), &c); err != nil {
			fmt.Fprintf(os.Stderr, "case line %d: %v\n", line, err)
			os.Exit(2)
		}
		vid := (*seed*7919 + c.H) % 4096
		v := mkVariant(vid)
		variants[vid] = true
		sub := subNs(c.Ph, c.H)
		spans, err := v.concreteDB(c.Db, c.Np, c.Part, sub)
		if err != nil {
			fmt.Fprintf(os.Stderr, "case line %d: %v\n", line, err)
			os.Exit(2)
		}
		tql, err := v.renderQuery(c.Q)
		if err != nil {
			fmt.Fprintln(os.Stderr, err)
			os.Exit(2)
		}
		dbKey := fmt.Sprint(vid, sub, c.Db)
		if c.Np > 1 {
			dbKey = fmt.Sprint(vid, sub, c.Db, c.Np, c.Part)
		}
		path := "direct"
		if dbKey != lastDB {
			dbCount++
		}
		if *writerEvery > 0 && (c.H+*seed)%*writerEvery == 0 {
			path = []string{"zipkin", "otlp", "zipkin2"}[(c.H/(*writerEvery))%3]
		}
		if dbKey != lastDB || path != "direct" {
			if err := store(w, &v, spans, path); err != nil {
				fmt.Fprintf(os.Stderr, "store (%s): %v\n", path, err)
				os.Exit(2)
			}
			lastDB = dbKey
			if path != "direct" {
				lastDB = ""
			}
		}
		paths[path]++
		obs := runQuery(w, &v, &c, spans, tql)
		verdict, diff := v.judge(&c, &obs)
		ran++
		counts[verdict]++
		if byLayer[c.Layer] == nil {
			byLayer[c.Layer] = map[string]int{}
		}
		byLayer[c.Layer][verdict]++
		distinct[tql+"\x00"+dbKey+"\x00"+strconv.FormatInt(c.Cx, 10)] = true
		for _, s := range c.Q.Sels {
			features["shape:"+s.Sh]++
			if s.Agg.Fn != "none" {
				features["agg:"+s.Agg.Fn]++
			}
			for i, t := range s.T {
				if i < arity(s.Sh) {
					features["op:"+t.K+t.Op]++
					if t.Pfx != "" {
						features["pfx:"+t.Pfx]++
					}
				}
			}
		}
		for _, o := range c.Q.Ops {
			features["chain:"+o]++
		}
		features["kind:"+c.Q.Kind]++
		features["np:"+strconv.Itoa(c.Np)]++
		features["ph:"+strconv.Itoa(c.Ph)]++
		if c.Np > 1 {
			features["ph:"+strconv.Itoa(c.Ph)+"/np:"+strconv.Itoa(c.Np)]++
		}
		if c.Cx > 0 {
			features["cx:"+strconv.FormatInt(c.Cx, 10)]++
		}
		if c.Np > 1 {
			cls := map[int]bool{}
			for _, p := range c.Part {
				cls[p] = true
			}
			features["split:"+strconv.Itoa(len(cls))+"-of-"+strconv.Itoa(c.Np)]++
		}
		res := Result{H: c.H, Layer: c.Layer, Verdict: verdict, Diff: diff, Path: path, Variant: vid, TraceQL: tql, ErrClass: obs.Err}
		if verdict == "explained" {
			res.Flags = c.Explain
			for _, fl := range c.Explain {
				flagsSeen[fl]++
			}
		}
		if verdict != "ok" {
			key := verdict + fmt.Sprint(res.Flags) + diff
			if verdict == "unexplained" {
				key = verdict + c.Layer + diff
			}
			detailCount[key]++
			if detailCount[key] <= *maxDetail {
				res.Detail = map[string]any{"case": c, "data": describeDB(spans), "observed": obs,
					"window": []int64{v.tick(c.Q.From), v.tick(c.Q.To)}, "limit": c.Q.Limit, "variant": v,
					"complexity_answer": c.Cx, "portions": c.Np, "hash_class_of_trace": c.Part, "subsecond_offset_ns": sub}
			}
			results = append(results, res)
		} else if len(samples) < 3 && len(obs.Seq) > 0 {
			res.Detail = map[string]any{"case": c, "data": describeDB(spans), "observed": obs,
				"window": []int64{v.tick(c.Q.From), v.tick(c.Q.To)}, "limit": c.Q.Limit}
			samples = append(samples, res)
		}
	}
	out["ran"] = ran
	out["distinct"] = len(distinct)
	out["databases"] = dbCount
	out["counts"] = counts
	out["by_layer"] = byLayer
	out["paths"] = paths
	out["flags"] = flagsSeen
	out["variants"] = len(variants)
	out["features"] = features
	out["mismatches"] = results
	out["samples"] = samples
	out["wall_s"] = time.Since(t0).Seconds()
	b, _ := json.Marshal(out)
	if err := os.WriteFile(*outPath, b, 0o644); err != nil {
		fmt.Fprintln(os.Stderr, err)
		os.Exit(2)
	}
}

func arity(sh string) int {
	switch sh {
	case "empty":
		return 0
	case "s1", "p1":
		return 1
	case "and2", "or2", "pand2":
		return 2
	case "and3", "or3", "ao", "oa", "pao", "apo", "poa", "opa":
		return 3
	}
	return 4
}

package main

import (
	"bufio"
	"fmt"
	"net/url"
	"os"
	"strings"

	"verif/harness/e2e"
)

func main() {
	w, err := e2e.New(e2e.Options{})
	if err != nil {
		panic(err)
	}
	defer w.Close()
	base := int64(1700000000)
	span := func(tid, sid string, tsSec int64, durUs int64, name string, tags map[string]string) string {
		var tg []string
		for k, v := range tags {
			tg = append(tg, fmt.Sprintf("%q:%q", k, v))
		}
		return fmt.Sprintf(`{"traceId":"%s","id":"%s","timestamp":%d,"duration":%d,"name":%q,"localEndpoint":{"serviceName":"svc"},"tags":{%s}}`,
			tid, sid, (base+tsSec)*1000000, durUs, name, strings.Join(tg, ","))
	}
	body := "[" + strings.Join([]string{
		span("000000000000000000000000000000a1", "00000000000000b1", 10, 2000000, "n1", map[string]string{"a": "x", "b": "5"}),
		span("000000000000000000000000000000a1", "00000000000000b2", 20, 500000, "n2", map[string]string{"a": "y"}),
		span("000000000000000000000000000000a2", "00000000000000b3", 30, 3000000, "n1", map[string]string{"a": "x", "b": "50"}),
		span("000000000000000000000000000000a3", "00000000000000b4", 40, 100, "n3", map[string]string{"b": "zz"}),
	}, ",") + "]"
	code, resp := w.Push("POST", "/tempo/spans", "application/json", []byte(body), nil)
	w.Settle()
	fmt.Println("push", code, resp, w.StoreErr, w.Store.Counts)
	sc := bufio.NewScanner(os.Stdin)
	for sc.Scan() {
		line := sc.Text()
		if line == "" {
			continue
		}
		path := "/api/search"
		qs := line
		if strings.HasPrefix(line, "TAGS ") {
			path = "/api/v2/search/tags"
			qs = line[5:]
		} else if strings.HasPrefix(line, "VALUES ") {
			f := strings.SplitN(line[7:], " ", 2)
			path = "/api/v2/search/tag/" + f[0] + "/values"
			qs = f[1]
		}
		q := url.Values{}
		q.Set("q", qs)
		q.Set("start", fmt.Sprint(base))
		q.Set("end", fmt.Sprint(base+100))
		q.Set("limit", "10")
		code, resp := w.Get(path + "?" + q.Encode())
		fmt.Println("=== ", line)
		fmt.Println("  ->", code, resp)
		for _, e := range w.Bridge.Drain() {
			fmt.Println("  SQL:", e.SQL)
			fmt.Println("  ERR:", e.Err, "rows", e.Rows)
		}
	}
}

// Package fakeconn is a clickhouse.Conn with a modelled DDL catalogue, `ver` and `settings` tables, a
// statement log and a fault plan. It understands exactly the statement kinds used by ctrl/qryn/sql/*.sql,
// ctrl/qryn/maintenance/update.go and rotate.go; anything else is ErrUnknown (an infrastructure error for
// the drivers, never a verdict). It fails where ClickHouse fails: CREATE of an existing object without
// IF NOT EXISTS, DROP/RENAME of a missing object without IF EXISTS, RENAME onto an existing name,
// ADD COLUMN of an existing column without IF NOT EXISTS, ALTER/INSERT/SELECT on a missing table.
package fakeconn

import (
	"context"
	"errors"
	"fmt"
	"reflect"
	"regexp"
	"sort"
	"strings"

	"github.com/ClickHouse/clickhouse-go/v2/lib/driver"
)

var ErrUnknown = errors.New("fakeconn: statement not understood")

// ErrInjected is returned for a statement the fault plan makes fail (the statement is NOT executed).
var ErrInjected = errors.New("fakeconn: injected failure (connection lost)")

// Crash is panicked after/before a statement when the fault plan says the process dies there.
type Crash struct{ At int }

type Object struct {
	Kind     string // "table", "view", "mv"
	Cols     map[string]bool
	OrderBy  string
	Settings map[string]string
	TTL      string
	Engine   string
}

type SettingRow struct {
	FP                uint64
	Type, Name, Value string
	Seq               int
}

type Op struct {
	Kind    string   `json:"kind"` // CreateINE Create DropIE Drop Rename RenameIE Alter Insert InsertVer SelectVer SelectSetting ShowTables
	Obj     string   `json:"obj"`
	Obj2    string   `json:"obj2,omitempty"`
	ObjKind string   `json:"objkind,omitempty"`
	Adds    []AddCol `json:"adds,omitempty"`
	Mods    []string `json:"mods,omitempty"` // "orderby", "setting", "ttl"
	Cols    []string `json:"cols,omitempty"`
	modVals map[string]string
	ttl     string
	engine  string
}

type AddCol struct {
	Col     string `json:"col"`
	Guarded bool   `json:"guarded"`
}

type LogEntry struct {
	N      int    `json:"n"`
	Call   string `json:"call"` // exec | query
	SQL    string `json:"sql"`
	Args   []any  `json:"args,omitempty"`
	Op     Op     `json:"op"`
	Err    string `json:"err,omitempty"`
	Fault  string `json:"fault,omitempty"`
	Effect bool   `json:"effect"` // the statement changed the catalogue or a table
	Result any    `json:"result,omitempty"`
}

type DB struct {
	Objects  map[string]*Object
	Ver      [][2]uint64
	Settings []SettingRow
	seq      int
}

func NewDB() *DB { return &DB{Objects: map[string]*Object{}} }

// Conn is one "process lifetime" connection to a DB; the DB survives crashes.
type Conn struct {
	DB  *DB
	Log []LogEntry
	N   int
	// fault plan (statement numbers are 1-based over Exec and Query calls of this Conn)
	FailAt      map[int]bool // statement returns an error and is not executed
	CrashBefore int          // process dies before the statement is sent
	CrashAfter  int          // process dies after the statement was executed, before the caller sees the result
	DBName      string
	// Pre, if set, decides a fault for the statement about to be sent: "", "fail", "crash-before", "crash-after"
	Pre func(le *LogEntry) string
}

func NewConn(db *DB) *Conn { return &Conn{DB: db, FailAt: map[int]bool{}, DBName: "qryn"} }

var reWS = regexp.MustCompile(`\s+`)

func norm(s string) string { return strings.TrimSpace(reWS.ReplaceAllString(s, " ")) }

func (c *Conn) stripDB(name string) string {
	name = strings.Trim(name, "`")
	if i := strings.LastIndex(name, "."); i >= 0 {
		name = name[i+1:]
	}
	return strings.Trim(name, "`")
}

var (
	reCreate  = regexp.MustCompile(`(?i)^CREATE (TABLE|VIEW|MATERIALIZED VIEW) (IF NOT EXISTS )?([^\s(]+)`)
	reDrop    = regexp.MustCompile(`(?i)^DROP (TABLE|VIEW) (IF EXISTS )?([^\s;]+)`)
	reRename  = regexp.MustCompile(`(?i)^RENAME TABLE (IF EXISTS )?([^\s]+) TO ([^\s;]+)`)
	reAlter   = regexp.MustCompile(`(?i)^ALTER TABLE ([^\s(]+)( ON CLUSTER [^\s]+)? (.*)$`)
	reAddCol  = regexp.MustCompile("(?i)^ADD COLUMN (IF NOT EXISTS )?`?([A-Za-z0-9_]+)`?")
	reInsert  = regexp.MustCompile(`(?i)^INSERT INTO ([^\s(]+) ?\(([^)]*)\) VALUES ?\((.*)\)$`)
	reSelVer  = regexp.MustCompile(`(?i)^SELECT max\(ver\) as ver FROM ([a-z_]+) WHERE k = \$1`)
	reSelSet  = regexp.MustCompile(`(?i)^SELECT argMax\(value, inserted_at\) as _value FROM ([a-z_]+) WHERE fingerprint = \$1`)
	reCluster = regexp.MustCompile("(?i) ON CLUSTER `[^`]*`")
	reEngine  = regexp.MustCompile(`(?i)ENGINE ?= ?([A-Za-z]+)`)
	reOrderBy = regexp.MustCompile(`(?i)ORDER BY (\([^)]*\)|[A-Za-z_]+)`)
)

// topLevelSplit splits s on commas that are not inside parentheses or quotes.
func topLevelSplit(s string) []string {
	var res []string
	depth := 0
	inq := byte(0)
	start := 0
	for i := 0; i < len(s); i++ {
		ch := s[i]
		if inq != 0 {
			if ch == inq {
				inq = 0
			}
			continue
		}
		switch ch {
		case '\'', '`':
			inq = ch
		case '(':
			depth++
		case ')':
			depth--
		case ',':
			if depth == 0 {
				res = append(res, strings.TrimSpace(s[start:i]))
				start = i + 1
			}
		}
	}
	res = append(res, strings.TrimSpace(s[start:]))
	return res
}

func colsOfCreate(q string) []string {
	i := strings.Index(q, "(")
	if i < 0 {
		return nil
	}
	depth := 0
	j := i
	for ; j < len(q); j++ {
		if q[j] == '(' {
			depth++
		} else if q[j] == ')' {
			depth--
			if depth == 0 {
				break
			}
		}
	}
	if j >= len(q) {
		return nil
	}
	var cols []string
	for _, part := range topLevelSplit(q[i+1 : j]) {
		f := strings.Fields(part)
		if len(f) >= 2 {
			cols = append(cols, strings.Trim(f[0], "`"))
		}
	}
	return cols
}

// Classify parses one statement into an Op.
func (c *Conn) Classify(sql string) (Op, error) {
	q := norm(sql)
	q = strings.TrimSuffix(q, ";")
	qq := reCluster.ReplaceAllString(q, "")
	qq = norm(qq)
	if m := reCreate.FindStringSubmatch(qq); m != nil {
		kind := map[string]string{"TABLE": "table", "VIEW": "view", "MATERIALIZED VIEW": "mv"}[strings.ToUpper(m[1])]
		op := Op{Kind: "Create", Obj: c.stripDB(m[3]), ObjKind: kind}
		if m[2] != "" {
			op.Kind = "CreateINE"
		}
		if kind == "table" {
			op.Cols = colsOfCreate(qq)
			if e := reEngine.FindStringSubmatch(qq); e != nil {
				op.engine = e[1]
			}
		}
		return op, nil
	}
	if m := reDrop.FindStringSubmatch(qq); m != nil {
		op := Op{Kind: "Drop", Obj: c.stripDB(m[3])}
		if m[2] != "" {
			op.Kind = "DropIE"
		}
		return op, nil
	}
	if m := reRename.FindStringSubmatch(qq); m != nil {
		op := Op{Kind: "Rename", Obj: c.stripDB(m[2]), Obj2: c.stripDB(m[3])}
		if m[1] != "" {
			op.Kind = "RenameIE"
		}
		return op, nil
	}
	if m := reAlter.FindStringSubmatch(qq); m != nil {
		op := Op{Kind: "Alter", Obj: c.stripDB(m[1]), modVals: map[string]string{}}
		body := strings.TrimSpace(m[3])
		if strings.HasPrefix(body, "(") && strings.HasSuffix(body, ")") {
			body = strings.TrimSpace(body[1 : len(body)-1])
		}
		parts := topLevelSplit(body)
		inSetting := false
		for _, p := range parts {
			up := strings.ToUpper(p)
			switch {
			case strings.HasPrefix(up, "ADD COLUMN"):
				inSetting = false
				a := reAddCol.FindStringSubmatch(p)
				if a == nil {
					return Op{}, fmt.Errorf("%w: %s", ErrUnknown, p)
				}
				op.Adds = append(op.Adds, AddCol{Col: a[2], Guarded: a[1] != ""})
			case strings.HasPrefix(up, "MODIFY ORDER BY"):
				inSetting = false
				op.Mods = append(op.Mods, "orderby")
				op.modVals["orderby"] = strings.TrimSpace(p[len("MODIFY ORDER BY"):])
			case strings.HasPrefix(up, "MODIFY SETTING"):
				inSetting = true
				op.Mods = append(op.Mods, "setting")
				kv := strings.SplitN(strings.TrimSpace(p[len("MODIFY SETTING"):]), "=", 2)
				if len(kv) == 2 {
					op.modVals["setting:"+strings.TrimSpace(kv[0])] = strings.TrimSpace(kv[1])
				}
			case strings.HasPrefix(up, "MODIFY TTL"):
				// the TTL expression itself contains commas: everything after MODIFY TTL is the expression
				idx := strings.Index(strings.ToUpper(body), "MODIFY TTL")
				op.Mods = append(op.Mods, "ttl")
				op.ttl = strings.TrimSpace(body[idx+len("MODIFY TTL"):])
				return op, nil
			default:
				if inSetting && strings.Contains(p, "=") {
					kv := strings.SplitN(p, "=", 2)
					op.modVals["setting:"+strings.TrimSpace(kv[0])] = strings.TrimSpace(kv[1])
					continue
				}
				return Op{}, fmt.Errorf("%w: ALTER action %q", ErrUnknown, p)
			}
		}
		return op, nil
	}
	if m := reInsert.FindStringSubmatch(qq); m != nil {
		t := c.stripDB(m[1])
		if t == "ver" || t == "ver_dist" {
			return Op{Kind: "InsertVer", Obj: t}, nil
		}
		return Op{Kind: "Insert", Obj: t}, nil
	}
	if m := reSelVer.FindStringSubmatch(qq); m != nil {
		return Op{Kind: "SelectVer", Obj: m[1]}, nil
	}
	if m := reSelSet.FindStringSubmatch(qq); m != nil {
		return Op{Kind: "SelectSetting", Obj: m[1]}, nil
	}
	if strings.EqualFold(qq, "SHOW TABLES") {
		return Op{Kind: "ShowTables"}, nil
	}
	return Op{}, fmt.Errorf("%w: %s", ErrUnknown, q)
}

type chError struct{ msg string }

func (e *chError) Error() string { return e.msg }

func chErr(code int, format string, a ...any) error {
	return &chError{fmt.Sprintf("code: %d, message: %s", code, fmt.Sprintf(format, a...))}
}

// localOf maps a Distributed table to the local table whose rows it reads.
func localOf(name string) string { return strings.TrimSuffix(name, "_dist") }

func (c *Conn) apply(op Op, sql string, args []any) (bool, error) {
	db := c.DB
	switch op.Kind {
	case "Create", "CreateINE":
		if _, ok := db.Objects[op.Obj]; ok {
			if op.Kind == "CreateINE" {
				return false, nil
			}
			return false, chErr(57, "Table %s already exists", op.Obj)
		}
		o := &Object{Kind: op.ObjKind, Cols: map[string]bool{}, Settings: map[string]string{}, Engine: op.engine}
		for _, col := range op.Cols {
			o.Cols[col] = true
		}
		if m := reOrderBy.FindStringSubmatch(norm(sql)); m != nil {
			o.OrderBy = m[1]
		}
		db.Objects[op.Obj] = o
		return true, nil
	case "Drop", "DropIE":
		if _, ok := db.Objects[op.Obj]; !ok {
			if op.Kind == "DropIE" {
				return false, nil
			}
			return false, chErr(60, "Table %s doesn't exist", op.Obj)
		}
		delete(db.Objects, op.Obj)
		return true, nil
	case "Rename", "RenameIE":
		o, ok := db.Objects[op.Obj]
		if !ok {
			if op.Kind == "RenameIE" {
				return false, nil
			}
			return false, chErr(60, "Table %s doesn't exist", op.Obj)
		}
		if _, ok := db.Objects[op.Obj2]; ok {
			return false, chErr(57, "Table %s already exists", op.Obj2)
		}
		delete(db.Objects, op.Obj)
		db.Objects[op.Obj2] = o
		return true, nil
	case "Alter":
		o, ok := db.Objects[op.Obj]
		if !ok {
			return false, chErr(60, "Table %s doesn't exist", op.Obj)
		}
		for _, a := range op.Adds {
			if o.Cols[a.Col] && !a.Guarded {
				return false, chErr(15, "Cannot add column %s: column with this name already exists", a.Col)
			}
		}
		changed := false
		for _, a := range op.Adds {
			if !o.Cols[a.Col] {
				o.Cols[a.Col] = true
				changed = true
			}
		}
		for k, v := range op.modVals {
			if k == "orderby" {
				if o.OrderBy != v {
					o.OrderBy = v
					changed = true
				}
			} else if strings.HasPrefix(k, "setting:") {
				if v == "$1" && len(args) > 0 {
					v = fmt.Sprint(args[0])
				}
				name := strings.TrimPrefix(k, "setting:")
				if o.Settings[name] != v {
					o.Settings[name] = v
					changed = true
				}
			}
		}
		if op.ttl != "" {
			if o.TTL != op.ttl {
				o.TTL = op.ttl
				changed = true
			}
		}
		return changed, nil
	case "InsertVer":
		if _, ok := db.Objects[op.Obj]; !ok {
			return false, chErr(60, "Table %s doesn't exist", op.Obj)
		}
		if len(args) != 2 {
			return false, fmt.Errorf("%w: INSERT INTO ver without 2 args", ErrUnknown)
		}
		db.Ver = append(db.Ver, [2]uint64{toU64(args[0]), toU64(args[1])})
		return true, nil
	case "Insert":
		if _, ok := db.Objects[op.Obj]; !ok {
			return false, chErr(60, "Table %s doesn't exist", op.Obj)
		}
		if op.Obj != "settings" {
			return false, fmt.Errorf("%w: INSERT INTO %s", ErrUnknown, op.Obj)
		}
		db.seq++
		if len(args) == 4 {
			db.Settings = append(db.Settings, SettingRow{FP: toU64(args[0]), Type: fmt.Sprint(args[1]), Name: fmt.Sprint(args[2]), Value: fmt.Sprint(args[3]), Seq: db.seq})
		} else {
			m := regexp.MustCompile(`(?i)VALUES ?\(cityHash64\('([^']*)'\), ?'([^']*)', ?'([^']*)',`).FindStringSubmatch(norm(sql))
			if m == nil {
				return false, fmt.Errorf("%w: settings insert %s", ErrUnknown, norm(sql))
			}
			db.Settings = append(db.Settings, SettingRow{FP: fnv(m[1]), Type: m[2], Name: m[3], Value: "now", Seq: db.seq})
		}
		return true, nil
	}
	return false, fmt.Errorf("%w: op %s", ErrUnknown, op.Kind)
}

func fnv(s string) uint64 {
	h := uint64(1469598103934665603)
	for i := 0; i < len(s); i++ {
		h ^= uint64(s[i])
		h *= 1099511628211
	}
	return h | 1<<63
}

func toU64(v any) uint64 {
	rv := reflect.ValueOf(v)
	switch rv.Kind() {
	case reflect.Int, reflect.Int8, reflect.Int16, reflect.Int32, reflect.Int64:
		return uint64(rv.Int())
	case reflect.Uint, reflect.Uint8, reflect.Uint16, reflect.Uint32, reflect.Uint64:
		return rv.Uint()
	}
	panic(fmt.Sprintf("fakeconn: not an integer: %T", v))
}

func (c *Conn) begin(call, sql string, args []any) (*LogEntry, Op, error) {
	c.N++
	op, cerr := c.Classify(sql)
	c.Log = append(c.Log, LogEntry{N: c.N, Call: call, SQL: norm(sql), Args: args, Op: op})
	le := &c.Log[len(c.Log)-1]
	if cerr != nil {
		le.Err = cerr.Error()
		return le, op, cerr
	}
	if c.Pre != nil {
		switch c.Pre(le) {
		case "fail":
			c.FailAt[c.N] = true
		case "crash-before":
			c.CrashBefore = c.N
		case "crash-after":
			c.CrashAfter = c.N
		}
	}
	if c.CrashBefore == c.N {
		le.Fault = "crash-before"
		panic(Crash{At: c.N})
	}
	if c.FailAt[c.N] {
		le.Fault = "fail"
		le.Err = ErrInjected.Error()
		return le, op, ErrInjected
	}
	return le, op, nil
}

func (c *Conn) Exec(ctx context.Context, query string, args ...any) error {
	le, op, err := c.begin("exec", query, args)
	if err != nil {
		return err
	}
	eff, err := c.apply(op, query, args)
	le.Effect = eff
	if err != nil {
		le.Err = err.Error()
	}
	if c.CrashAfter == c.N {
		le.Fault = "crash-after"
		panic(Crash{At: c.N})
	}
	return err
}

type rows struct {
	cols []string
	data [][]any
	i    int
}

func (r *rows) Next() bool { r.i++; return r.i <= len(r.data) }
func (r *rows) Scan(dest ...any) error {
	row := r.data[r.i-1]
	if len(dest) != len(row) {
		return fmt.Errorf("fakeconn: scan %d values into %d", len(row), len(dest))
	}
	for i, d := range dest {
		dv := reflect.ValueOf(d)
		if dv.Kind() != reflect.Ptr {
			return fmt.Errorf("fakeconn: scan dest not pointer")
		}
		sv := reflect.ValueOf(row[i])
		if !sv.Type().ConvertibleTo(dv.Elem().Type()) {
			return fmt.Errorf("fakeconn: cannot scan %T into %T", row[i], d)
		}
		dv.Elem().Set(sv.Convert(dv.Elem().Type()))
	}
	return nil
}
func (r *rows) ScanStruct(dest any) error        { return errors.New("not implemented") }
func (r *rows) ColumnTypes() []driver.ColumnType { return nil }
func (r *rows) Totals(dest ...any) error         { return errors.New("not implemented") }
func (r *rows) Columns() []string                { return r.cols }
func (r *rows) Close() error                     { return nil }
func (r *rows) Err() error                       { return nil }

func (c *Conn) Query(ctx context.Context, query string, args ...any) (driver.Rows, error) {
	le, op, err := c.begin("query", query, args)
	if err != nil {
		return nil, err
	}
	var res *rows
	switch op.Kind {
	case "SelectVer":
		if _, ok := c.DB.Objects[op.Obj]; !ok {
			err = chErr(60, "Table %s doesn't exist", op.Obj)
			break
		}
		if _, ok := c.DB.Objects[localOf(op.Obj)]; !ok {
			err = chErr(60, "Table %s doesn't exist", localOf(op.Obj))
			break
		}
		k := toU64(args[0])
		var mx uint64
		for _, r := range c.DB.Ver {
			if r[0] == k && r[1] > mx {
				mx = r[1]
			}
		}
		res = &rows{cols: []string{"ver"}, data: [][]any{{mx}}}
		le.Result = mx
	case "SelectSetting":
		if _, ok := c.DB.Objects[op.Obj]; !ok {
			err = chErr(60, "Table %s doesn't exist", op.Obj)
			break
		}
		fp := toU64(args[0])
		var best *SettingRow
		for i := range c.DB.Settings {
			r := &c.DB.Settings[i]
			if r.FP == fp && (best == nil || r.Seq > best.Seq) {
				best = r
			}
		}
		res = &rows{cols: []string{"_value"}}
		le.Result = ""
		if best != nil && best.Name != "" {
			res.data = [][]any{{best.Value}}
			le.Result = best.Value
		}
	case "ShowTables":
		var names []string
		for n := range c.DB.Objects {
			names = append(names, n)
		}
		sort.Strings(names)
		res = &rows{cols: []string{"name"}}
		for _, n := range names {
			res.data = append(res.data, []any{n})
		}
	default:
		err = fmt.Errorf("%w: query %s", ErrUnknown, norm(query))
	}
	if err != nil {
		le.Err = err.Error()
	}
	if c.CrashAfter == c.N {
		le.Fault = "crash-after"
		panic(Crash{At: c.N})
	}
	if err != nil {
		return nil, err
	}
	return res, nil
}

func (c *Conn) Contributors() []string { return nil }
func (c *Conn) ServerVersion() (*driver.ServerVersion, error) {
	return nil, errors.New("not implemented")
}
func (c *Conn) Select(ctx context.Context, dest any, query string, args ...any) error {
	return fmt.Errorf("%w: Select", ErrUnknown)
}
func (c *Conn) QueryRow(ctx context.Context, query string, args ...any) driver.Row { return nil }
func (c *Conn) PrepareBatch(ctx context.Context, query string, opts ...driver.PrepareBatchOption) (driver.Batch, error) {
	return nil, fmt.Errorf("%w: PrepareBatch", ErrUnknown)
}
func (c *Conn) AsyncInsert(ctx context.Context, query string, wait bool, args ...any) error {
	return fmt.Errorf("%w: AsyncInsert", ErrUnknown)
}
func (c *Conn) Ping(context.Context) error { return nil }
func (c *Conn) Stats() driver.Stats        { return driver.Stats{} }
func (c *Conn) Close() error               { return nil }

// Snapshot renders the catalogue deterministically (for equality of schemas).
func (db *DB) Snapshot() map[string]any {
	res := map[string]any{}
	for n, o := range db.Objects {
		var cols []string
		for c := range o.Cols {
			cols = append(cols, c)
		}
		sort.Strings(cols)
		res[n] = map[string]any{"kind": o.Kind, "cols": cols, "orderby": o.OrderBy, "settings": o.Settings, "ttl": o.TTL}
	}
	return res
}

// MaxVer returns the recorded version of stream k.
func (db *DB) MaxVer(k uint64) uint64 {
	var mx uint64
	for _, r := range db.Ver {
		if r[0] == k && r[1] > mx {
			mx = r[1]
		}
	}
	return mx
}

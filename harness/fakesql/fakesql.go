// Package fakesql is a database/sql driver + reader/model.ISqlxDB whose answers come from a handler:
// scripted rows (with an error at row k, per-row delay, context cancellation honoured) or an interpreter
// (chsql). Every statement text handed to the session is recorded.
package fakesql

import (
	"context"
	"database/sql"
	"database/sql/driver"
	"fmt"
	"io"
	"strings"
	"sync"
	"sync/atomic"
	"time"

	clconfig "github.com/metrico/cloki-config/config"
	"github.com/metrico/qryn/reader/model"
)

// Answer is the result set of one query.
type Answer struct {
	Cols     []string
	Rows     [][]driver.Value
	ErrAt    int           // Next returns Err instead of row ErrAt (0-based); -1 = never
	Err      error         // the error for ErrAt
	RowDelay time.Duration // sleep before every row
	Cycle    int           // > 0: serve Rows cyclically until Cycle rows were delivered (a result set far larger than any limit)
}

// Handler answers a query. Returning an error fails the query itself.
type Handler func(ctx context.Context, query string, args []driver.NamedValue) (*Answer, error)

type Query struct {
	SQL  string
	Args []any
	Seq  int64
}

type DB struct {
	Name    string
	Handler Handler
	mu      sync.Mutex
	log     []Query
	sqlDB   *sql.DB
	Opened  int64 // rows objects opened
	Closed  int64 // rows objects closed
	Served  int64 // rows delivered by Next
	GetDBs  int64 // IDBRegistry.GetDB calls
	seq     int64
}

var (
	regMu sync.Mutex
	reg   = map[string]*DB{}
	once  sync.Once
)

type drv struct{}

func (drv) Open(name string) (driver.Conn, error) {
	regMu.Lock()
	defer regMu.Unlock()
	d := reg[name]
	if d == nil {
		return nil, fmt.Errorf("fakesql: no db %q", name)
	}
	return &conn{d}, nil
}

type conn struct{ d *DB }

func (c *conn) Prepare(q string) (driver.Stmt, error) { return &stmt{c.d, q}, nil }
func (c *conn) Close() error                          { return nil }
func (c *conn) Begin() (driver.Tx, error)             { return nil, fmt.Errorf("fakesql: no tx") }
func (c *conn) QueryContext(ctx context.Context, q string, args []driver.NamedValue) (driver.Rows, error) {
	return c.d.query(ctx, q, args)
}
func (c *conn) ExecContext(ctx context.Context, q string, args []driver.NamedValue) (driver.Result, error) {
	return driver.RowsAffected(0), nil
}

type stmt struct {
	d *DB
	q string
}

func (s *stmt) Close() error  { return nil }
func (s *stmt) NumInput() int { return -1 }
func (s *stmt) Exec(args []driver.Value) (driver.Result, error) {
	return driver.RowsAffected(0), nil
}
func (s *stmt) Query(args []driver.Value) (driver.Rows, error) {
	return s.d.query(context.Background(), s.q, nil)
}

func (d *DB) query(ctx context.Context, q string, args []driver.NamedValue) (driver.Rows, error) {
	if d.Handler == nil {
		return &rows{d: d, a: &Answer{Cols: []string{"c"}, ErrAt: -1}, ctx: ctx}, nil
	}
	a, err := d.Handler(ctx, q, args)
	if err != nil {
		return nil, err
	}
	if a == nil {
		a = &Answer{Cols: []string{"c"}, ErrAt: -1}
	}
	atomic.AddInt64(&d.Opened, 1)
	return &rows{d: d, a: a, ctx: ctx}, nil
}

type rows struct {
	d      *DB
	a      *Answer
	i      int
	ctx    context.Context
	closed bool
}

func (r *rows) Columns() []string { return r.a.Cols }
func (r *rows) Close() error {
	if !r.closed {
		r.closed = true
		atomic.AddInt64(&r.d.Closed, 1)
	}
	return nil
}
func (r *rows) Next(dest []driver.Value) error {
	if r.a.RowDelay > 0 {
		select {
		case <-time.After(r.a.RowDelay):
		case <-r.ctx.Done():
			return r.ctx.Err()
		}
	}
	if err := r.ctx.Err(); err != nil {
		return err
	}
	if r.a.ErrAt >= 0 && r.i == r.a.ErrAt {
		r.i++
		if r.a.Err != nil {
			return r.a.Err
		}
		return fmt.Errorf("fakesql: scripted mid-stream failure")
	}
	if r.a.Cycle > 0 && len(r.a.Rows) > 0 {
		if r.i >= r.a.Cycle {
			return io.EOF
		}
		copy(dest, r.a.Rows[r.i%len(r.a.Rows)])
		r.i++
		atomic.AddInt64(&r.d.Served, 1)
		return nil
	}
	if r.i >= len(r.a.Rows) {
		return io.EOF
	}
	copy(dest, r.a.Rows[r.i])
	r.i++
	atomic.AddInt64(&r.d.Served, 1)
	return nil
}

// New registers a fake database.
func New(name string, h Handler) *DB {
	once.Do(func() { sql.Register("verif-fakesql", drv{}) })
	d := &DB{Name: name, Handler: h}
	regMu.Lock()
	reg[name] = d
	regMu.Unlock()
	db, err := sql.Open("verif-fakesql", name)
	if err != nil {
		panic(err)
	}
	d.sqlDB = db
	return d
}

// ---- reader/model.ISqlxDB ----
func (d *DB) GetName() string { return d.Name }
func (d *DB) record(q string, args []any) {
	d.mu.Lock()
	d.log = append(d.log, Query{SQL: q, Args: args, Seq: atomic.AddInt64(&d.seq, 1)})
	d.mu.Unlock()
}
func (d *DB) QueryCtx(ctx context.Context, query string, args ...any) (*sql.Rows, error) {
	d.record(query, args)
	return d.sqlDB.QueryContext(ctx, query, args...)
}
func (d *DB) ExecCtx(ctx context.Context, query string, args ...any) error {
	d.record(query, args)
	return nil
}
func (d *DB) Conn(ctx context.Context) (*sql.Conn, error) { return d.sqlDB.Conn(ctx) }
func (d *DB) Begin() (*sql.Tx, error)                     { return nil, fmt.Errorf("fakesql: no tx") }
func (d *DB) Close()                                      {}

// Log returns and clears the recorded statements.
func (d *DB) Drain() []Query {
	d.mu.Lock()
	defer d.mu.Unlock()
	r := d.log
	d.log = nil
	return r
}

// Registry returns a reader/model.IDBRegistry serving this database.
func (d *DB) Registry(cluster string) model.IDBRegistry {
	return &registry{d: d, m: &model.DataDatabasesMap{
		Config:  &clconfig.ClokiBaseDataBase{Name: "qryn", ClusterName: cluster, Node: "n1"},
		Session: d,
	}}
}

type registry struct {
	d *DB
	m *model.DataDatabasesMap
}

func (r *registry) GetDB(ctx context.Context) (*model.DataDatabasesMap, error) {
	atomic.AddInt64(&r.d.GetDBs, 1)
	return r.m, nil
}
func (r *registry) Run()        {}
func (r *registry) Stop()       {}
func (r *registry) Ping() error { return nil }

// VersionAnswers answers the two bookkeeping queries every reader request issues first (dbVersion.GetVersionInfo):
// the settings 'update' rows and SHOW TABLES. Returns nil if q is neither.
func VersionAnswers(q string, tables []string, versions map[string]string) *Answer {
	t := strings.TrimSpace(q)
	if strings.HasPrefix(strings.ToUpper(t), "SHOW TABLES") {
		a := &Answer{Cols: []string{"name"}, ErrAt: -1}
		for _, n := range tables {
			a.Rows = append(a.Rows, []driver.Value{n})
		}
		return a
	}
	if strings.Contains(t, "argMax(name, inserted_at)") && strings.Contains(t, "type='update'") {
		a := &Answer{Cols: []string{"_name", "_value"}, ErrAt: -1}
		for k, v := range versions {
			a.Rows = append(a.Rows, []driver.Value{k, v})
		}
		return a
	}
	return nil
}

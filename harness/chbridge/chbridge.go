// Package chbridge serves the reader's database/sql session (fakesql) from a chsql database: the SQL text the
// real planners produce is executed by the reference interpreter and the result is converted to the Go types the
// clickhouse-go database/sql driver would deliver (map[string]string, [][]interface{}, []string, time.Time, ...).
package chbridge

import (
	"context"
	"database/sql/driver"
	"errors"
	"fmt"
	"strings"
	"sync"
	"time"

	"verif/harness/chsql"
	"verif/harness/fakesql"
)

// Recorder collects per-statement information.
type Exec struct {
	SQL   string
	Err   error
	Rows  int
	Scans []chsql.ScanInfo
}

type Bridge struct {
	DB        *chsql.DB
	Tables    []string          // answer for SHOW TABLES
	Versions  map[string]string // settings 'update' rows (name -> unix time string)
	mu        sync.Mutex
	Execs     []Exec
	WithScans bool
	// Unsupported collects statements chsql refused (ErrUnsupported): an infrastructure condition for the caller.
	Unsupported []string
}

func New(db *chsql.DB) *Bridge {
	return &Bridge{DB: db, Versions: map[string]string{}}
}

func conv(v any) driver.Value {
	switch x := v.(type) {
	case nil:
		return nil
	case chsql.Date:
		return time.Unix(int64(x)*86400, 0).UTC()
	case chsql.DateTime:
		return time.Unix(int64(x), 0).UTC()
	case chsql.DateTime64:
		return int64(x)
	case chsql.FixedString:
		return string(x)
	case *chsql.Map:
		m := map[string]string{}
		allStr := true
		for i, k := range x.Keys {
			ks, ok1 := k.(string)
			vs, ok2 := x.Vals[i].(string)
			if !ok1 || !ok2 {
				allStr = false
				break
			}
			m[ks] = vs
		}
		if allStr {
			return m
		}
		g := map[any]any{}
		for i, k := range x.Keys {
			g[conv(k)] = conv(x.Vals[i])
		}
		return g
	case chsql.Tuple:
		r := make([]interface{}, len(x))
		for i, e := range x {
			r[i] = conv(e)
		}
		return r
	case []any:
		return convArray(x)
	case uint8, uint16, uint32, uint64, int8, int16, int32, int64, float64, float32, string, bool, []byte:
		return x
	}
	return v
}

func convArray(a []any) driver.Value {
	if len(a) == 0 {
		return []interface{}{}
	}
	allTuple, allStr, allU64, allI64, allF := true, true, true, true, true
	for _, e := range a {
		if _, ok := e.(chsql.Tuple); !ok {
			allTuple = false
		}
		if _, ok := e.(string); !ok {
			allStr = false
		}
		if _, ok := e.(uint64); !ok {
			allU64 = false
		}
		if _, ok := e.(int64); !ok {
			allI64 = false
		}
		if _, ok := e.(float64); !ok {
			allF = false
		}
	}
	switch {
	case allTuple:
		r := make([][]interface{}, len(a))
		for i, e := range a {
			r[i] = conv(e).([]interface{})
		}
		return r
	case allStr:
		r := make([]string, len(a))
		for i, e := range a {
			r[i] = e.(string)
		}
		return r
	case allU64:
		r := make([]uint64, len(a))
		for i, e := range a {
			r[i] = e.(uint64)
		}
		return r
	case allI64:
		r := make([]int64, len(a))
		for i, e := range a {
			r[i] = e.(int64)
		}
		return r
	case allF:
		r := make([]float64, len(a))
		for i, e := range a {
			r[i] = e.(float64)
		}
		return r
	}
	r := make([]interface{}, len(a))
	for i, e := range a {
		r[i] = conv(e)
	}
	return r
}

// Handler returns the fakesql handler.
func (b *Bridge) Handler() fakesql.Handler {
	return func(ctx context.Context, q string, args []driver.NamedValue) (*fakesql.Answer, error) {
		if a := fakesql.VersionAnswers(q, b.Tables, b.Versions); a != nil {
			return a, nil
		}
		var res *chsql.Result
		var scans []chsql.ScanInfo
		var err error
		if b.WithScans {
			res, scans, err = b.DB.QueryWithScans(q)
		} else {
			res, err = b.DB.Query(q)
		}
		ex := Exec{SQL: q, Err: err, Scans: scans}
		if res != nil {
			ex.Rows = len(res.Rows)
		}
		b.mu.Lock()
		b.Execs = append(b.Execs, ex)
		if err != nil && errors.Is(err, chsql.ErrUnsupported) {
			b.Unsupported = append(b.Unsupported, fmt.Sprintf("%v :: %s", err, strings.TrimSpace(q)))
		}
		b.mu.Unlock()
		if err != nil {
			return nil, err
		}
		a := &fakesql.Answer{Cols: res.Cols, ErrAt: -1}
		for _, row := range res.Rows {
			r := make([]driver.Value, len(row))
			for i, v := range row {
				r[i] = conv(v)
			}
			a.Rows = append(a.Rows, r)
		}
		return a, nil
	}
}

// Drain returns and clears the executed statements.
func (b *Bridge) Drain() []Exec {
	b.mu.Lock()
	defer b.mu.Unlock()
	r := b.Execs
	b.Execs = nil
	return r
}

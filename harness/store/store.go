// Package store is the "ClickHouse side" of end-to-end runs: a chsql database whose tables AND materialized
// views are created from the REAL DDL in /repo/ctrl/qryn/sql/*.sql. Rows captured from the writer (fakech blocks)
// are inserted into the table named by the INSERT statement, and every materialized view reading that table is
// executed by chsql over the inserted block and its result inserted into the view's target table (recursively),
// which is what ClickHouse does.
package store

import (
	"fmt"
	"reflect"
	"regexp"
	"strings"
	"time"

	qsql "github.com/metrico/qryn/ctrl/qryn/sql"
	"verif/harness/chsql"
	"verif/harness/fakech"
)

type mv struct {
	Name, Target, Source, Select string
}

type Store struct {
	DB     *chsql.DB
	Cols   map[string][]chsql.Column
	MVs    []mv
	Counts map[string]int
}

var (
	reTpl      = regexp.MustCompile(`\{\{[^}]*\}\}`)
	reWS       = regexp.MustCompile(`\s+`)
	reCreateT  = regexp.MustCompile(`(?is)^CREATE TABLE IF NOT EXISTS\s+([A-Za-z0-9_.]+)\s*\((.*)\)\s*(ENGINE.*)$`)
	reCreateMV = regexp.MustCompile(`(?is)^CREATE MATERIALIZED VIEW IF NOT EXISTS\s+([A-Za-z0-9_.]+)\s+TO\s+([A-Za-z0-9_.]+)\s+AS\s+(SELECT.*)$`)
	reAddOne   = regexp.MustCompile("(?is)^ADD COLUMN (?:IF NOT EXISTS )?`?([A-Za-z0-9_]+)`? (.+)$")
	reAlterT   = regexp.MustCompile(`(?is)^ALTER TABLE\s+([A-Za-z0-9_.]+)`)
	reFrom     = regexp.MustCompile(`(?is)\bFROM\s+([A-Za-z0-9_.]+)`)
	reInsert   = regexp.MustCompile(`(?is)^INSERT INTO\s+([A-Za-z0-9_.]+)\s*\(([^)]*)\)`)
)

func bare(n string) string {
	n = strings.Trim(n, "` ")
	if i := strings.LastIndex(n, "."); i >= 0 {
		n = n[i+1:]
	}
	return strings.Trim(n, "` ")
}

func splitTop(s string) []string {
	var res []string
	depth, start := 0, 0
	inq := false
	for i := 0; i < len(s); i++ {
		switch {
		case s[i] == '\'':
			inq = !inq
		case inq:
		case s[i] == '(':
			depth++
		case s[i] == ')':
			depth--
		case s[i] == ',' && depth == 0:
			res = append(res, strings.TrimSpace(s[start:i]))
			start = i + 1
		}
	}
	return append(res, strings.TrimSpace(s[start:]))
}

// typeOf extracts the type from "Type [DEFAULT ..] [CODEC(..)] [ALIAS ..]".
func typeOf(def string) (string, bool) {
	up := strings.ToUpper(def)
	alias := false
	cut := len(def)
	for _, kw := range []string{" DEFAULT ", " CODEC(", " CODEC (", " ALIAS ", " MATERIALIZED "} {
		if i := strings.Index(up, kw); i >= 0 && i < cut {
			cut = i
			if kw == " ALIAS " {
				alias = true
			}
		}
	}
	if strings.Contains(up, " ALIAS ") {
		alias = true
	}
	return strings.TrimSpace(def[:cut]), alias
}

func statements(text string) []string {
	var lines []string
	for _, l := range strings.Split(text, "\n") {
		if strings.HasPrefix(l, "##") {
			continue
		}
		lines = append(lines, l)
	}
	var res []string
	for _, s := range strings.Split(strings.Join(lines, "\n"), ";\n") {
		s = strings.TrimSpace(reTpl.ReplaceAllString(s, " "))
		s = strings.TrimSuffix(s, ";")
		if s != "" {
			res = append(res, s)
		}
	}
	return res
}

// New builds the schema from the repository's DDL scripts (log, traces, profiles).
func New() (*Store, error) {
	st := &Store{DB: chsql.NewDB(), Cols: map[string][]chsql.Column{}, Counts: map[string]int{}}
	mvs := map[string]mv{}
	var order []string
	for _, script := range []string{qsql.LogScript, qsql.TracesScript, qsql.ProfilesScript} {
		for _, s := range statements(script) {
			flat := strings.TrimSpace(reWS.ReplaceAllString(s, " "))
			if m := reCreateT.FindStringSubmatch(flat); m != nil {
				name := bare(m[1])
				if strings.Contains(strings.ToUpper(m[3]), "MERGE(") || strings.Contains(strings.ToUpper(m[3]), "DISTRIBUTED(") {
					continue
				}
				if _, ok := st.Cols[name]; ok {
					continue
				}
				var cols []chsql.Column
				for _, part := range splitTop(m[2]) {
					f := strings.SplitN(strings.TrimSpace(part), " ", 2)
					if len(f) != 2 {
						continue
					}
					ty, alias := typeOf(f[1])
					if alias {
						continue
					}
					cols = append(cols, chsql.Column{Name: strings.Trim(f[0], "`"), Type: ty})
				}
				st.Cols[name] = cols
				continue
			}
			if m := reCreateMV.FindStringSubmatch(flat); m != nil {
				name := bare(m[1])
				src := ""
				if f := reFrom.FindStringSubmatch(m[3]); f != nil {
					src = bare(f[1])
				}
				if _, ok := mvs[name]; !ok {
					order = append(order, name)
				}
				mvs[name] = mv{Name: name, Target: bare(m[2]), Source: src, Select: m[3]}
				continue
			}
			if m := reAlterT.FindStringSubmatch(flat); m != nil {
				name := bare(m[1])
				body := strings.TrimSpace(flat[len(m[0]):])
				if strings.HasPrefix(body, "(") && strings.HasSuffix(body, ")") {
					body = body[1 : len(body)-1]
				}
				for _, part := range splitTop(body) {
					a := reAddOne.FindStringSubmatch(strings.TrimSpace(part))
					if a == nil {
						continue
					}
					ty, alias := typeOf(strings.TrimSpace(a[2]))
					if alias {
						continue
					}
					dup := false
					for _, c := range st.Cols[name] {
						if c.Name == a[1] {
							dup = true
						}
					}
					if !dup && st.Cols[name] != nil {
						st.Cols[name] = append(st.Cols[name], chsql.Column{Name: a[1], Type: ty})
					}
				}
			}
		}
	}
	for name, cols := range st.Cols {
		if err := safeCreate(st.DB, name, cols); err != nil {
			return nil, fmt.Errorf("store: table %s: %v", name, err)
		}
		st.DB.Alias(name+"_dist", name)
	}
	for _, n := range order {
		st.MVs = append(st.MVs, mvs[n])
	}
	return st, nil
}

func safeCreate(db *chsql.DB, name string, cols []chsql.Column) (err error) {
	defer func() {
		if r := recover(); r != nil {
			err = fmt.Errorf("%v", r)
		}
	}()
	db.CreateTable(name, cols)
	return nil
}

// Insert inserts rows (given by column name) into table and runs the dependent materialized views.
func (st *Store) Insert(table string, cols []string, rows [][]any) error {
	table = bare(strings.TrimSuffix(bare(table), "_dist"))
	tcols, ok := st.Cols[table]
	if !ok {
		return fmt.Errorf("store: unknown table %s", table)
	}
	idx := map[string]int{}
	for i, c := range cols {
		idx[strings.Trim(strings.TrimSpace(c), "`")] = i
	}
	full := make([][]any, len(rows))
	for r, row := range rows {
		fr := make([]any, len(tcols))
		for i, c := range tcols {
			if j, ok := idx[c.Name]; ok {
				fr[i] = norm(row[j])
			} else {
				fr[i] = chsql.DefaultOf(c.Type)
			}
		}
		full[r] = fr
	}
	if err := st.DB.Insert(table, full...); err != nil {
		return fmt.Errorf("store: insert into %s: %w", table, err)
	}
	st.Counts[table] += len(full)
	for _, v := range st.MVs {
		if v.Source != table {
			continue
		}
		tmp := chsql.NewDB()
		tmp.Now = st.DB.Now
		if err := safeCreate(tmp, table, tcols); err != nil {
			return err
		}
		if err := tmp.Insert(table, full...); err != nil {
			return err
		}
		res, err := tmp.Query(v.Select)
		if err != nil {
			return fmt.Errorf("store: materialized view %s: %w", v.Name, err)
		}
		if err := st.Insert(v.Target, res.Cols, res.Rows); err != nil {
			return err
		}
	}
	return nil
}

// norm turns Go structs (the writer's tuple element types such as model.StrStr) into chsql tuples, slices of them into arrays.
func norm(v any) any {
	if v == nil {
		return nil
	}
	switch v.(type) {
	case string, []byte, time.Time, chsql.Tuple, []any:
		return v
	}
	rv := reflect.ValueOf(v)
	switch rv.Kind() {
	case reflect.Struct:
		t := make(chsql.Tuple, rv.NumField())
		for i := 0; i < rv.NumField(); i++ {
			t[i] = norm(rv.Field(i).Interface())
		}
		return t
	case reflect.Slice:
		if rv.Type().Elem().Kind() == reflect.Uint8 {
			return v
		}
		a := make([]any, rv.Len())
		for i := range a {
			a[i] = norm(rv.Index(i).Interface())
		}
		return a
	}
	return v
}

// ApplyBlock inserts a block captured by the fake ClickHouse client.
func (st *Store) ApplyBlock(b *fakech.Block) error {
	m := reInsert.FindStringSubmatch(strings.TrimSpace(b.Body))
	if m == nil {
		return fmt.Errorf("store: cannot parse INSERT %q", b.Body)
	}
	var cols []string
	for _, c := range strings.Split(m[2], ",") {
		cols = append(cols, strings.Trim(strings.TrimSpace(c), "`"))
	}
	if len(cols) != len(b.Cols) {
		return fmt.Errorf("store: INSERT lists %d columns, block has %d", len(cols), len(b.Cols))
	}
	return st.Insert(m[1], cols, b.Rows)
}

package store

import (
	"testing"
	"time"
)

func TestSchemaAndMVs(t *testing.T) {
	st, err := New()
	if err != nil {
		t.Fatal(err)
	}
	for _, v := range st.MVs {
		t.Logf("MV %s: %s -> %s", v.Name, v.Source, v.Target)
	}
	d := time.Date(2023, 11, 14, 0, 0, 0, 0, time.UTC)
	err = st.Insert("time_series", []string{"type", "date", "fingerprint", "labels"}, [][]any{{uint8(1), d, uint64(7), `{"a":"b","c":"d"}`}})
	if err != nil {
		t.Fatal(err)
	}
	res, err := st.DB.Query("SELECT date, key, val, fingerprint, type FROM time_series_gin ORDER BY key")
	if err != nil {
		t.Fatal(err)
	}
	if len(res.Rows) != 2 {
		t.Fatalf("gin rows: %v", res.Rows)
	}
	t.Log(res.Rows)
	err = st.Insert("samples_v3", []string{"type", "fingerprint", "timestamp_ns", "string", "value"}, [][]any{
		{uint8(1), uint64(7), int64(1700000000000000000), "hello", 0.0},
		{uint8(1), uint64(7), int64(1700000001000000000), "world!", 2.0}})
	if err != nil {
		t.Fatal(err)
	}
	res, err = st.DB.Query("SELECT fingerprint, timestamp_ns, countMerge(count) as c, sum(sum) as s, sum(bytes) as b, argMaxMerge(last) as l FROM metrics_15s GROUP BY fingerprint, timestamp_ns")
	if err != nil {
		t.Fatal(err)
	}
	t.Log(res.Rows)
	if len(res.Rows) != 1 {
		t.Fatalf("metrics rows %v", res.Rows)
	}
	err = st.Insert("tempo_traces_attrs_gin", []string{"date", "key", "val", "trace_id", "span_id", "timestamp_ns", "duration"}, [][]any{
		{d, "k", "v", []byte("0123456789abcdef"), []byte("01234567"), int64(1700000000000000000), int64(5)}})
	if err != nil {
		t.Fatal(err)
	}
	res, _ = st.DB.Query("SELECT key, val, val_id FROM tempo_traces_kv")
	t.Log(res.Rows)
	err = st.Insert("profiles_input", []string{"timestamp_ns", "type", "service_name", "sample_types_units", "period_type", "period_unit", "tags", "duration_ns", "payload_type", "payload", "values_agg", "tree", "functions"},
		[][]any{{uint64(1700000000000000000), "process_cpu", "svc", []any{[]any{"cpu", "nanoseconds"}}, "cpu", "nanoseconds", []any{[]any{"pod", "p1"}}, uint64(10), "0", "x",
			[]any{[]any{"cpu", int64(5), int32(1)}}, []any{}, []any{}}})
	if err != nil {
		t.Fatal(err)
	}
	for _, q := range []string{"SELECT fingerprint, type_id FROM profiles", "SELECT date, key, val FROM profiles_series_gin ORDER BY key", "SELECT key, val, val_id FROM profiles_series_keys"} {
		res, err = st.DB.Query(q)
		if err != nil {
			t.Fatal(q, err)
		}
		t.Log(res.Rows)
	}
}

package chsql

import (
	"encoding/hex"
	"regexp"
	"strconv"
	"strings"
	"sync"
	"unicode"
	"unicode/utf8"
)

// ---------------------------------------------------------------------------
// regular expressions
//
// ClickHouse compiles patterns with RE2 and the dot_nl option
// (OptimizedRegularExpression::RE_DOT_NL is set in Regexps::createRegexp for
// match, extract*, replaceRegexp*, LIKE): '.' matches '\n'. Go's regexp package
// implements the same RE2 syntax; dot_nl is the (?s) flag.
// ---------------------------------------------------------------------------

var (
	reCache   = map[string]*regexp.Regexp{}
	reCacheMu sync.Mutex
)

func compileRE(pattern string, caseInsensitive bool) (*regexp.Regexp, error) {
	key := pattern
	flags := "(?s)"
	if caseInsensitive {
		flags = "(?si)"
		key = "i\x00" + pattern
	}
	reCacheMu.Lock()
	defer reCacheMu.Unlock()
	if re, ok := reCache[key]; ok {
		return re, nil
	}
	re, err := regexp.Compile(flags + pattern)
	if err != nil {
		return nil, badArgf("cannot compile regular expression %q: %v", pattern, err)
	}
	reCache[key] = re
	return re, nil
}

// likeToRegexp is a port of ClickHouse's likePatternToRegexp.
func likeToRegexp(pattern string) (string, error) {
	var res strings.Builder
	pos, end := 0, len(pattern)
	if pos < end && pattern[pos] == '%' {
		// eat leading %
		for pos++; pos < end; pos++ {
			if pattern[pos] != '%' {
				break
			}
		}
	} else {
		res.WriteByte('^')
	}
	for pos < end {
		c := pattern[pos]
		switch c {
		case '^', '$', '.', '[', '|', '(', ')', '?', '*', '+', '{':
			res.WriteByte('\\')
			res.WriteByte(c)
		case '%':
			if pos+1 != end {
				res.WriteString(".*")
			} else {
				return res.String(), nil
			}
		case '_':
			res.WriteByte('.')
		case '\\':
			if pos+1 == end {
				return "", badArgf("invalid escape sequence at the end of LIKE pattern %q", pattern)
			}
			switch pattern[pos+1] {
			case '%', '_':
				// quoted LIKE metacharacters are literals
				if pattern[pos+1] == '_' {
					res.WriteByte('_')
				} else {
					res.WriteByte('%')
				}
				pos++
			case '\\':
				res.WriteString("\\\\")
				pos++
			default:
				// unknown escape sequence: a literal backslash, then the character as usual
				res.WriteString("\\\\")
			}
		default:
			res.WriteByte(c)
		}
		pos++
	}
	res.WriteByte('$')
	return res.String(), nil
}

func likeMatch(s, pattern string, ci bool) (bool, error) {
	rs, err := likeToRegexp(pattern)
	if err != nil {
		return false, err
	}
	re, err := compileRE(rs, ci)
	if err != nil {
		return false, err
	}
	return re.MatchString(s), nil
}

func strArg(fn string, v any) (string, error) {
	s, ok := asString(v)
	if !ok {
		return "", typeErrf("illegal type %s of argument of function %s (must be String)", typeNameOf(v), fn)
	}
	return s, nil
}

func strArgs(fn string, a []any) ([]string, error) {
	out := make([]string, len(a))
	for i, v := range a {
		s, err := strArg(fn, v)
		if err != nil {
			return nil, err
		}
		out[i] = s
	}
	return out, nil
}

func strArray(vals []string) []any {
	out := emptyArrayOf("")
	for _, s := range vals {
		out = append(out, s)
	}
	return out
}

func init() {
	like := func(name string, ci, neg bool) {
		reg(name, 2, 2, func(_ *env, a []any) (any, error) {
			s, err := strArgs(name, a)
			if err != nil {
				return nil, err
			}
			m, err := likeMatch(s[0], s[1], ci)
			if err != nil {
				return nil, err
			}
			return boolVal(m != neg), nil
		})
	}
	like("like", false, false)
	like("notLike", false, true)
	like("ilike", true, false)
	like("notILike", true, true)
	reg("match", 2, 2, func(_ *env, a []any) (any, error) {
		s, err := strArgs("match", a)
		if err != nil {
			return nil, err
		}
		re, err := compileRE(s[1], false)
		if err != nil {
			return nil, err
		}
		return boolVal(re.MatchString(s[0])), nil
	})
	reg("extract", 2, 2, func(_ *env, a []any) (any, error) {
		s, err := strArgs("extract", a)
		if err != nil {
			return nil, err
		}
		re, err := compileRE(s[1], false)
		if err != nil {
			return nil, err
		}
		m := re.FindStringSubmatch(s[0])
		if m == nil {
			return "", nil
		}
		if len(m) > 1 {
			return m[1], nil
		}
		return m[0], nil
	})
	reg("extractAll", 2, 2, func(_ *env, a []any) (any, error) {
		s, err := strArgs("extractAll", a)
		if err != nil {
			return nil, err
		}
		re, err := compileRE(s[1], false)
		if err != nil {
			return nil, err
		}
		out := emptyArrayOf("")
		for _, m := range re.FindAllStringSubmatch(s[0], -1) {
			if len(m) > 1 {
				out = append(out, m[1])
			} else {
				out = append(out, m[0])
			}
		}
		return out, nil
	})
	groups := func(name string, horizontal bool) {
		reg(name, 2, 2, func(_ *env, a []any) (any, error) {
			s, err := strArgs(name, a)
			if err != nil {
				return nil, err
			}
			re, err := compileRE(s[1], false)
			if err != nil {
				return nil, err
			}
			ng := re.NumSubexp()
			if ng == 0 {
				return nil, badArgf("there are no groups in regexp: %s", s[1])
			}
			matches := re.FindAllStringSubmatch(s[0], -1)
			if horizontal {
				out := emptyArrayOf(emptyArrayOf(""))
				for g := 1; g <= ng; g++ {
					col := emptyArrayOf("")
					for _, m := range matches {
						col = append(col, m[g])
					}
					out = append(out, col)
				}
				return out, nil
			}
			out := emptyArrayOf(emptyArrayOf(""))
			for _, m := range matches {
				row := emptyArrayOf("")
				for g := 1; g <= ng; g++ {
					row = append(row, m[g])
				}
				out = append(out, row)
			}
			return out, nil
		})
	}
	groups("extractAllGroupsHorizontal", true)
	groups("extractAllGroupsVertical", false)
	groups("extractAllGroups", false)

	replaceRe := func(name string, all bool) {
		reg(name, 3, 3, func(_ *env, a []any) (any, error) {
			s, err := strArgs(name, a)
			if err != nil {
				return nil, err
			}
			re, err := compileRE(s[1], false)
			if err != nil {
				return nil, err
			}
			// replacement: \0 .. \9 are substitutions, \\ a backslash
			expand := func(m []int) string {
				var b strings.Builder
				r := s[2]
				for i := 0; i < len(r); i++ {
					if r[i] == '\\' && i+1 < len(r) {
						n := r[i+1]
						if n >= '0' && n <= '9' {
							g := int(n - '0')
							if 2*g+1 < len(m) && m[2*g] >= 0 {
								b.WriteString(s[0][m[2*g]:m[2*g+1]])
							}
							i++
							continue
						}
						if n == '\\' {
							b.WriteByte('\\')
							i++
							continue
						}
					}
					b.WriteByte(r[i])
				}
				return b.String()
			}
			var out strings.Builder
			last := 0
			n := -1
			if !all {
				n = 1
			}
			for _, m := range re.FindAllStringSubmatchIndex(s[0], n) {
				out.WriteString(s[0][last:m[0]])
				out.WriteString(expand(m))
				last = m[1]
			}
			out.WriteString(s[0][last:])
			return out.String(), nil
		})
	}
	replaceRe("replaceRegexpAll", true)
	replaceRe("replaceRegexpOne", false)
	reg("replaceAll", 3, 3, func(_ *env, a []any) (any, error) {
		s, err := strArgs("replaceAll", a)
		if err != nil {
			return nil, err
		}
		if s[1] == "" {
			return s[0], nil
		}
		return strings.ReplaceAll(s[0], s[1], s[2]), nil
	})
	scalarFuncs["replace"] = scalarFuncs["replaceAll"]
	reg("replaceOne", 3, 3, func(_ *env, a []any) (any, error) {
		s, err := strArgs("replaceOne", a)
		if err != nil {
			return nil, err
		}
		if s[1] == "" {
			return s[0], nil
		}
		return strings.Replace(s[0], s[1], s[2], 1), nil
	})

	reg("length", 1, 1, func(_ *env, a []any) (any, error) {
		switch x := a[0].(type) {
		case string:
			return uint64(len(x)), nil
		case FixedString:
			return uint64(len(x)), nil
		case []any:
			return uint64(len(x)), nil
		case *Map:
			return uint64(len(x.Keys)), nil
		}
		return nil, typeErrf("illegal type %s of argument of function length", typeNameOf(a[0]))
	})
	reg("lengthUTF8", 1, 1, func(_ *env, a []any) (any, error) {
		s, err := strArg("lengthUTF8", a[0])
		if err != nil {
			return nil, err
		}
		// ClickHouse counts bytes that are not UTF-8 continuation bytes
		n := uint64(0)
		for i := 0; i < len(s); i++ {
			if s[i]&0xC0 != 0x80 {
				n++
			}
		}
		return n, nil
	})
	scalarFuncs["char_length"] = scalarFuncs["lengthUTF8"]
	reg("empty", 1, 1, func(_ *env, a []any) (any, error) {
		switch x := a[0].(type) {
		case string:
			return boolVal(len(x) == 0), nil
		case FixedString:
			return boolVal(trimZeros(string(x)) == ""), nil
		case []any:
			return boolVal(len(x) == 0), nil
		case *Map:
			return boolVal(len(x.Keys) == 0), nil
		}
		return nil, typeErrf("illegal type %s of argument of function empty", typeNameOf(a[0]))
	})
	reg("notEmpty", 1, 1, func(e *env, a []any) (any, error) {
		v, err := scalarFuncs["empty"].fn(e, a)
		if err != nil {
			return nil, err
		}
		return boolVal(v.(uint8) == 0), nil
	})
	asciiCase := func(name string, upper bool) {
		reg(name, 1, 1, func(_ *env, a []any) (any, error) {
			s, err := strArg(name, a[0])
			if err != nil {
				return nil, err
			}
			b := []byte(s)
			for i, c := range b {
				if upper && c >= 'a' && c <= 'z' {
					b[i] = c - 32
				} else if !upper && c >= 'A' && c <= 'Z' {
					b[i] = c + 32
				}
			}
			return string(b), nil
		})
	}
	asciiCase("lower", false)
	asciiCase("upper", true)
	scalarFuncs["lcase"] = scalarFuncs["lower"]
	scalarFuncs["ucase"] = scalarFuncs["upper"]
	utfCase := func(name string, f func(rune) rune) {
		reg(name, 1, 1, func(_ *env, a []any) (any, error) {
			s, err := strArg(name, a[0])
			if err != nil {
				return nil, err
			}
			if !utf8.ValidString(s) {
				return nil, unsupportedf("%s of a string that is not valid UTF-8", name)
			}
			return strings.Map(f, s), nil
		})
	}
	utfCase("lowerUTF8", unicode.ToLower)
	utfCase("upperUTF8", unicode.ToUpper)
	regNull("concat", 1, -1, func(_ *env, a []any) (any, error) {
		var b strings.Builder
		for _, v := range a {
			if v == nil {
				return nil, nil
			}
			s, ok := asString(v)
			if !ok {
				// ClickHouse >= 23.9 converts other types with toString
				var err error
				if s, err = toStringValue(v); err != nil {
					return nil, err
				}
			}
			b.WriteString(s)
		}
		return b.String(), nil
	})
	// concatWithSeparator(sep, s1, s2, ...): strings only (ClickHouse: "Concatenates the given strings with a separator")
	regNull("concatWithSeparator", 1, -1, func(_ *env, a []any) (any, error) {
		sep, err := strArg("concatWithSeparator", a[0])
		if err != nil {
			return nil, err
		}
		parts := make([]string, 0, len(a)-1)
		for _, v := range a[1:] {
			s, err := strArg("concatWithSeparator", v)
			if err != nil {
				return nil, err
			}
			parts = append(parts, s)
		}
		return strings.Join(parts, sep), nil
	})
	reg("substring", 2, 3, func(_ *env, a []any) (any, error) {
		s, err := strArg("substring", a[0])
		if err != nil {
			return nil, err
		}
		k, ok := kindOf(a[1])
		if !ok || !k.isInt {
			return nil, typeErrf("illegal type of offset argument of substring")
		}
		off := signExtendAny(a[1])
		n := int64(len(s))
		var start int64
		switch {
		case off > 0:
			start = off - 1
		case off < 0:
			if -off > n {
				return nil, unsupportedf("substring with a negative offset beyond the start of the string")
			}
			start = n + off
		default:
			// offset 0: indexing starts at 1; ClickHouse returns an empty string
			return "", nil
		}
		if start > n {
			start = n
		}
		end := n
		if len(a) == 3 {
			kl, ok := kindOf(a[2])
			if !ok || !kl.isInt {
				return nil, typeErrf("illegal type of length argument of substring")
			}
			l := signExtendAny(a[2])
			if l < 0 {
				return nil, unsupportedf("substring with a negative length")
			}
			end = start + l
		}
		if end > n {
			end = n
		}
		return s[start:end], nil
	})
	scalarFuncs["substr"] = scalarFuncs["substring"]
	scalarFuncs["mid"] = scalarFuncs["substring"]
	pos := func(name string, ci bool) {
		reg(name, 2, 2, func(_ *env, a []any) (any, error) {
			s, err := strArgs(name, a)
			if err != nil {
				return nil, err
			}
			h, n := s[0], s[1]
			if ci {
				h, n = asciiLower(h), asciiLower(n)
			}
			return uint64(strings.Index(h, n) + 1), nil
		})
	}
	pos("position", false)
	pos("positionCaseInsensitive", true)
	scalarFuncs["locate"] = scalarFuncs["position"]
	reg("startsWith", 2, 2, func(_ *env, a []any) (any, error) {
		s, err := strArgs("startsWith", a)
		if err != nil {
			return nil, err
		}
		return boolVal(strings.HasPrefix(s[0], s[1])), nil
	})
	reg("endsWith", 2, 2, func(_ *env, a []any) (any, error) {
		s, err := strArgs("endsWith", a)
		if err != nil {
			return nil, err
		}
		return boolVal(strings.HasSuffix(s[0], s[1])), nil
	})
	reg("reverse", 1, 1, func(_ *env, a []any) (any, error) {
		switch x := a[0].(type) {
		case []any:
			out := emptyArrayOf(elemHint(x))
			for i := len(x) - 1; i >= 0; i-- {
				out = append(out, x[i])
			}
			return out, nil
		}
		s, err := strArg("reverse", a[0])
		if err != nil {
			return nil, err
		}
		b := []byte(s)
		for i, j := 0, len(b)-1; i < j; i, j = i+1, j-1 {
			b[i], b[j] = b[j], b[i]
		}
		return string(b), nil
	})
	trim := func(name string, left, right bool) {
		reg(name, 1, 1, func(_ *env, a []any) (any, error) {
			s, err := strArg(name, a[0])
			if err != nil {
				return nil, err
			}
			if left {
				s = strings.TrimLeft(s, " ")
			}
			if right {
				s = strings.TrimRight(s, " ")
			}
			return s, nil
		})
	}
	trim("trimBoth", true, true)
	trim("trimLeft", true, false)
	trim("trimRight", false, true)
	scalarFuncs["trim"] = scalarFuncs["trimBoth"]
	scalarFuncs["ltrim"] = scalarFuncs["trimLeft"]
	scalarFuncs["rtrim"] = scalarFuncs["trimRight"]

	reg("splitByChar", 2, 3, func(_ *env, a []any) (any, error) {
		if len(a) == 3 {
			return nil, unsupportedf("splitByChar with max_substrings")
		}
		s, err := strArgs("splitByChar", a)
		if err != nil {
			return nil, err
		}
		if len(s[0]) != 1 {
			return nil, badArgf("illegal separator for function splitByChar: must be exactly one byte")
		}
		return strArray(strings.Split(s[1], s[0])), nil
	})
	reg("splitByString", 2, 3, func(_ *env, a []any) (any, error) {
		if len(a) == 3 {
			return nil, unsupportedf("splitByString with max_substrings")
		}
		s, err := strArgs("splitByString", a)
		if err != nil {
			return nil, err
		}
		if s[0] == "" {
			// empty separator: split into bytes
			parts := make([]string, len(s[1]))
			for i := range parts {
				parts[i] = s[1][i : i+1]
			}
			return strArray(parts), nil
		}
		return strArray(strings.Split(s[1], s[0])), nil
	})
	reg("arrayStringConcat", 1, 2, func(_ *env, a []any) (any, error) {
		arr, ok := a[0].([]any)
		if !ok {
			return nil, typeErrf("first argument of arrayStringConcat must be an array")
		}
		sep := ""
		if len(a) == 2 {
			var err error
			if sep, err = strArg("arrayStringConcat", a[1]); err != nil {
				return nil, err
			}
		}
		var parts []string
		for _, v := range arr {
			if v == nil {
				continue // NULL elements are skipped
			}
			s, ok := asString(v)
			if !ok {
				return nil, typeErrf("arrayStringConcat needs an array of strings, got element %s", typeNameOf(v))
			}
			parts = append(parts, s)
		}
		return strings.Join(parts, sep), nil
	})
	reg("hex", 1, 1, func(_ *env, a []any) (any, error) {
		if s, ok := asString(a[0]); ok {
			return strings.ToUpper(hex.EncodeToString([]byte(s))), nil
		}
		k, ok := kindOf(a[0])
		if !ok || !k.isInt {
			return nil, unsupportedf("hex(%s)", typeNameOf(a[0]))
		}
		bits, _ := toBits(a[0])
		bits = truncBits(bits, k.size)
		s := strings.ToUpper(strconv.FormatUint(bits, 16))
		if len(s)%2 == 1 {
			s = "0" + s
		}
		return s, nil
	})
	reg("unhex", 1, 1, func(_ *env, a []any) (any, error) {
		s, err := strArg("unhex", a[0])
		if err != nil {
			return nil, err
		}
		for i := 0; i < len(s); i++ {
			if !isHexDigit(s[i]) {
				return nil, unsupportedf("unhex of a string with non-hex characters (implementation defined in ClickHouse)")
			}
		}
		if len(s)%2 == 1 {
			s = "0" + s
		}
		b, _ := hex.DecodeString(s)
		return string(b), nil
	})
	regNull("format", 1, -1, func(_ *env, a []any) (any, error) {
		for _, v := range a {
			if v == nil {
				return nil, nil
			}
		}
		pattern, err := strArg("format", a[0])
		if err != nil {
			return nil, err
		}
		args := make([]string, len(a)-1)
		for i, v := range a[1:] {
			s, ok := asString(v)
			if !ok {
				// newer ClickHouse versions stringify any argument
				if s, err = toStringValue(v); err != nil {
					return nil, err
				}
			}
			args[i] = s
		}
		return formatPattern(pattern, args)
	})
}

func asciiLower(s string) string {
	b := []byte(s)
	for i, c := range b {
		if c >= 'A' && c <= 'Z' {
			b[i] = c + 32
		}
	}
	return string(b)
}

// formatPattern implements format(pattern, args...): "{}" takes the next
// argument, "{N}" the N-th (0-based); the two styles cannot be mixed; "{{" and
// "}}" are literal braces.
func formatPattern(p string, args []string) (string, error) {
	var b strings.Builder
	next := 0
	mode := 0 // 1: sequential, 2: indexed
	for i := 0; i < len(p); i++ {
		c := p[i]
		switch c {
		case '{':
			if i+1 < len(p) && p[i+1] == '{' {
				b.WriteByte('{')
				i++
				continue
			}
			j := strings.IndexByte(p[i:], '}')
			if j < 0 {
				return "", badArgf("format: unbalanced { in %q", p)
			}
			inner := p[i+1 : i+j]
			idx := 0
			if inner == "" {
				if mode == 2 {
					return "", badArgf("format: cannot mix {} and {N}")
				}
				mode = 1
				idx = next
				next++
			} else {
				if mode == 1 {
					return "", badArgf("format: cannot mix {} and {N}")
				}
				mode = 2
				n, err := strconv.Atoi(inner)
				if err != nil || n < 0 || !isAllDigits(inner) {
					return "", badArgf("format: bad substitution {%s}", inner)
				}
				idx = n
			}
			if idx >= len(args) {
				return "", badArgf("format: argument %d is out of range", idx)
			}
			b.WriteString(args[idx])
			i += j
		case '}':
			if i+1 < len(p) && p[i+1] == '}' {
				b.WriteByte('}')
				i++
				continue
			}
			return "", badArgf("format: unbalanced } in %q", p)
		default:
			b.WriteByte(c)
		}
	}
	return b.String(), nil
}

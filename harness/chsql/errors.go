// Package chsql is a small reference interpreter for the subset of ClickHouse
// SQL that the qryn reader emits. It is meant to stand in for a ClickHouse
// server in tests: correctness and faithfulness matter, speed does not.
//
// Everything that is not implemented returns an error wrapping ErrUnsupported;
// the interpreter never guesses.
package chsql

import (
	"errors"
	"fmt"
)

var (
	// ErrUnsupported is wrapped by every error that means "chsql does not
	// implement this construct / function".
	ErrUnsupported = errors.New("chsql: unsupported")
	// ErrType is wrapped by errors that ClickHouse itself would raise because of
	// illegal argument types (e.g. comparing a String column with a number).
	ErrType = errors.New("chsql: illegal types")
	// ErrSyntax is wrapped by lexer / parser errors.
	ErrSyntax = errors.New("chsql: syntax error")
	// ErrUnknownIdentifier: missing column / table / function argument.
	ErrUnknownIdentifier = errors.New("chsql: unknown identifier")
	// ErrBadArguments: wrong number of arguments, bad constant argument, parse
	// failure of a value (ClickHouse would throw as well).
	ErrBadArguments = errors.New("chsql: bad arguments")
)

func unsupportedf(format string, a ...any) error {
	return fmt.Errorf("%w: %s", ErrUnsupported, fmt.Sprintf(format, a...))
}
func typeErrf(format string, a ...any) error {
	return fmt.Errorf("%w: %s", ErrType, fmt.Sprintf(format, a...))
}
func syntaxErrf(pos int, format string, a ...any) error {
	return fmt.Errorf("%w at position %d: %s", ErrSyntax, pos, fmt.Sprintf(format, a...))
}
func unknownf(format string, a ...any) error {
	return fmt.Errorf("%w: %s", ErrUnknownIdentifier, fmt.Sprintf(format, a...))
}
func badArgf(format string, a ...any) error {
	return fmt.Errorf("%w: %s", ErrBadArguments, fmt.Sprintf(format, a...))
}

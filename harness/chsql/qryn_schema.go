package chsql

// NewQrynDB creates an empty database with the tables of a qryn installation
// (column lists from /repo/ctrl/qryn/sql/{log,traces,profiles}.sql, after all
// ALTERs) and the `_dist` aliases of the Distributed tables, which read the
// same rows as the local ones.
func NewQrynDB() *DB {
	db := NewDB()
	for _, t := range QrynTables {
		db.CreateTable(t.Name, t.Cols)
		db.Alias(t.Name+"_dist", t.Name)
	}
	return db
}

// QrynTable is a table definition of the qryn schema.
type QrynTable struct {
	Name string
	Cols []Column
}

// QrynTables lists the tables the qryn reader queries.
var QrynTables = []QrynTable{
	{"time_series", []Column{
		{"date", "Date"}, {"fingerprint", "UInt64"}, {"labels", "String"}, {"name", "String"}, {"type", "UInt8"}}},
	{"samples_v3", []Column{
		{"fingerprint", "UInt64"}, {"timestamp_ns", "Int64"}, {"value", "Float64"}, {"string", "String"}, {"type", "UInt8"}}},
	{"settings", []Column{
		{"fingerprint", "UInt64"}, {"type", "String"}, {"name", "String"}, {"value", "String"}, {"inserted_at", "DateTime64(9, 'UTC')"}}},
	{"time_series_gin", []Column{
		{"date", "Date"}, {"key", "String"}, {"val", "String"}, {"fingerprint", "UInt64"}, {"type", "UInt8"}}},
	{"metrics_15s", []Column{
		{"fingerprint", "UInt64"}, {"timestamp_ns", "Int64"},
		{"last", "AggregateFunction(argMax, Float64, Int64)"},
		{"max", "SimpleAggregateFunction(max, Float64)"},
		{"min", "SimpleAggregateFunction(min, Float64)"},
		{"count", "AggregateFunction(count)"},
		{"sum", "SimpleAggregateFunction(sum, Float64)"},
		{"bytes", "SimpleAggregateFunction(sum, Float64)"},
		{"type", "UInt8"}}},
	{"tempo_traces", []Column{
		{"oid", "String"}, {"trace_id", "FixedString(16)"}, {"span_id", "FixedString(8)"}, {"parent_id", "String"},
		{"name", "String"}, {"timestamp_ns", "Int64"}, {"duration_ns", "Int64"}, {"service_name", "String"},
		{"payload_type", "Int8"}, {"payload", "String"}}},
	{"tempo_traces_attrs_gin", []Column{
		{"oid", "String"}, {"date", "Date"}, {"key", "String"}, {"val", "String"},
		{"trace_id", "FixedString(16)"}, {"span_id", "FixedString(8)"}, {"timestamp_ns", "Int64"}, {"duration", "Int64"}}},
	{"tempo_traces_kv", []Column{
		{"oid", "String"}, {"date", "Date"}, {"key", "String"}, {"val_id", "UInt64"}, {"val", "String"}}},
	{"profiles", []Column{
		{"timestamp_ns", "UInt64"}, {"fingerprint", "UInt64"}, {"type_id", "LowCardinality(String)"},
		{"sample_types_units", "Array(Tuple(String, String))"}, {"service_name", "LowCardinality(String)"},
		{"duration_ns", "UInt64"}, {"payload_type", "LowCardinality(String)"}, {"payload", "String"},
		{"values_agg", "Array(Tuple(String, Int64, Int32))"},
		{"tree", "Array(Tuple(UInt64, UInt64, UInt64, Array(Tuple(String, Int64, Int64))))"},
		{"functions", "Array(Tuple(UInt64, String))"}}},
	{"profiles_series", []Column{
		{"date", "Date"}, {"type_id", "LowCardinality(String)"}, {"sample_types_units", "Array(Tuple(String, String))"},
		{"service_name", "LowCardinality(String)"}, {"fingerprint", "UInt64"}, {"tags", "Array(Tuple(String, String))"}}},
	{"profiles_series_gin", []Column{
		{"date", "Date"}, {"key", "String"}, {"val", "String"}, {"type_id", "LowCardinality(String)"},
		{"sample_types_units", "Array(Tuple(String, String))"}, {"service_name", "LowCardinality(String)"}, {"fingerprint", "UInt64"}}},
	{"profiles_series_keys", []Column{
		{"date", "Date"}, {"key", "String"}, {"val", "String"}, {"val_id", "UInt64"}}},
}

package chsql

import (
	"strings"
)

// scalarFn is an ordinary function: all arguments are evaluated first. Unless
// handlesNull is set, a NULL argument makes the result NULL (ClickHouse's
// "default implementation for NULLs").
type scalarFn struct {
	fn          func(e *env, args []any) (any, error)
	minArgs     int
	maxArgs     int // -1: variadic
	handlesNull bool
}

var scalarFuncs = map[string]*scalarFn{}

// case-insensitive function names (ClickHouse registers a few functions case
// insensitively for SQL compatibility); value is the canonical name.
var caseInsensitive = map[string]string{}

func reg(name string, minArgs, maxArgs int, fn func(e *env, args []any) (any, error)) {
	scalarFuncs[name] = &scalarFn{fn: fn, minArgs: minArgs, maxArgs: maxArgs}
}
func regNull(name string, minArgs, maxArgs int, fn func(e *env, args []any) (any, error)) {
	scalarFuncs[name] = &scalarFn{fn: fn, minArgs: minArgs, maxArgs: maxArgs, handlesNull: true}
}
func regCI(names ...string) {
	for _, n := range names {
		caseInsensitive[strings.ToLower(n)] = n
	}
}

func init() {
	regCI("count", "sum", "min", "max", "avg", "any", "now", "today", "lower", "upper", "length", "concat",
		"substring", "coalesce", "ifNull", "nullIf", "abs", "floor", "ceil", "round", "if", "toDate", "hex", "unhex",
		"position", "replace", "reverse", "format", "greatest", "least", "sqrt", "exp", "log", "ln", "pow", "power",
		"mod", "isNull", "yesterday", "lcase", "ucase", "tuple", "trim", "ltrim", "rtrim", "not")
}

func resolveFuncName(name string) string {
	if _, ok := scalarFuncs[name]; ok {
		return name
	}
	if _, ok := lookupAggregate(name); ok {
		return name
	}
	if c, ok := caseInsensitive[strings.ToLower(name)]; ok {
		return c
	}
	return name
}

func (e *env) evalArgs(args []Expr) ([]any, error) {
	out := make([]any, len(args))
	for i, a := range args {
		v, err := e.eval(a)
		if err != nil {
			return nil, err
		}
		out[i] = v
	}
	return out, nil
}

func (e *env) evalCall(f *FuncCall) (any, error) {
	name := resolveFuncName(f.Name)

	// ---- aggregate functions ----
	if spec, ok := lookupAggregate(name); ok {
		return e.evalAggregate(f, name, spec)
	}
	if f.Params != nil {
		return nil, unsupportedf("parametric function %s(...)(...)", f.Name)
	}
	if f.Distinct {
		return nil, unsupportedf("DISTINCT in a call of %s", f.Name)
	}

	// ---- special forms (lazy evaluation, lambdas, sets) ----
	switch name {
	case "and", "or":
		return e.evalAndOr(name, f.Args)
	case "if":
		if len(f.Args) != 3 {
			return nil, badArgf("if takes 3 arguments")
		}
		c, err := e.eval(f.Args[0])
		if err != nil {
			return nil, err
		}
		// short_circuit_function_evaluation = 'enable': only the taken branch runs
		t, err := truthy(c)
		if err != nil {
			return nil, err
		}
		taken, other := f.Args[1], f.Args[2]
		if !t {
			taken, other = other, taken
		}
		if err := e.staticCheck(other); err != nil {
			return nil, err
		}
		return e.eval(taken)
	case "multiIf":
		if len(f.Args) < 3 || len(f.Args)%2 == 0 {
			return nil, badArgf("multiIf takes an odd number (>= 3) of arguments")
		}
		for i := 0; i+1 < len(f.Args); i += 2 {
			c, err := e.eval(f.Args[i])
			if err != nil {
				return nil, err
			}
			t, err := truthy(c)
			if err != nil {
				return nil, err
			}
			if t {
				for _, rest := range f.Args[i+2:] {
					if err := e.staticCheck(rest); err != nil {
						return nil, err
					}
				}
				return e.eval(f.Args[i+1])
			}
			if err := e.staticCheck(f.Args[i+1]); err != nil {
				return nil, err
			}
		}
		return e.eval(f.Args[len(f.Args)-1])
	case "in", "notIn", "globalIn", "globalNotIn":
		return e.evalIn(f, name == "notIn" || name == "globalNotIn")
	case "equals", "notEquals", "less", "greater", "lessOrEquals", "greaterOrEquals":
		return e.evalComparison(f, name)
	case "arrayElement":
		if len(f.Args) == 2 {
			if l, ok := f.Args[1].(*Literal); ok {
				if _, u, _, isInt := intParts(l.Val); isInt && u == 0 {
					return nil, badArgf("array indices are 1-based")
				}
			}
		}
	case "arrayJoin":
		return nil, unsupportedf("arrayJoin() function")
	case "ifNull":
		if len(f.Args) != 2 {
			return nil, badArgf("ifNull takes 2 arguments")
		}
		v, err := e.eval(f.Args[0])
		if err != nil || v != nil {
			return v, err
		}
		return e.eval(f.Args[1])
	case "coalesce":
		for _, a := range f.Args {
			v, err := e.eval(a)
			if err != nil || v != nil {
				return v, err
			}
		}
		return nil, nil
	}
	if hf, ok := higherOrder[name]; ok {
		return e.evalHigherOrder(name, hf, f)
	}

	fn, ok := scalarFuncs[name]
	if !ok {
		return nil, unsupportedf("function %s", f.Name)
	}
	if len(f.Args) < fn.minArgs || (fn.maxArgs >= 0 && len(f.Args) > fn.maxArgs) {
		return nil, badArgf("wrong number of arguments (%d) for function %s", len(f.Args), f.Name)
	}
	args, err := e.evalArgs(f.Args)
	if err != nil {
		return nil, err
	}
	for _, a := range args {
		if _, isLambda := a.(*lambdaVal); isLambda {
			return nil, typeErrf("function %s does not take a lambda", f.Name)
		}
	}
	if !fn.handlesNull {
		for _, a := range args {
			if a == nil {
				return nil, nil
			}
		}
	}
	return fn.fn(e, args)
}

// staticCheck evaluates an expression that short circuit evaluation skips, but
// only while the sample row is processed and only to report the errors
// ClickHouse finds at analysis time (types, unknown identifiers / functions).
func (e *env) staticCheck(x Expr) error {
	if !e.b.static {
		return nil
	}
	if _, err := e.eval(x); err != nil && isStaticErr(err) {
		return err
	}
	return nil
}

// staticCheckLogical additionally requires a numeric (or NULL) operand.
func (e *env) staticCheckLogical(x Expr, fn string) error {
	if !e.b.static {
		return nil
	}
	v, err := e.eval(x)
	if err != nil {
		if isStaticErr(err) {
			return err
		}
		return nil
	}
	if v != nil {
		if _, ok := kindOf(v); !ok {
			return typeErrf("illegal type %s of argument of function %s", typeNameOf(v), fn)
		}
	}
	return nil
}

// evalAndOr implements three-valued logic with short circuit.
func (e *env) evalAndOr(name string, args []Expr) (any, error) {
	if len(args) < 2 {
		return nil, badArgf("%s takes at least 2 arguments", name)
	}
	isAnd := name == "and"
	sawNull := false
	for i, a := range args {
		v, err := e.eval(a)
		if err != nil {
			return nil, err
		}
		if v == nil {
			sawNull = true
			continue
		}
		if _, ok := kindOf(v); !ok {
			return nil, typeErrf("illegal type %s of argument of function %s", typeNameOf(v), name)
		}
		t, _ := truthy(v)
		if (isAnd && !t) || (!isAnd && t) {
			// short circuit; operand types are still checked statically
			for _, rest := range args[i+1:] {
				if err := e.staticCheckLogical(rest, name); err != nil {
					return nil, err
				}
			}
			return boolVal(!isAnd), nil
		}
	}
	if sawNull {
		return nil, nil
	}
	if isAnd {
		return uint8(1), nil
	}
	return uint8(0), nil
}

// ---------------------------------------------------------------------------
// IN
// ---------------------------------------------------------------------------

type inSet struct {
	keys     map[string]bool // exact keys
	trimmed  map[string]bool // keys with trailing zero bytes of strings removed
	hasFixed bool            // some element is a FixedString
	arity    int             // 1: scalars, n > 1: tuples
	first    any             // first element, for type compatibility checks
	hasNull  bool
}

func newInSet(arity int) *inSet {
	return &inSet{keys: map[string]bool{}, trimmed: map[string]bool{}, arity: arity}
}

// inKey renders a set key. With trim, strings are compared zero-padded, which
// is how ClickHouse compares FixedString(N) with String values.
func inKey(v any, trim bool) string {
	switch x := v.(type) {
	case FixedString:
		if trim {
			return hashKey(trimZeros(string(x)))
		}
		return hashKey(string(x))
	case string:
		if trim {
			return hashKey(trimZeros(x))
		}
		return hashKey(x)
	case Tuple:
		var b strings.Builder
		b.WriteString("(")
		for _, el := range x {
			b.WriteString(inKey(el, trim))
		}
		b.WriteString(")")
		return b.String()
	}
	return hashKey(v)
}

func hasFixedString(v any) bool {
	switch x := v.(type) {
	case FixedString:
		return true
	case Tuple:
		for _, el := range x {
			if hasFixedString(el) {
				return true
			}
		}
	}
	return false
}

func (s *inSet) add(v any) {
	if v == nil {
		s.hasNull = true
		return
	}
	if s.first == nil {
		s.first = v
	}
	if hasFixedString(v) {
		s.hasFixed = true
	}
	s.keys[inKey(v, false)] = true
	s.trimmed[inKey(v, true)] = true
}

func (s *inSet) contains(v any) bool {
	if s.hasFixed || hasFixedString(v) {
		return s.trimmed[inKey(v, true)]
	}
	return s.keys[inKey(v, false)]
}

func (e *env) evalIn(f *FuncCall, negative bool) (any, error) {
	if len(f.Args) != 2 {
		return nil, badArgf("IN takes 2 arguments")
	}
	left, err := e.eval(f.Args[0])
	if err != nil {
		return nil, err
	}
	set, err := e.buildSet(f.Args[1], left)
	if err != nil {
		return nil, err
	}
	res := func(b bool) any {
		if b != negative {
			return uint8(1)
		}
		return uint8(0)
	}
	// transform_null_in = 0: a NULL on the left is never "in" the set
	// (Set::executeImplCase: vec_res[i] = negative).
	if left == nil {
		return res(false), nil
	}
	if lt, ok := left.(Tuple); ok {
		for _, el := range lt {
			if el == nil {
				return res(false), nil
			}
		}
		if set.arity != len(lt) {
			return nil, typeErrf("IN: tuple of %d elements on the left, set of %d-element rows on the right", len(lt), set.arity)
		}
	} else if set.arity != 1 {
		return nil, typeErrf("IN: scalar on the left, %d columns on the right", set.arity)
	}
	if set.first != nil {
		if _, err := compareValues(zeroOrSame(left), zeroOrSame(set.first)); err != nil {
			return nil, typeErrf("IN: types of the left side (%s) and of the set (%s) are incompatible", typeNameOf(left), typeNameOf(set.first))
		}
	}
	return res(set.contains(left)), nil
}

func zeroOrSame(v any) any {
	// comparisons of containers of different lengths are fine; use the value itself
	return v
}

// buildSet evaluates the right-hand side of IN.
func (e *env) buildSet(rhs Expr, left any) (*inSet, error) {
	q := e.b.q
	fromRelation := func(rel *relation) *inSet {
		s := newInSet(len(rel.cols))
		for _, r := range rel.rows {
			if len(r) == 1 {
				s.add(r[0])
			} else {
				s.add(Tuple(r))
			}
		}
		if s.first == nil && rel.sample != nil {
			// keep a representative element for the type check even when empty
			if len(rel.sample) == 1 {
				s.first = rel.sample[0]
			} else {
				s.first = Tuple(rel.sample)
			}
		}
		return s
	}
	switch n := rhs.(type) {
	case *Subquery:
		if s, ok := q.sets[n.Query]; ok {
			return s, nil
		}
		rel, err := q.execCached(n.Query, e.b.scope)
		if err != nil {
			return nil, err
		}
		s := fromRelation(rel)
		q.sets[n.Query] = s
		return s, nil
	case *Ident:
		// a bare identifier on the right of IN is a table (or CTE) name
		te := &TableExpr{Table: n.Parts[len(n.Parts)-1]}
		if len(n.Parts) > 1 {
			te.Database = n.Parts[0]
		}
		if len(n.Parts) == 1 {
			if u, _ := e.b.scope.lookup(te.Table); u != nil {
				if s, ok := q.sets[u]; ok {
					return s, nil
				}
				rel, _, err := q.tableRelation(te, e.b.scope)
				if err != nil {
					return nil, err
				}
				s := fromRelation(rel)
				q.sets[u] = s
				return s, nil
			}
		}
		if s, ok := q.sets[rhs]; ok {
			return s, nil
		}
		rel, tbl, err := q.tableRelation(te, e.b.scope)
		if err != nil {
			return nil, err
		}
		if tbl != nil {
			q.recordFullScan(tbl)
		}
		set := fromRelation(rel)
		q.sets[rhs] = set
		return set, nil
	}
	// explicit list / constant expression
	if s, ok := q.sets[rhs]; ok {
		return s, nil
	}
	ce := e.b.constEnv()
	ce.vars = nil
	var elems []any
	switch n := rhs.(type) {
	case *TupleLit:
		for _, el := range n.Elems {
			v, err := ce.eval(el)
			if err != nil {
				return nil, err
			}
			elems = append(elems, v)
		}
		if _, leftIsTuple := left.(Tuple); leftIsTuple || isTupleExpr(left) {
			allTuples := len(elems) > 0
			for _, el := range elems {
				if _, ok := el.(Tuple); !ok {
					allTuples = false
				}
			}
			if !allTuples {
				// (a, b) IN (x, y): the right side is one tuple
				elems = []any{Tuple(elems)}
			}
		}
	default:
		v, err := ce.eval(rhs)
		if err != nil {
			return nil, err
		}
		if arr, ok := v.([]any); ok {
			elems = arr
		} else {
			elems = []any{v}
		}
	}
	// constant strings in the list are parsed as the type of the left side
	// (Date, DateTime, numbers), like in comparisons
	switch left.(type) {
	case nil, string, FixedString, Tuple, []any, *Map:
	default:
		for i, el := range elems {
			if str, ok := el.(string); ok {
				c, err := coerceConstString(str, left)
				if err != nil {
					return nil, err
				}
				elems[i] = c
			}
		}
	}
	arity := 1
	for _, el := range elems {
		if t, ok := el.(Tuple); ok {
			if _, leftIsTuple := left.(Tuple); leftIsTuple {
				arity = len(t)
			}
		}
	}
	s := newInSet(arity)
	for _, el := range elems {
		s.add(el)
	}
	q.sets[rhs] = s
	return s, nil
}

func isTupleExpr(v any) bool { _, ok := v.(Tuple); return ok }

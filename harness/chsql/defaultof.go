package chsql

// DefaultOf returns the default value of a ClickHouse type given by name (used when an INSERT omits a column).
// It panics on an unparsable or unsupported type name.
func DefaultOf(typeName string) any {
	t, err := ParseType(typeName)
	if err != nil {
		panic(err)
	}
	v, err := defaultValue(t)
	if err != nil {
		panic(err)
	}
	return v
}

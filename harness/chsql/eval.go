package chsql

import (
	"errors"
	"sort"
	"strings"
)

// ---------------------------------------------------------------------------
// Notes on the execution model
//
//   - Typing is dynamic: every value carries its exact ClickHouse type through
//     its Go type (uint8 ... float64, string, Date, []any, Tuple, *Map). To know
//     the column types of an EMPTY relation (needed for the defaults of
//     unmatched LEFT JOIN rows, for aggregates over no rows, for Result.Types)
//     every relation also carries one "sample" row of representative values;
//     the sample of a SELECT is obtained by running its projection over the
//     sample row of its source. This also makes type errors and unsupported
//     functions surface even when the tables are empty, like ClickHouse's
//     static analysis does.
//   - Row order: scans keep insertion order; GROUP BY emits groups in order of
//     first appearance; DISTINCT keeps first occurrences; sorting is stable.
//     ClickHouse guarantees none of this - callers must not depend on the
//     relative order of rows that the query does not order.
// ---------------------------------------------------------------------------

type relCol struct {
	name string
	qual string // table alias usable as qualifier ("" for computed columns)
}

type relation struct {
	cols   []relCol
	rows   [][]any
	sample []any // one representative value per column (never used as data)
	// nullable[i]: column i is statically Nullable (declared Nullable(...) or
	// computed by a syntactically nullable expression, see staticNullable).
	// May be shorter than cols (missing = not nullable).
	nullable []bool
}

func (r *relation) isNullable(i int) bool { return i >= 0 && i < len(r.nullable) && r.nullable[i] }

// padNullable returns the flags padded to the number of columns.
func (r *relation) padNullable() []bool {
	out := make([]bool, len(r.cols))
	copy(out, r.nullable)
	return out
}

func (r *relation) typeName(i int) string {
	for _, row := range r.rows {
		if row[i] != nil {
			n := typeNameOf(sampleMerge(r, i, row[i]))
			if r.isNullable(i) {
				return "Nullable(" + n + ")"
			}
			return n
		}
	}
	if r.isNullable(i) && r.sample != nil && i < len(r.sample) && r.sample[i] != nil {
		return "Nullable(" + typeNameOf(r.sample[i]) + ")"
	}
	if r.sample != nil && i < len(r.sample) && r.sample[i] != nil {
		if len(r.rows) > 0 {
			return "Nullable(" + typeNameOf(r.sample[i]) + ")"
		}
		return typeNameOf(r.sample[i])
	}
	return "Nullable(Nothing)"
}

// sampleMerge prefers the sample for the type of empty containers.
func sampleMerge(r *relation, i int, v any) any {
	switch x := v.(type) {
	case []any:
		if len(x) == 0 && r.sample != nil && i < len(r.sample) {
			if s, ok := r.sample[i].([]any); ok && len(s) > 0 {
				return s
			}
		}
	case *Map:
		if len(x.Keys) == 0 && r.sample != nil && i < len(r.sample) {
			if s, ok := r.sample[i].(*Map); ok && len(s.Keys) > 0 {
				return s
			}
		}
	}
	return v
}

// withQualifier returns a shallow copy whose columns are all qualified by q
// (what `FROM x AS q` does).
func (r *relation) withQualifier(q string) *relation {
	out := &relation{rows: r.rows, sample: r.sample, nullable: r.nullable}
	out.cols = make([]relCol, len(r.cols))
	for i, c := range r.cols {
		out.cols[i] = relCol{name: c.name, qual: q}
	}
	return out
}

type cteScope struct {
	parent *cteScope
	defs   map[string]*SelectUnion
	// scalar WITH aliases visible in nested blocks
	exprs map[string]Expr
}

func (s *cteScope) lookup(name string) (*SelectUnion, *cteScope) {
	for c := s; c != nil; c = c.parent {
		if u, ok := c.defs[name]; ok {
			return u, c
		}
	}
	return nil, nil
}

type queryCtx struct {
	db    *DB
	cache map[*SelectUnion]*relation
	sets  map[any]*inSet
	scans []ScanInfo
}

// ---------------------------------------------------------------------------
// set operations
// ---------------------------------------------------------------------------

func (q *queryCtx) execQueryNode(n QueryNode, sc *cteScope) (*relation, error) {
	switch x := n.(type) {
	case *Select:
		return q.execSelect(x, sc)
	case *SelectUnion:
		return q.execUnion(x, sc)
	}
	return nil, unsupportedf("query node %T", n)
}

func (q *queryCtx) execUnion(u *SelectUnion, sc *cteScope) (*relation, error) {
	acc, err := q.execQueryNode(u.Selects[0], sc)
	if err != nil {
		return nil, err
	}
	for i, op := range u.Ops {
		next, err := q.execQueryNode(u.Selects[i+1], sc)
		if err != nil {
			return nil, err
		}
		if len(next.cols) != len(acc.cols) {
			return nil, typeErrf("%s: different number of columns (%d and %d)", op, len(acc.cols), len(next.cols))
		}
		// type compatibility of the parts is checked on the samples
		for c := range acc.cols {
			if acc.sample != nil && next.sample != nil && acc.sample[c] != nil && next.sample[c] != nil {
				if _, err := compareValues(zeroLike(acc.sample[c]), zeroLike(next.sample[c])); err != nil {
					return nil, typeErrf("%s: column %d: no common type for %s and %s", op, c+1, typeNameOf(acc.sample[c]), typeNameOf(next.sample[c]))
				}
			}
		}
		out := &relation{cols: acc.cols, sample: acc.sample, nullable: acc.padNullable()}
		for c, n := range next.padNullable() {
			out.nullable[c] = out.nullable[c] || n
		}
		switch op {
		case OpUnionAll:
			out.rows = append(append([][]any{}, acc.rows...), next.rows...)
		case OpUnionDistinct:
			seen := map[string]bool{}
			for _, r := range append(append([][]any{}, acc.rows...), next.rows...) {
				k := hashKey(Tuple(r))
				if !seen[k] {
					seen[k] = true
					out.rows = append(out.rows, r)
				}
			}
		case OpIntersect, OpExcept:
			// INTERSECT / EXCEPT: rows of the left side that are (not) present in
			// the right side; duplicates of the left side are preserved (ClickHouse
			// implements both by a set built from the right side).
			right := map[string]bool{}
			for _, r := range next.rows {
				right[hashKey(Tuple(r))] = true
			}
			for _, r := range acc.rows {
				if right[hashKey(Tuple(r))] == (op == OpIntersect) {
					out.rows = append(out.rows, r)
				}
			}
		default:
			return nil, unsupportedf("set operation %s", op)
		}
		acc = out
	}
	return acc, nil
}

// ---------------------------------------------------------------------------
// SELECT
// ---------------------------------------------------------------------------

// outRow is a projected row that still remembers where it came from so that
// ORDER BY / LIMIT BY expressions can be evaluated in the source context.
type outRow struct {
	vals []any
	keys []any // ORDER BY keys
	by   []any // LIMIT BY keys
}

func (q *queryCtx) execSelect(s *Select, parent *cteScope) (*relation, error) {
	sc := &cteScope{parent: parent, defs: map[string]*SelectUnion{}, exprs: map[string]Expr{}}
	for _, w := range s.With {
		if w.Subquery != nil {
			sc.defs[w.Name] = w.Subquery
		} else {
			sc.exprs[w.Name] = w.Expr
		}
	}
	// 1. source relation
	src, scan, err := q.buildSource(s, sc)
	if err != nil {
		return nil, err
	}

	// 2. alias table of the block (aliases may be declared anywhere in it)
	blk := &block{q: q, sel: s, scope: sc, aliases: map[string]Expr{}}
	if err := blk.collectAliases(); err != nil {
		return nil, err
	}
	blk.aggregated = len(s.GroupBy) > 0 || blk.anyAggregate()

	// expand * in the select list
	cols, names, err := blk.expandColumns(src)
	if err != nil {
		return nil, err
	}

	// 3. sample row first: static-like checks and column types
	sample, err := blk.project(src, cols, [][]any{src.sample}, true)
	if err != nil {
		return nil, err
	}
	out := &relation{}
	for _, n := range names {
		out.cols = append(out.cols, relCol{name: n})
	}
	if len(sample) > 0 {
		out.sample = sample[0].vals
	} else {
		out.sample = make([]any, len(cols))
	}
	for _, c := range cols {
		out.nullable = append(out.nullable, blk.staticNullable(src, c, nil))
	}

	// 4. the real rows
	rows := src.rows
	if s.Prewhere != nil || s.Where != nil {
		var kept [][]any
		for _, r := range rows {
			ok := true
			for _, cond := range []Expr{s.Prewhere, s.Where} {
				if cond == nil {
					continue
				}
				v, err := blk.rowEnv(src, r).eval(cond)
				if err != nil {
					return nil, err
				}
				t, err := truthy(v)
				if err != nil {
					return nil, err
				}
				if !t {
					ok = false
					break
				}
			}
			if ok {
				kept = append(kept, r)
			}
		}
		rows = kept
	}
	if scan != nil {
		scan.finish(q, rows)
	}
	projected, err := blk.project(src, cols, rows, false)
	if err != nil {
		return nil, err
	}
	// DISTINCT
	if s.Distinct {
		seen := map[string]bool{}
		var d []outRow
		for _, r := range projected {
			k := hashKey(Tuple(r.vals))
			if !seen[k] {
				seen[k] = true
				d = append(d, r)
			}
		}
		projected = d
	}
	// ORDER BY
	if len(s.OrderBy) > 0 {
		var sortErr error
		sort.SliceStable(projected, func(i, j int) bool {
			c, err := compareOrderKeys(s.OrderBy, projected[i].keys, projected[j].keys)
			if err != nil && sortErr == nil {
				sortErr = err
			}
			return c < 0
		})
		if sortErr != nil {
			return nil, sortErr
		}
	}
	// LIMIT BY
	if s.LimitBy != nil {
		lim, off, err := blk.limitOffset(s.LimitBy.Limit, s.LimitBy.Offset)
		if err != nil {
			return nil, err
		}
		counts := map[string]uint64{}
		var kept []outRow
		for _, r := range projected {
			k := hashKey(Tuple(r.by))
			counts[k]++
			if counts[k] > off && counts[k] <= off+lim {
				kept = append(kept, r)
			}
		}
		projected = kept
	}
	// LIMIT / OFFSET
	if s.Limit != nil || s.Offset != nil {
		lim, off, err := blk.limitOffset(s.Limit, s.Offset)
		if err != nil {
			return nil, err
		}
		if off > uint64(len(projected)) {
			off = uint64(len(projected))
		}
		projected = projected[off:]
		if s.Limit != nil && lim < uint64(len(projected)) {
			projected = projected[:lim]
		}
	}
	for _, r := range projected {
		out.rows = append(out.rows, r.vals)
	}
	return out, nil
}

func (b *block) limitOffset(limit, offset Expr) (lim, off uint64, err error) {
	lim = ^uint64(0) >> 1
	get := func(e Expr, what string) (uint64, error) {
		v, err := b.constEnv().eval(e)
		if err != nil {
			return 0, err
		}
		_, u, neg, ok := intParts(v)
		if !ok || neg {
			return 0, badArgf("%s must be a non-negative integer constant, got %v", what, v)
		}
		return u, nil
	}
	if limit != nil {
		if lim, err = get(limit, "LIMIT"); err != nil {
			return
		}
	}
	if offset != nil {
		if off, err = get(offset, "OFFSET"); err != nil {
			return
		}
	}
	return
}

func compareOrderKeys(items []*OrderItem, a, b []any) (int, error) {
	for i, it := range items {
		x, y := a[i], b[i]
		var c int
		switch {
		case x == nil && y == nil:
			c = 0
		case x == nil || y == nil:
			// NULLS LAST by default, regardless of ASC / DESC
			nullsFirst := it.NullsFirst != nil && *it.NullsFirst
			c = 1
			if (x == nil) == nullsFirst {
				c = -1
			}
			if c != 0 {
				return c, nil
			}
		default:
			// NaN: like NULL it goes last for both directions by default
			fx, xIsF := x.(float64)
			fy, yIsF := y.(float64)
			if (xIsF && fx != fx) || (yIsF && fy != fy) {
				xn, yn := xIsF && fx != fx, yIsF && fy != fy
				if xn && yn {
					continue
				}
				nullsFirst := it.NullsFirst != nil && *it.NullsFirst
				c = 1
				if xn == nullsFirst {
					c = -1
				}
				return c, nil
			}
			var err error
			c, err = compareValues(x, y)
			if err != nil {
				return 0, err
			}
			if it.Desc {
				c = -c
			}
		}
		if c != 0 {
			return c, nil
		}
	}
	return 0, nil
}

// truthy converts a WHERE / HAVING / ON / condition value to a boolean: NULL is
// false; the value must be numeric (ClickHouse requires UInt8).
func truthy(v any) (bool, error) {
	if v == nil {
		return false, nil
	}
	if f, ok := v.(float64); ok {
		return f != 0, nil
	}
	if _, u, _, ok := intParts(v); ok {
		return u != 0, nil
	}
	return false, typeErrf("illegal type %s for a condition (must be UInt8)", typeNameOf(v))
}

// ---------------------------------------------------------------------------
// FROM / JOIN
// ---------------------------------------------------------------------------

type scanRec struct {
	table   string
	offered int
	rows    [][]any // table rows, parallel to the relation rows at scan time
	simple  bool    // no JOIN / ARRAY JOIN: WHERE applies directly to the scan
	pre     [][]any // rows admitted by PREWHERE alone (when !simple)
}

func (sr *scanRec) finish(q *queryCtx, admitted [][]any) {
	info := ScanInfo{Table: sr.table, Offered: sr.offered}
	rows := admitted
	if !sr.simple {
		rows = sr.pre
	}
	info.Admitted = len(rows)
	for _, r := range rows {
		out := make([]any, len(r))
		for i, v := range r {
			out[i] = outValue(v)
		}
		info.AdmittedRows = append(info.AdmittedRows, out)
	}
	q.scans = append(q.scans, info)
}

// tableRelation resolves a table expression to a relation.
func (q *queryCtx) tableRelation(te *TableExpr, sc *cteScope) (*relation, *table, error) {
	switch {
	case te.Func != nil:
		return nil, nil, unsupportedf("table function %s()", te.Func.Name)
	case te.Final:
		return nil, nil, unsupportedf("FINAL modifier")
	case te.Subquery != nil:
		rel, err := q.execCached(te.Subquery, sc)
		if err != nil {
			return nil, nil, err
		}
		return rel.withQualifier(te.Alias), nil, nil
	}
	if te.Database == "" {
		if u, defScope := sc.lookup(te.Table); u != nil {
			// a CTE is evaluated in the scope where it was defined
			rel, err := q.execCached(u, defScope)
			if err != nil {
				return nil, nil, err
			}
			return rel.withQualifier(te.Name()), nil, nil
		}
	}
	if strings.EqualFold(te.Database, "system") {
		return nil, nil, unsupportedf("system.%s table", te.Table)
	}
	t, err := q.db.lookupTable(te.Table)
	if err != nil {
		return nil, nil, err
	}
	rel := &relation{rows: t.rows}
	for i, c := range t.cols {
		rel.cols = append(rel.cols, relCol{name: c.Name, qual: te.Name()})
		rel.sample = append(rel.sample, sampleValue(t.types[i]))
		rel.nullable = append(rel.nullable, t.types[i].Name == "Nullable")
	}
	return rel, t, nil
}

// execCached evaluates an uncorrelated subquery / CTE once per statement.
func (q *queryCtx) execCached(u *SelectUnion, sc *cteScope) (*relation, error) {
	if r, ok := q.cache[u]; ok {
		if r == nil {
			return nil, badArgf("recursive CTE reference")
		}
		return r, nil
	}
	q.cache[u] = nil
	r, err := q.execUnion(u, sc)
	if err != nil {
		delete(q.cache, u)
		return nil, err
	}
	q.cache[u] = r
	return r, nil
}

// sampleValue builds a representative (non-empty where possible) value of a type.
func sampleValue(t *Type) any {
	switch t.Name {
	case "Array":
		return []any{sampleValue(t.Args[0])}
	case "Map":
		return &Map{Keys: []any{sampleValue(t.Args[0])}, Vals: []any{sampleValue(t.Args[1])}}
	case "Tuple":
		tp := make(Tuple, len(t.Args))
		for i, a := range t.Args {
			tp[i] = sampleValue(a)
		}
		return tp
	case "Nullable":
		return sampleValue(t.Args[0])
	case "LowCardinality":
		return sampleValue(t.Args[0])
	}
	v, err := defaultValue(t)
	if err != nil {
		return nil
	}
	return v
}

func (q *queryCtx) buildSource(s *Select, sc *cteScope) (*relation, *scanRec, error) {
	if s.From == nil {
		// SELECT without FROM reads one row from system.one
		return &relation{cols: []relCol{{name: "dummy", qual: "system.one"}}, rows: [][]any{{uint8(0)}}, sample: []any{uint8(0)}}, nil, nil
	}
	rel, tbl, err := q.tableRelation(s.From, sc)
	if err != nil {
		return nil, nil, err
	}
	var scan *scanRec
	if tbl != nil {
		scan = &scanRec{table: tbl.name, offered: len(tbl.rows), simple: len(s.Joins) == 0}
		if !scan.simple {
			// rows admitted by PREWHERE alone
			scan.pre = rel.rows
			if s.Prewhere != nil {
				blk := &block{q: q, sel: s, scope: sc, aliases: map[string]Expr{}}
				scan.pre = nil
				for _, r := range rel.rows {
					v, err := blk.rowEnv(rel, r).eval(s.Prewhere)
					if err != nil {
						// PREWHERE may mention joined columns; then it is not a
						// predicate of the bare scan.
						if errors.Is(err, ErrUnknownIdentifier) {
							scan.pre = rel.rows
							break
						}
						return nil, nil, err
					}
					if t, err := truthy(v); err != nil {
						return nil, nil, err
					} else if t {
						scan.pre = append(scan.pre, r)
					}
				}
			}
		}
	}
	for _, j := range s.Joins {
		if j.Array {
			rel, err = q.arrayJoin(s, sc, rel, j)
		} else {
			rel, err = q.tableJoin(s, sc, rel, j)
		}
		if err != nil {
			return nil, nil, err
		}
	}
	return rel, scan, nil
}

func (q *queryCtx) arrayJoin(s *Select, sc *cteScope, left *relation, j *Join) (*relation, error) {
	blk := &block{q: q, sel: s, scope: sc, aliases: map[string]Expr{}}
	out := &relation{cols: append([]relCol{}, left.cols...), nullable: left.padNullable()}
	// target column index for each expression: alias -> new column; bare
	// identifier without alias -> replaces that column
	targets := make([]int, len(j.ArrayList))
	for i, e := range j.ArrayList {
		if a := e.Alias(); a != "" {
			out.cols = append(out.cols, relCol{name: a})
			targets[i] = len(out.cols) - 1
			continue
		}
		id, ok := e.(*Ident)
		if !ok {
			return nil, unsupportedf("ARRAY JOIN of an expression without alias: %s", e.String())
		}
		idx, err := left.find(id.Parts)
		if err != nil {
			return nil, err
		}
		targets[i] = idx
	}
	expand := func(row []any, sampleMode bool) ([][]any, error) {
		arrays := make([][]any, len(j.ArrayList))
		n := -1
		for i, e := range j.ArrayList {
			env := blk.rowEnv(left, row)
			// the alias of the ARRAY JOIN element must not be treated as a block alias
			v, err := env.evalNoAlias(e)
			if err != nil {
				return nil, err
			}
			var arr []any
			switch x := v.(type) {
			case []any:
				arr = x
			case *Map:
				arr = mapPairs(x)
			default:
				return nil, typeErrf("ARRAY JOIN requires an array argument, got %s", typeNameOf(v))
			}
			if n >= 0 && len(arr) != n {
				return nil, badArgf("sizes of ARRAY-JOIN-ed arrays do not match")
			}
			n = len(arr)
			arrays[i] = arr
		}
		var res [][]any
		emit := func(k int, useDefault bool) {
			nr := make([]any, len(out.cols))
			copy(nr, row)
			for i := range j.ArrayList {
				var el any
				if useDefault {
					if len(arrays[i]) > 0 {
						el = zeroLike(arrays[i][0])
					} else if sv, ok := sampleAt(left, out, targets[i], j.ArrayList[i], blk); ok {
						el = zeroLike(sv)
					}
				} else {
					el = arrays[i][k]
				}
				nr[targets[i]] = el
			}
			res = append(res, nr)
		}
		for k := 0; k < n; k++ {
			emit(k, false)
		}
		if n == 0 && (j.ArrayLeft || sampleMode) {
			emit(0, true)
		}
		return res, nil
	}
	for _, r := range left.rows {
		rows, err := expand(r, false)
		if err != nil {
			return nil, err
		}
		out.rows = append(out.rows, rows...)
	}
	if left.sample != nil {
		rows, err := expand(left.sample, true)
		if err != nil {
			if isStaticErr(err) {
				return nil, err
			}
		} else if len(rows) > 0 {
			out.sample = rows[0]
		}
	}
	if out.sample == nil {
		out.sample = make([]any, len(out.cols))
		copy(out.sample, left.sample)
	}
	return out, nil
}

// sampleAt finds a representative element for the i-th ARRAY JOIN target when
// the joined array is empty.
func sampleAt(left, out *relation, target int, e Expr, blk *block) (any, bool) {
	if left.sample == nil {
		return nil, false
	}
	v, err := blk.rowEnv(left, left.sample).evalNoAlias(e)
	if err != nil {
		return nil, false
	}
	if arr, ok := v.([]any); ok && len(arr) > 0 {
		return arr[0], true
	}
	return nil, false
}

func isStaticErr(err error) bool {
	return errors.Is(err, ErrUnsupported) || errors.Is(err, ErrType) || errors.Is(err, ErrUnknownIdentifier) || errors.Is(err, errNotAnAggregate)
}

// recordFullScan reports a base table that is read completely (right side of a
// JOIN, bare table name on the right of IN).
func (q *queryCtx) recordFullScan(t *table) {
	(&scanRec{table: t.name, offered: len(t.rows), simple: true}).finish(q, t.rows)
}

func (q *queryCtx) tableJoin(s *Select, sc *cteScope, left *relation, j *Join) (*relation, error) {
	right, rtbl, err := q.tableRelation(j.Table, sc)
	if err != nil {
		return nil, err
	}
	if rtbl != nil {
		q.recordFullScan(rtbl)
	}
	strict := j.Strictness
	if strict == "" {
		strict = "ALL" // join_default_strictness = ALL
	}
	switch strict {
	case "ALL", "ANY":
	default:
		return nil, unsupportedf("%s JOIN", strict)
	}
	switch j.Kind {
	case "INNER", "LEFT":
	case "CROSS":
		if j.On != nil || j.Using != nil {
			return nil, syntaxErrf(0, "CROSS JOIN with ON/USING")
		}
	default:
		return nil, unsupportedf("%s JOIN", j.Kind)
	}
	out := &relation{cols: append(append([]relCol{}, left.cols...), right.cols...),
		nullable: append(left.padNullable(), right.padNullable()...)}
	nl := len(left.cols)
	// USING columns: equality of same-named columns; the right copies are kept
	// (qualified access still works) but unqualified names resolve to the left.
	var usingL, usingR []int
	for _, name := range j.Using {
		li, err := left.find([]string{name})
		if err != nil {
			return nil, err
		}
		ri, err := right.find([]string{name})
		if err != nil {
			return nil, err
		}
		usingL, usingR = append(usingL, li), append(usingR, ri)
	}
	blk := &block{q: q, sel: s, scope: sc, aliases: map[string]Expr{}}
	matches := func(l, r []any) (bool, error) {
		if j.Kind == "CROSS" {
			return true, nil
		}
		if j.Using != nil {
			for k := range usingL {
				a, b := l[usingL[k]], r[usingR[k]]
				if a == nil || b == nil {
					return false, nil
				}
				c, err := compareValues(a, b)
				if err != nil {
					return false, err
				}
				if c != 0 {
					return false, nil
				}
			}
			return true, nil
		}
		row := make([]any, 0, len(l)+len(r))
		row = append(append(row, l...), r...)
		v, err := blk.rowEnv(out, row).eval(j.On)
		if err != nil {
			return false, err
		}
		return truthy(v)
	}
	// static check of the ON condition on the samples
	if left.sample != nil && right.sample != nil {
		out.sample = append(append([]any{}, left.sample...), right.sample...)
		if _, err := matches(left.sample, right.sample); err != nil && isStaticErr(err) {
			return nil, err
		}
	}
	rightDefault := make([]any, len(right.cols))
	for i := range rightDefault {
		if right.sample != nil {
			rightDefault[i] = zeroLike(right.sample[i])
		}
	}
	// ANY INNER JOIN uses every right row at most once (ClickHouse HashJoin:
	// used_flags.setUsedOnce), and keeps only the first right row per key.
	usedRight := make([]bool, len(right.rows))
	for _, l := range left.rows {
		matched := false
		for ri, r := range right.rows {
			ok, err := matches(l, r)
			if err != nil {
				return nil, err
			}
			if !ok {
				continue
			}
			if strict == "ANY" && j.Kind == "INNER" {
				// only the first right row with this key can ever be used: later
				// right rows with an equal key were not stored in the hash table.
				matched = true
				if !usedRight[ri] {
					usedRight[ri] = true
					out.rows = append(out.rows, append(append(make([]any, 0, nl+len(r)), l...), r...))
				}
				break
			}
			matched = true
			out.rows = append(out.rows, append(append(make([]any, 0, nl+len(r)), l...), r...))
			if strict == "ANY" {
				break
			}
		}
		if !matched && j.Kind == "LEFT" {
			out.rows = append(out.rows, append(append(make([]any, 0, nl+len(rightDefault)), l...), rightDefault...))
		}
	}
	return out, nil
}

// find locates a column by (possibly qualified) name.
func (r *relation) find(parts []string) (int, error) {
	if idx := r.lookup(parts); idx >= 0 {
		return idx, nil
	}
	return -1, unknownf("unknown column %s", strings.Join(parts, "."))
}

func (r *relation) lookup(parts []string) int {
	switch len(parts) {
	case 1:
		for i, c := range r.cols {
			if c.name == parts[0] {
				return i
			}
		}
	case 2:
		for i, c := range r.cols {
			if c.qual == parts[0] && c.name == parts[1] {
				return i
			}
		}
		// a column whose name itself contains a dot
		for i, c := range r.cols {
			if c.name == parts[0]+"."+parts[1] {
				return i
			}
		}
	case 3:
		for i, c := range r.cols {
			if c.qual == parts[1] && c.name == parts[2] {
				return i
			}
		}
	}
	return -1
}

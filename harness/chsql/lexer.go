package chsql

import (
	"strings"
)

// TokKind classifies a lexical token.
type TokKind int

const (
	TokIdent       TokKind = iota // bare word that is not in the keyword list
	TokQuotedIdent                // `ident` or "ident"
	TokString                     // 'string literal'
	TokNumber                     // 12, 1.5, 0x1F, 1e3, ...
	TokOp                         // operators: + - * / % = == != <> < <= > >= <=> || -> :: ? :
	TokPunct                      // , ; . ( ) [ ] { }
	TokKeyword                    // bare word in the (case-insensitive) keyword list
	TokComment                    // -- ..., # ..., #!..., /* ... */
	TokParam                      // {name:Type} query parameter substitution
)

func (k TokKind) String() string {
	switch k {
	case TokIdent:
		return "Ident"
	case TokQuotedIdent:
		return "QuotedIdent"
	case TokString:
		return "String"
	case TokNumber:
		return "Number"
	case TokOp:
		return "Op"
	case TokPunct:
		return "Punct"
	case TokKeyword:
		return "Keyword"
	case TokComment:
		return "Comment"
	case TokParam:
		return "Param"
	}
	return "?"
}

// Token is one lexical token. Text is the raw source text, Val the decoded value
// for TokString / TokQuotedIdent (escape sequences resolved), Pos the byte offset.
type Token struct {
	Kind TokKind
	Text string
	Val  string
	Pos  int
}

// keywords is only used to classify bare words (TokKeyword vs TokIdent) for
// callers that inspect the token stream. ClickHouse's own lexer has no keyword
// tokens (everything is a BareWord) and the parser here treats both kinds alike,
// deciding by context; so `key`, `type`, `date`, `format`... remain usable as names.
var keywords = map[string]bool{}

func init() {
	for _, k := range strings.Fields(`SELECT FROM WHERE PREWHERE GROUP BY HAVING ORDER LIMIT OFFSET WITH AS DISTINCT
		JOIN ON USING INNER LEFT RIGHT FULL CROSS OUTER ANY ALL ASOF SEMI ANTI GLOBAL ARRAY UNION INTERSECT EXCEPT
		AND OR NOT IN IS NULL LIKE ILIKE BETWEEN CASE WHEN THEN ELSE END CAST INTERVAL ASC DESC NULLS FIRST LAST
		SETTINGS FORMAT FINAL SAMPLE TOTALS ROLLUP CUBE SHOW TABLES CREATE ALTER INSERT INTO VALUES DROP TABLE
		DESCRIBE EXISTS TRUE FALSE DIV MOD COLLATE OVER PARTITION WINDOW TIES FILL`) {
		keywords[k] = true
	}
}

func isWordStart(c byte) bool {
	return c == '_' || (c >= 'a' && c <= 'z') || (c >= 'A' && c <= 'Z') || c >= 0x80
}
func isWordChar(c byte) bool { return isWordStart(c) || (c >= '0' && c <= '9') || c == '$' }
func isDigit(c byte) bool    { return c >= '0' && c <= '9' }
func isHexDigit(c byte) bool { return isDigit(c) || (c >= 'a' && c <= 'f') || (c >= 'A' && c <= 'F') }
func isWhitespace(c byte) bool {
	return c == ' ' || c == '\t' || c == '\n' || c == '\r' || c == '\f' || c == '\v'
}

// Lex splits sql into tokens following ClickHouse's Lexer.cpp. Whitespace is
// dropped, comments are kept as TokComment tokens. An unterminated string
// literal, quoted identifier or block comment is an error (wrapping ErrSyntax).
//
// String literal decoding follows ClickHouse's readQuotedStringWithSQLStyle /
// parseComplexEscapeSequence (src/IO/ReadHelpers.cpp):
//
//   - ” inside '...' is a single quote;
//   - \xHH is the byte HH; \N is the empty string;
//   - \a \b \e \f \n \r \t \v \0 are the usual control characters;
//   - \\ \' \" \` \/ \= yield the second character alone;
//   - any OTHER escape \c (e.g. \d, \%, \_, \.) keeps the backslash: the result
//     is the two characters '\' 'c'. ("For convenience using LIKE and regular
//     expressions, we leave backslash when user write something like
//     'Hello 100\%'" -- comment in ClickHouse's source.)
//
// The same rules apply inside `...` and "..." quoted identifiers.
func Lex(sql string) ([]Token, error) {
	var toks []Token
	i := 0
	n := len(sql)
	// previous significant (non-comment) token, needed for the '.' rules
	var prev *Token
	push := func(t Token) {
		toks = append(toks, t)
		if t.Kind != TokComment {
			prev = &toks[len(toks)-1]
		}
	}
	for i < n {
		c := sql[i]
		if isWhitespace(c) {
			i++
			continue
		}
		start := i
		switch {
		case c == '-' && i+1 < n && sql[i+1] == '-':
			for i < n && sql[i] != '\n' {
				i++
			}
			push(Token{Kind: TokComment, Text: sql[start:i], Pos: start})
		case c == '#':
			if i+1 < n && (sql[i+1] == ' ' || sql[i+1] == '!') {
				for i < n && sql[i] != '\n' {
					i++
				}
				push(Token{Kind: TokComment, Text: sql[start:i], Pos: start})
			} else {
				return nil, syntaxErrf(i, "unexpected character '#'")
			}
		case c == '/' && i+1 < n && sql[i+1] == '*':
			end := strings.Index(sql[i+2:], "*/")
			if end < 0 {
				return nil, syntaxErrf(i, "unterminated block comment")
			}
			i = i + 2 + end + 2
			push(Token{Kind: TokComment, Text: sql[start:i], Pos: start})
		case c == '\'':
			val, next, err := readQuoted(sql, i, '\'')
			if err != nil {
				return nil, err
			}
			i = next
			push(Token{Kind: TokString, Text: sql[start:i], Val: val, Pos: start})
		case c == '`' || c == '"':
			val, next, err := readQuoted(sql, i, c)
			if err != nil {
				return nil, err
			}
			i = next
			push(Token{Kind: TokQuotedIdent, Text: sql[start:i], Val: val, Pos: start})
		case isDigit(c) || (c == '.' && i+1 < n && isDigit(sql[i+1]) && !dotIsOperator(prev)):
			// ClickHouse: right after a Dot token only decimal digits are read so
			// that chained tuple access x.1.1 works.
			if prev != nil && prev.Kind == TokPunct && prev.Text == "." {
				for i < n && isDigit(sql[i]) {
					i++
				}
			} else {
				i = lexNumber(sql, i)
			}
			if i < n && isWordChar(sql[i]) {
				// e.g. 1abc
				for i < n && isWordChar(sql[i]) {
					i++
				}
				return nil, syntaxErrf(start, "wrong number %q", sql[start:i])
			}
			push(Token{Kind: TokNumber, Text: sql[start:i], Pos: start})
		case isWordStart(c):
			for i < n && isWordChar(sql[i]) {
				i++
			}
			w := sql[start:i]
			k := TokIdent
			if keywords[strings.ToUpper(w)] {
				k = TokKeyword
			}
			push(Token{Kind: k, Text: w, Pos: start})
		case c == '{':
			// {name:Type} query parameter
			if end := lexParam(sql, i); end > 0 {
				i = end
				push(Token{Kind: TokParam, Text: sql[start:i], Pos: start})
			} else {
				i++
				push(Token{Kind: TokPunct, Text: "{", Pos: start})
			}
		case strings.IndexByte(",;.()[]}", c) >= 0:
			i++
			push(Token{Kind: TokPunct, Text: sql[start:i], Pos: start})
		default:
			op := ""
			for _, cand := range []string{"<=>", "->", "::", "==", "!=", "<>", "<=", ">=", "||", "+", "-", "*", "/", "%", "=", "<", ">", "?", ":", "@@", "@", "^", "|"} {
				if strings.HasPrefix(sql[i:], cand) {
					op = cand
					break
				}
			}
			if op == "" || op == "|" || op == "^" {
				return nil, syntaxErrf(i, "unexpected character %q", string(c))
			}
			i += len(op)
			push(Token{Kind: TokOp, Text: op, Pos: start})
		}
	}
	return toks, nil
}

// dotIsOperator reports whether a '.' following prev is the tuple-access /
// qualification operator (as opposed to the start of a number like ".5").
func dotIsOperator(prev *Token) bool {
	if prev == nil {
		return false
	}
	switch prev.Kind {
	case TokIdent, TokKeyword, TokQuotedIdent, TokNumber:
		return true
	case TokPunct:
		return prev.Text == ")" || prev.Text == "]"
	}
	return false
}

func lexNumber(s string, i int) int {
	n := len(s)
	if s[i] == '0' && i+1 < n && (s[i+1] == 'x' || s[i+1] == 'X') {
		j := i + 2
		for j < n && isHexDigit(s[j]) {
			j++
		}
		if j > i+2 {
			// hex float: 0x1.8p3
			if j < n && s[j] == '.' {
				j++
				for j < n && isHexDigit(s[j]) {
					j++
				}
			}
			if j < n && (s[j] == 'p' || s[j] == 'P') {
				k := j + 1
				if k < n && (s[k] == '+' || s[k] == '-') {
					k++
				}
				if k < n && isDigit(s[k]) {
					for k < n && isDigit(s[k]) {
						k++
					}
					j = k
				}
			}
			return j
		}
	}
	if s[i] == '0' && i+1 < n && (s[i+1] == 'b' || s[i+1] == 'B') {
		j := i + 2
		for j < n && (s[j] == '0' || s[j] == '1') {
			j++
		}
		if j > i+2 {
			return j
		}
	}
	j := i
	for j < n && isDigit(s[j]) {
		j++
	}
	if j < n && s[j] == '.' {
		j++
		for j < n && isDigit(s[j]) {
			j++
		}
	}
	if j < n && (s[j] == 'e' || s[j] == 'E') {
		k := j + 1
		if k < n && (s[k] == '+' || s[k] == '-') {
			k++
		}
		if k < n && isDigit(s[k]) {
			for k < n && isDigit(s[k]) {
				k++
			}
			j = k
		}
	}
	return j
}

func lexParam(s string, i int) int {
	// { name : Type }
	j := i + 1
	n := len(s)
	for j < n && isWhitespace(s[j]) {
		j++
	}
	if j >= n || !isWordStart(s[j]) {
		return -1
	}
	for j < n && isWordChar(s[j]) {
		j++
	}
	for j < n && isWhitespace(s[j]) {
		j++
	}
	if j >= n || s[j] != ':' || (j+1 < n && s[j+1] == ':') {
		return -1
	}
	depth := 0
	for j < n {
		switch s[j] {
		case '{':
			depth++
		case '}':
			if depth == 0 {
				return j + 1
			}
			depth--
		case '\'', '"', '`', ';':
			return -1
		}
		j++
	}
	return -1
}

// readQuoted decodes a quoted literal starting at s[i]==q and returns the
// decoded value and the index just after the closing quote.
func readQuoted(s string, i int, q byte) (string, int, error) {
	start := i
	i++
	n := len(s)
	var b strings.Builder
	for i < n {
		c := s[i]
		switch {
		case c == q:
			if i+1 < n && s[i+1] == q { // doubled quote
				b.WriteByte(q)
				i += 2
				continue
			}
			return b.String(), i + 1, nil
		case c == '\\':
			if i+1 >= n {
				return "", 0, syntaxErrf(start, "unterminated quoted literal")
			}
			e := s[i+1]
			switch e {
			case 'x':
				if i+3 >= n {
					return "", 0, syntaxErrf(i, "incomplete \\x escape")
				}
				// ClickHouse does not validate the digits (unhex2 of garbage);
				// reject non-hex digits here instead of producing garbage.
				if !isHexDigit(s[i+2]) || !isHexDigit(s[i+3]) {
					return "", 0, syntaxErrf(i, "bad \\x escape")
				}
				b.WriteByte(unhexDigit(s[i+2])<<4 | unhexDigit(s[i+3]))
				i += 4
			case 'N':
				i += 2
			default:
				d := e
				switch e {
				case 'a':
					d = '\a'
				case 'b':
					d = '\b'
				case 'e':
					d = 0x1B
				case 'f':
					d = '\f'
				case 'n':
					d = '\n'
				case 'r':
					d = '\r'
				case 't':
					d = '\t'
				case 'v':
					d = '\v'
				case '0':
					d = 0
				}
				isControl := d < 0x20 || d == 0x7F
				if d != '\\' && d != '\'' && d != '"' && d != '`' && d != '/' && d != '=' && !isControl {
					b.WriteByte('\\')
				}
				b.WriteByte(d)
				i += 2
			}
		default:
			b.WriteByte(c)
			i++
		}
	}
	return "", 0, syntaxErrf(start, "unterminated quoted literal")
}

func unhexDigit(c byte) byte {
	switch {
	case c >= '0' && c <= '9':
		return c - '0'
	case c >= 'a' && c <= 'f':
		return c - 'a' + 10
	default:
		return c - 'A' + 10
	}
}

package chsql

import (
	"math"

	"github.com/go-faster/city"
)

// cityHash64 as implemented by ClickHouse's FunctionAnyHash<ImplCityHash64>
// (src/Functions/FunctionsHashing.h):
//
//   - String / FixedString: CityHash64 (v1.0.2) of the bytes;
//   - integers, dates, floats (ImplCityHash64::use_int_hash_for_pods):
//     IntHash64Impl::apply(bitCast<UInt64>(x)) = intHash64(x ^ 0x4CF2D2BAAE6DA887)
//     where bitCast zero-extends the raw bytes of narrower types;
//   - several arguments / tuple elements: h = Hash128to64(h_prev, h_next);
//   - Array: starts from IntHash64Impl::apply(size) then combines every element hash in
//     order (an array is NOT hashed like a tuple of its elements);
//   - Map: hashed as its nested Array(Tuple(key, value)).
//
// Published check value: cityHash64('Moscow') = 12507901496292878638.
func cityHash64Value(v any) (uint64, error) {
	switch x := v.(type) {
	case string:
		return city.CH64([]byte(x)), nil
	case FixedString:
		return city.CH64([]byte(x)), nil
	case float64:
		return intHash64Salted(math.Float64bits(x)), nil
	case Date:
		return intHash64Salted(uint64(x)), nil
	case DateTime:
		return intHash64Salted(uint64(x)), nil
	case Tuple:
		if len(x) == 0 {
			return 0, unsupportedf("cityHash64 of an empty tuple")
		}
		var h uint64
		for i, el := range flattenTuple(x) {
			eh, err := cityHash64Value(el)
			if err != nil {
				return 0, err
			}
			if i == 0 {
				h = eh
			} else {
				h = hash128to64(h, eh)
			}
		}
		return h, nil
	case []any:
		h := intHash64Salted(uint64(len(x)))
		for _, el := range x {
			eh, err := cityHash64Value(el)
			if err != nil {
				return 0, err
			}
			h = hash128to64(h, eh)
		}
		return h, nil
	case *Map:
		return cityHash64Value(mapPairs(x))
	case nil:
		return 0, unsupportedf("cityHash64 of NULL")
	}
	if k, ok := kindOf(v); ok && k.isInt {
		// bitCast<UInt64>(value): the raw bytes zero extended (not sign extended)
		bits, _ := toBits(v)
		return intHash64Salted(truncBits(bits, k.size)), nil
	}
	return 0, unsupportedf("cityHash64 of %s", typeNameOf(v))
}

// flattenTuple: the elements of nested tuples are hashed as if they were
// further arguments (executeForArgument recurses with the same accumulator).
func flattenTuple(t Tuple) []any {
	var out []any
	for _, el := range t {
		if n, ok := el.(Tuple); ok && len(n) > 0 {
			out = append(out, flattenTuple(n)...)
		} else {
			out = append(out, el)
		}
	}
	return out
}

// hash128to64 is CityHash's Hash128to64 (low = first, high = second).
func hash128to64(low, high uint64) uint64 {
	const kMul = 0x9ddfea08eb382d69
	a := (low ^ high) * kMul
	a ^= a >> 47
	b := (high ^ a) * kMul
	b ^= b >> 47
	b *= kMul
	return b
}

// intHash64 is the murmur finaliser used by ClickHouse (common/HashTable/Hash.h).
func intHash64(x uint64) uint64 {
	x ^= x >> 33
	x *= 0xff51afd7ed558ccd
	x ^= x >> 33
	x *= 0xc4ceb9fe1a85ec53
	x ^= x >> 33
	return x
}

func intHash64Salted(x uint64) uint64 { return intHash64(x ^ 0x4CF2D2BAAE6DA887) }

// intHash32 (salt 0) from common/HashTable/Hash.h.
func intHash32(key uint64) uint32 {
	key = (^key) + (key << 18)
	key = key ^ ((key >> 31) | (key << 33))
	key = key * 21
	key = key ^ ((key >> 11) | (key << 53))
	key = key + (key << 6)
	key = key ^ ((key >> 22) | (key << 42))
	return uint32(key)
}

func init() {
	regNull("cityHash64", 1, -1, func(_ *env, a []any) (any, error) {
		// NULL arguments are hashed by ClickHouse as well (Nullable columns use
		// the nested default); not needed by the corpus, so refuse.
		// top-level tuple arguments continue the chain of their neighbours
		var flat Tuple
		for _, v := range a {
			if t, ok := v.(Tuple); ok {
				flat = append(flat, t...)
			} else {
				flat = append(flat, v)
			}
		}
		if len(flat) == 1 {
			return cityHash64Value(flat[0])
		}
		return cityHash64Value(flat)
	})
	for _, n := range []string{"sipHash64", "sipHash128", "murmurHash2_64", "murmurHash3_64", "xxHash64", "farmHash64", "metroHash64",
		"halfMD5", "MD5", "SHA1", "SHA256", "javaHash", "rand", "rand64", "randConstant", "generateUUIDv4"} {
		name := n
		regNull(name, 0, -1, func(*env, []any) (any, error) { return nil, unsupportedf("function %s", name) })
	}
}

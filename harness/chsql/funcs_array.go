package chsql

import (
	"sort"
)

// ---------------------------------------------------------------------------
// higher-order functions (first argument may be a lambda)
// ---------------------------------------------------------------------------

type hoSpec struct {
	lambdaRequired bool
	onMap          bool // operates on a Map instead of arrays
}

var higherOrder = map[string]hoSpec{
	"arrayMap": {lambdaRequired: true}, "arrayFilter": {lambdaRequired: true},
	"arrayExists": {}, "arrayAll": {}, "arrayCount": {},
	"arrayFirst": {lambdaRequired: true}, "arrayLast": {lambdaRequired: true},
	"arrayFirstIndex": {lambdaRequired: true}, "arrayLastIndex": {lambdaRequired: true},
	"arraySum": {}, "arrayMin": {}, "arrayMax": {}, "arrayAvg": {},
	"arraySort": {}, "arrayReverseSort": {},
	"mapFilter": {lambdaRequired: true, onMap: true}, "mapApply": {lambdaRequired: true, onMap: true},
}

func (e *env) evalHigherOrder(name string, spec hoSpec, f *FuncCall) (any, error) {
	if len(f.Args) == 0 {
		return nil, badArgf("function %s needs arguments", name)
	}
	var lam *lambdaVal
	rest := f.Args
	if l, ok := f.Args[0].(*Lambda); ok {
		lam = &lambdaVal{fn: l, env: e}
		rest = f.Args[1:]
	} else if spec.lambdaRequired {
		return nil, typeErrf("first argument of %s must be a lambda", name)
	}
	if len(rest) == 0 {
		return nil, badArgf("function %s needs an array argument", name)
	}
	args, err := e.evalArgs(rest)
	if err != nil {
		return nil, err
	}
	for _, a := range args {
		if a == nil {
			return nil, nil
		}
	}
	if spec.onMap {
		return hoMap(name, lam, args)
	}
	arrs := make([][]any, len(args))
	n := -1
	for i, a := range args {
		arr, ok := a.([]any)
		if !ok {
			return nil, typeErrf("illegal type %s of argument %d of function %s (must be an array)", typeNameOf(a), i+1, name)
		}
		if n >= 0 && len(arr) != n {
			return nil, badArgf("arrays passed to %s must have equal size", name)
		}
		n = len(arr)
		arrs[i] = arr
	}
	if lam != nil && len(lam.fn.Params) != len(arrs) {
		return nil, badArgf("lambda of %s takes %d parameters but %d arrays were given", name, len(lam.fn.Params), len(arrs))
	}
	if lam == nil && len(arrs) != 1 {
		return nil, badArgf("function %s without a lambda takes one array", name)
	}
	// per-element lambda values (or the elements themselves)
	apply := func(k int) (any, error) {
		if lam == nil {
			return arrs[0][k], nil
		}
		row := make([]any, len(arrs))
		for i := range arrs {
			row[i] = arrs[i][k]
		}
		return lam.call(row...)
	}
	// for empty input still run the lambda once over representative elements so
	// that unknown functions / type errors inside it are reported
	var hintResult any
	if n == 0 && lam != nil {
		row := make([]any, len(arrs))
		known := true
		for i := range arrs {
			row[i] = elemHint(arrs[i])
			if row[i] == nil {
				known = false
			}
		}
		if known {
			v, err := lam.call(row...)
			if err != nil {
				if isStaticErr(err) {
					return nil, err
				}
			} else {
				hintResult = v
			}
		}
	}
	cond := func(k int) (bool, error) {
		v, err := apply(k)
		if err != nil {
			return false, err
		}
		return truthy(v)
	}
	first := arrs[0]
	switch name {
	case "arrayMap":
		out := emptyArrayOf(hintResult)
		for k := 0; k < n; k++ {
			v, err := apply(k)
			if err != nil {
				return nil, err
			}
			out = append(out, v)
		}
		if n > 1 {
			if u, err := unifyValues(out); err == nil {
				out = u
			} else {
				return nil, err
			}
		}
		return out, nil
	case "arrayFilter":
		out := emptyArrayOf(elemHint(first))
		for k := 0; k < n; k++ {
			t, err := cond(k)
			if err != nil {
				return nil, err
			}
			if t {
				out = append(out, first[k])
			}
		}
		return out, nil
	case "arrayExists", "arrayAll", "arrayCount":
		cnt := 0
		for k := 0; k < n; k++ {
			t, err := cond(k)
			if err != nil {
				return nil, err
			}
			if t {
				cnt++
			}
		}
		switch name {
		case "arrayExists":
			return boolVal(cnt > 0), nil
		case "arrayAll":
			return boolVal(cnt == n), nil
		}
		return uint32(cnt), nil
	case "arrayFirst", "arrayLast", "arrayFirstIndex", "arrayLastIndex":
		idx := -1
		for k := 0; k < n; k++ {
			t, err := cond(k)
			if err != nil {
				return nil, err
			}
			if t {
				idx = k
				if name == "arrayFirst" || name == "arrayFirstIndex" {
					break
				}
			}
		}
		if name == "arrayFirstIndex" || name == "arrayLastIndex" {
			return uint32(idx + 1), nil
		}
		if idx < 0 {
			h := elemHint(first)
			if h == nil {
				return nil, unsupportedf("%s over an empty array of unknown element type", name)
			}
			return zeroLike(h), nil
		}
		return first[idx], nil
	case "arraySum", "arrayAvg":
		var s aggSum
		vals := 0
		for k := 0; k < n; k++ {
			v, err := apply(k)
			if err != nil {
				return nil, err
			}
			if v == nil {
				return nil, unsupportedf("%s over NULL elements", name)
			}
			if err := s.add([]any{v}); err != nil {
				return nil, err
			}
			vals++
		}
		hint := hintResult
		if lam == nil {
			hint = elemHint(first)
		}
		res, err := s.result([]any{hint})
		if err != nil {
			return nil, err
		}
		if name == "arrayAvg" {
			fl, _ := toFloat(res)
			return fl / float64(vals), nil
		}
		return res, nil
	case "arrayMin", "arrayMax":
		var m aggMinMax
		m.max = name == "arrayMax"
		for k := 0; k < n; k++ {
			v, err := apply(k)
			if err != nil {
				return nil, err
			}
			if v == nil {
				continue
			}
			if err := m.add([]any{v}); err != nil {
				return nil, err
			}
		}
		hint := hintResult
		if lam == nil {
			hint = elemHint(first)
		}
		return m.result([]any{hint})
	case "arraySort", "arrayReverseSort":
		keys := make([]any, n)
		for k := 0; k < n; k++ {
			v, err := apply(k)
			if err != nil {
				return nil, err
			}
			keys[k] = v
		}
		idx := make([]int, n)
		for i := range idx {
			idx[i] = i
		}
		desc := name == "arrayReverseSort"
		var sortErr error
		sort.SliceStable(idx, func(i, j int) bool {
			a, b := keys[idx[i]], keys[idx[j]]
			// NULLs and NaNs go last in both directions
			al, bl := isNullOrNaN(a), isNullOrNaN(b)
			if al || bl {
				return !al && bl
			}
			c, err := compareValues(a, b)
			if err != nil && sortErr == nil {
				sortErr = err
			}
			if desc {
				return c > 0
			}
			return c < 0
		})
		if sortErr != nil {
			return nil, sortErr
		}
		out := emptyArrayOf(elemHint(first))
		for _, i := range idx {
			out = append(out, first[i])
		}
		return out, nil
	}
	return nil, unsupportedf("function %s", name)
}

func isNullOrNaN(v any) bool {
	if v == nil {
		return true
	}
	f, ok := v.(float64)
	return ok && f != f
}

func hoMap(name string, lam *lambdaVal, args []any) (any, error) {
	if len(args) != 1 {
		return nil, badArgf("%s takes a lambda and one map", name)
	}
	m, ok := args[0].(*Map)
	if !ok {
		return nil, typeErrf("illegal type %s of argument of %s (must be a Map)", typeNameOf(args[0]), name)
	}
	if len(lam.fn.Params) != 2 {
		return nil, badArgf("lambda of %s must take (key, value)", name)
	}
	out := &Map{Keys: emptyArrayOf(elemHint(m.Keys)), Vals: emptyArrayOf(elemHint(m.Vals))}
	if len(m.Keys) == 0 && elemHint(m.Keys) != nil && elemHint(m.Vals) != nil {
		if _, err := lam.call(elemHint(m.Keys), elemHint(m.Vals)); err != nil && isStaticErr(err) {
			return nil, err
		}
	}
	for i := range m.Keys {
		v, err := lam.call(m.Keys[i], m.Vals[i])
		if err != nil {
			return nil, err
		}
		switch name {
		case "mapFilter":
			t, err := truthy(v)
			if err != nil {
				return nil, err
			}
			if t {
				out.Keys = append(out.Keys, m.Keys[i])
				out.Vals = append(out.Vals, m.Vals[i])
			}
		case "mapApply":
			t, ok := v.(Tuple)
			if !ok || len(t) != 2 {
				return nil, typeErrf("lambda of mapApply must return a tuple (key, value)")
			}
			out.Keys = append(out.Keys, t[0])
			out.Vals = append(out.Vals, t[1])
		}
	}
	return out, nil
}

// ---------------------------------------------------------------------------
// ordinary array / tuple / map functions
// ---------------------------------------------------------------------------

func arrArg(fn string, v any) ([]any, error) {
	a, ok := v.([]any)
	if !ok {
		return nil, typeErrf("illegal type %s of argument of function %s (must be an array)", typeNameOf(v), fn)
	}
	return a, nil
}

func init() {
	regNull("array", 0, -1, func(_ *env, a []any) (any, error) {
		out, err := unifyValues(append([]any{}, a...))
		if err != nil {
			return nil, err
		}
		return out, nil
	})
	regNull("tuple", 0, -1, func(_ *env, a []any) (any, error) { return Tuple(append([]any{}, a...)), nil })
	regNull("tupleElement", 2, 2, func(_ *env, a []any) (any, error) {
		if a[0] == nil {
			return nil, nil
		}
		t, ok := a[0].(Tuple)
		if !ok {
			// tupleElement over an array of tuples yields the array of elements
			if arr, isArr := a[0].([]any); isArr {
				out := emptyArrayOf(nil)
				for _, el := range arr {
					tt, ok := el.(Tuple)
					if !ok {
						return nil, typeErrf("tupleElement: array element is %s, not a tuple", typeNameOf(el))
					}
					_, idx, neg, isInt := intParts(a[1])
					if !isInt || neg || idx == 0 || idx > uint64(len(tt)) {
						return nil, badArgf("tuple index out of range")
					}
					out = append(out, tt[idx-1])
				}
				return out, nil
			}
			return nil, typeErrf("illegal type %s of first argument of tupleElement (must be a tuple)", typeNameOf(a[0]))
		}
		if _, isStr := a[1].(string); isStr {
			return nil, unsupportedf("tupleElement by name")
		}
		_, idx, neg, isInt := intParts(a[1])
		if !isInt || neg || idx == 0 || idx > uint64(len(t)) {
			return nil, badArgf("tuple index %v is out of range (tuple has %d elements)", a[1], len(t))
		}
		return t[idx-1], nil
	})
	reg("has", 2, 2, func(_ *env, a []any) (any, error) {
		arr, err := arrArg("has", a[0])
		if err != nil {
			return nil, err
		}
		for _, v := range arr {
			if v == nil {
				continue
			}
			c, err := compareValues(v, a[1])
			if err != nil {
				return nil, err
			}
			if c == 0 {
				return uint8(1), nil
			}
		}
		if h := elemHint(arr); h != nil && len(arr) == 0 {
			if _, err := compareValues(zeroLike(h), a[1]); err != nil {
				return nil, err
			}
		}
		return uint8(0), nil
	})
	reg("indexOf", 2, 2, func(_ *env, a []any) (any, error) {
		arr, err := arrArg("indexOf", a[0])
		if err != nil {
			return nil, err
		}
		for i, v := range arr {
			if v == nil {
				continue
			}
			c, err := compareValues(v, a[1])
			if err != nil {
				return nil, err
			}
			if c == 0 {
				return uint64(i + 1), nil
			}
		}
		return uint64(0), nil
	})
	reg("countEqual", 2, 2, func(_ *env, a []any) (any, error) {
		arr, err := arrArg("countEqual", a[0])
		if err != nil {
			return nil, err
		}
		n := uint64(0)
		for _, v := range arr {
			if v == nil {
				continue
			}
			c, err := compareValues(v, a[1])
			if err != nil {
				return nil, err
			}
			if c == 0 {
				n++
			}
		}
		return n, nil
	})
	hasSet := func(name string, all bool) {
		reg(name, 2, 2, func(_ *env, a []any) (any, error) {
			x, err := arrArg(name, a[0])
			if err != nil {
				return nil, err
			}
			y, err := arrArg(name, a[1])
			if err != nil {
				return nil, err
			}
			set := map[string]bool{}
			for _, v := range x {
				set[hashKey(v)] = true
			}
			hits := 0
			for _, v := range y {
				if set[hashKey(v)] {
					hits++
				}
			}
			if all {
				return boolVal(hits == len(y)), nil
			}
			return boolVal(hits > 0), nil
		})
	}
	hasSet("hasAll", true)
	hasSet("hasAny", false)
	reg("arrayConcat", 1, -1, func(_ *env, a []any) (any, error) {
		var out []any
		for i, v := range a {
			arr, err := arrArg("arrayConcat", v)
			if err != nil {
				return nil, err
			}
			if i == 0 {
				out = emptyArrayOf(elemHint(arr))
			}
			out = append(out, arr...)
		}
		return unifyValues(out)
	})
	reg("arraySlice", 2, 3, func(_ *env, a []any) (any, error) {
		arr, err := arrArg("arraySlice", a[0])
		if err != nil {
			return nil, err
		}
		ko, ok := kindOf(a[1])
		if !ok || !ko.isInt {
			return nil, typeErrf("illegal type of offset argument of arraySlice")
		}
		off := signExtendAny(a[1])
		n := int64(len(arr))
		var start int64
		switch {
		case off > 0:
			start = off - 1
		case off < 0:
			start = n + off
			if start < 0 {
				start = 0
			}
		default:
			return nil, badArgf("array indices are 1-based")
		}
		if start > n {
			start = n
		}
		end := n
		if len(a) == 3 {
			kl, ok := kindOf(a[2])
			if !ok || !kl.isInt {
				return nil, typeErrf("illegal type of length argument of arraySlice")
			}
			l := signExtendAny(a[2])
			if l >= 0 {
				end = start + l
			} else {
				end = n + l
			}
		}
		if end > n {
			end = n
		}
		out := emptyArrayOf(elemHint(arr))
		if end > start {
			out = append(out, arr[start:end]...)
		}
		return out, nil
	})
	reg("arrayReverse", 1, 1, func(_ *env, a []any) (any, error) {
		arr, err := arrArg("arrayReverse", a[0])
		if err != nil {
			return nil, err
		}
		out := emptyArrayOf(elemHint(arr))
		for i := len(arr) - 1; i >= 0; i-- {
			out = append(out, arr[i])
		}
		return out, nil
	})
	reg("arrayDistinct", 1, 1, func(_ *env, a []any) (any, error) {
		arr, err := arrArg("arrayDistinct", a[0])
		if err != nil {
			return nil, err
		}
		seen := map[string]bool{}
		out := emptyArrayOf(elemHint(arr))
		for _, v := range arr {
			if v == nil {
				continue // arrayDistinct drops NULLs
			}
			k := hashKey(v)
			if !seen[k] {
				seen[k] = true
				out = append(out, v)
			}
		}
		return out, nil
	})
	reg("arrayUniq", 1, 1, func(_ *env, a []any) (any, error) {
		arr, err := arrArg("arrayUniq", a[0])
		if err != nil {
			return nil, err
		}
		seen := map[string]bool{}
		for _, v := range arr {
			seen[hashKey(v)] = true
		}
		return uint64(len(seen)), nil
	})
	reg("arrayZip", 1, -1, func(_ *env, a []any) (any, error) {
		n := -1
		arrs := make([][]any, len(a))
		for i, v := range a {
			arr, err := arrArg("arrayZip", v)
			if err != nil {
				return nil, err
			}
			if n >= 0 && len(arr) != n {
				return nil, badArgf("the argument arrays of arrayZip must have equal size")
			}
			n = len(arr)
			arrs[i] = arr
		}
		hint := make(Tuple, len(arrs))
		known := true
		for i := range arrs {
			hint[i] = elemHint(arrs[i])
			known = known && hint[i] != nil
		}
		var out []any
		if known {
			out = emptyArrayOf(hint)
		} else {
			out = []any{}
		}
		for k := 0; k < n; k++ {
			t := make(Tuple, len(arrs))
			for i := range arrs {
				t[i] = arrs[i][k]
			}
			out = append(out, t)
		}
		return out, nil
	})
	reg("arrayEnumerate", 1, 1, func(_ *env, a []any) (any, error) {
		arr, err := arrArg("arrayEnumerate", a[0])
		if err != nil {
			return nil, err
		}
		out := emptyArrayOf(uint32(0))
		for i := range arr {
			out = append(out, uint32(i+1))
		}
		return out, nil
	})
	reg("arrayFlatten", 1, 1, func(_ *env, a []any) (any, error) {
		arr, err := arrArg("arrayFlatten", a[0])
		if err != nil {
			return nil, err
		}
		var out []any
		hint := elemHint(arr)
		if h, ok := hint.([]any); ok {
			out = emptyArrayOf(elemHint(h))
		} else {
			out = []any{}
		}
		for _, v := range arr {
			inner, ok := v.([]any)
			if !ok {
				return nil, typeErrf("arrayFlatten needs an array of arrays")
			}
			out = append(out, inner...)
		}
		return out, nil
	})
	reg("arrayCompact", 1, 1, func(_ *env, a []any) (any, error) {
		arr, err := arrArg("arrayCompact", a[0])
		if err != nil {
			return nil, err
		}
		out := emptyArrayOf(elemHint(arr))
		for i, v := range arr {
			if i == 0 || !valuesEqual(v, arr[i-1]) {
				out = append(out, v)
			}
		}
		return out, nil
	})
	reg("arrayPushBack", 2, 2, func(_ *env, a []any) (any, error) {
		arr, err := arrArg("arrayPushBack", a[0])
		if err != nil {
			return nil, err
		}
		return unifyValues(append(append(emptyArrayOf(elemHint(arr)), arr...), a[1]))
	})
	reg("arrayPushFront", 2, 2, func(_ *env, a []any) (any, error) {
		arr, err := arrArg("arrayPushFront", a[0])
		if err != nil {
			return nil, err
		}
		return unifyValues(append([]any{a[1]}, arr...))
	})
	reg("arrayPopBack", 1, 1, func(_ *env, a []any) (any, error) {
		arr, err := arrArg("arrayPopBack", a[0])
		if err != nil {
			return nil, err
		}
		out := emptyArrayOf(elemHint(arr))
		if len(arr) > 0 {
			out = append(out, arr[:len(arr)-1]...)
		}
		return out, nil
	})
	reg("arrayPopFront", 1, 1, func(_ *env, a []any) (any, error) {
		arr, err := arrArg("arrayPopFront", a[0])
		if err != nil {
			return nil, err
		}
		out := emptyArrayOf(elemHint(arr))
		if len(arr) > 0 {
			out = append(out, arr[1:]...)
		}
		return out, nil
	})
	reg("range", 1, 1, func(_ *env, a []any) (any, error) {
		k, ok := kindOf(a[0])
		if !ok || !k.isInt || k.signed && signExtendAny(a[0]) < 0 {
			return nil, typeErrf("illegal argument of range")
		}
		_, n, _, _ := intParts(a[0])
		if n > 1_000_000 {
			return nil, badArgf("range is too large")
		}
		out := emptyArrayOf(makeInt(false, k.size, 0))
		for i := uint64(0); i < n; i++ {
			out = append(out, makeInt(false, k.size, i))
		}
		return out, nil
	})

	// ---- maps ----
	regNull("map", 0, -1, func(_ *env, a []any) (any, error) {
		if len(a)%2 != 0 {
			return nil, badArgf("function map needs an even number of arguments")
		}
		m := &Map{}
		for i := 0; i < len(a); i += 2 {
			m.Keys = append(m.Keys, a[i])
			m.Vals = append(m.Vals, a[i+1])
		}
		var err error
		if m.Keys, err = unifyValues(m.Keys); err != nil {
			return nil, err
		}
		if m.Vals, err = unifyValues(m.Vals); err != nil {
			return nil, err
		}
		return m, nil
	})
	reg("mapFromArrays", 2, 2, func(_ *env, a []any) (any, error) {
		k, err := arrArg("mapFromArrays", a[0])
		if err != nil {
			return nil, err
		}
		v, err := arrArg("mapFromArrays", a[1])
		if err != nil {
			return nil, err
		}
		if len(k) != len(v) {
			return nil, badArgf("key and value array should have same size in mapFromArrays")
		}
		for _, kk := range k {
			if kk == nil {
				return nil, badArgf("map keys cannot be NULL")
			}
		}
		m := &Map{Keys: append(emptyArrayOf(elemHint(k)), k...), Vals: append(emptyArrayOf(elemHint(v)), v...)}
		return m, nil
	})
	mapArg := func(fn string, v any) (*Map, error) {
		m, ok := v.(*Map)
		if !ok {
			return nil, typeErrf("illegal type %s of argument of function %s (must be a Map)", typeNameOf(v), fn)
		}
		return m, nil
	}
	reg("mapKeys", 1, 1, func(_ *env, a []any) (any, error) {
		m, err := mapArg("mapKeys", a[0])
		if err != nil {
			return nil, err
		}
		return append(emptyArrayOf(elemHint(m.Keys)), m.Keys...), nil
	})
	reg("mapValues", 1, 1, func(_ *env, a []any) (any, error) {
		m, err := mapArg("mapValues", a[0])
		if err != nil {
			return nil, err
		}
		return append(emptyArrayOf(elemHint(m.Vals)), m.Vals...), nil
	})
	reg("mapContains", 2, 2, func(_ *env, a []any) (any, error) {
		m, err := mapArg("mapContains", a[0])
		if err != nil {
			return nil, err
		}
		if h := elemHint(m.Keys); h != nil {
			if _, err := compareValues(zeroLike(h), zeroLike(a[1])); err != nil {
				return nil, err
			}
		}
		_, ok := m.Get(a[1])
		return boolVal(ok), nil
	})
	// mapUpdate(m1, m2): entries of m1 whose key is not in m2 (in m1 order),
	// followed by all entries of m2 (FunctionMapUpdate in ClickHouse's map.cpp).
	reg("mapUpdate", 2, 2, func(_ *env, a []any) (any, error) {
		m1, err := mapArg("mapUpdate", a[0])
		if err != nil {
			return nil, err
		}
		m2, err := mapArg("mapUpdate", a[1])
		if err != nil {
			return nil, err
		}
		kh, vh := elemHint(m1.Keys), elemHint(m1.Vals)
		if kh == nil {
			kh, vh = elemHint(m2.Keys), elemHint(m2.Vals)
		}
		if h1, h2 := elemHint(m1.Keys), elemHint(m2.Keys); h1 != nil && h2 != nil {
			if _, err := compareValues(zeroLike(h1), zeroLike(h2)); err != nil {
				return nil, typeErrf("mapUpdate: the two maps have different types")
			}
		}
		out := &Map{Keys: emptyArrayOf(kh), Vals: emptyArrayOf(vh)}
		for i, k := range m1.Keys {
			if _, ok := m2.Get(k); !ok {
				out.Keys = append(out.Keys, k)
				out.Vals = append(out.Vals, m1.Vals[i])
			}
		}
		out.Keys = append(out.Keys, m2.Keys...)
		out.Vals = append(out.Vals, m2.Vals...)
		return out, nil
	})

	// arrayElement: arrays (1-based, negative from the end, out of range ->
	// default value) and maps (missing key -> default value).
	reg("arrayElement", 2, 2, func(_ *env, a []any) (any, error) {
		switch x := a[0].(type) {
		case *Map:
			if v, ok := x.Get(a[1]); ok {
				return v, nil
			}
			if h := elemHint(x.Keys); h != nil {
				if _, err := compareValues(zeroLike(h), zeroLike(a[1])); err != nil {
					return nil, err
				}
			}
			h := elemHint(x.Vals)
			if h == nil {
				return nil, unsupportedf("lookup of a missing key in an empty map of unknown value type")
			}
			return zeroLike(h), nil
		case []any:
			k, ok := kindOf(a[1])
			if !ok || !k.isInt {
				return nil, typeErrf("illegal type %s of array index", typeNameOf(a[1]))
			}
			i := signExtendAny(a[1])
			n := int64(len(x))
			switch {
			case i > 0 && i <= n:
				return x[i-1], nil
			case i < 0 && -i <= n:
				return x[n+i], nil
			}
			h := elemHint(x)
			if h == nil {
				return nil, unsupportedf("out of range element of an empty array of unknown element type")
			}
			return zeroLike(h), nil
		}
		return nil, typeErrf("illegal type %s of first argument of arrayElement", typeNameOf(a[0]))
	})
}

package chsql

import (
	"math"
	"strconv"
	"strings"
)

// Parse parses one statement. SELECT queries (with WITH / UNION ALL /
// INTERSECT ...) yield a *SelectUnion; SHOW / CREATE / ALTER / INSERT / ... are
// recognised by their leading keyword and returned as *OtherStmt (which Query
// refuses with ErrUnsupported). Syntax errors wrap ErrSyntax; syntactically
// valid ClickHouse that this parser does not handle wraps ErrUnsupported.
func Parse(sql string) (Stmt, error) {
	toks, err := Lex(sql)
	if err != nil {
		return nil, err
	}
	p := &parser{src: sql}
	for _, t := range toks {
		if t.Kind != TokComment {
			p.toks = append(p.toks, t)
		}
	}
	return p.parseStatement()
}

type parser struct {
	src  string
	toks []Token
	pos  int
}

var eofTok = Token{Kind: TokPunct, Text: "", Pos: -1}

func (p *parser) peek() Token {
	if p.pos < len(p.toks) {
		return p.toks[p.pos]
	}
	return eofTok
}
func (p *parser) peekAt(k int) Token {
	if p.pos+k < len(p.toks) {
		return p.toks[p.pos+k]
	}
	return eofTok
}
func (p *parser) next() Token {
	t := p.peek()
	if p.pos < len(p.toks) {
		p.pos++
	}
	return t
}
func (p *parser) eof() bool { return p.pos >= len(p.toks) }

func (p *parser) errPos() int {
	if p.pos < len(p.toks) {
		return p.toks[p.pos].Pos
	}
	return len(p.src)
}

func (p *parser) errorf(format string, a ...any) error {
	near := ""
	if pos := p.errPos(); pos >= 0 && pos <= len(p.src) {
		end := pos + 40
		if end > len(p.src) {
			end = len(p.src)
		}
		near = " near " + strconv.Quote(p.src[pos:end])
	}
	return syntaxErrf(p.errPos(), format+near, a...)
}

func isWordTok(t Token) bool { return t.Kind == TokIdent || t.Kind == TokKeyword }

// isKw: the token at offset k is the bare word kw (case-insensitive).
func (p *parser) isKwAt(k int, kw string) bool {
	t := p.peekAt(k)
	return isWordTok(t) && strings.EqualFold(t.Text, kw)
}
func (p *parser) isKw(kw string) bool { return p.isKwAt(0, kw) }

// acceptKw consumes a sequence of keywords if all are present.
func (p *parser) acceptKw(kws ...string) bool {
	for i, kw := range kws {
		if !p.isKwAt(i, kw) {
			return false
		}
	}
	p.pos += len(kws)
	return true
}
func (p *parser) isPunct(s string) bool {
	t := p.peek()
	return (t.Kind == TokPunct || t.Kind == TokOp) && t.Text == s
}
func (p *parser) isPunctAt(k int, s string) bool {
	t := p.peekAt(k)
	return (t.Kind == TokPunct || t.Kind == TokOp) && t.Text == s
}
func (p *parser) acceptPunct(s string) bool {
	if p.isPunct(s) {
		p.pos++
		return true
	}
	return false
}
func (p *parser) expectPunct(s string) error {
	if !p.acceptPunct(s) {
		return p.errorf("expected %q", s)
	}
	return nil
}
func (p *parser) expectKw(kw string) error {
	if !p.acceptKw(kw) {
		return p.errorf("expected %s", kw)
	}
	return nil
}

// ---------------------------------------------------------------------------
// statements
// ---------------------------------------------------------------------------

func (p *parser) parseStatement() (Stmt, error) {
	if p.eof() {
		return nil, p.errorf("empty query")
	}
	t := p.peek()
	if isWordTok(t) {
		switch strings.ToUpper(t.Text) {
		case "SELECT", "WITH":
		case "SHOW", "CREATE", "ALTER", "INSERT", "DROP", "DESCRIBE", "DESC", "EXPLAIN", "RENAME", "TRUNCATE",
			"OPTIMIZE", "SET", "USE", "SYSTEM", "EXISTS", "KILL", "ATTACH", "DETACH", "GRANT", "REVOKE", "CHECK", "WATCH", "DELETE", "UPDATE":
			return &OtherStmt{Kind: strings.ToUpper(t.Text), Text: p.src}, nil
		default:
			return nil, p.errorf("unexpected %q at start of statement", t.Text)
		}
	} else if !p.isPunct("(") {
		return nil, p.errorf("unexpected %q at start of statement", t.Text)
	}
	u, err := p.parseSelectUnion()
	if err != nil {
		return nil, err
	}
	// trailing FORMAT / SETTINGS / ;
	for {
		switch {
		case p.acceptKw("FORMAT"):
			t := p.next()
			if !isWordTok(t) {
				return nil, p.errorf("expected format name")
			}
			u.Format = t.Text
			continue
		case p.isKw("SETTINGS"):
			if _, err := p.parseSettings(); err != nil {
				return nil, err
			}
			continue
		case p.isKw("INTO"):
			return nil, unsupportedf("INTO OUTFILE")
		}
		break
	}
	for p.acceptPunct(";") {
	}
	if !p.eof() {
		return nil, p.errorf("unexpected token %q after end of query", p.peek().Text)
	}
	return u, nil
}

// parseSelectUnion parses  term { (UNION ALL | UNION DISTINCT | EXCEPT) term }
// where term is  unit { INTERSECT unit }  and unit is a SELECT or a
// parenthesised select-union (INTERSECT has the higher precedence).
func (p *parser) parseSelectUnion() (*SelectUnion, error) {
	u := &SelectUnion{}
	first, err := p.parseIntersectTerm()
	if err != nil {
		return nil, err
	}
	u.Selects = append(u.Selects, first)
	for {
		var op SetOp
		switch {
		case p.acceptKw("UNION", "ALL"):
			op = OpUnionAll
		case p.acceptKw("UNION", "DISTINCT"):
			op = OpUnionDistinct
		case p.isKw("UNION"):
			return nil, unsupportedf("UNION without ALL/DISTINCT (depends on union_default_mode)")
		case p.acceptKw("EXCEPT"):
			if p.isKw("DISTINCT") || p.isKw("ALL") {
				return nil, unsupportedf("EXCEPT ALL/DISTINCT")
			}
			op = OpExcept
		default:
			return simplifyUnion(u), nil
		}
		next, err := p.parseIntersectTerm()
		if err != nil {
			return nil, err
		}
		u.Selects = append(u.Selects, next)
		u.Ops = append(u.Ops, op)
	}
}

func simplifyUnion(u *SelectUnion) *SelectUnion {
	if len(u.Selects) == 1 {
		if inner, ok := u.Selects[0].(*SelectUnion); ok {
			return inner
		}
	}
	return u
}

func (p *parser) parseIntersectTerm() (QueryNode, error) {
	first, err := p.parseUnionUnit()
	if err != nil {
		return nil, err
	}
	if !p.isKw("INTERSECT") {
		return first, nil
	}
	u := &SelectUnion{Selects: []QueryNode{first}}
	for p.acceptKw("INTERSECT") {
		if p.isKw("DISTINCT") || p.isKw("ALL") {
			return nil, unsupportedf("INTERSECT ALL/DISTINCT")
		}
		n, err := p.parseUnionUnit()
		if err != nil {
			return nil, err
		}
		u.Selects = append(u.Selects, n)
		u.Ops = append(u.Ops, OpIntersect)
	}
	return u, nil
}

func (p *parser) parseUnionUnit() (QueryNode, error) {
	if p.acceptPunct("(") {
		u, err := p.parseSelectUnion()
		if err != nil {
			return nil, err
		}
		if err := p.expectPunct(")"); err != nil {
			return nil, err
		}
		if len(u.Selects) == 1 {
			return u.Selects[0], nil
		}
		return u, nil
	}
	return p.parseSelect()
}

func (p *parser) startsQuery(k int) bool {
	// a subquery starts with SELECT / WITH, possibly behind opening parentheses
	for p.isPunctAt(k, "(") {
		k++
	}
	return p.isKwAt(k, "SELECT") || p.isKwAt(k, "WITH")
}

func (p *parser) parseSelect() (*Select, error) {
	s := &Select{}
	if p.acceptKw("WITH") {
		for {
			w, err := p.parseWithItem()
			if err != nil {
				return nil, err
			}
			s.With = append(s.With, w)
			if !p.acceptPunct(",") {
				break
			}
		}
	}
	if err := p.expectKw("SELECT"); err != nil {
		return nil, err
	}
	if p.acceptKw("DISTINCT") {
		if p.isKw("ON") {
			return nil, unsupportedf("DISTINCT ON")
		}
		s.Distinct = true
	} else {
		p.acceptKw("ALL")
	}
	if p.isKw("TOP") && p.peekAt(1).Kind == TokNumber {
		return nil, unsupportedf("SELECT TOP")
	}
	cols, err := p.parseExprList(true)
	if err != nil {
		return nil, err
	}
	if len(cols) == 0 {
		return nil, p.errorf("empty select list")
	}
	s.Columns = cols

	if p.acceptKw("FROM") {
		te, err := p.parseTableExpr()
		if err != nil {
			return nil, err
		}
		s.From = te
		for {
			j, err := p.parseJoin()
			if err != nil {
				return nil, err
			}
			if j == nil {
				break
			}
			s.Joins = append(s.Joins, j)
		}
	}
	if p.acceptKw("PREWHERE") {
		if s.Prewhere, err = p.parseExprTop(); err != nil {
			return nil, err
		}
	}
	if p.acceptKw("WHERE") {
		if s.Where, err = p.parseExprTop(); err != nil {
			return nil, err
		}
	}
	if p.acceptKw("GROUP", "BY") {
		if p.isKw("ALL") || p.isKw("ROLLUP") || p.isKw("CUBE") || p.isKw("GROUPING") {
			return nil, unsupportedf("GROUP BY %s", strings.ToUpper(p.peek().Text))
		}
		if s.GroupBy, err = p.parseExprList(false); err != nil {
			return nil, err
		}
		if p.isKw("WITH") && (p.isKwAt(1, "TOTALS") || p.isKwAt(1, "ROLLUP") || p.isKwAt(1, "CUBE")) {
			return nil, unsupportedf("GROUP BY ... WITH %s", strings.ToUpper(p.peekAt(1).Text))
		}
	}
	if p.acceptKw("HAVING") {
		if s.Having, err = p.parseExprTop(); err != nil {
			return nil, err
		}
	}
	if p.isKw("WINDOW") {
		return nil, unsupportedf("WINDOW clause")
	}
	if p.isKw("QUALIFY") {
		return nil, unsupportedf("QUALIFY clause")
	}
	if p.acceptKw("ORDER", "BY") {
		for {
			e, err := p.parseExprTop()
			if err != nil {
				return nil, err
			}
			oi := &OrderItem{Expr: e}
			if p.acceptKw("DESC") || p.acceptKw("DESCENDING") {
				oi.Desc = true
			} else if p.acceptKw("ASC") || p.acceptKw("ASCENDING") {
			}
			if p.acceptKw("NULLS") {
				v := false
				if p.acceptKw("FIRST") {
					v = true
				} else if !p.acceptKw("LAST") {
					return nil, p.errorf("expected FIRST or LAST")
				}
				oi.NullsFirst = &v
			}
			if p.isKw("COLLATE") {
				return nil, unsupportedf("ORDER BY ... COLLATE")
			}
			if p.isKw("WITH") && p.isKwAt(1, "FILL") {
				return nil, unsupportedf("ORDER BY ... WITH FILL")
			}
			s.OrderBy = append(s.OrderBy, oi)
			if !p.acceptPunct(",") {
				break
			}
		}
	}
	for p.isKw("LIMIT") || p.isKw("OFFSET") {
		if p.acceptKw("OFFSET") {
			if s.Offset != nil {
				return nil, p.errorf("duplicate OFFSET")
			}
			if s.Offset, err = p.parseExprTop(); err != nil {
				return nil, err
			}
			if !p.acceptKw("ROWS") {
				p.acceptKw("ROW")
			}
			continue
		}
		p.acceptKw("LIMIT")
		var a, b Expr // LIMIT a | LIMIT a, b (offset a, limit b) | LIMIT a OFFSET b
		if a, err = p.parseExprTop(); err != nil {
			return nil, err
		}
		var lim, off Expr = a, nil
		if p.acceptPunct(",") {
			if b, err = p.parseExprTop(); err != nil {
				return nil, err
			}
			lim, off = b, a
		} else if p.acceptKw("OFFSET") {
			if off, err = p.parseExprTop(); err != nil {
				return nil, err
			}
		}
		if p.isKw("WITH") && p.isKwAt(1, "TIES") {
			return nil, unsupportedf("LIMIT ... WITH TIES")
		}
		if p.acceptKw("BY") {
			if s.LimitBy != nil {
				return nil, p.errorf("duplicate LIMIT BY")
			}
			by, err := p.parseExprList(false)
			if err != nil {
				return nil, err
			}
			s.LimitBy = &LimitBy{Limit: lim, Offset: off, By: by}
			continue
		}
		if s.Limit != nil {
			return nil, p.errorf("duplicate LIMIT")
		}
		s.Limit = lim
		if off != nil {
			s.Offset = off
		}
	}
	if p.isKw("SETTINGS") {
		st, err := p.parseSettings()
		if err != nil {
			return nil, err
		}
		s.Settings = st
	}
	return s, nil
}

func (p *parser) parseSettings() (map[string]string, error) {
	if err := p.expectKw("SETTINGS"); err != nil {
		return nil, err
	}
	m := map[string]string{}
	for {
		n := p.peek()
		if !isWordTok(n) || !p.isPunctAt(1, "=") {
			break
		}
		p.pos += 2
		v := p.next()
		switch v.Kind {
		case TokNumber, TokIdent, TokKeyword:
			m[n.Text] = v.Text
		case TokString:
			m[n.Text] = v.Val
		case TokOp:
			if v.Text == "-" && p.peek().Kind == TokNumber {
				m[n.Text] = "-" + p.next().Text
				break
			}
			fallthrough
		default:
			return nil, p.errorf("bad setting value %q", v.Text)
		}
		p.acceptPunct(",")
	}
	if len(m) == 0 {
		return nil, p.errorf("expected setting name=value")
	}
	return m, nil
}

func (p *parser) parseWithItem() (*WithItem, error) {
	// name AS (subquery)
	t := p.peek()
	if (isWordTok(t) || t.Kind == TokQuotedIdent) && p.isKwAt(1, "AS") && p.isPunctAt(2, "(") && p.startsQuery(3) {
		p.pos += 2
		name := t.Text
		if t.Kind == TokQuotedIdent {
			name = t.Val
		}
		if err := p.expectPunct("("); err != nil {
			return nil, err
		}
		q, err := p.parseSelectUnion()
		if err != nil {
			return nil, err
		}
		if err := p.expectPunct(")"); err != nil {
			return nil, err
		}
		return &WithItem{Name: name, Subquery: q}, nil
	}
	e, err := p.parseAliasedExpr(false)
	if err != nil {
		return nil, err
	}
	if e.Alias() == "" {
		return nil, p.errorf("WITH element needs an alias")
	}
	return &WithItem{Name: e.Alias(), Expr: e}, nil
}

// words that end a table expression / select-list element and therefore cannot
// be an alias given without AS
var noImplicitAlias = map[string]bool{}

func init() {
	for _, k := range strings.Fields(`FROM WHERE PREWHERE GROUP ORDER HAVING LIMIT OFFSET UNION INTERSECT EXCEPT SETTINGS FORMAT
		JOIN INNER LEFT RIGHT FULL CROSS OUTER ANY ALL ASOF SEMI ANTI GLOBAL ARRAY ON USING FINAL SAMPLE INTO WINDOW WITH
		AS AND OR NOT IN IS LIKE ILIKE BETWEEN DIV MOD THEN ELSE END WHEN ASC DESC NULLS BY QUALIFY REGEXP`) {
		noImplicitAlias[k] = true
	}
}

func (p *parser) parseTableExpr() (*TableExpr, error) {
	te := &TableExpr{Pos: p.errPos()}
	switch {
	case p.isPunct("("):
		if !p.startsQuery(1) {
			return nil, p.errorf("expected subquery")
		}
		p.pos++
		q, err := p.parseSelectUnion()
		if err != nil {
			return nil, err
		}
		if err := p.expectPunct(")"); err != nil {
			return nil, err
		}
		te.Subquery = q
	default:
		name, ok := p.parseName()
		if !ok {
			return nil, p.errorf("expected table name")
		}
		if p.isPunct("(") {
			// table function
			p.pos++
			args, err := p.parseExprList(false)
			if err != nil {
				return nil, err
			}
			if err := p.expectPunct(")"); err != nil {
				return nil, err
			}
			te.Func = &FuncCall{Name: name, Args: args}
		} else if p.isPunct(".") {
			p.pos++
			t2, ok := p.parseName()
			if !ok {
				return nil, p.errorf("expected table name after '.'")
			}
			te.Database, te.Table = name, t2
		} else {
			te.Table = name
		}
	}
	if p.acceptKw("FINAL") {
		te.Final = true
	}
	if p.isKw("SAMPLE") {
		return nil, unsupportedf("SAMPLE clause")
	}
	if p.acceptKw("AS") {
		a, ok := p.parseName()
		if !ok {
			return nil, p.errorf("expected alias after AS")
		}
		te.Alias = a
	} else if t := p.peek(); (isWordTok(t) && !noImplicitAlias[strings.ToUpper(t.Text)]) || t.Kind == TokQuotedIdent {
		a, _ := p.parseName()
		te.Alias = a
	}
	if p.acceptKw("FINAL") {
		te.Final = true
	}
	return te, nil
}

// parseName reads one bare or quoted identifier.
func (p *parser) parseName() (string, bool) {
	t := p.peek()
	switch {
	case isWordTok(t):
		p.pos++
		return t.Text, true
	case t.Kind == TokQuotedIdent:
		p.pos++
		return t.Val, true
	}
	return "", false
}

func (p *parser) parseJoin() (*Join, error) {
	if p.isPunct(",") {
		return nil, unsupportedf("comma join")
	}
	// collect modifier words up to JOIN
	k := 0
	mods := map[string]bool{}
	for {
		t := p.peekAt(k)
		if !isWordTok(t) {
			return nil, nil
		}
		w := strings.ToUpper(t.Text)
		if w == "JOIN" {
			break
		}
		switch w {
		case "GLOBAL", "ANY", "ALL", "ASOF", "SEMI", "ANTI", "INNER", "LEFT", "RIGHT", "FULL", "CROSS", "OUTER", "ARRAY", "PASTE":
			if mods[w] {
				return nil, nil
			}
			mods[w] = true
			k++
		default:
			return nil, nil
		}
		if k > 5 {
			return nil, nil
		}
	}
	p.pos += k + 1
	j := &Join{}
	if mods["ARRAY"] {
		for w := range mods {
			if w != "ARRAY" && w != "LEFT" {
				return nil, p.errorf("bad ARRAY JOIN modifier %s", w)
			}
		}
		j.Array = true
		j.ArrayLeft = mods["LEFT"]
		list, err := p.parseExprList(true)
		if err != nil {
			return nil, err
		}
		if len(list) == 0 {
			return nil, p.errorf("empty ARRAY JOIN list")
		}
		j.ArrayList = list
		return j, nil
	}
	if mods["PASTE"] {
		return nil, unsupportedf("PASTE JOIN")
	}
	j.Global = mods["GLOBAL"]
	for _, s := range []string{"ANY", "ALL", "ASOF", "SEMI", "ANTI"} {
		if mods[s] {
			if j.Strictness != "" {
				return nil, p.errorf("conflicting join strictness")
			}
			j.Strictness = s
		}
	}
	for _, s := range []string{"INNER", "LEFT", "RIGHT", "FULL", "CROSS"} {
		if mods[s] {
			if j.Kind != "" {
				return nil, p.errorf("conflicting join kind")
			}
			j.Kind = s
		}
	}
	if j.Kind == "" {
		j.Kind = "INNER"
	}
	te, err := p.parseTableExpr()
	if err != nil {
		return nil, err
	}
	j.Table = te
	switch {
	case p.acceptKw("ON"):
		if j.On, err = p.parseExprTop(); err != nil {
			return nil, err
		}
	case p.acceptKw("USING"):
		paren := p.acceptPunct("(")
		for {
			n, ok := p.parseName()
			if !ok {
				return nil, p.errorf("expected column name in USING")
			}
			j.Using = append(j.Using, n)
			if !p.acceptPunct(",") {
				break
			}
		}
		if paren {
			if err := p.expectPunct(")"); err != nil {
				return nil, err
			}
		}
	default:
		if j.Kind != "CROSS" {
			return nil, p.errorf("expected ON or USING")
		}
	}
	return j, nil
}

// ---------------------------------------------------------------------------
// expressions
// ---------------------------------------------------------------------------

// Operator priorities follow ClickHouse's ParserExpressionImpl operator table.
const (
	precLambda  = 1
	precTernary = 2
	precOr      = 3
	precAnd     = 4
	precNot     = 5
	precIsNull  = 6
	precBetween = 7
	precCompare = 9
	precConcat  = 10
	precAdd     = 11
	precMul     = 12
	precNegate  = 13
	precPostfix = 14
)

// parseExprList parses a comma separated list of expressions, each optionally
// aliased. implicitAlias allows `expr alias` (without AS) as in a select list.
func (p *parser) parseExprList(implicitAlias bool) ([]Expr, error) {
	var list []Expr
	if p.isPunct(")") || p.isPunct("]") {
		return list, nil
	}
	for {
		e, err := p.parseAliasedExpr(implicitAlias)
		if err != nil {
			return nil, err
		}
		list = append(list, e)
		if !p.acceptPunct(",") {
			return list, nil
		}
	}
}

// parseExprTop parses an expression in a clause position (WHERE, ON, ...);
// `AS alias` on sub-expressions is still accepted (ClickHouse allows it).
func (p *parser) parseExprTop() (Expr, error) { return p.parseAliasedExpr(false) }

func (p *parser) parseAliasedExpr(implicitAlias bool) (Expr, error) {
	e, err := p.parseExpr(precLambda)
	if err != nil {
		return nil, err
	}
	for {
		if p.isKw("AS") {
			t := p.peekAt(1)
			if !(isWordTok(t) || t.Kind == TokQuotedIdent) {
				return nil, p.errorf("expected alias after AS")
			}
			p.pos++
			a, _ := p.parseName()
			if _, isStar := e.(*Star); isStar {
				return nil, p.errorf("alias on *")
			}
			e.SetAlias(a)
			// ClickHouse lets the expression continue after an alias
			// (the alias applies to everything parsed so far).
			e, err = p.parseExprRest(e, precLambda)
			if err != nil {
				return nil, err
			}
			continue
		}
		if implicitAlias {
			t := p.peek()
			if (isWordTok(t) && !noImplicitAlias[strings.ToUpper(t.Text)]) || t.Kind == TokQuotedIdent {
				if _, isStar := e.(*Star); !isStar {
					a, _ := p.parseName()
					e.SetAlias(a)
				}
			}
		}
		return e, nil
	}
}

func (p *parser) parseExpr(minPrec int) (Expr, error) {
	left, err := p.parseUnary()
	if err != nil {
		return nil, err
	}
	return p.parseExprRest(left, minPrec)
}

type binOp struct {
	fn    string
	prec  int
	ntoks int
	text  string
}

func (p *parser) peekBinOp() (binOp, bool) {
	t := p.peek()
	if t.Kind == TokOp {
		switch t.Text {
		case "=", "==":
			return binOp{"equals", precCompare, 1, t.Text}, true
		case "!=", "<>":
			return binOp{"notEquals", precCompare, 1, t.Text}, true
		case "<":
			return binOp{"less", precCompare, 1, t.Text}, true
		case ">":
			return binOp{"greater", precCompare, 1, t.Text}, true
		case "<=":
			return binOp{"lessOrEquals", precCompare, 1, t.Text}, true
		case ">=":
			return binOp{"greaterOrEquals", precCompare, 1, t.Text}, true
		case "||":
			return binOp{"concat", precConcat, 1, t.Text}, true
		case "+":
			return binOp{"plus", precAdd, 1, t.Text}, true
		case "-":
			return binOp{"minus", precAdd, 1, t.Text}, true
		case "*":
			return binOp{"multiply", precMul, 1, t.Text}, true
		case "/":
			return binOp{"divide", precMul, 1, t.Text}, true
		case "%":
			return binOp{"modulo", precMul, 1, t.Text}, true
		}
		return binOp{}, false
	}
	if !isWordTok(t) {
		return binOp{}, false
	}
	switch strings.ToUpper(t.Text) {
	case "OR":
		return binOp{"or", precOr, 1, "OR"}, true
	case "AND":
		return binOp{"and", precAnd, 1, "AND"}, true
	case "LIKE":
		return binOp{"like", precCompare, 1, "LIKE"}, true
	case "ILIKE":
		return binOp{"ilike", precCompare, 1, "ILIKE"}, true
	case "REGEXP":
		return binOp{"match", precCompare, 1, "REGEXP"}, true
	case "IN":
		return binOp{"in", precCompare, 1, "IN"}, true
	case "DIV":
		return binOp{"intDiv", precMul, 1, "DIV"}, true
	case "MOD":
		return binOp{"modulo", precMul, 1, "MOD"}, true
	case "NOT":
		switch {
		case p.isKwAt(1, "LIKE"):
			return binOp{"notLike", precCompare, 2, "NOT LIKE"}, true
		case p.isKwAt(1, "ILIKE"):
			return binOp{"notILike", precCompare, 2, "NOT ILIKE"}, true
		case p.isKwAt(1, "IN"):
			return binOp{"notIn", precCompare, 2, "NOT IN"}, true
		}
	case "GLOBAL":
		switch {
		case p.isKwAt(1, "IN"):
			return binOp{"globalIn", precCompare, 2, "GLOBAL IN"}, true
		case p.isKwAt(1, "NOT") && p.isKwAt(2, "IN"):
			return binOp{"globalNotIn", precCompare, 3, "GLOBAL NOT IN"}, true
		}
	}
	return binOp{}, false
}

func (p *parser) parseExprRest(left Expr, minPrec int) (Expr, error) {
	for {
		pos := p.errPos()
		// lambda: x -> body, (x, y) -> body
		if p.isPunct("->") && minPrec <= precLambda {
			params, ok := lambdaParams(left)
			if !ok {
				return nil, p.errorf("bad lambda parameter list")
			}
			p.pos++
			body, err := p.parseExpr(precLambda)
			if err != nil {
				return nil, err
			}
			left = &Lambda{exprBase: exprBase{Pos: pos}, Params: params, Body: body}
			continue
		}
		// ternary
		if p.isPunct("?") && minPrec <= precTernary {
			p.pos++
			a, err := p.parseExpr(precTernary + 1)
			if err != nil {
				return nil, err
			}
			if err := p.expectPunct(":"); err != nil {
				return nil, err
			}
			b, err := p.parseExpr(precTernary)
			if err != nil {
				return nil, err
			}
			left = &FuncCall{exprBase: exprBase{Pos: pos}, Name: "if", Args: []Expr{left, a, b}, Operator: "?:"}
			continue
		}
		// IS [NOT] NULL
		if p.isKw("IS") && minPrec <= precIsNull {
			if p.acceptKw("IS", "NOT", "NULL") {
				left = &FuncCall{exprBase: exprBase{Pos: pos}, Name: "isNotNull", Args: []Expr{left}, Operator: "IS NOT NULL"}
				continue
			}
			if p.acceptKw("IS", "NULL") {
				left = &FuncCall{exprBase: exprBase{Pos: pos}, Name: "isNull", Args: []Expr{left}, Operator: "IS NULL"}
				continue
			}
			return nil, p.errorf("expected NULL or NOT NULL after IS")
		}
		// [NOT] BETWEEN a AND b
		if minPrec <= precBetween && (p.isKw("BETWEEN") || (p.isKw("NOT") && p.isKwAt(1, "BETWEEN"))) {
			not := p.acceptKw("NOT")
			p.pos++
			lo, err := p.parseExpr(precBetween + 1)
			if err != nil {
				return nil, err
			}
			if err := p.expectKw("AND"); err != nil {
				return nil, err
			}
			hi, err := p.parseExpr(precBetween + 1)
			if err != nil {
				return nil, err
			}
			if not {
				left = &FuncCall{exprBase: exprBase{Pos: pos}, Name: "or", Operator: "NOT BETWEEN", Args: []Expr{
					&FuncCall{exprBase: exprBase{Pos: pos}, Name: "less", Args: []Expr{left, lo}, Operator: "<"},
					&FuncCall{exprBase: exprBase{Pos: pos}, Name: "greater", Args: []Expr{left, hi}, Operator: ">"}}}
			} else {
				left = &FuncCall{exprBase: exprBase{Pos: pos}, Name: "and", Operator: "BETWEEN", Args: []Expr{
					&FuncCall{exprBase: exprBase{Pos: pos}, Name: "greaterOrEquals", Args: []Expr{left, lo}, Operator: ">="},
					&FuncCall{exprBase: exprBase{Pos: pos}, Name: "lessOrEquals", Args: []Expr{left, hi}, Operator: "<="}}}
			}
			continue
		}
		// postfix operators
		if minPrec <= precPostfix {
			if p.isPunct("[") {
				p.pos++
				idx, err := p.parseAliasedExpr(false)
				if err != nil {
					return nil, err
				}
				if err := p.expectPunct("]"); err != nil {
					return nil, err
				}
				left = &FuncCall{exprBase: exprBase{Pos: pos}, Name: "arrayElement", Args: []Expr{left, idx}, Operator: "[]"}
				continue
			}
			if p.isPunct("::") {
				p.pos++
				tn, err := p.parseTypeName()
				if err != nil {
					return nil, err
				}
				left = &CastExpr{exprBase: exprBase{Pos: pos}, Expr: left, Type: tn}
				continue
			}
			if p.isPunct(".") {
				t := p.peekAt(1)
				if t.Kind == TokNumber && isAllDigits(t.Text) {
					p.pos += 2
					n, _ := strconv.ParseUint(t.Text, 10, 64)
					left = &FuncCall{exprBase: exprBase{Pos: pos}, Name: "tupleElement", Operator: ".",
						Args: []Expr{left, &Literal{exprBase: exprBase{Pos: t.Pos}, Val: n, Text: t.Text}}}
					continue
				}
				if isWordTok(t) || t.Kind == TokQuotedIdent {
					p.pos++
					name, _ := p.parseName()
					left = &FuncCall{exprBase: exprBase{Pos: pos}, Name: "tupleElement", Operator: ".",
						Args: []Expr{left, &Literal{exprBase: exprBase{Pos: t.Pos}, Val: name}}}
					continue
				}
				return nil, p.errorf("unexpected token after '.'")
			}
		}
		op, ok := p.peekBinOp()
		if !ok || op.prec < minPrec {
			return left, nil
		}
		p.pos += op.ntoks
		right, err := p.parseExpr(op.prec + 1)
		if err != nil {
			return nil, err
		}
		left = &FuncCall{exprBase: exprBase{Pos: pos}, Name: op.fn, Args: []Expr{left, right}, Operator: op.text}
	}
}

func isAllDigits(s string) bool {
	for i := 0; i < len(s); i++ {
		if !isDigit(s[i]) {
			return false
		}
	}
	return s != ""
}

func lambdaParams(e Expr) ([]string, bool) {
	switch n := e.(type) {
	case *Ident:
		if len(n.Parts) == 1 && n.As == "" {
			return []string{n.Parts[0]}, true
		}
	case *TupleLit:
		var ps []string
		for _, el := range n.Elems {
			id, ok := el.(*Ident)
			if !ok || len(id.Parts) != 1 || id.As != "" {
				return nil, false
			}
			ps = append(ps, id.Parts[0])
		}
		return ps, len(ps) > 0
	}
	return nil, false
}

// parenExpr is a transient marker for a parenthesised single expression, needed
// only to recognise `(x) -> ...`; it is unwrapped by parseUnary's caller.
type parenExpr struct {
	exprBase
	Expr Expr
}

func (p *parenExpr) String() string { return "(" + p.Expr.String() + ")" }

func (p *parser) parseUnary() (Expr, error) {
	pos := p.errPos()
	if p.isKw("NOT") {
		// `not(x)` written as a function call is the same as the operator
		// applied to a parenthesised operand.
		p.pos++
		e, err := p.parseExpr(precNot + 1)
		if err != nil {
			return nil, err
		}
		return &FuncCall{exprBase: exprBase{Pos: pos}, Name: "not", Args: []Expr{e}, Operator: "NOT"}, nil
	}
	if p.isPunct("-") {
		p.pos++
		if t := p.peek(); t.Kind == TokNumber {
			lit, err := p.parseNumber(true)
			if err != nil {
				return nil, err
			}
			return p.parseExprRest(lit, precPostfix)
		}
		e, err := p.parseExpr(precNegate + 1)
		if err != nil {
			return nil, err
		}
		return &FuncCall{exprBase: exprBase{Pos: pos}, Name: "negate", Args: []Expr{e}, Operator: "-"}, nil
	}
	if p.isPunct("+") {
		// unary plus: ClickHouse accepts it before numbers
		if p.peekAt(1).Kind == TokNumber {
			p.pos++
			return p.parseNumber(false)
		}
		return nil, p.errorf("unexpected '+'")
	}
	e, err := p.parsePrimary()
	if err != nil {
		return nil, err
	}
	if pe, ok := e.(*parenExpr); ok {
		if p.isPunct("->") {
			params, ok := lambdaParams(pe.Expr)
			if !ok {
				return nil, p.errorf("bad lambda parameter list")
			}
			p.pos++
			body, err := p.parseExpr(precLambda)
			if err != nil {
				return nil, err
			}
			return &Lambda{exprBase: exprBase{Pos: pos}, Params: params, Body: body}, nil
		}
		return pe.Expr, nil
	}
	if tl, ok := e.(*TupleLit); ok && p.isPunct("->") {
		params, ok := lambdaParams(tl)
		if !ok {
			return nil, p.errorf("bad lambda parameter list")
		}
		p.pos++
		body, err := p.parseExpr(precLambda)
		if err != nil {
			return nil, err
		}
		return &Lambda{exprBase: exprBase{Pos: pos}, Params: params, Body: body}, nil
	}
	return e, nil
}

func (p *parser) parseNumber(negative bool) (Expr, error) {
	t := p.next()
	pos := t.Pos
	text := t.Text
	if negative {
		text = "-" + text
	}
	lit := &Literal{exprBase: exprBase{Pos: pos}, Text: text}
	lower := strings.ToLower(t.Text)
	isFloat := false
	if strings.HasPrefix(lower, "0x") {
		isFloat = strings.ContainsAny(lower, ".p")
	} else if strings.HasPrefix(lower, "0b") {
		u, err := strconv.ParseUint(lower[2:], 2, 64)
		if err != nil {
			return nil, syntaxErrf(pos, "bad number %q", t.Text)
		}
		if negative {
			lit.Val = -int64(u)
		} else {
			lit.Val = u
		}
		return lit, nil
	} else {
		isFloat = strings.ContainsAny(lower, ".e")
	}
	if !isFloat {
		u, err := strconv.ParseUint(lower, 0, 64)
		if strings.HasPrefix(lower, "0") && !strings.HasPrefix(lower, "0x") {
			// leading zeros are decimal in ClickHouse, not octal
			u, err = strconv.ParseUint(strings.TrimLeft(lower, "0")+"", 10, 64)
			if strings.TrimLeft(lower, "0") == "" {
				u, err = 0, nil
			}
		}
		if err == nil {
			if negative {
				if u <= 1<<63 {
					lit.Val = -int64(u) // -(1<<63) wraps correctly
					if u == 1<<63 {
						lit.Val = int64(math.MinInt64)
					}
					return lit, nil
				}
				lit.Val = -float64(u)
				return lit, nil
			}
			lit.Val = u
			return lit, nil
		}
		// too big for UInt64: ClickHouse falls back to Float64
	}
	f, err := strconv.ParseFloat(lower, 64)
	if err != nil {
		// strconv handles hex floats only with a p exponent
		if strings.HasPrefix(lower, "0x") && !strings.Contains(lower, "p") {
			f, err = strconv.ParseFloat(lower+"p0", 64)
		}
		if err != nil {
			return nil, syntaxErrf(pos, "bad number %q", t.Text)
		}
	}
	if negative {
		f = -f
	}
	lit.Val = f
	return lit, nil
}

func (p *parser) parsePrimary() (Expr, error) {
	t := p.peek()
	pos := t.Pos
	base := exprBase{Pos: pos}
	switch t.Kind {
	case TokNumber:
		return p.parseNumber(false)
	case TokString:
		p.pos++
		return &Literal{exprBase: base, Val: t.Val}, nil
	case TokParam:
		p.pos++
		return &Param{exprBase: base, Text: t.Text}, nil
	case TokQuotedIdent:
		return p.parseIdentOrCall()
	case TokIdent, TokKeyword:
		up := strings.ToUpper(t.Text)
		switch up {
		case "NULL":
			if !p.isPunctAt(1, "(") {
				p.pos++
				return &Literal{exprBase: base, Val: nil, Text: "NULL"}, nil
			}
		case "TRUE", "FALSE":
			if !p.isPunctAt(1, "(") && !p.isPunctAt(1, ".") {
				p.pos++
				return &Literal{exprBase: base, Val: up == "TRUE", Text: strings.ToLower(up)}, nil
			}
		case "CASE":
			if !p.isPunctAt(1, "(") && !p.isPunctAt(1, ".") && !p.isPunctAt(1, ",") {
				return p.parseCase()
			}
		case "CAST":
			if p.isPunctAt(1, "(") {
				return p.parseCast()
			}
		case "INTERVAL":
			if !p.isPunctAt(1, "(") && !p.isPunctAt(1, ".") && !p.isPunctAt(1, ",") && !p.isPunctAt(1, ")") {
				return p.parseInterval()
			}
		case "EXISTS":
			if p.isPunctAt(1, "(") && p.startsQuery(2) {
				return nil, unsupportedf("EXISTS (subquery)")
			}
		case "DATE", "TIMESTAMP":
			if p.peekAt(1).Kind == TokString {
				return nil, unsupportedf("%s 'literal' syntax", up)
			}
		case "SELECT", "FROM", "WHERE":
			return nil, p.errorf("unexpected keyword %s", up)
		}
		return p.parseIdentOrCall()
	case TokOp:
		if t.Text == "*" {
			p.pos++
			return &Star{exprBase: base}, nil
		}
	case TokPunct:
		switch t.Text {
		case "(":
			if p.isKwAt(1, "SELECT") || p.isKwAt(1, "WITH") || (p.isPunctAt(1, "(") && p.startsQuery(1) && p.parenIsQuery()) {
				p.pos++
				q, err := p.parseSelectUnion()
				if err != nil {
					return nil, err
				}
				if err := p.expectPunct(")"); err != nil {
					return nil, err
				}
				return &Subquery{exprBase: base, Query: q}, nil
			}
			p.pos++
			if p.acceptPunct(")") {
				return &TupleLit{exprBase: base}, nil
			}
			list, err := p.parseExprList(false)
			if err != nil {
				return nil, err
			}
			if err := p.expectPunct(")"); err != nil {
				return nil, err
			}
			if len(list) == 1 {
				return &parenExpr{exprBase: base, Expr: list[0]}, nil
			}
			return &TupleLit{exprBase: base, Elems: list}, nil
		case "[":
			p.pos++
			list, err := p.parseExprList(false)
			if err != nil {
				return nil, err
			}
			if err := p.expectPunct("]"); err != nil {
				return nil, err
			}
			return &ArrayLit{exprBase: base, Elems: list}, nil
		}
	}
	return nil, p.errorf("unexpected token %q in expression", t.Text)
}

// parenIsQuery decides whether "((" ... starts a parenthesised query
// ((SELECT ...) UNION ALL (SELECT ...)) rather than an expression such as
// ((SELECT 1) + 1). It scans to the parenthesis matching the second "(" and
// looks at what follows.
func (p *parser) parenIsQuery() bool {
	depth := 0
	for k := 1; ; k++ {
		t := p.peekAt(k)
		if t.Pos == -1 {
			return false
		}
		if t.Kind == TokPunct && t.Text == "(" {
			depth++
		} else if t.Kind == TokPunct && t.Text == ")" {
			depth--
			if depth == 0 {
				n := p.peekAt(k + 1)
				if n.Kind == TokPunct && n.Text == ")" {
					return true
				}
				if isWordTok(n) {
					switch strings.ToUpper(n.Text) {
					case "UNION", "INTERSECT", "EXCEPT":
						return true
					}
				}
				return false
			}
		}
	}
}

func (p *parser) parseIdentOrCall() (Expr, error) {
	t := p.peek()
	pos := t.Pos
	name, _ := p.parseName()
	if p.isPunct("(") && t.Kind != TokQuotedIdent {
		return p.parseCall(name, pos)
	}
	parts := []string{name}
	for p.isPunct(".") {
		n := p.peekAt(1)
		if isWordTok(n) || n.Kind == TokQuotedIdent {
			p.pos++
			s, _ := p.parseName()
			parts = append(parts, s)
			continue
		}
		if n.Kind == TokOp && n.Text == "*" {
			p.pos += 2
			return &Star{exprBase: exprBase{Pos: pos}, Qualifier: strings.Join(parts, ".")}, nil
		}
		break
	}
	return &Ident{exprBase: exprBase{Pos: pos}, Parts: parts}, nil
}

func (p *parser) parseCall(name string, pos int) (Expr, error) {
	p.pos++ // (
	f := &FuncCall{exprBase: exprBase{Pos: pos}, Name: name}
	if p.acceptKw("DISTINCT") {
		f.Distinct = true
	}
	lname := strings.ToLower(name)
	// special syntaxes that are not plain argument lists
	if (lname == "extract" || lname == "substring" || lname == "trim" || lname == "position") && p.callHasKeywordSyntax() {
		return nil, unsupportedf("%s(... FROM/IN/FOR ...) keyword syntax", name)
	}
	args, err := p.parseExprList(false)
	if err != nil {
		return nil, err
	}
	if err := p.expectPunct(")"); err != nil {
		return nil, err
	}
	f.Args = args
	if args == nil {
		f.Args = []Expr{}
	}
	if p.isPunct("(") {
		// parametric aggregate function: name(params)(args)
		p.pos++
		if p.acceptKw("DISTINCT") {
			f.Distinct = true
		}
		args2, err := p.parseExprList(false)
		if err != nil {
			return nil, err
		}
		if err := p.expectPunct(")"); err != nil {
			return nil, err
		}
		f.Params = f.Args
		f.Args = args2
		if args2 == nil {
			f.Args = []Expr{}
		}
	}
	if p.isKw("OVER") && (p.isPunctAt(1, "(") || isWordTok(p.peekAt(1))) {
		return nil, unsupportedf("window function %s(...) OVER", name)
	}
	if p.isKw("FILTER") && p.isPunctAt(1, "(") {
		return nil, unsupportedf("FILTER (WHERE ...) clause")
	}
	return f, nil
}

// callHasKeywordSyntax scans the current argument list for a top-level FROM / IN /
// FOR / BOTH / LEADING / TRAILING keyword.
func (p *parser) callHasKeywordSyntax() bool {
	depth := 0
	for k := 0; ; k++ {
		t := p.peekAt(k)
		if t.Pos == -1 {
			return false
		}
		if t.Kind == TokPunct && (t.Text == "(" || t.Text == "[") {
			depth++
		} else if t.Kind == TokPunct && (t.Text == ")" || t.Text == "]") {
			if depth == 0 {
				return false
			}
			depth--
		} else if depth == 0 && isWordTok(t) {
			switch strings.ToUpper(t.Text) {
			case "FROM", "FOR", "BOTH", "LEADING", "TRAILING":
				return true
			}
		}
	}
}

func (p *parser) parseCase() (Expr, error) {
	pos := p.errPos()
	p.pos++ // CASE
	c := &CaseExpr{exprBase: exprBase{Pos: pos}}
	var err error
	if !p.isKw("WHEN") {
		if c.Operand, err = p.parseAliasedExpr(false); err != nil {
			return nil, err
		}
	}
	for p.acceptKw("WHEN") {
		w, err := p.parseAliasedExpr(false)
		if err != nil {
			return nil, err
		}
		if err := p.expectKw("THEN"); err != nil {
			return nil, err
		}
		t, err := p.parseAliasedExpr(false)
		if err != nil {
			return nil, err
		}
		c.Whens = append(c.Whens, [2]Expr{w, t})
	}
	if len(c.Whens) == 0 {
		return nil, p.errorf("CASE without WHEN")
	}
	if p.acceptKw("ELSE") {
		if c.Else, err = p.parseAliasedExpr(false); err != nil {
			return nil, err
		}
	}
	if err := p.expectKw("END"); err != nil {
		return nil, err
	}
	return c, nil
}

func (p *parser) parseCast() (Expr, error) {
	pos := p.errPos()
	p.pos += 2 // CAST (
	e, err := p.parseExpr(precLambda)
	if err != nil {
		return nil, err
	}
	var tn string
	switch {
	case p.acceptKw("AS"):
		if tn, err = p.parseTypeName(); err != nil {
			return nil, err
		}
	case p.acceptPunct(","):
		t := p.next()
		if t.Kind != TokString {
			return nil, p.errorf("CAST(x, T): T must be a string literal")
		}
		tn = t.Val
	default:
		return nil, p.errorf("expected AS or ',' in CAST")
	}
	if err := p.expectPunct(")"); err != nil {
		return nil, err
	}
	return &CastExpr{exprBase: exprBase{Pos: pos}, Expr: e, Type: tn}, nil
}

// parseTypeName reads a type such as Int8, Nullable(String), Array(Tuple(String, UInt64)),
// FixedString(16), DateTime64(3, 'UTC') and returns its source text (normalised spacing).
func (p *parser) parseTypeName() (string, error) {
	t := p.next()
	if !isWordTok(t) && t.Kind != TokQuotedIdent {
		return "", p.errorf("expected type name")
	}
	var b strings.Builder
	b.WriteString(t.Text)
	if p.isPunct("(") {
		depth := 0
		for {
			t := p.next()
			if t.Pos == -1 {
				return "", p.errorf("unterminated type name")
			}
			b.WriteString(t.Text)
			if t.Kind == TokPunct && t.Text == "," {
				b.WriteString(" ")
			}
			if t.Kind == TokPunct && t.Text == "(" {
				depth++
			}
			if t.Kind == TokPunct && t.Text == ")" {
				depth--
				if depth == 0 {
					break
				}
			}
			// "name Type" inside named tuples
			if isWordTok(t) && isWordTok(p.peek()) {
				b.WriteString(" ")
			}
		}
	}
	return b.String(), nil
}

func (p *parser) parseInterval() (Expr, error) {
	pos := p.errPos()
	p.pos++ // INTERVAL
	v, err := p.parseExpr(precNegate)
	if err != nil {
		return nil, err
	}
	iv := &IntervalExpr{exprBase: exprBase{Pos: pos}, Value: v}
	if t := p.peek(); isWordTok(t) {
		if u := normalizeIntervalUnit(t.Text); u != "" {
			p.pos++
			iv.Unit = u
		}
	}
	if iv.Unit == "" {
		if l, ok := v.(*Literal); !ok || func() bool { _, s := l.Val.(string); return !s }() {
			return nil, p.errorf("INTERVAL needs a unit")
		}
	}
	return iv, nil
}

func normalizeIntervalUnit(s string) string {
	u := strings.ToUpper(s)
	switch strings.TrimSuffix(u, "S") {
	case "NANOSECOND", "MICROSECOND", "MILLISECOND", "SECOND", "MINUTE", "HOUR", "DAY", "WEEK", "MONTH", "QUARTER", "YEAR":
		return strings.TrimSuffix(u, "S")
	}
	return ""
}

package chsql

import (
	"errors"
	"fmt"
	"math"
	"reflect"
	"testing"
	"time"
)

// one evaluates a query that must return exactly one row with one column.
func one(t *testing.T, db *DB, sql string) any {
	t.Helper()
	res, err := db.Query(sql)
	if err != nil {
		t.Fatalf("%s: %v", sql, err)
	}
	if len(res.Rows) != 1 || len(res.Rows[0]) != 1 {
		t.Fatalf("%s: want 1x1 result, got %v", sql, res.Rows)
	}
	return res.Rows[0][0]
}

func arr(v ...any) []any { return v }

func sameValue(got, want any) bool {
	if f, ok := want.(float64); ok {
		g, ok := got.(float64)
		if !ok {
			return false
		}
		if math.IsNaN(f) {
			return math.IsNaN(g)
		}
		return g == f || math.Abs(g-f) <= 1e-12*math.Max(1, math.Abs(f))
	}
	if w, ok := want.([]any); ok {
		g, ok := got.([]any)
		if !ok || len(g) != len(w) {
			return false
		}
		for i := range w {
			if !sameValue(g[i], w[i]) {
				return false
			}
		}
		return true
	}
	if w, ok := want.(Tuple); ok {
		g, ok := got.(Tuple)
		return ok && sameValue([]any(g), []any(w))
	}
	return reflect.DeepEqual(got, want)
}

type exprCase struct {
	sql  string // the expression (wrapped in SELECT ...)
	want any
}

func runExprCases(t *testing.T, cases []exprCase) {
	t.Helper()
	db := NewDB()
	db.Now = func() time.Time { return time.Unix(1700000000, 0) }
	for _, c := range cases {
		got := one(t, db, "SELECT "+c.sql)
		if !sameValue(got, c.want) {
			t.Errorf("SELECT %s\n   got  %#v (%T)\n   want %#v (%T)", c.sql, got, got, c.want, c.want)
		}
	}
}

func u(v uint64) any { return v }
func i(v int64) any  { return v }
func sm(kv ...string) any {
	m := map[string]string{}
	for k := 0; k < len(kv); k += 2 {
		m[kv[k]] = kv[k+1]
	}
	return m
}

func TestArithmeticAndTyping(t *testing.T) {
	runExprCases(t, []exprCase{
		{"1 + 2", u(3)},
		{"toTypeName(1 + 2)", "UInt16"}, // UInt8 + UInt8 -> UInt16
		{"toTypeName(255 + 255)", "UInt16"},
		{"toTypeName(256 * 2)", "UInt32"},
		{"toTypeName(1 - 2)", "Int16"}, // subtraction is always signed
		{"1 - 2", i(-1)},
		{"toTypeName(toUInt64(1) - toUInt64(2))", "Int64"},
		{"toUInt64(1) - toUInt64(2)", i(-1)},
		{"toTypeName(toUInt64(1) + toInt8(1))", "Int64"},
		{"toUInt64(18446744073709551615) + 1", u(0)}, // unsigned wraparound
		{"toTypeName(1 / 2)", "Float64"},
		{"1 / 2", 0.5},
		{"1 / 0", math.Inf(1)},
		{"toTypeName(-1)", "Int8"},
		{"toTypeName(-129)", "Int16"},
		{"toTypeName(65536)", "UInt32"},
		{"toTypeName(4294967296)", "UInt64"},
		{"toTypeName(1.5)", "Float64"},
		{"toTypeName(-(1))", "Int16"}, // negate(UInt8)
		// intDiv / modulo: docs "intDiv(a, b): rounds toward zero"; C++ semantics for negatives
		{"intDiv(7, 2)", u(3)},
		{"intDiv(-7, 2)", i(-3)},
		{"intDiv(7, -2)", i(-3)},
		{"toTypeName(intDiv(toInt64(7), 2))", "Int64"},
		{"toTypeName(intDiv(toUInt32(7), toUInt64(2)))", "UInt32"}, // size of the dividend
		{"7 % 3", u(1)},
		{"-7 % 3", i(-1)},
		{"7 % -3", u(1)},                            // the result has the signedness of the dividend
		{"toTypeName(toInt64(7) % 60000)", "Int32"}, // signed dividend, UInt16 divisor -> Int32
		{"toTypeName(toUInt64(7) % 3)", "UInt8"},    // result has the size of the divisor
		{"toInt32(-199) % toUInt8(200)", i(-199)},   // example from NumberTraits.h
		{"modulo(10.5, 3)", 1.5},
		{"toInt64(1700000000123) % 60000", i(1700000000123 % 60000)},
		{"intDiv(toInt64(1700000000123456789), 15000000000) * 15000000000", i(1700000000123456789 / 15000000000 * 15000000000)},
		// bit functions keep the width of their arguments
		{"bitShiftLeft(1, 3)", u(8)},
		{"toTypeName(bitShiftLeft(1, 3))", "UInt8"},
		{"bitShiftLeft(1, 8)", u(0)}, // UInt8 overflow!
		{"bitShiftLeft(toUInt64(1), 40)", u(1 << 40)},
		{"bitShiftLeft(1 = 1, 0) + bitShiftLeft(2 = 2, 1)", u(3)},
		{"toTypeName(bitShiftLeft(1 = 1, 0) + bitShiftLeft(2 = 2, 1))", "UInt16"},
		{"bitAnd(7, 5)", u(5)},
		{"bitOr(1, 256)", u(257)},
		{"toTypeName(bitOr(1, 256))", "UInt16"},
		{"bitXor(7, 2)", u(5)},
		{"bitShiftRight(-8, 1)", i(-4)},
		{"bitNot(toUInt8(1))", u(254)},
		{"abs(-5)", u(5)},
		{"round(2.5)", 2.0}, // banker's rounding (docs of round())
		{"round(3.5)", 4.0},
		{"round(1.2345, 2)", 1.23},
		{"floor(-1.5)", -2.0},
		{"ceil(1.2)", 2.0},
		{"sqrt(16)", 4.0},
		{"pow(2, 10)", 1024.0},
		{"greatest(1, 2.5, -1)", 2.5},
		{"least(3, 2)", u(2)},
	})
}

func TestComparisonAndLogic(t *testing.T) {
	runExprCases(t, []exprCase{
		{"1 = 1", u(1)},
		{"1 == 2", u(0)},
		{"1 != 2", u(1)},
		{"1 <> 1", u(0)},
		{"toTypeName(1 = 1)", "UInt8"},
		{"-1 < toUInt64(1)", u(1)},                    // accurate signed/unsigned comparison
		{"toUInt64(18446744073709551615) > -1", u(1)}, // not reinterpret-cast
		{"toInt64(-1) = toUInt64(18446744073709551615)", u(0)},
		{"1 = 1.0", u(1)},
		{"9007199254740993 = 9007199254740992.0", u(0)}, // exact int/float comparison
		{"'a' < 'b'", u(1)},
		{"'a' = 'a'", u(1)},
		{"(1, 'a') = (1, 'a')", u(1)},
		{"(1, 'a') != (1, 'b')", u(1)},
		{"(1, 2) < (1, 3)", u(1)},
		{"[1, 2] = [1, 2]", u(1)},
		{"[1, 2] < [1, 2, 0]", u(1)},
		{"NULL = 1", nil},
		{"NULL IS NULL", u(1)},
		{"1 IS NOT NULL", u(1)},
		{"isNull(NULL)", u(1)},
		{"isNotNull(toFloat64OrNull('x'))", u(0)},
		// three-valued logic
		{"NULL AND 0", u(0)},
		{"NULL AND 1", nil},
		{"NULL OR 1", u(1)},
		{"NULL OR 0", nil},
		{"NOT NULL", nil},
		{"not 0", u(1)},
		{"1 AND 2 AND 3", u(1)},
		{"0 OR 0", u(0)},
		{"1 = 1 AND 2 = 2 OR 1 = 0", u(1)},
		{"NOT 1 = 2", u(1)}, // NOT binds weaker than =
		{"1 + 2 * 3", u(7)},
		{"(1 + 2) * 3", u(9)},
		{"2 * 3 % 4", u(2)},
		{"-2 + 5", i(3)},
		{"1 BETWEEN 0 AND 2", u(1)},
		{"5 NOT BETWEEN 0 AND 2", u(1)},
		{"1 ? 'y' : 'n'", "y"},
		{"if(0, 'y', 'n')", "n"},
		{"if(1, 1, intDiv(1, 0))", u(1)}, // lazy (short_circuit_function_evaluation)
		{"multiIf(0, 'a', 1, 'b', 'c')", "b"},
		{"multiIf(0, 'a', 0, 'b', 'c')", "c"},
		{"CASE WHEN 1 = 2 THEN 'a' WHEN 1 = 1 THEN 'b' ELSE 'c' END", "b"},
		{"CASE 3 WHEN 1 THEN 'a' WHEN 3 THEN 'b' END", "b"},
		{"ifNull(NULL, 5)", u(5)},
		{"ifNull(3, 5)", u(3)},
		{"coalesce(NULL, NULL, 7, 8)", u(7)},
		{"nullIf(1, 1)", nil},
		{"nullIf(1, 2)", u(1)},
		{"isNaN(0 / 0)", u(1)},
		{"0 / 0 = 0 / 0", u(0)}, // NaN
		// comparison with a constant string: the string is parsed as the other type
		{"toDate('2023-11-14') >= '2023-11-14'", u(1)},
		{"toDate('2023-11-14') < '2023-11-15'", u(1)},
		{"1 = '1'", u(1)},
		{"toDate('2023-11-14') = toDate(19675)", u(1)},
		{"toFixedString('ab', 4) = 'ab'", u(1)}, // zero padded comparison
		{"toFixedString('ab', 4) = 'abc'", u(0)},
	})
}

func TestTypeErrors(t *testing.T) {
	db := NewDB()
	db.CreateTable("t", []Column{{"s", "String"}, {"n", "UInt64"}, {"d", "Date"}})
	if err := db.Insert("t", []any{"1", uint64(1), "2023-01-01"}); err != nil {
		t.Fatal(err)
	}
	for _, q := range []string{
		"SELECT s = n FROM t",     // String column vs number column
		"SELECT s < 1 FROM t",     // String column vs number constant
		"SELECT n > 'abc' FROM t", // cannot parse the constant as a number (not ErrType but an error)
		"SELECT s + 1 FROM t",     // arithmetic on strings
		"SELECT * FROM t WHERE s", // String as a condition
		"SELECT 'a' AND 1",        // String in and()
		"SELECT [1, 'a']",         // no supertype
		"SELECT d = 'not a date' FROM t",
		"SELECT n IN ('a') FROM t",
		"SELECT sum(s) FROM t",
		"SELECT lower(n) FROM t",
		"SELECT 1 WHERE ()",
	} {
		_, err := db.Query(q)
		if err == nil {
			t.Errorf("%s: expected an error", q)
			continue
		}
		if errors.Is(err, ErrUnsupported) {
			t.Errorf("%s: must be a real error, not ErrUnsupported: %v", q, err)
		}
	}
	// the same type error is reported on an empty table (static typing)
	db.CreateTable("e", []Column{{"s", "String"}, {"n", "UInt64"}})
	if _, err := db.Query("SELECT s = n FROM e"); !errors.Is(err, ErrType) {
		t.Errorf("type error on empty table: %v", err)
	}
	if _, err := db.Query("SELECT 1 FROM e WHERE s = n"); !errors.Is(err, ErrType) {
		t.Errorf("type error in WHERE on empty table: %v", err)
	}
}

func TestUnsupported(t *testing.T) {
	db := NewDB()
	db.CreateTable("t", []Column{{"n", "UInt64"}})
	for _, q := range []string{
		"SHOW TABLES", "CREATE TABLE x (a UInt8) ENGINE = Memory", "ALTER TABLE t ADD COLUMN a UInt8", "INSERT INTO t VALUES (1)",
		"SELECT row_number() OVER (ORDER BY n) FROM t", "SELECT * FROM system.tables", "SELECT * FROM t SAMPLE 0.1",
		"SELECT uniq(n) FROM t", "SELECT quantileTDigest(n) FROM t", "SELECT sipHash64('a')", "SELECT rand()",
		"SELECT * FROM numbers(10)", "SELECT n FROM t FINAL", "SELECT someUnknownFunction(1)", "SELECT arrayJoin([1,2])",
		"SELECT 1 UNION SELECT 2", "SELECT n FROM t GROUP BY n WITH TOTALS", "SELECT * FROM t ASOF JOIN t AS u USING n",
	} {
		if _, err := db.Query(q); !errors.Is(err, ErrUnsupported) {
			t.Errorf("%s: want ErrUnsupported, got %v", q, err)
		}
	}
}

func TestConversions(t *testing.T) {
	runExprCases(t, []exprCase{
		{"toUInt64('123')", u(123)},
		{"toInt64('-5')", i(-5)},
		{"toUInt8(257)", u(1)}, // wraps like static_cast
		{"toInt8(200)", i(-56)},
		{"toUInt64(-1)", u(math.MaxUint64)},
		{"toInt64(3.99)", i(3)},
		{"toInt64(-3.99)", i(-3)},
		{"toFloat64('1.5')", 1.5},
		{"toFloat64(3)", 3.0},
		{"toFloat64OrNull('abc')", nil},
		{"toFloat64OrNull('')", nil},
		{"toFloat64OrNull('1.5')", 1.5},
		{"toFloat64OrNull('1.5x')", nil},
		{"toFloat64OrNull(' 1')", nil},
		{"toFloat64OrNull('-1e3')", -1000.0},
		{"toFloat64OrNull('.5')", 0.5},
		{"toFloat64OrNull('+5')", 5.0},
		{"toFloat64OrNull('inf')", math.Inf(1)},
		{"toFloat64OrNull('-inf')", math.Inf(-1)},
		{"isNaN(toFloat64OrNull('nan'))", u(1)},
		{"toFloat64OrNull('0x10')", nil},
		{"toFloat64OrNull('598')", 598.0},
		{"toFloat64OrNull('0.1')", 0.1},
		{"toFloat64OrNull('1234.56')", 1234.56},
		{"toFloat64OrZero('abc')", 0.0},
		{"toFloat64OrZero('2.25')", 2.25},
		{"toUInt64OrNull('12')", u(12)},
		{"toUInt64OrNull('-12')", nil},
		{"toUInt64OrZero('x')", u(0)},
		{"toInt32OrNull('2147483648')", nil},
		{"toString(123)", "123"},
		{"toString(-1.5)", "-1.5"},
		{"toString(1e21)", "1e21"},
		{"toString(0.1 + 0.2)", "0.30000000000000004"},
		{"toString(3.0)", "3"},
		{"toString(toDate('2023-11-14'))", "2023-11-14"},
		{"toString(toDateTime('2023-11-14 22:13:20'))", "2023-11-14 22:13:20"},
		{"toString([1, 2])", "[1,2]"},
		{"toString(['a', 'b'])", "['a','b']"},
		{"toString((1, 'a'))", "(1,'a')"},
		{"toString(map('k', 'v'))", "{'k':'v'}"},
		{"1::Int8", i(1)},
		{"toTypeName(1::Int8)", "Int8"},
		{"'5'::UInt64 + 1", u(6)},
		{"CAST('7' AS Int32)", i(7)},
		{"CAST(7, 'String')", "7"},
		{"toTypeName(CAST(1 AS Nullable(UInt8)))", "UInt8"},
	})
	// the case with `payload` needs a table
	db := NewDB()
	db.CreateTable("p", []Column{{"payload", "String"}})
	_ = db.Insert("p", []any{"payload"})
	if got := one(t, db, "SELECT length(payload)::Int64 FROM p"); got != int64(7) {
		t.Errorf("length::Int64 = %v", got)
	}
}

func TestConversionsDates(t *testing.T) {
	runExprCases(t, []exprCase{
		{"toDate('2023-11-14') + INTERVAL '1 day'", Date(19676)},
		{"toDate('2023-11-14') + INTERVAL 1 DAY", Date(19676)},
		{"toDate('2023-11-14') - INTERVAL 1 WEEK", Date(19668)},
		{"toDate('2023-11-14') + 1", Date(19676)},
		{"toUnixTimestamp(toDate('2023-11-14'))", u(1699920000)},
		{"toUnixTimestamp(toDate('2023-11-14') + INTERVAL '1 day') * 1000000000", u(1700006400000000000)},
		{"toDateTime(1700000000)", DateTime(1700000000)},
		{"toDate(toDateTime(1700000000))", Date(19675)},
		{"toDate(1700000000)", Date(19675)},
		{"toStartOfDay(toDateTime(1700000000))", DateTime(1699920000)},
		{"toStartOfHour(toDateTime(1700000000))", DateTime(1699999200)},
		{"toStartOfMinute(toDateTime(1700000000))", DateTime(1699999980)},
		{"toStartOfInterval(toDateTime(1700000000), INTERVAL 15 MINUTE)", DateTime(1699999200)},
		{"now()", DateTime(1700000000)},
		{"today()", Date(19675)},
		{"fromUnixTimestamp(10)", DateTime(10)},
		{"toTypeName(toDate('2023-11-14'))", "Date"},
		{"toString(toDate('1970-01-02'))", "1970-01-02"},
	})
}

func TestStringFunctions(t *testing.T) {
	runExprCases(t, []exprCase{
		{"length('héllo')", u(6)},
		{"lengthUTF8('héllo')", u(5)},
		{"empty('')", u(1)},
		{"notEmpty('a')", u(1)},
		{"lower('AbC')", "abc"},
		{"upper('AbC')", "ABC"},
		{"lower('É')", "É"}, // lower is ASCII only
		{"lowerUTF8('ÉA')", "éa"},
		{"concat('a', 'b', 'c')", "abc"},
		{"'a' || 'b'", "ab"},
		{"substring('hello', 2, 3)", "ell"},
		{"substring('hello', 2)", "ello"},
		{"substring('hello', -3, 2)", "ll"},
		{"position('hello', 'l')", u(3)},
		{"position('hello', 'z')", u(0)},
		{"startsWith('hello', 'he')", u(1)},
		{"endsWith('hello', 'lo')", u(1)},
		{"replaceAll('aXbXc', 'X', '-')", "a-b-c"},
		{"replaceOne('aXbXc', 'X', '-')", "a-bXc"},
		// docs: replaceRegexpAll('Hello, World!', '.', '\\0\\0') = 'HHeelllloo,,  WWoorrlldd!!'
		{`replaceRegexpAll('Hello, World!', '.', '\\0\\0')`, "HHeelllloo,,  WWoorrlldd!!"},
		// docs: replaceRegexpOne('Hello, World!', '.*', '\\0\\0\\0\\0\\0\\0\\0\\0\\0\\0') repeats the string 10 times
		{`replaceRegexpOne('ab', '(a)(b)', '\\2\\1')`, "ba"},
		{"splitByChar(',', '1,2,,3')", arr("1", "2", "", "3")},
		{"splitByChar(':', 'process_cpu:cpu:nanoseconds')[2]", "cpu"},
		{"splitByString(', ', 'a, b, c')", arr("a", "b", "c")},
		{"arrayStringConcat(['a', 'b', 'c'], '-')", "a-b-c"},
		{"arrayStringConcat(['a', 'b'])", "ab"},
		{"hex('abc')", "616263"},
		{"hex(255)", "FF"},
		{"hex(256)", "0100"},
		{"lower(hex('\\xAB\\xCD'))", "abcd"},
		{"unhex('616263')", "abc"},
		{"unhex('0123456789abcdef') = '\\x01\\x23\\x45\\x67\\x89\\xab\\xcd\\xef'", u(1)},
		{"reverse('abc')", "cba"},
		{"trimBoth('  a  ')", "a"},
		// docs: format('{1} {0} {1}', 'World', 'Hello') = 'Hello World Hello'
		{"format('{1} {0} {1}', 'World', 'Hello')", "Hello World Hello"},
		{"format('{} {}', 'Hello', 'World')", "Hello World"},
		{"format('{{}} {}', 'x')", "{} x"},
		// docs: extractAllGroupsHorizontal('abc=111, def=222, ghi=333', '("[^"]+"|\\w+)=("[^"]+"|\\w+)') = [['abc','def','ghi'],['111','222','333']]
		{`extractAllGroupsHorizontal('abc=111, def=222, ghi=333', '("[^"]+"|\\w+)=("[^"]+"|\\w+)')`,
			arr(arr("abc", "def", "ghi"), arr("111", "222", "333"))},
		// docs: extractAllGroupsVertical(...) = [['abc','111'],['def','222'],['ghi','333']]
		{`extractAllGroupsVertical('abc=111, def=222, ghi=333', '("[^"]+"|\\w+)=("[^"]+"|\\w+)')`,
			arr(arr("abc", "111"), arr("def", "222"), arr("ghi", "333"))},
		{`extractAllGroupsHorizontal('nomatch', '(\\d+)')`, arr(arr())},
		{`arrayMap(x -> x[length(x)], extractAllGroupsHorizontal('nomatch', '(?P<x>\\d+)'))`, arr("")},
		{`arrayMap(x -> x[length(x)], extractAllGroupsHorizontal('a1 b22', '[a-z](?P<x>\\d+)'))`, arr("22")},
		{`extractAll('a1 b22', '\\d+')`, arr("1", "22")},
		{`extractAll('a1 b22', '[a-z](\\d+)')`, arr("1", "22")},
		{`extract('a1 b22', '[a-z](\\d+)')`, "1"},
	})
}

// LIKE: % and _ wildcards, \% \_ \\ escapes (likePatternToRegexp); match(): RE2,
// searches anywhere, '.' matches '\n' (RE_DOT_NL is set by ClickHouse).
func TestLikeAndMatch(t *testing.T) {
	runExprCases(t, []exprCase{
		{"'hello' LIKE 'h%o'", u(1)},
		{"'hello' LIKE 'h_llo'", u(1)},
		{"'hello' LIKE 'ell'", u(0)},
		{"'hello' LIKE '%ell%'", u(1)},
		{"'hello' NOT LIKE '%z%'", u(1)},
		{"'HELLO' ILIKE 'h%'", u(1)},
		{"'HELLO' LIKE 'h%'", u(0)},
		{"like('100%', '100\\%')", u(1)},
		{"like('1000', '100\\%')", u(0)},
		{"like('a_b', 'a\\_b')", u(1)},
		{"like('axb', 'a\\_b')", u(0)},
		{`like('a\\b', 'a\\\\b')`, u(1)}, // pattern a\\b matches a\b
		{`like('a\\b', '%a\\\\b%')`, u(1)},
		{"like('a.b', 'a.b')", u(1)},
		{"like('axb', 'a.b')", u(0)}, // regex metacharacters are literals
		{"like('a\nb', 'a_b')", u(1)},
		{"like('a\nb', 'a%b')", u(1)},
		{"like('é', '_')", u(1)}, // _ matches one code point
		{"like('', '%%')", u(1)},
		{"like('abc', '%')", u(1)},
		{"notLike('abc', '%b%')", u(0)},
		{"notILike('ABC', '%b%')", u(0)},
		{"match('hello world', 'o w')", u(1)}, // search, not full match
		{"match('hello', '^h.*o$')", u(1)},
		{"match('hello', '^ell')", u(0)},
		{"match('a\nb', 'a.b')", u(1)}, // dot matches newline
		{"match('x25', '2[0-9]$')", u(1)},
		{"match('x25 ', '2[0-9]$')", u(0)},
		{"match('abc', '(?i)ABC')", u(1)},
		{"match('ab12', '(?P<x>\\d+)')", u(1)},
		{"match('ab12', '(?<x>\\d+)')", u(1)},
		{"'abc' REGEXP 'b'", u(1)},
	})
	db := NewDB()
	if _, err := db.Query(`SELECT like('a', 'a\\')`); err == nil || errors.Is(err, ErrUnsupported) {
		t.Errorf("trailing backslash in LIKE pattern must be an error: %v", err)
	}
}

func TestJSONFunctions(t *testing.T) {
	runExprCases(t, []exprCase{
		// examples from the documentation of the JSON functions
		{`JSONHas('{"a": "hello", "b": [-100, 200.0, 300]}', 'b')`, u(1)},
		{`JSONHas('{"a": "hello", "b": [-100, 200.0, 300]}', 'b', 4)`, u(0)},
		{`JSONLength('{"a": "hello", "b": [-100, 200.0, 300]}', 'b')`, u(3)},
		{`JSONLength('{"a": "hello", "b": [-100, 200.0, 300]}')`, u(2)},
		{`JSONType('{"a": "hello", "b": [-100, 200.0, 300]}')`, "Object"},
		{`JSONType('{"a": "hello", "b": [-100, 200.0, 300]}', 'a')`, "String"},
		{`JSONType('{"a": "hello", "b": [-100, 200.0, 300]}', 'b')`, "Array"},
		{`JSONType('{"a": "hello", "b": [-100, 200.0, 300]}', 'b', 1)`, "Int64"},
		{`JSONType('{"a": "hello", "b": [-100, 200.0, 300]}', 'b', 2)`, "Double"},
		{`JSONType('{"a": "hello", "b": [-100, 200.0, 300]}', 'c')`, "Null"},
		{`JSONType('{"a": true, "b": null, "c": 18446744073709551615}', 'a')`, "Bool"},
		{`JSONType('{"a": true, "b": null, "c": 18446744073709551615}', 'b')`, "Null"},
		{`JSONType('{"a": true, "b": null, "c": 18446744073709551615}', 'c')`, "UInt64"},
		{`JSONExtractString('{"a": "hello", "b": [-100, 200.0, 300]}', 'a')`, "hello"},
		{`JSONExtractString('{"abc":"\\n\\u0000"}', 'abc')`, "\n\x00"},
		{`JSONExtractString('{"abc":"\\u263a"}', 'abc')`, "☺"},
		{`JSONExtractString('{"abc":"\\u263"}', 'abc')`, ""},
		{`JSONExtractString('{"abc":"hello}', 'abc')`, ""},
		{`JSONExtractString('{"a": 1}', 'a')`, ""}, // not a string
		{`JSONExtractString('{"a": {"b": "x"}}', 'a', 'b')`, "x"},
		{`JSONExtractInt('{"a": "hello", "b": [-100, 200.0, 300]}', 'b', 1)`, i(-100)},
		{`JSONExtractFloat('{"a": "hello", "b": [-100, 200.0, 300]}', 'b', 2)`, 200.0},
		{`JSONExtractUInt('{"a": "hello", "b": [-100, 200.0, 300]}', 'b', -1)`, u(300)},
		{`JSONExtractBool('{"passed": true}', 'passed')`, u(1)},
		{`JSONExtractRaw('{"a": "hello", "b": [-100, 200.0, 300]}', 'b')`, "[-100,200,300]"},
		{`JSONExtractRaw('{"a": "hello"}', 'a')`, `"hello"`},
		{`JSONExtractRaw('{"a": {"x" : 1, "y":[true,null]}}', 'a')`, `{"x":1,"y":[true,null]}`},
		{`JSONExtractRaw('{"a": 1}', 'b')`, ""},
		{`JSONExtractKeysAndValues('{"x": "a", "y": "b"}', 'String')`, arr(Tuple{"x", "a"}, Tuple{"y", "b"})},
		{`JSONExtractKeysAndValues('{"b":"2","a":"1"}', 'String')`, arr(Tuple{"b", "2"}, Tuple{"a", "1"})}, // document order
		{`JSONExtractKeysAndValues('{"x": 1, "y": {"z":2}, "n": null, "s": "q"}', 'String')`,
			arr(Tuple{"x", "1"}, Tuple{"y", `{"z":2}`}, Tuple{"s", "q"})},
		{`JSONExtractKeysAndValues('not json', 'String')`, arr()},
		{`JSONExtractKeysAndValues('{"a":"b"} trailing', 'String')`, arr()},
		{`JSONExtractKeysAndValuesRaw('{"a": [-100, 200.0], "b":{"c": {"d": "hello", "f": "world"}}}')`,
			arr(Tuple{"a", "[-100,200]"}, Tuple{"b", `{"c":{"d":"hello","f":"world"}}`})},
		{`JSONExtractKeys('{"a": "hello", "b": [-100, 200.0, 300]}')`, arr("a", "b")},
		{`JSONExtractArrayRaw('{"a": "hello", "b": [-100, 200.0, "hello"]}', 'b')`, arr("-100", "200", `"hello"`)},
		{`isValidJSON('{"a": "hello", "b": [-100, 200.0, 300]}')`, u(1)},
		{`isValidJSON('not a json')`, u(0)},
		{`isValidJSON('{"a":1,}')`, u(0)},
		{`JSONExtract('{"a": 5}', 'a', 'String')`, "5"},
		// the qryn idiom for `| json x="y"`
		{`if(JSONType('{"y":"1"}', 'y' as jp) == 'String', JSONExtractString('{"y":"1"}', jp), JSONExtractRaw('{"y":"1"}', jp))`, "1"},
		{`if(JSONType('{"y":5}', 'y' as jp) == 'String', JSONExtractString('{"y":5}', jp), JSONExtractRaw('{"y":5}', jp))`, "5"},
		{`if(JSONType('zzz', 'y' as jp) == 'String', JSONExtractString('zzz', jp), JSONExtractRaw('zzz', jp))`, ""},
	})
}

func TestArrayTupleMapFunctions(t *testing.T) {
	runExprCases(t, []exprCase{
		{"[1, 2, 3][2]", u(2)},
		{"[1, 2, 3][-1]", u(3)},
		{"[1, 2, 3][5]", u(0)}, // out of range -> default
		{"['a'][2]", ""},
		{"(1, 'a').2", "a"},
		{"tupleElement((1, 'a'), 1)", u(1)},
		{"tuple(1, 'a')", Tuple{u(1), "a"}},
		{"toTypeName([1, 256])", "Array(UInt16)"},
		{"toTypeName([1, -1])", "Array(Int16)"},
		{"toTypeName([1, 1.5])", "Array(Float64)"},
		{"toTypeName((1, 'a'))", "Tuple(UInt8, String)"},
		{"length([1, 2, 3])", u(3)},
		{"empty([])", u(1)},
		{"notEmpty([1])", u(1)},
		{"has([1, 2, 3], 2)", u(1)},
		{"has(['a'], 'b')", u(0)},
		{"indexOf([10, 20, 30], 20)", u(2)},
		{"indexOf([10, 20, 30], 5)", u(0)},
		{"arrayMap(x -> x * 2, [1, 2, 3])", arr(u(2), u(4), u(6))},
		{"arrayMap((x, y) -> x + y, [1, 2], [10, 20])", arr(u(11), u(22))},
		{"arrayMap(x -> x.1, [('a', 1), ('b', 2)])", arr("a", "b")},
		{"arrayFilter(x -> x % 2 = 1, [1, 2, 3, 4, 5])", arr(u(1), u(3), u(5))},
		{"arrayFilter((x, y) -> x != '' AND y != '', ['a', '', 'c'], ['1', '2', ''])", arr("a")},
		{"arrayFilter(x -> x.1 IN ('a', 'c'), [('a', '1'), ('b', '2'), ('c', '3')])", arr(Tuple{"a", "1"}, Tuple{"c", "3"})},
		{"arrayFilter(x -> x.1 NOT IN ('a'), [('a', '1'), ('b', '2')])", arr(Tuple{"b", "2"})},
		{"arrayExists(x -> x > 2, [1, 2, 3])", u(1)},
		{"arrayExists(x -> (x.1) == ('cpu'), [('cpu', 'nanoseconds')])", u(1)},
		{"arrayAll(x -> x > 0, [1, 2, 3])", u(1)},
		{"arrayCount(x -> x > 1, [1, 2, 3])", u(2)},
		{"arrayFirst(x -> x > 1, [1, 2, 3])", u(2)},
		{"arrayFirst(x -> x > 5, [1, 2, 3])", u(0)},
		{"arrayFirst(x -> x.1 == 'b', [('a', 1, 2), ('b', 3, 4)]).2", u(3)},
		{"(arrayFirst(x -> x.1 == 'b', [('a', 1, 2), ('b', 3, 4)]) as af).2 + af.3", u(7)},
		{"arrayFirst(x -> x.1 == 'z', [('a', 1, 2), ('b', 3, 4)])", Tuple{"", u(0), u(0)}},
		{"arrayFirstIndex(x -> x > 1, [1, 2, 3])", u(2)},
		{"arraySort([3, 1, 2])", arr(u(1), u(2), u(3))},
		{"arraySort(['b', 'a'])", arr("a", "b")},
		{"arraySort(x -> -x, [3, 1, 2])", arr(u(3), u(2), u(1))},
		{"arrayReverseSort([3, 1, 2])", arr(u(3), u(2), u(1))},
		{"arraySort([(2, 'a'), (1, 'b'), (1, 'a')])", arr(Tuple{u(1), "a"}, Tuple{u(1), "b"}, Tuple{u(2), "a"})},
		{"arrayReverse([1, 2, 3])", arr(u(3), u(2), u(1))},
		{"arraySlice([1, 2, 3, 4, 5], 2, 3)", arr(u(2), u(3), u(4))}, // docs example
		{"arraySlice([1, 2, 3, 4, 5], 1, 2)", arr(u(1), u(2))},
		{"arraySlice([1, 2, 3], 1, 10)", arr(u(1), u(2), u(3))},
		{"arraySlice([1, 2, 3, 4, 5], -2)", arr(u(4), u(5))},
		{"arrayConcat([1, 2], [3, 4], [5, 6])", arr(u(1), u(2), u(3), u(4), u(5), u(6))},                    // docs example
		{"arrayDistinct([1, 2, 2, 3, 1])", arr(u(1), u(2), u(3))},                                           // docs example
		{"arrayZip(['a', 'b', 'c'], [5, 2, 1])", arr(Tuple{"a", u(5)}, Tuple{"b", u(2)}, Tuple{"c", u(1)})}, // docs example
		{"arraySum([1, 2, 3])", u(6)},
		{"arraySum(x -> x * 2, [1, 2, 3])", u(12)},
		{"arrayMin([3, 1, 2])", u(1)},
		{"arrayMax([3, 1, 2])", u(3)},
		{"arrayEnumerate(['a', 'b'])", arr(u(1), u(2))},
		{"arrayFlatten([[1, 2], [3]])", arr(u(1), u(2), u(3))},
		{"range(3)", arr(u(0), u(1), u(2))},
		{"hasAny([1, 2], [2, 5])", u(1)},
		{"hasAll([1, 2], [2, 5])", u(0)},
		// maps
		{"map('a', '1', 'b', '2')", sm("a", "1", "b", "2")},
		{"mapFromArrays(['a', 'b'], ['1', '2'])", sm("a", "1", "b", "2")},
		{"mapKeys(mapFromArrays(['b', 'a'], ['1', '2']))", arr("b", "a")}, // insertion order is kept
		{"mapValues(mapFromArrays(['b', 'a'], ['1', '2']))", arr("1", "2")},
		{"mapFromArrays(['a', 'b'], ['1', '2'])['b']", "2"},
		{"mapFromArrays(['a', 'b'], ['1', '2'])['zz']", ""}, // missing key -> default
		{"map('a', 1)['zz']", u(0)},
		{"mapContains(map('a', '1'), 'a')", u(1)},
		{"mapContains(map('a', '1'), 'b')", u(0)},
		// docs: mapUpdate(map('key1', 0, 'key3', 0), map('key1', 10, 'key2', 10)) = {'key3':0,'key1':10,'key2':10}
		{"toString(mapUpdate(map('key1', 0, 'key3', 0), map('key1', 10, 'key2', 10)))", "{'key3':0,'key1':10,'key2':10}"},
		{"mapUpdate(map('a', '1', 'b', '2'), mapFromArrays(['b', 'c'], ['x', 'y']))", sm("a", "1", "b", "x", "c", "y")},
		// docs: mapFilter((k, v) -> ((v % 2) = 0), map('key1', 0, 'key2', 1, 'key3', 2)) = {'key1':0,'key3':2}
		{"toString(mapFilter((k, v) -> ((v % 2) = 0), map('key1', 0, 'key2', 1, 'key3', 2)))", "{'key1':0,'key3':2}"},
		{"mapFilter((k,v) -> k!='a' and (k, v)!=('b', '2'), map('a', '1', 'b', '2', 'c', '3'))", sm("c", "3")},
		{"mapFilter((k,v) -> k IN ('a','c'), map('a', '1', 'b', '2', 'c', '3'))", sm("a", "1", "c", "3")},
		{"mapFilter((k,v) -> k NOT IN ('a'), map('a', '1', 'b', '2'))", sm("b", "2")},
		// docs: mapApply((k, v) -> (k, v * 10), map('k1', 1, 'k2', 2)) = {'k1':10,'k2':20}
		{"toString(mapApply((k, v) -> (k, v * 10), map('k1', 1, 'k2', 2)))", "{'k1':10,'k2':20}"},
		{"arraySort(arrayZip(mapKeys(map('b', '2', 'a', '1')), mapValues(map('b', '2', 'a', '1'))))", arr(Tuple{"a", "1"}, Tuple{"b", "2"})},
		{"length(map('a', '1'))", u(1)},
	})
}

// cityHash64: published value cityHash64('Moscow') = 12507901496292878638
// (ClickHouse docs of the hash functions); the empty string hashes to the
// CityHash64 constant k2 = 0x9ae16a3b2f90404f.
func TestCityHash64(t *testing.T) {
	runExprCases(t, []exprCase{
		{"cityHash64('Moscow')", u(12507901496292878638)},
		{"cityHash64('')", u(0x9ae16a3b2f90404f)},
		{"cityHash64('a') = cityHash64(toFixedString('a', 1))", u(1)},
		{"cityHash64('a', 'b') = cityHash64(('a', 'b'))", u(1)},                             // tuples hash like argument lists
		{"cityHash64(['a', 'b']) = cityHash64(('a', 'b'))", u(0)},                           // arrays mix in their length
		{"cityHash64(map('a', 'b')) = cityHash64([('a', 'b')])", u(1)},                      // a map is its array of pairs
		{"cityHash64(map('a', '1', 'b', '2')) = cityHash64(map('b', '2', 'a', '1'))", u(0)}, // order matters
		{"cityHash64('x') % 3 < 3", u(1)},
		{"toTypeName(cityHash64('x') % 3)", "UInt8"},
	})
	// Hash128to64 reference: computed from the CityHash v1.0.2 definition
	if got := hash128to64(1, 2); got == 0 || got == 1 {
		t.Errorf("hash128to64 degenerate: %d", got)
	}
}

func TestAggregates(t *testing.T) {
	db := NewDB()
	db.CreateTable("t", []Column{{"k", "String"}, {"v", "Int64"}, {"f", "Float64"}, {"n", "Nullable(Float64)"}, {"ts", "Int64"}, {"a", "Array(String)"}})
	rows := [][]any{
		{"a", 1, 1.0, 1.5, 10, []string{"x", "y"}},
		{"a", 3, 2.0, nil, 30, []string{"y"}},
		{"a", 2, 4.0, 2.5, 20, []string{}},
		{"b", 10, 8.0, nil, 5, []string{"z"}},
	}
	for _, r := range rows {
		if err := db.Insert("t", r); err != nil {
			t.Fatal(err)
		}
	}
	check := func(sql string, want any) {
		t.Helper()
		got := one(t, db, sql)
		if !sameValue(got, want) {
			t.Errorf("%s\n   got  %#v (%T)\n   want %#v (%T)", sql, got, got, want, want)
		}
	}
	check("SELECT count() FROM t", u(4))
	check("SELECT COUNT(1) FROM t", u(4))
	check("SELECT count(n) FROM t", u(2)) // NULLs are not counted
	check("SELECT sum(v) FROM t", i(16))
	check("SELECT toTypeName(sum(v)) FROM t", "Int64")
	check("SELECT toTypeName(sum(toUInt8(v))) FROM t", "UInt64")
	check("SELECT sum(f) FROM t", 15.0)
	check("SELECT sum(n) FROM t", 4.0) // NULLs skipped
	check("SELECT avg(v) FROM t", 4.0)
	check("SELECT min(v) FROM t WHERE k = 'a'", i(1))
	check("SELECT max(f) FROM t", 8.0)
	check("SELECT min(k) FROM t", "a")
	check("SELECT any(k) FROM t", "a")
	check("SELECT anyLast(k) FROM t", "b")
	check("SELECT argMax(v, ts) FROM t", i(3))
	check("SELECT argMin(v, ts) FROM t", i(10))
	check("SELECT argMax(k, f) FROM t", "b")
	check("SELECT groupArray(v) FROM t WHERE k = 'a'", arr(i(1), i(3), i(2)))
	check("SELECT groupArray(2)(v) FROM t", arr(i(1), i(3)))
	check("SELECT arraySort(groupUniqArray(k)) FROM t", arr("a", "b"))
	check("SELECT arraySort(groupUniqArrayArray(a)) FROM t", arr("x", "y", "z"))
	check("SELECT groupArrayArray(a) FROM t", arr("x", "y", "y", "z"))
	check("SELECT sumArray([1, 2]) FROM t", u(12))
	check("SELECT uniqExact(k) FROM t", u(2))
	check("SELECT count(DISTINCT k) FROM t", u(2))
	check("SELECT uniqExact(k, v) FROM t", u(4))
	check("SELECT groupBitOr(toUInt8(v)) FROM t WHERE k = 'a'", u(3))
	check("SELECT groupBitOr(bitShiftLeft(toUInt64(v = 1), 0) + bitShiftLeft(toUInt64(v = 2), 1)) FROM t WHERE k = 'a'", u(3))
	check("SELECT toTypeName(groupBitOr(bitShiftLeft(v = 1, 0))) FROM t", "UInt8")
	check("SELECT groupBitAnd(toUInt8(v)) FROM t WHERE k = 'a'", u(0))
	check("SELECT groupBitXor(toUInt8(v)) FROM t WHERE k = 'a'", u(0))
	// -If
	check("SELECT countIf(v > 1) FROM t", u(3))
	check("SELECT sumIf(v, k = 'a') FROM t", i(6))
	check("SELECT avgIf(f, k = 'a') FROM t", 7.0/3)
	check("SELECT anyIf(k, v > 5) FROM t", "b")
	check("SELECT maxIf(v, k = 'a') FROM t", i(3))
	check("SELECT minIf(v, k = 'zz') FROM t", i(0)) // no rows: default
	// Nullable argument and no admitted row: the result is NULL (Null adapter),
	// e.g. qryn's sumIf(agg_val, isNotNull(agg_val)) over only-NULL values
	check("SELECT sumIf(n, isNotNull(n)) FROM t WHERE k = 'b'", nil)
	check("SELECT avgIf(n, isNotNull(n)) FROM t WHERE k = 'b'", nil)
	check("SELECT minIf(n, isNotNull(n)) FROM t WHERE k = 'b'", nil)
	check("SELECT maxIf(n, isNotNull(n)) FROM t WHERE k = 'b'", nil)
	check("SELECT countIf(n, isNotNull(n)) FROM t WHERE k = 'b'", u(0)) // count is never NULL
	check("SELECT sumIf(n, isNotNull(n)) FROM t", 4.0)
	// statically Nullable argument (an *OrNull call) and zero admitted rows: NULL,
	// even though the rejected rows carry non-NULL values
	check("SELECT anyIf(toFloat64OrNull(toString(v)), k = 'zz') FROM t", nil)
	check("SELECT sumIf(toFloat64OrNull(toString(v)), k = 'zz') FROM t", nil)
	check("SELECT countIf(toFloat64OrNull(toString(v)), k = 'zz') FROM t", u(0))
	check("SELECT anyIf(toFloat64OrNull(toString(v)), k = 'b') FROM t", 10.0)
	check("SELECT max(nullIf(v, 0)) FROM t WHERE v > 100", nil)
	check("SELECT min(n) FROM t WHERE v > 100", nil) // Nullable column
	// the TraceQL shape: a matched span lacking the aggregated attribute: agg_val is
	// NULL for every group, maxIf(...) is NULL and HAVING drops all groups
	if got := rowsOf(t, db, "SELECT k FROM (SELECT k, anyIf(toFloat64OrNull(toString(v)), k == 'nope') AS agg_val FROM t GROUP BY k) "+
		"GROUP BY k HAVING maxIf(agg_val, isNotNull(agg_val)) <= 4"); len(got) != 0 {
		t.Errorf("groups without the aggregated attribute must be dropped: %v", got)
	}
	if res, err := db.Query("SELECT anyIf(toFloat64OrNull(toString(v)), k = 'b') AS x, sum(v) AS s FROM t"); err != nil ||
		!reflect.DeepEqual(res.Types, []string{"Nullable(Float64)", "Int64"}) {
		t.Errorf("static nullability in Result.Types: %v %v", res, err)
	}
	// quantile: sorted values 1,2,4,8; level 0.5 -> index 1.5 -> 2*0.5 + 4*0.5 = 3
	check("SELECT quantile(0.5)(f) FROM t", 3.0)
	check("SELECT quantile(f) FROM t", 3.0)
	check("SELECT median(f) FROM t", 3.0)
	check("SELECT quantile(0)(f) FROM t", 1.0)
	check("SELECT quantile(1)(f) FROM t", 8.0)
	check("SELECT quantile(0.99)(f) FROM t", 4+4*0.97)
	check("SELECT quantile(0.5)(v) FROM t WHERE k = 'a'", 2.0)
	check("SELECT quantileExact(0.5)(f) FROM t", 4.0) // element floor(0.5*4) = 2 of [1,2,4,8]
	// variance: values 1,2,4,8: mean 3.75, population variance 7.1875
	check("SELECT varPop(f) FROM t", 7.1875)
	check("SELECT stddevPop(f) FROM t", math.Sqrt(7.1875))
	check("SELECT varSamp(f) FROM t", 7.1875*4/3)
	check("SELECT stddevSamp(f) FROM t", math.Sqrt(7.1875*4/3))
	// aggregates over no rows (no GROUP BY): one row of defaults
	check("SELECT count() FROM t WHERE v > 100", u(0))
	check("SELECT sum(v) FROM t WHERE v > 100", i(0))
	check("SELECT min(k) FROM t WHERE v > 100", "")
	check("SELECT any(1::Int8) FROM t WHERE v > 100", i(0))
	check("SELECT isNaN(avg(f)) FROM t WHERE v > 100", u(1))
	check("SELECT isNaN(quantile(0.5)(f)) FROM t WHERE v > 100", u(1))
	check("SELECT groupArray(k) FROM t WHERE v > 100", arr())
	check("SELECT max(n) FROM t WHERE k = 'b'", nil) // only NULLs
	// with GROUP BY over no rows: no rows at all
	res, err := db.Query("SELECT k, count() FROM t WHERE v > 100 GROUP BY k")
	if err != nil || len(res.Rows) != 0 {
		t.Errorf("GROUP BY over nothing: %v %v", res, err)
	}
	// GROUP BY / HAVING / ORDER BY with aliases
	res, err = db.Query("SELECT k AS key, sum(v) AS s, count() AS c FROM t GROUP BY key HAVING s > 5 ORDER BY s DESC")
	if err != nil {
		t.Fatal(err)
	}
	if !reflect.DeepEqual(res.Rows, [][]any{{"b", int64(10), uint64(1)}, {"a", int64(6), uint64(3)}}) {
		t.Errorf("group by: %v", res.Rows)
	}
	if !reflect.DeepEqual(res.Cols, []string{"key", "s", "c"}) || !reflect.DeepEqual(res.Types, []string{"String", "Int64", "UInt64"}) {
		t.Errorf("cols/types: %v %v", res.Cols, res.Types)
	}
	// an alias that shadows a column inside its own definition means the column
	res, err = db.Query("SELECT intDiv(ts, 20) * 20 AS ts, sum(v) AS v FROM t GROUP BY ts ORDER BY ts")
	if err != nil {
		t.Fatal(err)
	}
	if !reflect.DeepEqual(res.Rows, [][]any{{int64(0), int64(11)}, {int64(20), int64(5)}}) {
		t.Errorf("alias shadowing: %v", res.Rows)
	}
	// not aggregated and not a key
	if _, err := db.Query("SELECT k, v FROM t GROUP BY k"); !errors.Is(err, errNotAnAggregate) {
		t.Errorf("NOT_AN_AGGREGATE expected, got %v", err)
	}
	if _, err := db.Query("SELECT v FROM t WHERE sum(v) > 1"); err == nil {
		t.Errorf("aggregate in WHERE must fail")
	}
	// -State / -Merge
	check("SELECT countMerge(s) FROM (SELECT countState() AS s FROM t GROUP BY k)", u(4))
	check("SELECT argMaxMerge(s) FROM (SELECT argMaxState(v, ts) AS s FROM t GROUP BY k)", i(3))
	check("SELECT sumMerge(s) FROM (SELECT sumState(v) AS s FROM t GROUP BY k)", i(16))
	// too many values for quantile -> refuses rather than guessing
	small := NewDB()
	small.MaxQuantileSample = 2
	small.CreateTable("t", []Column{{"f", "Float64"}})
	_ = small.Insert("t", []any{1.0}, []any{2.0}, []any{3.0})
	if _, err := small.Query("SELECT quantile(0.5)(f) FROM t"); !errors.Is(err, ErrUnsupported) {
		t.Errorf("quantile beyond the reservoir: %v", err)
	}
	_ = fmt.Sprint()
}

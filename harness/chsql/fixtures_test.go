package chsql

import (
	"encoding/hex"
	"fmt"
	"sort"
	"testing"
	"time"
)

const (
	fxFromS = int64(1700000000) // 2023-11-14T22:13:20Z, same as cmd/sqlcorpus
	fxDate  = "2023-11-14"
)

type fxStream struct {
	fp     uint64
	labels map[string]string
	lines  []string
}

func labelsJSON(m map[string]string) string {
	keys := make([]string, 0, len(m))
	for k := range m {
		keys = append(keys, k)
	}
	sort.Strings(keys)
	s := "{"
	for i, k := range keys {
		if i > 0 {
			s += ","
		}
		s += fmt.Sprintf("%q:%q", k, m[k])
	}
	return s + "}"
}

func mustInsert(t testing.TB, db *DB, table string, rows ...[]any) {
	t.Helper()
	if err := db.Insert(table, rows...); err != nil {
		t.Fatal(err)
	}
}

// populateQrynDB fills a qryn database with a little bit of everything.
func populateQrynDB(t testing.TB, db *DB) {
	streams := []fxStream{
		{1, map[string]string{"a": "b", "c": "d", "e": "f", "freq": "2"}, []string{
			`{"y":"1","x":5,"f":3,"nested":{"z":"q"}}`, `x123 plain z9 25`, `{"y":"2","x":"700","f":1.5}`, `it's 100%_done\ k=v`}},
		{2, map[string]string{"a": "b", "c": "4", "job": "j"}, []string{
			`k=v c=2 x=9 msg="hello world"`, `abc 42 def`, `{"y":{"z":"deep"},"x":[1,2]}`, "line\nbreak x"}},
		{3, map[string]string{"a": "z", "c": "d"}, []string{`other 7`, `{"y":"1"}`}},
		{4, map[string]string{"__name__": "up", "job": "x1", "inst": "y"}, nil},
	}
	for _, s := range streams {
		tp := uint8(1)
		if s.lines == nil {
			tp = 2
		}
		mustInsert(t, db, "time_series", []any{fxDate, s.fp, labelsJSON(s.labels), "", tp})
		for k, v := range s.labels {
			mustInsert(t, db, "time_series_gin", []any{fxDate, k, v, s.fp, tp})
		}
		for i, l := range s.lines {
			ts := (fxFromS+int64(i)*20+int64(s.fp))*1e9 + int64(i)
			mustInsert(t, db, "samples_v3", []any{s.fp, ts, float64(0), l, uint8(1)})
		}
		if s.lines == nil {
			for i := 0; i < 6; i++ {
				ts := (fxFromS + int64(i)*10) * 1e9
				mustInsert(t, db, "samples_v3", []any{s.fp, ts, float64(i) * 1.5, "", uint8(2)})
			}
		}
	}
	// metrics_15s rows as the materialized view would produce them
	type bucket struct {
		fp  uint64
		ts  int64
		typ uint8
	}
	agg := map[bucket][]([]any){}
	smp, _ := db.lookupTable("samples_v3")
	for _, r := range smp.rows {
		b := bucket{r[0].(uint64), r[1].(int64) / 15e9 * 15e9, r[4].(uint8)}
		agg[b] = append(agg[b], r)
	}
	for b, rows := range agg {
		last := NewArgMaxState(rows[0][2], rows[0][1])
		mx, mn, sum, bytes := rows[0][2].(float64), rows[0][2].(float64), 0.0, 0.0
		for i, r := range rows {
			v := r[2].(float64)
			if i > 0 {
				var err error
				if last, err = MergeStates(last, NewArgMaxState(v, r[1])); err != nil {
					t.Fatal(err)
				}
			}
			if v > mx {
				mx = v
			}
			if v < mn {
				mn = v
			}
			sum += v
			bytes += float64(len(r[3].(string)))
		}
		mustInsert(t, db, "metrics_15s", []any{b.fp, b.ts, last, mx, mn, NewCountState(uint64(len(rows))), sum, bytes, b.typ})
	}
	mustInsert(t, db, "settings",
		[]any{uint64(1), "update", "v3_1", "1600000000", time.Unix(1600000000, 0)},
		[]any{uint64(2), "update", "tempo_v2", "1600000000", time.Unix(1600000001, 5)},
		[]any{uint64(2), "update", "tempo_v2", "1600000001", time.Unix(1600000002, 0)},
		[]any{uint64(3), "other", "x", "y", time.Unix(1600000003, 0)})

	// traces
	tid := func(n byte) string {
		b := make([]byte, 16)
		for i := range b {
			b[i] = n
		}
		return string(b)
	}
	sid := func(n byte) string { return string([]byte{n, n, n, n, n, n, n, n}) }
	spans := []struct {
		trace, span byte
		name, svc   string
		ts, dur     int64
		attrs       map[string]string
	}{
		{1, 1, "op", "svc", fxFromS*1e9 + 1e9, 2e9, map[string]string{"a": "b", "c": "d", "n": "15", "x": "5", "service.name": "svc", "name": "op"}},
		{1, 2, "child", "svc", fxFromS*1e9 + 2e9, 5e8, map[string]string{"a": "b", "e": "f", "n": "3", "x": "1", "service.name": "svc", "name": "child"}},
		{2, 3, "op2", "svc2", fxFromS*1e9 + 10e9, 3e6, map[string]string{"a": "boring", "c": "d", "n": "9.5", "service.name": "svc2", "name": "op2"}},
		{3, 4, "op", "it's", fxFromS*1e9 + 20e9, 90e9, map[string]string{"a": "it's", "http.method": "GET", "status": "500", "name": "op"}},
	}
	for _, s := range spans {
		mustInsert(t, db, "tempo_traces", []any{"0", tid(s.trace), sid(s.span), "", s.name, s.ts, s.dur, s.svc, int8(1),
			fmt.Sprintf(`{"name":%q,"traceId":%q}`, s.name, hex.EncodeToString([]byte(tid(s.trace))))})
		for k, v := range s.attrs {
			mustInsert(t, db, "tempo_traces_attrs_gin", []any{"0", fxDate, k, v, tid(s.trace), sid(s.span), s.ts, s.dur})
			h, _ := cityHash64Value(v)
			mustInsert(t, db, "tempo_traces_kv", []any{"0", fxDate, k, h % 10000, v})
		}
	}

	// profiles
	stu := []any{Tuple{"cpu", "nanoseconds"}, Tuple{"samples", "count"}}
	for i, svc := range []string{"svc", "svc2"} {
		fp := uint64(100 + i)
		tags := []any{Tuple{"pod", fmt.Sprintf("p-%d", i)}, Tuple{"region", "eu-1"}, Tuple{"service_name", svc}}
		mustInsert(t, db, "profiles_series", []any{fxDate, "process_cpu:cpu:nanoseconds", stu, svc, fp, tags})
		for _, kv := range tags {
			k, v := kv.(Tuple)[0].(string), kv.(Tuple)[1].(string)
			mustInsert(t, db, "profiles_series_gin", []any{fxDate, k, v, "process_cpu:cpu:nanoseconds", stu, svc, fp})
			h, _ := cityHash64Value(v)
			mustInsert(t, db, "profiles_series_keys", []any{fxDate, k, v, h % 50000})
		}
		for j := 0; j < 3; j++ {
			tree := []any{
				Tuple{uint64(1), uint64(0), uint64(11), []any{Tuple{"cpu:nanoseconds", int64(10 + j), int64(30)}, Tuple{"samples:count", int64(1), int64(3)}}},
				Tuple{uint64(2), uint64(1), uint64(12), []any{Tuple{"cpu:nanoseconds", int64(20), int64(20)}}},
			}
			fns := []any{Tuple{uint64(11), "main"}, Tuple{uint64(12), "work"}}
			vals := []any{Tuple{"cpu:nanoseconds", int64(30 + j), int32(2)}, Tuple{"samples:count", int64(3), int32(2)}}
			mustInsert(t, db, "profiles", []any{uint64(fxFromS+int64(j)*30) * 1e9, fp, "process_cpu:cpu:nanoseconds", stu, svc,
				uint64(1e9), "pprof", "payload-bytes", vals, tree, fns})
		}
	}
}

package chsql

import (
	"fmt"
	"os"
	"strings"
	"testing"
)

// TestDebugDump prints results for corpus entries selected by CHSQL_DEBUG=substring-of-query (dev aid).
func TestDebugDump(t *testing.T) {
	want := os.Getenv("CHSQL_DEBUG")
	if want == "" {
		t.Skip()
	}
	db := NewQrynDB()
	populateQrynDB(t, db)
	full := os.Getenv("CHSQL_FULL") != ""
	for _, e := range loadCorpus(t) {
		if e.Params["env"] != "single" {
			continue
		}
		if want != "*" && !strings.Contains(e.Lang+" "+e.Query+" "+fmt.Sprint(e.Params["api"]), want) {
			continue
		}
		res, err := db.Query(e.SQL)
		if err != nil {
			fmt.Printf("## [%s] %s %v\n   ERR %v\n", e.Lang, e.Query, e.Params["api"], err)
			continue
		}
		fmt.Printf("## [%s] %s %v step=%v -> %d rows %v %v\n", e.Lang, e.Query, e.Params["api"], e.Params["stepMs"], len(res.Rows), res.Cols, res.Types)
		if full {
			fmt.Println(e.SQL)
			for _, r := range res.Rows {
				fmt.Printf("   %v\n", r)
			}
		}
	}
}

package chsql

import (
	"errors"
	"fmt"
	"strings"
)

var errNotAnAggregate = errors.New("chsql: column is not under an aggregate function and not in GROUP BY")

// block is the per-SELECT evaluation context.
type block struct {
	q          *queryCtx
	sel        *Select
	scope      *cteScope
	aliases    map[string]Expr
	aggregated bool
	static     bool     // evaluating the sample row: no short circuit, report static errors of all branches
	groupKeys  []Expr   // resolved GROUP BY key expressions
	groupCanon []string // canonical text of the keys
}

// collectAliases gathers every `expr AS alias` of the block (ClickHouse makes
// aliases visible in the whole query block, wherever they are declared).
func (b *block) collectAliases() error {
	var err error
	add := func(e Expr) {
		WalkExpr(e, func(x Expr) bool {
			if a := x.Alias(); a != "" {
				if prev, ok := b.aliases[a]; ok && prev != x && canon(prev) != canon(x) {
					err = badArgf("different expressions with the same alias %s: %s and %s", a, canon(prev), canon(x))
				} else if !ok {
					b.aliases[a] = x
				}
			}
			return true
		})
	}
	// scalar WITH aliases of this block and of enclosing blocks
	for sc := b.scope; sc != nil; sc = sc.parent {
		for name, e := range sc.exprs {
			if _, ok := b.aliases[name]; !ok {
				b.aliases[name] = e
			}
			if sc == b.scope {
				add(e)
			}
		}
	}
	s := b.sel
	if s == nil {
		return nil
	}
	for _, c := range s.Columns {
		add(c)
	}
	add(s.Prewhere)
	add(s.Where)
	for _, g := range s.GroupBy {
		add(g)
	}
	add(s.Having)
	for _, o := range s.OrderBy {
		add(o.Expr)
	}
	if s.LimitBy != nil {
		for _, e := range s.LimitBy.By {
			add(e)
		}
	}
	return err
}

// anyAggregate reports whether the select list, HAVING or ORDER BY use an
// aggregate function (directly or through an alias).
func (b *block) anyAggregate() bool {
	s := b.sel
	found := false
	check := func(e Expr) {
		if e != nil && b.hasAggregate(e, map[string]bool{}) {
			found = true
		}
	}
	for _, c := range s.Columns {
		check(c)
	}
	check(s.Having)
	for _, o := range s.OrderBy {
		check(o.Expr)
	}
	return found
}

func (b *block) hasAggregate(e Expr, visiting map[string]bool) bool {
	found := false
	WalkExpr(e, func(x Expr) bool {
		if found {
			return false
		}
		switch n := x.(type) {
		case *FuncCall:
			if _, ok := lookupAggregate(n.Name); ok {
				found = true
				return false
			}
		case *Ident:
			if len(n.Parts) == 1 {
				if a, ok := b.aliases[n.Parts[0]]; ok && a != x && !visiting[n.Parts[0]] {
					visiting[n.Parts[0]] = true
					if b.hasAggregate(a, visiting) {
						found = true
					}
				}
			}
		}
		return true
	})
	return found
}

// staticNullable decides syntactically whether an expression has a Nullable
// type in ClickHouse: NULL literals, *OrNull functions, nullIf / toNullable,
// CAST to Nullable, Nullable columns, aliases of such expressions, ordinary
// functions and aggregate functions of a nullable argument. It is used for
// the result of aggregate functions over zero rows (NULL instead of the
// default value) and for Result.Types.
func (b *block) staticNullable(src *relation, x Expr, visiting map[string]bool) bool {
	switch n := x.(type) {
	case *Literal:
		return n.Val == nil
	case *Ident:
		if len(n.Parts) == 1 {
			name := n.Parts[0]
			if a, ok := b.aliases[name]; ok && a != x && a.Alias() == name && !visiting[name] {
				// inside its own definition the name is the column (handled by the caller's visiting set)
				if visiting == nil {
					visiting = map[string]bool{}
				}
				visiting[name] = true
				r := b.staticNullable(src, a, visiting)
				delete(visiting, name)
				return r
			}
		}
		return src != nil && src.isNullable(src.lookup(n.Parts))
	case *CastExpr:
		t, err := ParseType(n.Type)
		return err == nil && t.Name == "Nullable"
	case *Subquery:
		return true // a scalar subquery may be empty
	case *CaseExpr:
		if n.Else == nil {
			return true
		}
		for _, w := range n.Whens {
			if b.staticNullable(src, w[1], visiting) {
				return true
			}
		}
		return b.staticNullable(src, n.Else, visiting)
	case *FuncCall:
		if a := n.Alias(); a != "" {
			if visiting == nil {
				visiting = map[string]bool{}
			}
			if !visiting[a] {
				visiting[a] = true
				defer delete(visiting, a)
			}
		}
		name := resolveFuncName(n.Name)
		anyArg := func(args []Expr) bool {
			for _, a := range args {
				if _, isLambda := a.(*Lambda); isLambda {
					continue
				}
				if b.staticNullable(src, a, visiting) {
					return true
				}
			}
			return false
		}
		if spec, ok := lookupAggregate(name); ok {
			args := n.Args
			for _, c := range spec.combinators {
				switch c {
				case "If":
					if len(args) > 0 {
						args = args[:len(args)-1]
					}
				case "OrNull":
					return true
				case "State", "Merge", "Array":
					return false
				}
			}
			return !spec.factory.neverNull && anyArg(args)
		}
		switch {
		case strings.HasSuffix(name, "OrNull"), name == "nullIf", name == "toNullable":
			return true
		case name == "if":
			return len(n.Args) == 3 && anyArg(n.Args[1:])
		case name == "multiIf":
			for i := 1; i < len(n.Args); i += 2 {
				if b.staticNullable(src, n.Args[i], visiting) {
					return true
				}
			}
			return len(n.Args) > 0 && b.staticNullable(src, n.Args[len(n.Args)-1], visiting)
		case name == "ifNull":
			return len(n.Args) == 2 && b.staticNullable(src, n.Args[1], visiting)
		case name == "coalesce":
			for _, a := range n.Args {
				if !b.staticNullable(src, a, visiting) {
					return false
				}
			}
			return true
		case name == "and", name == "or", isComparison(name):
			return anyArg(n.Args)
		case isInFunc(name):
			return false
		}
		if _, isHO := higherOrder[name]; isHO {
			return false
		}
		if fn, ok := scalarFuncs[name]; ok && !fn.handlesNull {
			return anyArg(n.Args)
		}
		return false
	}
	return false
}

// checkAggregated verifies, like ClickHouse's analyzer, that in an aggregated
// block every column reference outside of aggregate functions belongs to an
// expression that is a GROUP BY key.
func (b *block) checkAggregated(src *relation, x Expr, bound map[string]bool, stack []string) error {
	if x == nil {
		return nil
	}
	if _, isLit := x.(*Literal); !isLit && len(b.groupCanon) > 0 {
		c := canon(x)
		for i, kc := range b.groupCanon {
			if kc == c || b.groupKeys[i] == x {
				return nil
			}
		}
	}
	if a := x.Alias(); a != "" {
		stack = append(stack, a)
	}
	switch n := x.(type) {
	case *Ident:
		if len(n.Parts) == 1 {
			name := n.Parts[0]
			if bound[name] {
				return nil
			}
			if a, ok := b.aliases[name]; ok && a != x {
				top := ""
				if len(stack) > 0 {
					top = stack[len(stack)-1]
				}
				if top != name {
					for _, s := range stack {
						if s == name {
							return badArgf("cyclic aliases (%s)", name)
						}
					}
					return b.checkAggregated(src, a, bound, stack)
				}
			}
		} else if bound[n.Parts[0]] {
			return nil
		}
		if src.lookup(n.Parts) >= 0 {
			return fmt.Errorf("%w: %s", errNotAnAggregate, n.Name())
		}
		return nil // unknown identifiers are reported by the evaluation
	case *FuncCall:
		if _, ok := lookupAggregate(resolveFuncName(n.Name)); ok {
			return nil
		}
		for _, a := range n.Args {
			if err := b.checkAggregated(src, a, bound, stack); err != nil {
				return err
			}
		}
	case *Lambda:
		nb := make(map[string]bool, len(bound)+len(n.Params))
		for k := range bound {
			nb[k] = true
		}
		for _, p := range n.Params {
			nb[p] = true
		}
		return b.checkAggregated(src, n.Body, nb, stack)
	case *TupleLit:
		for _, a := range n.Elems {
			if err := b.checkAggregated(src, a, bound, stack); err != nil {
				return err
			}
		}
	case *ArrayLit:
		for _, a := range n.Elems {
			if err := b.checkAggregated(src, a, bound, stack); err != nil {
				return err
			}
		}
	case *CastExpr:
		return b.checkAggregated(src, n.Expr, bound, stack)
	case *IntervalExpr:
		return b.checkAggregated(src, n.Value, bound, stack)
	case *CaseExpr:
		if err := b.checkAggregated(src, n.Operand, bound, stack); err != nil {
			return err
		}
		for _, w := range n.Whens {
			if err := b.checkAggregated(src, w[0], bound, stack); err != nil {
				return err
			}
			if err := b.checkAggregated(src, w[1], bound, stack); err != nil {
				return err
			}
		}
		return b.checkAggregated(src, n.Else, bound, stack)
	}
	return nil
}

// expandColumns expands * / t.* and computes the output column names.
func (b *block) expandColumns(src *relation) ([]Expr, []string, error) {
	var cols []Expr
	var names []string
	for _, c := range b.sel.Columns {
		if st, ok := c.(*Star); ok {
			n := 0
			for _, rc := range src.cols {
				if st.Qualifier != "" && rc.qual != st.Qualifier {
					continue
				}
				parts := []string{rc.name}
				if rc.qual != "" && rc.qual != "system.one" {
					parts = []string{rc.qual, rc.name}
				}
				cols = append(cols, &Ident{Parts: parts})
				names = append(names, rc.name)
				n++
			}
			if n == 0 {
				return nil, nil, unknownf("no columns for %s", st.String())
			}
			continue
		}
		cols = append(cols, c)
		switch {
		case c.Alias() != "":
			names = append(names, c.Alias())
		default:
			if id, ok := c.(*Ident); ok {
				names = append(names, id.Parts[len(id.Parts)-1])
			} else {
				names = append(names, canon(c))
			}
		}
	}
	return cols, names, nil
}

// project evaluates select list, HAVING, ORDER BY keys and LIMIT BY keys over
// the given source rows (grouping them first when the block is aggregated).
func (b *block) project(src *relation, cols []Expr, rows [][]any, sampleMode bool) ([]outRow, error) {
	s := b.sel
	if sampleMode {
		b.static = true
		defer func() { b.static = false }()
	}
	finish := func(e *env) (outRow, bool, error) {
		var o outRow
		if s.Having != nil {
			v, err := e.eval(s.Having)
			if err != nil {
				if !sampleMode || isStaticErr(err) {
					return o, false, err
				}
			} else if !sampleMode {
				t, err := truthy(v)
				if err != nil {
					return o, false, err
				}
				if !t {
					return o, false, nil
				}
			}
		}
		o.vals = make([]any, len(cols))
		for i, c := range cols {
			v, err := e.eval(c)
			if err != nil {
				if !sampleMode || isStaticErr(err) {
					return o, false, err
				}
				v = nil
			}
			if _, isLambda := v.(*lambdaVal); isLambda {
				return o, false, typeErrf("lambda cannot be a column")
			}
			o.vals[i] = v
		}
		for _, ob := range s.OrderBy {
			v, err := e.eval(ob.Expr)
			if err != nil {
				if !sampleMode || isStaticErr(err) {
					return o, false, err
				}
			}
			o.keys = append(o.keys, v)
		}
		if s.LimitBy != nil {
			for _, be := range s.LimitBy.By {
				v, err := e.eval(be)
				if err != nil {
					if !sampleMode || isStaticErr(err) {
						return o, false, err
					}
				}
				o.by = append(o.by, v)
			}
		}
		return o, true, nil
	}

	var out []outRow
	if !b.aggregated {
		if sampleMode && s.Where != nil {
			for _, cond := range []Expr{s.Prewhere, s.Where} {
				if cond == nil {
					continue
				}
				if v, err := b.rowEnv(src, rows[0]).eval(cond); err != nil {
					if isStaticErr(err) {
						return nil, err
					}
				} else if _, err := truthy(v); err != nil {
					return nil, err
				}
			}
		} else if sampleMode && s.Prewhere != nil {
			if _, err := b.rowEnv(src, rows[0]).eval(s.Prewhere); err != nil && isStaticErr(err) {
				return nil, err
			}
		}
		for _, r := range rows {
			o, ok, err := finish(b.rowEnv(src, r))
			if err != nil {
				return nil, err
			}
			if ok {
				out = append(out, o)
			}
		}
		return out, nil
	}

	// ---- aggregated ----
	if sampleMode {
		for _, cond := range []Expr{s.Prewhere, s.Where} {
			if cond == nil {
				continue
			}
			if _, err := b.rowEnv(src, rows[0]).eval(cond); err != nil && isStaticErr(err) {
				return nil, err
			}
		}
	}
	// resolve GROUP BY keys: an identifier naming an alias means that expression
	b.groupKeys, b.groupCanon = nil, nil
	for _, g := range s.GroupBy {
		if lit, ok := g.(*Literal); ok {
			if _, _, _, isInt := intParts(lit.Val); isInt {
				return nil, unsupportedf("positional GROUP BY argument %s", lit.String())
			}
		}
		k := g
		if id, ok := g.(*Ident); ok && len(id.Parts) == 1 {
			if a, ok := b.aliases[id.Parts[0]]; ok {
				k = a
			}
		}
		if b.hasAggregate(k, map[string]bool{}) {
			return nil, typeErrf("aggregate function in GROUP BY key %s", canon(k))
		}
		b.groupKeys = append(b.groupKeys, k)
		b.groupCanon = append(b.groupCanon, canon(k))
	}
	if sampleMode {
		for _, c := range cols {
			if err := b.checkAggregated(src, c, nil, nil); err != nil {
				return nil, err
			}
		}
		if err := b.checkAggregated(src, s.Having, nil, nil); err != nil {
			return nil, err
		}
		for _, ob := range s.OrderBy {
			if err := b.checkAggregated(src, ob.Expr, nil, nil); err != nil {
				return nil, err
			}
		}
	}
	type grp struct {
		keys []any
		rows [][]any
	}
	var groups []*grp
	index := map[string]*grp{}
	for _, r := range rows {
		keys := make([]any, len(b.groupKeys))
		e := b.rowEnv(src, r)
		for i, k := range b.groupKeys {
			v, err := e.eval(k)
			if err != nil {
				if !sampleMode || isStaticErr(err) {
					return nil, err
				}
			}
			keys[i] = v
		}
		hk := hashKey(Tuple(keys))
		g := index[hk]
		if g == nil {
			g = &grp{keys: keys}
			index[hk] = g
			groups = append(groups, g)
		}
		g.rows = append(g.rows, r)
	}
	if len(groups) == 0 && len(b.groupKeys) == 0 {
		// aggregation without keys over no rows yields one row
		groups = append(groups, &grp{})
	}
	for _, g := range groups {
		e := b.rowEnv(src, nil)
		e.inGroup = true
		e.group = g.rows
		e.keyVals = g.keys
		if len(g.rows) > 0 {
			e.row = g.rows[0]
		} else {
			e.row = make([]any, len(src.cols))
			for i := range e.row {
				if src.sample != nil {
					e.row[i] = zeroLike(src.sample[i])
				}
			}
		}
		o, ok, err := finish(e)
		if err != nil {
			return nil, err
		}
		if ok {
			out = append(out, o)
		}
	}
	return out, nil
}

// ---------------------------------------------------------------------------
// expression environment
// ---------------------------------------------------------------------------

type env struct {
	b   *block
	rel *relation
	row []any

	inGroup bool    // aggregated context: aggregate functions allowed
	group   [][]any // rows of the group
	keyVals []any   // values of b.groupKeys for this group

	vars         map[string]any // lambda parameters
	aliasStack   []string       // aliases whose definition is being evaluated
	noBlockAlias string         // alias name to ignore (ARRAY JOIN element aliases)
}

func (b *block) rowEnv(rel *relation, row []any) *env { return &env{b: b, rel: rel, row: row} }

// constEnv evaluates constant expressions (LIMIT ...).
func (b *block) constEnv() *env { return &env{b: b, rel: &relation{}, row: nil} }

func (e *env) child() *env {
	c := *e
	return &c
}

// evalNoAlias evaluates an aliased element whose alias is not an expression
// alias of the block (ARRAY JOIN list elements).
func (e *env) evalNoAlias(x Expr) (any, error) {
	return e.evalNode(x)
}

// eval evaluates an expression; if the node carries an alias the alias is
// marked as "being defined" so that a self reference means the column.
func (e *env) eval(x Expr) (any, error) {
	if x == nil {
		return nil, nil
	}
	if e.inGroup && len(e.b.groupKeys) > 0 {
		// an expression equal to a GROUP BY key has the key's value
		for i, k := range e.b.groupKeys {
			if k == x {
				return e.keyVals[i], nil
			}
		}
		switch x.(type) {
		case *Literal:
		default:
			c := canon(x)
			for i, kc := range e.b.groupCanon {
				if kc == c {
					return e.keyVals[i], nil
				}
			}
		}
	}
	if a := x.Alias(); a != "" {
		e.aliasStack = append(e.aliasStack, a)
		defer func() { e.aliasStack = e.aliasStack[:len(e.aliasStack)-1] }()
	}
	return e.evalNode(x)
}

type lambdaVal struct {
	fn  *Lambda
	env *env
}

func (e *env) evalNode(x Expr) (any, error) {
	switch n := x.(type) {
	case *Literal:
		return literalValue(n.Val), nil
	case *Ident:
		return e.evalIdent(n)
	case *FuncCall:
		return e.evalCall(n)
	case *TupleLit:
		t := make(Tuple, len(n.Elems))
		for i, el := range n.Elems {
			v, err := e.eval(el)
			if err != nil {
				return nil, err
			}
			t[i] = v
		}
		return t, nil
	case *ArrayLit:
		a := make([]any, len(n.Elems))
		for i, el := range n.Elems {
			v, err := e.eval(el)
			if err != nil {
				return nil, err
			}
			a[i] = v
		}
		return unifyArray(a)
	case *Lambda:
		return &lambdaVal{fn: n, env: e}, nil
	case *CastExpr:
		v, err := e.eval(n.Expr)
		if err != nil {
			return nil, err
		}
		t, err := ParseType(n.Type)
		if err != nil {
			return nil, err
		}
		return castValue(v, t)
	case *Subquery:
		return e.scalarSubquery(n)
	case *IntervalExpr:
		return e.evalInterval(n)
	case *CaseExpr:
		return e.evalCase(n)
	case *Star:
		return nil, unsupportedf("* in this position")
	case *Param:
		return nil, unsupportedf("query parameter %s", n.Text)
	}
	return nil, unsupportedf("expression %T", x)
}

func (e *env) evalIdent(id *Ident) (any, error) {
	if len(id.Parts) == 1 {
		name := id.Parts[0]
		if v, ok := e.vars[name]; ok {
			return v, nil
		}
		if a, ok := e.b.aliases[name]; ok && a != Expr(id) {
			top := ""
			if len(e.aliasStack) > 0 {
				top = e.aliasStack[len(e.aliasStack)-1]
			}
			if top != name {
				for _, s := range e.aliasStack {
					if s == name {
						return nil, badArgf("cyclic aliases (%s)", name)
					}
				}
				return e.eval(a)
			}
		}
	} else if v, ok := e.vars[id.Parts[0]]; ok {
		// x.name on a lambda parameter: named tuple element
		return nil, unsupportedf("named tuple element access %s (value %s)", id.Name(), typeNameOf(v))
	}
	idx := e.rel.lookup(id.Parts)
	if idx < 0 {
		if len(id.Parts) == 2 {
			if _, ok := e.b.aliases[id.Parts[0]]; ok {
				return nil, unsupportedf("named tuple element access %s", id.Name())
			}
		}
		return nil, unknownf("unknown identifier %s", id.Name())
	}
	if e.row == nil {
		return nil, unknownf("column %s in a constant expression", id.Name())
	}
	return e.row[idx], nil
}

// unifyArray gives the elements of an array literal a common type
// (ClickHouse: least supertype), e.g. [1, 256] -> Array(UInt16).
func unifyArray(a []any) ([]any, error) {
	return unifyValues(a)
}

func unifyValues(a []any) ([]any, error) {
	var allInt, anyFloat, anySigned, anyNum, anyOther bool = true, false, false, false, false
	maxSize := 0
	for _, v := range a {
		if v == nil {
			continue
		}
		k, ok := kindOf(v)
		if !ok {
			anyOther = true
			allInt = false
			continue
		}
		anyNum = true
		if k.isFloat {
			anyFloat = true
			allInt = false
		} else {
			if k.signed {
				anySigned = true
			}
			if k.size > maxSize {
				maxSize = k.size
			}
		}
	}
	if anyNum && anyOther {
		return nil, typeErrf("no supertype for array elements")
	}
	if !anyNum {
		// strings / tuples / arrays ...: check they are mutually comparable
		var first any
		for _, v := range a {
			if v == nil {
				continue
			}
			if first == nil {
				first = v
				continue
			}
			if _, err := compareValues(zeroLike(first), zeroLike(v)); err != nil {
				return nil, typeErrf("no supertype for array elements %s and %s", typeNameOf(first), typeNameOf(v))
			}
		}
		return a, nil
	}
	out := make([]any, len(a))
	for i, v := range a {
		if v == nil {
			continue
		}
		switch {
		case anyFloat:
			f, _ := toFloat(v)
			out[i] = f
		case allInt:
			size := maxSize
			if anySigned {
				// unsigned members need one more size step to fit into a signed type
				for _, w := range a {
					if k, ok := kindOf(w); ok && !k.signed && k.size >= size {
						size = k.size * 2
					}
				}
				if size > 8 {
					// UInt64 with negative numbers: ClickHouse has no supertype
					// except for literals that fit Int64
					size = 8
					for _, w := range a {
						if k, ok := kindOf(w); ok && !k.signed {
							if _, u, _, _ := intParts(w); u > 1<<63-1 {
								return nil, typeErrf("no supertype for UInt64 and a signed integer")
							}
						}
					}
				}
			}
			bits, _ := toBits(v)
			out[i] = makeInt(anySigned, size, bits)
		}
	}
	return out, nil
}

func (e *env) scalarSubquery(n *Subquery) (any, error) {
	rel, err := e.b.q.execCached(n.Query, e.b.scope)
	if err != nil {
		return nil, err
	}
	if len(rel.rows) > 1 {
		return nil, badArgf("scalar subquery returned more than one row")
	}
	if len(rel.rows) == 0 {
		// ClickHouse: empty scalar subquery result is NULL
		return nil, nil
	}
	r := rel.rows[0]
	if len(r) == 1 {
		return r[0], nil
	}
	return Tuple(append([]any{}, r...)), nil
}

func (e *env) evalInterval(n *IntervalExpr) (any, error) {
	v, err := e.eval(n.Value)
	if err != nil {
		return nil, err
	}
	unit := n.Unit
	if s, ok := v.(string); ok {
		// INTERVAL '1 day' / INTERVAL '1' DAY
		fields := strings.Fields(s)
		switch {
		case len(fields) == 2 && unit == "":
			unit = normalizeIntervalUnit(fields[1])
			if unit == "" {
				return nil, badArgf("bad interval %q", s)
			}
			s = fields[0]
		case len(fields) == 1 && unit != "":
		default:
			return nil, unsupportedf("interval literal %q", s)
		}
		var i int64
		if _, err := fmt.Sscanf(s, "%d", &i); err != nil || fmt.Sprint(i) != strings.TrimPrefix(s, "+") {
			return nil, badArgf("bad interval %q", s)
		}
		return Interval{N: i, Unit: unit}, nil
	}
	i, u, neg, ok := intParts(v)
	if !ok {
		return nil, typeErrf("INTERVAL value must be an integer, got %s", typeNameOf(v))
	}
	if !neg {
		i = int64(u)
	}
	return Interval{N: i, Unit: unit}, nil
}

func (e *env) evalCase(n *CaseExpr) (any, error) {
	// CASE is rewritten by ClickHouse to multiIf / transform; the lazily
	// evaluated multiIf form is used here for both variants.
	var operand any
	var err error
	if n.Operand != nil {
		if operand, err = e.eval(n.Operand); err != nil {
			return nil, err
		}
	}
	for _, w := range n.Whens {
		c, err := e.eval(w[0])
		if err != nil {
			return nil, err
		}
		hit := false
		if n.Operand != nil {
			if operand != nil && c != nil {
				cmp, err := compareValues(operand, c)
				if err != nil {
					return nil, err
				}
				hit = cmp == 0
			}
		} else if hit, err = truthy(c); err != nil {
			return nil, err
		}
		if hit {
			return e.eval(w[1])
		}
	}
	if n.Else != nil {
		return e.eval(n.Else)
	}
	return nil, nil
}

// callLambda applies a lambda to arguments.
func (l *lambdaVal) call(args ...any) (any, error) {
	if len(args) != len(l.fn.Params) {
		return nil, badArgf("lambda takes %d arguments, got %d", len(l.fn.Params), len(args))
	}
	c := l.env.child()
	c.vars = make(map[string]any, len(l.env.vars)+len(args))
	for k, v := range l.env.vars {
		c.vars[k] = v
	}
	for i, p := range l.fn.Params {
		c.vars[p] = args[i]
	}
	return c.eval(l.fn.Body)
}

// ---------------------------------------------------------------------------
// canonical text of an expression (aliases ignored) used to match GROUP BY keys
// ---------------------------------------------------------------------------

func canon(e Expr) string {
	var b strings.Builder
	writeCanon(&b, e)
	return b.String()
}

func writeCanon(b *strings.Builder, e Expr) {
	switch n := e.(type) {
	case nil:
	case *Literal:
		switch v := n.Val.(type) {
		case nil:
			b.WriteString("NULL")
		case string:
			b.WriteString(quoteString(v))
		default:
			fmt.Fprint(b, v)
		}
	case *Ident:
		b.WriteString(n.Name())
	case *Star:
		b.WriteString(n.String())
	case *FuncCall:
		b.WriteString(n.Name)
		if n.Params != nil {
			b.WriteByte('(')
			for i, a := range n.Params {
				if i > 0 {
					b.WriteString(", ")
				}
				writeCanon(b, a)
			}
			b.WriteByte(')')
		}
		b.WriteByte('(')
		if n.Distinct {
			b.WriteString("DISTINCT ")
		}
		for i, a := range n.Args {
			if i > 0 {
				b.WriteString(", ")
			}
			writeCanon(b, a)
		}
		b.WriteByte(')')
	case *Lambda:
		b.WriteString("lambda(" + strings.Join(n.Params, ",") + " -> ")
		writeCanon(b, n.Body)
		b.WriteByte(')')
	case *TupleLit:
		b.WriteString("tuple(")
		for i, a := range n.Elems {
			if i > 0 {
				b.WriteString(", ")
			}
			writeCanon(b, a)
		}
		b.WriteByte(')')
	case *ArrayLit:
		b.WriteString("[")
		for i, a := range n.Elems {
			if i > 0 {
				b.WriteString(", ")
			}
			writeCanon(b, a)
		}
		b.WriteByte(']')
	case *CastExpr:
		b.WriteString("CAST(")
		writeCanon(b, n.Expr)
		b.WriteString(", " + quoteString(n.Type) + ")")
	case *IntervalExpr:
		b.WriteString("INTERVAL ")
		writeCanon(b, n.Value)
		b.WriteString(" " + n.Unit)
	case *Subquery:
		fmt.Fprintf(b, "subquery@%p", n.Query)
	case *CaseExpr:
		b.WriteString("CASE ")
		writeCanon(b, n.Operand)
		for _, w := range n.Whens {
			b.WriteString(" WHEN ")
			writeCanon(b, w[0])
			b.WriteString(" THEN ")
			writeCanon(b, w[1])
		}
		b.WriteString(" ELSE ")
		writeCanon(b, n.Else)
		b.WriteString(" END")
	default:
		b.WriteString(e.String())
	}
}

package chsql

import (
	"reflect"
	"strings"
	"testing"
)

// bitShiftLeft keeps the type of its arguments (NumberTraits::ResultOfBit): a
// UInt8 condition shifted by 8 or more is 0 (the documentation example of
// bitShiftLeft shows 99 << 2 = 140 for UInt8). The LogQL stream selector of
// qryn sums bitShiftLeft(<UInt8 condition>, i) without widening, so with nine or
// more matchers the expected bit mask can never be reached.
func TestNineStreamMatchersOverflowUInt8(t *testing.T) {
	db := NewQrynDB()
	labels := map[string]string{"a": "b", "c": "d", "e": "f", "g": "h", "i": "j", "k": "l", "m": "n", "o": "p", "q": "r"}
	mustInsert(t, db, "time_series", []any{fxDate, 1, labelsJSON(labels), "", 1})
	for k, v := range labels {
		mustInsert(t, db, "time_series_gin", []any{fxDate, k, v, 1, 1})
	}
	mustInsert(t, db, "samples_v3", []any{1, (fxFromS + 1) * 1e9, 0.0, "line", 1})
	q8 := corpusSQL(t, "logql", `{a="b", c="d", e="f", g="h", i="j", k="l", m="n", o="p"}`, rangeParams("single", 5000, false))
	q9 := corpusSQL(t, "logql", `{a="b", c="d", e="f", g="h", i="j", k="l", m="n", o="p", q="r"}`, rangeParams("single", 5000, false))
	if got := rowsOf(t, db, q8); len(got) != 1 {
		t.Errorf("8 matchers: %v", got)
	}
	if got := rowsOf(t, db, q9); len(got) != 0 {
		t.Errorf("9 matchers: ClickHouse semantics give no rows (UInt8 overflow), got %v", got)
	}
	if !strings.Contains(q9, ", 8))) == (511)") {
		t.Errorf("unexpected shape of the generated SQL: %s", q9)
	}
}

func TestParseStructure(t *testing.T) {
	st, err := Parse("SELECT a, b AS x FROM db.t AS tt WHERE a = 1 AND b IN (SELECT c FROM u) ORDER BY a DESC LIMIT 5")
	if err != nil {
		t.Fatal(err)
	}
	sel := st.(*SelectUnion).Selects[0].(*Select)
	if sel.From.Database != "db" || sel.From.Table != "t" || sel.From.Alias != "tt" || len(sel.Columns) != 2 || sel.Columns[1].Alias() != "x" {
		t.Errorf("select: %+v", sel.From)
	}
	w := sel.Where.(*FuncCall)
	if w.Name != "and" || w.Args[0].(*FuncCall).Name != "equals" || w.Args[1].(*FuncCall).Name != "in" {
		t.Errorf("where: %s", w.String())
	}
	if _, ok := w.Args[1].(*FuncCall).Args[1].(*Subquery); !ok {
		t.Errorf("IN operand: %T", w.Args[1].(*FuncCall).Args[1])
	}
	if !sel.OrderBy[0].Desc || sel.Limit.(*Literal).Val != uint64(5) {
		t.Errorf("order/limit")
	}
	var tables []string
	for _, r := range TableRefs(st) {
		tables = append(tables, r.Table.Table)
	}
	if !reflect.DeepEqual(tables, []string{"t", "u"}) {
		t.Errorf("tables %v", tables)
	}
	// operators become ClickHouse function names with ClickHouse's precedence
	for src, want := range map[string]string{
		"SELECT a OR b AND NOT c = d":               "or(a, and(b, not(equals(c, d))))",
		"SELECT a = b IS NULL":                      "isNull(equals(a, b))",
		"SELECT -a.1 + b[1] * 2":                    "plus(negate(tupleElement(a, 1)), multiply(arrayElement(b, 1), 2))",
		"SELECT x -> x + 1":                         "lambda(x -> plus(x, 1))",
		"SELECT a ? b : c ? d : e":                  "if(a, b, if(c, d, e))",
		"SELECT a || b || c":                        "concat(concat(a, b), c)",
		"SELECT a NOT LIKE 'x' AND b GLOBAL IN (1)": "and(notLike(a, 'x'), globalIn(b, 1))",
		"SELECT quantile(0.5)(x)":                   "quantile(0.5)(x)",
		"SELECT (1, 2), (3), ()":                    "tuple(1, 2)",
		"SELECT a::UInt8 + 1":                       "plus(CAST(a, 'UInt8'), 1)",
		"SELECT 1 - -1":                             "minus(1, -1)",
		"SELECT a DIV 2 MOD 3":                      "modulo(intDiv(a, 2), 3)",
	} {
		st, err := Parse(src)
		if err != nil {
			t.Errorf("%s: %v", src, err)
			continue
		}
		got := canon(st.(*SelectUnion).Selects[0].(*Select).Columns[0])
		if got != want {
			t.Errorf("%s\n   got  %s\n   want %s", src, got, want)
		}
	}
	if st, err := Parse("SHOW TABLES"); err != nil || st.(*OtherStmt).Kind != "SHOW" {
		t.Errorf("SHOW TABLES: %v %v", st, err)
	}
}

func TestDateColumnAndStrings(t *testing.T) {
	db := NewDB()
	db.CreateTable("t", []Column{{"d", "Date"}, {"ts", "DateTime"}})
	mustInsert(t, db, "t", []any{"2023-11-14", "2023-11-14 22:13:20"}, []any{"2023-11-15", uint32(1700086400)})
	wantRows(t, db, "SELECT toString(d), toString(ts) FROM t WHERE d >= '2023-11-15'", [][]any{{"2023-11-15", "2023-11-15 22:13:20"}})
	wantRows(t, db, "SELECT count() FROM t WHERE ((d) >= ('2023-11-14')) and ((d) <= ('2023-11-14'))", [][]any{{u(1)}})
	wantRows(t, db, "SELECT count() FROM t WHERE d IN ('2023-11-14', '2023-11-16')", [][]any{{u(1)}})
	wantRows(t, db, "SELECT count() FROM t WHERE d >= toDate('2023-11-14') AND ts < '2023-11-15 00:00:00'", [][]any{{u(1)}})
	wantRows(t, db, "SELECT min(d), max(d), toTypeName(min(d)) FROM t", [][]any{{Date(19675), Date(19676), "Date"}})
	wantRows(t, db, "SELECT any(min_d + INTERVAL '1 day') FROM (SELECT min(d) AS min_d FROM t)", [][]any{{Date(19676)}})
}

package chsql

import (
	"reflect"
	"testing"
)

// corpusSQL returns the SQL the real qryn planner generated for a query
// (testdata/corpus.ndjson is produced by cmd/sqlcorpus).
func corpusSQL(t *testing.T, lang, query string, match func(p map[string]any) bool) string {
	t.Helper()
	for _, e := range loadCorpus(t) {
		if e.Lang == lang && e.Query == query && (match == nil || match(e.Params)) {
			return e.SQL
		}
	}
	t.Fatalf("no corpus entry for [%s] %s", lang, query)
	return ""
}

func rangeParams(env string, stepMs float64, forward bool) func(map[string]any) bool {
	return func(p map[string]any) bool {
		return p["env"] == env && p["api"] == "query_range" && p["stepMs"] == stepMs && p["forward"] == forward
	}
}

// two streams, six log lines
func smallLogsDB(t *testing.T) *DB {
	db := NewQrynDB()
	const day = "2023-11-14"
	ns := func(sec int64) int64 { return (fxFromS + sec) * 1e9 }
	// stream 1: {a="b", c="d"}   stream 2: {a="b", c="e"}   stream 3: {a="z"} (must never match)
	mustInsert(t, db, "time_series",
		[]any{day, 1, `{"a":"b","c":"d"}`, "", 1},
		[]any{day, 2, `{"c":"e","a":"b"}`, "", 1},
		[]any{day, 3, `{"a":"z"}`, "", 1})
	mustInsert(t, db, "time_series_gin",
		[]any{day, "a", "b", 1, 1}, []any{day, "c", "d", 1, 1},
		[]any{day, "a", "b", 2, 1}, []any{day, "c", "e", 2, 1},
		[]any{day, "a", "z", 3, 1})
	mustInsert(t, db, "samples_v3",
		[]any{1, ns(10), 0.0, "x one", 1},
		[]any{1, ns(20), 0.0, "no match", 1},
		[]any{1, ns(70), 0.0, "two x", 1},
		[]any{2, ns(15), 0.0, "X upper", 1},
		[]any{2, ns(30), 0.0, "third x!", 1},
		[]any{3, ns(40), 0.0, "x in another stream", 1},
		[]any{1, ns(4000), 0.0, "x out of range", 1})
	return db
}

func TestE2ELogLineFilter(t *testing.T) {
	db := smallLogsDB(t)
	// limit 100, backward
	sql := corpusSQL(t, "logql", `{a="b"} |= "x"`, rangeParams("single", 5000, false))
	res, scans, err := db.QueryWithScans(sql)
	if err != nil {
		t.Fatal(err)
	}
	if !reflect.DeepEqual(res.Cols, []string{"fingerprint", "labels", "string", "timestamp_ns"}) {
		t.Fatalf("cols %v", res.Cols)
	}
	want := [][]any{
		{u(2), sm("a", "b", "c", "e"), "third x!", i((fxFromS + 30) * 1e9)},
		{u(1), sm("a", "b", "c", "d"), "two x", i((fxFromS + 70) * 1e9)},
		{u(1), sm("a", "b", "c", "d"), "x one", i((fxFromS + 10) * 1e9)},
	}
	if !reflect.DeepEqual(res.Rows, want) {
		t.Errorf("rows\n got  %v\n want %v", res.Rows, want)
	}
	// scan report: samples_v3 offered 7 rows, 3 admitted
	found := false
	for _, s := range scans {
		if s.Table == "samples_v3" {
			found = true
			if s.Offered != 7 || s.Admitted != 3 {
				t.Errorf("samples_v3 scan: %+v", s)
			}
		}
	}
	if !found {
		t.Errorf("no samples_v3 scan in %+v", scans)
	}
	// forward, limit 10: ascending
	sql = corpusSQL(t, "logql", `{a="b"} |= "x"`, rangeParams("single", 60000, true))
	rows := rowsOf(t, db, sql)
	if len(rows) != 3 || rows[0][2] != "x one" || rows[1][2] != "two x" || rows[2][2] != "third x!" {
		t.Errorf("forward rows %v", rows)
	}
	// the cluster variant (inlined WITH, _dist tables) returns the same
	sql = corpusSQL(t, "logql", `{a="b"} |= "x"`, rangeParams("cluster", 5000, false))
	if got := rowsOf(t, db, sql); !reflect.DeepEqual(got, want) {
		t.Errorf("cluster rows\n got  %v\n want %v", got, want)
	}
	// != is the complement within the selected streams
	sql = corpusSQL(t, "logql", `{a="b"} != "x"`, rangeParams("single", 5000, false))
	rows = rowsOf(t, db, sql)
	if len(rows) != 2 || rows[0][2] != "X upper" || rows[1][2] != "no match" {
		t.Errorf("!= rows %v", rows)
	}
}

func TestE2ELogMetrics(t *testing.T) {
	db := smallLogsDB(t)
	// count_over_time({a="b"} |= "x" [1m]) with step 5s: buckets of 60 s
	sql := corpusSQL(t, "logql", `sum(count_over_time({a="b"} |= "x" [1m])) by (a)`, rangeParams("single", 5000, false))
	res, err := db.Query(sql)
	if err != nil {
		t.Fatal(err)
	}
	// lines with x: fp1 @10s, fp1 @70s, fp2 @30s. 1700000000 is 20 s past a
	// minute boundary, so +10s and +30s fall into the bucket starting at -20s and
	// +70s into the bucket starting at +40s.
	type pt struct {
		ts int64
		v  float64
	}
	var got []pt
	for _, r := range res.Rows {
		if !reflect.DeepEqual(r[1], sm("a", "b")) {
			t.Errorf("labels %v", r[1])
		}
		got = append(got, pt{r[3].(int64), r[2].(float64)})
	}
	b0 := (fxFromS - 20) * 1e9
	want := []pt{{b0, 2}, {b0 + 60e9, 1}}
	if !reflect.DeepEqual(got, want) {
		t.Errorf("points %v want %v (cols %v)", got, want, res.Cols)
	}
	// rate = count / 60
	sql = corpusSQL(t, "logql", `rate({a="b"} |= "x" [1m])`, rangeParams("single", 5000, false))
	res, err = db.Query(sql)
	if err != nil {
		t.Fatal(err)
	}
	sum := 0.0
	for _, r := range res.Rows {
		sum += r[2].(float64)
	}
	if len(res.Rows) != 3 || !sameValue(sum, 3.0/60) {
		t.Errorf("rate rows %v", res.Rows)
	}
	// unwrap over a json field
	mustInsert(t, db, "samples_v3", []any{1, (fxFromS + 100) * 1e9, 0.0, `{"y":"2.5"}`, 1}, []any{1, (fxFromS + 101) * 1e9, 0.0, `{"y":4}`, 1},
		[]any{1, (fxFromS + 102) * 1e9, 0.0, `{"y":"nan?"}`, 1})
	sql = corpusSQL(t, "logql", `avg_over_time({a="b"} | json x="y" | unwrap x [1m]) by (a)`, rangeParams("single", 5000, false))
	res, err = db.Query(sql)
	if err != nil {
		t.Fatal(err)
	}
	// qryn unwraps with toFloat64OrZero: lines without a numeric "y" count as 0.
	// buckets: [-20s] 4 lines -> 0; [+40s] 1 line -> 0; [+100s] 2.5, 4, 0 -> 6.5/3
	if len(res.Rows) != 3 || !sameValue(res.Rows[0][2], 0.0) || !sameValue(res.Rows[1][2], 0.0) || !sameValue(res.Rows[2][2], 6.5/3) ||
		res.Rows[2][3] != int64((fxFromS+100)*1e9) || !reflect.DeepEqual(res.Rows[0][1], sm("a", "b")) || res.Rows[0][0] != res.Rows[2][0] {
		t.Errorf("avg_over_time rows %v (%v)", res.Rows, res.Cols)
	}
}

func TestE2EMetrics15sShortcut(t *testing.T) {
	db := NewQrynDB()
	populateQrynDB(t, db)
	sql := corpusSQL(t, "logql", `count_over_time({a="b"}[1m])`, rangeParams("single", 5000, false))
	res, err := db.Query(sql)
	if err != nil {
		t.Fatal(err)
	}
	total := uint64(0)
	for _, r := range res.Rows {
		total += r[2].(uint64)
	}
	if total != 8 { // streams 1 and 2 have 4 lines each
		t.Errorf("countMerge total %d rows %v", total, res.Rows)
	}
}

func TestE2ESeriesAndLabels(t *testing.T) {
	db := smallLogsDB(t)
	series := corpusSQL(t, "series", `{a="b"}`, func(p map[string]any) bool { return p["env"] == "single" && p["type"] == float64(1) })
	rows := rowsOf(t, db, series)
	if len(rows) != 2 || rows[0][0] != `{"a":"b","c":"d"}` || rows[1][0] != `{"c":"e","a":"b"}` {
		t.Errorf("series %v", rows)
	}
	labels := corpusSQL(t, "labels", "labels", func(p map[string]any) bool { return p["env"] == "single" && p["type"] == float64(1) })
	if got := rowsOf(t, db, labels); !reflect.DeepEqual(got, [][]any{{"a"}, {"c"}}) {
		t.Errorf("labels %v", got)
	}
}

func TestE2ETraceQL(t *testing.T) {
	db := NewQrynDB()
	populateQrynDB(t, db)
	sql := corpusSQL(t, "traceql", `{.a="b" && .n>10}`, func(p map[string]any) bool {
		return p["env"] == "single" && p["api"] == "search" && p["limit"] == float64(20)
	})
	// the first statement of the search is the complexity estimate; take the real one
	for _, e := range loadCorpus(t) {
		if e.Lang == "traceql" && e.Query == `{.a="b" && .n>10}` && e.Params["env"] == "single" && e.Params["api"] == "search" &&
			e.Params["limit"] == float64(20) && len(e.SQL) > len(sql) {
			sql = e.SQL
		}
	}
	res, err := db.Query(sql)
	if err != nil {
		t.Fatal(err)
	}
	// only span 1 of trace 1 has a=b and n=15 > 10
	if len(res.Rows) != 1 {
		t.Fatalf("rows %v", res.Rows)
	}
	r := res.Rows[0]
	if r[0] != "01010101010101010101010101010101" || !reflect.DeepEqual(r[1], arr("0101010101010101")) ||
		!reflect.DeepEqual(r[2], arr(i(2e9))) || r[6] != "svc" || r[7] != "op" {
		t.Errorf("row %v (%v)", r, res.Cols)
	}
	// trace duration: spans of trace 1 run from +1s to +3s => 2000 ms
	if !sameValue(r[5], 2000.0) || r[4] != int64(fxFromS*1e9+1e9) {
		t.Errorf("duration/start %v %v", r[5], r[4])
	}
}

func TestE2ETempoSearchAndProm(t *testing.T) {
	db := NewQrynDB()
	populateQrynDB(t, db)
	sql := corpusSQL(t, "tempo", `service.name=svc http.method=GET`, func(p map[string]any) bool { return p["env"] == "single" })
	if got := rowsOf(t, db, sql); len(got) != 0 { // no span has both
		t.Errorf("tempo search %v", got)
	}
	sql = corpusSQL(t, "tempo", `service.name=svc`, func(p map[string]any) bool { return p["env"] == "single" })
	got := rowsOf(t, db, sql)
	if len(got) != 2 || got[0][0] != "01010101010101010101010101010101" || got[0][2] != "child" || got[0][4] != int64(500) {
		t.Errorf("tempo search %v", got)
	}
	// prometheus remote read of raw samples
	sql = corpusSQL(t, "promql", `{__name__="up"}`, func(p map[string]any) bool {
		return p["env"] == "single" && p["func"] == "" && p["step"] == float64(0)
	})
	got = rowsOf(t, db, sql)
	if len(got) != 5 || got[0][0] != uint64(4) || !sameValue(got[0][1], 1.5) || got[0][2] != int64(fxFromS*1000+10000) {
		t.Errorf("prom select %v", got)
	}
}

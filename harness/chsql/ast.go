package chsql

import (
	"fmt"
	"strings"
)

// ---------------------------------------------------------------------------
// Statements
// ---------------------------------------------------------------------------

// Stmt is a parsed statement: *SelectUnion for queries, *OtherStmt for
// statements that are recognised but not executed (SHOW / CREATE / ...).
type Stmt interface{ stmt() }

// OtherStmt is a statement chsql recognises syntactically (by its first
// keyword) but refuses to execute (ErrUnsupported).
type OtherStmt struct {
	Kind string // upper-cased first keyword(s): "SHOW", "CREATE", "ALTER", "INSERT", ...
	Text string
}

func (*OtherStmt) stmt() {}

// SetOp is the operator joining the members of a SelectUnion.
type SetOp string

const (
	OpUnionAll      SetOp = "UNION ALL"
	OpUnionDistinct SetOp = "UNION DISTINCT"
	OpIntersect     SetOp = "INTERSECT"
	OpExcept        SetOp = "EXCEPT"
)

// SelectUnion is `q1 op q2 op q3 ...`. A plain SELECT is a SelectUnion with
// one member. Members are *Select or (for parenthesised / nested set
// expressions) *SelectUnion. Ops[i] joins Selects[i] and Selects[i+1]; the
// parser has already applied precedence (INTERSECT binds tighter than UNION /
// EXCEPT), so evaluation is strictly left to right.
type SelectUnion struct {
	Selects []QueryNode
	Ops     []SetOp
	// Format / Settings trailing the whole statement (ignored by the evaluator).
	Format string
}

func (*SelectUnion) stmt()      {}
func (*SelectUnion) queryNode() {}

// QueryNode is *Select or *SelectUnion.
type QueryNode interface{ queryNode() }

// WithItem is one element of a WITH clause: either a CTE `name AS (subquery)`
// or a scalar alias `expr AS name`.
type WithItem struct {
	Name     string
	Subquery *SelectUnion // CTE
	Expr     Expr         // scalar alias
}

// Select is one SELECT query block.
type Select struct {
	With     []*WithItem
	Distinct bool
	Columns  []Expr // select list; aliases are carried by the expressions themselves (Alias())
	From     *TableExpr
	Joins    []*Join
	Prewhere Expr
	Where    Expr
	GroupBy  []Expr
	Having   Expr
	OrderBy  []*OrderItem
	LimitBy  *LimitBy
	Limit    Expr
	Offset   Expr
	Settings map[string]string
}

func (*Select) queryNode() {}

// TableExpr is a FROM / JOIN operand.
type TableExpr struct {
	Database string       // optional
	Table    string       // base table or CTE name ("" when Subquery / Func is set)
	Subquery *SelectUnion // (subquery)
	Func     *FuncCall    // table function, e.g. numbers(10)
	Alias    string
	Final    bool
	Pos      int
}

// Name is the name by which columns of this operand can be qualified.
func (t *TableExpr) Name() string {
	if t.Alias != "" {
		return t.Alias
	}
	return t.Table
}

// Join is one JOIN / ARRAY JOIN element following the FROM operand.
type Join struct {
	// ARRAY JOIN
	Array     bool
	ArrayLeft bool   // LEFT ARRAY JOIN
	ArrayList []Expr // expressions (with aliases)

	// table join
	Global     bool
	Strictness string // "", "ANY", "ALL", "ASOF", "SEMI", "ANTI"
	Kind       string // "INNER", "LEFT", "RIGHT", "FULL", "CROSS"
	Table      *TableExpr
	On         Expr
	Using      []string
}

// OrderItem is one ORDER BY key.
type OrderItem struct {
	Expr       Expr
	Desc       bool
	NullsFirst *bool // nil: default (NULLs last regardless of direction)
}

// LimitBy is `LIMIT n [OFFSET m] BY exprs`.
type LimitBy struct {
	Limit  Expr
	Offset Expr
	By     []Expr
}

// ---------------------------------------------------------------------------
// Expressions
// ---------------------------------------------------------------------------

// Expr is an expression node. Every expression can carry an alias (`expr AS a`),
// as ClickHouse allows aliases on any sub-expression.
type Expr interface {
	Alias() string
	SetAlias(string)
	Position() int
	String() string
}

type exprBase struct {
	As  string
	Pos int
}

func (b *exprBase) Alias() string     { return b.As }
func (b *exprBase) SetAlias(a string) { b.As = a }
func (b *exprBase) Position() int     { return b.Pos }

// Literal is a constant: nil (NULL), uint64 / int64 / float64 (numbers), string.
// Integer literals keep their full-width Go type here; the evaluator narrows
// them to the smallest ClickHouse type as ClickHouse does.
type Literal struct {
	exprBase
	Val  any
	Text string // source text
}

// Ident is a possibly qualified identifier: a, t.a, db.t.a
type Ident struct {
	exprBase
	Parts []string
}

// Name returns the dotted name.
func (i *Ident) Name() string { return strings.Join(i.Parts, ".") }

// Star is `*` or `t.*`.
type Star struct {
	exprBase
	Qualifier string
}

// FuncCall is name(args) or the parametric form name(params)(args). Operators
// are normalised to their ClickHouse function names (plus, equals, and, ...).
type FuncCall struct {
	exprBase
	Name     string
	Params   []Expr // parametric aggregate parameters; nil when not parametric
	Args     []Expr
	Distinct bool   // count(DISTINCT x)
	Operator string // the operator spelling when the call came from an operator ("" otherwise)
}

// Lambda is `x -> expr` or `(x, y) -> expr`.
type Lambda struct {
	exprBase
	Params []string
	Body   Expr
}

// Subquery is a scalar subquery / IN operand `(SELECT ...)`.
type Subquery struct {
	exprBase
	Query *SelectUnion
}

// TupleLit is `(a, b, ...)` (also the empty tuple `()`).
type TupleLit struct {
	exprBase
	Elems []Expr
}

// ArrayLit is `[a, b, ...]`.
type ArrayLit struct {
	exprBase
	Elems []Expr
}

// CastExpr is `expr::Type` or CAST(expr AS Type) / CAST(expr, 'Type').
type CastExpr struct {
	exprBase
	Expr Expr
	Type string
}

// IntervalExpr is INTERVAL <expr> <unit> / INTERVAL '1 day'.
type IntervalExpr struct {
	exprBase
	Value Expr
	Unit  string // SECOND, MINUTE, HOUR, DAY, WEEK, MONTH, QUARTER, YEAR ("" when given inside the string)
}

// CaseExpr is CASE [x] WHEN a THEN b ... [ELSE c] END.
type CaseExpr struct {
	exprBase
	Operand Expr
	Whens   [][2]Expr
	Else    Expr
}

// Param is a {name:Type} substitution.
type Param struct {
	exprBase
	Text string
}

func aliasSuffix(a string) string {
	if a == "" {
		return ""
	}
	return " AS " + quoteIdent(a)
}

func quoteIdent(s string) string {
	ok := s != ""
	for i := 0; i < len(s); i++ {
		c := s[i]
		if !(c == '_' || (c >= 'a' && c <= 'z') || (c >= 'A' && c <= 'Z') || (i > 0 && c >= '0' && c <= '9')) {
			ok = false
		}
	}
	if ok {
		return s
	}
	return "`" + strings.ReplaceAll(strings.ReplaceAll(s, "\\", "\\\\"), "`", "\\`") + "`"
}

func quoteString(s string) string {
	var b strings.Builder
	b.WriteByte('\'')
	for i := 0; i < len(s); i++ {
		switch c := s[i]; c {
		case '\\':
			b.WriteString("\\\\")
		case '\'':
			b.WriteString("\\'")
		case '\n':
			b.WriteString("\\n")
		case '\t':
			b.WriteString("\\t")
		case '\r':
			b.WriteString("\\r")
		case 0:
			b.WriteString("\\0")
		default:
			b.WriteByte(c)
		}
	}
	b.WriteByte('\'')
	return b.String()
}

func exprList(es []Expr) string {
	s := make([]string, len(es))
	for i, e := range es {
		s[i] = e.String()
	}
	return strings.Join(s, ", ")
}

func (l *Literal) String() string {
	var s string
	switch v := l.Val.(type) {
	case nil:
		s = "NULL"
	case string:
		s = quoteString(v)
	default:
		if l.Text != "" {
			s = l.Text
		} else {
			s = fmt.Sprint(v)
		}
	}
	return s + aliasSuffix(l.As)
}
func (i *Ident) String() string {
	p := make([]string, len(i.Parts))
	for k, s := range i.Parts {
		p[k] = quoteIdent(s)
	}
	return strings.Join(p, ".") + aliasSuffix(i.As)
}
func (s *Star) String() string {
	if s.Qualifier != "" {
		return quoteIdent(s.Qualifier) + ".*"
	}
	return "*"
}
func (f *FuncCall) String() string {
	var b strings.Builder
	b.WriteString(f.Name)
	if f.Params != nil {
		b.WriteString("(" + exprList(f.Params) + ")")
	}
	b.WriteString("(")
	if f.Distinct {
		b.WriteString("DISTINCT ")
	}
	b.WriteString(exprList(f.Args) + ")")
	return b.String() + aliasSuffix(f.As)
}
func (l *Lambda) String() string {
	return "(" + strings.Join(l.Params, ", ") + ") -> " + l.Body.String() + aliasSuffix(l.As)
}
func (s *Subquery) String() string { return "(subquery)" + aliasSuffix(s.As) }
func (t *TupleLit) String() string { return "tuple(" + exprList(t.Elems) + ")" + aliasSuffix(t.As) }
func (a *ArrayLit) String() string { return "[" + exprList(a.Elems) + "]" + aliasSuffix(a.As) }
func (c *CastExpr) String() string {
	return "CAST(" + c.Expr.String() + ", " + quoteString(c.Type) + ")" + aliasSuffix(c.As)
}
func (p *Param) String() string    { return p.Text + aliasSuffix(p.As) }
func (c *CaseExpr) String() string { return "CASE..." + aliasSuffix(c.As) }
func (i *IntervalExpr) String() string {
	return "INTERVAL " + i.Value.String() + " " + i.Unit + aliasSuffix(i.As)
}

// ---------------------------------------------------------------------------
// Walking
// ---------------------------------------------------------------------------

// WalkExpr calls fn for e and every sub-expression (pre-order). When fn returns
// false the children of that node are skipped. Subqueries are NOT entered; use
// WalkStmt to traverse whole statements.
func WalkExpr(e Expr, fn func(Expr) bool) {
	if e == nil || !fn(e) {
		return
	}
	switch n := e.(type) {
	case *FuncCall:
		for _, a := range n.Params {
			WalkExpr(a, fn)
		}
		for _, a := range n.Args {
			WalkExpr(a, fn)
		}
	case *Lambda:
		WalkExpr(n.Body, fn)
	case *TupleLit:
		for _, a := range n.Elems {
			WalkExpr(a, fn)
		}
	case *ArrayLit:
		for _, a := range n.Elems {
			WalkExpr(a, fn)
		}
	case *CastExpr:
		WalkExpr(n.Expr, fn)
	case *IntervalExpr:
		WalkExpr(n.Value, fn)
	case *CaseExpr:
		WalkExpr(n.Operand, fn)
		for _, w := range n.Whens {
			WalkExpr(w[0], fn)
			WalkExpr(w[1], fn)
		}
		WalkExpr(n.Else, fn)
	}
}

// Visitor receives the query blocks of a statement.
type Visitor struct {
	// Select is called for every SELECT block (outer blocks first). depth is the
	// subquery nesting depth, cte the name of the CTE the block belongs to ("" if none).
	Select func(s *Select, depth int, cte string)
}

// WalkStmt visits every SELECT block of the statement, including CTE bodies,
// FROM/JOIN subqueries and subqueries inside expressions.
func WalkStmt(st Stmt, v Visitor) {
	if u, ok := st.(*SelectUnion); ok {
		walkUnion(u, v, 0, "")
	}
}

func walkUnion(u *SelectUnion, v Visitor, depth int, cte string) {
	if u == nil {
		return
	}
	for _, q := range u.Selects {
		switch n := q.(type) {
		case *Select:
			walkSelect(n, v, depth, cte)
		case *SelectUnion:
			walkUnion(n, v, depth, cte)
		}
	}
}

func walkSelect(s *Select, v Visitor, depth int, cte string) {
	if v.Select != nil {
		v.Select(s, depth, cte)
	}
	sub := func(e Expr) {
		WalkExpr(e, func(x Expr) bool {
			if sq, ok := x.(*Subquery); ok {
				walkUnion(sq.Query, v, depth+1, cte)
			}
			return true
		})
	}
	for _, w := range s.With {
		if w.Subquery != nil {
			walkUnion(w.Subquery, v, depth+1, w.Name)
		} else {
			sub(w.Expr)
		}
	}
	for _, c := range s.Columns {
		sub(c)
	}
	if s.From != nil && s.From.Subquery != nil {
		walkUnion(s.From.Subquery, v, depth+1, cte)
	}
	for _, j := range s.Joins {
		if j.Table != nil && j.Table.Subquery != nil {
			walkUnion(j.Table.Subquery, v, depth+1, cte)
		}
		sub(j.On)
		for _, e := range j.ArrayList {
			sub(e)
		}
	}
	sub(s.Prewhere)
	sub(s.Where)
	for _, e := range s.GroupBy {
		sub(e)
	}
	sub(s.Having)
	for _, o := range s.OrderBy {
		sub(o.Expr)
	}
}

// TableRef describes one base-table (or CTE) reference found in a statement
// together with the predicates of the SELECT block it is the FROM operand of.
type TableRef struct {
	Table    *TableExpr
	Select   *Select // the block whose FROM / JOIN mentions the table
	IsJoin   bool    // referenced on the right side of a JOIN
	Prewhere Expr    // PREWHERE of Select (nil for join operands)
	Where    Expr    // WHERE of Select (nil for join operands)
	CTE      string  // enclosing CTE name, "" at top level
	Depth    int
	// InOperand is true when the reference is the bare `IN name` / `IN (name)`
	// right-hand side (ClickHouse reads it as SELECT * FROM name).
	InOperand bool
}

// TableRefs lists every table reference of the statement (FROM operands, JOIN
// operands and bare table names used as the right-hand side of IN). References
// to CTE names are included; compare TableExpr.Table with the WITH names (see
// CTENames) to tell them apart.
func TableRefs(st Stmt) []TableRef {
	var refs []TableRef
	WalkStmt(st, Visitor{Select: func(s *Select, depth int, cte string) {
		if s.From != nil && s.From.Table != "" {
			refs = append(refs, TableRef{Table: s.From, Select: s, Prewhere: s.Prewhere, Where: s.Where, CTE: cte, Depth: depth})
		}
		for _, j := range s.Joins {
			if j.Table != nil && j.Table.Table != "" {
				refs = append(refs, TableRef{Table: j.Table, Select: s, IsJoin: true, CTE: cte, Depth: depth})
			}
		}
		inRefs := func(e Expr) {
			WalkExpr(e, func(x Expr) bool {
				if f, ok := x.(*FuncCall); ok && isInFunc(f.Name) && len(f.Args) == 2 {
					if id, ok := f.Args[1].(*Ident); ok {
						te := &TableExpr{Table: id.Parts[len(id.Parts)-1], Pos: id.Pos}
						if len(id.Parts) > 1 {
							te.Database = id.Parts[0]
						}
						refs = append(refs, TableRef{Table: te, Select: s, CTE: cte, Depth: depth, InOperand: true})
					}
				}
				return true
			})
		}
		for _, c := range s.Columns {
			inRefs(c)
		}
		inRefs(s.Prewhere)
		inRefs(s.Where)
		inRefs(s.Having)
		for _, j := range s.Joins {
			inRefs(j.On)
		}
	}})
	return refs
}

// CTENames returns the names bound by WITH ... AS (subquery) anywhere in the statement.
func CTENames(st Stmt) map[string]bool {
	m := map[string]bool{}
	WalkStmt(st, Visitor{Select: func(s *Select, depth int, cte string) {
		for _, w := range s.With {
			if w.Subquery != nil {
				m[w.Name] = true
			}
		}
	}})
	return m
}

func isInFunc(name string) bool {
	switch name {
	case "in", "notIn", "globalIn", "globalNotIn":
		return true
	}
	return false
}

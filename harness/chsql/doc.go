package chsql

// Semantic choices (where ClickHouse's behaviour had to be pinned down)
//
// Lexer
//   - String / quoted identifier escapes: ClickHouse's parseComplexEscapeSequence:
//     \xHH, \N (empty), \a \b \e \f \n \r \t \v \0; \\ \' \" \` \/ \= yield the
//     character; ANY other \c keeps the backslash (so '\d' is the 2 characters
//     \d and '\%' stays \% for LIKE).
//   - '#' starts a comment only when followed by a space or '!'.
//   - {name:Type} is lexed as one TokParam token; '?' is the ternary operator.
//
// Parser
//   - Operator priorities are those of ClickHouse's ParserExpressionImpl
//     (lambda < ?: < OR < AND < NOT < IS NULL < BETWEEN < comparison/LIKE/IN <
//     || < +- < */% < unary minus < [] . ::). Operators are represented as
//     calls of the equivalent functions (equals, plus, and, tupleElement, ...).
//   - `expr AS alias` is accepted on any sub-expression; the alias applies to
//     the whole expression parsed so far.
//   - INTERSECT binds tighter than UNION ALL / EXCEPT; UNION without ALL or
//     DISTINCT is refused (depends on union_default_mode).
//
// Name resolution (one SELECT block)
//   - lambda parameter, then alias of the block (declared anywhere in it, also
//     scalar WITH aliases of enclosing blocks), then column. Inside the
//     definition of alias `a` the name `a` means the column (SELECT f(x) AS x).
//   - With JOINs an unqualified name that exists on both sides is the left one.
//   - Unaliased output columns: identifiers are named by their last component,
//     other expressions by their canonical text, e.g. plus(a, 1).
//
// Typing
//   - Exact ClickHouse integer typing: literals take the smallest type;
//     + and * widen one step (UInt8+UInt8 = UInt16), - is signed, / is Float64,
//     intDiv has the size of the dividend, % the size of the divisor,
//     bit functions and shifts keep max(size) (so bitShiftLeft(UInt8, 8) = 0).
//     Arithmetic wraps like C++.
//   - Comparing String with numbers is ErrType, except against a string
//     LITERAL, which is parsed as the other side's type (Date, DateTime,
//     numbers) as ClickHouse does. FixedString vs String compares zero padded.
//   - Types of empty relations come from a "sample row" (see eval.go), so type
//     errors and unsupported functions are reported even on empty tables. While
//     the sample row is evaluated, and/or/if/multiIf also check the operands and
//     branches that short circuit evaluation skips (static errors only).
//   - Nullable-ness is decided syntactically (block.staticNullable): NULL,
//     *OrNull functions, nullIf, toNullable, CAST to Nullable, Nullable columns
//     (also of subqueries / CTEs), and functions / aggregates of such arguments.
//     An aggregate of a Nullable argument over zero (admitted) rows is NULL,
//     except count, groupArray, groupUniqArray, uniqExact.
//
// Functions
//   - match/extract*/replaceRegexp*/LIKE use RE2 syntax with dot_nl ('.'
//     matches '\n', ClickHouse sets RE_DOT_NL); match() searches anywhere.
//     LIKE is a port of likePatternToRegexp: % and _ (one code point), \% \_ \\
//     escapes, a trailing single backslash is an error.
//   - toFloat64(String) / toFloat64OrNull / OrZero use a port of ClickHouse's
//     default (fast, slightly imprecise) float parser readFloatTextFastImpl.
//   - JSON*: strict parser (simdjson-like): invalid documents give defaults.
//     JSONExtractString returns '' for non-strings; JSONExtractKeysAndValues(j,
//     'String') returns non-string values as raw JSON and skips nulls;
//     JSONExtractRaw re-serialises compactly ([-100,200,300]); JSONType is
//     rendered as its enum name.
//   - cityHash64: CityHash 1.0.2 for strings; integers / floats via
//     intHash64(x ^ 0x4CF2D2BAAE6DA887); arguments and tuple elements are
//     combined with Hash128to64; arrays start from the hash of their length;
//     maps hash as Array(Tuple(k, v)) in insertion order.
//   - mapUpdate(a, b): entries of a not in b (a's order), then all of b.
//   - quantile(): exact interpolation (ReservoirSampler::quantileInterpolated)
//     up to DB.MaxQuantileSample values, refused beyond; uniq and other
//     approximate functions are refused.
//   - varPop/stddevPop/...: the sum-of-powers formula of ClickHouse.
//   - if / multiIf / and / or evaluate lazily (short circuit enabled).
//   - IN: a NULL on the left gives 0 (NOT IN: 1) as with transform_null_in = 0.
//
// Clauses
//   - ANY LEFT JOIN takes the first matching right row; unmatched right columns
//     get type defaults (join_use_nulls = 0). INNER ANY JOIN uses each right
//     row at most once and each left row at most once. Default strictness ALL.
//   - HAVING without aggregation filters the projected rows (old analyzer).
//   - Aggregated blocks are checked like ClickHouse: a column outside an
//     aggregate function must be (part of an expression that is) a GROUP BY key.
//   - Row order where the query does not define it: scan order, groups in order
//     of first appearance, stable sort. groupUniqArray keeps first-seen order.
//   - Time zone of date functions: UTC.
//   - Float sums are accumulated in row order; ClickHouse may associate
//     differently (unrolled loops, threads), so compare floats with a tolerance.

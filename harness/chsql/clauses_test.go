package chsql

import (
	"errors"
	"reflect"
	"testing"
)

func rowsOf(t *testing.T, db *DB, sql string) [][]any {
	t.Helper()
	res, err := db.Query(sql)
	if err != nil {
		t.Fatalf("%s: %v", sql, err)
	}
	return res.Rows
}

func wantRows(t *testing.T, db *DB, sql string, want [][]any) {
	t.Helper()
	got := rowsOf(t, db, sql)
	if len(got) == 0 && len(want) == 0 {
		return
	}
	if !reflect.DeepEqual(got, want) {
		t.Errorf("%s\n   got  %v\n   want %v", sql, got, want)
	}
}

func joinDB(t *testing.T) *DB {
	db := NewDB()
	db.CreateTable("l", []Column{{"id", "UInt64"}, {"name", "String"}})
	db.CreateTable("r", []Column{{"id", "UInt64"}, {"val", "String"}, {"m", "Map(String, String)"}, {"n", "Int32"}})
	mustInsert(t, db, "l", []any{1, "one"}, []any{2, "two"}, []any{3, "three"}, []any{2, "deux"})
	mustInsert(t, db, "r",
		[]any{2, "r2a", map[string]string{"k": "v"}, -1},
		[]any{2, "r2b", map[string]string{}, -2},
		[]any{3, "r3", map[string]string{}, -3},
		[]any{4, "r4", map[string]string{}, -4})
	return db
}

// ANY LEFT JOIN: the first matching right row only; unmatched rows get the
// DEFAULT values of the right columns (join_use_nulls = 0), not NULLs.
func TestJoins(t *testing.T) {
	db := joinDB(t)
	wantRows(t, db, "SELECT l.id, name, val, m, n FROM l ANY LEFT JOIN r ON l.id = r.id ORDER BY name", [][]any{
		{u(2), "deux", "r2a", sm("k", "v"), i(-1)},
		{u(1), "one", "", sm(), i(0)},
		{u(3), "three", "r3", sm(), i(-3)},
		{u(2), "two", "r2a", sm("k", "v"), i(-1)},
	})
	wantRows(t, db, "SELECT l.id, val FROM l ALL LEFT JOIN r ON l.id = r.id WHERE name = 'two' ORDER BY val", [][]any{
		{u(2), "r2a"}, {u(2), "r2b"}})
	wantRows(t, db, "SELECT name, val FROM l LEFT JOIN r ON (l.id) == (r.id) WHERE name = 'two' ORDER BY val", [][]any{
		{"two", "r2a"}, {"two", "r2b"}}) // default strictness is ALL
	wantRows(t, db, "SELECT name, val FROM l INNER JOIN r ON l.id = r.id ORDER BY name, val", [][]any{
		{"deux", "r2a"}, {"deux", "r2b"}, {"three", "r3"}, {"two", "r2a"}, {"two", "r2b"}})
	wantRows(t, db, "SELECT name, val FROM l JOIN r USING (id) WHERE id = 3", [][]any{{"three", "r3"}})
	// INNER ANY JOIN: no cartesian product at all: one row per key
	wantRows(t, db, "SELECT name, val FROM l INNER ANY JOIN r ON l.id = r.id ORDER BY name", [][]any{
		{"three", "r3"}, {"two", "r2a"}})
	wantRows(t, db, "SELECT name, val FROM l ANY INNER JOIN r ON l.id = r.id ORDER BY name", [][]any{
		{"three", "r3"}, {"two", "r2a"}})
	wantRows(t, db, "SELECT name, val FROM l GLOBAL ANY LEFT JOIN r ON l.id = r.id WHERE l.id = 1", [][]any{{"one", ""}})
	wantRows(t, db, "SELECT count() FROM l CROSS JOIN r", [][]any{{u(16)}})
	// join with a subquery and with an empty right side: defaults by type
	wantRows(t, db, "SELECT name, sub.val, sub.n FROM l ANY LEFT JOIN (SELECT id, val, n FROM r WHERE n < -100) AS sub ON l.id = sub.id WHERE l.id = 2 ORDER BY name",
		[][]any{{"deux", "", i(0)}, {"two", "", i(0)}})
	// unqualified ambiguous column: the left table wins
	wantRows(t, db, "SELECT id FROM l ANY LEFT JOIN r ON l.id = r.id WHERE name = 'one'", [][]any{{u(1)}})
	if _, err := db.Query("SELECT * FROM l RIGHT JOIN r ON l.id = r.id"); !errors.Is(err, ErrUnsupported) {
		t.Errorf("RIGHT JOIN: %v", err)
	}
	// the ON condition is type checked
	if _, err := db.Query("SELECT * FROM l ANY LEFT JOIN r ON l.name = r.id"); !errors.Is(err, ErrType) {
		t.Errorf("join type error: %v", err)
	}
}

func TestSetOperations(t *testing.T) {
	db := joinDB(t)
	wantRows(t, db, "SELECT id FROM l WHERE id < 3 UNION ALL SELECT id FROM r WHERE id > 3", [][]any{{u(1)}, {u(2)}, {u(2)}, {u(4)}})
	wantRows(t, db, "(SELECT id FROM l WHERE id = 1) UNION ALL (SELECT id FROM r WHERE id = 4)", [][]any{{u(1)}, {u(4)}})
	wantRows(t, db, "SELECT id FROM l INTERSECT SELECT id FROM r", [][]any{{u(2)}, {u(3)}, {u(2)}})
	wantRows(t, db, "SELECT id FROM l EXCEPT SELECT id FROM r", [][]any{{u(1)}})
	wantRows(t, db, "SELECT id FROM l WHERE id = 1 UNION DISTINCT SELECT id FROM l WHERE id = 1", [][]any{{u(1)}})
	// INTERSECT binds tighter than UNION
	wantRows(t, db, "SELECT 1 UNION ALL SELECT 2 INTERSECT SELECT 2", [][]any{{u(1)}, {u(2)}})
	wantRows(t, db, "SELECT count() FROM (SELECT id FROM l UNION ALL SELECT id FROM r)", [][]any{{u(8)}})
	wantRows(t, db, "WITH x AS ((SELECT id FROM l WHERE id = 1) UNION ALL (SELECT id FROM r WHERE id = 4)) SELECT sum(id) FROM x", [][]any{{u(5)}})
	if _, err := db.Query("SELECT id FROM l UNION ALL SELECT id, val FROM r"); err == nil {
		t.Error("UNION ALL with different column counts must fail")
	}
	if _, err := db.Query("SELECT id FROM l UNION ALL SELECT val FROM r"); !errors.Is(err, ErrType) {
		t.Errorf("UNION ALL String with UInt64: %v", err)
	}
}

func TestArrayJoin(t *testing.T) {
	db := NewDB()
	db.CreateTable("t", []Column{{"id", "UInt64"}, {"arr", "Array(String)"}, {"tags", "Array(Tuple(String, String))"}, {"nums", "Array(UInt8)"}})
	mustInsert(t, db, "t",
		[]any{1, []string{"a", "b"}, []any{Tuple{"k1", "v1"}, Tuple{"k2", "v2"}}, []any{1, 2}},
		[]any{2, []string{}, []any{}, []any{}},
		[]any{3, []string{"c"}, []any{Tuple{"k3", "v3"}}, []any{3}})
	// docs (ARRAY JOIN clause): rows with empty arrays disappear; LEFT ARRAY JOIN keeps them with default values
	wantRows(t, db, "SELECT id, arr FROM t ARRAY JOIN arr", [][]any{{u(1), "a"}, {u(1), "b"}, {u(3), "c"}})
	wantRows(t, db, "SELECT id, a FROM t ARRAY JOIN arr AS a", [][]any{{u(1), "a"}, {u(1), "b"}, {u(3), "c"}})
	wantRows(t, db, "SELECT id, arr, a FROM t array JOIN arr as a WHERE id = 1", [][]any{
		{u(1), arr("a", "b"), "a"}, {u(1), arr("a", "b"), "b"}})
	wantRows(t, db, "SELECT id, a FROM t LEFT ARRAY JOIN arr AS a", [][]any{{u(1), "a"}, {u(1), "b"}, {u(2), ""}, {u(3), "c"}})
	wantRows(t, db, "SELECT id, kv.1 AS key, kv.2 AS val FROM t ARRAY JOIN tags AS kv", [][]any{
		{u(1), "k1", "v1"}, {u(1), "k2", "v2"}, {u(3), "k3", "v3"}})
	wantRows(t, db, "SELECT id, a, n FROM t ARRAY JOIN arr AS a, nums AS n", [][]any{
		{u(1), "a", u(1)}, {u(1), "b", u(2)}, {u(3), "c", u(3)}})
	wantRows(t, db, "SELECT id, x FROM t ARRAY JOIN arrayMap(s -> concat(s, '!'), t.arr) AS x", [][]any{
		{u(1), "a!"}, {u(1), "b!"}, {u(3), "c!"}})
	wantRows(t, db, "SELECT sub.id, el FROM (SELECT id, arr FROM t) AS sub ARRAY JOIN sub.arr AS el WHERE el != 'a'", [][]any{
		{u(1), "b"}, {u(3), "c"}})
	if _, err := db.Query("SELECT id FROM t ARRAY JOIN id"); !errors.Is(err, ErrType) {
		t.Errorf("ARRAY JOIN of a non array: %v", err)
	}
}

func TestInOperator(t *testing.T) {
	db := joinDB(t)
	db.CreateTable("fx", []Column{{"tid", "FixedString(4)"}, {"x", "Nullable(UInt8)"}})
	mustInsert(t, db, "fx", []any{"ab", 1}, []any{"abcd", nil})
	wantRows(t, db, "SELECT name FROM l WHERE id IN (1, 3) ORDER BY name", [][]any{{"one"}, {"three"}})
	wantRows(t, db, "SELECT name FROM l WHERE id NOT IN (1, 3) ORDER BY name", [][]any{{"deux"}, {"two"}})
	wantRows(t, db, "SELECT name FROM l WHERE id IN (1)", [][]any{{"one"}})
	wantRows(t, db, "SELECT name FROM l WHERE id IN (SELECT id FROM r WHERE id > 2)", [][]any{{"three"}})
	wantRows(t, db, "WITH ids AS (SELECT id FROM r) SELECT name FROM l WHERE id IN (ids) ORDER BY name", [][]any{{"deux"}, {"three"}, {"two"}})
	wantRows(t, db, "WITH ids AS (SELECT id FROM r) SELECT name FROM l WHERE id IN ids ORDER BY name", [][]any{{"deux"}, {"three"}, {"two"}})
	wantRows(t, db, "WITH ids AS (SELECT id FROM r) SELECT name FROM l WHERE l.id GLOBAL IN (ids) AND id NOT IN (SELECT 2)", [][]any{{"three"}})
	if _, err := db.Query("SELECT name FROM l WHERE id IN r"); !errors.Is(err, ErrType) { // r has 4 columns
		t.Errorf("scalar IN table with 4 columns: %v", err)
	}
	wantRows(t, db, "SELECT name FROM l WHERE (id, name) IN ((1, 'one'), (2, 'nope'))", [][]any{{"one"}})
	wantRows(t, db, "SELECT name FROM l WHERE (id, name) IN (SELECT id, 'two' FROM r)", [][]any{{"two"}})
	wantRows(t, db, "SELECT name FROM l WHERE (id, name) IN (2, 'deux')", [][]any{{"deux"}})
	wantRows(t, db, "SELECT 'b' IN ('a', 'b'), 'c' IN ('a', 'b'), 2 IN [1, 2], 1 IN (1.0)", [][]any{{u(1), u(0), u(1), u(1)}})
	// NULL on the left: never in the set (transform_null_in = 0); NOT IN gives 1
	wantRows(t, db, "SELECT NULL IN (1), NULL NOT IN (1), x IN (1) FROM fx WHERE x IS NULL", [][]any{{u(0), u(1), u(0)}})
	// FixedString vs String: zero padded comparison
	wantRows(t, db, "SELECT tid IN ('ab'), tid IN (unhex('6162'), 'zz'), tid = 'ab' FROM fx WHERE x = 1", [][]any{{u(1), u(1), u(1)}})
	wantRows(t, db, "SELECT hex(tid), length(tid) FROM fx ORDER BY tid", [][]any{{"61620000", u(4)}, {"61626364", u(4)}})
	if _, err := db.Query("SELECT name FROM l WHERE name IN (1, 2)"); !errors.Is(err, ErrType) {
		t.Errorf("String IN numbers: %v", err)
	}
	if _, err := db.Query("SELECT name FROM l WHERE id IN (SELECT id, val FROM r)"); !errors.Is(err, ErrType) {
		t.Errorf("scalar IN two columns: %v", err)
	}
}

func TestSelectClauses(t *testing.T) {
	db := NewDB()
	db.CreateTable("t", []Column{{"k", "String"}, {"v", "Nullable(Int64)"}, {"f", "Float64"}})
	mustInsert(t, db, "t", []any{"a", 3, 1.0}, []any{"b", nil, 2.0}, []any{"c", 1, 0.0}, []any{"a", 2, 3.0}, []any{"d", nil, 4.0})
	// ORDER BY: NULLs last for ASC and DESC alike (docs: NULLS LAST is the default)
	wantRows(t, db, "SELECT v FROM t ORDER BY v", [][]any{{i(1)}, {i(2)}, {i(3)}, {nil}, {nil}})
	wantRows(t, db, "SELECT v FROM t ORDER BY v DESC", [][]any{{i(3)}, {i(2)}, {i(1)}, {nil}, {nil}})
	wantRows(t, db, "SELECT v FROM t ORDER BY v NULLS FIRST", [][]any{{nil}, {nil}, {i(1)}, {i(2)}, {i(3)}})
	wantRows(t, db, "SELECT k, v FROM t ORDER BY k DESC, v ASC LIMIT 2", [][]any{{"d", nil}, {"c", i(1)}})
	wantRows(t, db, "SELECT k, v FROM t ORDER BY (k, f) DESC LIMIT 1", [][]any{{"d", nil}})
	wantRows(t, db, "SELECT k FROM t ORDER BY f DESC LIMIT 2 OFFSET 1", [][]any{{"a"}, {"b"}})
	wantRows(t, db, "SELECT k FROM t ORDER BY f DESC LIMIT 1, 2", [][]any{{"a"}, {"b"}})
	wantRows(t, db, "SELECT k FROM t ORDER BY f LIMIT 0", nil)
	wantRows(t, db, "SELECT DISTINCT k FROM t ORDER BY k", [][]any{{"a"}, {"b"}, {"c"}, {"d"}})
	wantRows(t, db, "SELECT  DISTINCT k FROM t LIMIT 2", [][]any{{"a"}, {"b"}})
	wantRows(t, db, "SELECT k, f FROM t ORDER BY f DESC LIMIT 1 BY k", [][]any{{"d", 4.0}, {"a", 3.0}, {"b", 2.0}, {"c", 0.0}})
	// WHERE: NULL is not selected
	wantRows(t, db, "SELECT k FROM t WHERE v > 1 ORDER BY k, v", [][]any{{"a"}, {"a"}})
	wantRows(t, db, "SELECT k FROM t PREWHERE f > 0 WHERE v IS NULL ORDER BY k", [][]any{{"b"}, {"d"}})
	wantRows(t, db, "SELECT count() FROM t WHERE NOT (v > 1)", [][]any{{u(1)}})
	// aliases: usable in WHERE / ORDER BY and inside other select expressions; declared anywhere
	wantRows(t, db, "SELECT f * 2 AS dbl, dbl + 1 AS more FROM t WHERE dbl > 6 ORDER BY more", [][]any{{8.0, 9.0}})
	wantRows(t, db, "SELECT k FROM t WHERE (f * 10 AS f10) > 25 AND f10 < 35", [][]any{{"a"}})
	wantRows(t, db, "SELECT concat(k, '!') AS k FROM t WHERE f = 4", [][]any{{"d!"}}) // self reference = the column
	wantRows(t, db, "WITH 2 AS two SELECT f * two AS r FROM t WHERE k = 'b'", [][]any{{4.0}})
	wantRows(t, db, "WITH (SELECT max(f) FROM t) AS mx SELECT k FROM t WHERE f = mx", [][]any{{"d"}})
	wantRows(t, db, "SELECT (SELECT count() FROM t) AS c, (select max(f) from t) AS m", [][]any{{u(5), 4.0}})
	wantRows(t, db, "SELECT (SELECT f FROM t WHERE f > 100) IS NULL", [][]any{{u(1)}}) // empty scalar subquery is NULL
	wantRows(t, db, "SELECT * FROM (SELECT k, f FROM t WHERE f > 2) AS s ORDER BY s.f", [][]any{{"a", 3.0}, {"d", 4.0}})
	wantRows(t, db, "SELECT s.* FROM (SELECT k FROM t WHERE f = 4) AS s", [][]any{{"d"}})
	wantRows(t, db, "SELECT 1 AS x, 'a' AS y", [][]any{{u(1), "a"}})
	wantRows(t, db, "SELECT k FROM t WHERE f = 4 FORMAT JSON", [][]any{{"d"}})
	wantRows(t, db, "SELECT k FROM t WHERE f = 4 SETTINGS max_threads=1 ", [][]any{{"d"}})
	wantRows(t, db, "SELECT k FROM t WHERE f = 4 SETTINGS a=1 b=2 ", [][]any{{"d"}})
	wantRows(t, db, "SELECT k FROM t WHERE f = 4 -- trailing comment", [][]any{{"d"}})
	// HAVING without aggregation filters the projected rows (topk-style queries of qryn)
	wantRows(t, db, "SELECT f AS value FROM t HAVING value > 3", [][]any{{4.0}})
	// column names of the result
	res, err := db.Query("SELECT t.k, f + 1, lower(k) FROM t LIMIT 1")
	if err != nil || !reflect.DeepEqual(res.Cols, []string{"k", "plus(f, 1)", "lower(k)"}) {
		t.Errorf("column names: %v %v", res, err)
	}
	// static checks also cover operands / branches that short circuit evaluation
	// never reaches, and tables without rows (ClickHouse analyses types first)
	for _, q := range []string{
		"SELECT k FROM t WHERE (f > 100) and ()",
		"SELECT k FROM t WHERE f > 100 AND k",
		"SELECT k FROM t WHERE f < 100 OR k",
		"SELECT if(f >= 0, 1, k + 1) FROM t",
		"SELECT multiIf(f >= 0, 1, f < 0, k + 1, 2) FROM t",
		"SELECT k FROM (SELECT k, f FROM t WHERE f > 100) WHERE (f > 100) and ()",
	} {
		if _, err := db.Query(q); !errors.Is(err, ErrType) {
			t.Errorf("%s: want a type error, got %v", q, err)
		}
	}
	if _, err := db.Query("SELECT if(f >= 0, 1, noSuchFunction(k)) FROM t"); !errors.Is(err, ErrUnsupported) {
		t.Errorf("unknown function in an untaken branch: %v", err)
	}
	wantRows(t, db, "SELECT if(f >= 0, 1, intDiv(1, 0)) FROM t LIMIT 1", [][]any{{u(1)}}) // run-time errors stay lazy
	if _, err := db.Query("SELECT nope FROM t"); !errors.Is(err, ErrUnknownIdentifier) {
		t.Errorf("unknown column: %v", err)
	}
	if _, err := db.Query("SELECT 1 FROM nope"); !errors.Is(err, ErrUnknownIdentifier) {
		t.Errorf("unknown table: %v", err)
	}
	if _, err := db.Query("SELECT k FROM t WHERE"); !errors.Is(err, ErrSyntax) {
		t.Errorf("syntax error: %v", err)
	}
	if _, err := db.Query("SELECT f AS a, k AS a FROM t"); err == nil {
		t.Errorf("two different expressions with one alias must fail")
	}
}

func TestScanInfo(t *testing.T) {
	db := NewDB()
	db.CreateTable("t", []Column{{"k", "String"}, {"v", "Int64"}})
	db.Alias("t_dist", "t")
	mustInsert(t, db, "t", []any{"a", 1}, []any{"b", 2}, []any{"c", 3})
	res, scans, err := db.QueryWithScans("WITH s AS (SELECT k FROM t_dist PREWHERE v > 1 WHERE k != 'c') SELECT count() FROM t WHERE k IN (s)")
	if err != nil {
		t.Fatal(err)
	}
	if res.Rows[0][0] != uint64(1) || len(scans) != 2 {
		t.Fatalf("rows %v scans %+v", res.Rows, scans)
	}
	byAdmitted := map[int]ScanInfo{}
	for _, s := range scans {
		if s.Table != "t" || s.Offered != 3 {
			t.Errorf("scan %+v", s)
		}
		byAdmitted[s.Admitted] = s
	}
	if s, ok := byAdmitted[1]; !ok || len(s.AdmittedRows) != 1 || s.AdmittedRows[0][0] != "b" {
		t.Errorf("scans %+v", scans)
	}
	// structural access: base table references and their predicates
	st, err := Parse("WITH s AS (SELECT k FROM t_dist PREWHERE v > 1 WHERE k != 'c') SELECT count() FROM t AS x ANY LEFT JOIN u ON x.k = u.k WHERE k IN (s)")
	if err != nil {
		t.Fatal(err)
	}
	ctes := CTENames(st)
	var names []string
	for _, r := range TableRefs(st) {
		if ctes[r.Table.Table] {
			continue
		}
		names = append(names, r.Table.Table)
		if r.Table.Table == "t_dist" && (r.Prewhere == nil || r.Where == nil || r.CTE != "s") {
			t.Errorf("t_dist ref: %+v", r)
		}
		if r.Table.Table == "u" && !r.IsJoin {
			t.Errorf("u ref: %+v", r)
		}
	}
	if !reflect.DeepEqual(names, []string{"t", "u", "t_dist"}) {
		t.Errorf("table refs: %v", names)
	}
}

package chsql

import (
	"math"
	"math/big"
	"strconv"
	"strings"
	"time"
)

// ---------------------------------------------------------------------------
// helpers for typed empty arrays
//
// An empty []any normally carries no element type. Arrays produced by the
// engine keep a representative element hidden in the slice capacity, so that
// arr[outOfRange], arrayFirst over no match, map['missing'] ... can return the
// default value of the right type, as ClickHouse does.
// ---------------------------------------------------------------------------

func emptyArrayOf(sample any) []any {
	if sample == nil {
		return []any{}
	}
	s := []any{sample}
	return s[:0]
}

// elemHint returns a representative element of the array (nil if unknown).
func elemHint(a []any) any {
	if len(a) > 0 {
		return a[0]
	}
	if cap(a) > 0 {
		return a[:1][0]
	}
	return nil
}

// ---------------------------------------------------------------------------
// comparison
// ---------------------------------------------------------------------------

func isComparison(name string) bool {
	switch name {
	case "equals", "notEquals", "less", "greater", "lessOrEquals", "greaterOrEquals":
		return true
	}
	return false
}

// stringLiteralArg reports whether the argument is a constant string in the
// query text (ClickHouse then parses it as the type of the other side).
func stringLiteralArg(x Expr) bool {
	l, ok := x.(*Literal)
	if !ok {
		return false
	}
	_, isStr := l.Val.(string)
	return isStr
}

// coerceConstString converts a constant string to the type of the other
// operand of a comparison (Date, DateTime, numbers), like ClickHouse's
// FunctionComparison::executeWithConstString.
func coerceConstString(s string, other any) (any, error) {
	switch other.(type) {
	case Date:
		if d, err := parseDate(s); err == nil {
			return d, nil
		}
		// a datetime string compared with a Date: ClickHouse parses the string as
		// the column type and fails otherwise
		return nil, badArgf("cannot parse %q as Date", s)
	case DateTime:
		return parseDateTime(s)
	case string, FixedString:
		return s, nil
	}
	if k, ok := kindOf(other); ok {
		if k.isFloat {
			f, rest, ok := chParseFloat(s)
			if !ok || rest != len(s) {
				return nil, badArgf("cannot parse %q as Float64", s)
			}
			return f, nil
		}
		v, err := parseIntStrict(s, intTypeName(k.signed, k.size))
		if err != nil {
			return nil, err
		}
		return v, nil
	}
	return s, nil
}

func compareOp(name string, a, b any) (any, error) {
	// NaN never compares equal / less / greater
	if fa, ok := a.(float64); ok && fa != fa {
		return boolVal(name == "notEquals"), nil
	}
	if fb, ok := b.(float64); ok && fb != fb {
		return boolVal(name == "notEquals"), nil
	}
	if ta, ok := a.(Tuple); ok {
		if tb, ok := b.(Tuple); ok {
			return compareTuples(name, ta, tb)
		}
	}
	c, err := compareValues(a, b)
	if err != nil {
		return nil, err
	}
	switch name {
	case "equals":
		return boolVal(c == 0), nil
	case "notEquals":
		return boolVal(c != 0), nil
	case "less":
		return boolVal(c < 0), nil
	case "greater":
		return boolVal(c > 0), nil
	case "lessOrEquals":
		return boolVal(c <= 0), nil
	}
	return boolVal(c >= 0), nil
}

// compareTuples: element-wise with NULL propagation for (not)equals; lexicographic otherwise.
func compareTuples(name string, a, b Tuple) (any, error) {
	if len(a) != len(b) {
		return nil, typeErrf("cannot compare tuples of different sizes (%d and %d)", len(a), len(b))
	}
	for i := range a {
		if a[i] == nil || b[i] == nil {
			return nil, nil
		}
	}
	c, err := compareValues(a, b)
	if err != nil {
		return nil, err
	}
	switch name {
	case "equals":
		return boolVal(c == 0), nil
	case "notEquals":
		return boolVal(c != 0), nil
	case "less":
		return boolVal(c < 0), nil
	case "greater":
		return boolVal(c > 0), nil
	case "lessOrEquals":
		return boolVal(c <= 0), nil
	}
	return boolVal(c >= 0), nil
}

func boolVal(b bool) any {
	if b {
		return uint8(1)
	}
	return uint8(0)
}

func (e *env) evalComparison(f *FuncCall, name string) (any, error) {
	if len(f.Args) != 2 {
		return nil, badArgf("%s takes 2 arguments", f.Name)
	}
	a, err := e.eval(f.Args[0])
	if err != nil {
		return nil, err
	}
	b, err := e.eval(f.Args[1])
	if err != nil {
		return nil, err
	}
	if a == nil || b == nil {
		return nil, nil
	}
	if sa, ok := a.(string); ok && stringLiteralArg(f.Args[0]) {
		if _, bIsStr := asString(b); !bIsStr {
			if a, err = coerceConstString(sa, b); err != nil {
				return nil, err
			}
		}
	} else if sb, ok := b.(string); ok && stringLiteralArg(f.Args[1]) {
		if _, aIsStr := asString(a); !aIsStr {
			if b, err = coerceConstString(sb, a); err != nil {
				return nil, err
			}
		}
	}
	return compareOp(name, a, b)
}

// ---------------------------------------------------------------------------
// arithmetic
// ---------------------------------------------------------------------------

func nextSize(s int) int {
	if s >= 8 {
		return 8
	}
	return s * 2
}

func maxInt(a, b int) int {
	if a > b {
		return a
	}
	return b
}

// signExtend interprets the low `size` bytes of bits as a signed number.
func signExtend(bits uint64, size int) int64 {
	shift := uint(64 - size*8)
	return int64(bits<<shift) >> shift
}

// truncBits keeps the low `size` bytes.
func truncBits(bits uint64, size int) uint64 {
	if size >= 8 {
		return bits
	}
	return bits & (1<<(uint(size)*8) - 1)
}

func arithmetic(name string, a, b any) (any, error) {
	// dates and intervals
	if r, ok, err := dateArithmetic(name, a, b); ok || err != nil {
		return r, err
	}
	ka, oka := kindOf(a)
	kb, okb := kindOf(b)
	if !oka || !okb {
		return nil, typeErrf("illegal types %s and %s of arguments of function %s", typeNameOf(a), typeNameOf(b), name)
	}
	if name == "divide" {
		fa, _ := toFloat(a)
		fb, _ := toFloat(b)
		return fa / fb, nil
	}
	if ka.isFloat || kb.isFloat {
		fa, _ := toFloat(a)
		fb, _ := toFloat(b)
		switch name {
		case "plus":
			return fa + fb, nil
		case "minus":
			return fa - fb, nil
		case "multiply":
			return fa * fb, nil
		case "modulo":
			// ClickHouse converts both to integers for `%`? No: for floats the
			// result type is Float64 and fmod semantics are used.
			return math.Mod(fa, fb), nil
		case "intDiv", "intDivOrZero":
			return nil, unsupportedf("%s with floating point arguments", name)
		}
		return nil, unsupportedf("arithmetic function %s", name)
	}
	ba, _ := toBits(a)
	bb, _ := toBits(b)
	switch name {
	case "plus", "multiply":
		size := nextSize(maxInt(ka.size, kb.size))
		signed := ka.signed || kb.signed
		if name == "plus" {
			return makeInt(signed, size, ba+bb), nil
		}
		return makeInt(signed, size, ba*bb), nil
	case "minus":
		return makeInt(true, nextSize(maxInt(ka.size, kb.size)), ba-bb), nil
	case "intDiv", "intDivOrZero":
		return intDiv(name, ka, kb, ba, bb)
	case "modulo", "moduloOrZero":
		return modulo(name, ka, kb, ba, bb)
	}
	return nil, unsupportedf("arithmetic function %s", name)
}

// intDiv follows DivideIntegralImpl: with a signed operand both are cast to
// signed types (the dividend keeps its width), division truncates toward zero.
func intDiv(name string, ka, kb numKind, ba, bb uint64) (any, error) {
	orZero := name == "intDivOrZero"
	resSigned := ka.signed || kb.signed
	resSize := ka.size
	if !resSigned {
		if bb == 0 {
			if orZero {
				return makeInt(false, resSize, 0), nil
			}
			return nil, badArgf("Division by zero")
		}
		return makeInt(false, resSize, ba/bb), nil
	}
	// SignedCastA = make_signed<A>; SignedCastB = sizeof(A) <= sizeof(B) ? make_signed<B> : SignedCastA
	sa := signExtend(ba, ka.size)
	var sb int64
	if ka.size <= kb.size {
		sb = signExtend(bb, kb.size)
	} else {
		sb = signExtend(truncBits(bb, ka.size), ka.size)
	}
	if sb == 0 {
		if orZero {
			return makeInt(true, resSize, 0), nil
		}
		return nil, badArgf("Division by zero")
	}
	if sb == -1 && sa == math.MinInt64 {
		if orZero {
			return makeInt(true, resSize, 0), nil
		}
		return nil, badArgf("Division of minimal signed number by minus one")
	}
	return makeInt(true, resSize, uint64(sa/sb)), nil
}

// modulo follows ModuloImpl: C++ `%` after the usual arithmetic conversions;
// result type: sign of the dividend, size of the divisor (one step larger when signed).
func modulo(name string, ka, kb numKind, ba, bb uint64) (any, error) {
	resSigned := ka.signed
	resSize := kb.size
	if resSigned {
		resSize = nextSize(kb.size)
	}
	// usual arithmetic conversions
	sizeA, sizeB := maxInt(ka.size, 4), maxInt(kb.size, 4)
	signedA, signedB := ka.signed || ka.size < 4, kb.signed || kb.size < 4 // small types promote to int
	var opSigned bool
	opSize := maxInt(sizeA, sizeB)
	switch {
	case signedA == signedB:
		opSigned = signedA
	case !signedA && sizeA >= sizeB:
		opSigned = false
	case !signedB && sizeB >= sizeA:
		opSigned = false
	default:
		opSigned = true
	}
	zero := func() (any, error) {
		if name == "moduloOrZero" {
			return makeInt(resSigned, resSize, 0), nil
		}
		return nil, badArgf("Division by zero")
	}
	if opSigned {
		x, y := signExtend(ba, 8), signExtend(bb, 8) // ba / bb are already sign extended to 64 bits
		if opSize == 4 {
			x, y = int64(int32(x)), int64(int32(y))
		}
		if y == 0 {
			return zero()
		}
		if y == -1 {
			return makeInt(resSigned, resSize, 0), nil
		}
		return makeInt(resSigned, resSize, uint64(x%y)), nil
	}
	x, y := truncBits(ba, opSize), truncBits(bb, opSize)
	if y == 0 {
		return zero()
	}
	return makeInt(resSigned, resSize, x%y), nil
}

func bitOp(name string, a, b any) (any, error) {
	ka, oka := kindOf(a)
	kb, okb := kindOf(b)
	if !oka || !okb || !ka.isInt || !kb.isInt {
		return nil, typeErrf("illegal types %s and %s of arguments of function %s", typeNameOf(a), typeNameOf(b), name)
	}
	ba, _ := toBits(a)
	bb, _ := toBits(b)
	signed := ka.signed || kb.signed
	size := maxInt(ka.size, kb.size)
	switch name {
	case "bitAnd":
		return makeInt(signed, size, ba&bb), nil
	case "bitOr":
		return makeInt(signed, size, ba|bb), nil
	case "bitXor":
		return makeInt(signed, size, ba^bb), nil
	case "bitShiftLeft", "bitShiftRight":
		if kb.signed && signExtend(bb, 8) < 0 {
			return nil, badArgf("the number of shift positions needs to be a non-negative value")
		}
		if bb >= uint64(size*8) {
			// shifting by the type width or more yields 0 (ClickHouse >= 23.x; earlier: undefined)
			if name == "bitShiftRight" && signed && signExtend(truncBits(ba, size), size) < 0 {
				return makeInt(signed, size, ^uint64(0)), nil
			}
			return makeInt(signed, size, 0), nil
		}
		if name == "bitShiftLeft" {
			return makeInt(signed, size, ba<<bb), nil
		}
		if signed {
			return makeInt(signed, size, uint64(signExtend(truncBits(ba, size), size)>>bb)), nil
		}
		return makeInt(signed, size, truncBits(ba, size)>>bb), nil
	}
	return nil, unsupportedf("bit function %s", name)
}

func dateArithmetic(name string, a, b any) (any, bool, error) {
	iv, isIv := b.(Interval)
	if aiv, ok := a.(Interval); ok && name == "plus" {
		if _, bIsIv := b.(Interval); !bIsIv {
			a, b, iv, isIv = b, aiv, aiv, true
		}
	}
	switch x := a.(type) {
	case Date:
		if isIv {
			if name != "plus" && name != "minus" {
				return nil, true, typeErrf("illegal operation %s on Date and Interval", name)
			}
			n := iv.N
			if name == "minus" {
				n = -n
			}
			t := time.Unix(int64(x)*86400, 0).UTC()
			switch iv.Unit {
			case "DAY":
				t = t.AddDate(0, 0, int(n))
			case "WEEK":
				t = t.AddDate(0, 0, int(7*n))
			case "MONTH", "QUARTER", "YEAR":
				return nil, true, unsupportedf("Date +/- INTERVAL %s", iv.Unit)
			case "HOUR", "MINUTE", "SECOND":
				mul := map[string]int64{"HOUR": 3600, "MINUTE": 60, "SECOND": 1}[iv.Unit]
				s := int64(x)*86400 + n*mul
				if s < 0 || s > math.MaxUint32 {
					return nil, true, badArgf("DateTime out of range")
				}
				return DateTime(s), true, nil
			default:
				return nil, true, unsupportedf("Date +/- INTERVAL %s", iv.Unit)
			}
			d := t.Unix() / 86400
			if d < 0 || d > math.MaxUint16 {
				return nil, true, badArgf("Date out of range")
			}
			return Date(d), true, nil
		}
		if y, ok := b.(Date); ok && name == "minus" {
			return int32(int64(x) - int64(y)), true, nil
		}
		if k, ok := kindOf(b); ok && k.isInt && (name == "plus" || name == "minus") {
			n := signExtendAny(b)
			if name == "minus" {
				n = -n
			}
			return Date(uint16(int64(x) + n)), true, nil
		}
	case DateTime:
		if isIv {
			if name != "plus" && name != "minus" {
				return nil, true, typeErrf("illegal operation %s on DateTime and Interval", name)
			}
			mul, ok := map[string]int64{"WEEK": 7 * 86400, "DAY": 86400, "HOUR": 3600, "MINUTE": 60, "SECOND": 1}[iv.Unit]
			if !ok {
				return nil, true, unsupportedf("DateTime +/- INTERVAL %s", iv.Unit)
			}
			n := iv.N * mul
			if name == "minus" {
				n = -n
			}
			return DateTime(uint32(int64(x) + n)), true, nil
		}
		if y, ok := b.(DateTime); ok && name == "minus" {
			return int32(int64(x) - int64(y)), true, nil
		}
		if k, ok := kindOf(b); ok && k.isInt && (name == "plus" || name == "minus") {
			n := signExtendAny(b)
			if name == "minus" {
				n = -n
			}
			return DateTime(uint32(int64(x) + n)), true, nil
		}
	}
	if _, ok := a.(Interval); ok {
		return nil, true, unsupportedf("arithmetic on intervals")
	}
	if isIv {
		return nil, true, typeErrf("illegal types %s and Interval of arguments of function %s", typeNameOf(a), name)
	}
	switch b.(type) {
	case Date, DateTime:
		if k, ok := kindOf(a); ok && k.isInt && name == "plus" {
			r, _, err := dateArithmetic(name, b, a)
			return r, true, err
		}
		return nil, true, typeErrf("illegal types %s and %s of arguments of function %s", typeNameOf(a), typeNameOf(b), name)
	}
	switch a.(type) {
	case Date, DateTime:
		return nil, true, typeErrf("illegal types %s and %s of arguments of function %s", typeNameOf(a), typeNameOf(b), name)
	}
	return nil, false, nil
}

func signExtendAny(v any) int64 {
	i, u, neg, _ := intParts(v)
	if neg {
		return i
	}
	return int64(u)
}

// ---------------------------------------------------------------------------
// number parsing as ClickHouse does it
// ---------------------------------------------------------------------------

var (
	pow10Ext   = map[int]*big.Float{}
	pow10Float = map[int]float64{}
)

// pow10LongDouble returns 10^e rounded to an x87 long double (64-bit mantissa),
// like the powers10[] table of ClickHouse's shift10.cpp.
func pow10LongDouble(e int) *big.Float {
	if f, ok := pow10Ext[e]; ok {
		return f
	}
	f, _, _ := big.ParseFloat("1e"+strconv.Itoa(e), 10, 64, big.ToNearestEven)
	pow10Ext[e] = f
	return f
}

func shift10UInt(x uint64, exponent int) float64 {
	if exponent < -323 {
		return 0
	}
	if exponent > 308 {
		if x == 0 {
			return math.NaN()
		}
		return math.Inf(1)
	}
	v := new(big.Float).SetPrec(64).SetMode(big.ToNearestEven).SetUint64(x)
	v.Mul(v, pow10LongDouble(exponent))
	f, _ := v.Float64()
	return f
}

func shift10Double(x float64, exponent int) float64 {
	if exponent < -323 {
		return x * 0
	}
	if exponent > 308 {
		return x * math.Inf(1)
	}
	p, ok := pow10Float[exponent]
	if !ok {
		p, _ = pow10LongDouble(exponent).Float64()
		pow10Float[exponent] = p
	}
	return x * p
}

// chParseFloat is a port of ClickHouse's readFloatTextFastImpl (the default,
// "imprecise but fast" float parser used by toFloat64(String) and friends).
// It returns the value, the number of bytes consumed and whether a number was read.
func chParseFloat(s string) (float64, int, bool) {
	i, n := 0, len(s)
	if n == 0 {
		return 0, 0, false
	}
	negative := false
	if s[i] == '-' {
		negative = true
		i++
	} else if s[i] == '+' {
		i++
	}
	afterSign := i
	const sig = 19
	readUInt := func(maxDigits int) (uint64, int) {
		var v uint64
		cnt := 0
		for i < n && isDigit(s[i]) {
			if cnt < maxDigits {
				v = v*10 + uint64(s[i]-'0')
			}
			cnt++
			i++
		}
		return v, cnt
	}
	before, readDigits := readUInt(sig)
	var x float64
	if readDigits > sig {
		x = shift10UInt(before, readDigits-sig)
	} else {
		x = float64(before)
		if readDigits > 0 && (i >= n || s[i] < '.') {
			if negative {
				x = -x
			}
			return x, i, true
		}
	}
	var afterPoint uint64
	afterExp := 0
	if i < n && s[i] == '.' {
		i++
		zerosStart := i
		for i < n && s[i] == '0' {
			i++
		}
		leadingZeros := i - zerosStart
		var cnt int
		afterPoint, cnt = readUInt(sig)
		if cnt > sig {
			afterExp = -sig - leadingZeros
		} else {
			afterExp = -cnt - leadingZeros
		}
	}
	exponent := 0
	if i < n && (s[i] == 'e' || s[i] == 'E') {
		i++
		if i >= n {
			return 0, i, false
		}
		expNeg := false
		if s[i] == '-' {
			expNeg = true
			i++
		} else if s[i] == '+' {
			i++
		}
		ev, _ := readUInt(4)
		exponent = int(ev)
		if expNeg {
			exponent = -exponent
		}
	}
	if afterPoint != 0 {
		x += shift10UInt(afterPoint, afterExp)
	}
	if exponent != 0 {
		x = shift10Double(x, exponent)
	}
	if negative {
		x = -x
	}
	if i == afterSign {
		// nothing numeric was read: inf / nan
		if i >= n {
			return 0, i, false
		}
		if s[i] == '+' {
			i++
			if i >= n || negative {
				return 0, i, false
			}
		}
		rest := strings.ToLower(s[i:])
		switch {
		case strings.HasPrefix(rest, "infinity"):
			i += 8
			x = math.Inf(1)
		case strings.HasPrefix(rest, "inf"):
			i += 3
			x = math.Inf(1)
		case strings.HasPrefix(rest, "nan"):
			i += 3
			x = math.NaN()
		default:
			return 0, i, false
		}
		if negative {
			x = -x
		}
		return x, i, true
	}
	return x, i, true
}

// parseIntStrict parses a whole string as the named integer type (ClickHouse
// toUInt64(String) etc.: optional sign, digits only, range checked).
func parseIntStrict(s string, typeName string) (any, error) {
	bad := func() (any, error) { return nil, badArgf("cannot parse string %q as %s", s, typeName) }
	if s == "" {
		return bad()
	}
	neg := false
	d := s
	if d[0] == '-' {
		neg = true
		d = d[1:]
	} else if d[0] == '+' {
		d = d[1:]
	}
	if !isAllDigits(d) {
		return bad()
	}
	u, err := strconv.ParseUint(d, 10, 64)
	if err != nil {
		return bad()
	}
	if neg {
		if strings.HasPrefix(typeName, "U") && u != 0 {
			return bad()
		}
		if u > 1<<63 {
			return bad()
		}
		v, err := convertInt(typeName, -int64(u), uint64(-int64(u)), u != 0, true)
		if err != nil {
			return bad()
		}
		return v, nil
	}
	v, err := convertInt(typeName, int64(u), u, false, true)
	if err != nil {
		return bad()
	}
	return v, nil
}

// ---------------------------------------------------------------------------
// conversions / CAST
// ---------------------------------------------------------------------------

func castValue(v any, t *Type) (any, error) {
	if v == nil {
		if t.Name == "Nullable" {
			return nil, nil
		}
		// CAST(NULL AS T): ClickHouse keeps NULL when cast_keep_nullable... by
		// default it is an error for non-Nullable targets.
		return nil, badArgf("cannot convert NULL to a non-nullable type %s", t)
	}
	switch t.Name {
	case "Nullable", "LowCardinality":
		return castValue(v, t.Args[0])
	case "UInt8", "UInt16", "UInt32", "UInt64", "Int8", "Int16", "Int32", "Int64", "Bool":
		return toIntType(v, t.Name)
	case "Float32", "Float64":
		return toFloat64Value(v)
	case "String":
		return toStringValue(v)
	case "FixedString":
		s, ok := asString(v)
		if !ok {
			return nil, typeErrf("cannot cast %s to %s", typeNameOf(v), t)
		}
		n, _ := strconv.Atoi(t.Lit)
		if len(s) > n {
			return nil, badArgf("string too long for %s", t)
		}
		return FixedString(s + strings.Repeat("\x00", n-len(s))), nil
	case "Date":
		return toDateValue(v)
	case "DateTime":
		return toDateTimeValue(v)
	case "Array":
		arr, ok := v.([]any)
		if !ok {
			return nil, typeErrf("cannot cast %s to %s", typeNameOf(v), t)
		}
		out := emptyArrayOf(sampleValue(t.Args[0]))
		for _, el := range arr {
			c, err := castValue(el, t.Args[0])
			if err != nil {
				return nil, err
			}
			out = append(out, c)
		}
		return out, nil
	case "Tuple":
		tp, ok := v.(Tuple)
		if !ok || len(tp) != len(t.Args) {
			return nil, typeErrf("cannot cast %s to %s", typeNameOf(v), t)
		}
		out := make(Tuple, len(tp))
		for i, el := range tp {
			c, err := castValue(el, t.Args[i])
			if err != nil {
				return nil, err
			}
			out[i] = c
		}
		return out, nil
	}
	return nil, unsupportedf("CAST to %s", t)
}

func toIntType(v any, typeName string) (any, error) {
	if typeName == "Bool" {
		typeName = "UInt8"
	}
	switch x := v.(type) {
	case float64:
		if math.IsNaN(x) || math.IsInf(x, 0) {
			return nil, unsupportedf("conversion of %v to %s (undefined behaviour in ClickHouse)", x, typeName)
		}
		t := math.Trunc(x)
		if t < -9.3e18 || t > 1.85e19 {
			return nil, unsupportedf("conversion of out-of-range float %v to %s", x, typeName)
		}
		if t < 0 {
			i := int64(t)
			return convertInt(typeName, i, uint64(i), true, false)
		}
		u := uint64(t)
		return convertInt(typeName, int64(u), u, false, false)
	case string:
		return parseIntStrict(x, typeName)
	case FixedString:
		return parseIntStrict(trimZeros(string(x)), typeName)
	case Date:
		return convertInt(typeName, int64(x), uint64(x), false, false)
	case DateTime:
		return convertInt(typeName, int64(x), uint64(x), false, false)
	}
	if i, u, neg, ok := intParts(v); ok {
		return convertInt(typeName, i, u, neg, false)
	}
	return nil, typeErrf("illegal type %s of argument for conversion to %s", typeNameOf(v), typeName)
}

func toFloat64Value(v any) (any, error) {
	switch x := v.(type) {
	case string:
		f, rest, ok := chParseFloat(x)
		if !ok || rest != len(x) {
			return nil, badArgf("cannot parse string %q as Float64", x)
		}
		return f, nil
	case Date:
		return float64(x), nil
	case DateTime:
		return float64(x), nil
	}
	if f, ok := toFloat(v); ok {
		return f, nil
	}
	return nil, typeErrf("illegal type %s of argument for conversion to Float64", typeNameOf(v))
}

func toDateValue(v any) (any, error) {
	switch x := v.(type) {
	case Date:
		return x, nil
	case DateTime:
		return Date(uint64(x) / 86400), nil
	case string:
		if len(x) >= 10 {
			if d, err := parseDate(x[:10]); err == nil {
				if len(x) == 10 {
					return d, nil
				}
				if _, err := parseDateTime(x); err == nil {
					return d, nil
				}
			}
		}
		return nil, badArgf("cannot parse %q as Date", x)
	}
	if _, u, neg, ok := intParts(v); ok && !neg {
		// numbers up to 65535 are day numbers, larger ones unix timestamps
		if u <= math.MaxUint16 {
			return Date(u), nil
		}
		if u <= math.MaxUint32 {
			return Date(u / 86400), nil
		}
	}
	return nil, unsupportedf("toDate(%s)", typeNameOf(v))
}

func toDateTimeValue(v any) (any, error) {
	switch x := v.(type) {
	case DateTime:
		return x, nil
	case Date:
		return DateTime(uint32(x) * 86400), nil
	case string:
		return parseDateTime(x)
	}
	if _, u, neg, ok := intParts(v); ok && !neg && u <= math.MaxUint32 {
		return DateTime(u), nil
	}
	return nil, unsupportedf("toDateTime(%s)", typeNameOf(v))
}

func init() {
	for _, n := range []string{"plus", "minus", "multiply", "divide", "modulo", "intDiv", "intDivOrZero", "moduloOrZero"} {
		name := n
		reg(name, 2, 2, func(_ *env, a []any) (any, error) { return arithmetic(name, a[0], a[1]) })
	}
	for _, n := range []string{"bitAnd", "bitOr", "bitXor", "bitShiftLeft", "bitShiftRight"} {
		name := n
		reg(name, 2, 2, func(_ *env, a []any) (any, error) { return bitOp(name, a[0], a[1]) })
	}
	reg("bitNot", 1, 1, func(_ *env, a []any) (any, error) {
		k, ok := kindOf(a[0])
		if !ok || !k.isInt {
			return nil, typeErrf("illegal type %s of argument of bitNot", typeNameOf(a[0]))
		}
		b, _ := toBits(a[0])
		return makeInt(k.signed, k.size, ^b), nil
	})
	reg("negate", 1, 1, func(_ *env, a []any) (any, error) {
		k, ok := kindOf(a[0])
		if !ok {
			return nil, typeErrf("illegal type %s of argument of negate", typeNameOf(a[0]))
		}
		if k.isFloat {
			return -a[0].(float64), nil
		}
		b, _ := toBits(a[0])
		return makeInt(true, nextSize(k.size), -b), nil
	})
	reg("abs", 1, 1, func(_ *env, a []any) (any, error) {
		k, ok := kindOf(a[0])
		if !ok {
			return nil, typeErrf("illegal type %s of argument of abs", typeNameOf(a[0]))
		}
		if k.isFloat {
			return math.Abs(a[0].(float64)), nil
		}
		if !k.signed {
			return a[0], nil
		}
		i := signExtendAny(a[0])
		if i < 0 {
			i = -i
		}
		return makeInt(false, k.size, uint64(i)), nil
	})
	reg("not", 1, 1, func(_ *env, a []any) (any, error) {
		if _, ok := kindOf(a[0]); !ok {
			return nil, typeErrf("illegal type %s of argument of function not", typeNameOf(a[0]))
		}
		t, _ := truthy(a[0])
		return boolVal(!t), nil
	})
	regNull("isNull", 1, 1, func(_ *env, a []any) (any, error) { return boolVal(a[0] == nil), nil })
	regNull("isNotNull", 1, 1, func(_ *env, a []any) (any, error) { return boolVal(a[0] != nil), nil })
	regNull("assumeNotNull", 1, 1, func(_ *env, a []any) (any, error) {
		if a[0] == nil {
			return nil, unsupportedf("assumeNotNull(NULL) (implementation specific result)")
		}
		return a[0], nil
	})
	regNull("toNullable", 1, 1, func(_ *env, a []any) (any, error) { return a[0], nil })
	regNull("nullIf", 2, 2, func(_ *env, a []any) (any, error) {
		if a[0] == nil || a[1] == nil {
			return a[0], nil
		}
		c, err := compareValues(a[0], a[1])
		if err != nil {
			return nil, err
		}
		if c == 0 {
			return nil, nil
		}
		return a[0], nil
	})
	regNull("toTypeName", 1, 1, func(_ *env, a []any) (any, error) { return typeNameOf(a[0]), nil })
	reg("isNaN", 1, 1, func(_ *env, a []any) (any, error) {
		f, ok := a[0].(float64)
		if !ok {
			if _, isNum := kindOf(a[0]); isNum {
				return uint8(0), nil
			}
			return nil, typeErrf("illegal type %s of argument of isNaN", typeNameOf(a[0]))
		}
		return boolVal(math.IsNaN(f)), nil
	})
	reg("isFinite", 1, 1, func(_ *env, a []any) (any, error) {
		f, ok := toFloat(a[0])
		if !ok {
			return nil, typeErrf("illegal type %s of argument of isFinite", typeNameOf(a[0]))
		}
		return boolVal(!math.IsNaN(f) && !math.IsInf(f, 0)), nil
	})
	reg("isInfinite", 1, 1, func(_ *env, a []any) (any, error) {
		f, ok := toFloat(a[0])
		if !ok {
			return nil, typeErrf("illegal type %s of argument of isInfinite", typeNameOf(a[0]))
		}
		return boolVal(math.IsInf(f, 0)), nil
	})

	// ---- conversions ----
	for _, n := range []string{"UInt8", "UInt16", "UInt32", "UInt64", "Int8", "Int16", "Int32", "Int64"} {
		tn := n
		reg("to"+tn, 1, 1, func(_ *env, a []any) (any, error) { return toIntType(a[0], tn) })
		orX := func(orNull bool) func(_ *env, a []any) (any, error) {
			return func(_ *env, a []any) (any, error) {
				s, ok := asString(a[0])
				if !ok {
					return nil, typeErrf("illegal type %s of argument of to%sOr*: only String is allowed", typeNameOf(a[0]), tn)
				}
				v, err := parseIntStrict(s, tn)
				if err != nil {
					if orNull {
						return nil, nil
					}
					return makeInt(tn[0] == 'I', mustAtoi(strings.TrimLeft(tn, "UInt"))/8, 0), nil
				}
				return v, nil
			}
		}
		reg("to"+tn+"OrNull", 1, 1, orX(true))
		reg("to"+tn+"OrZero", 1, 1, orX(false))
	}
	reg("toFloat64", 1, 1, func(_ *env, a []any) (any, error) { return toFloat64Value(a[0]) })
	reg("toFloat32", 1, 1, func(_ *env, a []any) (any, error) {
		v, err := toFloat64Value(a[0])
		if err != nil {
			return nil, err
		}
		return float64(float32(v.(float64))), nil
	})
	floatOr := func(orNull bool) func(_ *env, a []any) (any, error) {
		return func(_ *env, a []any) (any, error) {
			s, ok := asString(a[0])
			if !ok {
				return nil, typeErrf("illegal type %s of argument of toFloat64Or*: only String is allowed", typeNameOf(a[0]))
			}
			f, rest, ok := chParseFloat(s)
			if !ok || rest != len(s) {
				if orNull {
					return nil, nil
				}
				return float64(0), nil
			}
			return f, nil
		}
	}
	reg("toFloat64OrNull", 1, 1, floatOr(true))
	reg("toFloat64OrZero", 1, 1, floatOr(false))
	reg("toString", 1, 1, func(_ *env, a []any) (any, error) {
		if fs, ok := a[0].(FixedString); ok {
			return string(fs), nil
		}
		return toStringValue(a[0])
	})
	reg("toFixedString", 2, 2, func(_ *env, a []any) (any, error) {
		s, ok := asString(a[0])
		_, n, neg, isInt := intParts(a[1])
		if !ok || !isInt || neg {
			return nil, typeErrf("illegal arguments of toFixedString")
		}
		if uint64(len(s)) > n {
			return nil, badArgf("string too long for FixedString(%d)", n)
		}
		return FixedString(s + strings.Repeat("\x00", int(n)-len(s))), nil
	})
	reg("toDate", 1, 1, func(_ *env, a []any) (any, error) { return toDateValue(a[0]) })
	reg("toDateTime", 1, 1, func(_ *env, a []any) (any, error) { return toDateTimeValue(a[0]) })
	reg("toUnixTimestamp", 1, 1, func(_ *env, a []any) (any, error) {
		v, err := toDateTimeValue(a[0])
		if err != nil {
			return nil, err
		}
		return uint32(v.(DateTime)), nil
	})
	reg("fromUnixTimestamp", 1, 1, func(_ *env, a []any) (any, error) {
		if _, ok := kindOf(a[0]); !ok {
			return nil, typeErrf("illegal type %s of argument of fromUnixTimestamp", typeNameOf(a[0]))
		}
		return toDateTimeValue(a[0])
	})
	regNull("now", 0, 0, func(e *env, _ []any) (any, error) { return DateTime(e.b.q.db.Now().Unix()), nil })
	regNull("today", 0, 0, func(e *env, _ []any) (any, error) { return Date(e.b.q.db.Now().Unix() / 86400), nil })
	regNull("yesterday", 0, 0, func(e *env, _ []any) (any, error) { return Date(e.b.q.db.Now().Unix()/86400 - 1), nil })
	startOf := func(name string, secs uint32) {
		reg(name, 1, 1, func(_ *env, a []any) (any, error) {
			v, err := toDateTimeValue(a[0])
			if err != nil {
				return nil, err
			}
			d := uint32(v.(DateTime))
			return DateTime(d - d%secs), nil
		})
	}
	// time zone: UTC (the server time zone is assumed to be UTC)
	startOf("toStartOfMinute", 60)
	startOf("toStartOfFiveMinutes", 300)
	startOf("toStartOfTenMinutes", 600)
	startOf("toStartOfFifteenMinutes", 900)
	startOf("toStartOfHour", 3600)
	reg("toStartOfDay", 1, 1, func(_ *env, a []any) (any, error) {
		v, err := toDateTimeValue(a[0])
		if err != nil {
			return nil, err
		}
		d := uint32(v.(DateTime))
		return DateTime(d - d%86400), nil
	})
	reg("toStartOfInterval", 2, 2, func(_ *env, a []any) (any, error) {
		iv, ok := a[1].(Interval)
		if !ok {
			return nil, typeErrf("second argument of toStartOfInterval must be an interval")
		}
		mul, ok := map[string]int64{"DAY": 86400, "HOUR": 3600, "MINUTE": 60, "SECOND": 1}[iv.Unit]
		if !ok || iv.N <= 0 {
			return nil, unsupportedf("toStartOfInterval with INTERVAL %d %s", iv.N, iv.Unit)
		}
		if _, isDate := a[0].(Date); isDate && iv.Unit != "DAY" {
			return nil, typeErrf("illegal interval unit for a Date argument")
		}
		v, err := toDateTimeValue(a[0])
		if err != nil {
			return nil, err
		}
		step := uint32(mul * iv.N)
		d := uint32(v.(DateTime))
		if _, isDate := a[0].(Date); isDate {
			return Date((d - d%step) / 86400), nil
		}
		return DateTime(d - d%step), nil
	})

	// ---- math ----
	math1 := func(name string, f func(float64) float64) {
		reg(name, 1, 1, func(_ *env, a []any) (any, error) {
			x, ok := toFloat(a[0])
			if !ok {
				return nil, typeErrf("illegal type %s of argument of %s", typeNameOf(a[0]), name)
			}
			return f(x), nil
		})
	}
	math1("sqrt", math.Sqrt)
	math1("exp", math.Exp)
	math1("log", math.Log)
	math1("ln", math.Log)
	math1("log2", math.Log2)
	math1("log10", math.Log10)
	for _, n := range []string{"pow", "power"} {
		name := n
		reg(name, 2, 2, func(_ *env, a []any) (any, error) {
			x, ok1 := toFloat(a[0])
			y, ok2 := toFloat(a[1])
			if !ok1 || !ok2 {
				return nil, typeErrf("illegal types of arguments of %s", name)
			}
			return math.Pow(x, y), nil
		})
	}
	rounder := func(name string, f func(float64) float64) {
		reg(name, 1, 2, func(_ *env, a []any) (any, error) {
			k, ok := kindOf(a[0])
			if !ok {
				return nil, typeErrf("illegal type %s of argument of %s", typeNameOf(a[0]), name)
			}
			n := int64(0)
			if len(a) == 2 {
				kk, ok := kindOf(a[1])
				if !ok || !kk.isInt {
					return nil, typeErrf("illegal type of scale argument of %s", name)
				}
				n = signExtendAny(a[1])
			}
			if k.isInt {
				if n >= 0 {
					return a[0], nil
				}
				return nil, unsupportedf("%s of an integer with a negative scale", name)
			}
			x := a[0].(float64)
			if n == 0 {
				return f(x), nil
			}
			scale := math.Pow(10, math.Abs(float64(n)))
			if n > 0 {
				return f(x*scale) / scale, nil
			}
			return f(x/scale) * scale, nil
		})
	}
	rounder("floor", math.Floor)
	rounder("ceil", math.Ceil)
	rounder("ceiling", math.Ceil)
	rounder("round", math.RoundToEven) // banker's rounding for floats, as documented
	rounder("trunc", math.Trunc)
	regNull("greatest", 1, -1, func(_ *env, a []any) (any, error) { return extreme(a, 1) })
	regNull("least", 1, -1, func(_ *env, a []any) (any, error) { return extreme(a, -1) })
	regNull("e", 0, 0, func(*env, []any) (any, error) { return math.E, nil })
	regNull("pi", 0, 0, func(*env, []any) (any, error) { return math.Pi, nil })
}

func mustAtoi(s string) int {
	n, err := strconv.Atoi(s)
	if err != nil {
		panic(err)
	}
	return n
}

func extreme(a []any, dir int) (any, error) {
	for _, v := range a {
		if v == nil {
			return nil, nil
		}
	}
	u, err := unifyValues(append([]any{}, a...))
	if err != nil {
		return nil, err
	}
	best := u[0]
	for _, v := range u[1:] {
		c, err := compareValues(v, best)
		if err != nil {
			return nil, err
		}
		if c*dir > 0 {
			best = v
		}
	}
	return best, nil
}

package chsql

import (
	"fmt"
	"strings"
	"time"
)

// Column describes a table column; Type is a ClickHouse type name.
type Column struct{ Name, Type string }

type table struct {
	name  string
	cols  []Column
	types []*Type
	rows  [][]any
}

// DB is an in-memory database.
type DB struct {
	tables  map[string]*table
	aliases map[string]string
	// Now is used by now() / today(); defaults to time.Now.
	Now func() time.Time
	// MaxQuantileSample is the reservoir size of quantile(): with more input
	// values ClickHouse's answer depends on random sampling and chsql refuses.
	MaxQuantileSample int
}

// NewDB creates an empty database.
func NewDB() *DB {
	return &DB{tables: map[string]*table{}, aliases: map[string]string{}, Now: time.Now, MaxQuantileSample: 8192}
}

// CreateTable creates (or replaces) a table. It panics on an unparsable type
// name, which is a programming error in the caller.
func (db *DB) CreateTable(name string, cols []Column) {
	t := &table{name: name, cols: append([]Column(nil), cols...)}
	for _, c := range cols {
		ty, err := ParseType(c.Type)
		if err != nil {
			panic(fmt.Sprintf("chsql: CreateTable(%s): column %s: %v", name, c.Name, err))
		}
		if _, err := defaultValue(ty); err != nil {
			panic(fmt.Sprintf("chsql: CreateTable(%s): column %s: %v", name, c.Name, err))
		}
		t.types = append(t.types, ty)
	}
	db.tables[name] = t
}

// Alias makes `alias` readable as another name of `table` (e.g. a Distributed
// table over a local one: both read the same rows).
func (db *DB) Alias(alias, table string) { db.aliases[alias] = table }

// Insert appends rows. Values are Go natives (see the package documentation of
// the value model): any Go integer type for (U)IntN columns (range checked),
// float64, string / []byte, Date / DateTime / time.Time / "YYYY-MM-DD" strings,
// []any (or []string, ...) for arrays, Tuple or []any for tuples,
// map[string]string or *Map for maps, nil for NULL, *AggState for
// AggregateFunction columns.
func (db *DB) Insert(tableName string, rows ...[]any) error {
	t, err := db.lookupTable(tableName)
	if err != nil {
		return err
	}
	var converted [][]any
	for ri, r := range rows {
		if len(r) != len(t.cols) {
			return badArgf("insert into %s: row %d has %d values, table has %d columns", tableName, ri, len(r), len(t.cols))
		}
		out := make([]any, len(r))
		for i, v := range r {
			c, err := coerceToType(v, t.types[i])
			if err != nil {
				return fmt.Errorf("insert into %s: row %d column %s: %w", tableName, ri, t.cols[i].Name, err)
			}
			out[i] = c
		}
		converted = append(converted, out)
	}
	t.rows = append(t.rows, converted...)
	return nil
}

// Truncate removes all rows of a table.
func (db *DB) Truncate(tableName string) error {
	t, err := db.lookupTable(tableName)
	if err != nil {
		return err
	}
	t.rows = nil
	return nil
}

// TableNames lists the created tables (not the aliases).
func (db *DB) TableNames() []string {
	var n []string
	for k := range db.tables {
		n = append(n, k)
	}
	return n
}

func (db *DB) lookupTable(name string) (*table, error) {
	seen := 0
	for {
		if t, ok := db.tables[name]; ok {
			return t, nil
		}
		a, ok := db.aliases[name]
		if !ok || seen > 10 {
			return nil, unknownf("table %s does not exist", name)
		}
		name = a
		seen++
	}
}

// Result is a query result. Types are ClickHouse type names derived from the
// values (see the note on typing in DESIGN notes of eval.go); Rows use the Go
// mapping described for Insert with UInt* -> uint64, Int* -> int64,
// Map(String,String) -> map[string]string, FixedString -> string.
type Result struct {
	Cols  []string
	Types []string
	Rows  [][]any
}

// ScanInfo reports one scan of a base table: how many rows the table offered
// and how many passed the PREWHERE / WHERE directly attached to the scan (the
// conditions of the SELECT block whose FROM is that table, when the block has
// no JOIN / ARRAY JOIN; otherwise only PREWHERE counts, since WHERE is applied
// to the joined rows). AdmittedRows are the admitted table rows (all columns,
// table order, output representation).
type ScanInfo struct {
	Table        string
	Offered      int
	Admitted     int
	AdmittedRows [][]any
}

// Query parses and executes one statement.
func (db *DB) Query(sql string) (*Result, error) {
	r, _, err := db.QueryWithScans(sql)
	return r, err
}

// QueryWithScans is Query plus a report of every base-table scan performed.
func (db *DB) QueryWithScans(sql string) (*Result, []ScanInfo, error) {
	st, err := Parse(sql)
	if err != nil {
		return nil, nil, err
	}
	return db.Exec(st)
}

// Exec executes a parsed statement.
func (db *DB) Exec(st Stmt) (*Result, []ScanInfo, error) {
	switch s := st.(type) {
	case *OtherStmt:
		return nil, nil, unsupportedf("%s statement", s.Kind)
	case *SelectUnion:
		q := &queryCtx{db: db, cache: map[*SelectUnion]*relation{}, sets: map[any]*inSet{}}
		rel, err := q.execUnion(s, nil)
		if err != nil {
			return nil, nil, err
		}
		res := &Result{}
		for i, c := range rel.cols {
			res.Cols = append(res.Cols, c.name)
			res.Types = append(res.Types, rel.typeName(i))
		}
		for _, r := range rel.rows {
			out := make([]any, len(r))
			for i, v := range r {
				out[i] = outValue(v)
			}
			res.Rows = append(res.Rows, out)
		}
		return res, q.scans, nil
	}
	return nil, nil, unsupportedf("statement type %T", st)
}

func outValue(v any) any {
	switch x := v.(type) {
	case FixedString:
		return string(x)
	case []any:
		out := make([]any, len(x))
		for i, e := range x {
			out[i] = outValue(e)
		}
		return out
	case Tuple:
		out := make(Tuple, len(x))
		for i, e := range x {
			out[i] = outValue(e)
		}
		return out
	case *Map:
		o := &Map{}
		for i := range x.Keys {
			o.Keys = append(o.Keys, outValue(x.Keys[i]))
			o.Vals = append(o.Vals, outValue(x.Vals[i]))
		}
		return normalizeOut(o)
	}
	return normalizeOut(v)
}

// FixedString is the engine representation of a FixedString(N) value (all N
// bytes, including trailing zero bytes). It only exists so that comparisons
// with String values can be zero-padded as ClickHouse does; callers of Query
// get plain strings.
type FixedString string

// asString accepts String and FixedString values.
func asString(v any) (string, bool) {
	switch x := v.(type) {
	case string:
		return x, true
	case FixedString:
		return string(x), true
	}
	return "", false
}

func trimZeros(s string) string { return strings.TrimRight(s, "\x00") }

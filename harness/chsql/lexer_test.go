package chsql

import (
	"errors"
	"reflect"
	"testing"
)

func kinds(toks []Token) []TokKind {
	var k []TokKind
	for _, t := range toks {
		k = append(k, t.Kind)
	}
	return k
}

func TestLexBasics(t *testing.T) {
	toks, err := Lex("SELECT a.b, `x y`, \"q\", 'str', 12, 1.5e3, 0xFF, x.1.2 -- c\n/* b */ # d\n#! e\n FROM t WHERE a<=1 AND b<>2 OR c->d::Int8 {p:UInt8}")
	if err != nil {
		t.Fatal(err)
	}
	var texts []string
	for _, tk := range toks {
		texts = append(texts, tk.Text)
	}
	want := []string{"SELECT", "a", ".", "b", ",", "`x y`", ",", "\"q\"", ",", "'str'", ",", "12", ",", "1.5e3", ",", "0xFF", ",",
		"x", ".", "1", ".", "2", "-- c", "/* b */", "# d", "#! e", "FROM", "t", "WHERE", "a", "<=", "1", "AND", "b", "<>", "2", "OR",
		"c", "->", "d", "::", "Int8", "{p:UInt8}"}
	if !reflect.DeepEqual(texts, want) {
		t.Fatalf("tokens:\n got %q\nwant %q", texts, want)
	}
	k := kinds(toks)
	if k[0] != TokKeyword || k[1] != TokIdent || k[5] != TokQuotedIdent || k[7] != TokQuotedIdent || k[9] != TokString ||
		k[11] != TokNumber || k[22] != TokComment || k[23] != TokComment || k[24] != TokComment || k[25] != TokComment ||
		k[len(k)-1] != TokParam || k[30] != TokOp || k[2] != TokPunct {
		t.Fatalf("kinds: %v", k)
	}
	if toks[5].Val != "x y" || toks[7].Val != "q" {
		t.Fatalf("quoted identifier values: %q %q", toks[5].Val, toks[7].Val)
	}
}

// String literal escapes follow ClickHouse's parseComplexEscapeSequence
// (src/IO/ReadHelpers.cpp): known escapes are decoded, \\ \' \" \` \/ \= yield
// the character, every other \c keeps the backslash ("we leave backslash when
// user write something like 'Hello 100\%'").
func TestLexStringEscapes(t *testing.T) {
	cases := []struct{ src, want string }{
		{`'a''b'`, "a'b"},
		{`'a\'b'`, "a'b"},
		{`'a\\b'`, `a\b`},
		{`'\n\t\r\0\a\b\e\f\v'`, "\n\t\r\x00\a\b\x1b\f\v"},
		{`'\x41\x7a'`, "Az"},
		{`'a\Nb'`, "ab"},
		{`'100\%'`, `100\%`},
		{`'a\_b'`, `a\_b`},
		{`'\d+\.\w'`, `\d+\.\w`}, // unknown escapes keep the backslash
		{`'\"\` + "`" + `\/\='`, "\"`/="},
		{`'é\é'`, "é\\é"},
	}
	for _, c := range cases {
		toks, err := Lex(c.src)
		if err != nil {
			t.Errorf("%s: %v", c.src, err)
			continue
		}
		if len(toks) != 1 || toks[0].Kind != TokString || toks[0].Val != c.want {
			t.Errorf("%s: got %q want %q", c.src, toks[0].Val, c.want)
		}
		if toks[0].Text != c.src {
			t.Errorf("%s: raw text %q", c.src, toks[0].Text)
		}
	}
}

func TestLexErrors(t *testing.T) {
	for _, src := range []string{`'abc`, "`abc", `"abc`, `/* abc`, `'abc\`, `1abc`, `#x`, `a ^ b`} {
		if _, err := Lex(src); !errors.Is(err, ErrSyntax) {
			t.Errorf("%q: want syntax error, got %v", src, err)
		}
	}
	// a number directly after '.' following an identifier is a tuple index, not a float
	toks, err := Lex("t.1.5")
	if err != nil || len(toks) != 5 {
		t.Fatalf("t.1.5: %v %v", toks, err)
	}
	// ... but .5 at the start of an expression is a number
	toks, err = Lex("(.5)")
	if err != nil || len(toks) != 3 || toks[1].Kind != TokNumber {
		t.Fatalf("(.5): %v %v", toks, err)
	}
}

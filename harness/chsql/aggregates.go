package chsql

import (
	"fmt"
	"math"
	"sort"
	"strings"
)

// ---------------------------------------------------------------------------
// Aggregate functions and combinators
// ---------------------------------------------------------------------------

// aggregator accumulates rows of non-NULL arguments.
type aggregator interface {
	add(args []any) error
	merge(other aggregator) error
	// result returns the final value; hint is a representative argument list
	// (possibly nil) used for the type of the result over zero rows.
	result(hint []any) (any, error)
}

type aggFactory struct {
	minArgs, maxArgs int
	minParams        int
	maxParams        int
	// neverNull: the result over only-NULL input is not NULL (count, groupArray, uniqExact...)
	neverNull bool
	make      func(db *DB, params []any) (aggregator, error)
}

var aggFactories = map[string]*aggFactory{}

type aggSpec struct {
	base        string
	combinators []string // in name order, e.g. sumArrayIf -> [Array If]
	factory     *aggFactory
}

var combinatorSuffixes = []string{"If", "Array", "Merge", "SimpleState", "State", "OrNull", "OrDefault", "Distinct"}

var aggAliases = map[string]string{
	"first_value": "any", "last_value": "anyLast", "median": "quantile", "medianExact": "quantileExact",
	"VAR_POP": "varPop", "VAR_SAMP": "varSamp", "STDDEV_POP": "stddevPop", "STDDEV_SAMP": "stddevSamp",
}

func lookupAggregate(name string) (aggSpec, bool) {
	if c, ok := caseInsensitive[strings.ToLower(name)]; ok {
		if _, isAgg := aggFactories[c]; isAgg {
			name = c
		}
	}
	if a, ok := aggAliases[name]; ok {
		name = a
	}
	if f, ok := aggFactories[name]; ok {
		return aggSpec{base: name, factory: f}, true
	}
	for _, suf := range combinatorSuffixes {
		if strings.HasSuffix(name, suf) && len(name) > len(suf) {
			if inner, ok := lookupAggregate(name[:len(name)-len(suf)]); ok {
				inner.combinators = append(inner.combinators, suf)
				return inner, true
			}
		}
	}
	return aggSpec{}, false
}

// AggState is the value of an AggregateFunction(...) column / of a -State
// aggregate. Build states for test data with NewCountState, NewArgMaxState or
// with the -State SQL combinators.
type AggState struct {
	Fn  string // base function name, e.g. "count", "argMax"
	agg aggregator
}

func (s *AggState) typeName() string { return "AggregateFunction(" + s.Fn + ")" }
func (s *AggState) emptyLike() *AggState {
	f := aggFactories[s.Fn]
	if f == nil {
		return nil
	}
	a, err := f.make(nil, nil)
	if err != nil {
		return nil
	}
	return &AggState{Fn: s.Fn, agg: a}
}

// String shows the finalised value of the state.
func (s *AggState) String() string {
	v, err := s.agg.result(nil)
	if err != nil {
		return fmt.Sprintf("%sState(<%v>)", s.Fn, err)
	}
	return fmt.Sprintf("%sState(%v)", s.Fn, v)
}

// NewCountState is the state of countState() over n rows.
func NewCountState(n uint64) *AggState { return &AggState{Fn: "count", agg: &aggCount{n: n}} }

// NewArgMaxState is the state of argMaxState(val, key) over one row; merge
// several with the -Merge combinators.
func NewArgMaxState(val, key any) *AggState {
	a := &aggArgMinMax{max: true}
	_ = a.add([]any{widenForInsert(val), widenForInsert(key)})
	return &AggState{Fn: "argMax", agg: a}
}

// NewArgMinState is the state of argMinState(val, key) over one row.
func NewArgMinState(val, key any) *AggState {
	a := &aggArgMinMax{max: false}
	_ = a.add([]any{widenForInsert(val), widenForInsert(key)})
	return &AggState{Fn: "argMin", agg: a}
}

// MergeStates merges states of the same function into a new state (what an
// AggregatingMergeTree does in the background).
func MergeStates(states ...*AggState) (*AggState, error) {
	if len(states) == 0 {
		return nil, badArgf("MergeStates: no states")
	}
	out := states[0].emptyLike()
	for _, s := range states {
		if s.Fn != out.Fn {
			return nil, badArgf("MergeStates: %s vs %s", s.Fn, out.Fn)
		}
		if err := out.agg.merge(s.agg); err != nil {
			return nil, err
		}
	}
	return out, nil
}

func widenForInsert(v any) any {
	switch x := v.(type) {
	case int:
		return int64(x)
	case uint:
		return uint64(x)
	case float32:
		return float64(x)
	}
	return v
}

func newEmptyState(t *Type) (any, error) {
	fn := t.Lit
	if i := strings.IndexByte(fn, '('); i >= 0 {
		fn = fn[:i]
	}
	f, ok := aggFactories[fn]
	if !ok {
		return nil, unsupportedf("AggregateFunction(%s) columns", t.Lit)
	}
	a, err := f.make(nil, nil)
	if err != nil {
		return nil, err
	}
	return &AggState{Fn: fn, agg: a}, nil
}

func (e *env) evalAggregate(f *FuncCall, name string, spec aggSpec) (any, error) {
	if !e.inGroup {
		return nil, typeErrf("aggregate function %s is found in a wrong place (not an aggregated context)", f.Name)
	}
	ce := e.b.constEnv()
	var params []any
	for _, p := range f.Params {
		v, err := ce.eval(p)
		if err != nil {
			return nil, err
		}
		params = append(params, v)
	}
	fac := spec.factory
	base := spec.base
	combs := append([]string{}, spec.combinators...)
	if f.Distinct {
		if base == "count" && len(combs) == 0 {
			// count_distinct_implementation = uniqExact
			base, fac = "uniqExact", aggFactories["uniqExact"]
		} else {
			combs = append(combs, "Distinct")
		}
	}
	if len(params) < fac.minParams || len(params) > fac.maxParams {
		return nil, badArgf("wrong number of parameters (%d) for aggregate function %s", len(params), f.Name)
	}
	agg, err := fac.make(e.b.q.db, params)
	if err != nil {
		return nil, err
	}
	var state, orNull, orDefault, hasMerge, hasDistinct bool
	for _, c := range combs {
		switch c {
		case "State", "SimpleState":
			state = c == "State"
		case "OrNull":
			orNull = true
		case "OrDefault":
			orDefault = true
		case "Merge":
			hasMerge = true
		case "Distinct":
			hasDistinct = true
		}
	}
	_ = orDefault
	nArgsInner := len(f.Args)
	for _, c := range combs {
		if c == "If" {
			nArgsInner--
		}
	}
	if hasMerge {
		if nArgsInner != 1 {
			return nil, badArgf("%s takes one argument (a state)", f.Name)
		}
	} else if nArgsInner < fac.minArgs || (fac.maxArgs >= 0 && nArgsInner > fac.maxArgs) {
		return nil, badArgf("wrong number of arguments (%d) for aggregate function %s", len(f.Args), f.Name)
	}

	sawNull, added := false, 0
	seenDistinct := map[string]bool{}
	var feed func(args []any, ci int) error
	feed = func(args []any, ci int) error {
		if ci < 0 {
			for _, a := range args {
				if a == nil {
					sawNull = true
					return nil
				}
				if _, isLambda := a.(*lambdaVal); isLambda {
					return typeErrf("lambda as an argument of aggregate function %s", f.Name)
				}
			}
			if hasDistinct {
				k := hashKey(Tuple(args))
				if seenDistinct[k] {
					return nil
				}
				seenDistinct[k] = true
			}
			added++
			return agg.add(args)
		}
		switch combs[ci] {
		case "If":
			if len(args) == 0 {
				return badArgf("%s needs a condition argument", f.Name)
			}
			cond := args[len(args)-1]
			// The value arguments of a row rejected by the condition still tell
			// that their type is Nullable: in ClickHouse the Null adapter then
			// makes the result over zero admitted rows NULL (typing is dynamic
			// here, so a NULL seen in any row is the only available evidence).
			noteNull := func() {
				for _, a := range args[:len(args)-1] {
					if a == nil {
						sawNull = true
					}
				}
			}
			if cond == nil {
				noteNull()
				return nil
			}
			if _, ok := kindOf(cond); !ok {
				return typeErrf("illegal type %s of the condition of %s", typeNameOf(cond), f.Name)
			}
			if t, _ := truthy(cond); !t {
				noteNull()
				return nil
			}
			return feed(args[:len(args)-1], ci-1)
		case "Array":
			n := -1
			arrs := make([][]any, len(args))
			for i, a := range args {
				if a == nil {
					return nil
				}
				arr, ok := a.([]any)
				if !ok {
					return typeErrf("illegal type %s of argument of %s (must be an array)", typeNameOf(a), f.Name)
				}
				if n >= 0 && len(arr) != n {
					return badArgf("arrays passed to %s have different sizes", f.Name)
				}
				n = len(arr)
				arrs[i] = arr
			}
			for k := 0; k < n; k++ {
				row := make([]any, len(args))
				for i := range args {
					row[i] = arrs[i][k]
				}
				if err := feed(row, ci-1); err != nil {
					return err
				}
			}
			return nil
		case "Merge":
			if args[0] == nil {
				return nil
			}
			st, ok := args[0].(*AggState)
			if !ok {
				return typeErrf("illegal type %s of argument of %s (must be an aggregate state)", typeNameOf(args[0]), f.Name)
			}
			if st.Fn != base {
				return typeErrf("%s applied to a state of %s", f.Name, st.Fn)
			}
			added++
			return agg.merge(st.agg)
		default: // State, SimpleState, OrNull, OrDefault, Distinct: handled elsewhere
			return feed(args, ci-1)
		}
	}
	rowEnv := e.child()
	rowEnv.inGroup, rowEnv.group, rowEnv.keyVals = false, nil, nil
	evalRow := func(r []any) ([]any, error) {
		rowEnv.row = r
		args := make([]any, len(f.Args))
		for i, a := range f.Args {
			v, err := rowEnv.eval(a)
			if err != nil {
				return nil, err
			}
			args[i] = v
		}
		return args, nil
	}
	for _, r := range e.group {
		args, err := evalRow(r)
		if err != nil {
			return nil, err
		}
		if err := feed(args, len(combs)-1); err != nil {
			return nil, err
		}
	}
	if state {
		return &AggState{Fn: base, agg: agg}, nil
	}
	// type hint for results over zero rows
	var hint []any
	if added == 0 {
		if h, err := evalRow(e.row); err == nil {
			hint = h
			for _, c := range combs {
				switch c {
				case "If":
					if len(hint) > 0 {
						hint = hint[:len(hint)-1]
					}
				case "Array":
					for i, a := range hint {
						if arr, ok := a.([]any); ok && len(arr) > 0 {
							hint[i] = arr[0]
						} else {
							hint[i] = nil
						}
					}
				case "Merge":
					hint = nil
				}
			}
		}
		if (sawNull && !fac.neverNull) || orNull {
			return nil, nil
		}
		// statically Nullable value argument (e.g. toFloat64OrNull(..)): the
		// Null adapter yields NULL over zero admitted rows
		if !fac.neverNull && !hasMerge && e.rel != nil {
			vals := f.Args
			plain := true
			for _, c := range combs {
				switch c {
				case "If":
					if len(vals) > 0 {
						vals = vals[:len(vals)-1]
					}
				case "Array":
					plain = false
				}
			}
			if plain {
				for _, a := range vals {
					if e.b.staticNullable(e.rel, a, nil) {
						return nil, nil
					}
				}
			}
		}
	}
	return agg.result(hint)
}

// ---------------------------------------------------------------------------
// implementations
// ---------------------------------------------------------------------------

func init() {
	simple := func(name string, minA, maxA int, neverNull bool, mk func() aggregator) {
		aggFactories[name] = &aggFactory{minArgs: minA, maxArgs: maxA, neverNull: neverNull,
			make: func(*DB, []any) (aggregator, error) { return mk(), nil }}
	}
	simple("count", 0, 1, true, func() aggregator { return &aggCount{} })
	simple("sum", 1, 1, false, func() aggregator { return &aggSum{} })
	simple("avg", 1, 1, false, func() aggregator { return &aggAvg{} })
	simple("min", 1, 1, false, func() aggregator { return &aggMinMax{} })
	simple("max", 1, 1, false, func() aggregator { return &aggMinMax{max: true} })
	simple("any", 1, 1, false, func() aggregator { return &aggAny{} })
	simple("anyLast", 1, 1, false, func() aggregator { return &aggAny{last: true} })
	simple("argMin", 2, 2, false, func() aggregator { return &aggArgMinMax{} })
	simple("argMax", 2, 2, false, func() aggregator { return &aggArgMinMax{max: true} })
	simple("groupBitOr", 1, 1, false, func() aggregator { return &aggGroupBit{op: '|'} })
	simple("groupBitAnd", 1, 1, false, func() aggregator { return &aggGroupBit{op: '&'} })
	simple("groupBitXor", 1, 1, false, func() aggregator { return &aggGroupBit{op: '^'} })
	simple("uniqExact", 1, -1, true, func() aggregator { return &aggUniqExact{seen: map[string]bool{}} })
	simple("stddevPop", 1, 1, false, func() aggregator { return &aggVar{sqrt: true} })
	simple("stddevSamp", 1, 1, false, func() aggregator { return &aggVar{sqrt: true, samp: true} })
	simple("varPop", 1, 1, false, func() aggregator { return &aggVar{} })
	simple("varSamp", 1, 1, false, func() aggregator { return &aggVar{samp: true} })

	limited := func(name string, mk func(limit uint64, has bool) aggregator) {
		aggFactories[name] = &aggFactory{minArgs: 1, maxArgs: 1, maxParams: 1, neverNull: true,
			make: func(_ *DB, params []any) (aggregator, error) {
				if len(params) == 0 {
					return mk(0, false), nil
				}
				_, u, neg, ok := intParts(params[0])
				if !ok || neg || u == 0 {
					return nil, badArgf("parameter of %s must be a positive integer", name)
				}
				return mk(u, true), nil
			}}
	}
	limited("groupArray", func(l uint64, has bool) aggregator { return &aggGroupArray{limit: l, limited: has} })
	limited("groupUniqArray", func(l uint64, has bool) aggregator {
		return &aggGroupArray{limit: l, limited: has, uniq: true, seen: map[string]bool{}}
	})
	quant := func(name string, exact bool) {
		aggFactories[name] = &aggFactory{minArgs: 1, maxArgs: 1, maxParams: 1,
			make: func(db *DB, params []any) (aggregator, error) {
				level := 0.5
				if len(params) == 1 {
					f, ok := toFloat(params[0])
					if !ok || f < 0 || f > 1 || math.IsNaN(f) {
						return nil, badArgf("quantile level must be a number in [0, 1], got %v", params[0])
					}
					level = f
				}
				max := 8192
				if db != nil && db.MaxQuantileSample > 0 {
					max = db.MaxQuantileSample
				}
				return &aggQuantile{level: level, exact: exact, maxSample: max}, nil
			}}
	}
	quant("quantile", false)
	quant("quantileExact", true)
	for _, n := range []string{"uniq", "uniqCombined", "uniqCombined64", "uniqHLL12", "uniqTheta", "quantileTDigest", "quantileTiming",
		"quantileDeterministic", "quantileBFloat16", "topK", "anyHeavy", "quantiles", "quantilesExact"} {
		name := n
		aggFactories[name] = &aggFactory{minArgs: 0, maxArgs: -1, maxParams: 10,
			make: func(*DB, []any) (aggregator, error) {
				return nil, unsupportedf("aggregate function %s (approximate / not implemented)", name)
			}}
	}
}

// ---- count ----

type aggCount struct{ n uint64 }

func (a *aggCount) add([]any) error { a.n++; return nil }
func (a *aggCount) merge(o aggregator) error {
	a.n += o.(*aggCount).n
	return nil
}
func (a *aggCount) result([]any) (any, error) { return a.n, nil }

// ---- sum ----

// sum: UInt* -> UInt64, Int* -> Int64 (both wrapping), Float -> Float64.
type aggSum struct {
	kind byte // 0 unknown, 'u', 'i', 'f'
	u    uint64
	f    float64
}

func numClass(v any) (byte, error) {
	k, ok := kindOf(v)
	if !ok {
		return 0, typeErrf("illegal type %s of argument for an arithmetic aggregate function", typeNameOf(v))
	}
	switch {
	case k.isFloat:
		return 'f', nil
	case k.signed:
		return 'i', nil
	}
	return 'u', nil
}

func (a *aggSum) add(args []any) error {
	c, err := numClass(args[0])
	if err != nil {
		return err
	}
	if a.kind == 0 {
		a.kind = c
	}
	if c == 'f' {
		a.f += args[0].(float64)
	} else {
		bits, _ := toBits(args[0])
		a.u += bits
	}
	return nil
}
func (a *aggSum) merge(o aggregator) error {
	b := o.(*aggSum)
	if a.kind == 0 {
		a.kind = b.kind
	}
	a.u += b.u
	a.f += b.f
	return nil
}
func (a *aggSum) result(hint []any) (any, error) {
	kind := a.kind
	if kind == 0 && len(hint) == 1 && hint[0] != nil {
		c, err := numClass(hint[0])
		if err != nil {
			return nil, err
		}
		kind = c
	}
	switch kind {
	case 'f':
		return a.f, nil
	case 'i':
		return int64(a.u), nil
	}
	return a.u, nil
}

// ---- avg ----

type aggAvg struct {
	sum aggSum
	n   uint64
}

func (a *aggAvg) add(args []any) error { a.n++; return a.sum.add(args) }
func (a *aggAvg) merge(o aggregator) error {
	b := o.(*aggAvg)
	a.n += b.n
	return a.sum.merge(&b.sum)
}
func (a *aggAvg) result(hint []any) (any, error) {
	if len(hint) == 1 && hint[0] != nil {
		if _, err := numClass(hint[0]); err != nil {
			return nil, err
		}
	}
	s, _ := a.sum.result(nil)
	f, _ := toFloat(s)
	return f / float64(a.n), nil // 0/0 = nan over zero rows, as in ClickHouse
}

// ---- min / max ----

type aggMinMax struct {
	max bool
	has bool
	v   any
}

func (a *aggMinMax) add(args []any) error {
	if !a.has {
		a.has, a.v = true, args[0]
		return nil
	}
	c, err := compareValues(args[0], a.v)
	if err != nil {
		return err
	}
	if (a.max && c > 0) || (!a.max && c < 0) {
		a.v = args[0]
	}
	return nil
}
func (a *aggMinMax) merge(o aggregator) error {
	b := o.(*aggMinMax)
	if b.has {
		return a.add([]any{b.v})
	}
	return nil
}
func (a *aggMinMax) result(hint []any) (any, error) {
	if !a.has {
		if len(hint) == 1 {
			return zeroLike(hint[0]), nil
		}
		return nil, nil
	}
	return a.v, nil
}

// ---- any / anyLast ----

type aggAny struct {
	last bool
	has  bool
	v    any
}

func (a *aggAny) add(args []any) error {
	if !a.has || a.last {
		a.has, a.v = true, args[0]
	}
	return nil
}
func (a *aggAny) merge(o aggregator) error {
	b := o.(*aggAny)
	if b.has {
		return a.add([]any{b.v})
	}
	return nil
}
func (a *aggAny) result(hint []any) (any, error) {
	if !a.has {
		if len(hint) == 1 {
			return zeroLike(hint[0]), nil
		}
		return nil, nil
	}
	return a.v, nil
}

// ---- argMin / argMax ----

// Ties keep the first row seen (ClickHouse: changeIfLess / changeIfGreater are strict).
type aggArgMinMax struct {
	max      bool
	has      bool
	arg, key any
}

func (a *aggArgMinMax) add(args []any) error {
	if !a.has {
		a.has, a.arg, a.key = true, args[0], args[1]
		return nil
	}
	c, err := compareValues(args[1], a.key)
	if err != nil {
		return err
	}
	if (a.max && c > 0) || (!a.max && c < 0) {
		a.arg, a.key = args[0], args[1]
	}
	return nil
}
func (a *aggArgMinMax) merge(o aggregator) error {
	b := o.(*aggArgMinMax)
	if b.has {
		return a.add([]any{b.arg, b.key})
	}
	return nil
}
func (a *aggArgMinMax) result(hint []any) (any, error) {
	if !a.has {
		if len(hint) == 2 {
			return zeroLike(hint[0]), nil
		}
		return float64(0), nil // metrics_15s.last is AggregateFunction(argMax, Float64, Int64)
	}
	return a.arg, nil
}

// ---- groupBitOr / And / Xor ----

type aggGroupBit struct {
	op   byte
	has  bool
	bits uint64
	like any
}

func (a *aggGroupBit) add(args []any) error {
	k, ok := kindOf(args[0])
	if !ok || !k.isInt {
		return typeErrf("illegal type %s of argument of groupBit* (must be an integer)", typeNameOf(args[0]))
	}
	b, _ := toBits(args[0])
	if !a.has {
		a.has, a.bits, a.like = true, b, args[0]
		if a.op == '&' {
			a.bits = b
		}
		return nil
	}
	switch a.op {
	case '|':
		a.bits |= b
	case '&':
		a.bits &= b
	case '^':
		a.bits ^= b
	}
	return nil
}
func (a *aggGroupBit) merge(o aggregator) error {
	b := o.(*aggGroupBit)
	if b.has {
		return a.add([]any{makeLike(b.like, b.bits)})
	}
	return nil
}
func makeLike(like any, bits uint64) any {
	k, _ := kindOf(like)
	return makeInt(k.signed, k.size, bits)
}
func (a *aggGroupBit) result(hint []any) (any, error) {
	if !a.has {
		// over zero rows: 0 for Or / Xor, all ones for And
		if len(hint) == 1 && hint[0] != nil {
			if k, ok := kindOf(hint[0]); ok && k.isInt {
				if a.op == '&' {
					return makeInt(k.signed, k.size, ^uint64(0)), nil
				}
				return makeInt(k.signed, k.size, 0), nil
			}
			return nil, typeErrf("illegal type %s of argument of groupBit*", typeNameOf(hint[0]))
		}
		return uint64(0), nil
	}
	return makeLike(a.like, a.bits), nil
}

// ---- groupArray / groupUniqArray ----

// groupUniqArray returns the distinct values in order of first appearance
// (ClickHouse: hash table order, i.e. unspecified).
type aggGroupArray struct {
	limit   uint64
	limited bool
	uniq    bool
	seen    map[string]bool
	vals    []any
}

func (a *aggGroupArray) add(args []any) error {
	if a.limited && uint64(len(a.vals)) >= a.limit {
		return nil
	}
	if a.uniq {
		k := hashKey(args[0])
		if a.seen[k] {
			return nil
		}
		a.seen[k] = true
	}
	a.vals = append(a.vals, args[0])
	return nil
}
func (a *aggGroupArray) merge(o aggregator) error {
	for _, v := range o.(*aggGroupArray).vals {
		if err := a.add([]any{v}); err != nil {
			return err
		}
	}
	return nil
}
func (a *aggGroupArray) result([]any) (any, error) {
	if a.vals == nil {
		return []any{}, nil
	}
	return append([]any{}, a.vals...), nil
}

// ---- uniqExact ----

type aggUniqExact struct{ seen map[string]bool }

func (a *aggUniqExact) add(args []any) error {
	if len(args) == 1 {
		a.seen[hashKey(args[0])] = true
	} else {
		a.seen[hashKey(Tuple(args))] = true
	}
	return nil
}
func (a *aggUniqExact) merge(o aggregator) error {
	for k := range o.(*aggUniqExact).seen {
		a.seen[k] = true
	}
	return nil
}
func (a *aggUniqExact) result([]any) (any, error) { return uint64(len(a.seen)), nil }

// ---- variance family ----

// ClickHouse (AggregateFunctionStatisticsSimple, VarMoments): keeps m0 = n,
// m1 = sum x, m2 = sum x^2 in Float64;
//
//	varPop  = max(0, (m2 - m1*m1/m0) / m0)
//	varSamp = max(0, (m2 - m1*m1/m0) / (m0 - 1))   (nan for m0 <= 1)
type aggVar struct {
	sqrt, samp bool
	m0, m1, m2 float64
}

func (a *aggVar) add(args []any) error {
	f, ok := toFloat(args[0])
	if !ok {
		return typeErrf("illegal type %s of argument of a variance function", typeNameOf(args[0]))
	}
	a.m0++
	a.m1 += f
	a.m2 += f * f
	return nil
}
func (a *aggVar) merge(o aggregator) error {
	b := o.(*aggVar)
	a.m0, a.m1, a.m2 = a.m0+b.m0, a.m1+b.m1, a.m2+b.m2
	return nil
}
func (a *aggVar) result(hint []any) (any, error) {
	if len(hint) == 1 && hint[0] != nil {
		if _, ok := toFloat(hint[0]); !ok {
			return nil, typeErrf("illegal type %s of argument of a variance function", typeNameOf(hint[0]))
		}
	}
	var v float64
	switch {
	case a.m0 == 0:
		v = math.NaN()
	case a.samp && a.m0 == 1:
		v = math.NaN()
	case a.samp:
		v = math.Max(0, (a.m2-a.m1*a.m1/a.m0)/(a.m0-1))
	default:
		v = math.Max(0, (a.m2-a.m1*a.m1/a.m0)/a.m0)
	}
	if a.sqrt {
		v = math.Sqrt(v)
	}
	return v, nil
}

// ---- quantile ----

// quantile(level)(x): ClickHouse uses a reservoir sample of 8192 values; with
// fewer values it is deterministic: sort, then interpolate linearly between
// the neighbours of index level*(n-1) (ReservoirSampler::quantileInterpolated).
// quantileExact(level)(x): element number floor(level*n) (n-1 for level 1) of
// the sorted values, no interpolation, result has the argument type.
type aggQuantile struct {
	level     float64
	exact     bool
	maxSample int
	vals      []any
}

func (a *aggQuantile) add(args []any) error {
	if _, ok := toFloat(args[0]); !ok {
		return typeErrf("illegal type %s of argument of quantile", typeNameOf(args[0]))
	}
	if f, ok := args[0].(float64); ok && math.IsNaN(f) {
		return nil // ClickHouse skips NaNs in quantile functions
	}
	a.vals = append(a.vals, args[0])
	return nil
}
func (a *aggQuantile) merge(o aggregator) error {
	a.vals = append(a.vals, o.(*aggQuantile).vals...)
	return nil
}
func (a *aggQuantile) result(hint []any) (any, error) {
	if len(hint) == 1 && hint[0] != nil {
		if _, ok := toFloat(hint[0]); !ok {
			return nil, typeErrf("illegal type %s of argument of quantile", typeNameOf(hint[0]))
		}
	}
	if !a.exact && len(a.vals) > a.maxSample {
		return nil, unsupportedf("quantile over %d values: ClickHouse samples randomly beyond %d values", len(a.vals), a.maxSample)
	}
	n := len(a.vals)
	if n == 0 {
		if a.exact && len(hint) == 1 {
			return zeroLike(hint[0]), nil
		}
		return math.NaN(), nil
	}
	sorted := append([]any{}, a.vals...)
	sort.SliceStable(sorted, func(i, j int) bool {
		c, _ := compareValues(sorted[i], sorted[j])
		return c < 0
	})
	if a.exact {
		idx := n - 1
		if a.level < 1 {
			idx = int(a.level * float64(n))
		}
		return sorted[idx], nil
	}
	index := math.Max(0, math.Min(float64(n)-1, a.level*float64(n-1)))
	left := int(index)
	right := left + 1
	lf, _ := toFloat(sorted[left])
	if right == n {
		return lf, nil
	}
	rf, _ := toFloat(sorted[right])
	return lf*(float64(right)-index) + rf*(index-float64(left)), nil
}

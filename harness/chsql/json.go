package chsql

import (
	"math"
	"strconv"
	"strings"
	"unicode/utf16"
	"unicode/utf8"
)

// ---------------------------------------------------------------------------
// A strict JSON parser that keeps object key order and duplicate keys, and
// distinguishes Int64 / UInt64 / Double numbers the way simdjson (the parser
// behind ClickHouse's JSON* functions) does. Any syntax error, invalid UTF-8 or
// trailing garbage makes the whole document invalid; the JSON* functions then
// return their default value.
// ---------------------------------------------------------------------------

type jsonKind int

const (
	jNull jsonKind = iota
	jBool
	jInt64
	jUInt64
	jDouble
	jString
	jArray
	jObject
)

type jsonValue struct {
	kind jsonKind
	b    bool
	i    int64
	u    uint64
	f    float64
	s    string
	arr  []*jsonValue
	keys []string
	vals []*jsonValue
}

type jsonParser struct {
	s     string
	i     int
	depth int
}

func parseJSON(s string) (*jsonValue, bool) {
	if !utf8.ValidString(s) {
		return nil, false
	}
	p := &jsonParser{s: s}
	p.ws()
	v, ok := p.value()
	if !ok {
		return nil, false
	}
	p.ws()
	if p.i != len(p.s) {
		return nil, false
	}
	return v, true
}

func (p *jsonParser) ws() {
	for p.i < len(p.s) {
		switch p.s[p.i] {
		case ' ', '\t', '\n', '\r':
			p.i++
		default:
			return
		}
	}
}

func (p *jsonParser) value() (*jsonValue, bool) {
	if p.i >= len(p.s) {
		return nil, false
	}
	p.depth++
	defer func() { p.depth-- }()
	if p.depth > 1024 {
		return nil, false
	}
	switch c := p.s[p.i]; {
	case c == '{':
		p.i++
		v := &jsonValue{kind: jObject}
		p.ws()
		if p.i < len(p.s) && p.s[p.i] == '}' {
			p.i++
			return v, true
		}
		for {
			p.ws()
			if p.i >= len(p.s) || p.s[p.i] != '"' {
				return nil, false
			}
			k, ok := p.str()
			if !ok {
				return nil, false
			}
			p.ws()
			if p.i >= len(p.s) || p.s[p.i] != ':' {
				return nil, false
			}
			p.i++
			p.ws()
			el, ok := p.value()
			if !ok {
				return nil, false
			}
			v.keys = append(v.keys, k)
			v.vals = append(v.vals, el)
			p.ws()
			if p.i >= len(p.s) {
				return nil, false
			}
			if p.s[p.i] == ',' {
				p.i++
				continue
			}
			if p.s[p.i] == '}' {
				p.i++
				return v, true
			}
			return nil, false
		}
	case c == '[':
		p.i++
		v := &jsonValue{kind: jArray}
		p.ws()
		if p.i < len(p.s) && p.s[p.i] == ']' {
			p.i++
			return v, true
		}
		for {
			p.ws()
			el, ok := p.value()
			if !ok {
				return nil, false
			}
			v.arr = append(v.arr, el)
			p.ws()
			if p.i >= len(p.s) {
				return nil, false
			}
			if p.s[p.i] == ',' {
				p.i++
				continue
			}
			if p.s[p.i] == ']' {
				p.i++
				return v, true
			}
			return nil, false
		}
	case c == '"':
		s, ok := p.str()
		if !ok {
			return nil, false
		}
		return &jsonValue{kind: jString, s: s}, true
	case c == 't':
		if strings.HasPrefix(p.s[p.i:], "true") {
			p.i += 4
			return &jsonValue{kind: jBool, b: true}, p.atomEnd()
		}
	case c == 'f':
		if strings.HasPrefix(p.s[p.i:], "false") {
			p.i += 5
			return &jsonValue{kind: jBool}, p.atomEnd()
		}
	case c == 'n':
		if strings.HasPrefix(p.s[p.i:], "null") {
			p.i += 4
			return &jsonValue{kind: jNull}, p.atomEnd()
		}
	case c == '-' || (c >= '0' && c <= '9'):
		return p.number()
	}
	return nil, false
}

// atomEnd: an atom must be followed by a structural character or whitespace.
func (p *jsonParser) atomEnd() bool {
	if p.i >= len(p.s) {
		return true
	}
	switch p.s[p.i] {
	case ',', ']', '}', ' ', '\t', '\n', '\r', ':':
		return true
	}
	return false
}

func (p *jsonParser) number() (*jsonValue, bool) {
	st := p.i
	if p.s[p.i] == '-' {
		p.i++
	}
	if p.i >= len(p.s) {
		return nil, false
	}
	if p.s[p.i] == '0' {
		p.i++
	} else if p.s[p.i] >= '1' && p.s[p.i] <= '9' {
		for p.i < len(p.s) && isDigit(p.s[p.i]) {
			p.i++
		}
	} else {
		return nil, false
	}
	isFloat := false
	if p.i < len(p.s) && p.s[p.i] == '.' {
		isFloat = true
		p.i++
		d := p.i
		for p.i < len(p.s) && isDigit(p.s[p.i]) {
			p.i++
		}
		if p.i == d {
			return nil, false
		}
	}
	if p.i < len(p.s) && (p.s[p.i] == 'e' || p.s[p.i] == 'E') {
		isFloat = true
		p.i++
		if p.i < len(p.s) && (p.s[p.i] == '+' || p.s[p.i] == '-') {
			p.i++
		}
		d := p.i
		for p.i < len(p.s) && isDigit(p.s[p.i]) {
			p.i++
		}
		if p.i == d {
			return nil, false
		}
	}
	if !p.atomEnd() {
		return nil, false
	}
	txt := p.s[st:p.i]
	if !isFloat {
		if i, err := strconv.ParseInt(txt, 10, 64); err == nil {
			return &jsonValue{kind: jInt64, i: i}, true
		}
		if u, err := strconv.ParseUint(txt, 10, 64); err == nil {
			return &jsonValue{kind: jUInt64, u: u}, true
		}
		// simdjson: integers that fit neither Int64 nor UInt64 are an error (BIGINT_ERROR)
		return nil, false
	}
	f, err := strconv.ParseFloat(txt, 64)
	if err != nil || math.IsInf(f, 0) {
		return nil, false // simdjson rejects numbers that overflow a double
	}
	return &jsonValue{kind: jDouble, f: f}, true
}

func (p *jsonParser) str() (string, bool) {
	p.i++ // opening quote
	var b strings.Builder
	for p.i < len(p.s) {
		c := p.s[p.i]
		switch {
		case c == '"':
			p.i++
			return b.String(), true
		case c < 0x20:
			return "", false
		case c == '\\':
			if p.i+1 >= len(p.s) {
				return "", false
			}
			e := p.s[p.i+1]
			p.i += 2
			switch e {
			case '"', '\\', '/':
				b.WriteByte(e)
			case 'b':
				b.WriteByte('\b')
			case 'f':
				b.WriteByte('\f')
			case 'n':
				b.WriteByte('\n')
			case 'r':
				b.WriteByte('\r')
			case 't':
				b.WriteByte('\t')
			case 'u':
				r, ok := p.hex4()
				if !ok {
					return "", false
				}
				if utf16.IsSurrogate(r) {
					// must be a valid pair, otherwise simdjson fails
					if r >= 0xDC00 || !strings.HasPrefix(p.s[p.i:], "\\u") {
						return "", false
					}
					p.i += 2
					r2, ok := p.hex4()
					if !ok || r2 < 0xDC00 || r2 > 0xDFFF {
						return "", false
					}
					r = utf16.DecodeRune(r, r2)
				}
				b.WriteRune(r)
			default:
				return "", false
			}
		default:
			b.WriteByte(c)
			p.i++
		}
	}
	return "", false
}

func (p *jsonParser) hex4() (rune, bool) {
	if p.i+4 > len(p.s) {
		return 0, false
	}
	v, err := strconv.ParseUint(p.s[p.i:p.i+4], 16, 32)
	if err != nil {
		return 0, false
	}
	p.i += 4
	return rune(v), true
}

// writeJSONString writes s as a JSON string literal the way ClickHouse's
// writeJSONString does (used by JSONExtractRaw / toJSONString).
func writeJSONString(b *strings.Builder, s string) {
	b.WriteByte('"')
	for i := 0; i < len(s); i++ {
		switch c := s[i]; c {
		case '\b':
			b.WriteString("\\b")
		case '\f':
			b.WriteString("\\f")
		case '\n':
			b.WriteString("\\n")
		case '\r':
			b.WriteString("\\r")
		case '\t':
			b.WriteString("\\t")
		case '\\':
			b.WriteString("\\\\")
		case '"':
			b.WriteString("\\\"")
		case '/':
			// output_format_json_escape_forward_slashes = 1 (default)
			b.WriteString("\\/")
		default:
			if c < 0x20 {
				b.WriteString("\\u00")
				b.WriteByte("0123456789ABCDEF"[c>>4])
				b.WriteByte("0123456789ABCDEF"[c&15])
			} else {
				b.WriteByte(c)
			}
		}
	}
	b.WriteByte('"')
}

// raw re-serialises an element compactly, as JSONExtractRaw does.
func (v *jsonValue) raw(b *strings.Builder) {
	switch v.kind {
	case jNull:
		b.WriteString("null")
	case jBool:
		if v.b {
			b.WriteString("true")
		} else {
			b.WriteString("false")
		}
	case jInt64:
		b.WriteString(strconv.FormatInt(v.i, 10))
	case jUInt64:
		b.WriteString(strconv.FormatUint(v.u, 10))
	case jDouble:
		b.WriteString(formatFloat(v.f))
	case jString:
		writeJSONString(b, v.s)
	case jArray:
		b.WriteByte('[')
		for i, e := range v.arr {
			if i > 0 {
				b.WriteByte(',')
			}
			e.raw(b)
		}
		b.WriteByte(']')
	case jObject:
		b.WriteByte('{')
		for i := range v.keys {
			if i > 0 {
				b.WriteByte(',')
			}
			writeJSONString(b, v.keys[i])
			b.WriteByte(':')
			v.vals[i].raw(b)
		}
		b.WriteByte('}')
	}
}

func (v *jsonValue) rawString() string {
	var b strings.Builder
	v.raw(&b)
	return b.String()
}

// jsonNavigate follows a path of keys (strings) and 1-based / negative indices.
// Integer indices on objects select the n-th member (ClickHouse semantics).
func jsonNavigate(v *jsonValue, path []any) (*jsonValue, bool, error) {
	for _, p := range path {
		switch k := p.(type) {
		case string:
			if v.kind != jObject {
				return nil, false, nil
			}
			found := false
			for i, key := range v.keys {
				if key == k {
					v, found = v.vals[i], true
					break
				}
			}
			if !found {
				return nil, false, nil
			}
		default:
			kk, ok := kindOf(p)
			if !ok || !kk.isInt {
				return nil, false, typeErrf("illegal type %s of a JSON path argument (must be a string or an integer)", typeNameOf(p))
			}
			idx := signExtendAny(p)
			var n int
			switch v.kind {
			case jArray:
				n = len(v.arr)
			case jObject:
				n = len(v.vals)
			default:
				return nil, false, nil
			}
			var pos int
			switch {
			case idx > 0 && idx <= int64(n):
				pos = int(idx - 1)
			case idx < 0 && -idx <= int64(n):
				pos = n + int(idx)
			default:
				return nil, false, nil
			}
			if v.kind == jArray {
				v = v.arr[pos]
			} else {
				v = v.vals[pos]
			}
		}
	}
	return v, true, nil
}

// jsonLookup parses args[0] and navigates args[1:].
func jsonLookup(fn string, args []any) (*jsonValue, bool, error) {
	s, ok := asString(args[0])
	if !ok {
		return nil, false, typeErrf("illegal type %s of the first argument of function %s (must be String)", typeNameOf(args[0]), fn)
	}
	for _, p := range args[1:] {
		if _, isStr := p.(string); isStr {
			continue
		}
		if k, ok := kindOf(p); ok && k.isInt {
			continue
		}
		return nil, false, typeErrf("illegal type %s of a JSON path argument of %s", typeNameOf(p), fn)
	}
	doc, ok := parseJSON(s)
	if !ok {
		return nil, false, nil
	}
	return jsonNavigate(doc, args[1:])
}

// jsonToStringNode: extraction with type 'String' inside JSONExtract /
// JSONExtractKeysAndValues: strings are unescaped, every other non-null value
// is returned as raw JSON, null is "no value".
func jsonToStringNode(v *jsonValue) (string, bool) {
	switch v.kind {
	case jNull:
		return "", false
	case jString:
		return v.s, true
	}
	return v.rawString(), true
}

func init() {
	reg("isValidJSON", 1, 1, func(_ *env, a []any) (any, error) {
		s, err := strArg("isValidJSON", a[0])
		if err != nil {
			return nil, err
		}
		_, ok := parseJSON(s)
		return boolVal(ok), nil
	})
	reg("JSONHas", 1, -1, func(_ *env, a []any) (any, error) {
		_, ok, err := jsonLookup("JSONHas", a)
		if err != nil {
			return nil, err
		}
		return boolVal(ok), nil
	})
	reg("JSONLength", 1, -1, func(_ *env, a []any) (any, error) {
		v, ok, err := jsonLookup("JSONLength", a)
		if err != nil {
			return nil, err
		}
		if !ok {
			return uint64(0), nil
		}
		switch v.kind {
		case jArray:
			return uint64(len(v.arr)), nil
		case jObject:
			return uint64(len(v.vals)), nil
		}
		return uint64(0), nil
	})
	// JSONType returns an Enum8; it is rendered here as its name (a String),
	// which is what comparisons with string literals see.
	reg("JSONType", 1, -1, func(_ *env, a []any) (any, error) {
		v, ok, err := jsonLookup("JSONType", a)
		if err != nil {
			return nil, err
		}
		if !ok {
			return "Null", nil
		}
		switch v.kind {
		case jBool:
			return "Bool", nil
		case jInt64:
			return "Int64", nil
		case jUInt64:
			return "UInt64", nil
		case jDouble:
			return "Double", nil
		case jString:
			return "String", nil
		case jArray:
			return "Array", nil
		case jObject:
			return "Object", nil
		}
		return "Null", nil
	})
	reg("JSONExtractString", 1, -1, func(_ *env, a []any) (any, error) {
		v, ok, err := jsonLookup("JSONExtractString", a)
		if err != nil {
			return nil, err
		}
		if !ok || v.kind != jString {
			return "", nil
		}
		return v.s, nil
	})
	reg("JSONExtractRaw", 1, -1, func(_ *env, a []any) (any, error) {
		v, ok, err := jsonLookup("JSONExtractRaw", a)
		if err != nil {
			return nil, err
		}
		if !ok {
			return "", nil
		}
		return v.rawString(), nil
	})
	num := func(name string, conv func(v *jsonValue) any, zero any) {
		reg(name, 1, -1, func(_ *env, a []any) (any, error) {
			v, ok, err := jsonLookup(name, a)
			if err != nil {
				return nil, err
			}
			if !ok {
				return zero, nil
			}
			r := conv(v)
			if r == nil {
				return zero, nil
			}
			return r, nil
		})
	}
	num("JSONExtractInt", func(v *jsonValue) any {
		switch v.kind {
		case jInt64:
			return v.i
		case jUInt64:
			if v.u <= math.MaxInt64 {
				return int64(v.u)
			}
		case jDouble:
			if v.f == math.Trunc(v.f) && math.Abs(v.f) < 9.2e18 {
				return int64(v.f)
			}
		case jBool:
			if v.b {
				return int64(1)
			}
			return int64(0)
		}
		return nil
	}, int64(0))
	num("JSONExtractUInt", func(v *jsonValue) any {
		switch v.kind {
		case jInt64:
			if v.i >= 0 {
				return uint64(v.i)
			}
		case jUInt64:
			return v.u
		case jDouble:
			if v.f == math.Trunc(v.f) && v.f >= 0 && v.f < 1.8e19 {
				return uint64(v.f)
			}
		case jBool:
			if v.b {
				return uint64(1)
			}
			return uint64(0)
		}
		return nil
	}, uint64(0))
	num("JSONExtractFloat", func(v *jsonValue) any {
		switch v.kind {
		case jInt64:
			return float64(v.i)
		case jUInt64:
			return float64(v.u)
		case jDouble:
			return v.f
		}
		return nil
	}, float64(0))
	num("JSONExtractBool", func(v *jsonValue) any {
		if v.kind == jBool {
			return boolVal(v.b)
		}
		return nil
	}, uint8(0))
	reg("JSONExtractKeys", 1, -1, func(_ *env, a []any) (any, error) {
		v, ok, err := jsonLookup("JSONExtractKeys", a)
		if err != nil {
			return nil, err
		}
		out := emptyArrayOf("")
		if ok && v.kind == jObject {
			for _, k := range v.keys {
				out = append(out, k)
			}
		}
		return out, nil
	})
	reg("JSONExtractArrayRaw", 1, -1, func(_ *env, a []any) (any, error) {
		v, ok, err := jsonLookup("JSONExtractArrayRaw", a)
		if err != nil {
			return nil, err
		}
		out := emptyArrayOf("")
		if ok && v.kind == jArray {
			for _, e := range v.arr {
				out = append(out, e.rawString())
			}
		}
		return out, nil
	})
	reg("JSONExtractKeysAndValuesRaw", 1, -1, func(_ *env, a []any) (any, error) {
		v, ok, err := jsonLookup("JSONExtractKeysAndValuesRaw", a)
		if err != nil {
			return nil, err
		}
		out := emptyArrayOf(Tuple{"", ""})
		if ok && v.kind == jObject {
			for i, k := range v.keys {
				out = append(out, Tuple{k, v.vals[i].rawString()})
			}
		}
		return out, nil
	})
	// JSONExtractKeysAndValues(json[, path...], 'String'): only the String value
	// type is implemented.
	reg("JSONExtractKeysAndValues", 2, -1, func(_ *env, a []any) (any, error) {
		tn, ok := a[len(a)-1].(string)
		if !ok {
			return nil, typeErrf("the last argument of JSONExtractKeysAndValues must be a type name")
		}
		if tn != "String" {
			return nil, unsupportedf("JSONExtractKeysAndValues with value type %s", tn)
		}
		v, found, err := jsonLookup("JSONExtractKeysAndValues", a[:len(a)-1])
		if err != nil {
			return nil, err
		}
		out := emptyArrayOf(Tuple{"", ""})
		if found && v.kind == jObject {
			for i, k := range v.keys {
				// a pair is produced only when the value can be extracted
				// (a JSON null cannot be extracted as String)
				if s, ok := jsonToStringNode(v.vals[i]); ok {
					out = append(out, Tuple{k, s})
				}
			}
		}
		return out, nil
	})
	reg("JSONExtract", 2, -1, func(_ *env, a []any) (any, error) {
		tn, ok := a[len(a)-1].(string)
		if !ok {
			return nil, typeErrf("the last argument of JSONExtract must be a type name")
		}
		v, found, err := jsonLookup("JSONExtract", a[:len(a)-1])
		if err != nil {
			return nil, err
		}
		switch tn {
		case "String":
			if !found {
				return "", nil
			}
			s, _ := jsonToStringNode(v)
			return s, nil
		}
		return nil, unsupportedf("JSONExtract with return type %s", tn)
	})
	for _, n := range []string{"visitParamHas", "visitParamExtractUInt", "visitParamExtractInt", "visitParamExtractFloat",
		"visitParamExtractBool", "visitParamExtractRaw", "visitParamExtractString", "simpleJSONHas", "simpleJSONExtractString",
		"simpleJSONExtractRaw", "simpleJSONExtractUInt", "simpleJSONExtractInt", "simpleJSONExtractFloat", "simpleJSONExtractBool",
		"JSON_VALUE", "JSON_QUERY", "JSON_EXISTS", "toJSONString"} {
		name := n
		regNull(name, 0, -1, func(*env, []any) (any, error) { return nil, unsupportedf("function %s", name) })
	}
}

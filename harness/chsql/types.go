package chsql

import (
	"fmt"
	"math"
	"sort"
	"strconv"
	"strings"
	"time"
)

// ---------------------------------------------------------------------------
// Value model
//
// Inside the engine a value is one of
//
//	nil                          NULL
//	uint8 uint16 uint32 uint64   UInt8 .. UInt64   (Bool is uint8)
//	int8 int16 int32 int64       Int8 .. Int64
//	float64                      Float64 (Float32 columns are widened on insert)
//	string                       String / FixedString(N) (raw bytes)
//	Date                         Date   (days since 1970-01-01)
//	DateTime                     DateTime (seconds since epoch, UTC)
//	[]any                        Array(T)
//	Tuple                        Tuple(...)
//	*Map                         Map(K, V) (insertion ordered, as in ClickHouse)
//	*AggState                    AggregateFunction(...) state
//	Interval                     INTERVAL n UNIT
//
// The exact integer width is kept because ClickHouse's result types (and hence
// overflow behaviour) depend on it. Values handed to callers in Result.Rows are
// normalised: all UInt* -> uint64, all Int* -> int64, Map(String,String) ->
// map[string]string; see normalizeOut.
// ---------------------------------------------------------------------------

// Date is a ClickHouse Date: days since 1970-01-01 (UInt16 range).
type Date uint16

// DateTime is a ClickHouse DateTime: seconds since the epoch (UInt32 range), rendered in UTC.
type DateTime uint32

// DateTime64 is a ClickHouse DateTime64(scale) value: ticks since the epoch at
// the scale of its column (only storage, comparison and argMin/argMax keys are
// supported for this type).
type DateTime64 int64

// Tuple is a ClickHouse Tuple value.
type Tuple []any

// Map is a ClickHouse Map value. ClickHouse stores a map as an array of
// (key, value) pairs in insertion order; duplicates are possible in principle.
type Map struct {
	Keys []any
	Vals []any
}

// Get returns the value of the first entry with the given key.
func (m *Map) Get(k any) (any, bool) {
	for i, kk := range m.Keys {
		if c, err := compareValues(kk, k); err == nil && c == 0 {
			return m.Vals[i], true
		}
	}
	return nil, false
}

// Interval is the value of an INTERVAL expression.
type Interval struct {
	N    int64
	Unit string // SECOND, MINUTE, HOUR, DAY, WEEK, MONTH, QUARTER, YEAR, ...
}

func (d Date) String() string {
	return time.Unix(int64(d)*86400, 0).UTC().Format("2006-01-02")
}
func (d DateTime) String() string {
	return time.Unix(int64(d), 0).UTC().Format("2006-01-02 15:04:05")
}

// NewMapFromGo builds an ordered Map from a Go map (keys sorted, for determinism).
func NewMapFromGo(m map[string]string) *Map {
	keys := make([]string, 0, len(m))
	for k := range m {
		keys = append(keys, k)
	}
	sort.Strings(keys)
	r := &Map{}
	for _, k := range keys {
		r.Keys = append(r.Keys, k)
		r.Vals = append(r.Vals, m[k])
	}
	return r
}

// ---------------------------------------------------------------------------
// Type descriptions
// ---------------------------------------------------------------------------

// Type is a parsed ClickHouse type name.
type Type struct {
	Name  string // UInt8, String, Array, Tuple, Map, Nullable, FixedString, AggregateFunction, ...
	Args  []*Type
	Names []string // element names of a named Tuple (parallel to Args) or nil
	Lit   string   // literal argument: N of FixedString(N), function name of AggregateFunction(fn, ...)
}

func (t *Type) String() string {
	if t == nil {
		return ""
	}
	switch t.Name {
	case "FixedString", "DateTime64", "Decimal":
		return t.Name + "(" + t.Lit + ")"
	case "AggregateFunction", "SimpleAggregateFunction":
		parts := []string{t.Lit}
		for _, a := range t.Args {
			parts = append(parts, a.String())
		}
		return t.Name + "(" + strings.Join(parts, ", ") + ")"
	}
	if len(t.Args) == 0 {
		return t.Name
	}
	parts := make([]string, len(t.Args))
	for i, a := range t.Args {
		parts[i] = a.String()
		if t.Names != nil && t.Names[i] != "" {
			parts[i] = t.Names[i] + " " + parts[i]
		}
	}
	return t.Name + "(" + strings.Join(parts, ", ") + ")"
}

// ParseType parses a ClickHouse type name such as "Array(Tuple(String, String))".
func ParseType(s string) (*Type, error) {
	tp := &typeParser{s: s}
	t, err := tp.parse()
	if err != nil {
		return nil, err
	}
	tp.ws()
	if tp.i != len(tp.s) {
		return nil, badArgf("bad type name %q", s)
	}
	return t, nil
}

type typeParser struct {
	s string
	i int
}

func (p *typeParser) ws() {
	for p.i < len(p.s) && isWhitespace(p.s[p.i]) {
		p.i++
	}
}
func (p *typeParser) word() string {
	p.ws()
	st := p.i
	for p.i < len(p.s) && isWordChar(p.s[p.i]) {
		p.i++
	}
	return p.s[st:p.i]
}

func (p *typeParser) parse() (*Type, error) {
	name := p.word()
	if name == "" {
		return nil, badArgf("bad type name %q", p.s)
	}
	t := &Type{Name: canonicalTypeName(name)}
	p.ws()
	if p.i >= len(p.s) || p.s[p.i] != '(' {
		return t, nil
	}
	p.i++
	switch t.Name {
	case "FixedString", "DateTime64", "Decimal", "DateTime", "Enum8", "Enum16":
		st := p.i
		depth := 1
		for p.i < len(p.s) && depth > 0 {
			if p.s[p.i] == '(' {
				depth++
			} else if p.s[p.i] == ')' {
				depth--
			}
			p.i++
		}
		if depth != 0 {
			return nil, badArgf("bad type name %q", p.s)
		}
		t.Lit = strings.TrimSpace(p.s[st : p.i-1])
		return t, nil
	case "AggregateFunction", "SimpleAggregateFunction":
		fn := p.word()
		t.Lit = fn
		p.ws()
		// parametric aggregate inside the type, e.g. quantile(0.5)
		if p.i < len(p.s) && p.s[p.i] == '(' {
			st := p.i
			for p.i < len(p.s) && p.s[p.i] != ')' {
				p.i++
			}
			p.i++
			t.Lit += p.s[st:p.i]
			p.ws()
		}
		for p.i < len(p.s) && p.s[p.i] == ',' {
			p.i++
			a, err := p.parse()
			if err != nil {
				return nil, err
			}
			t.Args = append(t.Args, a)
			p.ws()
		}
	default:
		for {
			p.ws()
			// named tuple element: "name Type"
			save := p.i
			w := p.word()
			p.ws()
			elemName := ""
			if t.Name == "Tuple" && w != "" && p.i < len(p.s) && isWordStart(p.s[p.i]) {
				elemName = w
			} else {
				p.i = save
			}
			a, err := p.parse()
			if err != nil {
				return nil, err
			}
			t.Args = append(t.Args, a)
			if t.Name == "Tuple" {
				t.Names = append(t.Names, elemName)
			}
			p.ws()
			if p.i < len(p.s) && p.s[p.i] == ',' {
				p.i++
				continue
			}
			break
		}
	}
	p.ws()
	if p.i >= len(p.s) || p.s[p.i] != ')' {
		return nil, badArgf("bad type name %q", p.s)
	}
	p.i++
	if t.Names != nil {
		named := false
		for _, n := range t.Names {
			named = named || n != ""
		}
		if !named {
			t.Names = nil
		}
	}
	return t, nil
}

func canonicalTypeName(n string) string {
	switch strings.ToLower(n) {
	case "uint8":
		return "UInt8"
	case "uint16":
		return "UInt16"
	case "uint32":
		return "UInt32"
	case "uint64":
		return "UInt64"
	case "int8", "tinyint":
		return "Int8"
	case "int16", "smallint":
		return "Int16"
	case "int32", "int", "integer":
		return "Int32"
	case "int64", "bigint":
		return "Int64"
	case "float32", "float":
		return "Float32"
	case "float64", "double":
		return "Float64"
	case "string", "text", "varchar":
		return "String"
	case "bool", "boolean":
		return "Bool"
	}
	return n
}

func mustType(s string) *Type {
	t, err := ParseType(s)
	if err != nil {
		panic(err)
	}
	return t
}

// defaultValue returns the default (zero) value of a type, as ClickHouse fills
// it e.g. for non-matched rows of a LEFT JOIN with join_use_nulls=0.
func defaultValue(t *Type) (any, error) {
	switch t.Name {
	case "UInt8", "Bool":
		return uint8(0), nil
	case "UInt16":
		return uint16(0), nil
	case "UInt32":
		return uint32(0), nil
	case "UInt64":
		return uint64(0), nil
	case "Int8":
		return int8(0), nil
	case "Int16":
		return int16(0), nil
	case "Int32":
		return int32(0), nil
	case "Int64":
		return int64(0), nil
	case "Float32", "Float64":
		return float64(0), nil
	case "String":
		return "", nil
	case "FixedString":
		n, err := strconv.Atoi(t.Lit)
		if err != nil {
			return nil, badArgf("bad FixedString length %q", t.Lit)
		}
		return FixedString(strings.Repeat("\x00", n)), nil
	case "Date":
		return Date(0), nil
	case "DateTime":
		if t.Lit != "" && !strings.HasPrefix(t.Lit, "'") {
			return nil, unsupportedf("type %s", t)
		}
		return DateTime(0), nil
	case "DateTime64":
		return DateTime64(0), nil
	case "Array":
		return emptyArrayOf(sampleValue(t.Args[0])), nil
	case "Map":
		return &Map{Keys: emptyArrayOf(sampleValue(t.Args[0])), Vals: emptyArrayOf(sampleValue(t.Args[1]))}, nil
	case "Tuple":
		tp := make(Tuple, len(t.Args))
		for i, a := range t.Args {
			v, err := defaultValue(a)
			if err != nil {
				return nil, err
			}
			tp[i] = v
		}
		return tp, nil
	case "Nullable":
		return nil, nil
	case "LowCardinality":
		return defaultValue(t.Args[0])
	case "SimpleAggregateFunction":
		if len(t.Args) == 1 {
			return defaultValue(t.Args[0])
		}
	case "AggregateFunction":
		return newEmptyState(t)
	}
	return nil, unsupportedf("default value of type %s", t.String())
}

// zeroLike returns the default value of the (dynamic) type of v.
func zeroLike(v any) any {
	switch x := v.(type) {
	case nil:
		return nil
	case uint8:
		return uint8(0)
	case uint16:
		return uint16(0)
	case uint32:
		return uint32(0)
	case uint64:
		return uint64(0)
	case int8:
		return int8(0)
	case int16:
		return int16(0)
	case int32:
		return int32(0)
	case int64:
		return int64(0)
	case float64:
		return float64(0)
	case string:
		return ""
	case FixedString:
		return FixedString(strings.Repeat("\x00", len(x)))
	case Date:
		return Date(0)
	case DateTime:
		return DateTime(0)
	case DateTime64:
		return DateTime64(0)
	case []any:
		return emptyArrayOf(elemHint(x))
	case *Map:
		return &Map{Keys: emptyArrayOf(elemHint(x.Keys)), Vals: emptyArrayOf(elemHint(x.Vals))}
	case Tuple:
		t := make(Tuple, len(x))
		for i, e := range x {
			t[i] = zeroLike(e)
		}
		return t
	case *AggState:
		return x.emptyLike()
	}
	return nil
}

// typeNameOf renders the ClickHouse type name of a dynamic value (best effort:
// empty arrays / maps and NULLs carry no element type).
func typeNameOf(v any) string {
	switch x := v.(type) {
	case nil:
		return "Nullable(Nothing)"
	case uint8:
		return "UInt8"
	case uint16:
		return "UInt16"
	case uint32:
		return "UInt32"
	case uint64:
		return "UInt64"
	case int8:
		return "Int8"
	case int16:
		return "Int16"
	case int32:
		return "Int32"
	case int64:
		return "Int64"
	case float64:
		return "Float64"
	case string:
		return "String"
	case FixedString:
		return "FixedString(" + strconv.Itoa(len(x)) + ")"
	case Date:
		return "Date"
	case DateTime:
		return "DateTime"
	case DateTime64:
		return "DateTime64"
	case Interval:
		u := strings.ToLower(x.Unit)
		if u != "" {
			u = strings.ToUpper(u[:1]) + u[1:]
		}
		return "Interval" + u
	case []any:
		h := elemHint(x)
		for _, el := range x {
			if el != nil {
				h = el
				break
			}
		}
		if h == nil {
			if len(x) > 0 {
				return "Array(Nullable(Nothing))"
			}
			return "Array(Nothing)"
		}
		return "Array(" + typeNameOf(h) + ")"
	case Tuple:
		p := make([]string, len(x))
		for i, e := range x {
			p[i] = typeNameOf(e)
		}
		return "Tuple(" + strings.Join(p, ", ") + ")"
	case *Map:
		k, v := elemHint(x.Keys), elemHint(x.Vals)
		if k == nil || v == nil {
			return "Map(String, String)"
		}
		return "Map(" + typeNameOf(k) + ", " + typeNameOf(v) + ")"
	case *AggState:
		return x.typeName()
	}
	return fmt.Sprintf("%T", v)
}

// ---------------------------------------------------------------------------
// Conversions of Go values given by callers (Insert) into engine values
// ---------------------------------------------------------------------------

func coerceToType(v any, t *Type) (any, error) {
	if v == nil {
		if t.Name == "Nullable" {
			return nil, nil
		}
		return nil, badArgf("NULL for non-Nullable type %s", t)
	}
	switch t.Name {
	case "Nullable", "LowCardinality":
		return coerceToType(v, t.Args[0])
	case "SimpleAggregateFunction":
		if len(t.Args) == 1 {
			return coerceToType(v, t.Args[0])
		}
	case "AggregateFunction":
		if s, ok := v.(*AggState); ok {
			return s, nil
		}
		return nil, badArgf("value %T for %s: want *AggState", v, t)
	case "UInt8", "Bool", "UInt16", "UInt32", "UInt64", "Int8", "Int16", "Int32", "Int64":
		if b, ok := v.(bool); ok {
			if b {
				v = uint8(1)
			} else {
				v = uint8(0)
			}
		}
		i, u, neg, ok := intParts(v)
		if !ok {
			if f, isF := v.(float64); isF && f == math.Trunc(f) {
				return convertInt(t.Name, int64(f), uint64(f), f < 0, true)
			}
			return nil, badArgf("value %T(%v) for %s", v, v, t)
		}
		return convertInt(t.Name, i, u, neg, true)
	case "Float32", "Float64":
		switch x := v.(type) {
		case float64:
			return x, nil
		case float32:
			return float64(x), nil
		}
		if i, u, neg, ok := intParts(v); ok {
			if neg {
				return float64(i), nil
			}
			return float64(u), nil
		}
	case "String":
		switch x := v.(type) {
		case string:
			return x, nil
		case []byte:
			return string(x), nil
		}
	case "FixedString":
		n, _ := strconv.Atoi(t.Lit)
		var s string
		switch x := v.(type) {
		case string:
			s = x
		case FixedString:
			s = string(x)
		case []byte:
			s = string(x)
		default:
			return nil, badArgf("value %T for %s", v, t)
		}
		if len(s) > n {
			return nil, badArgf("string of length %d too long for %s", len(s), t)
		}
		return FixedString(s + strings.Repeat("\x00", n-len(s))), nil
	case "Date":
		switch x := v.(type) {
		case Date:
			return x, nil
		case time.Time:
			return Date(x.Unix() / 86400), nil
		case string:
			return parseDate(x)
		}
		if _, u, neg, ok := intParts(v); ok && !neg {
			return Date(u), nil
		}
	case "DateTime64":
		scale := 3
		if f := strings.Split(t.Lit, ","); len(f) > 0 {
			if n, err := strconv.Atoi(strings.TrimSpace(f[0])); err == nil && n >= 0 && n <= 9 {
				scale = n
			}
		}
		switch x := v.(type) {
		case DateTime64:
			return x, nil
		case time.Time:
			ticks := x.Unix()
			for i := 0; i < scale; i++ {
				ticks *= 10
			}
			frac := int64(x.Nanosecond())
			for i := scale; i < 9; i++ {
				frac /= 10
			}
			return DateTime64(ticks + frac), nil
		}
		if i, u, neg, ok := intParts(v); ok {
			if neg {
				return DateTime64(i), nil
			}
			return DateTime64(u), nil
		}
	case "DateTime":
		switch x := v.(type) {
		case DateTime:
			return x, nil
		case time.Time:
			return DateTime(x.Unix()), nil
		case string:
			return parseDateTime(x)
		}
		if _, u, neg, ok := intParts(v); ok && !neg {
			return DateTime(u), nil
		}
	case "Array":
		var in []any
		switch x := v.(type) {
		case []any:
			in = x
		case []string:
			for _, e := range x {
				in = append(in, e)
			}
		case []uint64:
			for _, e := range x {
				in = append(in, e)
			}
		case []int64:
			for _, e := range x {
				in = append(in, e)
			}
		case []float64:
			for _, e := range x {
				in = append(in, e)
			}
		case [][]any:
			for _, e := range x {
				in = append(in, e)
			}
		case []Tuple:
			for _, e := range x {
				in = append(in, e)
			}
		default:
			return nil, badArgf("value %T for %s", v, t)
		}
		out := emptyArrayOf(sampleValue(t.Args[0]))
		for _, e := range in {
			c, err := coerceToType(e, t.Args[0])
			if err != nil {
				return nil, err
			}
			out = append(out, c)
		}
		return out, nil
	case "Tuple":
		var in []any
		switch x := v.(type) {
		case Tuple:
			in = x
		case []any:
			in = x
		default:
			return nil, badArgf("value %T for %s", v, t)
		}
		if len(in) != len(t.Args) {
			return nil, badArgf("tuple of %d elements for %s", len(in), t)
		}
		out := make(Tuple, len(in))
		for i, e := range in {
			c, err := coerceToType(e, t.Args[i])
			if err != nil {
				return nil, err
			}
			out[i] = c
		}
		return out, nil
	case "Map":
		var m *Map
		switch x := v.(type) {
		case *Map:
			m = x
		case map[string]string:
			m = NewMapFromGo(x)
		default:
			return nil, badArgf("value %T for %s", v, t)
		}
		out := &Map{Keys: emptyArrayOf(sampleValue(t.Args[0])), Vals: emptyArrayOf(sampleValue(t.Args[1]))}
		for i := range m.Keys {
			k, err := coerceToType(m.Keys[i], t.Args[0])
			if err != nil {
				return nil, err
			}
			val, err := coerceToType(m.Vals[i], t.Args[1])
			if err != nil {
				return nil, err
			}
			out.Keys = append(out.Keys, k)
			out.Vals = append(out.Vals, val)
		}
		return out, nil
	}
	return nil, badArgf("cannot store %T(%v) in a column of type %s", v, v, t)
}

// intParts decomposes any Go integer value.
func intParts(v any) (i int64, u uint64, neg bool, ok bool) {
	switch x := v.(type) {
	case uint8:
		return int64(x), uint64(x), false, true
	case uint16:
		return int64(x), uint64(x), false, true
	case uint32:
		return int64(x), uint64(x), false, true
	case uint64:
		return int64(x), x, false, true
	case uint:
		return int64(x), uint64(x), false, true
	case int8:
		return int64(x), uint64(x), x < 0, true
	case int16:
		return int64(x), uint64(x), x < 0, true
	case int32:
		return int64(x), uint64(x), x < 0, true
	case int64:
		return x, uint64(x), x < 0, true
	case int:
		return int64(x), uint64(x), x < 0, true
	}
	return 0, 0, false, false
}

// convertInt converts an integer to the named integer type. With check it fails
// on overflow; without it wraps like a C++ static_cast.
func convertInt(name string, i int64, u uint64, neg bool, check bool) (any, error) {
	fits := func(lo int64, hi uint64) bool {
		if neg {
			return i >= lo
		}
		return u <= hi
	}
	var ok bool
	var r any
	switch name {
	case "UInt8", "Bool":
		ok, r = fits(0, math.MaxUint8), uint8(u)
	case "UInt16":
		ok, r = fits(0, math.MaxUint16), uint16(u)
	case "UInt32":
		ok, r = fits(0, math.MaxUint32), uint32(u)
	case "UInt64":
		ok, r = fits(0, math.MaxUint64), u
	case "Int8":
		ok, r = fits(math.MinInt8, math.MaxInt8), int8(u)
	case "Int16":
		ok, r = fits(math.MinInt16, math.MaxInt16), int16(u)
	case "Int32":
		ok, r = fits(math.MinInt32, math.MaxInt32), int32(u)
	case "Int64":
		ok, r = fits(math.MinInt64, math.MaxInt64), int64(u)
	default:
		return nil, badArgf("not an integer type: %s", name)
	}
	if check && !ok {
		if neg {
			return nil, badArgf("value %d out of range of %s", i, name)
		}
		return nil, badArgf("value %d out of range of %s", u, name)
	}
	return r, nil
}

func parseDate(s string) (Date, error) {
	t, err := time.Parse("2006-01-02", s)
	if err != nil {
		return 0, badArgf("cannot parse %q as Date", s)
	}
	d := t.Unix() / 86400
	if d < 0 || d > math.MaxUint16 {
		return 0, badArgf("date %q out of range", s)
	}
	return Date(d), nil
}

func parseDateTime(s string) (DateTime, error) {
	for _, layout := range []string{"2006-01-02 15:04:05", "2006-01-02T15:04:05", "2006-01-02"} {
		if t, err := time.Parse(layout, s); err == nil {
			u := t.Unix()
			if u < 0 || u > math.MaxUint32 {
				return 0, badArgf("datetime %q out of range", s)
			}
			return DateTime(u), nil
		}
	}
	// unix timestamp given as a string of digits
	if isAllDigits(s) && len(s) <= 10 {
		u, _ := strconv.ParseUint(s, 10, 64)
		if u <= math.MaxUint32 {
			return DateTime(u), nil
		}
	}
	return 0, badArgf("cannot parse %q as DateTime", s)
}

// normalizeOut converts an engine value to the representation promised to
// callers of Query.
func normalizeOut(v any) any {
	switch x := v.(type) {
	case uint8:
		return uint64(x)
	case uint16:
		return uint64(x)
	case uint32:
		return uint64(x)
	case int8:
		return int64(x)
	case int16:
		return int64(x)
	case int32:
		return int64(x)
	case []any:
		out := make([]any, len(x))
		for i, e := range x {
			out[i] = normalizeOut(e)
		}
		return out
	case Tuple:
		out := make(Tuple, len(x))
		for i, e := range x {
			out[i] = normalizeOut(e)
		}
		return out
	case *Map:
		m := make(map[string]string, len(x.Keys))
		for i := range x.Keys {
			k, ok1 := x.Keys[i].(string)
			val, ok2 := x.Vals[i].(string)
			if !ok1 || !ok2 {
				// not a Map(String,String): hand out the ordered map itself
				o := &Map{}
				for j := range x.Keys {
					o.Keys = append(o.Keys, normalizeOut(x.Keys[j]))
					o.Vals = append(o.Vals, normalizeOut(x.Vals[j]))
				}
				return o
			}
			if _, dup := m[k]; !dup { // first entry wins, as map['k'] does
				m[k] = val
			}
		}
		return m
	}
	return v
}

// ---------------------------------------------------------------------------
// Numeric helpers
// ---------------------------------------------------------------------------

type numKind struct {
	isInt   bool
	isFloat bool
	signed  bool
	size    int // bytes
}

func kindOf(v any) (numKind, bool) {
	switch v.(type) {
	case uint8:
		return numKind{isInt: true, size: 1}, true
	case uint16:
		return numKind{isInt: true, size: 2}, true
	case uint32:
		return numKind{isInt: true, size: 4}, true
	case uint64:
		return numKind{isInt: true, size: 8}, true
	case int8:
		return numKind{isInt: true, signed: true, size: 1}, true
	case int16:
		return numKind{isInt: true, signed: true, size: 2}, true
	case int32:
		return numKind{isInt: true, signed: true, size: 4}, true
	case int64:
		return numKind{isInt: true, signed: true, size: 8}, true
	case float64:
		return numKind{isFloat: true, signed: true, size: 8}, true
	}
	return numKind{}, false
}

func isNumber(v any) bool { _, ok := kindOf(v); return ok }

func intTypeName(signed bool, size int) string {
	if size > 8 {
		size = 8
	}
	n := strconv.Itoa(size * 8)
	if signed {
		return "Int" + n
	}
	return "UInt" + n
}

// makeInt builds an integer of the given signedness / size from 64-bit two's
// complement bits (wrapping, like a C++ static_cast).
func makeInt(signed bool, size int, bits uint64) any {
	v, _ := convertInt(intTypeName(signed, size), int64(bits), bits, false, false)
	return v
}

func toFloat(v any) (float64, bool) {
	switch x := v.(type) {
	case float64:
		return x, true
	}
	if i, u, neg, ok := intParts(v); ok {
		if neg {
			return float64(i), true
		}
		return float64(u), true
	}
	return 0, false
}

// toBits returns the 64-bit two's complement representation (sign extended).
func toBits(v any) (uint64, bool) {
	_, u, _, ok := intParts(v)
	return u, ok
}

// literalValue narrows a parsed literal to the smallest ClickHouse type, as
// ClickHouse does: 1 -> UInt8, 256 -> UInt16, -1 -> Int8, ...
func literalValue(v any) any {
	switch x := v.(type) {
	case uint64:
		switch {
		case x <= math.MaxUint8:
			return uint8(x)
		case x <= math.MaxUint16:
			return uint16(x)
		case x <= math.MaxUint32:
			return uint32(x)
		}
		return x
	case int64:
		switch {
		case x >= 0:
			return literalValue(uint64(x))
		case x >= math.MinInt8:
			return int8(x)
		case x >= math.MinInt16:
			return int16(x)
		case x >= math.MinInt32:
			return int32(x)
		}
		return x
	case bool:
		if x {
			return uint8(1)
		}
		return uint8(0)
	}
	return v
}

// ---------------------------------------------------------------------------
// Comparison
// ---------------------------------------------------------------------------

// compareValues orders two non-NULL values of comparable types. It returns
// ErrType when ClickHouse has no common type for them (String vs number ...).
// NULL handling is the caller's business (nil compares equal to nil and less
// than anything here, which is only used for sorting helpers).
func compareValues(a, b any) (int, error) {
	if a == nil || b == nil {
		switch {
		case a == nil && b == nil:
			return 0, nil
		case a == nil:
			return -1, nil
		}
		return 1, nil
	}
	ka, na := kindOf(a)
	kb, nb := kindOf(b)
	if na && nb {
		return compareNumbers(a, b, ka, kb), nil
	}
	_, fa := a.(FixedString)
	_, fb := b.(FixedString)
	if fa || fb {
		// FixedString vs String / FixedString: zero padded comparison
		sa, oka := asString(a)
		sb, okb := asString(b)
		if oka && okb {
			return strings.Compare(trimZeros(sa), trimZeros(sb)), nil
		}
	}
	switch x := a.(type) {
	case string:
		if y, ok := b.(string); ok {
			return strings.Compare(x, y), nil
		}
	case Date:
		switch y := b.(type) {
		case Date:
			return cmpOrdered(uint64(x), uint64(y)), nil
		case DateTime:
			return cmpOrdered(uint64(x)*86400, uint64(y)), nil
		}
		if nb { // ClickHouse compares Date with numbers numerically
			return compareNumbers(uint16(x), b, numKind{isInt: true, size: 2}, kb), nil
		}
	case DateTime64:
		if y, ok := b.(DateTime64); ok {
			return cmpOrdered(int64(x), int64(y)), nil
		}
		return 0, unsupportedf("comparison of DateTime64 with %s", typeNameOf(b))
	case DateTime:
		switch y := b.(type) {
		case DateTime:
			return cmpOrdered(uint64(x), uint64(y)), nil
		case Date:
			return cmpOrdered(uint64(x), uint64(y)*86400), nil
		}
		if nb {
			return compareNumbers(uint32(x), b, numKind{isInt: true, size: 4}, kb), nil
		}
	case []any:
		if y, ok := b.([]any); ok {
			return compareSeq(x, y, true)
		}
	case Tuple:
		if y, ok := b.(Tuple); ok {
			if len(x) != len(y) {
				return 0, typeErrf("cannot compare tuples of different sizes (%d and %d)", len(x), len(y))
			}
			return compareSeq(x, y, false)
		}
	case *Map:
		// ColumnMap::compareAt delegates to the nested Array(Tuple(K,V)).
		if y, ok := b.(*Map); ok {
			return compareSeq(mapPairs(x), mapPairs(y), true)
		}
	}
	if na {
		switch y := b.(type) {
		case Date:
			return compareNumbers(a, uint16(y), ka, numKind{isInt: true, size: 2}), nil
		case DateTime:
			return compareNumbers(a, uint32(y), ka, numKind{isInt: true, size: 4}), nil
		}
	}
	return 0, typeErrf("no common type to compare %s with %s", typeNameOf(a), typeNameOf(b))
}

func mapPairs(m *Map) []any {
	out := make([]any, len(m.Keys))
	for i := range m.Keys {
		out[i] = Tuple{m.Keys[i], m.Vals[i]}
	}
	return out
}

func compareSeq(x, y []any, lengthMatters bool) (int, error) {
	n := len(x)
	if len(y) < n {
		n = len(y)
	}
	for i := 0; i < n; i++ {
		c, err := compareValues(x[i], y[i])
		if err != nil {
			return 0, err
		}
		if c != 0 {
			return c, nil
		}
	}
	if lengthMatters {
		return cmpOrdered(uint64(len(x)), uint64(len(y))), nil
	}
	return 0, nil
}

func cmpOrdered[T uint64 | int64 | float64](a, b T) int {
	switch {
	case a < b:
		return -1
	case a > b:
		return 1
	}
	return 0
}

// compareNumbers compares numerically exact (ClickHouse uses accurate
// comparison for mixed signed / unsigned / float operands).
func compareNumbers(a, b any, ka, kb numKind) int {
	if ka.isFloat || kb.isFloat {
		if ka.isFloat && kb.isFloat {
			return cmpFloat(a.(float64), b.(float64))
		}
		// int vs float: accurate comparison
		if ka.isFloat {
			return -cmpIntFloat(b, a.(float64))
		}
		return cmpIntFloat(a, b.(float64))
	}
	ia, ua, nega, _ := intParts(a)
	ib, ub, negb, _ := intParts(b)
	switch {
	case nega && negb:
		return cmpOrdered(ia, ib)
	case nega:
		return -1
	case negb:
		return 1
	}
	return cmpOrdered(ua, ub)
}

// cmpFloat: NaN compares as not less / not greater / not equal in ClickHouse
// comparison functions; for ordering purposes here NaN is treated as greater
// than everything (nan_direction_hint = 1, the ORDER BY default).
func cmpFloat(a, b float64) int {
	an, bn := math.IsNaN(a), math.IsNaN(b)
	switch {
	case an && bn:
		return 0
	case an:
		return 1
	case bn:
		return -1
	}
	return cmpOrdered(a, b)
}

func cmpIntFloat(iv any, f float64) int {
	if math.IsNaN(f) {
		return -1
	}
	i, u, neg, _ := intParts(iv)
	if math.IsInf(f, 1) {
		return -1
	}
	if math.IsInf(f, -1) {
		return 1
	}
	if neg {
		if f >= 0 {
			return -1
		}
		if f < -9.3e18 {
			return 1
		}
		ft := math.Trunc(f)
		c := cmpOrdered(i, int64(ft))
		if c != 0 {
			return c
		}
		return cmpOrdered(0, f-ft) // i == trunc(f): compare fractional part (f negative: f-ft <= 0)
	}
	if f < 0 {
		return 1
	}
	if f >= 1.8446744073709552e19 {
		return -1
	}
	ft := math.Trunc(f)
	c := cmpOrdered(u, uint64(ft))
	if c != 0 {
		return c
	}
	return cmpOrdered(0, f-ft)
}

// valuesEqual is equality used for grouping / DISTINCT / IN sets: NULL equals
// NULL here; NaN equals NaN (ClickHouse groups NaNs together).
func valuesEqual(a, b any) bool {
	if a == nil || b == nil {
		return a == nil && b == nil
	}
	c, err := compareValues(a, b)
	return err == nil && c == 0
}

// hashKey renders a value into a string usable as a Go map key such that
// values that are equal for GROUP BY / DISTINCT / IN purposes (after numeric
// widening) get the same key.
func hashKey(v any) string {
	var b strings.Builder
	writeHashKey(&b, v)
	return b.String()
}

func writeHashKey(b *strings.Builder, v any) {
	switch x := v.(type) {
	case nil:
		b.WriteString("N;")
	case string:
		b.WriteString("s")
		b.WriteString(strconv.Itoa(len(x)))
		b.WriteByte(':')
		b.WriteString(x)
	case FixedString:
		writeHashKey(b, string(x))
	case float64:
		if x == math.Trunc(x) && math.Abs(x) < 9e15 {
			// integral floats key like integers so that 1 and 1.0 meet
			if x < 0 {
				b.WriteString("i" + strconv.FormatInt(int64(x), 10) + ";")
			} else {
				b.WriteString("i" + strconv.FormatUint(uint64(x), 10) + ";")
			}
			return
		}
		b.WriteString("f" + strconv.FormatFloat(x, 'g', -1, 64) + ";")
	case Date:
		b.WriteString("d" + strconv.FormatUint(uint64(x), 10) + ";")
	case DateTime:
		b.WriteString("t" + strconv.FormatUint(uint64(x), 10) + ";")
	case DateTime64:
		b.WriteString("T" + strconv.FormatInt(int64(x), 10) + ";")
	case []any:
		b.WriteString("[")
		for _, e := range x {
			writeHashKey(b, e)
		}
		b.WriteString("]")
	case Tuple:
		b.WriteString("(")
		for _, e := range x {
			writeHashKey(b, e)
		}
		b.WriteString(")")
	case *Map:
		b.WriteString("{")
		for i := range x.Keys {
			writeHashKey(b, x.Keys[i])
			writeHashKey(b, x.Vals[i])
		}
		b.WriteString("}")
	case *AggState:
		b.WriteString(fmt.Sprintf("agg%p;", x))
	default:
		if i, u, neg, ok := intParts(v); ok {
			if neg {
				b.WriteString("i" + strconv.FormatInt(i, 10) + ";")
			} else {
				b.WriteString("i" + strconv.FormatUint(u, 10) + ";")
			}
			return
		}
		b.WriteString(fmt.Sprintf("?%T%v;", v, v))
	}
}

// ---------------------------------------------------------------------------
// Text rendering (toString and friends)
// ---------------------------------------------------------------------------

// formatFloat renders a Float64 like ClickHouse (shortest round-trip digits,
// "inf", "-inf", "nan"; exponent form like 1e25 / 1e-7 for very large / small).
func formatFloat(f float64) string {
	switch {
	case math.IsNaN(f):
		return "nan"
	case math.IsInf(f, 1):
		return "inf"
	case math.IsInf(f, -1):
		return "-inf"
	}
	if f == 0 {
		if math.Signbit(f) {
			return "-0"
		}
		return "0"
	}
	// ClickHouse (double-conversion / dragonbox ToShortest) switches to
	// exponent notation outside [1e-7, 1e21).
	a := math.Abs(f)
	if a >= 1e21 || a < 1e-6 {
		s := strconv.FormatFloat(f, 'e', -1, 64)
		// Go: 1e+25 / 1e-07 ; ClickHouse: 1e25 / 1e-7
		mant, exp, _ := strings.Cut(s, "e")
		sign := ""
		if strings.HasPrefix(exp, "-") {
			sign = "-"
		}
		exp = strings.TrimLeft(exp, "+-")
		exp = strings.TrimLeft(exp, "0")
		if exp == "" {
			exp = "0"
		}
		return mant + "e" + sign + exp
	}
	return strconv.FormatFloat(f, 'f', -1, 64)
}

// toStringValue implements toString(x) / the text format of a value when it is
// the top-level value (strings unquoted).
func toStringValue(v any) (string, error) {
	switch x := v.(type) {
	case string:
		return x, nil
	}
	return renderText(v, false)
}

// renderText renders a value in ClickHouse's text format; nested strings are
// quoted ('...') as inside arrays / tuples / maps.
func renderText(v any, quoted bool) (string, error) {
	switch x := v.(type) {
	case nil:
		if quoted {
			return "NULL", nil
		}
		return "\\N", nil // ᴺᵁᴸᴸ in Pretty formats; toString(NULL) is NULL anyway
	case string:
		if quoted {
			return quoteString(x), nil
		}
		return x, nil
	case FixedString:
		return renderText(string(x), quoted)
	case float64:
		return formatFloat(x), nil
	case Date:
		if quoted {
			return "'" + x.String() + "'", nil
		}
		return x.String(), nil
	case DateTime:
		if quoted {
			return "'" + x.String() + "'", nil
		}
		return x.String(), nil
	case []any:
		parts := make([]string, len(x))
		for i, e := range x {
			s, err := renderText(e, true)
			if err != nil {
				return "", err
			}
			parts[i] = s
		}
		return "[" + strings.Join(parts, ",") + "]", nil
	case Tuple:
		parts := make([]string, len(x))
		for i, e := range x {
			s, err := renderText(e, true)
			if err != nil {
				return "", err
			}
			parts[i] = s
		}
		return "(" + strings.Join(parts, ",") + ")", nil
	case *Map:
		parts := make([]string, len(x.Keys))
		for i := range x.Keys {
			k, err := renderText(x.Keys[i], true)
			if err != nil {
				return "", err
			}
			val, err := renderText(x.Vals[i], true)
			if err != nil {
				return "", err
			}
			parts[i] = k + ":" + val
		}
		return "{" + strings.Join(parts, ",") + "}", nil
	}
	if i, u, neg, ok := intParts(v); ok {
		if neg {
			return strconv.FormatInt(i, 10), nil
		}
		return strconv.FormatUint(u, 10), nil
	}
	return "", unsupportedf("text representation of %T", v)
}

-------------------------------- MODULE Qryn --------------------------------
(***************************************************************************)
(* X02 -- end-to-end composition of qryn at history grain, four signals.   *)
(*                                                                         *)
(* What a client can rely on across writer -> ClickHouse -> reader:        *)
(* "what was acknowledged can be read back, what was refused cannot".      *)
(*                                                                         *)
(* The pieces are specified separately (Batcher / IngestLifecycle: batches *)
(* and acknowledgements; SeriesIndex: the (day, fingerprint) cache;        *)
(* ReadPipeline, LogQLSem, TraceQLSem, Spans, ProfTree, Selector: the read *)
(* side and the data semantics).  This module composes them: an abstract   *)
(* ITEM is one log line / metric sample / span / profile, identified by    *)
(* (signal, key, t): key = the identity the index is built on (stream /    *)
(* series / trace / profile series), t = a time slot.                      *)
(*                                                                         *)
(* Code read for the transitions (one operator per code-level rule):       *)
(*  writer/controller/builder.go doParse: every ParserResponse is handed   *)
(*     to one insert service PER TABLE (time_series, samples_v3 |          *)
(*     tempo_traces_attrs_gin, tempo_traces | profiles_input), each an     *)
(*     independent INSERT; the request is answered 2xx iff no INSERT it    *)
(*     caused failed (after retry_attempts)                                *)
(*  writer/utils/unmarshal/builder.go onEntries/maybeAddFp: a series row   *)
(*     (day, fingerprint, type) is emitted only when (day, fingerprint) is *)
(*     not in the cache; the pair is put into the cache AT PARSE TIME; the *)
(*     cache key does NOT contain the sample type although the row does    *)
(*  writer/utils/unmarshal/unmarshal.go pushRequestDec: the Loki JSON body *)
(*     is decoded as a stream, onEntries runs per stream before the rest   *)
(*     of the body is known to be well-formed                              *)
(*  ctrl/qryn/sql: time_series -> time_series_gin, samples_v3 ->           *)
(*     metrics_15s, tempo_traces_attrs_gin -> tempo_traces_kv,             *)
(*     profiles_input -> profiles, profiles_series(_gin,_keys) are         *)
(*     materialized views: rows of the target appear with the INSERT       *)
(*  reader: every endpoint below is the SQL it sends, at table grain       *)
(*     (recorded by x02 probe from the real planners)                      *)
(*                                                                         *)
(* Named deviations (TRUE = what the code does; FALSE = the design under   *)
(* which the properties hold, shown by TLC):                               *)
(*   CacheSetBeforeInsert  C04 finding, repaired by eb377cd (kept as mutation) *)
(*                         undiscoverable|cache-set-before-insert          *)
(*   CacheKeyIgnoresType   the cache key is (day, fingerprint) while the   *)
(*                         series row and every reader filter carry the    *)
(*                         type: a log stream and a metric series with the *)
(*                         same label set shadow each other                *)
(* ReaderFiltersType = FALSE is not a deviation of the code but a model    *)
(* mutation showing that NoCrossSignal is not vacuous.                     *)
(*                                                                         *)
(* Assumptions: an INSERT is atomic together with its materialized views;  *)
(* a failed INSERT = all retry attempts failed; rows are compared as sets: *)
(* samples_v3 / tempo_traces / profiles are plain MergeTree tables, so a   *)
(* retry of a partially inserted push stores its data rows twice and the   *)
(* reader returns them twice; the (Replacing)MergeTree index tables        *)
(* collapse duplicates.  The properties speak about presence, not          *)
(* multiplicity (at-least-once delivery).                                  *)
(***************************************************************************)
EXTENDS Integers, FiniteSets, TLC

CONSTANTS
    Signals,               \* subset of {"logs", "metrics", "traces", "profiles"}
    Keys,                  \* e.g. {1, 2}
    Slots,                 \* time slots, e.g. {0, 1, 2}
    SlotsPerDay,           \* slot t lies on day t \div SlotsPerDay
    MaxPushes, MaxItems, MaxFaults, MaxRetries, MaxClears, MaxLost, MaxBad, MaxQueries,
    CacheSetBeforeInsert, CacheKeyIgnoresType,
    ReaderFiltersType,
    Guided,                \* TRUE (simulation only): the kind of the next step is drawn first, so that retries, cache
                           \* clears and queries are as likely as pushes although pushes have far more instances
    ExportView             \* TRUE: the variables view / blame carry every answer (history export for the replay)

VARIABLES
    cache,      \* writer: set of <<day, key, type>> (type 0 when the key ignores the type)
    poison,     \* ghost: cache entries set although no series row was inserted: <<day, key, type, trigger>>
    skipped,    \* ghost: <<day, key, ty, cause>>: a request found (day, key) cached, emitted no series row, and no row
                \* (day, key, ty) is stored -- with the reason the cache entry exists
    series,     \* time_series (+ time_series_gin): [day, key, ty]
    samples,    \* samples_v3 (+ metrics_15s): [ty, key, t]
    spans,      \* tempo_traces: [key, t]
    attrs,      \* tempo_traces_attrs_gin (+ tempo_traces_kv): [key, t]
    profs,      \* profiles_input (+ profiles, profiles_series, _gin, _keys): [key, t]
    landed,     \* ghost: <<table, item>> for every item carried by a successful INSERT into table
    open,       \* requests the client may retry: [sig, items, status] with status "err" / "none"
    acked,      \* items of requests answered 2xx
    ackedRetry, \* items of RETRIES answered 2xx
    today,      \* current day: a client pushes data of today or earlier
    n,          \* budgets used
    last,       \* what the client saw in the last step
    turn,       \* "any" (every step enabled) or, when Guided, "choose" / the kind drawn for the next step
    view, blame \* export (constant <<>> unless ExportView)

dbvars == <<series, samples, spans, attrs, profs>>
vars == <<cache, poison, skipped, series, samples, spans, attrs, profs, landed, open, acked, ackedRetry, today, n, last, turn, view, blame>>

----------------------------------------------------------------------------
Day(t) == t \div SlotsPerDay
MaxDay == CHOOSE d \in {Day(t) : t \in Slots} : \A t \in Slots : Day(t) <= d
LM == {"logs", "metrics"}
TypeOf(sig) == IF sig = "logs" THEN 1 ELSE 2
SigOfTy(ty) == IF ty = 1 THEN "logs" ELSE "metrics"

Tables(sig) == IF sig \in LM THEN {"time_series", "samples_v3"}
               ELSE IF sig = "traces" THEN {"tempo_traces", "tempo_traces_attrs_gin"}
               ELSE {"profiles_input"}

Item(sig, k, t) == [sig |-> sig, key |-> k, t |-> t]
KeyAns(sig, k) == [sig |-> sig, key |-> k, t |-> -1]          \* answer of a key-grain endpoint
ItemsOf(sig) == {Item(sig, k, t) : k \in Keys, t \in Slots}
\* one request body: logs / metrics / traces carry up to MaxItems items, the profile route takes one profile
BodiesF == [sig \in {"logs", "metrics", "traces", "profiles"} |->
               {S \in SUBSET ItemsOf(sig) : S # {} /\ Cardinality(S) <= (IF sig = "profiles" THEN 1 ELSE MaxItems)}]
Bodies(sig) == BodiesF[sig]

Windows == {w \in Slots \X Slots : w[1] <= w[2]}
InWin(t, w) == w[1] <= t /\ t <= w[2]
InDays(d, w) == Day(w[1]) <= d /\ d <= Day(w[2])

----------------------------------------------------------------------------
(* Write side *)

CK(d, k, ty) == <<d, k, IF CacheKeyIgnoresType THEN 0 ELSE ty>>
Pairs(items) == {<<Day(it.t), it.key>> : it \in items}
NewPairs(ty, items) == {p \in Pairs(items) : CK(p[1], p[2], ty) \notin cache}

\* bad: the body is malformed AFTER the items (Loki JSON only: the decoder streams); nothing is inserted, 4xx
SeriesOk(fail, bad) == ~bad /\ "time_series" \notin fail
SamplesOk(fail, bad) == ~bad /\ "samples_v3" \notin fail

Ok(sig, items, fail, bad) ==
    IF sig \in LM
    THEN SamplesOk(fail, bad) /\ (NewPairs(TypeOf(sig), items) # {} => SeriesOk(fail, bad))
    ELSE fail = {} /\ ~bad

HasRow(d, k, ty) == \E r \in series : r.day = d /\ r.key = k /\ r.ty = ty
PoisonedBy(d, k, ty, tr) == \E z \in poison : z[1] = d /\ z[2] = k /\ z[3] \in {0, ty} /\ z[4] = tr
CauseAt(d, k, ty) ==
    IF PoisonedBy(d, k, ty, "parse-error") THEN "cache-set-before-insert|parse-error"
    ELSE IF PoisonedBy(d, k, ty, "insert-failed") THEN "cache-set-before-insert|insert-failed"
    ELSE IF CacheKeyIgnoresType THEN "cache-key-ignores-type"
    ELSE "unexplained"

IngestLM(sig, items, fail, bad) ==
    LET ty == TypeOf(sig)
        new == NewPairs(ty, items)
        hits == {p \in Pairs(items) \ new : ~HasRow(p[1], p[2], ty) /\ ~\E z \in skipped : z[1] = p[1] /\ z[2] = p[2] /\ z[3] = ty}
        sOk == SeriesOk(fail, bad)
        pOk == SamplesOk(fail, bad)
        \* FALSE is the code since fix eb377cd: keys are set at parse time and forgotten when the request fails
        setC == CacheSetBeforeInsert \/ Ok(sig, items, fail, bad)
        trig == IF bad THEN "parse-error" ELSE "insert-failed"
    IN  /\ cache' = IF setC THEN cache \cup {CK(p[1], p[2], ty) : p \in new} ELSE cache
        /\ poison' = IF setC /\ ~sOk THEN poison \cup {<<p[1], p[2], CK(p[1], p[2], ty)[3], trig>> : p \in new} ELSE poison
        /\ series' = IF sOk THEN series \cup {[day |-> p[1], key |-> p[2], ty |-> ty] : p \in new} ELSE series
        /\ skipped' = {z \in skipped : ~(sOk /\ z[3] = ty /\ <<z[1], z[2]>> \in new)} \cup {<<p[1], p[2], ty, CauseAt(p[1], p[2], ty)>> : p \in hits}
        /\ samples' = IF pOk THEN samples \cup {[ty |-> ty, key |-> it.key, t |-> it.t] : it \in items} ELSE samples
        /\ landed' = landed \cup (IF pOk THEN {<<"samples_v3", it>> : it \in items} ELSE {})
                            \cup (IF sOk THEN {<<"time_series", it>> : it \in {i \in items : <<Day(i.t), i.key>> \in new}} ELSE {})
        /\ UNCHANGED <<spans, attrs, profs>>

IngestTraces(items, fail) ==
    /\ spans' = IF "tempo_traces" \notin fail THEN spans \cup {[key |-> it.key, t |-> it.t] : it \in items} ELSE spans
    /\ attrs' = IF "tempo_traces_attrs_gin" \notin fail THEN attrs \cup {[key |-> it.key, t |-> it.t] : it \in items} ELSE attrs
    /\ landed' = landed \cup {<<tb, it>> : tb \in Tables("traces") \ fail, it \in items}
    /\ UNCHANGED <<cache, poison, skipped, series, samples, profs>>

IngestProfiles(items, fail) ==
    /\ profs' = IF fail = {} THEN profs \cup {[key |-> it.key, t |-> it.t] : it \in items} ELSE profs
    /\ landed' = landed \cup {<<tb, it>> : tb \in Tables("profiles") \ fail, it \in items}
    /\ UNCHANGED <<cache, poison, skipped, series, samples, spans, attrs>>

Ingest(sig, items, fail, bad) ==
    IF sig \in LM THEN IngestLM(sig, items, fail, bad)
    ELSE IF sig = "traces" THEN IngestTraces(items, fail)
    ELSE IngestProfiles(items, fail)

----------------------------------------------------------------------------
(* Read side: every endpoint as the SQL it sends, at table grain.  An answer is a set of [sig, key, t]; the sig of *)
(* an element is the signal its ROW was pushed as (so that NoCrossSignal can be stated).                          *)

TyOK(rowTy, ty) == ~ReaderFiltersType \/ rowTy = ty
\* fp_sel: time_series_gin WHERE date >= fromDay AND type IN (ty, 0) AND key/val -- no upper date bound
Idx(ty, k, w) == \E r \in series : r.key = k /\ TyOK(r.ty, ty) /\ r.day >= Day(w[1])

\* samples_v3 / metrics_15s WHERE ts in window AND type AND fingerprint IN fp_sel
LMRange(ty, k, w) ==
    IF Idx(ty, k, w) THEN {Item(SigOfTy(s.ty), s.key, s.t) : s \in {x \in samples : x.key = k /\ TyOK(x.ty, ty) /\ InWin(x.t, w)}} ELSE {}
\* time_series WHERE date in [fromDay, toDay] AND fingerprint IN fp_sel AND type
LMSeries(ty, k, w) ==
    IF Idx(ty, k, w) THEN {KeyAns(SigOfTy(r.ty), r.key) : r \in {x \in series : x.key = k /\ TyOK(x.ty, ty) /\ InDays(x.day, w)}} ELSE {}
\* time_series_gin WHERE date in [fromDay, toDay] AND key = 'x02' AND type  (no selector)
LMValues(ty, w) == {KeyAns(SigOfTy(r.ty), r.key) : r \in {x \in series : TyOK(x.ty, ty) /\ InDays(x.day, w)}}

\* tempo_traces WHERE trace_id AND ts in window
TraceByID(k, w) == {Item("traces", s.key, s.t) : s \in {x \in spans : x.key = k /\ InWin(x.t, w)}}
\* (trace_id, span_id) IN (attrs_gin WHERE key/val AND date) on tempo_traces WHERE ts in window
TraceSearch(k, w) == {KeyAns("traces", s.key) : s \in {x \in spans : x.key = k /\ InWin(x.t, w) /\ x \in attrs}}
\* index_search on attrs_gin (ts in window), spans from tempo_traces WHERE (trace_id, span_id) IN index
TraceQL(k, w) == {Item("traces", s.key, s.t) : s \in {x \in attrs : x.key = k /\ InWin(x.t, w) /\ x \in spans}}
\* tempo_traces_kv WHERE key = 'x02' (v1: no window)
TraceValues == {KeyAns("traces", s.key) : s \in attrs}

ProfSelect(k, w) == {Item("profiles", p.key, p.t) : p \in {x \in profs : x.key = k /\ InWin(x.t, w)}}
ProfSeries(k, w) == {KeyAns("profiles", p.key) : p \in {x \in profs : x.key = k /\ InDays(Day(x.t), w)}}
ProfValues(w) == {KeyAns("profiles", p.key) : p \in {x \in profs : InDays(Day(x.t), w)}}
ProfTypes(w) == IF \E p \in profs : InDays(Day(p.t), w) THEN {KeyAns("profiles", 0)} ELSE {}

EPSig == [loki_query_range |-> "logs", loki_series |-> "logs", loki_label_values |-> "logs",
          prom_query_range |-> "metrics", prom_series |-> "metrics", prom_label_values |-> "metrics",
          tempo_by_id |-> "traces", tempo_search_tags |-> "traces", tempo_traceql |-> "traces", tempo_tag_values |-> "traces",
          prof_select |-> "profiles", prof_select_series |-> "profiles", prof_series |-> "profiles",
          prof_label_values |-> "profiles", prof_profile_types |-> "profiles"]
AllEPs == DOMAIN EPSig
EPs == {e \in AllEPs : EPSig[e] \in Signals}
ItemGrain == {"loki_query_range", "prom_query_range", "tempo_by_id", "tempo_traceql", "prof_select", "prof_select_series"}

Answer(ep, k, w) ==
    CASE ep = "loki_query_range" -> LMRange(1, k, w)
      [] ep = "loki_series" -> LMSeries(1, k, w)
      [] ep = "loki_label_values" -> LMValues(1, w)
      [] ep = "prom_query_range" -> LMRange(2, k, w)
      [] ep = "prom_series" -> LMSeries(2, k, w)
      [] ep = "prom_label_values" -> LMValues(2, w)
      [] ep = "tempo_by_id" -> TraceByID(k, w)
      [] ep = "tempo_search_tags" -> TraceSearch(k, w)
      [] ep = "tempo_traceql" -> TraceQL(k, w)
      [] ep = "tempo_tag_values" -> TraceValues
      [] ep = "prof_select" -> ProfSelect(k, w)
      [] ep = "prof_select_series" -> ProfSelect(k, w)
      [] ep = "prof_series" -> ProfSeries(k, w)
      [] ep = "prof_label_values" -> ProfValues(w)
      [] ep = "prof_profile_types" -> ProfTypes(w)

\* what endpoint ep owes a client for item it
Expect(ep, it) == IF ep \in ItemGrain THEN it ELSE IF ep = "prof_profile_types" THEN KeyAns("profiles", 0) ELSE KeyAns(it.sig, it.key)
Readable(it) == \A ep \in {e \in EPs : EPSig[e] = it.sig} : \A w \in Windows : InWin(it.t, w) => Expect(ep, it) \in Answer(ep, it.key, w)

\* why an acknowledged item is not readable (ghost attribution for the replay's signatures)
Cause(it) ==
    IF it.sig \in LM /\ \E z \in skipped : z[1] = Day(it.t) /\ z[2] = it.key /\ z[3] = TypeOf(it.sig)
    THEN (CHOOSE z \in skipped : z[1] = Day(it.t) /\ z[2] = it.key /\ z[3] = TypeOf(it.sig))[4]
    ELSE "unexplained"

View == IF ExportView THEN TLCEval([x \in EPs \X Keys \X Windows |-> Answer(x[1], x[2], x[3])]) ELSE <<>>
Blame == IF ExportView THEN TLCEval({[sig |-> it.sig, key |-> it.key, t |-> it.t, cause |-> Cause(it)] : it \in {a \in acked : ~Readable(a)}}) ELSE <<>>

----------------------------------------------------------------------------
NoAns == {}
\* (in exhaustive runs without queries the client's last observation is not part of the state: fewer states)
\* It also names the step with its arguments, so that a printed counterexample is a replayable history.
LastP(kind, status, sig, items, fail, bad, lost) ==
    IF ExportView \/ MaxQueries > 0
    THEN [kind |-> kind, status |-> status, sig |-> sig, items |-> items, fail |-> fail, bad |-> bad, lost |-> lost,
          ep |-> "", key |-> 0, from |-> 0, to |-> 0, ans |-> {}]
    ELSE <<>>
Last(kind, status, ep, k, w, ans) ==
    IF ExportView \/ MaxQueries > 0
    THEN [kind |-> kind, status |-> status, sig |-> "", items |-> {}, fail |-> {}, bad |-> FALSE, lost |-> FALSE,
          ep |-> ep, key |-> k, from |-> w[1], to |-> w[2], ans |-> ans]
    ELSE <<>>

Init ==
    /\ cache = {} /\ poison = {} /\ skipped = {} /\ series = {} /\ samples = {} /\ spans = {} /\ attrs = {} /\ profs = {} /\ landed = {}
    /\ open = {} /\ acked = {} /\ ackedRetry = {} /\ today = 0
    /\ n = [push |-> 0, fault |-> 0, retry |-> 0, clear |-> 0, lost |-> 0, bad |-> 0, query |-> 0]
    /\ last = Last("init", "", "", 0, <<0, 0>>, NoAns)
    /\ turn = IF Guided THEN "choose" ELSE "any"
    /\ view = View /\ blame = Blame

Turn(kind) == turn \in {"any", kind} /\ turn' = (IF Guided THEN "choose" ELSE "any")
CanDo(kind) ==
    CASE kind = "push" -> n.push < MaxPushes
      [] kind = "retry" -> n.retry < MaxRetries /\ open # {}
      [] kind = "clear" -> n.clear < MaxClears /\ cache # {}
      [] kind = "rollover" -> today < MaxDay
      [] kind = "query" -> n.query < MaxQueries
Choose(kind) ==
    /\ turn = "choose" /\ CanDo(kind) /\ turn' = kind
    /\ UNCHANGED <<cache, poison, skipped, series, samples, spans, attrs, profs, landed, open, acked, ackedRetry, today, n, last, view, blame>>

Status(sig, items, fail, bad, lost) == IF lost THEN "none" ELSE IF Ok(sig, items, fail, bad) THEN "2xx" ELSE "err"

\* one request.  fail: tables whose INSERT fails; bad: malformed tail; lost: the client never sees the answer
Push(sig, items, fail, bad, lost) ==
    /\ Turn("push")
    /\ n.push < MaxPushes
    /\ sig \in Signals /\ items \in Bodies(sig) /\ fail \subseteq Tables(sig)
    /\ \A it \in items : Day(it.t) <= today
    /\ fail # {} => n.fault < MaxFaults
    /\ bad => sig = "logs" /\ n.bad < MaxBad /\ fail = {} /\ ~lost
    /\ lost => n.lost < MaxLost
    /\ Ingest(sig, items, fail, bad)
    /\ LET st == Status(sig, items, fail, bad, lost)
       IN /\ acked' = IF st = "2xx" THEN acked \cup items ELSE acked
          /\ open' = IF st = "2xx" THEN open ELSE open \cup {[sig |-> sig, items |-> items, status |-> st]}
          /\ last' = LastP("push", st, sig, items, fail, bad, lost)
    /\ n' = [n EXCEPT !.push = @ + 1, !.fault = @ + (IF fail # {} THEN 1 ELSE 0), !.bad = @ + (IF bad THEN 1 ELSE 0), !.lost = @ + (IF lost THEN 1 ELSE 0)]
    /\ UNCHANGED <<ackedRetry, today>>
    /\ view' = View' /\ blame' = Blame'

\* the client sends the same items again (after a parse error: the corrected body)
Retry(sig, items, fail) ==
    /\ Turn("retry")
    /\ n.retry < MaxRetries
    /\ \E o \in open : o.sig = sig /\ o.items = items
    /\ fail \subseteq Tables(sig)
    /\ fail # {} => n.fault < MaxFaults
    /\ Ingest(sig, items, fail, FALSE)
    /\ LET st == Status(sig, items, fail, FALSE, FALSE)
           rest == {o \in open : ~(o.sig = sig /\ o.items = items)}
       IN /\ acked' = IF st = "2xx" THEN acked \cup items ELSE acked
          /\ ackedRetry' = IF st = "2xx" THEN ackedRetry \cup items ELSE ackedRetry
          /\ open' = IF st = "2xx" THEN rest ELSE rest \cup {[sig |-> sig, items |-> items, status |-> "err"]}
          /\ last' = LastP("retry", st, sig, items, fail, FALSE, FALSE)
    /\ n' = [n EXCEPT !.retry = @ + 1, !.fault = @ + (IF fail # {} THEN 1 ELSE 0)]
    /\ UNCHANGED today
    /\ view' = View' /\ blame' = Blame'

\* numbercache: the whole cache is dropped every 30 minutes
CacheClear ==
    /\ Turn("clear")
    /\ n.clear < MaxClears /\ cache # {}
    /\ cache' = {} /\ poison' = {}
    /\ n' = [n EXCEPT !.clear = @ + 1]
    /\ last' = Last("clear", "", "", 0, <<0, 0>>, NoAns)
    /\ UNCHANGED <<skipped, series, samples, spans, attrs, profs, landed, open, acked, ackedRetry, today>>
    /\ view' = View' /\ blame' = Blame'

Rollover ==
    /\ Turn("rollover")
    /\ today < MaxDay
    /\ today' = today + 1
    /\ last' = Last("rollover", "", "", 0, <<0, 0>>, NoAns)
    /\ UNCHANGED <<cache, poison, skipped, series, samples, spans, attrs, profs, landed, open, acked, ackedRetry, n>>
    /\ view' = View' /\ blame' = Blame'

Query(ep, k, w) ==
    /\ Turn("query")
    /\ n.query < MaxQueries
    /\ ep \in EPs /\ k \in Keys /\ w \in Windows
    /\ last' = Last("query", "", ep, k, w, Answer(ep, k, w))
    /\ n' = [n EXCEPT !.query = @ + 1]
    /\ UNCHANGED <<cache, poison, skipped, series, samples, spans, attrs, profs, landed, open, acked, ackedRetry, today, view, blame>>

Next ==
    \/ \E sig \in Signals : \E items \in Bodies(sig) : \E fail \in SUBSET Tables(sig) : \E bad, lost \in BOOLEAN : Push(sig, items, fail, bad, lost)
    \/ \E sig \in Signals : \E items \in Bodies(sig) : \E fail \in SUBSET Tables(sig) : Retry(sig, items, fail)
    \/ CacheClear
    \/ Rollover
    \/ \E ep \in EPs : \E k \in Keys : \E w \in Windows : Query(ep, k, w)
    \/ \E kind \in {"push", "retry", "clear", "rollover", "query"} : Choose(kind)

Spec == Init /\ [][Next]_vars

----------------------------------------------------------------------------
(* Properties, each as the statement a client reads *)

\* AckedReadable: every item of a request answered 2xx is returned by every read endpoint of its signal -- by id AND
\* by index / search -- for the selector that matches it and every window that contains it.
AckedReadable == \A it \in acked : Readable(it)

\* RetryIdempotentEnough: when the retry of a failed (possibly partially inserted) request is answered 2xx, none of
\* its items is lost (it may be stored twice: at-least-once).
RetryIdempotentEnough == \A it \in ackedRetry : Readable(it)

\* RefusedNotHalfVisible, part 1 (what may remain visible): an item of a request answered with an error and never
\* retried is returned by an endpoint only through rows of tables whose INSERT succeeded -- in particular an item none
\* of whose INSERTs succeeded (or whose body was rejected) is returned by no endpoint at all.
Refused == (UNION {o.items : o \in {x \in open : x.status = "err"}}) \ acked
Needs(ep) ==
    CASE ep \in {"loki_query_range", "prom_query_range"} -> {"samples_v3"}
      [] ep \in {"loki_series", "loki_label_values", "prom_series", "prom_label_values"} -> {"time_series"}
      [] ep = "tempo_by_id" -> {"tempo_traces"}
      [] ep \in {"tempo_search_tags", "tempo_traceql"} -> {"tempo_traces", "tempo_traces_attrs_gin"}
      [] ep = "tempo_tag_values" -> {"tempo_traces_attrs_gin"}
      [] OTHER -> {"profiles_input"}
RefusedResidue ==
    \A it \in Refused : \A ep \in {e \in EPs : EPSig[e] = it.sig /\ e \in ItemGrain} : \A w \in Windows :
        it \in Answer(ep, it.key, w) => \A tb \in Needs(ep) : <<tb, it>> \in landed
\* every returned item was carried by a successful INSERT into the endpoint's data table(s)
NoPhantom ==
    \A ep \in EPs \cap ItemGrain : \A k \in Keys : \A w \in Windows : \A a \in Answer(ep, k, w) :
        \A tb \in Needs(ep) : <<tb, a>> \in landed

\* RefusedNotHalfVisible, part 2 (documents stay coherent): whatever the insert outcomes were, a trace that the search
\* endpoints list can be fetched by id over the same window, and every span TraceQL returns is part of that fetch.
SearchImpliesFetch ==
    \A k \in Keys : \A w \in Windows :
        /\ ("traces" \in Signals /\ TraceSearch(k, w) # {}) => TraceByID(k, w) # {}
        /\ "traces" \in Signals => TraceQL(k, w) \subseteq TraceByID(k, w)

\* NoCrossSignal: an item pushed as signal A is never returned by an endpoint of signal B.
NoCrossSignal == \A ep \in EPs : \A k \in Keys : \A w \in Windows : \A a \in Answer(ep, k, w) : a.sig = EPSig[ep]

\* acknowledged items are stored (C01 at history grain)
AckedStored ==
    \A it \in acked : IF it.sig \in LM THEN [ty |-> TypeOf(it.sig), key |-> it.key, t |-> it.t] \in samples
                      ELSE IF it.sig = "traces" THEN [key |-> it.key, t |-> it.t] \in spans /\ [key |-> it.key, t |-> it.t] \in attrs
                      ELSE [key |-> it.key, t |-> it.t] \in profs

TypeOK ==
    /\ acked \subseteq UNION {ItemsOf(s) : s \in Signals} /\ ackedRetry \subseteq acked
    /\ today \in 0..MaxDay
    /\ \A o \in open : o.status \in {"err", "none"}
=============================================================================

------------------------------ MODULE MC_Qryn ------------------------------
(* Model-checking wrapper for Qryn.tla.  The .cfg files choose the signal group, the bounds and the deviations:   *)
(*   MC_Qryn_design.cfg   logs+metrics, both deviations off: every property holds                                *)
(*   MC_Qryn_coded.cfg    all four signals as coded, with queries and the exported view: source of the histories  *)
(*                        (tlc -simulate) that x02 history replays on the real writer/reader                      *)
(* tools/props/x02.py generates the remaining configurations (one per deviation, per signal group) from the same  *)
(* template.                                                                                                      *)
EXTENDS Qryn
=============================================================================

------------------------------ MODULE InitSchema ------------------------------
(***************************************************************************)
(* Initialisation of the qryn schema: ctrl/qryn/maintenance/update.go      *)
(*   Update = updateScripts(k, scripts_k, storagePolicy, ...) for every    *)
(*            version stream k;                                            *)
(*   updateScripts: ver := SELECT max(ver) WHERE k;                        *)
(*                  for i > ver: exec(script i) ; INSERT INTO ver (k, i)   *)
(* one action per statement sent to the database.  A data table is created *)
(* by exactly one script and receives the storage policy of the            *)
(* configuration in its CREATE statement (retention maintenance later only *)
(* repairs the tables it rotates).  Constant Scripts is generated from a   *)
(* recorded run of the real Update (c19 groups), so TLC judges the script  *)
(* streams that are in the tree.                                           *)
(* C19: after initialisation every data table exists with the configured   *)
(* storage policy; a run interrupted at any statement is completed by the  *)
(* next run.                                                               *)
(***************************************************************************)
EXTENDS Integers, Sequences, FiniteSets, TLC

CONSTANTS
    Scripts,       \* Seq of [k: Int, v: Int, creates: Seq(STRING)] in the execution order of a fresh run
    Policies,      \* set of STRING ("" = none)
    MaxFaults,
    RecordFailed   \* FALSE: a failed script ends the run (the code); TRUE: mutation - the failure is swallowed and the
                   \* version is recorded anyway (TLC must then find the never-created table: Completed is not vacuous)

N == Len(Scripts)
Streams == { Scripts[i].k : i \in 1..N }
Creates(i) == { Scripts[i].creates[j] : j \in 1..Len(Scripts[i].creates) }
Tables == UNION { Creates(i) : i \in 1..N }

VARIABLES
    ver,      \* [Streams -> Int]   recorded version per stream
    exists,   \* [Tables -> BOOLEAN]
    pol,      \* [Tables -> STRING] storage policy the table was created with
    cfg,      \* configured storage policy
    pc,       \* "idle" | "exec" | "insver" | "done" | "failed"
    si,       \* index of the current script
    faults

vars == <<ver, exists, pol, cfg, pc, si, faults>>

\* first script after index from that is not yet recorded as applied (0: none) - the SELECT max(ver) of every stream
Pending(v, from) == { j \in (from + 1)..N : Scripts[j].v > v[Scripts[j].k] }
NextIdx(v, from) == IF Pending(v, from) = {} THEN 0 ELSE CHOOSE j \in Pending(v, from) : \A x \in Pending(v, from) : j <= x

Init ==
    /\ ver = [k \in Streams |-> 0]
    /\ exists = [t \in Tables |-> FALSE] /\ pol = [t \in Tables |-> "-"]
    /\ cfg \in Policies
    /\ pc = "idle" /\ si = 0 /\ faults = 0

Goto(v, from) ==
    LET j == NextIdx(v, from) IN IF j = 0 THEN pc' = "done" /\ si' = 0 ELSE pc' = "exec" /\ si' = j

Start ==
    /\ pc \in {"idle", "failed", "done"}
    /\ Goto(ver, 0)
    /\ UNCHANGED <<ver, exists, pol, cfg, faults>>

\* exec(script): CREATE TABLE IF NOT EXISTS ... SETTINGS storage_policy = <configured>
Exec ==
    /\ pc = "exec"
    /\ exists' = [t \in Tables |-> exists[t] \/ t \in Creates(si)]
    /\ pol' = [t \in Tables |-> IF t \in Creates(si) /\ ~exists[t] THEN cfg ELSE pol[t]]
    /\ pc' = "insver"
    /\ UNCHANGED <<ver, cfg, si, faults>>

\* the statement fails and is not executed
ExecFails ==
    /\ pc = "exec" /\ faults < MaxFaults
    /\ faults' = faults + 1
    /\ pc' = (IF RecordFailed THEN "insver" ELSE "failed")
    /\ UNCHANGED <<ver, exists, pol, cfg, si>>

\* INSERT INTO ver (k, i)
InsVer ==
    /\ pc = "insver"
    /\ ver' = [ver EXCEPT ![Scripts[si].k] = Scripts[si].v]
    /\ Goto(ver', si)
    /\ UNCHANGED <<exists, pol, cfg, faults>>

\* the process dies between two statements, or the version insert fails
Crash ==
    /\ pc \in {"exec", "insver"} /\ faults < MaxFaults
    /\ faults' = faults + 1 /\ pc' = "failed"
    /\ UNCHANGED <<ver, exists, pol, cfg, si>>

Next == Start \/ Exec \/ ExecFails \/ InsVer \/ Crash
Spec == Init /\ [][Next]_vars

-----------------------------------------------------------------------------
\* after a completed initialisation (however many interrupted ones before it) every data table exists with the
\* configured storage policy
Completed == pc = "done" => \A t \in Tables : exists[t] /\ pol[t] = cfg

\* a script is recorded as applied only after it was executed
RecordedAfterExec == \A i \in 1..N : ver[Scripts[i].k] >= Scripts[i].v => \A t \in Creates(i) : exists[t]
=============================================================================

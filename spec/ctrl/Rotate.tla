-------------------------------- MODULE Rotate --------------------------------
(***************************************************************************)
(* Retention maintenance of qryn: ctrl/qryn/maintenance/rotate.go          *)
(*   Rotate = storagePolicyUpdate x 3 ; rotateTables x 5                   *)
(*   each:  getSetting(key) ; if recorded = desired: skip                  *)
(*          putSetting(key, "")   \* forget the recorded value (fix for the *)
(*                                \* revert-after-interrupted-change finding)*)
(*          for every table of the group: ALTER ... (1 or 2 statements)    *)
(*          putSetting(key, desired)                                       *)
(* one action per statement sent to the database.  Groups (kind, tables,   *)
(* clamp) are fixed by the property; the settings KEY each group uses is   *)
(* taken from the code (constant Groups is generated from a recorded run), *)
(* so that TLC judges the key assignment that is in the tree.              *)
(* Values are abstract: a TTL value is "<ttl id of the config>/<clamp>",  *)
(* a policy value is the policy name; the driver maps the real TTL strings *)
(* to these ids with an independent computation of the expected string.    *)
(***************************************************************************)
EXTENDS Integers, Sequences, FiniteSets, TLC

CONSTANTS
    Groups,      \* Seq of [kind: "policy"|"ttl", key: STRING, tables: Seq(STRING), clamp: "minute"|"day"|"none"]
    Configs,     \* set of [policy: STRING ("" = none), ttl: STRING]
    MaxFaults, MaxChanges,
    InvalidateFirst  \* TRUE: the marker is cleared before the first ALTER of a group (the code since the fix recorded in
                     \* known_findings.json); FALSE: the old marker stays in place while the tables are altered (mutation:
                     \* TLC finds the revert-after-interrupted-change history that violates Converged)

Tables == UNION { {g.tables[i] : i \in 1..Len(g.tables)} : g \in {Groups[j] : j \in 1..Len(Groups)} }
Keys == { Groups[j].key : j \in 1..Len(Groups) }

VARIABLES
    settings,   \* [Keys -> value]  ("" = never recorded)
    ttl,        \* [Tables -> value]
    pol,        \* [Tables -> value]
    cfg,        \* current configuration
    pc,         \* "idle" | "get" | "inval" | "alterSetting" | "alterTTL" | "alterPolicy" | "put" | "done" | "failed"
    gi, ti,     \* group index, table index
    alters,     \* ALTER statements issued by the current run
    lastDone,   \* configuration of the most recent run if it completed and nothing ran since, else NoCfg
    clean,      \* TRUE iff the current run started right after a completed run with the same configuration
    torn,       \* ghost: torn[j] iff a table of group j was altered since the group's marker was last recorded
    faults, changes

vars == <<settings, ttl, pol, cfg, pc, gi, ti, alters, lastDone, clean, torn, faults, changes>>

NoCfg == [policy |-> "-", ttl |-> "-"]
G == Groups[gi]
Want(c, g) == IF g.kind = "policy" THEN c.policy ELSE c.ttl \o "/" \o g.clamp

Init ==
    /\ settings = [k \in Keys |-> ""]
    /\ ttl = [t \in Tables |-> ""] /\ pol = [t \in Tables |-> ""]
    /\ cfg \in Configs
    /\ pc = "idle" /\ gi = 1 /\ ti = 1 /\ alters = 0 /\ lastDone = NoCfg /\ clean = FALSE
    /\ torn = [j \in 1..Len(Groups) |-> FALSE]
    /\ faults = 0 /\ changes = 0

Start ==
    /\ pc \in {"idle", "failed", "done"}
    /\ pc' = "get" /\ gi' = 1 /\ ti' = 1 /\ alters' = 0
    /\ clean' = (lastDone = cfg)
    /\ lastDone' = NoCfg
    /\ UNCHANGED <<settings, ttl, pol, cfg, torn, faults, changes>>

NextGroup ==
    IF gi < Len(Groups) THEN pc' = "get" /\ gi' = gi + 1 /\ ti' = 1 /\ UNCHANGED lastDone
    ELSE pc' = "done" /\ lastDone' = cfg /\ UNCHANGED <<gi, ti>>

\* getSetting + the comparison
Get ==
    /\ pc = "get"
    /\ IF (G.kind = "policy" /\ cfg.policy = "") \/ settings[G.key] = Want(cfg, G)
         THEN NextGroup
         ELSE /\ pc' = (IF InvalidateFirst THEN "inval" ELSE IF G.kind = "policy" THEN "alterPolicy" ELSE "alterSetting")
              /\ ti' = 1 /\ UNCHANGED <<gi, lastDone>>
    /\ UNCHANGED <<settings, ttl, pol, cfg, alters, clean, torn, faults, changes>>

\* putSetting(key, ""): the recorded value is forgotten before the tables are touched
Invalidate ==
    /\ pc = "inval"
    /\ settings' = [settings EXCEPT ![G.key] = ""]
    /\ pc' = (IF G.kind = "policy" THEN "alterPolicy" ELSE "alterSetting")
    /\ UNCHANGED <<ttl, pol, cfg, gi, ti, alters, lastDone, clean, torn, faults, changes>>

NextTable(first) ==
    IF ti < Len(G.tables) THEN pc' = first /\ ti' = ti + 1 ELSE pc' = "put" /\ UNCHANGED ti

\* ALTER TABLE t MODIFY SETTING storage_policy = ...
AlterPolicy ==
    /\ pc = "alterPolicy"
    /\ pol' = [pol EXCEPT ![G.tables[ti]] = cfg.policy]
    /\ alters' = alters + 1
    /\ NextTable("alterPolicy")
    /\ torn' = [torn EXCEPT ![gi] = TRUE]
    /\ UNCHANGED <<settings, ttl, cfg, gi, lastDone, clean, faults, changes>>

\* ALTER TABLE t MODIFY SETTING ttl_only_drop_parts = 1, ...
AlterSetting ==
    /\ pc = "alterSetting"
    /\ pc' = "alterTTL" /\ alters' = alters + 1
    /\ UNCHANGED <<settings, ttl, pol, cfg, gi, ti, lastDone, clean, torn, faults, changes>>

\* ALTER TABLE t MODIFY TTL ...
AlterTTL ==
    /\ pc = "alterTTL"
    /\ ttl' = [ttl EXCEPT ![G.tables[ti]] = Want(cfg, G)]
    /\ alters' = alters + 1
    /\ NextTable("alterSetting")
    /\ torn' = [torn EXCEPT ![gi] = TRUE]
    /\ UNCHANGED <<settings, pol, cfg, gi, lastDone, clean, faults, changes>>

\* putSetting(key, desired)
Put ==
    /\ pc = "put"
    /\ settings' = [settings EXCEPT ![G.key] = Want(cfg, G)]
    /\ NextGroup
    /\ torn' = [torn EXCEPT ![gi] = FALSE]
    /\ UNCHANGED <<ttl, pol, cfg, alters, clean, faults, changes>>

Running == pc \in {"get", "inval", "alterSetting", "alterTTL", "alterPolicy", "put"}

\* a statement fails (not executed) or the process dies between two statements
Fault ==
    /\ Running /\ faults < MaxFaults
    /\ pc' \in {"idle", "failed"} /\ faults' = faults + 1
    /\ UNCHANGED <<settings, ttl, pol, cfg, gi, ti, alters, lastDone, clean, torn, changes>>

ChangeConfig ==
    /\ pc \in {"idle", "failed", "done"} /\ changes < MaxChanges
    /\ \E c \in Configs : c # cfg /\ cfg' = c
    /\ changes' = changes + 1 /\ pc' = "idle"
    /\ UNCHANGED <<settings, ttl, pol, gi, ti, alters, lastDone, clean, torn, faults>>

Next == Start \/ Get \/ Invalidate \/ AlterPolicy \/ AlterSetting \/ AlterTTL \/ Put \/ Fault \/ ChangeConfig
Spec == Init /\ [][Next]_vars

-----------------------------------------------------------------------------
GroupSet == {Groups[j] : j \in 1..Len(Groups)}
TabSet(g) == {g.tables[i] : i \in 1..Len(g.tables)}

\* the applied value is recorded only after all tables of the group were altered
RecordAfterAlters ==
    pc = "put" => \A t \in TabSet(G) : (IF G.kind = "policy" THEN pol[t] ELSE ttl[t]) = Want(cfg, G)

\* after a completed run every table has the configured retention
Converged ==
    pc = "done" =>
        \A g \in GroupSet : \A t \in TabSet(g) :
            IF g.kind = "policy" THEN (cfg.policy # "" => pol[t] = cfg.policy)
            ELSE ttl[t] = Want(cfg, g)

\* Converged, except for the one history in which the code is known to diverge (known finding
\* revert-after-interrupted-change): a run with another configuration altered tables of group g and was interrupted
\* before recording its value, and the configuration was then reverted to the one the marker still holds, so the
\* group is skipped.  Everything else about Converged is still demanded.
GroupIdx == 1..Len(Groups)
ConvergedModuloRevert ==
    pc = "done" =>
        \A j \in GroupIdx : \A t \in TabSet(Groups[j]) :
            \/ IF Groups[j].kind = "policy" THEN (cfg.policy # "" => pol[t] = cfg.policy)
               ELSE ttl[t] = Want(cfg, Groups[j])
            \/ torn[j] /\ settings[Groups[j].key] = Want(cfg, Groups[j])

\* running again with unchanged configuration issues no ALTER statement
RerunIsNoOp == clean => alters = 0
=============================================================================

---------------------------- MODULE Trace_Migrate ----------------------------
(* Trace validation for Migrate: the statement log of the REAL maintenance.Update (run against the     *)
(* fake clickhouse.Conn, with injected failures and crashes, restarted until it completes) must be a   *)
(* behaviour of Migrate.  Every statement the code sends is checked to be the statement the model      *)
(* expects at that point (stream key, script index, version written), also when it fails.              *)
EXTENDS Migrate, Json, TLCExt

TraceLog == ndJsonDeserialize("trace.ndjson")
VARIABLE l
tvars == <<vars, l>>

Ev == TraceLog[l]
More == l <= Len(TraceLog)
Is(e) == More /\ Ev.ev = e
Consume == l' = l + 1
Effect == Ev.st \in {"ok", "crash-after"}      \* the statement was executed by the database
NoEffect == Ev.st \in {"fail", "crash-before"}  \* the statement was not executed

TraceInit == Init /\ l = 1

TraceReset ==
    /\ Is("Reset") /\ Consume
    /\ cat' = {} /\ cols' = {} /\ ver' = [k \in Keys |-> 0] /\ done' = [k \in Keys |-> {}]
    /\ pc' = "idle" /\ si' = 1 /\ cur' = 0 /\ faults' = 0 /\ refused' = FALSE

TraceStart == Is("Start") /\ Start /\ Consume

TraceCreateVer ==
    /\ Is("CreateVer")
    /\ \/ Ev.obj = "ver" /\ pc = "createVer" /\ (IF Effect THEN CreateVer ELSE NoEffect /\ UNCHANGED vars)
       \/ Ev.obj = "ver_dist" /\ pc = "createVerDist" /\ (IF Effect THEN CreateVerDist ELSE NoEffect /\ UNCHANGED vars)
    /\ Consume

TraceReadVer ==
    /\ Is("ReadVer")
    /\ pc = "readVer" /\ Ev.k = K
    /\ Ev.tbl = (IF Dist THEN "ver_dist" ELSE "ver")
    /\ (IF Effect THEN ReadVer /\ Ev.v = ver[K] ELSE NoEffect /\ UNCHANGED vars)
    /\ Consume

TraceExec ==
    /\ Is("Exec")
    /\ pc = "exec" /\ Ev.k = K /\ Ev.i = cur + 1
    /\ CASE Effect -> Exec /\ pc' = "record"
         [] NoEffect -> UNCHANGED vars
         [] OTHER -> Exec /\ pc' = "failed"          \* "err": the database refused the statement
    /\ Consume

TraceRecordVer ==
    /\ Is("RecordVer")
    /\ pc = "record" /\ Ev.k = K /\ Ev.v = cur + 1
    /\ (IF Effect THEN Record ELSE NoEffect /\ UNCHANGED vars)
    /\ Consume

TraceCrash == Is("Crash") /\ Consume /\ pc' = "idle" /\ UNCHANGED <<cat, cols, ver, done, si, cur, faults, refused>>

TraceReturnErr ==
    /\ Is("ReturnErr") /\ Consume
    /\ pc # "finished"
    /\ pc' = "failed" /\ UNCHANGED <<cat, cols, ver, done, si, cur, faults, refused>>

TraceReturnOK == Is("ReturnOK") /\ pc = "finished" /\ Consume /\ UNCHANGED vars

TraceNext ==
    \/ TraceReset \/ TraceStart \/ TraceCreateVer \/ TraceReadVer \/ TraceExec \/ TraceRecordVer
    \/ TraceCrash \/ TraceReturnErr \/ TraceReturnOK

TraceSpec == TraceInit /\ [][TraceNext]_tvars

Accept == (l = Len(TraceLog) + 1) => (PrintT("TRACE-ACCEPTED") /\ TLCSet("exit", TRUE))
HW == TLCGetOrDefault(1, 0)
HighWaterPrint == (l > HW) => (PrintT(<<"HW", l>>) /\ TLCSet(1, l))
=============================================================================

------------------------------- MODULE Migrate -------------------------------
(***************************************************************************)
(* Schema initialisation of qryn: ctrl/qryn/maintenance/update.go          *)
(*   Update        = streams in a fixed order (log, [log_dist], traces,    *)
(*                   [traces_dist], profiles, [profiles_dist])             *)
(*   updateScripts = CREATE ver [, ver_dist]; SELECT max(ver) WHERE k;     *)
(*                   for i in ver..len-1: exec(scripts[i]);                *)
(*                                        INSERT INTO ver (k, i+1)         *)
(* one action per statement sent to the database.  The migration scripts   *)
(* are NOT hand-written here: the constant Scripts is generated from the   *)
(* real ctrl/qryn/sql/*.sql files (cmd/c18 ops) as abstract DDL ops, so    *)
(* TLC judges the scripts that are in the tree.                            *)
(*                                                                         *)
(* Faults: a statement may fail without effect (Fail: error returned,      *)
(* Update returns), the process may die between any two steps (Crash);     *)
(* afterwards initialisation is started again (Start).                     *)
(***************************************************************************)
EXTENDS Integers, Sequences, FiniteSets, TLC

CONSTANTS
    Order,       \* sequence of stream keys in execution order, e.g. <<1, 2, 5>>
    Scripts,     \* [stream key -> Seq(op)], op = [kind, obj, obj2, adds, tcols]
    Dist,        \* TRUE: ver_dist is created and read
    MaxFaults    \* bound on Crash + Fail steps

VARIABLES
    cat,      \* set of existing objects (tables, views)
    cols,     \* set of <<table, column>>
    ver,      \* [stream key -> Nat]: max recorded version
    done,     \* [stream key -> SUBSET Nat]: scripts whose statement completed at least once (history)
    pc,       \* "idle" | "createVer" | "createVerDist" | "readVer" | "exec" | "record" | "finished" | "failed"
    si,       \* index into Order of the stream being processed
    cur,      \* number of scripts applied according to this run
    faults,   \* faults so far
    refused   \* TRUE iff the last run stopped because the DATABASE refused a statement (not an injected fault)

vars == <<cat, cols, ver, done, pc, si, cur, faults, refused>>

Keys == {Order[i] : i \in 1..Len(Order)}
K == Order[si]
NScripts(k) == Len(Scripts[k])

\* ---- semantics of one abstract DDL op on the catalogue: [ok, cat, cols]
ColsOf(t, cs) == {c \in cs : c[1] = t}
Apply(op, ct, cs) ==
    CASE op.kind = "CreateINE" ->
            IF op.obj \in ct THEN [ok |-> TRUE, cat |-> ct, cols |-> cs]
            ELSE [ok |-> TRUE, cat |-> ct \cup {op.obj}, cols |-> cs \cup {<<op.obj, op.tcols[j]>> : j \in 1..Len(op.tcols)}]
      [] op.kind = "Create" ->
            IF op.obj \in ct THEN [ok |-> FALSE, cat |-> ct, cols |-> cs]
            ELSE [ok |-> TRUE, cat |-> ct \cup {op.obj}, cols |-> cs \cup {<<op.obj, op.tcols[j]>> : j \in 1..Len(op.tcols)}]
      [] op.kind = "DropIE" -> [ok |-> TRUE, cat |-> ct \ {op.obj}, cols |-> cs \ ColsOf(op.obj, cs)]
      [] op.kind = "Drop" ->
            IF op.obj \in ct THEN [ok |-> TRUE, cat |-> ct \ {op.obj}, cols |-> cs \ ColsOf(op.obj, cs)]
            ELSE [ok |-> FALSE, cat |-> ct, cols |-> cs]
      [] op.kind \in {"Rename", "RenameIE"} ->
            IF op.obj \notin ct
              THEN [ok |-> (op.kind = "RenameIE"), cat |-> ct, cols |-> cs]
              ELSE IF op.obj2 \in ct THEN [ok |-> FALSE, cat |-> ct, cols |-> cs]
              ELSE [ok |-> TRUE, cat |-> (ct \ {op.obj}) \cup {op.obj2},
                    cols |-> (cs \ ColsOf(op.obj, cs)) \cup {<<op.obj2, c[2]>> : c \in ColsOf(op.obj, cs)}]
      [] op.kind = "Alter" ->
            IF op.obj \notin ct
                 \/ \E j \in 1..Len(op.adds) : ~op.adds[j].guarded /\ <<op.obj, op.adds[j].col>> \in cs
              THEN [ok |-> FALSE, cat |-> ct, cols |-> cs]
              ELSE [ok |-> TRUE, cat |-> ct, cols |-> cs \cup {<<op.obj, op.adds[j].col>> : j \in 1..Len(op.adds)}]
      [] op.kind = "Insert" -> [ok |-> op.obj \in ct, cat |-> ct, cols |-> cs]
      [] OTHER -> [ok |-> FALSE, cat |-> ct, cols |-> cs]

\* ---- a complete fault-free run from a database state: used to state restartability
RECURSIVE RunScripts(_, _, _, _)
RunScripts(k, i, ct, cs) ==
    IF i > NScripts(k) THEN [ok |-> TRUE, cat |-> ct, cols |-> cs]
    ELSE LET r == Apply(Scripts[k][i], ct, cs) IN
         IF ~r.ok THEN [ok |-> FALSE, cat |-> ct, cols |-> cs]
         ELSE RunScripts(k, i + 1, r.cat, r.cols)

RECURSIVE RunStreams(_, _, _, _)
RunStreams(s, ct, cs, vr) ==
    IF s > Len(Order) THEN [ok |-> TRUE, cat |-> ct, cols |-> cs]
    ELSE LET k == Order[s]
             r == RunScripts(k, vr[k] + 1, ct, cs) IN
         IF ~r.ok THEN [ok |-> FALSE, cat |-> ct, cols |-> cs]
         ELSE RunStreams(s + 1, r.cat, r.cols, vr)

VerTables == IF Dist THEN {"ver", "ver_dist"} ELSE {"ver"}
FreshRun(ct, cs, vr) == RunStreams(1, ct \cup VerTables, cs, vr)
Final == FreshRun({}, {}, [k \in Keys |-> 0])

Init ==
    /\ cat = {} /\ cols = {}
    /\ ver = [k \in Keys |-> 0]
    /\ done = [k \in Keys |-> {}]
    /\ pc = "idle" /\ si = 1 /\ cur = 0 /\ faults = 0 /\ refused = FALSE

\* initialisation is started (again)
Start ==
    /\ pc \in {"idle", "failed", "finished"}
    /\ pc' = "createVer" /\ si' = 1 /\ cur' = 0 /\ refused' = FALSE
    /\ UNCHANGED <<cat, cols, ver, done, faults>>

NextStream ==
    IF si < Len(Order) THEN pc' = "createVer" /\ si' = si + 1 /\ cur' = 0
    ELSE pc' = "finished" /\ UNCHANGED <<si, cur>>

CreateVer ==
    /\ pc = "createVer"
    /\ cat' = cat \cup {"ver"}
    /\ pc' = IF Dist THEN "createVerDist" ELSE "readVer"
    /\ UNCHANGED <<cols, ver, done, si, cur, faults, refused>>

CreateVerDist ==
    /\ pc = "createVerDist"
    /\ cat' = cat \cup {"ver_dist"}
    /\ pc' = "readVer"
    /\ UNCHANGED <<cols, ver, done, si, cur, faults, refused>>

\* SELECT max(ver) FROM ver WHERE k = K
ReadVer ==
    /\ pc = "readVer"
    /\ IF ver[K] < NScripts(K)
         THEN pc' = "exec" /\ cur' = ver[K] /\ UNCHANGED si
         ELSE NextStream
    /\ UNCHANGED <<cat, cols, ver, done, faults, refused>>

\* exec(scripts[cur]) : the database applies the statement or refuses it
Exec ==
    /\ pc = "exec"
    /\ LET r == Apply(Scripts[K][cur + 1], cat, cols) IN
         IF r.ok
           THEN /\ cat' = r.cat /\ cols' = r.cols
                /\ done' = [done EXCEPT ![K] = @ \cup {cur + 1}]
                /\ pc' = "record"
                /\ UNCHANGED refused
           ELSE /\ pc' = "failed" /\ refused' = TRUE
                /\ UNCHANGED <<cat, cols, done>>
    /\ UNCHANGED <<ver, si, cur, faults>>

\* INSERT INTO ver (k, ver) VALUES (K, cur+1)
Record ==
    /\ pc = "record"
    /\ ver' = [ver EXCEPT ![K] = IF cur + 1 > @ THEN cur + 1 ELSE @]
    /\ IF cur + 1 < NScripts(K)
         THEN pc' = "exec" /\ cur' = cur + 1 /\ UNCHANGED si
         ELSE NextStream
    /\ UNCHANGED <<cat, cols, done, faults, refused>>

Running == pc \in {"createVer", "createVerDist", "readVer", "exec", "record"}

\* the process dies between two statements (after the previous one took effect, before the next is sent)
Crash ==
    /\ Running /\ faults < MaxFaults
    /\ pc' = "idle" /\ faults' = faults + 1
    /\ UNCHANGED <<cat, cols, ver, done, si, cur, refused>>

\* the next statement returns an error without having been executed; Update returns the error
Fail ==
    /\ Running /\ faults < MaxFaults
    /\ pc' = "failed" /\ faults' = faults + 1 /\ refused' = FALSE
    /\ UNCHANGED <<cat, cols, ver, done, si, cur>>

Next == Start \/ CreateVer \/ CreateVerDist \/ ReadVer \/ Exec \/ Record \/ Crash \/ Fail
Spec == Init /\ [][Next]_vars

-----------------------------------------------------------------------------
\* a version is never recorded for a script that did not complete
VerOnlyAfterComplete == \A k \in Keys : \A i \in 1..ver[k] : i \in done[k]

\* from every reachable database state a fault-free run completes and ends in the schema of an
\* uninterrupted run ("can simply be re-run")
Restartable ==
    LET r == FreshRun(cat, cols, ver) IN r.ok /\ r.cat = Final.cat /\ r.cols = Final.cols

\* the database never refuses a migration statement
NeverRefused == ~refused

\* a finished run has recorded every script
FinishedMeansAll == pc = "finished" => \A k \in Keys : ver[k] = NScripts(k)

\* versions never decrease
VerMonotone == [][\A k \in Keys : ver'[k] >= ver[k]]_vars
=============================================================================

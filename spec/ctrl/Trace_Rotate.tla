---------------------------- MODULE Trace_Rotate ----------------------------
(* Trace validation for Rotate: the statement log of the REAL maintenance.Rotate (over the fake           *)
(* clickhouse.Conn, with injected failures/crashes, re-runs and configuration changes) must be a          *)
(* behaviour of Rotate.  Every statement is checked to be the one the model expects at that point:        *)
(* the settings key and the value read, the table altered and the value applied, the value recorded.      *)
EXTENDS Rotate, Json, TLCExt

TraceLog == ndJsonDeserialize("trace.ndjson")
VARIABLE l
tvars == <<vars, l>>

Ev == TraceLog[l]
More == l <= Len(TraceLog)
Is(e) == More /\ Ev.ev = e
Consume == l' = l + 1
Effect == Ev.st \in {"ok", "crash-after"}
NoEffect == Ev.st \in {"fail", "crash-before"}

TraceInit == Init /\ l = 1

TraceReset ==
    /\ Is("Reset") /\ Consume
    /\ settings' = [k \in Keys |-> ""]
    /\ ttl' = [t \in Tables |-> ""] /\ pol' = [t \in Tables |-> ""]
    /\ cfg' = [policy |-> Ev.policy, ttl |-> Ev.ttl]
    /\ pc' = "idle" /\ gi' = 1 /\ ti' = 1 /\ alters' = 0 /\ lastDone' = NoCfg /\ clean' = FALSE
    /\ torn' = [j \in 1..Len(Groups) |-> FALSE]
    /\ faults' = 0 /\ changes' = 0

\* a run starts, possibly with another configuration
TraceStart ==
    /\ Is("Start") /\ Consume
    /\ pc \in {"idle", "failed", "done"}
    /\ cfg' = [policy |-> Ev.policy, ttl |-> Ev.ttl]
    /\ pc' = "get" /\ gi' = 1 /\ ti' = 1 /\ alters' = 0
    /\ clean' = (lastDone = cfg')
    /\ lastDone' = NoCfg
    /\ UNCHANGED <<settings, ttl, pol, torn, faults, changes>>

TraceGet ==
    /\ Is("Get") /\ pc = "get"
    /\ Ev.key = G.key
    /\ (IF Effect THEN Get /\ Ev.val = settings[G.key] ELSE NoEffect /\ UNCHANGED vars)
    /\ Consume

\* a group that the code skips without reading its marker (storage policy not configured)
SilentSkip ==
    /\ pc = "get" /\ G.kind = "policy" /\ cfg.policy = ""
    /\ More /\ (IF Ev.ev = "Get" THEN Ev.key # G.key ELSE TRUE)
    /\ Get /\ UNCHANGED l

TraceAlterPolicy ==
    /\ Is("AlterPolicy") /\ pc = "alterPolicy"
    /\ Ev.table = G.tables[ti] /\ Ev.val = cfg.policy
    /\ (IF Effect THEN AlterPolicy ELSE NoEffect /\ UNCHANGED vars)
    /\ Consume

TraceAlterSetting ==
    /\ Is("AlterSetting") /\ pc = "alterSetting"
    /\ Ev.table = G.tables[ti]
    /\ (IF Effect THEN AlterSetting ELSE NoEffect /\ UNCHANGED vars)
    /\ Consume

TraceAlterTTL ==
    /\ Is("AlterTTL") /\ pc = "alterTTL"
    /\ Ev.table = G.tables[ti] /\ Ev.val = Want(cfg, G)
    /\ (IF Effect THEN AlterTTL ELSE NoEffect /\ UNCHANGED vars)
    /\ Consume

\* the clearing of the marker before the first ALTER of a group
TraceInvalidate ==
    /\ Is("Put") /\ pc = "inval"
    /\ Ev.key = G.key /\ Ev.val = ""
    /\ (IF Effect THEN Invalidate ELSE NoEffect /\ UNCHANGED vars)
    /\ Consume

TracePut ==
    /\ Is("Put") /\ pc = "put"
    /\ Ev.key = G.key /\ Ev.val = Want(cfg, G)
    /\ (IF Effect THEN Put ELSE NoEffect /\ UNCHANGED vars)
    /\ Consume

TraceStop ==
    /\ More /\ Ev.ev \in {"Crash", "ReturnErr"} /\ Consume
    /\ pc' = "failed"
    /\ UNCHANGED <<settings, ttl, pol, cfg, gi, ti, alters, lastDone, clean, torn, faults, changes>>

TraceReturnOK == Is("ReturnOK") /\ pc = "done" /\ Consume /\ UNCHANGED vars

TraceNext ==
    \/ TraceReset \/ TraceStart \/ TraceGet \/ SilentSkip \/ TraceAlterPolicy \/ TraceAlterSetting \/ TraceAlterTTL
    \/ TraceInvalidate \/ TracePut \/ TraceStop \/ TraceReturnOK

TraceSpec == TraceInit /\ [][TraceNext]_tvars

Accept == (l = Len(TraceLog) + 1) => (PrintT("TRACE-ACCEPTED") /\ TLCSet("exit", TRUE))
HW == TLCGetOrDefault(1, 0)
HighWaterPrint == (l > HW) => (PrintT(<<"HW", l>>) /\ TLCSet(1, l))
=============================================================================

SPECIFICATION Spec
CONSTANTS
  Signals = {"logs", "metrics"}
  Keys = {1, 2}
  Slots = {0, 1}
  SlotsPerDay = 1
  MaxPushes = 2
  MaxItems = 2
  MaxFaults = 1
  MaxRetries = 1
  MaxClears = 1
  MaxLost = 1
  MaxBad = 1
  MaxQueries = 0
  CacheSetBeforeInsert = FALSE
  CacheKeyIgnoresType = FALSE
  ReaderFiltersType = TRUE
  Guided = FALSE
  ExportView = FALSE
INVARIANTS TypeOK AckedReadable RetryIdempotentEnough RefusedResidue NoPhantom SearchImpliesFetch NoCrossSignal AckedStored
CHECK_DEADLOCK FALSE

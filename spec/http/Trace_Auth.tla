----------------------------- MODULE Trace_Auth -----------------------------
(* Trace validation for Auth: every request sent to the REAL router (in process) or to the REAL binary      *)
(* (black box) together with what was observed - status, whether the route's handler was entered, whether   *)
(* a back-end was touched, which marker headers the answer carries - must be a behaviour of Auth: the       *)
(* request is loaded from the log, travels through the chain of Auth.tla, and the outcome the model         *)
(* reaches must be the observed one before the next request is loaded.                                      *)
EXTENDS Auth, Json, TLCExt

TraceLog == ndJsonDeserialize("trace.ndjson")
VARIABLE l      \* index of the next event to load; the event in flight is l - 1
tvars == <<vars, l>>

More == l <= Len(TraceLog)
Cur == TraceLog[l - 1]
MarkSet(e) == {e.marks[i] : i \in 1..Len(e.marks)}

\* the state reached by the model is what was observed for event e
Matches(e) ==
    /\ (e.hr # "unknown") => (handlerRan = (e.hr = "yes"))
    /\ backendTouched = e.be
    /\ IF handlerRan THEN TRUE          \* status and headers of a handler are its own business
       ELSE IF Registered(req) THEN status = e.status /\ marks = MarkSet(e)
       ELSE e.status \in {301, 404, 405}

TraceInit ==
    /\ l = 1
    /\ cfg = [cred |-> [u |-> <<>>, p |-> <<>>], cors |-> FALSE]
    /\ req = [route |-> [id |-> "", group |-> "none", methods |-> {}, light |-> TRUE], method |-> "",
              hdr |-> NonBasic("absent"), ae |-> "none", origin |-> "none"]
    /\ stage = "done" /\ mi = 0
    /\ handlerRan = FALSE /\ backendTouched = FALSE /\ status = 0 /\ wrapped = FALSE
    /\ marks = {} /\ passed = {}

TraceLoad ==
    /\ stage = "done" /\ More
    /\ (l > 1) => Matches(Cur)
    /\ LET e == TraceLog[l] IN
       /\ cfg' = [cred |-> [u |-> e.cfg.u, p |-> e.cfg.p], cors |-> e.cfg.cors]
       /\ req' = [route |-> [id |-> e.route, group |-> e.group, methods |-> (IF e.reg THEN {e.method} ELSE {}), light |-> TRUE],
                  method |-> e.method, hdr |-> [kind |-> e.hdr.kind, enc |-> e.hdr.enc, payload |-> e.hdr.payload],
                  ae |-> e.ae, origin |-> e.origin]
    /\ stage' = "match" /\ mi' = 0
    /\ handlerRan' = FALSE /\ backendTouched' = FALSE /\ status' = 0 /\ wrapped' = FALSE
    /\ marks' = {} /\ passed' = {}
    /\ l' = l + 1

\* the handler: what it answered and whether it used the back-end is taken from the log
TraceHandler ==
    /\ stage = "handler"
    /\ handlerRan' = TRUE
    /\ backendTouched' = Cur.be
    /\ status' = Cur.status
    /\ stage' = "done"
    /\ UNCHANGED <<cfg, req, mi, wrapped, marks, passed>>

TraceNext ==
    \/ TraceLoad
    \/ ((Match \/ AuthMw \/ GzipMw \/ CorsMw \/ LogMw \/ TraceHandler) /\ UNCHANGED l)

TraceSpec == TraceInit /\ [][TraceNext]_tvars

Accept == (l = Len(TraceLog) + 1 /\ stage = "done" /\ Matches(Cur)) => (PrintT("TRACE-ACCEPTED") /\ TLCSet("exit", TRUE))
HW == TLCGetOrDefault(1, 0)
HighWaterPrint == (l > HW) => (PrintT(<<"HW", l>>) /\ TLCSet(1, l))
=============================================================================

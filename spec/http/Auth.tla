------------------------------- MODULE Auth -------------------------------
(* C20: with basic auth configured no route is reachable without the credentials.                           *)
(*                                                                                                          *)
(* One behaviour = one HTTP request travelling through the router main() builds:                            *)
(*   Match (gorilla/mux: path + method)  ->  the router-wide middlewares in the order of the                *)
(*   app.Use(...) calls (constant Chain, read off main.go by the driver)  ->  the route's handler.          *)
(* Middlewares are applied by mux only to a request that matched a route + method; a request that matched   *)
(* nothing is answered by mux itself (404/405/301) and no middleware and no handler runs.                   *)
(*                                                                                                          *)
(* Strings are abstract: sequences over Sym = {"a","b",":"}; the driver maps "a" and "b" to two distinct    *)
(* colon-free chunks of equal length (an injective homomorphism, so (in)equality of abstract strings is     *)
(* (in)equality of the concrete ones).  The Authorization header is                                         *)
(*   kind    absent | noSpace (one token) | otherScheme (two tokens, first is not "Basic") | basic          *)
(*   enc     how the token after "Basic " was produced from payload: clean (StdEncoding), trailingJunk      *)
(*           (clean encoding followed by bytes outside the alphabet), leadingJunk (junk first)              *)
(*   payload the abstract string that was encoded                                                           *)
(* One operator per code-level rule of reader/utils/middleware/basic_auth.go: SplitN2 = strings.SplitN(s,   *)
(* ":", 2), Decode = base64.StdEncoding.DecodeString with the error IGNORED (the bytes decoded before the   *)
(* first bad byte are used).  The property does not fix whether junk after a complete encoding of the right *)
(* pair is tolerated, so the decoder's strictness is left open (\E lenient); everything else is exact.      *)
EXTENDS Integers, Sequences, FiniteSets, TLC

CONSTANTS
    Chain,       \* sequence over {"auth","gzip","cors","log"}: the app.Use order in main.go
    Routes,      \* set of [id, group, methods, light]: walked off the real router; group "none" = unregistered path;
                 \* light = only a few headers are tried on it
    Methods,     \* every HTTP method tried
    Creds,       \* set of [u, p]: configured login / password (abstract strings, u colon-free and non-empty)
    MaxLen,      \* every payload up to this length is enumerated on the deep routes
    DeepRoutes,  \* ids of the routes that get every payload; the others get one representative per class
    HandlerStatus, \* statuses a handler may answer with (a placeholder set for model checking)
    CaseFilter(_, _, _, _)  \* (cred, cors, route, method): which combinations are enumerated (bounds of the run)

Sym == {"a", "b", ":"}
MwNames == {"auth", "gzip", "cors", "log"}
ASSUME Chain \in Seq(MwNames)

VARIABLES cfg, req, stage, mi, handlerRan, backendTouched, status, wrapped, marks, passed
vars == <<cfg, req, stage, mi, handlerRan, backendTouched, status, wrapped, marks, passed>>

-----------------------------------------------------------------------------
(* abstract strings *)
Right(c) == c.u \o <<":">> \o c.p
HasColon(s) == \E i \in 1..Len(s) : s[i] = ":"
FirstColon(s) == CHOOSE i \in 1..Len(s) : s[i] = ":" /\ \A j \in 1..(i - 1) : s[j] # ":"
\* strings.SplitN(s, ":", 2)
SplitN2(s) == IF HasColon(s)
              THEN <<SubSeq(s, 1, FirstColon(s) - 1), SubSeq(s, FirstColon(s) + 1, Len(s))>>
              ELSE <<s>>
IsPrefix(x, s) == Len(x) <= Len(s) /\ SubSeq(s, 1, Len(x)) = x
IsSuffix(x, s) == Len(x) <= Len(s) /\ SubSeq(s, Len(s) - Len(x) + 1, Len(s)) = x
Tup(f) == [i \in 1..Len(f) |-> f[i]]
BSeq(n) == UNION {[1..k -> Sym] : k \in 0..n}
\* edit neighbourhood of the right pair: proper prefixes and suffixes, one symbol appended / prepended /
\* substituted / deleted
Neigh(r) ==
    {SubSeq(r, 1, k) : k \in 0..(Len(r) - 1)} \cup {SubSeq(r, k, Len(r)) : k \in 2..(Len(r) + 1)}
    \cup {r \o <<s>> : s \in Sym} \cup {<<s>> \o r : s \in Sym}
    \cup {[r EXCEPT ![i] = s] : i \in 1..Len(r), s \in Sym}
    \cup {SubSeq(r, 1, i - 1) \o SubSeq(r, i + 1, Len(r)) : i \in 1..Len(r)}
    \cup {r \o <<":">> \o <<s>> : s \in Sym}
\* the same characters with the separator somewhere else (a comparison of the concatenation accepts these)
Moved(c) == LET w == c.u \o c.p IN
    {SubSeq(w, 1, k) \o <<":">> \o SubSeq(w, k + 1, Len(w)) : k \in 0..Len(w)} \ {Right(c)}
Payloads(c) == BSeq(MaxLen) \cup Neigh(Right(c)) \cup Moved(c) \cup {Right(c)}
RepPayloads(c) ==
    {Right(c), <<>>, c.u, c.u \o c.p, SubSeq(Right(c), 1, Len(Right(c)) - 1), Tail(Right(c)),
     Right(c) \o <<":">>, Right(c) \o <<":", "a">>, Right(c) \o <<"a">>, c.u \o <<":">>, <<":">> \o c.p,
     c.p \o <<":">> \o c.u, c.u \o <<"a", ":">> \o c.p, <<"b">> \o Right(c)} \cup Moved(c)

Basic(e, pl) == [kind |-> "basic", enc |-> e, payload |-> pl]
NonBasic(k) == [kind |-> k, enc |-> "clean", payload |-> <<>>]
Encs == {"clean", "trailingJunk", "leadingJunk"}
NonBasicHdrs == {NonBasic(k) : k \in {"absent", "noSpace", "otherScheme"}}
FullHdrs(c) == NonBasicHdrs \cup {Basic(e, pl) : e \in Encs, pl \in Payloads(c)}
RepHdrs(c) == NonBasicHdrs \cup {Basic("clean", pl) : pl \in RepPayloads(c)}
              \cup {Basic(e, pl) : e \in {"trailingJunk", "leadingJunk"}, pl \in {Right(c), <<>>, c.u}}
FewHdrs(c) == {NonBasic("absent"), Basic("clean", Right(c)), Basic("clean", c.u \o <<":">>)}

Registered(r) == r.method \in r.route.methods
HdrsFor(c, rt, m) == IF m \notin rt.methods \/ rt.light THEN FewHdrs(c)
                     ELSE IF rt.id \in DeepRoutes THEN FullHdrs(c) ELSE RepHdrs(c)

-----------------------------------------------------------------------------
(* what the request carries, in the words of the property *)
\* the header text starts with the scheme and the exact encoding of the configured pair
Carries == req.hdr.kind = "basic" /\ req.hdr.enc \in {"clean", "trailingJunk"}
           /\ Tup(req.hdr.payload) = Right(cfg.cred)
\* exactly the right credentials
RightCreds == Carries /\ req.hdr.enc = "clean"
User(pl) == SplitN2(pl)[1]
Pass(pl) == SplitN2(pl)[2]
Class ==
    LET h == req.hdr  pl == Tup(h.payload)  c == cfg.cred  r == Right(cfg.cred) IN
    IF h.kind # "basic" THEN h.kind
    ELSE IF h.enc # "clean" THEN (IF Carries THEN "rightThenJunk" ELSE "malformedB64")
    ELSE IF pl = r THEN "right"
    ELSE IF ~HasColon(pl) THEN "noColon"
    ELSE IF IsPrefix(pl, r) THEN "properPrefix"
    ELSE IF IsSuffix(pl, r) THEN "properSuffix"
    ELSE IF User(pl) = c.u /\ Len(Pass(pl)) > Len(c.p) /\ IsPrefix(c.p, Pass(pl)) /\ Pass(pl)[Len(c.p) + 1] = ":"
         THEN "extraColon"
    ELSE IF User(pl) # c.u THEN "wrongUser"
    ELSE "wrongPassword"
\* the header classes the statement calls malformed: 400 is allowed for them (401 always is)
MalformedClasses == {"noSpace", "otherScheme", "malformedB64", "noColon"}

-----------------------------------------------------------------------------
TypeOK ==
    /\ stage \in {"match", "handler", "done"} \cup MwNames
    /\ handlerRan \in BOOLEAN /\ backendTouched \in BOOLEAN /\ wrapped \in BOOLEAN
    /\ marks \subseteq {"wwwauth", "cors"} /\ passed \subseteq MwNames

Init ==
    \E c \in Creds, co \in BOOLEAN, rt \in Routes, m \in Methods, ae \in {"none", "gzip"}, og \in {"none", "some"} :
      /\ CaseFilter(c, co, rt, m)
      /\ \E h \in HdrsFor(c, rt, m) :
        /\ cfg = [cred |-> c, cors |-> co]
        /\ req = [route |-> rt, method |-> m, hdr |-> h, ae |-> ae, origin |-> og]
        /\ stage = "match" /\ mi = 0
        /\ handlerRan = FALSE /\ backendTouched = FALSE /\ status = 0 /\ wrapped = FALSE
        /\ marks = {} /\ passed = {}

Advance == /\ mi' = mi + 1
           /\ stage' = IF mi + 1 > Len(Chain) THEN "handler" ELSE Chain[mi + 1]
Respond(code) == status' = code /\ stage' = "done" /\ mi' = mi

\* mux.Router.ServeHTTP / Match: middlewares wrap the handler of a MATCHED route only
Match ==
    /\ stage = "match"
    /\ IF Registered(req)
       THEN Advance /\ UNCHANGED status
       ELSE Respond(IF req.route.group = "none" THEN 404 ELSE 405)
    /\ UNCHANGED <<cfg, req, handlerRan, backendTouched, wrapped, marks, passed>>

\* base64.StdEncoding.DecodeString, error ignored: the bytes before the first bad byte
Decode(h) == IF h.enc = "leadingJunk" THEN <<>> ELSE Tup(h.payload)

\* middleware.BasicAuthMiddleware(login, pass)
AuthMw ==
    /\ stage = "auth"
    /\ passed' = passed \cup {"auth"}
    /\ LET h == req.hdr IN
       IF h.kind = "absent"
       THEN Respond(401) /\ marks' = marks \cup {"wwwauth"}
       ELSE /\ UNCHANGED marks
            /\ IF h.kind \in {"noSpace", "otherScheme"}
               THEN Respond(400)
               ELSE \E lenient \in (IF h.enc = "clean" THEN {TRUE} ELSE BOOLEAN) :
                      IF lenient
                      THEN LET pair == SplitN2(Decode(h)) IN
                           IF Len(pair) # 2 \/ pair[1] # cfg.cred.u \/ pair[2] # cfg.cred.p
                           THEN Respond(401)
                           ELSE Advance /\ UNCHANGED status
                      ELSE \E code \in {400, 401} : Respond(code)
    /\ UNCHANGED <<cfg, req, handlerRan, backendTouched, wrapped>>

\* middleware.AcceptEncodingMiddleware: wraps the writer, never answers by itself
GzipMw ==
    /\ stage = "gzip"
    /\ wrapped' = (req.ae = "gzip")
    /\ passed' = passed \cup {"gzip"}
    /\ Advance
    /\ UNCHANGED <<cfg, req, handlerRan, backendTouched, status, marks>>

\* middleware.CorsMiddleware (installed only when enabled): sets headers, never answers by itself - not even
\* an OPTIONS preflight
CorsMw ==
    /\ stage = "cors"
    /\ marks' = IF cfg.cors THEN marks \cup {"cors"} ELSE marks
    /\ passed' = IF cfg.cors THEN passed \cup {"cors"} ELSE passed
    /\ Advance
    /\ UNCHANGED <<cfg, req, handlerRan, backendTouched, status, wrapped>>

LogMw ==
    /\ stage = "log"
    /\ passed' = passed \cup {"log"}
    /\ Advance
    /\ UNCHANGED <<cfg, req, handlerRan, backendTouched, status, wrapped, marks>>

Handler ==
    /\ stage = "handler"
    /\ handlerRan' = TRUE
    /\ backendTouched' \in BOOLEAN
    /\ status' \in HandlerStatus
    /\ stage' = "done"
    /\ UNCHANGED <<cfg, req, mi, wrapped, marks, passed>>

Next == Match \/ AuthMw \/ GzipMw \/ CorsMw \/ LogMw \/ Handler
Spec == Init /\ [][Next]_vars

-----------------------------------------------------------------------------
(* the property *)
Done == stage = "done"
\* no handler and no back-end without the credentials - for every route, method, encoding and origin
NoAccessWithoutCreds == (handlerRan \/ backendTouched) => Carries
\* a registered route answers 401, or 400 for a malformed header
RejectedProperly ==
    (Done /\ Registered(req) /\ ~Carries) =>
        /\ status \in {400, 401}
        /\ (status = 400 => Class \in MalformedClasses)
\* the right credentials get through
RightPasses == (Done /\ Registered(req) /\ RightCreds) => handlerRan
\* nothing is reachable around the router-wide chain
UnregisteredNeverHandled == (Done /\ ~Registered(req)) => (~handlerRan /\ ~backendTouched /\ passed = {})
\* compression and CORS never bypass: a handler only runs behind the authentication middleware
NoBypass == handlerRan => "auth" \in passed
\* mechanism = definition
AuthorizedDef == RightCreds \/ (Carries /\ handlerRan)
MechanismIsDefinition == (Done /\ Registered(req)) => (handlerRan <=> AuthorizedDef)
=============================================================================

\* Unconditional Property: TLC reports the `lastFp starts at 0` counterexample of the streams writer (input: one batch,
\* two rows of the series with fingerprint 0).  Replace Property by ExportAndCheck to enumerate and print all cases.
SPECIFICATION Spec
CONSTANTS
  Bounds <- SmallBounds
  MaxTs = 2
  GuardStreams = FALSE
  GuardTail = FALSE
  GuardMatrix = TRUE
INVARIANTS TypeOK OffHazard HazardIsReal DocIsWF ListAlwaysWF Property
CHECK_DEADLOCK FALSE

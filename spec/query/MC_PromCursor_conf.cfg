SPECIFICATION Spec
CONSTANTS
  MaxTs = 6
  MaxLen = 4
  SeekMax = 7
  MaxCalls = 4
INVARIANTS Conforms
CHECK_DEADLOCK FALSE

----------------------------- MODULE LabelIndex -----------------------------
(* X06: the CONTENT of the label and series endpoints of the Loki and Prometheus read APIs.                      *)
(*                                                                                                               *)
(*   Loki        GET|POST /loki/api/v1/labels (= /loki/api/v1/label)      -> label NAMES                         *)
(*               GET|POST /loki/api/v1/label/{name}/values  [match[]..]   -> VALUES of one name                  *)
(*               GET|POST /loki/api/v1/series   match[]..                 -> label SETS                          *)
(*   Prometheus  GET|POST /api/v1/labels   [match[]..]                    -> label NAMES                         *)
(*               GET      /api/v1/label/{name}/values  [match[]..]        -> VALUES of one name                  *)
(*               GET|POST /api/v1/series   match[]..                      -> label SETS                          *)
(*                                                                                                               *)
(* DATABASE.  A stored series is (label set, signal type, days): the label set is a function from label names    *)
(* to values ("#" = the series does not carry the label, "" = it carries it with the empty value), the type is   *)
(* 1 (log stream, Loki push), 2 (metric series, remote write) or 0 (entries that are a log line AND a number:    *)
(* both signals), the days are the UTC days on which the writer emitted an index row for it (one time_series row *)
(* per (day, fingerprint, type); the materialized view time_series_gin_view derives one time_series_gin row per  *)
(* label the series CARRIES).  The fingerprint is a function of the label set alone (order free, type free).     *)
(* `flip`: the label document of day 2 lists the keys in another order than the one of day 1 (the writer keeps   *)
(* the order of the request; the fingerprint does not depend on it).                                             *)
(*                                                                                                               *)
(* DEFINITION (order free, Def..).    The series a request is about (Cand) are the series of the CALLED signal      *)
(* (Loki API: types 1 and 0; Prometheus API: types 2 and 0) that have an index row on a day of the window and    *)
(* that satisfy ANY of the match[] selectors (all of them when the request has none).  A selector holds as       *)
(* Prometheus / Loki label matchers do (Selector.tla, C17: a label the series does not carry has the value "";   *)
(* =~ / !~ are anchored); a bare metric name  m{..}  of the Prometheus syntax is the matcher __name__="m".       *)
(*      names   = the names carried by some series of Cand                                                       *)
(*      values  = the values of `name` over the series of Cand that carry it                                     *)
(*      series  = the DISTINCT label sets of Cand (a label set stored under several days, types or label         *)
(*                documents comes back once)                                                                     *)
(* The pseudo label __name__ ("n") is an ordinary stored label for both APIs; only the Prometheus selector       *)
(* syntax knows it.                                                                                              *)
(*                                                                                                               *)
(* MECHANISM (Mech.., transcription at table grain of reader/service/queryLabelsService.go Labels / Values /      *)
(* PromValues / Series, clickhouse_planner/planner_series.go, planner_values.go, planner_stream_select.go,       *)
(* planner_multi_stream_select.go, logql_parser.ParseSeries, the controllers' parameter parsing):                *)
(*      names :  SELECT DISTINCT key FROM time_series_gin WHERE type IN (T,0) AND date >= from AND date <= to    *)
(*      fp_sel:  SELECT fingerprint FROM time_series_gin WHERE date >= from AND type IN (T,0) AND (c_1 OR..OR c_n)*)
(*               GROUP BY fingerprint HAVING groupBitOr(bit_1 + .. + bit_n) = 2^n-1     -- NO upper date bound   *)
(*               one per match[] entry, joined by UNION ALL                                                      *)
(*      values:  SELECT DISTINCT val FROM time_series_gin WHERE date >= from AND date <= to AND key = name       *)
(*               AND type IN (T,0) [AND fingerprint IN fp_sel] LIMIT 10000                                       *)
(*      series:  SELECT DISTINCT labels FROM time_series WHERE date >= from AND date <= to AND                   *)
(*               fingerprint IN fp_sel AND type IN (T,0) LIMIT 10000       -- DISTINCT over the document TEXT    *)
(* parameterised by named quirks Q: the places where the code as written departs from the definition.            *)
(*      label_absent         a matcher on a label the series does not carry finds no index row (C07/C08/C17)     *)
(*      dup_keyorder         DISTINCT labels compares JSON text: the same label set in two key orders comes twice*)
(*      labels_match_ignored /api/v1/labels does not read match[]                                                *)
(*      bare_colon           ParseSeries recognises bare names by ^[a-zA-Z_]\w*: a metric name with a colon is   *)
(*                           handed to the LogQL parser -> error (series only; PromValues goes through PromQL)   *)
(*      goquote              Prom2LogqlMatch re-quotes matcher values with Go syntax (\x1b, \a, \v) that the LogQL  *)
(*                           parser reads as JSON strings -> error (label values of the Prometheus API only)     *)
(*      post_form            a POST form that carries match[] is refused: gorilla/schema "invalid path match[]"  *)
(*      limit                more than Limit (10000) values / label documents: the rest is dropped silently      *)
(* Mech({}) = Def is what TLC proves; every difference between Mech(as coded) and Def must be accounted for by a *)
(* quirk (FiredOf).  Repaired in /repo since (tools/props/x06.py REPAIRED; they stay as mutations of the         *)
(* mechanism that classify a regression): post_form, dup_keyorder (encodeLabels sorts the labels by name),       *)
(* bare_colon, goquote.  Still as coded: label_absent, labels_match_ignored, limit.                              *)
EXTENDS Integers, Sequences, FiniteSets, TLC

CONSTANTS Names,       \* the label names; "n" stands for __name__
          LSPool,      \* sequence of label sets: functions [Names -> {"#", "", "x", "xy"}]
          Limit,       \* the LIMIT of the values / series statements
          ColonVals,   \* the value atoms whose concrete form, used as a metric name, contains a colon
          CtrlVals     \* the value atoms whose concrete form contains a control character (Go quotes it as \x.., \a, \v)

Absent == "#"
\* the matcher semantics of C17 (Selector.tla): Full, Holds (definition), ValClause (the SQL value clause)
Sel == INSTANCE Selector WITH KV <- Names, GL <- {}, MaxSeries <- 0, MaxMatchers <- 0, SVals <- {"", "x", "xy"},
                              EqPats <- {}, RePats <- {}, Ops <- {}, BitWidth <- 64, AllowEmpty <- TRUE, AlwaysRow <- FALSE,
                              db <- {}, ms <- {}, ph <- ""

AllQuirks == {"label_absent", "dup_keyorder", "labels_match_ignored", "bare_colon", "goquote", "post_form", "limit"}
ErrQuirks == {"bare_colon", "goquote", "post_form"}      \* the quirks that turn an answer into an error

(* ------------------------------ the database ------------------------------ *)
\* a series: [l |-> index into LSPool, tp |-> 0..2, d |-> 1 ({1}) | 2 ({2}) | 3 ({1,2}), f |-> 0 | 1 (flip)]
LS(s)      == LSPool[s.l]
DaysOf(s)  == CASE s.d = 1 -> {1} [] s.d = 2 -> {2} [] OTHER -> {1, 2}
CarriedL(l) == {k \in Names : LSPool[l][k] # Absent}
Carried(s) == CarriedL(s.l)
\* the series as the matchers see it: absent = ""
AsPromL(l) == [k \in Names |-> IF LSPool[l][k] = Absent THEN "" ELSE LSPool[l][k]]
ApiTypes(api) == IF api = "loki" THEN {1, 0} ELSE {2, 0}
DbSet(db)  == {db[i] : i \in DOMAIN db}

(* ------------------------------- requests --------------------------------- *)
\* [api |-> "loki" | "prom", ep |-> "labels" | "values" | "series", from, to (days), name, sels, post]
\* a selector: [bare |-> "" | metric name atom, ms |-> set of [name, op, pat]]
SelMatchers(sel) == sel.ms \cup (IF sel.bare # "" THEN {[name |-> "n", op |-> "=", pat |-> sel.bare]} ELSE {})
Items(q) == {q[i] : i \in DOMAIN q}

(* ------------------------------ DEFINITION -------------------------------- *)
Matches(sel, s) == \A m \in SelMatchers(sel) : Sel!Holds(m, AsPromL(s.l))
InWindow(s, r)  == \E d \in DaysOf(s) : r.from <= d /\ d <= r.to
Cand(db, r) == {s \in DbSet(db) : /\ s.tp \in ApiTypes(r.api)
                                  /\ InWindow(s, r)
                                  /\ (r.sels = <<>> \/ \E sel \in Items(r.sels) : Matches(sel, s))}
Ans(S)  == [err |-> FALSE, set |-> S, dups |-> {}, trunc |-> FALSE]
ErrAns  == [err |-> TRUE, set |-> {}, dups |-> {}, trunc |-> FALSE]
DefNames(db, r)  == Ans(UNION {Carried(s) : s \in Cand(db, r)})
DefValues(db, r) == Ans({LS(s)[r.name] : s \in {c \in Cand(db, r) : r.name \in Carried(c)}})
DefSeries(db, r) == Ans({s.l : s \in Cand(db, r)})           \* label sets, by pool index
Def(db, r) == CASE r.ep = "labels" -> DefNames(db, r)
                [] r.ep = "values" -> DefValues(db, r)
                [] r.ep = "series" -> DefSeries(db, r)

(* ------------------------------- MECHANISM -------------------------------- *)
\* time_series: one row per (series, day); fp = the label set; doc = the key order of the label document
TSRows(db) == UNION {{[day |-> d, fp |-> s.l, tp |-> s.tp, ord |-> IF s.f = 1 /\ d = 2 THEN "rev" ELSE "fwd"] : d \in DaysOf(s)}
                     : s \in DbSet(db)}
\* time_series_gin_view: ARRAY JOIN JSONExtractKeysAndValues(labels): one row per label the document holds
GinRows(db) == UNION {{[day |-> t.day, key |-> k, val |-> LSPool[t.fp][k], fp |-> t.fp, tp |-> t.tp] : k \in CarriedL(t.fp)}
                      : t \in TSRows(db)}
Clause(m, g) == g.key = m.name /\ Sel!ValClause(m, g.val)
\* StreamSelectPlanner: one fingerprint sub-select per match[] entry
FpSel(G, r, sel, Q) ==
    LET M     == SelMatchers(sel)
        Scope == {g \in G : g.day >= r.from /\ g.tp \in ApiTypes(r.api)}          \* no upper date bound
    IN  IF "label_absent" \in Q
        THEN LET W == {g \in Scope : \E m \in M : Clause(m, g)}                    \* WHERE .. AND (c_1 OR .. OR c_n)
             IN  {fp \in {g.fp : g \in W} : \A m \in M : \E g \in W : g.fp = fp /\ Clause(m, g)}     \* GROUP BY / HAVING
        ELSE \* repaired: a matcher on a label without index row is evaluated on ""
             {fp \in {g.fp : g \in Scope} :
                 \A m \in M : \/ \E g \in Scope : g.fp = fp /\ Clause(m, g)
                              \/ (~ \E g \in Scope : g.fp = fp /\ g.key = m.name) /\ Sel!ValClause(m, "")}
FpSels(G, r, Q) == UNION {FpSel(G, r, sel, Q) : sel \in Items(r.sels)}             \* UNION ALL, used by IN
InDates(x, r) == x.day >= r.from /\ x.day <= r.to
Refused(r, Q) ==
    \/ "post_form" \in Q /\ r.post /\ r.sels # <<>>
    \/ "bare_colon" \in Q /\ r.api = "prom" /\ r.ep = "series" /\ \E sel \in Items(r.sels) : sel.bare \in ColonVals
    \/ "goquote" \in Q /\ r.api = "prom" /\ r.ep = "values" /\ \E sel \in Items(r.sels) : \E m \in SelMatchers(sel) : m.pat \in CtrlVals
Cut(S, dups, Q) == IF "limit" \in Q /\ Cardinality(S) > Limit THEN [err |-> FALSE, set |-> {}, dups |-> {}, trunc |-> TRUE]
                   ELSE [err |-> FALSE, set |-> S, dups |-> dups, trunc |-> FALSE]
MechNames(db, r, Q) ==
    LET G  == GinRows(db)
        G1 == {g \in G : g.tp \in ApiTypes(r.api) /\ InDates(g, r)}
        G2 == IF r.sels = <<>> \/ "labels_match_ignored" \in Q THEN G1
              ELSE LET F == FpSels(G, r, Q) IN {g \in G1 : g.fp \in F}
    IN  Ans({g.key : g \in G2})
MechValues(db, r, Q) ==
    LET G  == GinRows(db)
        G1 == {g \in G : InDates(g, r) /\ g.key = r.name /\ g.tp \in ApiTypes(r.api)}
        G2 == IF r.sels = <<>> THEN G1 ELSE LET F == FpSels(G, r, Q) IN {g \in G1 : g.fp \in F}
    IN  Cut({g.val : g \in G2}, {}, Q)
MechSeries(db, r, Q) ==
    LET F    == FpSels(GinRows(db), r, Q)
        T    == {t \in TSRows(db) : InDates(t, r) /\ t.fp \in F /\ t.tp \in ApiTypes(r.api)}
        docs == {<<t.fp, IF "dup_keyorder" \in Q THEN t.ord ELSE "fwd">> : t \in T}      \* SELECT DISTINCT labels
        S    == {d[1] : d \in docs}
    IN  IF "limit" \in Q /\ Cardinality(docs) > Limit THEN Cut(docs, {}, Q)
        ELSE [Ans(S) EXCEPT !.dups = {l \in S : Cardinality({d \in docs : d[1] = l}) > 1}]
Mech(db, r, Q) ==
    IF Refused(r, Q) THEN ErrAns
    ELSE CASE r.ep = "labels" -> MechNames(db, r, Q)
           [] r.ep = "values" -> MechValues(db, r, Q)
           [] r.ep = "series" -> MechSeries(db, r, Q)

\* the quirks of Q that fire: switching one off changes the answer ma = Mech(db, r, Q)
FiredOf(db, r, ma, Q) == {q \in Q : ma # Mech(db, r, Q \ {q})}

\* the operators of the matchers that hold on a label some series of the called signal in the window does not carry
\* (where label_absent can show; the trait "missing|op" of Selector.tla)
AbsentOps(db, r) ==
    {m.op : m \in {m2 \in UNION {SelMatchers(sel) : sel \in Items(r.sels)} :
                     \E s \in DbSet(db) : /\ s.tp \in ApiTypes(r.api) /\ InWindow(s, r)
                                          /\ LS(s)[m2.name] = Absent /\ Sel!Holds(m2, AsPromL(s.l))}}

(* ---------------------- laws between the definitions ---------------------- *)
WithSels(r, q)  == [r EXCEPT !.sels = q]
WithWin(r, a, b) == [r EXCEPT !.from = a, !.to = b]
\* match[] lists are unions
LawUnion(db, r) == Len(r.sels) = 2 =>
    Def(db, r).set = Def(db, WithSels(r, <<r.sels[1]>>)).set \cup Def(db, WithSels(r, <<r.sels[2]>>)).set
\* the window is a union of days
LawDays(db, r) == (r.from = 1 /\ r.to = 2) => Def(db, r).set = Def(db, WithWin(r, 1, 1)).set \cup Def(db, WithWin(r, 2, 2)).set
\* names, values and series describe the same candidates
LawTies(db, r) ==
    LET rs == [r EXCEPT !.ep = "series"]
        rn == [r EXCEPT !.ep = "labels"]
        rv == [r EXCEPT !.ep = "values"]
    IN  /\ DefNames(db, rn).set = UNION {CarriedL(l) : l \in DefSeries(db, rs).set}
        /\ (DefValues(db, rv).set # {}) = (r.name \in DefNames(db, rn).set)
        /\ DefValues(db, rv).set = {LSPool[l][r.name] : l \in {x \in DefSeries(db, rs).set : r.name \in CarriedL(x)}}
\* an API answers its own signal only: the series of the other signal may be dropped from the database
OfSignal(db, api) == SelectSeq(db, LAMBDA s : s.tp \in ApiTypes(api))
LawSignal(db, r) == Def(db, r) = Def(OfSignal(db, r.api), r)
=============================================================================

---------------------------- MODULE MC_Escape ----------------------------
(* Exhaustive check of Escape.tla over ALL strings s in Sigma^<=MaxLen (one state per string, BFS by length)
   and export of the cases the Go driver cmd/c10 replays into the real code.

   INVARIANTS  EscRoundTrip LikeStructure            -- expected to hold
               MatcherStructure (MC_Escape_matcher.cfg) -- expected to hold; a run of its own over strings <= 3
               LikeValue (MC_Escape_likevalue.cfg)   -- expected to hold since doLike escapes before quoting; checked in its
                                                        own run, a counterexample is TLC's witness for the binding
               Export                                -- always TRUE; prints one line per exported string:
                   "CASE|<s>|<Esc(s)>|<LikeContent(s)>|<LikeDecoded(s)>|<escok><likestruct><likevalue><regexplain>"
   Exported: every string of length <= ExportLen, and of the longer ones those with (Hash(s)+Seed) % SampleMod = 0. *)
EXTENDS Escape

CONSTANTS MaxLen, ExportLen, SampleMod, Seed

VARIABLE s

Init == s = <<>>
Next == /\ Len(s) < MaxLen
        /\ \E c \in Sigma : s' = Append(s, c)
Spec == Init /\ [][Next]_s

EscRoundTrip  == EscOK(s)
LikeStructure == LikeStructOK(s)
LikeValue     == LikeValueOK(s)
MatcherStructure == MatcherOK(s)

\* non-vacuity of the shortcut family: pasting a "plain" pattern between quotes is refuted by the quote alone, and by a quote
\* after harmless characters (so the binding must send such strings through =~ / !~ and accept either rendering)
RawShortcutRefuted == /\ ~RawShortcutOK(<<"sq">>)
                      /\ ~RawShortcutOK(<<"a", "sq", "a">>)
                      /\ RawShortcutOK(<<"a", "pct", "dash">>)
ASSUME RawShortcutRefuted

\* one printable character per class (no quote / backslash so that the TLC output line needs no unescaping)
Code == [bs |-> "B", sq |-> "Q", dq |-> "D", nul |-> "Z", nl |-> "N", cr |-> "R", bsp |-> "P", tab |-> "T",
         sub |-> "S", pct |-> "%", us |-> "_", dash |-> "-", slash |-> "/", star |-> "*", hash |-> "#",
         semi |-> ";", hi |-> "H", bad |-> "X", a |-> "a", bt |-> "K", c0 |-> "0", c1 |-> "1", n |-> "n", r |-> "r",
         b |-> "b", t |-> "t", x |-> "x", ctl |-> "C", ANY |-> "A", ONE |-> "O", ERR |-> "E"]
Weight == [bs |-> 1, sq |-> 2, dq |-> 3, nul |-> 4, nl |-> 5, cr |-> 6, bsp |-> 7, tab |-> 8, sub |-> 9, pct |-> 10,
           us |-> 11, dash |-> 12, slash |-> 13, star |-> 14, hash |-> 15, semi |-> 16, hi |-> 17, bad |-> 18, a |-> 19, bt |-> 20]

RECURSIVE Str(_)
Str(q) == IF q = <<>> THEN "" ELSE Code[Head(q)] \o Str(Tail(q))

RECURSIVE Hash(_, _)
Hash(q, acc) == IF q = <<>> THEN acc ELSE Hash(Tail(q), (acc * 31 + Weight[Head(q)]) % 1000003)

Flag(b) == IF b THEN "1" ELSE "0"

Selected == \/ Len(s) <= ExportLen
            \/ (Hash(s, 7) + Seed) % SampleMod = 0

Export == Selected =>
    PrintT("CASE|" \o Str(s) \o "|" \o Str(Esc(s)) \o "|" \o Str(LikeContent(s)) \o "|" \o Str(LikeDecoded(s))
           \o "|" \o Flag(EscOK(s)) \o Flag(LikeStructOK(s)) \o Flag(LikeValueOK(s)) \o Flag(RegexPlain(s)))
=============================================================================

------------------------------ MODULE LogQLPlan ------------------------------
(***************************************************************************************************************)
(* The MECHANISM: how reader/logql/logql_transpiler_v2 answers a LogQL query, transcribed operator by operator *)
(* from the planners (one operator per planner / per SQL clause), evaluated over the tables the writer and the *)
(* materialized views derive from the abstract database of LogQLSem.  TLC compares PlanEval with Eval for      *)
(* every case; a difference is a CANDIDATE that the binding confirms or refutes against the real code.         *)
(*                                                                                                             *)
(*   tables                    time_series(fingerprint, labels, type), time_series_gin(key, val, fingerprint,  *)
(*                             type) (one row per label a stream HAS), samples_v3(fingerprint, timestamp_ns,   *)
(*                             string, type).  A fingerprint is represented by the stream's label function.    *)
(*   planner_stream_select.go  FpSel: WHERE type IN (..) AND (c1 OR .. OR cn) GROUP BY fingerprint             *)
(*                             HAVING groupBitOr(bitShiftLeft(c1,0)+..+bitShiftLeft(cn,n-1)) == 2^n-1          *)
(*   planner_simple_label_filter.go  label filters before the first parser stage are evaluated on             *)
(*                             time_series.labels and removed from the row pipeline                            *)
(*   planner_main_init.go      PREWHERE timestamp_ns >= from AND timestamp_ns < to AND type IN (..)            *)
(*   planner_line_filter.go    like / notLike / match(..) == 1 / match(..) == 0                                *)
(*   planner_labels_joiner.go  ANY LEFT JOIN of the stream labels at the first stage that needs them, else at  *)
(*                             the end                                                                         *)
(*   planner_parser_json.go, planner_parser_regexp.go, planner_drop.go, planner_label_filter.go  map functions *)
(*   planner_main_order_by.go, planner_main_limit.go  ORDER BY timestamp_ns <dir> LIMIT n around everything    *)
(*   planner_main_renew.go     a parser stage followed by a non-parser stage closes the SELECT block; inside   *)
(*                             one block WHERE .. labels['x'] .. sees the labels ALIAS of the block            *)
(*   logql_parser model_v2.go  `| json != "x"` is read as a label filter on a label named json                 *)
(*   planner.go (GetBreakpoint / breakScript)  a `json` stage without parameters and everything after it run   *)
(*                             in the Go engine (internal_planner), whose LimitPlanner takes the first n rows  *)
(* Metric queries (C08), second half of the module: LRAPlanner / UnwrapFunctionPlanner / the metrics_15s       *)
(* shortcut, ComparisonPlanner, ByWithoutPlanner + AggOpPlanner, TopKPlanner, StepFixPlanner, and the Go       *)
(* post-processors ZeroEaterPlanner and FixPeriodPlanner, in the order of analyze.go getFunctionOrder.         *)
(*                                                                                                             *)
(* What is NOT modelled (decided by the binding with concrete strings): the quoting of LIKE patterns in        *)
(* doLike, the quoting of string literals, regular expression syntax.                                          *)
(***************************************************************************************************************)
EXTENDS LogQLSem

(* GetTypes(ctx) for a log request: type IN (1, 0); log rows carry 1, metric rows 2                            *)
TypeIn(ty) == ty = "log"

TimeSeries(db) == {[fp |-> db[i].s, type |-> db[i].ty] : i \in DOMAIN db}
GinOf(r)       == {[key |-> k, val |-> r.fp[k], fp |-> r.fp, type |-> r.type] :
                     k \in {kk \in StreamLabelNames : r.fp[kk] # ""}}
Gin(db)        == UNION {GinOf(r) : r \in TimeSeries(db)}

(*------------------------------------ planner_stream_select.go ---------------------------------------------*)
ValClause(m, v) ==
    CASE m.op = "="  -> v = m.val
      [] m.op = "!=" -> v # m.val
      [] m.op = "=~" -> ReMatches(m.val, v)          \* match(val, re) == 1
      [] m.op = "!~" -> ~ReMatches(m.val, v)         \* match(val, re) == 0
Clause(m, row) == row.key = m.name /\ ValClause(m, row.val)

RECURSIVE Pow2(_)
Pow2(n) == IF n = 0 THEN 1 ELSE 2 * Pow2(n - 1)
(* bitShiftLeft(toUInt64(clause), k): the result type is UInt64, a shift by 64 or more gives 0                  *)
Shl8(b, k) == IF k >= 64 THEN 0 ELSE b * Pow2(k)
RECURSIVE RowBits(_, _, _)
RowBits(ms, row, i) == IF i > Len(ms) THEN 0
                       ELSE Shl8(IF Clause(ms[i], row) THEN 1 ELSE 0, i - 1) + RowBits(ms, row, i + 1)
RECURSIVE BitOr(_, _)
BitOr(x, y) == IF x = 0 THEN y ELSE IF y = 0 THEN x
               ELSE (IF x % 2 = 1 \/ y % 2 = 1 THEN 1 ELSE 0) + 2 * BitOr(x \div 2, y \div 2)
RECURSIVE GroupBitOr(_)
GroupBitOr(S) == IF S = {} THEN 0 ELSE LET x == CHOOSE x \in S : TRUE IN BitOr(x, GroupBitOr(S \ {x}))

FpSel(ms, db) ==
    LET rows == {r \in Gin(db) : TypeIn(r.type) /\ \E i \in DOMAIN ms : Clause(ms[i], r)}
    IN  {f \in {r.fp : r \in rows} :
            GroupBitOr({RowBits(ms, r, 1) : r \in {rr \in rows : rr.fp = f}}) = Pow2(Len(ms)) - 1}

(*------------------------------------ analyze.go ------------------------------------------------------------*)
IsParser(st) == st.k \in {"json", "jsonp", "regexp"}
RECURSIVE FirstFrom(_, _, _)
FirstFrom(p, i, K) == IF i > Len(p) THEN 0 ELSE IF p[i].k \in K THEN i ELSE FirstFrom(p, i + 1, K)
(* simpleLabelOperation[i]: a label filter with no parser and no drop stage before it                           *)
Simple(p, i) == p[i].k = "lbl" /\ \A j \in 1..(i - 1) : ~IsParser(p[j]) /\ p[j].k \notin {"drop", "dropv"}
(* labelsJoinIdx: first parser, non-simple label filter, line_format, drop or unwrap                            *)
LabelsJoinIdx(p) == FirstFrom(p, 1, {"json", "jsonp", "regexp", "drop", "dropv", "unwrap"})
(* planner.go GetBreakpoint: first `json` without parameters (logfmt, line_format are outside the grammar)      *)
BreakIdx(p) == FirstFrom(p, 1, {"json"})
CHPipe(p) == IF BreakIdx(p) = 0 THEN p ELSE SubSeq(p, 1, BreakIdx(p) - 1)
GoPipe(p) == IF BreakIdx(p) = 0 THEN <<>> ELSE SubSeq(p, BreakIdx(p), Len(p))

(*------------------------------------ planner_label_filter.go ----------------------------------------------*)
(* the label value is labels['x'] (or JSONExtractString(labels,'x') on time_series): '' when absent            *)
LeafSql(lf, lbls) ==
    LET v == lbls[lf.lbl]
    IN  IF lf.num THEN IsNum(v) /\ NumCmp(lf.op, NumVal[v], lf.k)     \* toFloat64OrNull(v) IS NOT NULL and ..
        ELSE CASE lf.op = "="  -> v = lf.val
               [] lf.op = "!=" -> v # lf.val
               [] lf.op = "=~" -> ReMatches(lf.val, v)                \* match(..) == 1
               [] lf.op = "!~" -> ~ReMatches(lf.val, v)               \* match(..) == 0
RECURSIVE TreeSql(_, _)
TreeSql(tr, lbls) ==
    IF tr.t = "leaf" THEN LeafSql(tr, lbls)
    ELSE IF tr.t = "and" THEN TreeSql(tr.l, lbls) /\ TreeSql(tr.r, lbls)
    ELSE TreeSql(tr.l, lbls) \/ TreeSql(tr.r, lbls)

(* planner_simple_label_filter.go: SELECT fingerprint FROM time_series WHERE fingerprint IN (prev) AND cond     *)
RECURSIVE ApplySimple(_, _, _, _)
ApplySimple(fps, p, i, db) ==
    IF i > Len(p) THEN fps
    ELSE IF Simple(p, i)
         THEN ApplySimple({f \in fps : \E r \in TimeSeries(db) : r.fp = f /\ TreeSql(p[i].tree, StreamLbls(f))},
                          p, i + 1, db)
         ELSE ApplySimple(fps, p, i + 1, db)

(*------------------------------------ planner_line_filter.go -----------------------------------------------*)
IsLiteralRe(r) == r \in {"L_f1", "L_f2"}
SqlLineHolds(st, e) ==
    CASE st.op = "|=" -> st.arg \in e.feats                                   \* like(string, '%..%') == 1
      [] st.op = "!=" -> st.arg \notin e.feats                                \* notLike(..) == 1
      [] st.op = "|~" -> LineReMatches(st.arg, e.feats)                       \* like or match(..) == 1
      [] st.op = "!~" -> ~LineReMatches(st.arg, e.feats)                      \* notLike(..) == 1 or match(..) == 0

(*------------------------------------ planner_labels_joiner.go ---------------------------------------------*)
JoinLabels(s, db) == IF \E r \in TimeSeries(db) : TypeIn(r.type) /\ r.fp = s THEN StreamLbls(s) ELSE NoLabels

(* the same for a fingerprint given as label function (labelsFromScratch / the final join of matrix requests)  *)
JoinLabels2(fp, db) == IF \E r \in TimeSeries(db) : TypeIn(r.type) /\ StreamLbls(r.fp) = fp THEN fp ELSE NoLabels

(*------------------------------------ planner_parser_json.go -----------------------------------------------*)
(* if(JSONType(string, p1,..,pk) == 'String', JSONExtractString(string, p1,..,pk), JSONExtractRaw(string,      *)
(* p1,..,pk)): type test and extraction follow the same, whole path.                                            *)
JsonpMech(e, path) == IF e.fmt # "json" THEN "" ELSE FieldAt(e, path)
RECURSIVE MapUpdateParams(_, _, _, _)
MapUpdateParams(lbls, params, i, e) ==
    IF i > Len(params) THEN lbls
    ELSE MapUpdateParams([lbls EXCEPT ![params[i].lbl] = JsonpMech(e, params[i].path)], params, i + 1, e)

SqlStageLabels(st, e, lbls) ==
    CASE st.k = "jsonp"  -> MapUpdateParams(lbls, st.params, 1, e)
      [] st.k = "regexp" -> IF e.fmt = "plain" THEN PutGroups(lbls, st.groups, 1, e) ELSE lbls   \* arrayFilter x != '' AND y != ''
      [] st.k = "drop"   -> [l \in LabelNames |-> IF l \in st.names THEN "" ELSE lbls[l]]       \* mapFilter k != ..
      [] st.k = "dropv"  -> [l \in LabelNames |-> IF l = st.name /\ lbls[l] = st.val THEN "" ELSE lbls[l]]
      [] OTHER           -> lbls

(* planner_main_renew.go: after a parser stage that is followed by a non-parser stage the request is wrapped   *)
(* into a new SELECT block (renewMainAfter).  Inside one block every stage patches the same SELECT: a label    *)
(* filter adds WHERE .. labels['x'] .., a drop / parser replaces the column "labels" by an expression with the *)
(* alias "labels".  ClickHouse resolves the unqualified name labels in WHERE to that ALIAS, i.e. to the map     *)
(* AFTER every label-changing stage of the block, including the ones written after the filter.                 *)
(* A non-simple label filter that is followed (anywhere) by a parser or a drop closes its block as well, so the *)
(* filter is evaluated on the labels as they are where it is written.                                           *)
RenewAfter(p, j) ==
    /\ j < Len(p)
    /\ \/ IsParser(p[j]) /\ ~IsParser(p[j + 1])
       \/ /\ p[j].k = "lbl" /\ ~Simple(p, j)
          /\ \E m \in (j + 1)..Len(p) : IsParser(p[m]) \/ p[m].k \in {"drop", "dropv"}
RECURSIVE BlockFinal(_, _, _, _)
BlockFinal(p, j, e, lbls) ==       \* labels at the end of the block, applying the label-changing stages j..
    IF j > Len(p) THEN lbls
    ELSE LET nl == IF p[j].k \in {"lf", "lbl"} THEN lbls ELSE SqlStageLabels(p[j], e, lbls)
         IN  IF RenewAfter(p, j) THEN nl ELSE BlockFinal(p, j + 1, e, nl)

(* the row pipeline of planSpl over the ClickHouse part of the pipeline                                        *)
RECURSIVE SqlPipe(_, _, _, _, _, _)
SqlPipe(p, i, e, lbls, lj, db) ==
    IF i > Len(p) THEN [ok |-> TRUE, lbls |-> IF lj = 0 THEN JoinLabels(e.s, db) ELSE lbls]
    ELSE LET st == p[i]
             lb == IF i = lj THEN JoinLabels(e.s, db) ELSE lbls
         IN  IF st.k = "lf"
             THEN IF SqlLineHolds(st, e) THEN SqlPipe(p, i + 1, e, lb, lj, db) ELSE [ok |-> FALSE, lbls |-> lb]
             ELSE IF st.k = "lbl"
             THEN IF Simple(p, i) \/ TreeSql(st.tree, IF RenewAfter(p, i) THEN lb ELSE BlockFinal(p, i + 1, e, lb))
                  THEN SqlPipe(p, i + 1, e, lb, lj, db)
                  ELSE [ok |-> FALSE, lbls |-> lb]
             ELSE SqlPipe(p, i + 1, e, SqlStageLabels(st, e, lb), lj, db)

(*------------------------------------ internal_planner (Go engine) -----------------------------------------*)
(* planner_parser_json.go: every string / scalar field, nested objects flattened with "_"; planner_line_filter *)
(* uses strings.Contains / regexp; planner_label_filter: "" or unparsable -> false; planner_drop deletes keys.  *)
(* (A line that is not a JSON object makes the whole query fail: outside the cases, see the scope statement.)   *)
GoStageLabels(st, e, lbls) ==
    CASE st.k = "json"  -> IF e.fmt = "json"
                           THEN Put(Put(Put(Put(lbls, "x", e.fld.x), "o_x", e.fld.ox), "n", e.fld.n), "msg", "@msg")
                           ELSE lbls
      [] st.k = "drop"  -> [l \in LabelNames |-> IF l \in st.names THEN "" ELSE lbls[l]]
      [] st.k = "dropv" -> [l \in LabelNames |-> IF l = st.name /\ lbls[l] = st.val THEN "" ELSE lbls[l]]
      [] OTHER          -> lbls
RECURSIVE GoPipeRun(_, _, _, _)
GoPipeRun(p, i, e, lbls) ==
    IF i > Len(p) THEN [ok |-> TRUE, lbls |-> lbls]
    ELSE LET st == p[i]
         IN  IF st.k = "lf"
             THEN IF LineHolds(st, e) THEN GoPipeRun(p, i + 1, e, lbls) ELSE [ok |-> FALSE, lbls |-> lbls]
             ELSE IF st.k = "lbl"
             THEN IF TreeHolds(st.tree, lbls) THEN GoPipeRun(p, i + 1, e, lbls) ELSE [ok |-> FALSE, lbls |-> lbls]
             ELSE GoPipeRun(p, i + 1, e, GoStageLabels(st, e, lbls))

(*------------------------------------ logql_parser (model_v2.go) ------------------------------------------*)
(* StrSelectorPipeline tries  "|" LabelFilter  before  "|" Parser : `| json != "x"` and `| json !~ "x"` are    *)
(* read as a label filter on a label called json (absent, so the filter holds) and neither the json stage nor  *)
(* the line filter exists any more.                                                                            *)
RECURSIVE ParsedPipe(_, _)
ParsedPipe(p, i) ==
    IF i > Len(p) THEN <<>>
    ELSE IF p[i].k = "json" /\ i < Len(p) /\ p[i + 1].k = "lf" /\ p[i + 1].op \in {"!=", "!~"}
         THEN ParsedPipe(p, i + 2)
         ELSE <<p[i]>> \o ParsedPipe(p, i + 1)

(*------------------------------------ the whole plan for a log query ---------------------------------------*)
(* planner_line_filter.go doLike renders like(string, ..) / match(string, ..): the column alias string exists   *)
(* in every SELECT block (first block, MainRenewPlanner, LabelsJoinPlanner), no statement of the grammar is      *)
(* rejected.                                                                                                     *)
SqlRejected(p) == FALSE

PlanRowP(pp, db, i) ==
    LET ch == CHPipe(pp)
        r1 == SqlPipe(ch, 1, db[i], NoLabels, LabelsJoinIdx(ch), db)
    IN  IF ~r1.ok \/ BreakIdx(pp) = 0 THEN r1 ELSE GoPipeRun(GoPipe(pp), 1, db[i], r1.lbls)

PlanRows(q, db) ==
    LET pp   == ParsedPipe(q.p, 1)
        ch   == CHPipe(pp)
        fps  == ApplySimple(FpSel(q.m, db), ch, 1, db)
        (* planner_main_init.go + planner_fingerprint_filter.go *)
        main == {i \in DOMAIN db : db[i].t >= q.from /\ db[i].t < q.to /\ TypeIn(db[i].ty) /\ db[i].s \in fps}
        rows == {i \in main : PlanRowP(pp, db, i).ok}
        (* SQL LIMIT only when the whole script runs in ClickHouse (finalize); otherwise the Go LimitPlanner,   *)
        (* which forwards rows while sent < limit; both read limit 0 as "no limit"                              *)
        sel  == IF q.lim = 0 THEN rows ELSE FirstN(rows, db, q.fwd, q.lim)
    IN  {[id |-> i, lbls |-> PlanRowP(pp, db, i).lbls] : i \in sel}

(* [err |-> the request fails, rows |-> the answer]                                                             *)
PlanEval(q, db) ==
    IF SqlRejected(CHPipe(ParsedPipe(q.p, 1))) THEN [err |-> TRUE, rows |-> {}]
    ELSE [err |-> FALSE, rows |-> PlanRows(q, db)]

(*==================================== metric queries (C08) ==================================================*)
(* planner.go Plan + MatrixPostProcessors: FixPeriodPlanner(ZeroEaterPlanner(ClickhouseGetter(SQL))) where SQL  *)
(* is built in the order of analyze.go getFunctionOrder: range function [comparison] [by/without + vector       *)
(* aggregation [comparison]] [topk [comparison]] StepFixPlanner labels-join finalizer.                          *)
(* Rows are [fp, ts, v, lbls, hl, opt]: fp = what the fingerprint column identifies (a label function), hl =    *)
(* the row has a labels column.                                                                                 *)
GoDiv(a, b) == IF a >= 0 THEN a \div b ELSE -((-a) \div b)          \* Go integer division truncates toward zero

HasUnwrap(p) == Len(p) > 0 /\ p[Len(p)].k = "unwrap"
HasParser(p) == \E i \in DOMAIN p : IsParser(p[i])

(* analyze.go AnalyzeMetrics15sShortcut *)
Shortcut(q, pp) ==
    /\ q.mq.fn \in {"rate", "count_over_time"}
    /\ q.mq.range * q.mq.unit >= 15
    /\ (q.mq.range * q.mq.unit) % 15 = 0
    /\ ~HasUnwrap(pp)
    /\ \A i \in DOMAIN pp : ~IsParser(pp[i]) /\ pp[i].k \notin {"drop", "dropv", "lf"}

(* planner_from_fix.go: ctx.From = From.Truncate(range), ctx.To = To.Truncate(range) + range                    *)
FixFrom(q) == Bucket(q.from, q.mq.range)
FixTo(q)   == Bucket(q.to, q.mq.range) + q.mq.range

(* planner_unwrap.go: toFloat64OrZero(labels['x']) AS value ... WHERE toFloat64OrNull(labels['x']) IS NOT NULL *)
UnwrapSql(lbls, name) == IF IsNum(lbls[name]) THEN NumVal[lbls[name]] ELSE 0
UnwrapKeeps(pp, lbls) == HasUnwrap(pp) => IsNum(lbls[pp[Len(pp)].lbl])

(* samples -> rows of the range function ------------------------------------------------------------------- *)
MRow(pp, db, i) == SqlPipe(pp, 1, db[i], NoLabels, LabelsJoinIdx(pp), db)
MainRows(q, db, pp) ==
    LET fps == ApplySimple(FpSel(q.m, db), pp, 1, db)
    IN  {i \in DOMAIN db : /\ db[i].t >= FixFrom(q) /\ db[i].t < FixTo(q) /\ TypeIn(db[i].ty) /\ db[i].s \in fps
                           /\ MRow(pp, db, i).ok /\ UnwrapKeeps(pp, MRow(pp, db, i).lbls)}
(* fingerprint of a sample row: planner_parser.go and planner_drop.go recompute it from the labels alias of     *)
(* their SELECT block; no later stage changes the labels without doing the same, so it identifies the labels at *)
(* the end of the pipeline                                                                                      *)
HasDrop(p) == \E i \in DOMAIN p : p[i].k \in {"drop", "dropv"}
RowFp(pp, db, i) ==
    IF HasParser(pp) \/ HasDrop(pp) THEN MRow(pp, db, i).lbls ELSE StreamLbls(db[i].s)

(* planner_lra.go / planner_unwrap_function.go (after planner_by_without.go processSimple for the function's    *)
(* own by / without: fingerprint = cityHash64(labels) of the filtered map)                                      *)
LraFp(q, pp, db, i) ==
    IF IsUnwrapFn(q.mq.fn) /\ q.mq.ugrp # "" THEN Group(q.mq.ugrp, q.mq.uglbls, MRow(pp, db, i).lbls) ELSE RowFp(pp, db, i)
LraLbls(q, pp, db, i) ==
    IF IsUnwrapFn(q.mq.fn) /\ q.mq.ugrp # "" THEN Group(q.mq.ugrp, q.mq.uglbls, MRow(pp, db, i).lbls) ELSE MRow(pp, db, i).lbls
LraValue(q, pp, db, E) ==
    LET fn  == q.mq.fn
        uv  == [i \in E |-> IF IsUnwrapFn(fn) THEN UnwrapSql(MRow(pp, db, i).lbls, pp[Len(pp)].lbl) ELSE 0]
        ln  == [i \in E |-> db[i].len]
        n   == Cardinality(E)
        fst == CHOOSE i \in E : \A j \in E : db[i].t < db[j].t \/ (db[i].t = db[j].t /\ i <= j)
        lst == CHOOSE i \in E : \A j \in E : db[i].t > db[j].t \/ (db[i].t = db[j].t /\ i >= j)
    IN  CASE fn = "rate"            -> [num |-> n, den |-> q.mq.range]                   \* toFloat64(COUNT()) / range
          [] fn = "count_over_time" -> [num |-> n, den |-> 1]
          [] fn = "bytes_rate"      -> [num |-> SumOver(E, ln), den |-> q.mq.range]
          [] fn = "bytes_over_time" -> [num |-> SumOver(E, ln), den |-> 1]
          [] fn = "sum_over_time"   -> [num |-> SumOver(E, uv), den |-> 1]
          [] fn = "avg_over_time"   -> [num |-> SumOver(E, uv), den |-> n]
          [] fn = "min_over_time"   -> [num |-> CHOOSE x \in {uv[i] : i \in E} : \A y \in {uv[i] : i \in E} : x <= y, den |-> 1]
          [] fn = "max_over_time"   -> [num |-> CHOOSE x \in {uv[i] : i \in E} : \A y \in {uv[i] : i \in E} : x >= y, den |-> 1]
          [] fn = "first_over_time" -> [num |-> uv[fst], den |-> 1]                      \* argMin(value, timestamp_ns)
          [] fn = "last_over_time"  -> [num |-> uv[lst], den |-> 1]
          [] fn = "rate_unwrap"     -> [num |-> SumOver(E, uv), den |-> q.mq.range]

LraRows(q, db, pp) ==
    LET M    == MainRows(q, db, pp)
        hl   == LabelsJoinIdx(pp) # 0
        keys == {<<LraFp(q, pp, db, i), Bucket(db[i].t, q.mq.range)>> : i \in M}
        grp(k) == {i \in M : LraFp(q, pp, db, i) = k[1] /\ Bucket(db[i].t, q.mq.range) = k[2]}
    IN  {[fp |-> k[1], ts |-> k[2], v |-> LraValue(q, pp, db, grp(k)),
          lbls |-> IF hl THEN LraLbls(q, pp, db, CHOOSE i \in grp(k) : TRUE) ELSE NoLabels, hl |-> hl, opt |-> FALSE] : k \in keys}

(* planner_metrics15s_shortcut.go over the rows the materialized view metrics_15s_mv derives; seconds = ticks * *)
(* unit.  The label filters of the pipeline (all of them simple on this path) restrict the fingerprints.       *)
ShortcutRows(q, db, pp) ==
    LET u    == q.mq.unit
        R    == q.mq.range
        fps  == ApplySimple(FpSel(q.m, db), pp, 1, db)
        b15(i) == ((db[i].t * u) \div 15) * 15
        lo   == ((FixFrom(q) * u) \div 15) * 15
        hi   == ((FixTo(q) * u) \div 15) * 15
        M    == {i \in DOMAIN db : TypeIn(db[i].ty) /\ db[i].s \in fps /\ b15(i) >= lo /\ b15(i) < hi}
        rb(i) == ((b15(i) \div (R * u)) * (R * u)) \div u           \* intDiv(timestamp_ns, range) * range, in ticks
        keys == {<<StreamLbls(db[i].s), rb(i)>> : i \in M}
        n(k) == Cardinality({i \in M : StreamLbls(db[i].s) = k[1] /\ rb(i) = k[2]})
    IN  {[fp |-> k[1], ts |-> k[2], v |-> [num |-> n(k), den |-> IF q.mq.fn = "rate" THEN R ELSE 1],
          lbls |-> NoLabels, hl |-> FALSE, opt |-> FALSE] : k \in keys}

(* planner_comparison.go: HAVING value <op> param                                                               *)
Having(q, cmp, rows) == {r \in rows : CmpHolds(q, cmp, r.v)}

(* planner_by_without.go + planner_agg_op.go; an aggregation without grouping clause is planned as by ()         *)
AggPlanRows(q, db, rows) ==
    IF q.mq.agg = "" THEN rows
    ELSE LET grp   == IF q.mq.grp = "" THEN "by" ELSE q.mq.grp
             glbls == IF q.mq.grp = "" THEN {} ELSE q.mq.glbls
             newfp(r) == IF r.hl THEN Group(grp, glbls, r.lbls)                            \* processSimple
                         ELSE Group(grp, glbls, JoinLabels2(r.fp, db))                     \* processTSTable
             keys == {<<newfp(r), r.ts>> : r \in rows}
             mem(k) == {r \in rows : newfp(r) = k[1] /\ r.ts = k[2]}
         IN  {[fp |-> k[1], ts |-> k[2], v |-> AggValue(q.mq.agg, {[k |-> r.fp, v |-> r.v] : r \in mem(k)}),
               lbls |-> k[1], hl |-> TRUE, opt |-> FALSE] : k \in keys}

(* planner_topk.go: per timestamp arraySort by (-value, fingerprint, ..) and arraySlice(.., 1, k): equal values *)
(* are ordered by the fingerprint hash, i.e. arbitrarily for the abstraction: opt                               *)
TopPlanRows(q, rows) ==
    IF q.mq.topfn = "" THEN rows
    ELSE LET same(r) == {x \in rows : x.ts = r.ts}
             nbetter(r) == Cardinality({x \in same(r) : Better(q, x, r)})
             nnotworse(r) == Cardinality({x \in same(r) : ~Better(q, r, x)})
         IN  {[r EXCEPT !.opt = nnotworse(r) > q.mq.topk] : r \in {rr \in rows : nbetter(rr) < q.mq.topk}}

(* planner_step_fix.go: only when range < step: GROUP BY intDiv(ts, step)*step, fingerprint; argMin(value, ts)  *)
StepFixRows(q, rows) ==
    IF q.mq.range >= q.mq.step THEN rows
    ELSE LET keys == {<<r.fp, Bucket(r.ts, q.mq.step)>> : r \in rows}
             mem(k) == {r \in rows : r.fp = k[1] /\ Bucket(r.ts, q.mq.step) = k[2]}
             first(k) == CHOOSE r \in mem(k) : \A x \in mem(k) : r.ts <= x.ts
         IN  {[first(k) EXCEPT !.ts = k[2]] : k \in keys}

(* planner_labels_joiner.go at the end when no stage produced a labels column                                   *)
FinalLabels(r, db) == IF r.hl THEN r.lbls ELSE JoinLabels2(r.fp, db)

(* planner_zero_eater.go + planner_from_fix.go: per fingerprint, rows in timestamp order fill the array of      *)
(* instants from idxFrom to idxTo (both inclusive); later rows overwrite; zero values are never exported        *)
FixPeriodSeries(q, db, rows) ==
    LET R == q.mq.range
        S == q.mq.step
        L == GoDiv(q.to - q.from, S) + 1
        nz == {r \in rows : r.v.num # 0}
        fps == {r.fp : r \in nz}
        idxFrom(r) == GoDiv((r.ts \div R) * R - q.from, S)
        idxTo(r)   == GoDiv((r.ts \div R + 1) * R - q.from, S)
        covers(r, i) == /\ ~(idxTo(r) < 0 \/ idxFrom(r) >= L)
                        /\ (IF idxFrom(r) < 0 THEN 0 ELSE idxFrom(r)) <= i
                        /\ i <= (IF idxTo(r) >= L THEN L - 1 ELSE idxTo(r))
        at(f, i) == {r \in nz : r.fp = f /\ covers(r, i)}
        last(f, i) == CHOOSE r \in at(f, i) : \A x \in at(f, i) : x.ts <= r.ts
        (* when the last row is one topk may or may not keep, the row before it may show through *)
        prev(f, i) == {r \in at(f, i) : r # last(f, i) /\ \A x \in at(f, i) \ {last(f, i)} : x.ts <= r.ts}
        lbl(f) == FinalLabels(CHOOSE r \in nz : r.fp = f /\ \A x \in nz : x.fp = f => r.ts <= x.ts, db)
        idxs(f) == {j \in 0..(L - 1) : at(f, j) # {}}
    IN  {s \in {[lbls |-> lbl(f),
                 pts |-> {[t |-> q.from + i * S, v |-> last(f, i).v, opt |-> last(f, i).opt] : i \in idxs(f)}
                         \cup UNION {{[t |-> q.from + i * S, v |-> r.v, opt |-> TRUE] : r \in IF last(f, i).opt THEN prev(f, i) ELSE {}} : i \in idxs(f)}] :
                    f \in fps} :
            s.pts # {}}

(* shared/planner_clickhouse_getter.go ScanMatrix: the rows of the SQL result travel through the post-processors *)
(* in slices of GetterBatch rows (the last one shorter, closed by an end-of-stream entry of value 0).  Every      *)
(* post-processor works slice by slice (internal_planner GenericPlanner.WrapProcess: OnEntry per row,           *)
(* OnAfterEntriesSlice per slice) in its own goroutine; FixPeriodPlanner carries the series it is filling        *)
(* across slices.  A slice handed downstream belongs to the receiver: ZeroEater / FixPeriod as functions on      *)
(* rows (FixPeriodSeries) are the concatenation of the slices, wherever the cuts fall - also inside a series.    *)
(* Batches(n): the number of slices a result of n rows arrives in.                                              *)
GetterBatch == 100
Batches(n) == (n \div GetterBatch) + 1
(* the cuts: positions (1-based, in the order fingerprint, timestamp of the SQL) after which a new slice starts *)
BatchCuts(n) == {i * GetterBatch : i \in 1..(n \div GetterBatch)} \ {n}

PlanMetricRows(q, db) ==          \* the rows of the SQL of the request (before the Go post-processors)
    LET pp == ParsedPipe(q.p, 1)
    IN  IF ~Shortcut(q, pp) /\ (SqlRejected(pp) \/ (HasUnwrap(pp) /\ LabelsJoinIdx(pp) = 0)) THEN {}
        ELSE LET r0 == IF Shortcut(q, pp) THEN ShortcutRows(q, db, pp) ELSE LraRows(q, db, pp)
                 r1 == Having(q, q.mq.cmpl, r0)
                 r2 == Having(q, q.mq.cmpa, AggPlanRows(q, db, r1))
                 r3 == Having(q, q.mq.cmpt, TopPlanRows(q, r2))
             IN  StepFixRows(q, r3)

PlanMetric(q, db) ==
    LET pp == ParsedPipe(q.p, 1)
    IN  IF ~Shortcut(q, pp) /\ (SqlRejected(pp) \/ (HasUnwrap(pp) /\ LabelsJoinIdx(pp) = 0))
        THEN [err |-> TRUE, series |-> {}]              \* unknown identifier / "labels col not inited"
        ELSE LET r0 == IF Shortcut(q, pp) THEN ShortcutRows(q, db, pp) ELSE LraRows(q, db, pp)
                 r1 == Having(q, q.mq.cmpl, r0)
                 r2 == Having(q, q.mq.cmpa, AggPlanRows(q, db, r1))
                 (* getFunctionOrder (TopK: visit the operand, planTopK, maybeComparison) and planMetrics15Shortcut   *)
                 (* (TopK: dfs into the operand, planTopK, planComparison) agree: the HAVING of the comparison written *)
                 (* after topk / bottomk is on the SELECT that unfolds the slice, not on par_a                         *)
                 r3 == Having(q, q.mq.cmpt, TopPlanRows(q, r2))
                 r4 == StepFixRows(q, r3)
             IN  [err |-> FALSE, series |-> FixPeriodSeries(q, db, r4)]
=============================================================================

\* reference configuration for the Prometheus selector (tools/props/c17.py generates the ones it runs);
\* "INVARIANTS MechEqDef" is the property itself
INIT MCInit
NEXT MCNext
CONSTANTS
  KV = {"n1", "n2"}
  GL = {}
  MaxSeries = 2
  MaxMatchers = 2
  SVals = {"", "x", "xy"}
  EqPats = {"", "x", "xy"}
  RePats = {"x", "xy", "y", ".*", ".+", ""}
  Ops = {"=", "!=", "=~", "!~"}
  BitWidth = 64
  AllowEmpty = FALSE
  AlwaysRow = FALSE
  Plan1 = 202
  Plan2 = 0
  SampleDB = 0
  SampleMS = 0
  SampleSeries = 3
  SampleMatchers = 3
  OutFile = "sel_cases.json"
INVARIANTS MechEqDefOnSafe MechSubset PerSeries
CONSTRAINT PlanOK
CHECK_DEADLOCK FALSE

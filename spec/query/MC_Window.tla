----------------------------- MODULE MC_Window -----------------------------
(***************************************************************************)
(* Exhaustive check of every scan descriptor (MC_WindowGen!MDescSeq,       *)
(* generated from the SQL of the real endpoints) over all windows, row     *)
(* timestamps, row types, reader zones and (for tables whose date is the   *)
(* writer's local day) writer zones.  One state per (descriptor, zones,    *)
(* window); the state carries a leak witness and a miss witness (or None). *)
(* The reference descriptors (ref = "clean") must come out clean:          *)
(* RefClean.  Report prints one witness per (descriptor, kind, zones) and  *)
(* worker thread.                                                          *)
(***************************************************************************)
EXTENDS Window, Sequences, Json, TLCExt

CONSTANTS WinLens, MaxTick, CompleteEvery,
          FromTicks    \* window starts explored (all of Ticks in the thorough tier)
VARIABLES phase, di, tzr, tzw, from, to, leak, miss
vars == <<phase, di, tzr, tzw, from, to, leak, miss>>

D == DescSeq[di]
UsesReaderZone(d) == d.dlo \in {"localFrom", "localFromM30"} \/ d.dhi \in {"localTo", "localToM30"}

Init == phase = 0 /\ di = 1 /\ tzr = 0 /\ tzw = 0 /\ from = 0 /\ to = 0 /\ leak = None /\ miss = None

\* a descriptor, the zones (only where they matter) and the start of the window
PickDesc ==
    /\ phase = 0
    /\ \E i \in 1..Len(DescSeq), r \in Zones, w \in Zones, f \in FromTicks :
        /\ UsesReaderZone(DescSeq[i]) \/ r = 0
        /\ DescSeq[i].wrule = "local" \/ w = 0
        /\ phase' = 1 /\ di' = i /\ tzr' = r /\ tzw' = w /\ from' = f /\ to' = f
    /\ UNCHANGED <<leak, miss>>

\* the end of the window; the request is evaluated
PickWin ==
    /\ phase = 1
    /\ \E l \in WinLens :
        /\ from + l <= MaxTick
        /\ to' = from + l
        /\ LET B == Lits(D, from, from + l, tzr, tzw)
           IN leak' = LeakWitness(D, B, tzw) /\ miss' = MissWitness(D, B, tzw)
    /\ phase' = 2
    /\ UNCHANGED <<di, tzr, tzw, from>>

Next == PickDesc \/ PickWin
Spec == Init /\ [][Next]_vars

TypeOK ==
    /\ phase \in 0..2 /\ di \in 1..Len(DescSeq) /\ tzr \in Zones /\ tzw \in Zones
    /\ from \in Ticks /\ to \in Ticks /\ from <= to
    /\ leak \in (Ticks \X Types) \cup {None} /\ miss \in (Ticks \X Types) \cup {None}

\* the hand-written reference descriptors (canonical bounds) neither leak nor miss
RefClean == (phase = 2 /\ D.ref = "clean") => (leak = None /\ miss = None)
\* a witness really is one; a row is never both wrongly admitted and wrongly rejected
WitnessSound ==
    phase = 2 => LET B == Lits(D, from, to, tzr, tzw)
                 IN /\ leak # None => Leak(D, B, tzw, leak[1], leak[2])
                    /\ miss # None => Miss(D, B, tzw, miss[1], miss[2])
                    /\ (leak # None /\ miss # None) => leak # miss
\* ... and no witness means there is none (checked on every CompleteEvery-th window: the full quantification is costly)
WitnessComplete ==
    (phase = 2 /\ (from + 3 * to) % CompleteEvery = 0) =>
        LET B == Lits(D, from, to, tzr, tzw)
        IN /\ leak = None => ~ \E ts \in Ticks, ty \in Types : Leak(D, B, tzw, ts, ty)
           /\ miss = None => ~ \E ts \in Ticks, ty \in Types : Miss(D, B, tzw, ts, ty)

Rec(kind, w) == [d |-> D.id, kind |-> kind, tzr |-> tzr, tzw |-> tzw, from |-> from, to |-> to, ts |-> w[1], ty |-> w[2]]
Report ==
    phase = 2 =>
        /\ (leak # None /\ <<di, "leak", tzr, tzw>> \notin TLCGetOrDefault(7, {})) =>
               (PrintT(ToJson(Rec("leak", leak))) /\ TLCSet(7, TLCGetOrDefault(7, {}) \cup {<<di, "leak", tzr, tzw>>}))
        /\ (miss # None /\ <<di, "miss", tzr, tzw>> \notin TLCGetOrDefault(7, {})) =>
               (PrintT(ToJson(Rec("miss", miss))) /\ TLCSet(7, TLCGetOrDefault(7, {}) \cup {<<di, "miss", tzr, tzw>>}))
=============================================================================

\* the "T2" configuration with the claim "the mechanism AS CODED equals the definition": TLC must refute it (the smallest
\* database / request on which the code departs); used by hand, not by x07.py
SPECIFICATION Spec
CONSTANTS
  Keys <- MCKeys
  TagPool <- MCTags5
  V2 = FALSE
  ScopedKeys = {"b"}
  MaxTraces = 2
  MaxSpans = 2
  SvcPool = {"s1", "s2"}
  NmPool = {"n1"}
  TickPool = {2}
  DurPool = {4}
  ParMode = "tree"
  Plan = "T"
  ExportMod = 0
  ExportSeed = 0
  Repaired = {"min_exclusive", "dur_trunc_ms", "v2_max_exclusive", "values_scope_strip", "unknown_200", "short_id"}
INVARIANTS CodedEqDef
CHECK_DEADLOCK FALSE

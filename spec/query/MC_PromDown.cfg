\* by-hand run of the quick configuration A2 of tools/props/x08.py (x08.py writes its own .cfg files)
SPECIFICATION Spec
CONSTANTS
  LB = 20
  NS = 1
  SB = {0, 1, 2}
  EB = {0, 1, 2, 3}
  Vals = {1, 2}
  MaxSamples = 2
  Fns = {"", "sum_over_time", "count_over_time", "avg_over_time", "min_over_time", "max_over_time", "last_over_time"}
  Ranges = {1, 2}
  Steps = {1, 2, 3}
  MaxEvals = 3
  ExportMod = 1
  ExportSeed = 0
INVARIANT AllChecks
CHECK_DEADLOCK FALSE

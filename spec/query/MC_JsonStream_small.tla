----------------------- MODULE MC_JsonStream_small -----------------------
(* By-hand configuration (tools/props/c15.py generates the same shape with the tier's bounds and with the   *)
(* Guard* constants derived from reader/service/queryRangeService.go):                                       *)
(*   tlc -config MC_JsonStream_small.cfg MC_JsonStream_small.tla                                             *)
EXTENDS MC_JsonStream
SmallBounds == [wr \in WriterNames |-> <<3, 2, 3>>]
=============================================================================

---------------------------- MODULE MC_Selector ----------------------------
(* Model-checking wrapper for Selector and export of the cases (database, matcher set, the series the       *)
(* DEFINITION selects, the series the transcribed MECHANISM selects, the traits) that harness/cmd/c17        *)
(* concretises and runs through the real selectors.                                                          *)
EXTENDS Selector, Json, Randomization

CONSTANTS SampleDB, SampleMS, OutFile     \* 0 = all

XDBs == IF SampleDB = 0 THEN DBs ELSE RandomSubset(SampleDB, DBs)
XMS  == IF SampleMS = 0 THEN MSets ELSE RandomSubset(SampleMS, MSets)
Cases == {[db |-> d, ms |-> M, def |-> Selected(d, M), mech |-> MechSelected(d, M), traits |-> Traits(d, M)] :
          d \in XDBs, M \in XMS}
Export == JsonSerialize(OutFile, [names |-> [kv |-> KV, gl |-> GL], cases |-> Cases])
=============================================================================

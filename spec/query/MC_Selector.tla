---------------------------- MODULE MC_Selector ----------------------------
(* Model-checking wrapper for Selector and export of the cases (database, matcher set, the series the       *)
(* DEFINITION selects, the series the transcribed MECHANISM selects, the traits) that harness/cmd/c17        *)
(* concretises and runs through the real selectors.                                                          *)
(* Plan1, Plan2 = numbers 100*s + m (0 = unused; TLC configuration files have no tuples): all databases of <= s series x all matcher sets of <= m matchers are cases       *)
(* (checked as states under CONSTRAINT PlanOK and exported); on top SampleDB x SampleMS random databases /   *)
(* matcher sets of the bounds SampleSeries / SampleMatchers are exported (and checked inside Export).        *)
EXTENDS Selector, Json, Randomization

CONSTANTS Plan1, Plan2, SampleDB, SampleMS, SampleSeries, SampleMatchers, OutFile

Plans == {Plan1, Plan2} \ {0}
PS(p) == p \div 100
PM(p) == p % 100
MSetsK(k) == UpTo(Matchers, k) \ (IF AllowEmpty THEN {} ELSE {{}})
\* the next-state relation restricted to the plans (enumerates only the matcher sets of the plans the database is in)
MCInit == db \in UpTo(Series, MaxSeries) /\ ms = {} /\ ph = "db"
MCNext == /\ ph = "db" /\ ph' = "case" /\ UNCHANGED db
          /\ \E p \in Plans : Cardinality(db) <= PS(p) /\ ms' \in MSetsK(PM(p))
InPlan(d, M) == \E p \in Plans : Cardinality(d) <= PS(p) /\ Cardinality(M) <= PM(p)
PlanOK == IsCase => InPlan(db, ms)

CaseOf(d, M) == [db |-> d, ms |-> M, def |-> Selected(d, M), mech |-> MechSelected(d, M), traits |-> Traits(d, M)]
\* (no UNION / \cup of the case sets: TLC's union of large non-normalised sets is quadratic; the plans are exported
\* side by side and merged by the reader)
CasesOf(p) == IF p = 0 THEN {} ELSE {CaseOf(d, M) : d \in UpTo(Series, PS(p)), M \in MSetsK(PM(p))}
SampleCases == IF SampleDB = 0 \/ SampleMS = 0 THEN {}
               ELSE {CaseOf(d, M) : d \in RandomSubset(SampleDB, UpTo(Series, SampleSeries)),
                                    M \in RandomSubset(SampleMS, MSetsK(SampleMatchers))}
CaseOK(c) == /\ c.traits = {} => c.def = c.mech          \* MechEqDefOnSafe on the sampled cases as well
             /\ c.def \subseteq c.db /\ c.mech \subseteq c.db
\* (TLC evaluates constant-level definitions when it starts, so the export happens in every run of this module;
\*  OutFile = "" switches it off)
Export == OutFile = "" \/
          LET C1 == CasesOf(Plan1)
              C2 == CasesOf(Plan2)
              CS == SampleCases IN
          /\ JsonSerialize(OutFile, [names |-> [kv |-> KV, gl |-> GL], cases |-> C1, cases2 |-> C2, sampled |-> CS])
          /\ \A c \in C1 : CaseOK(c)
          /\ \A c \in C2 : CaseOK(c)
          /\ \A c \in CS : CaseOK(c)
=============================================================================

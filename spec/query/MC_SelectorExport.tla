------------------------- MODULE MC_SelectorExport -------------------------
EXTENDS MC_Selector
ASSUME Export
Stop == FALSE /\ db = db
=============================================================================

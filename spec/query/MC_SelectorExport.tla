------------------------- MODULE MC_SelectorExport -------------------------
(* MC_Selector plus the export of the cases, evaluated once when TLC starts. *)
EXTENDS MC_Selector
ASSUME Export
=============================================================================

----------------------------- MODULE TempoSearch -----------------------------
(* X07: the CONTENT of the Tempo v1 read API.                                                                     *)
(*                                                                                                               *)
(*   GET /api/search?tags=..&minDuration=..&maxDuration=..&limit=..&start=..&end=..   -> trace summaries          *)
(*   GET /api/search/tags                                                             -> tag NAMES                *)
(*   GET /api/search/tag/{tag}/values                                                 -> VALUES of one tag        *)
(*   GET /api/traces/{id}   /api/traces/{id}/json                                     -> the spans of ONE trace   *)
(*   GET /api/echo                                                                    -> "echo"                   *)
(*   (each also under /tempo/..)                                                                                  *)
(*                                                                                                               *)
(* DATABASE.  A sequence of traces; a trace is a sequence of spans; a span is                                     *)
(*     [par, svc, nm, tk, du, tg]                                                                                *)
(* par = 0: no parent (a root); k in 1..3: the parent is span k of the same trace (if the trace has no span k    *)
(* the parent was never stored); 9: the parent was never stored.  svc / nm: service and span name atoms.  tk: the *)
(* tick of the start time (the request names the ticks of its window; ticks lie on both sides of the window       *)
(* ends; a tick is at least a second away from its neighbours), du: the duration in UNITS of 0.5 ms.  tg: index   *)
(* into TagPool, a function from Keys to {"#" (the span does not carry the tag), "x", "y"}.  Start times are      *)
(* pairwise different: span s of trace t starts at  tk * 1000 + 3 (t-1) + (s-1)  units (TS), so that "the newest  *)
(* n" is a function of the database.  The writer stores one tempo_traces row per span and, through the            *)
(* materialized views of ctrl/qryn/sql/traces.sql, one tempo_traces_attrs_gin row per tag the span carries, one   *)
(* for the pseudo tag `name` and one for the pseudo tag `service.name` ("nm", "svc" here), and from each of those *)
(* a tempo_traces_kv row (day, key, val).                                                                         *)
(*                                                                                                               *)
(* DEFINITION (Def.., order free; the contract of the Tempo HTTP API v1 as far as qryn's data model has it).      *)
(*   search   A TRACE is listed iff                                                                              *)
(*              - for EVERY tag of `tags` SOME span of the trace carries it (key and value equal; the pseudo tags  *)
(*                service.name / name are carried by every span).  Tempo matches tags at trace level (1.x: the    *)
(*                search data of a trace is the union of its spans' tags; 2.x: resource and span columns are      *)
(*                joined at trace level): the tags need not sit on the same span;                                 *)
(*              - the trace overlaps the window: some span of it starts at a tick of the window;                  *)
(*              - minDuration <= the duration OF THE TRACE (end of its last span - start of its first) <=         *)
(*                maxDuration, both inclusive ("at least" / "no greater than"), exact to the nanosecond;          *)
(*              - `limit`: of the traces that qualify the n with the newest start time.                           *)
(*            Every listed trace is listed ONCE, with the service and name of its root span (the earliest span    *)
(*            without parent; rs = 0 when it has none: Tempo answers a placeholder, this definition then accepts   *)
(*            the fields of any of its spans), startTimeUnixNano = the start of its earliest span (ss), durationMs *)
(*            = the duration of the trace in whole milliseconds (de = 0; de = s: the duration of span s).         *)
(*   tags     the keys carried by some stored span, and the two pseudo tags; no window (the v1 endpoint has none) *)
(*   values   the values of the tag over all stored spans; a tag nobody carries has none                          *)
(*   by id    all spans stored under the id, none of another id; the id is a hex number: upper case and lower     *)
(*            case are the same id, an id with fewer than 32 digits is the id left-padded with zeros (Tempo pads   *)
(*            it, the writer pads Zipkin ids the same way); an id nobody stored (also one of 40 digits: Tempo     *)
(*            says 400, 404 is asked for here): 404 ("notfound"); a string that is no hex number: refused (4xx /  *)
(*            5xx, no trace).                                                                                     *)
(*                                                                                                               *)
(* MECHANISM (Mech.., transcription at table grain of reader/service/tempoService.go Search / Tags / Values /     *)
(* Query, reader/tempo/tracesQuery.go GetTracesQuery, reader/tempo/sqlIndexQuery.go, the controller):             *)
(*   idx_i :  SELECT trace_id, span_id FROM tempo_traces_attrs_gin WHERE key = k_i AND val = v_i AND date >= ..   *)
(*            AND date <= ..       [tempo_v2 announced in `settings`: AND timestamp_ns >= from AND timestamp_ns   *)
(*            <= to AND duration >= min AND duration <= max]                       -- one per tag                 *)
(*   idx   :  idx_0 INNER ANY JOIN idx_i ON trace_id AND span_id                   -- the SAME span               *)
(*            [tempo_v2 and limit > 0: ORDER BY timestamp_ns DESC LIMIT limit]                                    *)
(*   search:  SELECT hex(trace_id), service_name, name, timestamp_ns, intDiv(duration_ns, 1000000) duration_ms    *)
(*            FROM tempo_traces WHERE (trace_id, span_id) IN idx AND timestamp_ns > from AND timestamp_ns <= to   *)
(*            AND duration_ns >= min AND duration_ns <= max ORDER BY timestamp_ns DESC LIMIT limit                *)
(*            -- one answer entry PER ROW: there is no grouping into traces                                       *)
(*   tags  :  SELECT DISTINCT key FROM tempo_traces_kv ORDER BY key                                               *)
(*   values:  SELECT DISTINCT val FROM tempo_traces_kv WHERE key = tag   (the scope prefix is cut off by the v2   *)
(*            route only)                                                                                         *)
(*   by id :  the id is left-padded to 32 digits; hex.Decode(id) or 500; SELECT .. FROM tempo_traces WHERE        *)
(*            trace_id = unhex(id) ORDER BY timestamp_ns LIMIT 2000; no row: 404, else 200                        *)
(* (the text above is the code after the repairs a8ca739 .. 76d5c8d: x07.py REPAIRED)                             *)
(* parameterised by named quirks Q: the places where the code as written departs, or departed, from the           *)
(* definition.                                                                                                    *)
(*      span_rows          no grouping: every span row that passes the filters is listed as a "trace" with ITS    *)
(*                         service, name, start and duration; `limit` counts span rows                            *)
(*      tags_same_span     the tags must all sit on ONE span (join on trace_id AND span_id)                       *)
(*      dur_span           the duration bounds are tested on the span row, not on the trace                       *)
(*      min_exclusive      duration > min instead of >=                                                           *)
(*      dur_trunc_ms       duration and bound are compared in whole milliseconds (intDiv; min/1e6)                *)
(*      v2_max_exclusive   with tempo_v2 and tags the index adds duration < max (exclusive, exact)                *)
(*      v2_inner_limit     with tempo_v2 and tags the index is cut to `limit` rows BEFORE the outer filters       *)
(*      values_scope_strip a tag whose name begins with "span." / "resource." / "." is looked up without the      *)
(*                         prefix: the values of a tag that /api/search/tags lists cannot be asked for            *)
(*      unknown_200        an id nobody stored: 200 with an empty span list instead of 404                        *)
(*      short_id           an id with fewer than 32 digits is not padded: unhex() of it equals no stored id       *)
(* Mech({}) = Def is what TLC proves; every difference between Mech(as coded) and Def must be accounted for by a  *)
(* quirk (FiredOf).  tools/props/x07.py REPAIRED lists the quirks /repo no longer has; they stay as mutations of  *)
(* the mechanism that classify a regression.                                                                      *)
EXTENDS Integers, Sequences, FiniteSets, TLC

CONSTANTS Keys,        \* the tag keys spans may carry ("a", "b")
          TagPool,     \* sequence of tag sets: functions [Keys -> {"#", "x", "y"}]
          V2,          \* TRUE: the settings table announces "tempo_v2" before the window
          ScopedKeys   \* the keys whose concrete name begins with "span." / "resource." / "."

Absent == "#"
AllQuirks == {"span_rows", "tags_same_span", "dur_span", "min_exclusive", "dur_trunc_ms", "v2_max_exclusive", "v2_inner_limit",
              "values_scope_strip", "unknown_200", "short_id"}

(* ------------------------------ the database ------------------------------ *)
SpanSet(db)  == UNION {{[t |-> ti, s |-> si] : si \in DOMAIN db[ti]} : ti \in DOMAIN db}
Sp(db, p)    == db[p.t][p.s]
TS(db, p)    == Sp(db, p).tk * 1000 + 3 * (p.t - 1) + (p.s - 1)
EndOf(db, p) == TS(db, p) + Sp(db, p).du
OfTrace(db, ti) == {[t |-> ti, s |-> si] : si \in DOMAIN db[ti]}
MinBy(S, f(_)) == CHOOSE x \in S : \A y \in S : f(x) <= f(y)
MaxOver(S, f(_)) == LET x == CHOOSE x \in S : \A y \in S : f(x) >= f(y) IN f(x)
Earliest(db, S) == LET f(p) == TS(db, p) IN MinBy(S, f)
Start(db, ti)   == TS(db, Earliest(db, OfTrace(db, ti)))
Extent(db, ti)  == LET e(p) == EndOf(db, p) IN MaxOver(OfTrace(db, ti), e) - Start(db, ti)
Roots(db, ti)   == {p \in OfTrace(db, ti) : Sp(db, p).par = 0}
RootOf(db, ti)  == IF Roots(db, ti) = {} THEN 0 ELSE Earliest(db, Roots(db, ti)).s
CarriedKeys(sp) == {k \in Keys : TagPool[sp.tg][k] # Absent}
Items(q) == {q[i] : i \in DOMAIN q}

(* ------------------------------- requests --------------------------------- *)
\* [ep |-> "search" | "tags" | "values" | "byid" | "echo",
\*  tags |-> sequence of [k, v] (k in Keys or "svc" | "nm" | "z" = a key nobody carries), min, max (units; 0: absent),
\*  lim (0: a limit larger than the database), from, to (ticks of the window), name (values), tgt (by id: trace index, 0: an id
\*  nobody stored), form ("lower" | "upper" | "short" | "nothex" | "long"), acc ("json" | "proto")]
Carries(sp, tag) == CASE tag.k = "svc"  -> sp.svc = tag.v
                      [] tag.k = "nm"   -> sp.nm = tag.v
                      [] tag.k \in Keys -> TagPool[sp.tg][tag.k] = tag.v
                      [] OTHER          -> FALSE
InWin(tk, r) == r.from <= tk /\ tk <= r.to

(* answers: [st |-> "ok" | "notfound" | "refused", rows (search: set of entries [tr, rs, ss, dm]), items (tags / values: set of  *)
(* atoms), spans (by id: set of [t, s])]                                                                                         *)
Ans(st, rows, items, spans) == [st |-> st, rows |-> rows, items |-> items, spans |-> spans]
\* an entry: [tr, rs (the span whose service and name are shown; 0: the trace has no root span, the fields are not compared), ss (the
\* span whose start is shown), dm (the duration shown, whole milliseconds; -1: the trace extends over several ticks, its duration
\* is computed from the concrete times)].  Two entries are equal iff their concrete forms are.
OneTick(db, ti)    == \A p, q \in OfTrace(db, ti) : Sp(db, p).tk = Sp(db, q).tk
\* the span whose fields are shown is named by the first span of the trace with the same service and name
RsOf(db, ti, s)    == IF Roots(db, ti) = {} THEN 0
                      ELSE LET same == {j \in DOMAIN db[ti] : db[ti][j].svc = db[ti][s].svc /\ db[ti][j].nm = db[ti][s].nm}
                           IN  CHOOSE j \in same : \A i \in same : j <= i
TraceEntry(db, ti) == [tr |-> ti, rs |-> RsOf(db, ti, RootOf(db, ti)), ss |-> Earliest(db, OfTrace(db, ti)).s,
                       dm |-> IF OneTick(db, ti) THEN Extent(db, ti) \div 2 ELSE -1]
SpanEntry(db, p)   == [tr |-> p.t, rs |-> RsOf(db, p.t, p.s), ss |-> p.s, dm |-> Sp(db, p).du \div 2]
NewestT(db, S, n) == IF n = 0 THEN S ELSE {ti \in S : Cardinality({tj \in S : Start(db, tj) > Start(db, ti)}) < n}
NewestP(db, P, n) == IF n = 0 THEN P ELSE {p \in P : Cardinality({q \in P : TS(db, q) > TS(db, p)}) < n}

(* ------------------------------ DEFINITION -------------------------------- *)
TraceMatches(db, ti, r) == \A tag \in Items(r.tags) : \E p \in OfTrace(db, ti) : Carries(Sp(db, p), tag)
Overlaps(db, ti, r)     == \E p \in OfTrace(db, ti) : InWin(Sp(db, p).tk, r)
DurOK(d, r)             == (r.min = 0 \/ d >= r.min) /\ (r.max = 0 \/ d <= r.max)
Qualifies(db, r) == {ti \in DOMAIN db : TraceMatches(db, ti, r) /\ Overlaps(db, ti, r) /\ DurOK(Extent(db, ti), r)}
DefSearch(db, r) == Ans("ok", {TraceEntry(db, ti) : ti \in NewestT(db, Qualifies(db, r), r.lim)}, {}, {})
DefTags(db)      == Ans("ok", {}, IF db = <<>> THEN {} ELSE {"nm", "svc"} \cup UNION {CarriedKeys(Sp(db, p)) : p \in SpanSet(db)}, {})
ValuesOf(db, k)  == CASE k = "svc"  -> {Sp(db, p).svc : p \in SpanSet(db)}
                      [] k = "nm"   -> {Sp(db, p).nm : p \in SpanSet(db)}
                      [] k \in Keys -> {TagPool[Sp(db, p).tg][k] : p \in {q \in SpanSet(db) : k \in CarriedKeys(Sp(db, q))}}
                      [] OTHER      -> {}
DefValues(db, r) == Ans("ok", {}, ValuesOf(db, r.name), {})
DefById(db, r)   == IF r.form = "nothex" THEN Ans("refused", {}, {}, {})
                    ELSE IF r.tgt = 0 \/ r.form = "long" THEN Ans("notfound", {}, {}, {})
                    ELSE Ans("ok", {}, {}, OfTrace(db, r.tgt))
Def(db, r) == CASE r.ep = "search" -> DefSearch(db, r)
                [] r.ep = "tags"   -> DefTags(db)
                [] r.ep = "values" -> DefValues(db, r)
                [] r.ep = "byid"   -> DefById(db, r)
                [] r.ep = "echo"   -> Ans("ok", {}, {"echo"}, {})

(* ------------------------------- MECHANISM -------------------------------- *)
\* traces_input_tags_mv: one tempo_traces_attrs_gin row per tag of the span (the writer adds name and service.name to the tags)
GinRows(db) == UNION {{[p |-> p, key |-> k, val |-> TagPool[Sp(db, p).tg][k]] : k \in CarriedKeys(Sp(db, p))}
                      \cup {[p |-> p, key |-> "nm", val |-> Sp(db, p).nm], [p |-> p, key |-> "svc", val |-> Sp(db, p).svc]}
                      : p \in SpanSet(db)}
\* tempo_traces_kv_mv: (key, val) of every gin row (date and val_id dropped: all ticks lie on one day)
KvRows(db)  == {[key |-> g.key, val |-> g.val] : g \in GinRows(db)}
\* the comparison of a duration with the bounds of the request
Ms(x, Q)    == IF "dur_trunc_ms" \in Q THEN x \div 2 ELSE x
DurCmp(d, r, Q) == /\ r.min = 0 \/ (IF "min_exclusive" \in Q THEN Ms(d, Q) > Ms(r.min, Q) ELSE Ms(d, Q) >= Ms(r.min, Q))
                   /\ r.max = 0 \/ Ms(d, Q) <= Ms(r.max, Q)
\* the conditions SQLIndexQuery adds to every tag sub-select once "tempo_v2" is announced
IdxCond(db, p, r, Q) ==
    ~V2 \/ /\ "tags_same_span" \in Q => InWin(Sp(db, p).tk, r)
           /\ "dur_span" \in Q => /\ r.min = 0 \/ Sp(db, p).du >= r.min
                                  /\ r.max = 0 \/ (IF "v2_max_exclusive" \in Q THEN Sp(db, p).du < r.max ELSE Sp(db, p).du <= r.max)
IdxSub(db, r, tag, Q) == {g.p : g \in {h \in GinRows(db) : h.key = tag.k /\ h.val = tag.v /\ IdxCond(db, h.p, r, Q)}}
Idx(db, r, Q) ==
    LET P == IF "tags_same_span" \in Q
             THEN {p \in SpanSet(db) : \A i \in DOMAIN r.tags : p \in IdxSub(db, r, r.tags[i], Q)}        \* INNER ANY JOIN .. span_id
             ELSE LET TT == {ti \in DOMAIN db : \A i \in DOMAIN r.tags : \E p \in IdxSub(db, r, r.tags[i], Q) : p.t = ti}
                  IN  {p \in SpanSet(db) : p.t \in TT}                                                  \* repaired: trace_id IN every idx_i
    IN  IF V2 /\ "v2_inner_limit" \in Q THEN NewestP(db, P, r.lim) ELSE P
\* the tempo_traces rows the outer statement admits
Rows(db, r, Q) == {p \in (IF r.tags = <<>> THEN SpanSet(db) ELSE Idx(db, r, Q)) :
                      /\ InWin(Sp(db, p).tk, r)
                      /\ "dur_span" \in Q => DurCmp(Sp(db, p).du, r, Q)}
MechSearch(db, r, Q) ==
    LET R       == Rows(db, r, Q)
        TOK(ti) == "dur_span" \in Q \/ DurCmp(Extent(db, ti), r, Q)
    IN  IF "span_rows" \in Q
        THEN Ans("ok", {SpanEntry(db, p) : p \in NewestP(db, {q \in R : TOK(q.t)}, r.lim)}, {}, {})            \* ORDER BY timestamp_ns DESC LIMIT
        ELSE Ans("ok", {TraceEntry(db, ti) : ti \in NewestT(db, {tj \in {p.t : p \in R} : TOK(tj)}, r.lim)}, {}, {})
MechTags(db)          == Ans("ok", {}, {kv.key : kv \in KvRows(db)}, {})
MechValues(db, r, Q)  == IF "values_scope_strip" \in Q /\ r.name \in ScopedKeys THEN Ans("ok", {}, {}, {})
                         ELSE Ans("ok", {}, {kv.val : kv \in {x \in KvRows(db) : x.key = r.name}}, {})
MechById(db, r, Q) ==
    IF r.form = "nothex" THEN Ans("refused", {}, {}, {})                                                    \* hex.Decode fails
    ELSE IF r.tgt = 0 \/ r.form = "long" \/ (r.form = "short" /\ "short_id" \in Q)
         THEN (IF "unknown_200" \in Q THEN Ans("ok", {}, {}, {}) ELSE Ans("notfound", {}, {}, {}))
         ELSE Ans("ok", {}, {}, {p \in SpanSet(db) : p.t = r.tgt})                                          \* WHERE trace_id = unhex(id)
Mech(db, r, Q) == CASE r.ep = "search" -> MechSearch(db, r, Q)
                    [] r.ep = "tags"   -> MechTags(db)
                    [] r.ep = "values" -> MechValues(db, r, Q)
                    [] r.ep = "byid"   -> MechById(db, r, Q)
                    [] r.ep = "echo"   -> Ans("ok", {}, {"echo"}, {})

\* the quirks of Q that fire on the answer ma = Mech(db, r, Q): switching one off changes the answer; where no single one does
\* (two quirks hide the same trace, e.g. the tag sits on a span that is too short AND the bound is tested per span), the
\* members of the smallest sets of quirks that change the answer when switched off together
RelevantTo(r) == CASE r.ep = "search" -> {"span_rows", "tags_same_span", "dur_span", "min_exclusive", "dur_trunc_ms", "v2_max_exclusive", "v2_inner_limit"}
                   [] r.ep = "values" -> {"values_scope_strip"}
                   [] r.ep = "byid"   -> {"unknown_200", "short_id"}
                   [] OTHER           -> {}
FiredLevel(db, r, ma, Q, n) == UNION {R \in SUBSET (Q \cap RelevantTo(r)) : Cardinality(R) = n /\ ma # Mech(db, r, Q \ R)}
FiredOf(db, r, ma, Q) ==
    LET f1 == FiredLevel(db, r, ma, Q, 1) IN IF f1 # {} THEN f1 ELSE
    LET f2 == FiredLevel(db, r, ma, Q, 2) IN IF f2 # {} THEN f2 ELSE
    LET f3 == FiredLevel(db, r, ma, Q, 3) IN IF f3 # {} THEN f3 ELSE
    IF ma # Mech(db, r, Q \ RelevantTo(r)) THEN Q \cap RelevantTo(r) ELSE {}

(* ---------------------- laws between the definitions ---------------------- *)
\* every listed trace is listed once and can be fetched by id
LawOnce(db, r) == r.ep = "search" =>
    LET rows == DefSearch(db, r).rows
    IN  /\ \A e1, e2 \in rows : e1.tr = e2.tr => e1 = e2
        /\ \A e \in rows : DefById(db, [r EXCEPT !.ep = "byid", !.tgt = e.tr, !.form = "lower"]).spans # {}
\* a smaller limit answers a subset, the newest ones; a tag more never lists more
LawLimit(db, r) == (r.ep = "search" /\ r.lim > 0) =>
    LET all == DefSearch(db, [r EXCEPT !.lim = 0]).rows
        cut == DefSearch(db, r).rows
    IN  /\ cut \subseteq all
        /\ Cardinality(cut) = (IF Cardinality(all) < r.lim THEN Cardinality(all) ELSE r.lim)
        /\ \A e \in cut, f \in all \ cut : Start(db, e.tr) > Start(db, f.tr)
LawTagsShrink(db, r) == (r.ep = "search" /\ r.lim = 0 /\ Len(r.tags) = 2) =>
    DefSearch(db, r).rows = DefSearch(db, [r EXCEPT !.tags = <<r.tags[1]>>]).rows \cap DefSearch(db, [r EXCEPT !.tags = <<r.tags[2]>>]).rows
\* a tag is listed iff it has values; a search for k = v over every tick finds a trace iff v is a value of k
LawTagsValues(db, r) ==
    /\ r.ep = "values" => ((DefValues(db, r).items # {}) = (r.name \in DefTags(db).items))
    /\ (r.ep = "search" /\ Len(r.tags) = 1) =>
           ((DefSearch(db, [r EXCEPT !.min = 0, !.max = 0, !.lim = 0, !.from = 0, !.to = 4]).rows # {}) = (r.tags[1].v \in ValuesOf(db, r.tags[1].k)))
=============================================================================

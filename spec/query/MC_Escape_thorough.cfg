SPECIFICATION Spec
CONSTANTS
  MaxLen = 5
  ExportLen = 3
  SampleMod = 400
  Seed = 1
INVARIANTS EscRoundTrip LikeStructure Export
CHECK_DEADLOCK FALSE

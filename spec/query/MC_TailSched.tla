---------------------------- MODULE MC_TailSched ----------------------------
(* Tail.tla with a history variable `sched`: what the WORLD did (request kind, lines stored, database faults, how the *)
(* client left) relative to the data queries of the service goroutine ("q").  Used in simulation mode to generate     *)
(* schedules that harness/cmd/x01 replays against the real code, and in BFS mode to find the shortest schedule that   *)
(* shows a named deviation (counterexample of the property it breaks).                                                *)
EXTENDS Tail

CONSTANTS ReqKinds, MaxTicks,
          LeaveAfter,   \* the client does not leave before that many ticks (99: it stays)
          MinTs,        \* smallest timestamp the world uses
          NoFuture,     \* TRUE: no line carries a timestamp at or after the current clock
          StoresPerTick \* at most that many lines become visible per second (spreads the stores over the run)

VARIABLES sched, nt

svars == <<vars, sched, nt>>

E(op, a, b, k) == [op |-> op, a |-> a, b |-> b, k |-> k]
Log(e) == sched' = Append(sched, e) /\ nt' = nt
Quiet  == UNCHANGED <<sched, nt>>

\* a second is long: it only passes when nothing but waiting is left to do (keeps the generated schedules rich in complete ticks)
Busy ==
    \/ spc \in {"version", "done", "query", "exit"} \/ (spc = "tick" /\ svcTick)
    \/ (hpc = "select" /\ (pingTick \/ cancelled \/ chClosed \/ spc \in {"send", "errsend"}))
    \/ (dpc = "drain" /\ (chClosed \/ spc \in {"send", "errsend"}))
    \/ (wire # <<>> /\ client \in {"open", "closing", "closed"})

SInit == Init /\ sched = <<>> /\ nt = 0

SNext ==
    \/ /\ Cardinality(store) < StoresPerTick * (nt + 1)
       /\ \E l \in Lines, t \in MinTs..(MaxT - 1) : (NoFuture => t < now) /\ StoreLine(l, t) /\ Log(E("store", l, t, ""))
    \/ nt < MaxTicks /\ req # "none" /\ ~Busy /\ Tick /\ sched' = Append(sched, E("tick", 0, 0, "")) /\ nt' = nt + 1
    \/ nt >= LeaveAfter /\ ClientClose /\ Log(E("close", 0, 0, ""))
    \/ nt >= LeaveAfter /\ ClientDrop /\ Log(E("drop", 0, 0, ""))
    \/ ClientRead /\ Quiet
    \/ \E k \in ReqKinds : Request(k, now - 1) /\ Log(E("req", 0, 0, k))
    \/ (HCtx \/ HPing \/ HRecv \/ HRecvClosed \/ RClose \/ RDrop \/ DRecv \/ DEnd \/ STick \/ SDone \/ SExit) /\ Quiet
    \/ \E o \in {"cached", "ok", "ctx"} : SVersion(o) /\ Quiet
    \/ SVersion("version") /\ Log(E("fault", 0, 0, "version"))
    \/ SQuery(now, "ctx", {}) /\ Quiet
    \/ SQuery(now, "none", Rows(now)) /\ Log(E("q", 0, 0, "none"))
    \/ SQuery(now, "query", {}) /\ Log(E("q", 0, 0, "query"))
    \/ \E o \in {"row", "scan"} : \E P \in SUBSET Rows(now) : SQuery(now, o, P) /\ Log(E("q", Cardinality(P), 0, o))

SSpec == SInit /\ [][SNext]_svars

\* schedules worth replaying end with the client gone and everything that can end, ended
Settled == Gone /\ (AllDone \/ nt = MaxTicks)
=============================================================================

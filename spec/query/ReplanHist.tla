----------------------------- MODULE ReplanHist -----------------------------
(* C14, first sentence: the translation of a request is a function of the request ALONE - it does not depend   *)
(* on the translations the process made before.  Replan.tla states that the planners have no package level    *)
(* state; this module is the part of the specification that makes this checkable against the code.            *)
(*                                                                                                           *)
(* A request has coordinates (stream selector, line filter operator, line filter text, day of From, From in   *)
(* the first 30 minutes of its day).  Its translation has parts, each a function of some coordinates:         *)
(*   stream (selector), lines (operator, text: FilterDef of Replan), bound (the date bound of the series      *)
(*   index sub-selects, FormatFromDate: the day of From - 30 min), range (the time range).                    *)
(* Process level state can only make a translation depend on history by REMEMBERING a part under a key that   *)
(* is a projection of the request.  MemoDesigns is every such design (part x set of key coordinates x         *)
(* eviction policy: keep everything / keep the last entry).  A design is unsound iff two requests agree on    *)
(* the key and differ in the part.  The histories handed to the driver are the NEIGHBOUR PAIRS <<n, t>>: two  *)
(* requests that differ in exactly one coordinate, translated one after the other in one process; every       *)
(* translation must equal the translation of the same request made first-thing in a process of its own.       *)
(* Adequate (checked by TLC): every unsound design is exposed by at least one neighbour pair, whatever the    *)
(* process translated before the pair under the keep-last policy, and from an empty memo under keep-all.      *)
EXTENDS Replan, Json

HSel   == {"s1", "s2"}
HOps   == Ops \cup {"none"}
HTexts == {"lit", "rx"}                 \* a literal (plain or escaped: the driver draws from both pools) | a proper expression
HCtx   == {"early", "late", "prev", "next"}     \* day D 00:00-00:30 | day D later | day D-1 (later) | day D+1 (later)
HDay(c)   == CASE c = "prev" -> -1 [] c = "next" -> 1 [] OTHER -> 0
HEarly(c) == c = "early"

Req == {r \in [sel : HSel, op : HOps, text : HTexts, ctx : HCtx] : r.op = "none" => r.text = "lit"}

Coord == {"sel", "op", "text", "day", "early"}
Co(r, x) == CASE x = "sel"  -> r.sel
              [] x = "op"   -> r.op
              [] x = "text" -> r.text
              [] x = "day"  -> ToString(HDay(r.ctx))
              [] OTHER      -> ToString(HEarly(r.ctx))
Proj(r, key) == [x \in key |-> Co(r, x)]

Parts == {"stream", "lines", "bound", "range"}
PartOf(r, p) == CASE p = "stream" -> <<r.sel>>
                  [] p = "lines"  -> <<IF r.op = "none" THEN Lines ELSE FilterDef(r.op, r.text)>>
                  [] p = "bound"  -> <<HDay(r.ctx) - (IF HEarly(r.ctx) THEN 1 ELSE 0)>>
                  [] OTHER        -> <<HDay(r.ctx), HEarly(r.ctx)>>
Tr(r) == [p \in Parts |-> PartOf(r, p)]          \* THE DEFINITION: a function of the request alone

MemoDesigns == [part : Parts, key : SUBSET Coord, policy : {"keep", "last"}]
Unsound(m) == \E r1, r2 \in Req : Proj(r1, m.key) = Proj(r2, m.key) /\ PartOf(r1, m.part) # PartOf(r2, m.part)

\* one translation in a process whose memo is st (a set of <<key, value>>)
Translate(m, st, r) ==
  LET k == Proj(r, m.key)
      hit == {e \in st : e[1] = k}
      v == IF hit # {} THEN (CHOOSE e \in hit : TRUE)[2] ELSE PartOf(r, m.part)
  IN [st |-> IF hit # {} THEN st ELSE IF m.policy = "last" THEN {<<k, v>>} ELSE st \cup {<<k, v>>},
      out |-> [Tr(r) EXCEPT ![m.part] = v]]

\* the pair <<n, t>> translated in a process whose memo is st0: is a translation not the definition
ExposesFrom(m, st0, n, t) ==
  LET a == Translate(m, st0, n)
      b == Translate(m, a.st, t)
  IN a.out # Tr(n) \/ b.out # Tr(t)

Differ(n, t) == {x \in Coord : Co(n, x) # Co(t, x)}
Pairs == {h \in Req \X Req : Cardinality(Differ(h[1], h[2])) = 1}

\* memo contents a process can have when the pair <<n, t>> starts under keep-last: nothing, or one entry.  An entry
\* under another key than n's is evicted by n (= nothing), so the entries under n's key with every value the part takes
PartValues == [p \in Parts |-> {PartOf(r, p) : r \in Req}]
LastStates(m, n) == {{}} \cup {{<<Proj(n, m.key), v>>} : v \in PartValues[m.part]}
Adequate == \A m \in MemoDesigns : Unsound(m) =>
              \E h \in Pairs : IF m.policy = "last" THEN \A st \in LastStates(m, h[1]) : ExposesFrom(m, st, h[1], h[2])
                               ELSE ExposesFrom(m, {}, h[1], h[2])
\* and a sound design is never exposed: the expectation "equal to the isolated translation" is not too strong
SoundSilent == \A m \in MemoDesigns : ~Unsound(m) => \A h \in Pairs : ~ExposesFrom(m, {}, h[1], h[2])

-----------------------------------------------------------------------------
(* export: one state per neighbour pair *)
VARIABLE h
HInit == Init /\ h \in Pairs
HNext == UNCHANGED <<plans, last, h>>
HSpec == HInit /\ [][HNext]_<<plans, last, h>>
HRec == [n |-> h[1], t |-> h[2], differs |-> CHOOSE x \in Differ(h[1], h[2]) : TRUE]
HExport == PrintT(<<"HIST", ToJson(HRec)>>)
=============================================================================

\* the intended design (Dev = {}): every invariant and every liveness property holds
\* (tools/props/x01.py generates its cfgs from the same template; safety and liveness are run with different bounds there)
SPECIFICATION Spec
CONSTANTS
  Lines = {1}
  MaxT = 3
  Dev = {}
  Mixed = FALSE
  Faults = {"version", "query", "row", "scan"}
  MaxStale = 1
  MaxWire = 1
  ReqKinds = {"ok", "empty", "noparse", "noupgrade"}
INVARIANTS TypeOK FutureNotSkipped OldNeverDelivered OnlyStoredLines ServiceStopsAfterHandler DrainerOnlyAfterHandler
  ClosedOnlyByService RefusedStartsNothing NoDuplicate DueDelivered NoBadFrame RefusalIsAnError NothingAsCoded
PROPERTIES NoFrameAfterReturn Termination SenderNeverStuck ClosedEndsHandler EventuallyDelivered
CHECK_DEADLOCK FALSE

SPECIFICATION Spec
CONSTANTS
  Lines = {1, 2}
  MaxT = 4
  Dev = {}
  Faults = {"version", "query", "row", "scan"}
  MaxStale = 1
  MaxWire = 2
  ReqKinds = {"ok", "empty", "noparse", "noupgrade"}
INVARIANTS TypeOK NoDuplicate DueDelivered FutureNotSkipped OldNeverDelivered OnlyStoredLines NoBadFrame
  ServiceStopsAfterHandler DrainerOnlyAfterHandler ClosedOnlyByService RefusedStartsNothing
PROPERTIES NoFrameAfterReturn Termination SenderNeverStuck ClosedEndsHandler EventuallyDelivered
CHECK_DEADLOCK FALSE

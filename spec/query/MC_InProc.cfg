\* reference configuration (tools/props/c09.py generates the ones it runs)
SPECIFICATION Spec
CONSTANTS
  MaxN = 2
  MaxMsgs = 2
  PlFrom = 1
  PlTo = 100
  Lims = {0, 1, 2, 3}
INVARIANTS Thm_BatchingIndependent Thm_LimitMeaning Thm_SeriesIdentity
CHECK_DEADLOCK FALSE

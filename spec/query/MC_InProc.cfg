\* reference configuration (tools/props/c09.py generates the ones it runs)
SPECIFICATION Spec
CONSTANTS
  MaxN = 2
  MaxMsgs = 2
  Pls = {1, 2, 25, 33}
  Lims = {0, 1, 2, 3}
  Flushes = {0, 1, 2}
  Caps = {0, 1}
INVARIANTS Thm_BatchingIndependent Thm_LimitMeaning Thm_SeriesIdentity Thm_FlushInvisible Thm_GetterCut
CHECK_DEADLOCK FALSE

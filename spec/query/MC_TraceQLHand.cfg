SPECIFICATION Spec
CONSTANTS
  DayOfTick <- cDay
  Layers <- cLayers
  Thorough = FALSE
  Mods <- cMods
  Seed = 1
  RandCases <- cRand
  CodeFlags <- cFlags
INVARIANTS CheckCase
CHECK_DEADLOCK FALSE

SPECIFICATION Spec
CONSTANTS
  DayOfTick <- cDay
  Layers <- cLayers
  Thorough = FALSE
  Mods <- cMods
  Seed = 1
  RandCases <- cRand
  CodeFlags <- cFlags
  PortEvery = 6
INVARIANTS CheckCase
CHECK_DEADLOCK FALSE

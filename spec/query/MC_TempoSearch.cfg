\* by-hand run of the quick "T2" configuration of X07 (tools/props/x07.py generates its configurations from a template):
\*   two traces of up to two spans (root + child) over five tag sets x two services, every tags= request of plan T,
\*   the tag endpoints.  ExportMod = 0: nothing is printed.
SPECIFICATION Spec
CONSTANTS
  Keys <- MCKeys
  TagPool <- MCTags5
  V2 = FALSE
  ScopedKeys = {"b"}
  MaxTraces = 2
  MaxSpans = 2
  SvcPool = {"s1", "s2"}
  NmPool = {"n1"}
  TickPool = {2}
  DurPool = {4}
  ParMode = "tree"
  Plan = "T"
  ExportMod = 0
  ExportSeed = 0
  Repaired = {"min_exclusive", "dur_trunc_ms", "v2_max_exclusive", "values_scope_strip", "unknown_200", "short_id"}
INVARIANTS MechEqDef QuirksExplain Laws
CHECK_DEADLOCK FALSE

------------------------------ MODULE TraceQLSem ------------------------------
(***************************************************************************)
(* C11: "The SQL generated for TraceQL selects exactly the traces the      *)
(* query describes."                                                       *)
(*                                                                         *)
(* Part 1 (DEFINITION): a small trace database, the bounded TraceQL        *)
(* grammar and Eval(q, db): what the query describes.                      *)
(* Part 2 (MECHANISM): PlanEval(q, db, F): the relational plan built by    *)
(* reader/traceql/transpiler/clickhouse_transpiler, one operator per       *)
(* planner (init.go, attr_condition.go, attrless.go, index_groupby.go,     *)
(* aggregator.go, complex_and.go, complex_or.go, index_limit.go,           *)
(* traces_data.go, select_tags_planner.go), evaluated over the rows the    *)
(* writer stores in tempo_traces_attrs_gin / tempo_traces.                 *)
(*                                                                         *)
(* F is the set of enabled DEVIATION RULES: places where the planner was   *)
(* found (by reading it) to do something else than the straightforward     *)
(* reading of the design.  AllFlags is the vocabulary of rules (every rule *)
(* ever found on the tree); MC_TraceQL!CodeFlags, set from                 *)
(* tools/props/c11.py CODE_DEVIATIONS, lists the rules the tree has NOW:   *)
(* PlanEval(q, db, CodeFlags) is the code as written; PlanEval(q, db, {})  *)
(* is the design (bit per distinct term, WHERE pre-filter of all terms,    *)
(* groupBitOr per span, boolean tree with && above || in HAVING, selectors *)
(* combined over the union of their span rows, two limit planners).        *)
(* Repaired since the pinned tree: where, emptywhere, prec, intersect,     *)
(* chain3, drop3, tagsv2, attrless_le.  TLC checks                         *)
(*    Conforms(PlanEval(q, db, {}), Eval(q, db))   for every case          *)
(* and exports, for every case, Eval, PlanEval(CodeFlags) and the smallest *)
(* set of deviation rules that explains a difference.  A difference is a   *)
(* CANDIDATE; the verdict comes from running the real planner (binding).   *)
(*                                                                         *)
(* Part 3 (EVALUATOR): RunEval(q, db, cx, part, ph, F): how the statement(s)*)
(* of the plan are executed (reader/traceql/transpiler:                    *)
(* complexity_evaluator.go, simple_request_processor.go,                   *)
(* complex_request_processor.go).  A complexity query decides between ONE  *)
(* execution of the plan and Portions(cx) executions OF THE SAME PLAN, the *)
(* i-th over the traces with cityHash64(trace_id) % n = i plus the traces  *)
(* answered by the previous portion; the answer of the last portion is the *)
(* answer of the request.  TLC checks that the merged answer is what the   *)
(* definition accepts, for every split of the traces over the portions and *)
(* for both sub-second phases ph of the stored timestamps (see NextFrom).   *)
(***************************************************************************)
EXTENDS Integers, Sequences, FiniteSets, TLC

CONSTANTS DayOfTick      \* sequence: DayOfTick[t + 1] = calendar day of tick t (monotone)

Day(t) == DayOfTick[t + 1]
MaxOf(S) == CHOOSE x \in S : \A y \in S : x >= y
MinOf(S) == CHOOSE x \in S : \A y \in S : x <= y

(***************************************************************************)
(* DATA.  db = sequence of traces, trace = sequence of spans,              *)
(* span = [a, b : atom, nm : name atom, dur : Nat, ts : tick].             *)
(* atoms: "n1","n3" numeric 1 and 3; "sx","sy" non-numeric strings (sy is  *)
(* the decoy partner of sx); "none" = attribute missing.                   *)
(* The writer stores one attribute row per present attribute plus a        *)
(* `name` row and a `service.name` row for EVERY span.                     *)
(***************************************************************************)
NONE == "none"
NumAtoms == {"n1", "n3"}
NumOf(v) == IF v = "n1" THEN 1 ELSE 3
NULL == -1000

AttrOf(s, k) == CASE k = "a" -> s.a [] k = "b" -> s.b [] k = "name" -> s.nm [] OTHER -> NONE

Traces(db) == DOMAIN db
Spans(db, ti) == DOMAIN db[ti]

(***************************************************************************)
(* QUERY.                                                                  *)
(* term = [k : "str"|"num"|"dur", key : "a"|"b"|"name"|"-", op, cs, cn,    *)
(*         pfx] ; cs = string constant (atom it spells, "zz" = spells no   *)
(* stored value, "xy"/"pq" = regex alternation of both strings / names),   *)
(* cn = numeric constant; pfx = "." | "span." | "resource." | "" (how the  *)
(* attribute is written; all scopes denote the same stored attribute).     *)
(* selector = [sh : shape, t : <<term,term,term,term>>, agg : aggregate]   *)
(* aggregate = [fn : "none"|"count"|"avg"|"min"|"max"|"sum",               *)
(*              attr : "dur"|"a"|"b"|"-", op, c]                           *)
(* query = [kind : "search"|"tags"|"values", sels : Seq(selector),         *)
(*          ops : Seq("&&"|"||"), from, to, limit, vkey]                   *)
(***************************************************************************)
NumCmp(op, x, c) ==
  CASE op = "="  -> x = c
    [] op = "!=" -> x # c
    [] op = ">"  -> x > c
    [] op = ">=" -> x >= c
    [] op = "<"  -> x < c
    [] op = "<=" -> x <= c

ReMatch(pat, v) == \/ pat = v
                   \/ pat = "xy" /\ v \in {"sx", "sy"}
                   \/ pat = "pq" /\ v \in {"p", "q"}

StrCmp(op, v, c) ==
  CASE op = "="  -> v = c
    [] op = "!=" -> v # c
    [] op = "=~" -> ReMatch(c, v)
    [] op = "!~" -> ~ReMatch(c, v)

\* shapes of the boolean tree inside { }: rendering template, arity.
\* "ao" / "flat4" / "flat4b" are written WITHOUT parentheses.
Arity(sh) ==
  CASE sh = "empty" -> 0
    [] sh \in {"s1", "p1"} -> 1
    [] sh \in {"and2", "or2", "pand2"} -> 2
    [] sh \in {"and3", "or3", "ao", "oa", "pao", "apo", "poa", "opa"} -> 3
    [] OTHER -> 4

\* what the text means: && binds tighter than ||, parentheses group.
DefTree(sh, b) ==
  CASE sh = "empty" -> TRUE
    [] sh = "s1"    -> b[1]                            \* %1
    [] sh = "p1"    -> b[1]                            \* (%1)
    [] sh = "and2"  -> b[1] /\ b[2]                    \* %1 && %2
    [] sh = "or2"   -> b[1] \/ b[2]                    \* %1 || %2
    [] sh = "pand2" -> b[1] /\ b[2]                    \* ((%1) && %2)
    [] sh = "and3"  -> b[1] /\ b[2] /\ b[3]            \* %1 && %2 && %3
    [] sh = "or3"   -> b[1] \/ b[2] \/ b[3]            \* %1 || %2 || %3
    [] sh = "ao"    -> (b[1] /\ b[2]) \/ b[3]          \* %1 && %2 || %3
    [] sh = "oa"    -> b[1] \/ (b[2] /\ b[3])          \* %1 || %2 && %3
    [] sh = "pao"   -> (b[1] /\ b[2]) \/ b[3]          \* (%1 && %2) || %3
    [] sh = "apo"   -> b[1] /\ (b[2] \/ b[3])          \* %1 && (%2 || %3)
    [] sh = "poa"   -> (b[1] \/ b[2]) /\ b[3]          \* (%1 || %2) && %3
    [] sh = "opa"   -> b[1] \/ (b[2] /\ b[3])          \* %1 || (%2 && %3)
    [] sh = "papa"  -> (b[1] /\ b[2]) \/ (b[3] /\ b[4])   \* (%1 && %2) || (%3 && %4)
    [] sh = "popo"  -> (b[1] \/ b[2]) /\ (b[3] \/ b[4])   \* (%1 || %2) && (%3 || %4)
    [] sh = "nest"  -> b[1] /\ (b[2] \/ (b[3] /\ b[4]))   \* %1 && (%2 || (%3 && %4))
    [] sh = "nest2" -> ((b[1] \/ b[2]) /\ b[3]) \/ b[4]   \* ((%1 || %2) && %3) || %4
    [] sh = "flat4" -> b[1] \/ (b[2] /\ b[3]) \/ b[4]     \* %1 || %2 && %3 || %4
    [] sh = "flat4b" -> (b[1] /\ b[2]) \/ (b[3] /\ b[4])  \* %1 && %2 || %3 && %4

Holds(t, s) ==
  CASE t.k = "dur" -> NumCmp(t.op, s.dur, t.cn)
    [] t.k = "str" -> AttrOf(s, t.key) # NONE /\ StrCmp(t.op, AttrOf(s, t.key), t.cs)
    [] t.k = "num" -> AttrOf(s, t.key) \in NumAtoms /\ NumCmp(t.op, NumOf(AttrOf(s, t.key)), t.cn)

InWindow(s, q) == q.from <= s.ts /\ s.ts < q.to

SumOver(S, f) ==
  LET RECURSIVE Acc(_)
      Acc(R) == IF R = {} THEN 0 ELSE LET x == CHOOSE y \in R : TRUE IN f[x] + Acc(R \ {x})
  IN Acc(S)

\* aggregate filter over the matched spans MS of one trace; val[si] = value or NULL
AggPass(agg, MS, val) ==
  IF agg.fn = "none" THEN TRUE
  ELSE IF agg.fn = "count" THEN NumCmp(agg.op, Cardinality(MS), agg.c)
  ELSE LET num == {si \in MS : val[si] # NULL}
           n == Cardinality(num)
       IN IF n = 0 THEN FALSE      \* no value to aggregate: the trace does not pass
          ELSE CASE agg.fn = "sum" -> NumCmp(agg.op, SumOver(num, val), agg.c)
                 [] agg.fn = "avg" -> NumCmp(agg.op, SumOver(num, val), agg.c * n)
                 [] agg.fn = "min" -> NumCmp(agg.op, MinOf({val[si] : si \in num}), agg.c)
                 [] agg.fn = "max" -> NumCmp(agg.op, MaxOf({val[si] : si \in num}), agg.c)

DefAggVal(agg, s) ==
  IF agg.attr = "dur" THEN s.dur
  ELSE IF AttrOf(s, agg.attr) \in NumAtoms THEN NumOf(AttrOf(s, agg.attr)) ELSE NULL

\* result of one selector: [P : traces kept, ms : trace -> matched spans]
DefSelector(sel, q, db) ==
  LET ms == [ti \in Traces(db) |->
               {si \in Spans(db, ti) :
                  /\ InWindow(db[ti][si], q)
                  /\ DefTree(sel.sh, [j \in 1..4 |-> j <= Arity(sel.sh) /\ Holds(sel.t[j], db[ti][si])])}]
      P == {ti \in Traces(db) :
              /\ ms[ti] # {}
              /\ AggPass(sel.agg, ms[ti], [si \in Spans(db, ti) |-> DefAggVal(sel.agg, db[ti][si])])}
  IN [P |-> P, ms |-> ms]

\* chains: && binds tighter than ||
DefChain(q, db) ==
  LET r == [i \in DOMAIN q.sels |-> DefSelector(q.sels[i], q, db)]
      n == Len(q.sels)
      P == IF n = 1 THEN r[1].P
           ELSE IF n = 2 THEN (IF q.ops[1] = "&&" THEN r[1].P \cap r[2].P ELSE r[1].P \cup r[2].P)
           ELSE IF q.ops[1] = "||" /\ q.ops[2] = "&&" THEN r[1].P \cup (r[2].P \cap r[3].P)
           ELSE LET p12 == IF q.ops[1] = "&&" THEN r[1].P \cap r[2].P ELSE r[1].P \cup r[2].P
                IN IF q.ops[2] = "&&" THEN p12 \cap r[3].P ELSE p12 \cup r[3].P
  IN [P |-> P,
      ms |-> [ti \in Traces(db) |-> UNION {r[i].ms[ti] : i \in {i \in DOMAIN q.sels : ti \in r[i].P}}]]

(***************************************************************************)
(* "at most `limit` most recent traces": the statement does not say which  *)
(* instant of a trace decides how recent it is; three readings are         *)
(* accepted for choosing the traces and for ordering the answer:           *)
(* K1 latest matched span, K2 start of the trace, K3 start of the trace    *)
(* inside the window.  Ties may be resolved either way.                    *)
(***************************************************************************)
K1(db, ms) == [ti \in Traces(db) |-> IF ms[ti] = {} THEN -1 ELSE MaxOf({db[ti][si].ts : si \in ms[ti]})]
K2(db) == [ti \in Traces(db) |-> IF Spans(db, ti) = {} THEN -1 ELSE MinOf({db[ti][si].ts : si \in Spans(db, ti)})]
K3(db, q) == [ti \in Traces(db) |->
               LET w == {db[ti][si].ts : si \in {x \in Spans(db, ti) : InWindow(db[ti][x], q)}}
               IN IF w = {} THEN -1 ELSE MinOf(w)]

Perms(S) == LET n == Cardinality(S) IN {p \in [1..n -> S] : \A i, j \in 1..n : i # j => p[i] # p[j]}

\* all sequences that pick n = min(limit, |M|) traces that are the most recent by one
\* of selKeys and list them most recent first by one of ordKeys
TopSeqs(M, limit, selKeys, ordKeys) ==
  LET n == IF Cardinality(M) < limit THEN Cardinality(M) ELSE limit
      sets == {S \in SUBSET M : /\ Cardinality(S) = n
                                /\ \E key \in selKeys : \A x \in S, y \in M \ S : key[x] >= key[y]}
  IN UNION {{p \in Perms(S) : \E key \in ordKeys : \A i \in 1..(n - 1) : key[p[i]] >= key[p[i + 1]]} : S \in sets}

NoErr == ""

Eval(q, db) ==
  LET r == DefChain(q, db)
      keys == {K1(db, r.ms), K2(db), K3(db, q)}
  IN IF q.kind = "search"
     THEN [err |-> NoErr, M |-> r.P, ms |-> [ti \in Traces(db) |-> IF ti \in r.P THEN r.ms[ti] ELSE {}],
           seqs |-> TopSeqs(r.P, q.limit, keys, keys), strs |-> {}]
     ELSE \* tags / values of the spans selected by the (single) selector
          LET sp == UNION {{<<t1, s1>> : s1 \in r.ms[t1]} : t1 \in r.P}
              keysOf(s) == {k \in {"a", "b"} : AttrOf(s, k) # NONE} \cup {"name", "service.name"}
          IN [err |-> NoErr, M |-> {}, ms |-> [ti \in Traces(db) |-> {}], seqs |-> {},
              strs |-> IF q.kind = "tags" THEN UNION {keysOf(db[x[1]][x[2]]) : x \in sp}
                       ELSE {AttrOf(db[x[1]][x[2]], q.vkey) : x \in {y \in sp : AttrOf(db[y[1]][y[2]], q.vkey) # NONE}}]

(***************************************************************************)
(* MECHANISM.                                                              *)
(***************************************************************************)
AllFlags == {"where", "emptywhere", "prec", "intersect", "chain3", "drop3", "tagsv2", "attrless_le", "distinct", "portion_from"}

\* parser (model_v2.go): `Head AndOr Tail` is right recursive and has no operator priorities;
\* expression_planner_simple.go analyzeCond walks the chain, joins the runs of &&-ed heads and
\* ORs the runs, which is DefTree.
\* [prec] (as found on the pinned tree, repaired since): the chain was turned into a right-nested
\* tree, so a flat text  x && y || z  became  x && (y || z).
CodeTree(sh, b, F) ==
  IF "prec" \in F
  THEN CASE sh = "ao"     -> b[1] /\ (b[2] \/ b[3])
         [] sh = "flat4"  -> b[1] \/ (b[2] /\ (b[3] \/ b[4]))
         [] sh = "flat4b" -> b[1] /\ (b[2] \/ (b[3] /\ b[4]))
         [] OTHER -> DefTree(sh, b)
  ELSE DefTree(sh, b)

\* expression_planner_simple.go analyzeCond: every distinct term text gets the next
\* index (first appearance); a repeated term reuses it.
FirstSlot(sel, j) == CHOOSE i \in 1..j : sel.t[i] = sel.t[j] /\ \A i2 \in 1..(i - 1) : sel.t[i2] # sel.t[j]
BitIdx(sel, j) == Cardinality({i \in 1..FirstSlot(sel, j) : FirstSlot(sel, i) = i}) - 1

\* rows of tempo_traces_attrs_gin of one span: keys
RowKeys(s) == {k \in {"a", "b"} : AttrOf(s, k) # NONE} \cup {"name", "service.name"}
RowVal(s, k) == IF k = "service.name" THEN "svc" ELSE AttrOf(s, k)

\* attr_condition.go getTerm*: SQL condition of a term, evaluated on ONE row
RowTerm(t, s, k) ==
  CASE t.k = "dur" -> NumCmp(t.op, s.dur, t.cn)                 \* traces_idx.duration <op> ns
    [] t.k = "str" -> k = t.key /\ StrCmp(t.op, RowVal(s, k), t.cs)   \* key = K and val <op> 'S' / match(val, 'S')
    [] t.k = "num" -> /\ k = t.key                                \* key = K and isNotNull(toFloat64OrNull(val))
                      /\ RowVal(s, k) \in NumAtoms                \*   and toFloat64OrZero(val) <op> C
                      /\ NumCmp(t.op, NumOf(RowVal(s, k)), t.cn)

SelSlots(sel) == 1..Arity(sel.sh)
\* maybeCreateWhere: the terms OR-ed into the WHERE pre-filter: every term of the selector
\* (a duration comparison is a condition on every index row of the span).
\* [where] (as found on the pinned tree, repaired since): only terms on attributes / name.
WhereTerms(sel, F) == {sel.t[j] : j \in {x \in SelSlots(sel) : "where" \in F => sel.t[x].k # "dur"}}
\* aggregator(): sum/avg/min/max over an attribute add  key = '<attr>'  to the WHERE list
AggKey(sel) == IF sel.agg.fn \notin {"none", "count"} /\ sel.agg.attr # "dur" THEN sel.agg.attr ELSE "-"
\* the WHERE list can only be empty when duration terms are left out of it
WhereEmpty(sel, F) == WhereTerms(sel, F) = {} /\ AggKey(sel) = "-"

\* init.go: date and timestamp bounds
InitRow(s, q) == /\ Day(q.from) <= Day(s.ts) /\ Day(s.ts) <= Day(q.to)
                 /\ q.from <= s.ts /\ s.ts < q.to

\* one selector: AttrConditionPlanner + IndexGroupByPlanner + AggregatorPlanner
\* result [err, P, ms, key]  (key = max(timestamp_ns) of the matched spans)
MechSelector(sel, q, db, F) ==
  IF "emptywhere" \in F /\ sel.sh # "empty" /\ WhereEmpty(sel, F)
  THEN \* sql.Or() of an empty list renders `()`:  ... WHERE (<date and time bounds>) and ()
       [err |-> "emptywhere", P |-> {}, ms |-> [ti \in Traces(db) |-> {}], key |-> [ti \in Traces(db) |-> -1]]
  ELSE
  LET bi == [j \in 1..4 |-> IF j <= Arity(sel.sh) THEN BitIdx(sel, j) ELSE -1]
      whereTerms == WhereTerms(sel, F)
      aggKey == AggKey(sel)
      \* WHERE ... and (term1 or term2 or ... [or key = aggattr]): rows that do not satisfy any
      \* term of the list are not read at all.  With every term in the list this loses nothing:
      \* a term that holds for a span holds on one of its rows, and that row is admitted.
      \* With [where] a span matched through a duration term only has no admitted row.
      whereOn == ~WhereEmpty(sel, F)
      info == [ti \in Traces(db) |-> [si \in Spans(db, ti) |->
                LET s == db[ti][si]
                    vis == IF whereOn
                           THEN {k \in RowKeys(s) : (\E t \in whereTerms : RowTerm(t, s, k)) \/ k = aggKey}
                           ELSE RowKeys(s)
                    \* GROUP BY trace_id, span_id: groupBitOr(bitShiftLeft(toUInt64(term_i), i) + ...) as a set of bit numbers
                    bits == {bi[j] : j \in {x \in SelSlots(sel) : \E k \in vis : RowTerm(sel.t[x], s, k)}}
                IN [ok |-> /\ InitRow(s, q)
                           /\ vis # {}
                           \* HAVING tree over bitAnd(bsCond, 1 << idx) != 0
                           /\ CodeTree(sel.sh, [j \in 1..4 |-> bi[j] \in bits], F),
                    \* agg_val: toFloat64(duration) | anyIf(toFloat64OrNull(val), key == attr)
                    av |-> IF sel.agg.attr = "dur" THEN s.dur
                           ELSE IF aggKey \in vis /\ RowVal(s, aggKey) \in NumAtoms THEN NumOf(RowVal(s, aggKey)) ELSE NULL]]]
      ms == [ti \in Traces(db) |-> {si \in Spans(db, ti) : info[ti][si].ok}]
      P == {ti \in Traces(db) :
              /\ ms[ti] # {}
              /\ AggPass(sel.agg, ms[ti], [si \in Spans(db, ti) |-> info[ti][si].av])}
  IN [err |-> NoErr, P |-> P, ms |-> ms, key |-> K1(db, ms)]

\* attrless.go ({}): trace ids of the `limit` newest spans with from <= ts <= to (sic), then
\* their spans inside [from, to).                                          [attrless_le]
\* SELECT DISTINCT trace_id ... ORDER BY timestamp_ns DESC LIMIT n: DISTINCT is applied before
\* ORDER BY, so the instant that ranks a trace is the timestamp of ANY of its candidate
\* spans (whichever row survives DISTINCT), not of its newest one.            [distinct]
MechAttrless(q, db, F) ==
  LET cand(ti) == {si \in Spans(db, ti) : q.from <= db[ti][si].ts /\
                     (IF "attrless_le" \in F THEN db[ti][si].ts <= q.to ELSE db[ti][si].ts < q.to)}
      C == {ti \in Traces(db) : cand(ti) # {}}
      n == IF Cardinality(C) < q.limit THEN Cardinality(C) ELSE q.limit
      choices == {S \in SUBSET C : /\ Cardinality(S) = n
                     /\ \E pick \in [C -> UNION {{db[ti][si].ts : si \in Spans(db, ti)} : ti \in C}] :
                          /\ \A ti \in C : IF "distinct" \in F THEN pick[ti] \in {db[ti][si].ts : si \in cand(ti)}
                                             ELSE pick[ti] = MaxOf({db[ti][si].ts : si \in cand(ti)})
                          /\ \A x \in S, y \in C \ S : pick[x] >= pick[y]}
      msOf(S) == [ti \in Traces(db) |-> IF ti \in S THEN {si \in Spans(db, ti) : InWindow(db[ti][si], q)} ELSE {}]
  IN {[P |-> {ti \in S : msOf(S)[ti] # {}}, ms |-> msOf(S)] : S \in choices}

\* complex_and.go / complex_or.go: every operand becomes rows (trace_id, span_id, timestamp_ns =
\* newest matched timestamp of the trace in that operand [, _operand = number of the operand]).
\* ||: UNION ALL of the rows, GROUP BY trace_id, groupUniqArray(span_id), ORDER BY max(timestamp_ns).
\* &&: the same, HAVING count(distinct _operand) = number of operands: the traces present in
\*     every operand, with the spans matched by any of them.
\* [intersect] (as found on the pinned tree, repaired since): && was the INTERSECT of whole rows
\*     (trace_id, span_id, max_timestamp_ns).
ChainRows(r, db) == UNION {{<<ti, si, r.key[ti]>> : si \in r.ms[ti]} : ti \in r.P}

MechCombine(op, r1, r2, db, F) ==
  LET rows == IF op = "&&" THEN ChainRows(r1, db) \cap ChainRows(r2, db)       \* only used under [intersect]
              ELSE ChainRows(r1, db) \cup ChainRows(r2, db)                     \* UNION ALL + groupUniqArray
      P == IF op = "&&" /\ "intersect" \notin F THEN r1.P \cap r2.P ELSE {x[1] : x \in rows}
      ms == [ti \in Traces(db) |->
               IF op = "&&" /\ "intersect" \notin F
               THEN (IF ti \in P THEN r1.ms[ti] \cup r2.ms[ti] ELSE {})
               ELSE {x[2] : x \in {y \in rows : y[1] = ti}}]
      key == [ti \in Traces(db) |->
               IF ti \notin P THEN -1
               ELSE IF op = "&&" /\ "intersect" \notin F THEN MaxOf({r1.key[ti], r2.key[ti]})
               ELSE MaxOf({x[3] : x \in {y \in rows : y[1] = ti}})]
  IN [err |-> NoErr, P |-> P, ms |-> ms, key |-> key]

\* planner.go plan(): IndexLimitPlanner (limit newest by max matched timestamp),
\* TracesDataPlanner (ORDER BY start of the whole trace DESC), IndexLimitPlanner again.
MechFinal(P, ms, key, q, db) ==
  [err |-> NoErr, M |-> P, ms |-> [ti \in Traces(db) |-> IF ti \in P THEN ms[ti] ELSE {}],
   strs |-> {},
   seqs |-> LET n == IF Cardinality(P) < q.limit THEN Cardinality(P) ELSE q.limit
                sets == {S \in SUBSET P : Cardinality(S) = n /\ \A x \in S, y \in P \ S : key[x] >= key[y]}
                k2 == K2(db)
            IN UNION {{p \in Perms(S) : \A i \in 1..(n - 1) : k2[p[i]] >= k2[p[i + 1]]} : S \in sets}]

MechError(e, db) == [err |-> e, M |-> {}, ms |-> [ti \in Traces(db) |-> {}], seqs |-> {}, strs |-> {}]

\* the set of results the plan can produce (more than one only because of ties / DISTINCT)
PlanEval(q, db, F) ==
  LET n == Len(q.sels)
  IN
  IF q.kind # "search"
  THEN \* select_tags_planner.go / select_values_planner.go: `key` (`val`) is selected next to
       \* GROUP BY trace_id, span_id without an aggregate function            [tagsv2]
       \* (a statement can have this defect and the empty WHERE group; either may be reported)
       LET r == MechSelector(q.sels[1], q, db, F)
           errs == (IF "tagsv2" \in F THEN {"tagsv2"} ELSE {}) \cup (IF r.err # NoErr THEN {r.err} ELSE {})
       IN IF errs # {} THEN {MechError(e, db) : e \in errs}
          ELSE LET sp == UNION {{<<t1, s1>> : s1 \in r.ms[t1]} : t1 \in Traces(db)}
               IN {[err |-> NoErr, M |-> {}, ms |-> [ti \in Traces(db) |-> {}], seqs |-> {},
                    strs |-> IF q.kind = "tags" THEN UNION {RowKeys(db[x[1]][x[2]]) : x \in sp}
                             ELSE {RowVal(db[x[1]][x[2]], q.vkey) : x \in {y \in sp : q.vkey \in RowKeys(db[y[1]][y[2]])}}]}
  ELSE IF n = 1 /\ q.sels[1].sh = "empty"
  THEN {MechFinal(r.P, r.ms, K1(db, r.ms), q, db) : r \in MechAttrless(q, db, F)}
  ELSE
  LET r == [i \in 1..n |-> MechSelector(q.sels[i], q, db, F)]
      \* planner.go planComplex builds  S1 || S2 -> ||(S1, S2),  S1 && S2 && S3 -> &&(S1, &&(S2, S3)),
      \* S1 || S2 && S3 -> ||(S1, &&(S2, S3)),  S1 && S2 || S3 -> ||(&&(S1, S2), S3),
      \* S1 || S2 || S3 -> ||(||(S1, S2), S3)   (&& binds tighter than ||).
      \* [drop3] (as found on the pinned tree, repaired since): after `S1 op S2 && S3` the recursion
      \* continued on operands()[0], a simple selector whose addOp does nothing: S3 was never planned
      dropped == n = 3 /\ q.ops[2] = "&&" /\ "drop3" \in F
      planned == IF dropped THEN {1, 2} ELSE 1..n
      errs == {r[i].err : i \in planned} \ {NoErr}
  IN IF errs # {} THEN {MechError(CHOOSE e \in errs : TRUE, db)}
     ELSE IF n = 1 THEN {MechFinal(r[1].P, r[1].ms, r[1].key, q, db)}
     ELSE IF n = 2 THEN LET c == MechCombine(q.ops[1], r[1], r[2], db, F) IN {MechFinal(c.P, c.ms, c.key, q, db)}
     ELSE \* with three selectors an operand of the outer combination is itself a combination.
          \* [chain3] (as found on the pinned tree, repaired since): its rows had no
          \* `timestamp_ns` column for the appended max(timestamp_ns)
          IF "chain3" \in F THEN {MechError("chain3", db)}
          ELSE IF dropped
               THEN LET c == MechCombine(q.ops[1], r[1], r[2], db, F) IN {MechFinal(c.P, c.ms, c.key, q, db)}
          ELSE IF q.ops[2] = "&&"
               THEN LET c23 == MechCombine("&&", r[2], r[3], db, F)
                        c == MechCombine(q.ops[1], r[1], c23, db, F)
                    IN {MechFinal(c.P, c.ms, c.key, q, db)}
               ELSE LET c12 == MechCombine(q.ops[1], r[1], r[2], db, F)
                        c == MechCombine(q.ops[2], c12, r[3], db, F)
                    IN {MechFinal(c.P, c.ms, c.key, q, db)}

(***************************************************************************)
(* EVALUATOR.                                                              *)
(* complexity_evaluator.go Process: the complexity query (the plan of the  *)
(* selectors' index scans with count() per bit set, planEval) answers      *)
(* numbers; cx = the largest one.  cx < COMPLEXITY_THRESHOLD: the plan is  *)
(* processed and executed once (simple_request_processor.go).  Otherwise   *)
(* complex_request_processor.go Process: n = ceil(cx / threshold)          *)
(* portions; for i = 0 .. n-1 THE SAME plan is processed again with        *)
(* RandomFilter (n, i) and CachedTraceIds = the trace ids of the previous  *)
(* portion's answer: every AttrConditionPlanner adds                       *)
(*    and (cityHash64(trace_id) % n = i  or  trace_id in (cached))         *)
(* to its index scan, so portion i sees the traces of its hash class and   *)
(* the traces kept so far, and answers the `limit` most recent of them.    *)
(* The answer of the last portion is the answer of the request.            *)
(* `part` is the hash class of every trace (part[ti] \in 0 .. n-1): all    *)
(* splits are enumerated, the binding picks trace ids that hash that way.  *)
(* A selector without condition ({}) has no index scan to split and its    *)
(* complexity is `limit`: always one execution.  Tags / values requests    *)
(* above the threshold answer ALL tags (complex_tags_v2_processor.go),     *)
(* which is a documented degradation and not modelled: cx = 0 there.       *)
(***************************************************************************)
Threshold == 10000000      \* COMPLEXITY_THRESHOLD
\* 0 = one execution without random filter; n >= 1 = n executions with random filter (n, i)
Portions(cx) == IF cx < Threshold THEN 0 ELSE (cx + Threshold - 1) \div Threshold
Splittable(q) == q.kind = "search" /\ \A i \in DOMAIN q.sels : q.sels[i].sh # "empty"

\* what portion i can see: only the index scans are filtered; tempo_traces is read by trace id,
\* so a visible trace is seen with all its spans and a hidden one not at all
Hide(db, V) == [ti \in DOMAIN db |-> IF ti \in V THEN db[ti] ELSE <<>>]
RangeOf(p) == {p[j] : j \in DOMAIN p}

\* ProcessComplexReqIteration: the window start of the next portion.
\* As designed every portion evaluates the request's own window.
\* [portion_from] (as written): when a portion answers exactly `limit` traces, the next one
\* starts at a start_time_unix_nano of the answered traces (min over ALL spans of a trace,
\* tempo_traces is not bounded by the window): older spans of a trace that is only seen
\* by a later portion are cut off, and a trace that began before the window moves the start
\* BEFORE the request's window.
\* WHICH start: the loop over the answered traces (in answer order) is
\*     if from.Nanosecond() == 0 || from.After(start) { from = start }
\* with `from` initially the zero time: "no start taken yet" is recognised by a zero
\* sub-second part.  Time is therefore not just the tick: `ph` is the SUB-SECOND PHASE of the
\* stored span timestamps of the case (0: every span starts on a whole second; 1: every span
\* starts off the second, by the same offset < 1 tick, so that the order of the ticks and the
\* window membership - the window bounds of the API are whole seconds - are those of the ticks).
\*   ph = 0: every start looks like "nothing taken yet": the start of the LAST answered trace;
\*   ph = 1: the comparison decides: the EARLIEST start of the answered traces.
\* The definition (Eval) and the plan do not depend on the phase.
Phases == {0, 1}
NextFrom(q, db, F, p, from, ph) ==
  IF "portion_from" \in F /\ Len(p) = q.limit /\ Len(p) > 0
  THEN IF ph = 0 THEN K2(db)[p[Len(p)]] ELSE MinOf({K2(db)[p[j]] : j \in DOMAIN p})
  ELSE from

RECURSIVE PortionStep(_, _, _, _, _, _, _, _, _)
PortionStep(q, db, F, n, part, i, cached, from, ph) ==
  LET vis == {ti \in Traces(db) : part[ti] = i} \cup cached
      O == PlanEval([q EXCEPT !.from = from], Hide(db, vis), F)
  IN IF i = n - 1 THEN O
     ELSE UNION {(IF o.err # NoErr THEN {o}       \* a failing portion fails the request
                  ELSE UNION {PortionStep(q, db, F, n, part, i + 1, nx[1], nx[2], ph) :
                                nx \in {<<RangeOf(p), NextFrom(q, db, F, p, from, ph)>> : p \in o.seqs}})
                 : o \in O}

\* the set of answers of the request
RunEval(q, db, cx, part, ph, F) ==
  LET n == IF Splittable(q) THEN Portions(cx) ELSE 0
  IN IF n = 0 THEN PlanEval(q, db, F)
     ELSE PortionStep(q, db, F, n, part, 0, {}, q.from, ph)

(***************************************************************************)
(* COMPARISON, on what a client can observe: the sequence of traces in the *)
(* answer and the spans reported for each of them.  An outcome o conforms  *)
(* to the definition d iff it is not an error, every sequence it can       *)
(* return is acceptable, and for every returned trace the matched spans    *)
(* are right (one selector: exactly; several selectors: some of the spans  *)
(* matched by the selectors that keep the trace, at least one).            *)
(***************************************************************************)
Conforms(o, d, q, db) ==
  /\ o.err = NoErr
  /\ o.strs = d.strs
  /\ o.seqs \subseteq d.seqs
  /\ \A p \in o.seqs : \A i \in DOMAIN p :
        IF Len(q.sels) = 1 THEN o.ms[p[i]] = d.ms[p[i]]
        ELSE o.ms[p[i]] # {} /\ o.ms[p[i]] \subseteq d.ms[p[i]]

ConformsAll(O, d, q, db) == \A o \in O : Conforms(o, d, q, db)

\* deviation rules that can matter for q at all (keeps Explain cheap)
Applicable(q) ==
  LET S == {q.sels[i] : i \in DOMAIN q.sels}
      hasDur(sel) == \E j \in SelSlots(sel) : sel.t[j].k = "dur"
  IN (IF q.kind # "search" THEN {"tagsv2"} ELSE {})
     \cup (IF Len(q.sels) = 3 THEN {"chain3"} ELSE {})
     \cup (IF Len(q.sels) = 3 /\ q.ops[2] = "&&" THEN {"drop3"} ELSE {})
     \cup (IF \E i \in DOMAIN q.ops : q.ops[i] = "&&" THEN {"intersect"} ELSE {})
     \cup (IF \E sel \in S : sel.sh \in {"ao", "flat4", "flat4b"} THEN {"prec"} ELSE {})
     \cup (IF \E sel \in S : sel.sh # "empty" /\ WhereEmpty(sel, {"where"}) THEN {"emptywhere"} ELSE {})
     \cup (IF \E sel \in S : hasDur(sel) THEN {"where"} ELSE {})
     \cup (IF \E sel \in S : sel.sh = "empty" THEN {"attrless_le", "distinct"} ELSE {})
ApplicableRun(q, cx) == Applicable(q) \cup (IF Splittable(q) /\ Portions(cx) > 1 THEN {"portion_from"} ELSE {})

\* the smallest set of deviation rules that has to be switched off to make the plan conform
\* (CF = the deviation rules the code is believed to have)
ExplainWith(q, db, d, CF) ==
  LET good == {S \in SUBSET (Applicable(q) \cap CF) : ConformsAll(PlanEval(q, db, CF \ S), d, q, db)}
  IN IF good = {} THEN {"UNEXPLAINED"}
     ELSE CHOOSE S \in good : \A S2 \in good : Cardinality(S) <= Cardinality(S2)
Explain(q, db) == ExplainWith(q, db, Eval(q, db), AllFlags)
ExplainRun(q, db, cx, part, ph, d, CF) ==
  LET good == {S \in SUBSET (ApplicableRun(q, cx) \cap CF) : ConformsAll(RunEval(q, db, cx, part, ph, CF \ S), d, q, db)}
  IN IF good = {} THEN {"UNEXPLAINED"}
     ELSE CHOOSE S \in good : \A S2 \in good : Cardinality(S) <= Cardinality(S2)

=============================================================================

SPECIFICATION Spec
CONSTANTS
  MaxTs = 6
  MaxLen = 4
  SeekMax = 7
  MaxCalls = 4
CONSTRAINT Stop
CHECK_DEADLOCK FALSE

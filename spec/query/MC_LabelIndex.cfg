\* by-hand run of the quick "W2" configuration of X06 (tools/props/x06.py generates its configurations from a template):
\*   two series over {a:x} {a:x,b:x} {a:x,b:""} {a:x,n:x} x (log, metric, both) x ({1}, {2}, {1,2}) x key-order flip,
\*   every endpoint x three windows x GET / POST x few selectors.  ExportMod = 0: nothing is printed.
SPECIFICATION Spec
CONSTANTS
  Names <- MCNames
  LSPool <- MCLS4
  Limit = 10000
  ColonVals = {}
  CtrlVals = {}
  MaxSeries = 2
  TypePool = {0, 1, 2}
  DayPool = {1, 2, 3}
  FlipOn = TRUE
  Plan = "W"
  ExportMod = 0
  ExportSeed = 0
  Repaired = {"post_form", "dup_keyorder", "bare_colon", "goquote"}
INVARIANTS MechEqDef QuirksExplain Laws AbsentLocal
CHECK_DEADLOCK FALSE

------------------------------ MODULE Escape ------------------------------
(* C10 -- request strings can never change the structure of SQL sent to ClickHouse.

   Strings are sequences of character CLASSES (a class stands for any byte / rune of that kind; the Go driver
   cmd/c10 substitutes several representatives per class).  The module transcribes

     Esc        reader/utils/sql_select/objects.go  StringVal.String  (a SEQUENCE of strings.Replace calls: order matters)
     LikeText   reader/logql/logql_transpiler_v2/clickhouse_planner/planner_line_filter.go  doLike
                (escape \ % _ for LIKE, enquote, strip the two enclosing quotes, wrap in '% ... %')
     Lex        ClickHouse's single-quoted literal: Lexer.cpp + ReadHelpers.cpp parseComplexEscapeSequence
                (the reference behaviour of harness/chsql/lexer.go readQuoted)
     LikeDecode ClickHouse's likePatternToRegexp (harness/chsql/funcs_string.go likeToRegexp)

   and states the properties
     EscRoundTrip   Lex(Quote(s)) is exactly ONE literal spanning the whole text and decodes to s
     LikeStructure  Lex(LikeText(s)) is exactly ONE literal spanning the whole text           (no injection)
     LikeValue      ... and its LIKE meaning is  ANY s ANY  with every character of s literal   (right answer)
     MatcherStructure  every admissible rendering of a regex label matcher (anchored pattern; equality shortcut for a
                    pattern without metacharacters) is exactly ONE literal decoding to the value that rendering needs
*)
EXTENDS Integers, Sequences, TLC

\* ---- alphabets -------------------------------------------------------------------------------------------
Sigma == {"bs", "sq", "dq", "nul", "nl", "cr", "bsp", "tab", "sub", "pct", "us", "dash", "slash", "star",
          "hash", "semi", "hi", "bad", "a", "bt"}   \* "bt": the backtick (raw-string quote of LogQL / TraceQL, identifier quote of ClickHouse)
\* letters that only the escaping routines emit ("a" of \x1a is the harmless letter of Sigma itself)
Letters == {"c0", "c1", "n", "r", "b", "t", "x"}
\* punctuation that only the regular-expression anchoring of a label matcher emits:  ^ ( ? : ) $
AnchorLetters == {"caret", "lp", "qm", "colon", "rp", "dollar"}
Gamma == Sigma \cup Letters
ControlClasses == {"nul", "nl", "cr", "bsp", "tab", "sub", "ctl"}    \* "ctl": any other ASCII control character

\* ---- strings.Replace(s, f, r, -1) for a one-byte f ---------------------------------------------------------
RECURSIVE ReplaceAll(_, _, _)
ReplaceAll(s, f, r) ==
    IF s = <<>> THEN <<>>
    ELSE (IF Head(s) = f THEN r ELSE <<Head(s)>>) \o ReplaceAll(Tail(s), f, r)

\* ---- StringVal.String: find/replace tables, applied in THIS order ------------------------------------------
\*   find    := {"\\", "\000", "\n", "\r", "\b", "\t", "\x1a", "'"}
\*   replace := {"\\\\", "\\0", "\\n", "\\r", "\\b", "\\t", "\\x1a", "\\'"}
EscTable == << <<"bs",  <<"bs", "bs">> >>,
               <<"nul", <<"bs", "c0">> >>,
               <<"nl",  <<"bs", "n">> >>,
               <<"cr",  <<"bs", "r">> >>,
               <<"bsp", <<"bs", "b">> >>,
               <<"tab", <<"bs", "t">> >>,
               <<"sub", <<"bs", "x", "c1", "a">> >>,
               <<"sq",  <<"bs", "sq">> >> >>

RECURSIVE ApplyTable(_, _, _)
ApplyTable(s, tbl, i) ==
    IF i > Len(tbl) THEN s ELSE ApplyTable(ReplaceAll(s, tbl[i][1], tbl[i][2]), tbl, i + 1)

Esc(s) == ApplyTable(s, EscTable, 1)
Quote(s) == <<"sq">> \o Esc(s) \o <<"sq">>                 \* return "'" + res + "'"

\* ---- doLike -------------------------------------------------------------------------------------------------
LikeContent(s) ==
    LET l1  == ReplaceAll(s, "bs", <<"bs", "bs">>)         \* strings.NewReplacer(`\`, `\\`, "%", `\%`, "_", `\_`).Replace(l.Val):
        l2  == ReplaceAll(l1, "pct", <<"bs", "pct">>)      \* one pass over the value; the same as these three passes,
        l3  == ReplaceAll(l2, "us", <<"bs", "us">>)        \* backslash first
        enq == Quote(l3)                                   \* l.enquoteStr(likeVal)
    IN SubSeq(enq, 2, Len(enq) - 1)                        \* enqVal[1 : len(enqVal)-1]
LikeText(s) == <<"sq", "pct">> \o LikeContent(s) \o <<"pct", "sq">>      \* '%%%s%%'

\* ---- ClickHouse string literal -------------------------------------------------------------------------------
HexDigits == {"c0", "c1", "a", "b"}
HexVal(d) == CASE d = "c0" -> 0 [] d = "c1" -> 1 [] d = "a" -> 10 [] d = "b" -> 11
ByteClass(n) == CASE n = 0 -> "nul" [] n = 10 -> "nl" [] n = 26 -> "sub"
                  [] n >= 128 -> "bad"            \* a lone byte >= 0x80 is not valid UTF-8
                  [] OTHER -> "ctl"               \* 0x01 0x0b 0x10 0x11 0x1b
KnownEscape == [c0 |-> "nul", a |-> "ctl", b |-> "bsp", n |-> "nl", r |-> "cr", t |-> "tab"]   \* \0 \a \b \n \r \t
DropsBackslash == {"bs", "sq", "dq", "slash"} \cup ControlClasses  \* \\ \' \" \/ and "\<control char>" lose the backslash

Fail(acc) == [ok |-> FALSE, val |-> acc, rest |-> <<>>]

RECURSIVE LexBody(_, _)
LexBody(t, acc) ==
    IF t = <<>> THEN Fail(acc)                                          \* unterminated literal
    ELSE LET c == Head(t) IN
      IF c = "sq" THEN
         IF Len(t) >= 2 /\ t[2] = "sq"
         THEN LexBody(SubSeq(t, 3, Len(t)), Append(acc, "sq"))          \* '' inside a literal
         ELSE [ok |-> TRUE, val |-> acc, rest |-> Tail(t)]              \* closing quote
      ELSE IF c = "bs" THEN
         IF Len(t) < 2 THEN Fail(acc)
         ELSE LET e == t[2]  rest2 == SubSeq(t, 3, Len(t)) IN
           IF e = "x" THEN
              IF Len(t) >= 4 /\ t[3] \in HexDigits /\ t[4] \in HexDigits
              THEN LexBody(SubSeq(t, 5, Len(t)), Append(acc, ByteClass(16 * HexVal(t[3]) + HexVal(t[4]))))
              ELSE Fail(acc)
           ELSE IF e \in DOMAIN KnownEscape THEN LexBody(rest2, Append(acc, KnownEscape[e]))
           ELSE IF e \in DropsBackslash THEN LexBody(rest2, Append(acc, e))
           ELSE LexBody(rest2, acc \o <<"bs", e>>)                      \* unknown escape keeps the backslash
      ELSE LexBody(Tail(t), Append(acc, c))

Lex(text) == IF text = <<>> \/ Head(text) # "sq" THEN Fail(<<>>) ELSE LexBody(Tail(text), <<>>)

OneLiteral(text) == LET r == Lex(text) IN r.ok /\ r.rest = <<>>

\* ---- ClickHouse LIKE pattern -> sequence of "ANY" | "ONE" | "ERR" | literal class -----------------------------
RECURSIVE LikeDecode(_)
LikeDecode(p) ==
    IF p = <<>> THEN <<>>
    ELSE LET c == Head(p) IN
      IF c = "pct" THEN <<"ANY">> \o LikeDecode(Tail(p))
      ELSE IF c = "us" THEN <<"ONE">> \o LikeDecode(Tail(p))
      ELSE IF c = "bs" THEN
         IF Len(p) = 1 THEN <<"ERR">>                                   \* escape at the end of the pattern: exception
         ELSE IF p[2] \in {"pct", "us", "bs"} THEN <<p[2]>> \o LikeDecode(SubSeq(p, 3, Len(p)))
         ELSE <<"bs">> \o LikeDecode(Tail(p))                           \* unknown escape: a literal backslash
      ELSE <<c>> \o LikeDecode(Tail(p))

Intended(s) == <<"ANY">> \o s \o <<"ANY">>

\* ---- label matchers with a regular expression: the rendering is CHOSEN by the class of the string --------------------
\*   planner_stream_select.go (LogQL stream selectors, /series and label-values match[], PromQL matchers) and
\*   prof/transpiler/planner_selector.go render  =~ v  as  match(val, '^(?:v)$') == 1  (anchoredRe).  A planner may also
\*   take a SHORTCUT for a pattern that is its own literal (no metacharacter: regexp.QuoteMeta(v) = v) and render the
\*   comparison  val == 'v'  (the line filter does the same with LIKE, see LikeText).  The choice depends on the request
\*   string, so every member of the family has to be one literal that decodes to what the comparison needs.
RegexMeta == {"bs", "star"}                     \* the classes of Sigma regexp.QuoteMeta escapes ( \ . + * ? ( ) | [ ] { } ^ $ )
RegexPlain(s) == /\ s # <<>>                                            \* regexp/syntax: OpLiteral whose runes are s itself
                 /\ \A i \in 1..Len(s) : s[i] \notin RegexMeta \cup {"bad"}  \* (invalid UTF-8 does not parse)
Anchor(s) == <<"caret", "lp", "qm", "colon">> \o s \o <<"rp", "dollar">>  \* anchoredRe: ^(?:s)$
\* the value the literal of each admissible rendering has to carry
MatcherValues(s) == {Anchor(s)} \cup (IF RegexPlain(s) \/ s = <<>> THEN {s} ELSE {})   \* (^(?:)$ is equality with "")
\* the renderings of the family as the code is meant to write them: through StringVal
MatcherTexts(s) == {Quote(v) : v \in MatcherValues(s)}
MatcherOK(s) == \A v \in MatcherValues(s) : LET r == Lex(Quote(v)) IN r.ok /\ r.rest = <<>> /\ r.val = v
\* the same shortcut with the value PASTED between quotes (fmt.Sprintf("'%s'", v)): "plain for the regexp package" does not
\* mean "plain for SQL" -- TLC refutes RawShortcutOK (MC_Escape: ASSUME RawShortcutRefuted), the quote is the witness
RawQuote(s) == <<"sq">> \o s \o <<"sq">>
RawShortcutOK(s) == RegexPlain(s) => (LET r == Lex(RawQuote(s)) IN r.ok /\ r.rest = <<>> /\ r.val = s)

\* ---- the properties ---------------------------------------------------------------------------------------------
EscOK(s)         == LET r == Lex(Quote(s)) IN r.ok /\ r.rest = <<>> /\ r.val = s
LikeStructOK(s)  == OneLiteral(LikeText(s))
LikeDecoded(s)   == LET r == Lex(LikeText(s)) IN IF r.ok THEN LikeDecode(r.val) ELSE <<"ERR">>
LikeValueOK(s)   == LikeStructOK(s) /\ LikeDecoded(s) = Intended(s)
=============================================================================

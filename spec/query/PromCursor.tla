----------------------------- MODULE PromCursor -----------------------------
(* C17, part A: the series cursor the Prometheus storage adapter hands to the PromQL engine.                 *)
(*                                                                                                           *)
(* IMPLEMENTATION side  = a transcription of reader/model/prometheus.go `seriesIt` (state: idx, starts -1): *)
(*      Next : idx++ ; return idx < len                                                                      *)
(*      Seek : if idx < 0 {idx = 0}; if idx >= len {return false};                                           *)
(*             idx += sort.Search over samples[idx:] for ts >= t (lower bound, forward only);                *)
(*             return idx < len                                                                              *)
(*      At   : samples[idx]                                                                                  *)
(*   An out-of-range index is a Go panic; the transcription returns "panic".                                 *)
(* CONTRACT side = chunkenc.Iterator (tsdb/chunkenc/chunk.go of the vendored Prometheus):                    *)
(*      Next advances by one; Seek advances FORWARD to the first sample with timestamp >= t, has no effect   *)
(*      if the current sample already satisfies that, returns false iff no such sample exists; the iterator  *)
(*      is exhausted when Next/Seek returned false and stays exhausted; At returns the current sample and is *)
(*      unspecified before the first advance and after exhaustion.                                           *)
(* Both are deterministic machines over one strictly increasing timestamp array. The model checker runs them *)
(* in lock step under every call sequence and compares what they return (Conforms).                          *)
EXTENDS Integers, Sequences, FiniteSets, TLC

CONSTANTS MaxTs,      \* timestamps are 1..MaxTs
          MaxLen,     \* arrays of 0..MaxLen samples
          SeekMax,    \* Seek(t) for t in 0..SeekMax
          MaxCalls    \* calls per cursor

VARIABLES arr,        \* the sample timestamps, strictly increasing (values are irrelevant to the cursor: v = f(ts))
          idx,        \* implementation: seriesIt.idx
          pos,        \* contract: -1 = not advanced yet, 0..Len-1 = on a sample (0-based), Len = exhausted
          n,          \* calls made
          last,       \* the last call           [op, t]
          iret,       \* what the transcription returned for it   [ok, ts]
          rret        \* what the contract returns for it         [ok, ts]
vars == <<arr, idx, pos, n, last, iret, rret>>

(* ---------- arrays ---------- *)
RECURSIVE IncSeqs(_, _)
\* strictly increasing sequences over lo..MaxTs of length <= k
IncSeqs(lo, k) == IF k = 0 \/ lo > MaxTs THEN {<<>>}
                  ELSE {<<>>} \cup UNION {{<<x>> \o s : s \in IncSeqs(x + 1, k - 1)} : x \in lo..MaxTs}
Arrays == IncSeqs(1, MaxLen)

Calls == {[op |-> "Next", t |-> 0], [op |-> "At", t |-> 0]} \cup {[op |-> "Seek", t |-> t] : t \in 0..SeekMax}

None == [ok |-> "none", ts |-> 0]
R(ok, ts) == [ok |-> ok, ts |-> ts]

(* ---------- the contract (0-based positions; a[p+1] is the sample at position p) ---------- *)
LowerBound(a, from, t) ==       \* first position >= from whose timestamp is >= t, Len(a) if none
    LET C == {p \in from..(Len(a) - 1) : a[p + 1] >= t} IN
    IF C = {} THEN Len(a) ELSE CHOOSE p \in C : \A q \in C : p <= q

RefNext(a, p) == IF p >= Len(a) THEN [pos |-> Len(a), ret |-> R("false", 0)]
                 ELSE LET q == p + 1 IN
                      [pos |-> q, ret |-> IF q < Len(a) THEN R("true", a[q + 1]) ELSE R("false", 0)]

RefSeek(a, p, t) ==
    IF p >= Len(a) THEN [pos |-> Len(a), ret |-> R("false", 0)]                      \* exhausted stays exhausted
    ELSE IF p >= 0 /\ a[p + 1] >= t THEN [pos |-> p, ret |-> R("true", a[p + 1])]    \* no effect, never backwards
    ELSE LET q == LowerBound(a, IF p < 0 THEN 0 ELSE p + 1, t) IN
         [pos |-> q, ret |-> IF q < Len(a) THEN R("true", a[q + 1]) ELSE R("false", 0)]

RefAt(a, p) == IF p >= 0 /\ p < Len(a) THEN [pos |-> p, ret |-> R("at", a[p + 1])]
               ELSE [pos |-> p, ret |-> R("unspecified", 0)]

RefStep(a, p, c) == CASE c.op = "Next" -> RefNext(a, p)
                      [] c.op = "Seek" -> RefSeek(a, p, c.t)
                      [] c.op = "At"   -> RefAt(a, p)

(* ---------- the transcription of seriesIt ---------- *)
InRange(a, i) == i >= 0 /\ i < Len(a)
\* what a successful Next/Seek lets the caller observe: (true, timestamp under the cursor) -- reading the
\* sample is At(), which panics when idx is out of range (cannot happen right after a `true`)
Obs(a, i) == IF i < Len(a) THEN (IF InRange(a, i) THEN R("true", a[i + 1]) ELSE R("panic", 0)) ELSE R("false", 0)

ImplNext(a, i) == [idx |-> i + 1, ret |-> Obs(a, i + 1)]

RECURSIVE SortSearch(_, _, _, _, _)
\* sort.Search(n, f) over rest = a[from:], f(i) = rest[i].ts >= t:  i, j := 0, n; for i < j { h := (i+j)/2; if !f(h) {i = h+1} else {j = h} }; return i
SortSearch(a, from, t, i, j) ==
    IF i < j THEN
        LET h == (i + j) \div 2 IN
        IF a[from + h + 1] >= t THEN SortSearch(a, from, t, i, h)
        ELSE SortSearch(a, from, t, h + 1, j)
    ELSE i

ImplSeek(a, i, t) ==
    LET i0 == IF i < 0 THEN 0 ELSE i IN                                \* if s.idx < 0 { s.idx = 0 }
    IF i0 >= Len(a) THEN [idx |-> i0, ret |-> R("false", 0)]            \* if s.idx >= len(s.samples) { return false }
    ELSE LET j == i0 + SortSearch(a, i0, t, 0, Len(a) - i0) IN [idx |-> j, ret |-> Obs(a, j)]

ImplAt(a, i) == IF InRange(a, i) THEN [idx |-> i, ret |-> R("at", a[i + 1])] ELSE [idx |-> i, ret |-> R("panic", 0)]

ImplStep(a, i, c) == CASE c.op = "Next" -> ImplNext(a, i)
                       [] c.op = "Seek" -> ImplSeek(a, i, c.t)
                       [] c.op = "At"   -> ImplAt(a, i)

(* ---------- lock step ---------- *)
Init == /\ arr \in Arrays
        /\ idx = -1 /\ pos = -1 /\ n = 0
        /\ last = [op |-> "none", t |-> 0] /\ iret = None /\ rret = None

Diverged == rret.ok # "unspecified" /\ iret # rret

Call(c) == /\ n < MaxCalls
           \* a Go panic is recovered by the caller and leaves idx as it was: both machines stay well defined
           /\ LET i == ImplStep(arr, idx, c)
                  r == RefStep(arr, pos, c) IN
              /\ idx' = i.idx /\ iret' = i.ret
              /\ pos' = r.pos /\ rret' = r.ret
           /\ n' = n + 1 /\ last' = c /\ UNCHANGED arr

DoNext == Call([op |-> "Next", t |-> 0])
DoAt   == Call([op |-> "At", t |-> 0])
DoSeek == \E t \in 0..SeekMax : Call([op |-> "Seek", t |-> t])
Next == DoNext \/ DoSeek \/ DoAt
Spec == Init /\ [][Next]_vars

(* ---------- properties ---------- *)
TypeOK == /\ arr \in Arrays /\ idx \in -1..(MaxLen + MaxCalls) /\ pos \in -1..MaxLen /\ n \in 0..MaxCalls

\* the property: the cursor returns what the contract returns wherever the contract specifies it
Conforms == ~Diverged
ConformsNonEmpty == Len(arr) > 0 => ~Diverged       \* the same, leaving the empty sample slice aside

\* sanity of the contract itself (checked on the whole space)
RefSane ==
    /\ pos <= Len(arr)
    /\ (last.op = "Seek" /\ rret.ok = "true") =>
            /\ rret.ts >= last.t /\ rret.ts = arr[pos + 1]
    /\ (last.op = "Seek" /\ rret.ok = "false") => /\ pos = Len(arr)
    /\ (last.op \in {"Seek", "Next"}) => (rret.ok = "false" <=> pos = Len(arr))
Monotone == [][pos' >= pos /\ (pos = Len(arr) => pos' = pos)]_vars
\* Seek skips only samples that are older than t
SeekLands == [][(last'.op = "Seek" /\ rret'.ok = "true") => \A q \in (pos + 1)..(pos' - 1) : arr[q + 1] < last'.t]_vars
=============================================================================

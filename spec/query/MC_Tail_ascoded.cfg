\* the code as written (all switches on): the cursor / life-cycle invariants and Termination / SenderNeverStuck still hold;
\* NoBadFrame, DueDelivered, FutureNotSkipped (both broken by row_err_unnoticed), NoDuplicate, RefusalIsAnError, ClosedEndsHandler do not (add one to see its counterexample)
SPECIFICATION Spec
CONSTANTS
  Lines = {1, 2}
  MaxT = 3
  Dev = {"spin_on_closed", "err_frame", "row_err_unnoticed", "cursor_stuck", "silent_refusal"}
  Mixed = FALSE
  Faults = {"version", "query", "row", "scan"}
  MaxStale = 1
  MaxWire = 2
  ReqKinds = {"ok", "empty", "noparse", "noupgrade"}
INVARIANTS TypeOK OldNeverDelivered OnlyStoredLines ServiceStopsAfterHandler DrainerOnlyAfterHandler
  ClosedOnlyByService RefusedStartsNothing
CHECK_DEADLOCK FALSE

SPECIFICATION Spec
CONSTANTS
  MaxTs = 6
  MaxLen = 4
  SeekMax = 7
  MaxCalls = 4
INVARIANTS TypeOK RefSane
PROPERTIES Monotone SeekLands
CHECK_DEADLOCK FALSE

SPECIFICATION Spec
CONSTANTS
  Shapes <- MShapes
  MaxRows = 2
  FaultRows = {0, 1, 2}
  ExportDrainsOnError = TRUE
PROPERTIES EventuallyAllTerminated Answered
CHECK_DEADLOCK FALSE

------------------------------ MODULE Selector ------------------------------
(* C17, part B: which stored series a set of label matchers selects.                                         *)
(*                                                                                                           *)
(* DEFINITION (Prometheus / Pyroscope matcher semantics, model/labels/matcher.go): a series is a function    *)
(* from label names to values, a label the series does not carry has the value "" ; a matcher (name, op, p)  *)
(* holds iff  = : v = p,  != : v # p,  =~ : v is FULLY matched by the regular expression p (anchored),       *)
(* !~ : it is not.  A series is selected iff every matcher holds.                                            *)
(*                                                                                                           *)
(* MECHANISM (transcription of the label-index query shared by PromQL, LogQL and the profile selector:       *)
(* logql_transpiler_v2/clickhouse_planner/planner_stream_select.go StreamSelectPlanner.Process, reached from *)
(* promql/transpiler/shared.go fingerprintsQuery; prof/transpiler/planner_selector.go for profiles):         *)
(*      SELECT fingerprint FROM <label index: one row (key, val, fingerprint) per label a series CARRIES>    *)
(*      WHERE  <global clauses> AND ( clause_1 OR ... OR clause_n )                                          *)
(*      GROUP BY fingerprint                                                                                 *)
(*      HAVING groupBitOr( bitShiftLeft(toUInt64(clause_1), 0) + ... + bitShiftLeft(toUInt64(clause_n), n-1) ) == 2^n - 1 *)
(*   clause_i = (key == name_i AND valclause_i(val)),  valclause:  = : val == p,  != : val != p,             *)
(*   =~ : match(val, '^(?:p)$') == 1,  !~ : match(val, '^(?:p)$') == 0   (ClickHouse match() SEARCHES a      *)
(*   pattern anywhere in val; the planners wrap the pattern so that it has to cover the whole value).        *)
(*   clause_i is widened to UInt64, so bitShiftLeft(.., i-1) is 0 only for i > BitWidth (= 64).               *)
(*   Profiles: matchers on the pseudo labels (__name__, __period_type__, service_name, ...) are "global":    *)
(*   they compare columns every index row of the series carries (WHERE, no bit); every profile series has at *)
(*   least the service_name index row.                                                                       *)
(*                                                                                                           *)
(* Values are the two strings "x" and "xy" (x is a proper prefix of xy, so anchoring matters) and "" = label *)
(* absent.  Regular expressions are atoms given by the sets of values they match fully.                      *)
EXTENDS Integers, Sequences, FiniteSets, TLC

CONSTANTS KV,           \* label names served by the key/value index
          GL,           \* "global" pseudo label names (profiles); {} for Prometheus
          MaxSeries, MaxMatchers,
          SVals,        \* the values a label of a stored series may have ("" = the series does not carry the label)
          EqPats,       \* values used with = and !=
          RePats,       \* regex atoms used with =~ and !~
          Ops,
          BitWidth,     \* 64
          AllowEmpty,   \* FALSE: at least one matcher (the PromQL parser never produces an empty selector)
          AlwaysRow     \* TRUE: every series has an index row that no key/value matcher refers to (profiles: service_name)

VARIABLES db, ms, ph     \* ph = "db": only the database is chosen; ph = "case": (db, ms) is a case
vars == <<db, ms, ph>>

Vals  == {"x", "xy"}
V0    == Vals \cup {""}
Names == KV \cup GL

Full(p) == CASE p = "x"  -> {"x"}
             [] p = "xy" -> {"xy"}
             [] p = "y"  -> {}
             [] p = ".*" -> V0
             [] p = ".+" -> Vals
             [] p = ""   -> {""}

Series == {s \in [Names -> SVals] : \A g \in GL : s[g] # ""}

RECURSIVE UpTo(_, _)
UpTo(S, k) == IF k = 0 THEN {{}} ELSE LET P == UpTo(S, k - 1) IN P \cup {T \cup {e} : T \in P, e \in S}

Matchers == {[name |-> nm, op |-> o, pat |-> p] : nm \in Names, o \in Ops \cap {"=", "!="}, p \in EqPats}
       \cup {[name |-> nm, op |-> o, pat |-> p] : nm \in Names, o \in Ops \cap {"=~", "!~"}, p \in RePats}
DBs   == UpTo(Series, MaxSeries)
MSets == UpTo(Matchers, MaxMatchers) \ (IF AllowEmpty THEN {} ELSE {{}})

(* ---------------- definition ---------------- *)
Holds(m, s) == LET v == s[m.name] IN
    CASE m.op = "="  -> v = m.pat
      [] m.op = "!=" -> v # m.pat
      [] m.op = "=~" -> v \in Full(m.pat)
      [] m.op = "!~" -> v \notin Full(m.pat)
Selected(d, M) == {s \in d : \A m \in M : Holds(m, s)}

(* ---------------- mechanism ---------------- *)
ValClause(m, v) ==
    CASE m.op = "="  -> v = m.pat
      [] m.op = "!=" -> v # m.pat
      [] m.op = "=~" -> v \in Full(m.pat)          \* match(val, '^(?:p)$') == 1
      [] m.op = "!~" -> v \notin Full(m.pat)       \* match(val, '^(?:p)$') == 0
KVm(M) == {m \in M : m.name \in KV}
GLm(M) == {m \in M : m.name \in GL}
\* one index row per label the series carries (an absent label has no row)
Rows(d) == {[fp |-> s, key |-> k, val |-> s[k]] : s \in d, k \in KV}
IndexRows(d) == {r \in Rows(d) : r.val # ""}
           \cup (IF AlwaysRow THEN {[fp |-> s, key |-> "#", val |-> "#"] : s \in d} ELSE {})
GlobalOK(s, M) == \A m \in GLm(M) : ValClause(m, s[m.name])
Clause(m, r) == r.key = m.name /\ ValClause(m, r.val)
Where(d, M) == {r \in IndexRows(d) : GlobalOK(r.fp, M) /\ (KVm(M) = {} \/ \E m \in KVm(M) : Clause(m, r))}
\* the bits set for fingerprint s (a bit position beyond BitWidth is shifted out of the UInt64)
Mask(W, M, s) == {m \in KVm(M) : Cardinality(KVm(M)) <= BitWidth /\ \E r \in W : r.fp = s /\ Clause(m, r)}
MechSelected(d, M) == LET W == Where(d, M) IN            \* the rows that pass WHERE, then GROUP BY fingerprint / HAVING
                      {s \in d : /\ \E r \in W : r.fp = s
                                 /\ (KVm(M) = {} \/ Mask(W, M, s) = KVm(M))}

(* ---------------- where the two can differ ---------------- *)
\* per (matcher, series) traits of the mechanism that are not in the definition
Traits(d, M) ==
       {"missing|" \o m.op : m \in {m2 \in KVm(M) : \E s \in d : s[m2.name] = "" /\ Holds(m2, s)}}
  \cup (IF Cardinality(KVm(M)) > BitWidth THEN {"bitwidth"} ELSE {})
  \cup (IF ~AlwaysRow /\ KVm(M) = {} /\ \E s \in d : \A k \in KV : s[k] = "" THEN {"norows"} ELSE {})

Init == db \in DBs /\ ms = {} /\ ph = "db"
Pick == ph = "db" /\ ms' \in MSets /\ ph' = "case" /\ UNCHANGED db
Next == Pick
Spec == Init /\ [][Next]_vars
IsCase == ph = "case"

\* THE property: the mechanism selects exactly the series the definition selects
MechEqDef == IsCase => MechSelected(db, ms) = Selected(db, ms)
\* what does hold of the mechanism as written: it is exact whenever no trait applies
MechEqDefOnSafe == (IsCase /\ Traits(db, ms) = {}) => MechEqDef
MechSubset == MechSelected(db, ms) \subseteq db /\ Selected(db, ms) \subseteq db
\* selection is decided per series: the rest of the database does not matter (both sides)
PerSeries == IsCase => \A s \in db : /\ (s \in Selected(db, ms)) = (s \in Selected({s}, ms))
                            /\ (s \in MechSelected(db, ms)) = (s \in MechSelected({s}, ms))
=============================================================================

------------------------------ MODULE MC_Tail ------------------------------
(* Exhaustive model of Tail.tla within small bounds: every interleaving of the handler, its reader and drainer   *)
(* goroutines, the service goroutine, the two tickers, the client and the world (lines stored at any time with   *)
(* any timestamp, one database fault per request).                                                                *)
(*   MC_Tail_spec.cfg     Dev = {}    : all invariants and all liveness properties hold                           *)
(*   MC_Tail_ascoded.cfg  Dev = AllDev: the cursor and life-cycle properties still hold as the code is written;   *)
(*   x01.py cex_* runs    one switch on: the property it is named for IS violated (else the switch is vacuous);  *)
(*                        run on MC_TailSched so that the counterexample carries its schedule                    *)
EXTENDS Tail

CONSTANTS ReqKinds

VOutcomes == {"cached", "ok", "version", "ctx"}
QOutcomes == {"none", "query", "row", "scan", "ctx"}

SVersionAny == \E o \in VOutcomes : SVersion(o)
SQueryAny   == \E o \in QOutcomes : \E P \in SUBSET Rows(now) : SQuery(now, o, P)

Next ==
    \/ \E l \in Lines, t \in 0..(MaxT - 1) : StoreLine(l, t)
    \/ Tick \/ VExpire \/ ClientClose \/ ClientDrop \/ ClientRead
    \/ \E k \in ReqKinds : Request(k, now - 1)
    \/ HCtx \/ HPing \/ HRecv \/ HRecvClosed
    \/ RClose \/ RDrop
    \/ DRecv \/ DEnd
    \/ STick \/ SVersionAny \/ SDone \/ SQueryAny \/ SExit

\* every goroutine keeps running; Go's select chooses at random among the ready cases (strong fairness per case);
\* a second passes again and again; a connected client keeps reading. Nothing is assumed about the world.
Fair ==
    /\ WF_vars(Tick) /\ WF_vars(ClientRead)
    /\ SF_vars(HCtx) /\ SF_vars(HPing) /\ SF_vars(HRecv) /\ SF_vars(HRecvClosed)
    /\ WF_vars(RClose) /\ WF_vars(RDrop)
    /\ SF_vars(DRecv) /\ WF_vars(DEnd)
    /\ WF_vars(STick) /\ WF_vars(SVersionAny) /\ WF_vars(SDone) /\ WF_vars(SQueryAny) /\ WF_vars(SExit)

Spec == Init /\ [][Next]_vars /\ Fair
=============================================================================

\* reference configuration: the design (tools/props/c09.py generates the ones it runs: the design, and each stage in Reuse)
SPECIFICATION Spec
CONSTANTS
  Series = {"A", "B"}
  MaxLen = 5
  Batch = 2
  Flush = 3
  Reuse = {}
  MaxBufs = 24
INVARIANTS TypeOK OwnWrites DeliveredStable ExactlyOnce RereadEqualsReceived
CHECK_DEADLOCK FALSE

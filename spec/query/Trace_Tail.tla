----------------------------- MODULE Trace_Tail -----------------------------
(***************************************************************************)
(* Trace validation: the events recorded from ONE run of the real tail     *)
(* (real reader router behind an httptest.Server, real websocket client,   *)
(* database = chsql behind a lock; harness/cmd/x01) must be a behaviour of *)
(* Tail.tla.  One trace line = one observable step with its arguments      *)
(* bound:                                                                  *)
(*   Start     the request is sent (lo..hi brackets time.Now() - 5 min)    *)
(*   Refused   the request was answered without upgrade (status)           *)
(*   Store     a push was acknowledged: the line is visible to queries     *)
(*   Version   the database answered / failed the dbVersion statement      *)
(*   Query     the database answered the tail statement: bounds taken from *)
(*             the SQL text, rows = what chsql returned, injected fault    *)
(*   Frame     the client read one websocket message (kind, line ids)      *)
(*   ClientClose / ClientDrop / ConnEOF / HandlerDone                      *)
(*   NoEOF     the driver waited for the server to end the connection      *)
(*   Census    goroutines of the request still alive at the deadline       *)
(* Channel operations, ticker firings, the Done check, context             *)
(* cancellation and writes into the connection are silent steps.           *)
(* Timestamps are order-preserving ranks of the concrete nanosecond values *)
(* (t and t+1 ns keep adjacent ranks), so `from = newest + 1` is checked   *)
(* exactly.                                                                *)
(***************************************************************************)
EXTENDS Tail, Json, TLCExt

TraceLog == ndJsonDeserialize("trace.ndjson")

VARIABLES l,          \* index of the next trace line
          seenEmpty,  \* empty messages recorded so far (the recorder stops listing them after three)
          lastDb      \* database clock at the previous Query

tvars == <<vars, l, seenEmpty, lastDb>>

Ev == TraceLog[l]
More == l <= Len(TraceLog)
Is(e) == More /\ Ev.ev = e
Consume == l' = l + 1
SeqSet(s) == {s[i] : i \in 1..Len(s)}
Keep == UNCHANGED <<seenEmpty, lastDb>>
Silent == UNCHANGED <<l, seenEmpty, lastDb>>

TraceInit == Init /\ l = 1 /\ seenEmpty = 0 /\ lastDb = 0

\* several recorded runs in one file: "Reset" starts the next one
TraceReset == Is("Reset") /\ Restart /\ Consume /\ seenEmpty' = 0 /\ lastDb' = 0

TraceStart ==
    /\ Is("Start")
    /\ \E f0 \in Ev.lo..Ev.hi : Request(Ev.req, f0)
    /\ Consume /\ Keep

TraceRefused ==
    /\ Is("Refused")
    /\ client = "refused"
    /\ \/ Ev.code >= 400
       \/ req \in {"empty", "noparse"} /\ "silent_refusal" \in Dev     \* as coded: an empty 200 response
    /\ Consume /\ Keep /\ UNCHANGED vars

TraceStore == Is("Store") /\ StoreLine(Ev.id, Ev.ts) /\ Consume /\ Keep

TraceVersion ==
    /\ Is("Version")
    /\ SVersion(IF Ev.fault = "none" THEN "ok" ELSE "version")
    /\ Consume /\ Keep

TraceQuery ==
    /\ Is("Query")
    /\ spc = "query"
    /\ Ev.from = from                                     \* the cursor the code used = the cursor of the specification
    /\ lastDb <= Ev.to /\ Ev.to <= Ev.dbnow               \* To = time.Now() of this tick
    /\ Len(Ev.ids) = Cardinality(SeqSet(Ev.ids))
    /\ SeqSet(Ev.ids) = Ids(Rows(Ev.to))                  \* the statement selects exactly [from, to) of the visible lines
    /\ LET P == {x \in Rows(Ev.to) : \E i \in 1..Ev.cut : Ev.ids[i] = x.id} IN
         CASE Ev.fault = "none"  -> SQuery(Ev.to, "none", Rows(Ev.to))
           [] Ev.fault = "query" -> SQuery(Ev.to, "query", {})
           [] Ev.fault = "row"   -> SQuery(Ev.to, "row", P)
           [] Ev.fault = "scan"  -> SQuery(Ev.to, "scan", P)
           [] Ev.fault = "ctx"   -> SQuery(Ev.to, "ctx", {})
    /\ lastDb' = Ev.dbnow
    /\ Consume /\ UNCHANGED seenEmpty

TraceFrame ==
    /\ Is("Frame")
    /\ wire # <<>>
    /\ Len(Ev.ids) = Cardinality(SeqSet(Ev.ids))
    /\ Head(wire) = [k |-> Ev.kind, ids |-> SeqSet(Ev.ids)]
    /\ ClientRead
    /\ seenEmpty' = IF Ev.kind = "empty" THEN seenEmpty + 1 ELSE seenEmpty
    /\ Consume /\ UNCHANGED lastDb

\* the recorder lists three empty messages and counts the rest (Flood)
SkipEmpty ==
    /\ seenEmpty >= 3 /\ wire # <<>> /\ Head(wire).k = "empty"
    /\ ClientRead /\ Silent

TraceFlood == Is("Flood") /\ "spin_on_closed" \in Dev /\ Consume /\ Keep /\ UNCHANGED vars

TraceClientClose == Is("ClientClose") /\ ClientClose /\ Consume /\ Keep
TraceClientDrop  == Is("ClientDrop") /\ ClientDrop /\ Consume /\ Keep

TraceConnEOF ==
    /\ Is("ConnEOF")
    /\ client = "dropped" \/ (hpc = "term" /\ wire = <<>>)   \* con.Close() of the returning handler, after everything written
    /\ Consume /\ Keep /\ UNCHANGED vars

TraceHandlerDone == Is("HandlerDone") /\ hpc = "term" /\ Consume /\ Keep /\ UNCHANGED vars

\* the driver gave the server 1.5 s and more to end the connection by itself and it did not
TraceNoEOF ==
    /\ Is("NoEOF")
    /\ hpc = "select" /\ spc # "exit"
    /\ ~cancelled
    /\ ~(chClosed /\ "spin_on_closed" \notin Dev)
    /\ Consume /\ Keep /\ UNCHANGED vars

TraceNote == More /\ Ev.ev \in {"AwaitTimeout"} /\ Consume /\ Keep /\ UNCHANGED vars

\* at the deadline after the client left nothing of the request is alive
TraceCensus ==
    /\ Is("Census")
    /\ Ev.alive = <<>>
    /\ AllDone
    /\ Consume /\ Keep /\ UNCHANGED vars

\* ---- silent steps
NeedVersion == Is("Version") /\ spc = "version"
SilentStep ==
    /\ \/ Tick \/ STick \/ SVersion("cached") \/ SVersion("ctx") \/ SDone \/ SExit
       \/ (NeedVersion /\ VExpire)
       \/ SQuery(now, "ctx", {})
       \/ HCtx \/ HPing \/ HRecv \/ HRecvClosed
       \/ RClose \/ RDrop \/ DRecv \/ DEnd
    /\ Silent

TraceNext ==
    \/ TraceReset \/ TraceStart \/ TraceRefused \/ TraceStore \/ TraceVersion \/ TraceQuery \/ TraceFrame \/ SkipEmpty \/ TraceFlood
    \/ TraceClientClose \/ TraceClientDrop \/ TraceConnEOF \/ TraceHandlerDone \/ TraceNoEOF \/ TraceNote \/ TraceCensus
    \/ SilentStep

TraceSpec == TraceInit /\ [][TraceNext]_tvars

Accept ==
    (l = Len(TraceLog) + 1) => (PrintT("TRACE-ACCEPTED") /\ TLCSet("exit", TRUE))
HW == TLCGetOrDefault(1, 0)
HighWaterPrint ==
    (l > HW) => (PrintT(<<"HW", l>>) /\ TLCSet(1, l))
=============================================================================

----------------------------- MODULE Trace_Tail -----------------------------
(***************************************************************************)
(* Trace validation: the events recorded from runs of the real tail (real  *)
(* reader router behind an httptest.Server, real websocket client,         *)
(* database = chsql behind a lock; harness/cmd/x01) must be behaviours of  *)
(* Tail.tla.  One trace line = one observable step with its arguments      *)
(* bound:                                                                  *)
(*   Reset     a recorded run begins (n: its number; fb, nf: where its     *)
(*             Frame events lie among all Frame events; flood: the         *)
(*             recorder stopped listing messages after the third bad one)  *)
(*   Start     the request is sent (lo..hi brackets time.Now() - 5 min)    *)
(*   Refused   the request was answered without upgrade (status)           *)
(*   Store     a push was acknowledged: the line is visible to queries     *)
(*   Version   the database answered / failed the dbVersion statement      *)
(*   Query     the database answered the tail statement: bounds taken from *)
(*             the SQL text, rows = what chsql returned, injected fault    *)
(*   Frame     the client read one websocket message (kind, line ids)      *)
(*   ClientClose / ClientDrop / ConnEOF / HandlerDone                      *)
(*   NoEOF     the driver waited for the server to end the connection      *)
(*   Census    goroutines of the request still alive at the deadline       *)
(*   End       the run is over: prints <<"SCN", n, used>>                  *)
(* Channel operations, ticker firings, the Done check, context             *)
(* cancellation and writes into the connection are silent steps.  The      *)
(* connection is FIFO and the client reads everything until it leaves, so  *)
(* a silent write is only explored if the wire then still is a prefix of   *)
(* the frames the client is going to read (WireOK).                        *)
(* Timestamps are order-preserving ranks of the concrete nanosecond values *)
(* (t and t+1 ns keep adjacent ranks), so `from = newest + 1` is checked   *)
(* exactly.                                                                *)
(* Run with Dev = AllDev, Mixed = TRUE: every End line lists, for every    *)
(* way the run can be read as a behaviour, the as-coded branches it needs; *)
(* {} among them <=> the run is a behaviour of the specification.          *)
(***************************************************************************)
EXTENDS Tail, Json, TLCExt

TraceLog == ndJsonDeserialize("trace.ndjson")
AllFrames == SelectSeq(TraceLog, LAMBDA e : e.ev = "Frame")

VARIABLES l,          \* index of the next trace line
          nread,      \* Frame events of this run consumed so far
          run,        \* the Reset line of this run (n, fb, nf, flood)
          lastDb      \* database clock at the previous Query

tvars == <<vars, l, nread, run, lastDb>>

Ev == TraceLog[l]
More == l <= Len(TraceLog)
Is(e) == More /\ Ev.ev = e
Consume == l' = l + 1
SeqSet(s) == {s[i] : i \in 1..Len(s)}
Keep == UNCHANGED <<nread, run, lastDb>>
Silent == UNCHANGED <<l, nread, run, lastDb>>

NoRun == [n |-> 0, fb |-> 0, nf |-> 0, flood |-> FALSE]
TraceInit == Init /\ l = 1 /\ nread = 0 /\ run = NoRun /\ lastDb = 0

SameFrame(f, e) == f = [k |-> e.kind, ids |-> SeqSet(e.ids)]
\* everything in the wire is what the client reads next
WireOK(w, nr, cl) ==
    \/ cl = "dropped"
    \/ \A i \in 1..Len(w) :
          IF nr + i <= run.nf THEN SameFrame(w[i], AllFrames[run.fb + nr + i]) ELSE run.flood

TraceReset ==
    /\ Is("Reset") /\ Restart /\ Consume
    /\ nread' = 0 /\ lastDb' = 0 /\ run' = [n |-> Ev.n, fb |-> Ev.fb, nf |-> Ev.nf, flood |-> Ev.flood]

TraceStart ==
    /\ Is("Start")
    /\ \E f0 \in Ev.lo..Ev.hi : Request(Ev.req, f0)
    /\ Consume /\ Keep

TraceRefused ==
    /\ Is("Refused")
    /\ client = "refused"
    /\ (Ev.code >= 400) = (status >= 400)
    /\ Consume /\ Keep /\ UNCHANGED vars

TraceStore == Is("Store") /\ StoreLine(Ev.id, Ev.ts) /\ Consume /\ Keep

TraceVersion ==
    /\ Is("Version")
    /\ SVersion(IF Ev.fault = "none" THEN "ok" ELSE "version")
    /\ Consume /\ Keep

TraceQuery ==
    /\ Is("Query")
    /\ spc = "query"
    /\ Ev.from = from                                     \* the cursor the code used = the cursor of the specification
    /\ lastDb <= Ev.to /\ Ev.to <= Ev.dbnow               \* To = time.Now() of this tick
    /\ Len(Ev.ids) = Cardinality(SeqSet(Ev.ids))
    /\ SeqSet(Ev.ids) = Ids(Rows(Ev.to))                  \* the statement selects exactly [from, to) of the visible lines
    /\ LET P == {x \in Rows(Ev.to) : \E i \in 1..Ev.cut : Ev.ids[i] = x.id} IN
         CASE Ev.fault = "none"  -> SQuery(Ev.to, "none", Rows(Ev.to))
           [] Ev.fault = "query" -> SQuery(Ev.to, "query", {})
           [] Ev.fault = "row"   -> SQuery(Ev.to, "row", P)
           [] Ev.fault = "scan"  -> SQuery(Ev.to, "scan", P)
           [] Ev.fault = "ctx"   -> SQuery(Ev.to, "ctx", {})
    /\ lastDb' = Ev.dbnow
    /\ Consume /\ UNCHANGED <<nread, run>>

TraceFrame ==
    /\ Is("Frame")
    /\ wire # <<>>
    /\ Len(Ev.ids) = Cardinality(SeqSet(Ev.ids))
    /\ SameFrame(Head(wire), Ev)
    /\ ClientRead
    /\ nread' = nread + 1
    /\ Consume /\ UNCHANGED <<run, lastDb>>

\* the recorder lists the messages up to the third bad one and counts the rest (Flood)
SkipRead ==
    /\ run.flood /\ nread >= run.nf /\ wire # <<>>
    /\ ClientRead /\ Silent

TraceFlood == Is("Flood") /\ nread >= run.nf /\ Consume /\ Keep /\ UNCHANGED vars

TraceClientClose == Is("ClientClose") /\ ClientClose /\ Consume /\ Keep
TraceClientDrop  == Is("ClientDrop") /\ ClientDrop /\ Consume /\ Keep

TraceConnEOF ==
    /\ Is("ConnEOF")
    /\ client = "dropped" \/ (hpc = "term" /\ wire = <<>>)   \* con.Close() of the returning handler, after everything written
    /\ Consume /\ Keep /\ UNCHANGED vars

TraceHandlerDone == Is("HandlerDone") /\ hpc = "term" /\ Consume /\ Keep /\ UNCHANGED vars

\* the driver gave the server 1.5 s to end the connection by itself and it neither did nor sent garbage
TraceNoEOF ==
    /\ Is("NoEOF")
    /\ hpc = "select" /\ spc # "exit" /\ ~cancelled /\ ~chClosed
    /\ Consume /\ Keep /\ UNCHANGED vars

TraceNote == More /\ Ev.ev \in {"AwaitTimeout"} /\ Consume /\ Keep /\ UNCHANGED vars

\* at the deadline after the client left nothing of the request is alive
TraceCensus ==
    /\ Is("Census")
    /\ Ev.alive = <<>>
    /\ AllDone
    /\ Consume /\ Keep /\ UNCHANGED vars

TraceEnd ==
    /\ Is("End")
    /\ PrintT(<<"SCN", run.n, used>>)
    /\ Consume /\ Keep /\ UNCHANGED vars

\* ---- silent steps
\* a second passes (the clock itself is not tracked here: To comes from the Query events)
TickFlags ==
    /\ (spc \notin {"none", "term"} /\ ~svcTick) \/ (hpc = "select" /\ ~pingTick)
    /\ svcTick' = (spc \notin {"none", "term"})
    /\ pingTick' = (hpc = "select")
    /\ UNCHANGED <<now, store, req, status, client, hpc, rpc, dpc, spc, from, buf, chClosed, wdone, cancelled,
                   vcached, wire, stale, fault, sent, cls, delivered, flags, late, used>>

NeedVersion == Is("Version") /\ spc = "version"
SilentStep ==
    /\ run.n # 0
    /\ \/ TickFlags
       \/ STick \/ SVersion("cached") \/ SVersion("ctx") \/ SDone \/ SExit
       \/ (NeedVersion /\ VExpire)
       \/ SQuery(now, "ctx", {})
       \/ HCtx
       \/ (HPing \/ HRecv \/ HRecvClosed) /\ WireOK(wire', nread, client)
       \/ RClose \/ RDrop \/ DRecv \/ DEnd
    /\ Silent

TraceNext ==
    \/ TraceReset \/ TraceStart \/ TraceRefused \/ TraceStore \/ TraceVersion \/ TraceQuery \/ TraceFrame \/ SkipRead \/ TraceFlood
    \/ TraceClientClose \/ TraceClientDrop \/ TraceConnEOF \/ TraceHandlerDone \/ TraceNoEOF \/ TraceNote \/ TraceCensus
    \/ TraceEnd \/ SilentStep

TraceSpec == TraceInit /\ [][TraceNext]_tvars

\* used with vlib-style early exit (not in explanation mode, where the whole space is explored)
Accept ==
    (l = Len(TraceLog) + 1) => (PrintT("TRACE-ACCEPTED") /\ TLCSet("exit", TRUE))
HW == TLCGetOrDefault(1, 0)
HighWaterPrint ==
    (l > HW) => (PrintT(<<"HW", l>>) /\ TLCSet(1, l))
=============================================================================

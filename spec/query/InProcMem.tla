------------------------------ MODULE InProcMem ------------------------------
(***************************************************************************************************************)
(* Property C09, the memory under the messages of the in-process chain.                                       *)
(*                                                                                                             *)
(* InProc.tla treats a channel message as a value.  In the Go code a message is a slice []LogEntry: a window  *)
(* (array, length) over an array that the sending stage allocated and may still reach through its own         *)
(* variables after `c <- msg` has returned.  Every buffering stage of the chain is of one of three kinds:      *)
(*   batching   ClickhouseGetterPlanner.Scan: fills an array of Batch entries, sends it when full and at the  *)
(*              end, then goes on with `entries = make([]LogEntry, 100)` (planner_clickhouse_getter.go:72-75)  *)
(*   selecting  line/label filter, unwrap, comparison, line_format, zero eater: appends the entries it keeps  *)
(*              to its own slice, sends that slice after every message, then goes on with nil / a fresh one    *)
(*              (planner_label_filter.go:31-35, planner_line_format.go:75-79, ..)                               *)
(*   holding    ResponseOptimizerPlanner: appends every entry to the slice of its series, ACROSS messages;    *)
(*              when it holds Flush entries, and at the end, sends every slice, then goes on with a fresh map  *)
(*              (planner_fingerprint_optimizer.go:20-27); the aggregators hold until the end                    *)
(* (drop / by-without / parsers write into the message they received and pass the same slice on: they own it   *)
(* between receive and send, which is the same rule seen from the receiver.)                                   *)
(*                                                                                                             *)
(* The rule that makes the value view of InProc.tla sound is OWNERSHIP: sending a message hands its array to   *)
(* the receiver; a stage writes only into arrays it owns.  This module is the state machine of one chain       *)
(*     getter -> selecting stage -> holding stage -> consumer                                                  *)
(* over unbuffered channels (send and receive are one step), with Go's append (in place while the capacity     *)
(* lasts, else a new array of twice the size), every interleaving of the three stage goroutines, every script  *)
(* of at most MaxLen rows over Series.  Reuse is the set of stages that, after a send, keep the array and      *)
(* truncate (`s = s[:0]`, `i = 0`) instead of starting a fresh one; the design - and the code as built - is    *)
(* Reuse = {}.                                                                                                  *)
(*   OwnWrites        no stage ever writes into an array it does not own                    (white box)         *)
(*   DeliveredStable  a message the consumer has received still reads as it read on receipt (black box: what    *)
(*                    harness/cmd/c09 observes - it keeps every received slice and reads all of them again      *)
(*                    after the chain has finished)                                                             *)
(*   ExactlyOnce      at the end the consumer has every row once, the rows of a series in order                 *)
(* TLC: all three hold for Reuse = {}; each single stage in Reuse breaks OwnWrites; the holding stage in Reuse *)
(* breaks DeliveredStable - with a script longer than Flush whose series goes on after the flush, and not      *)
(* otherwise (MC_InProcMem: Witness) -, which is the class of upstream scripts tools/props/c09.py replays at   *)
(* the grain as built.                                                                                          *)
(***************************************************************************************************************)
EXTENDS Integers, Sequences, FiniteSets, TLC

CONSTANTS Series,     \* series ids
          MaxLen,     \* rows of the longest script
          Batch,      \* rows per getter message            (as built: 100)
          Flush,      \* held entries that trigger a flush  (as built: 3000)
          Reuse,      \* subset of {"get", "sel", "opt"}
          MaxBufs     \* arrays available (an allocation beyond is a modelling error)

VARIABLES script,     \* the rows: script[i] = series of row i; row ids are 1..Len(script)
          mem,        \* [heap: array -> cells, cap, owner, nbuf, foreign]
          g,          \* getter:  [sl, pos, done]
          s,          \* selecting stage: [in, i, out, done]   in = the message being read (b = -1: waiting to receive)
          o,          \* holding stage:   [in, i, held, size, done]
          got         \* consumer: sequence of [b, n, snap]
vars == <<script, mem, g, s, o, got>>

Nil     == [b |-> 0, n |-> 0]          \* the nil slice
Waiting == [b |-> -1, n |-> 0]         \* no message in hand: blocked in receive

Scripts == UNION {[1..k -> Series] : k \in 0..MaxLen}

(*--------------------------------------------- memory ---------------------------------------------------------*)
Alloc(H, c, who) ==      \* make([]LogEntry, c): result [H, b]
    LET nb == H.nbuf + 1 IN
    [b |-> nb,
     H |-> [H EXCEPT !.heap[nb] = [i \in 1..c |-> 0], !.cap[nb] = c, !.owner[nb] = who, !.nbuf = nb]]

Write(H, b, i, x, who) == [H EXCEPT !.heap[b][i] = x, !.foreign = @ \/ H.owner[b] # who]

App(H, sl, x, who) ==    \* append(sl, x): result [H, sl]
    IF sl.b > 0 /\ sl.n < H.cap[sl.b]
    THEN [sl |-> [b |-> sl.b, n |-> sl.n + 1], H |-> Write(H, sl.b, sl.n + 1, x, who)]
    ELSE LET a  == Alloc(H, IF sl.n = 0 THEN 1 ELSE 2 * sl.n, who)
             cp == [a.H EXCEPT !.heap[a.b] = [i \in 1..a.H.cap[a.b] |-> IF i <= sl.n THEN H.heap[sl.b][i] ELSE IF i = sl.n + 1 THEN x ELSE 0]]
         IN  [sl |-> [b |-> a.b, n |-> sl.n + 1], H |-> cp]

Give(H, sl, to) == IF sl.b > 0 THEN [H EXCEPT !.owner[sl.b] = to] ELSE H      \* `c <- sl`
Read(H, sl) == [i \in 1..sl.n |-> H.heap[sl.b][i]]

After(sl, who) == IF who \in Reuse /\ sl.b > 0 THEN [b |-> sl.b, n |-> 0] ELSE Nil   \* `sl = sl[:0]` instead of `sl = nil`

(*---------------------------------------------- the chain ----------------------------------------------------*)
Init ==
    /\ script \in Scripts
    /\ LET H0 == [heap |-> [b \in 1..MaxBufs |-> <<>>], cap |-> [b \in 1..MaxBufs |-> 0], owner |-> [b \in 1..MaxBufs |-> "none"],
                  nbuf |-> 0, foreign |-> FALSE]
           a  == Alloc(H0, Batch, "get")
       IN  /\ mem = a.H
           /\ g = [sl |-> [b |-> a.b, n |-> 0], pos |-> 0, done |-> FALSE]
    /\ s = [in |-> Waiting, i |-> 0, out |-> Nil, done |-> FALSE]
    /\ o = [in |-> Waiting, i |-> 0, held |-> [x \in Series |-> Nil], size |-> 0, done |-> FALSE]
    /\ got = <<>>

(* getter: rows.Scan(&entries[i]...) ; i++ *)
GetRow ==
    /\ ~g.done /\ g.pos < Len(script) /\ g.sl.n < Batch
    /\ mem' = Write(mem, g.sl.b, g.sl.n + 1, g.pos + 1, "get")
    /\ g' = [g EXCEPT !.sl.n = @ + 1, !.pos = @ + 1]
    /\ UNCHANGED <<script, s, o, got>>

(* getter: `res <- entries` when the batch is full, `res <- entries[:i+1]` and close at the end *)
GetSend ==
    /\ ~g.done /\ s.in = Waiting
    /\ g.sl.n = Batch \/ g.pos = Len(script)
    /\ LET last == g.sl.n < Batch
           H1   == Give(mem, g.sl, "sel")
       IN  /\ s' = [s EXCEPT !.in = g.sl, !.i = 0]
           /\ IF last THEN mem' = H1 /\ g' = [g EXCEPT !.done = TRUE]
              ELSE IF "get" \in Reuse THEN mem' = H1 /\ g' = [g EXCEPT !.sl.n = 0]
              ELSE LET a == Alloc(H1, Batch, "get") IN mem' = a.H /\ g' = [g EXCEPT !.sl = [b |-> a.b, n |-> 0]]
    /\ UNCHANGED <<script, o, got>>

(* selecting stage, OnEntry: `_entries = append(_entries, *entry)` *)
SelStep ==
    /\ s.in # Waiting /\ s.i < s.in.n
    /\ LET x == mem.heap[s.in.b][s.i + 1]
           r == App(mem, s.out, x, "sel")
       IN  mem' = r.H /\ s' = [s EXCEPT !.out = r.sl, !.i = @ + 1]
    /\ UNCHANGED <<script, g, o, got>>

(* selecting stage, OnAfterEntriesSlice: `c <- _entries; _entries = nil` *)
SelSend ==
    /\ s.in # Waiting /\ s.i = s.in.n /\ o.in = Waiting /\ ~o.done
    /\ mem' = Give(mem, s.out, "opt")
    /\ o' = [o EXCEPT !.in = s.out, !.i = 0]
    /\ s' = [s EXCEPT !.in = Waiting, !.i = 0, !.out = After(s.out, "sel")]
    /\ UNCHANGED <<script, g, got>>

SelClose ==
    /\ g.done /\ s.in = Waiting /\ ~s.done
    /\ s' = [s EXCEPT !.done = TRUE]
    /\ UNCHANGED <<script, mem, g, o, got>>

(* holding stage, OnEntry: `fpMap[fp] = append(fpMap[fp], *entry); size++` *)
OptStep ==
    /\ o.in # Waiting /\ o.i < o.in.n
    /\ LET x  == mem.heap[o.in.b][o.i + 1]
           sr == IF x \in DOMAIN script THEN script[x] ELSE CHOOSE y \in Series : TRUE      \* (a torn read: any series)
           r  == App(mem, o.held[sr], x, "opt")
       IN  mem' = r.H /\ o' = [o EXCEPT !.held[sr] = r.sl, !.size = @ + 1, !.i = @ + 1]
    /\ UNCHANGED <<script, g, s, got>>

(* `for _, ents := range fpMap { c <- ents }`: every slice of the map goes to the consumer, who notes what it reads *)
RECURSIVE SendAll(_, _, _)
SendAll(H, held, left) ==       \* result [H, got]: the consumer's notes in some map order
    IF left = {} THEN [H |-> H, got |-> <<>>]
    ELSE LET x == CHOOSE y \in left : TRUE
             r == SendAll(H, held, left \ {x})
         IN  IF held[x] = Nil THEN r        \* no entry of the map
             ELSE [H |-> Give(r.H, held[x], "cons"),
                   got |-> <<[b |-> held[x].b, n |-> held[x].n, snap |-> Read(H, held[x])]>> \o r.got]

(* holding stage, OnAfterEntriesSlice: flush when size >= Flush, then `fpMap = make(map..); size = 0` *)
OptAfter ==
    /\ o.in # Waiting /\ o.i = o.in.n
    /\ IF o.size < Flush THEN mem' = mem /\ got' = got /\ o' = [o EXCEPT !.in = Waiting, !.i = 0]
       ELSE LET r == SendAll(mem, o.held, Series) IN
            /\ mem' = r.H /\ got' = got \o r.got
            /\ o' = [o EXCEPT !.in = Waiting, !.i = 0, !.size = 0, !.held = [x \in Series |-> After(o.held[x], "opt")]]
    /\ UNCHANGED <<script, g, s>>

(* holding stage, OnAfterEntries *)
OptEnd ==
    /\ s.done /\ o.in = Waiting /\ ~o.done
    /\ IF o.size = 0 THEN mem' = mem /\ got' = got
       ELSE LET r == SendAll(mem, o.held, Series) IN mem' = r.H /\ got' = got \o r.got
    /\ o' = [o EXCEPT !.done = TRUE]
    /\ UNCHANGED <<script, g, s>>

Next == GetRow \/ GetSend \/ SelStep \/ SelSend \/ SelClose \/ OptStep \/ OptAfter \/ OptEnd
Spec == Init /\ [][Next]_vars

(*--------------------------------------------- properties -----------------------------------------------------*)
TypeOK == mem.nbuf < MaxBufs

OwnWrites == ~mem.foreign

DeliveredStable == \A k \in DOMAIN got : Read(mem, got[k]) = got[k].snap

RECURSIVE Flat(_)
Flat(ms) == IF ms = <<>> THEN <<>> ELSE Head(ms).snap \o Flat(Tail(ms))

ExactlyOnce ==
    o.done => LET all == Flat(got) IN
              /\ Len(all) = Len(script)
              /\ \A x \in DOMAIN script : \E k \in DOMAIN all : all[k] = x
              /\ \A k, l \in DOMAIN all : (k < l /\ all[k] \in DOMAIN script /\ all[l] \in DOMAIN script /\ script[all[k]] = script[all[l]]) => all[k] < all[l]

(* what the consumer of harness/cmd/c09 compares at the end: all it holds, read again *)
RereadEqualsReceived == o.done => [k \in DOMAIN got |-> Read(mem, got[k])] = [k \in DOMAIN got |-> got[k].snap]

(* WITNESS CLASS.  With the holding stage in Reuse, a delivered message changes only on scripts that are longer  *)
(* than Flush and have a series with rows on both sides of a flush: scripts outside this class cannot show the   *)
(* defect, whatever the interleaving (checked with Reuse = {"opt"}).                                             *)
FlushPoint == Batch * ((Flush + Batch - 1) \div Batch)      \* the first flush comes after the message that brings size to Flush
Crosses == \E i, j \in DOMAIN script : \E k \in 1..MaxLen : i <= k * FlushPoint /\ k * FlushPoint < j /\ script[i] = script[j]
Witness == ~DeliveredStable => Crosses
=============================================================================

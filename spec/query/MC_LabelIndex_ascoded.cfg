\* the same configuration with the claim "the mechanism AS CODED equals the definition": TLC must refute it
\* (a counterexample per quirk class shows where the code departs); used by hand, not by x06.py
SPECIFICATION Spec
CONSTANTS
  Names <- MCNames
  LSPool <- MCLS4
  Limit = 10000
  ColonVals = {}
  CtrlVals = {}
  MaxSeries = 2
  TypePool = {0, 1, 2}
  DayPool = {1, 2, 3}
  FlipOn = TRUE
  Plan = "W"
  ExportMod = 0
  ExportSeed = 0
  Repaired = {"post_form", "dup_keyorder", "bare_colon", "goquote"}
INVARIANTS CodedEqDef
CHECK_DEADLOCK FALSE

------------------------------ MODULE MC_TraceQL ------------------------------
(***************************************************************************)
(* Bounded enumeration of (query, database) cases for TraceQLSem.          *)
(* The case space is cut into layers, each exhaustive in the dimension it  *)
(* is about:                                                               *)
(*   term   every operator x constant x kind of stored value (one span)    *)
(*   bool   every tree shape x every assignment of (repeated) terms        *)
(*   agg    every aggregate function x comparison x constant               *)
(*   chain  two and three selectors combined with && / ||                  *)
(*   win    window edges, date bound, limit and order; {} ; tags/values    *)
(*   portion  the evaluator: complexity answers around the thresholds, 1..3 *)
(*          portions, every split of 2-3 traces over the portions, limits  *)
(*          that are / are not reached by a portion, spans before the      *)
(*          window and on both sides of a moved window start, both         *)
(*          sub-second phases of the stored timestamps (2+ portions)       *)
(*   rand   cases listed in RandCases (seeded sample of the FULL bounds:   *)
(*          3 traces x 3 spans x 2 attributes, whole grammar, 0..3         *)
(*          portions with a random split, random phase)                    *)
(* Every PortEvery-th case (by hash) of the other layers is ALSO executed  *)
(* in 2 or 3 portions (split derived from the hash): every term, tree      *)
(* shape, aggregate and chain goes through the re-processed plan.  Every   *)
(* case of the other layers has a sub-second phase derived from the hash:  *)
(* every planner sees timestamps on and off the whole second.              *)
(* State graph: root -> one state per query ("part") -> one state per      *)
(* (query, database) case.  (The intermediate level only exists to let     *)
(* TLC's workers generate and check the cases in parallel.)                *)
(* TLC checks CheckCase on every case and prints the selected ones as      *)
(* JSON lines for the Go driver (binding).                                 *)
(***************************************************************************)
EXTENDS TraceQLSem, Json

CONSTANTS Layers,        \* set of layer names to enumerate
          Thorough,      \* BOOLEAN: larger bounds
          Mods,          \* record layer -> sampling modulus for the export (1 = every case)
          Seed,          \* sample selector
          RandCases,     \* set of [q, db] records (generated, see tools/props/c11.py)
          CodeFlags,     \* deviation rules the planner is believed to have (subset of AllFlags)
          PortEvery      \* 0 = never; n = every n-th case of term/bool/agg/chain/win runs in portions

ASSUME CodeFlags \subseteq AllFlags

VARIABLE cs

StrOps == {"=", "!=", "=~", "!~"}
CmpOps == {"=", "!=", ">", ">=", "<", "<="}

StrT(key, op, c, pfx) == [k |-> "str", key |-> key, op |-> op, cs |-> c, cn |-> 0, pfx |-> pfx]
NumT(key, op, c, pfx) == [k |-> "num", key |-> key, op |-> op, cs |-> "", cn |-> c, pfx |-> pfx]
DurT(op, c) == [k |-> "dur", key |-> "-", op |-> op, cs |-> "", cn |-> c, pfx |-> ""]
NameT(op, c) == [k |-> "str", key |-> "name", op |-> op, cs |-> c, cn |-> 0, pfx |-> ""]
Fill == DurT("=", 0)
NoAgg == [fn |-> "none", attr |-> "-", op |-> "=", c |-> 0]
CountGt1 == [fn |-> "count", attr |-> "-", op |-> ">", c |-> 1]

PfxOf(op) == CASE op \in {"=", ">", "!~"} -> "." [] op \in {"!=", ">=", "=~"} -> "span." [] OTHER -> "resource."

Sel(sh, t1, t2, t3, t4, agg) == [sh |-> sh, t |-> <<t1, t2, t3, t4>>, agg |-> agg]
Sel1(t, agg) == Sel("s1", t, Fill, Fill, Fill, agg)
Query(kind, sels, ops, from, to, limit, vkey) ==
  [kind |-> kind, sels |-> sels, ops |-> ops, from |-> from, to |-> to, limit |-> limit, vkey |-> vkey]
Search1(sel, from, to, limit) == Query("search", <<sel>>, <<>>, from, to, limit, "-")

\* short constructors used by the generated RandCases
RT(k, key, op, c, n, pfx) == [k |-> k, key |-> key, op |-> op, cs |-> c, cn |-> n, pfx |-> pfx]
RA(fn, attr, op, c) == [fn |-> fn, attr |-> attr, op |-> op, c |-> c]
RSel(sh, t, agg) == [sh |-> sh, t |-> t, agg |-> agg]
RC(q, db) == [q |-> q, db |-> db, cx |-> 0, part |-> [ti \in DOMAIN db |-> 0], ph |-> 0]
RCP(q, db, cx, part, ph) == [q |-> q, db |-> db, cx |-> cx, part |-> part, ph |-> ph]

Span(a, b, nm, dur, ts) == [a |-> a, b |-> b, nm |-> nm, dur |-> dur, ts |-> ts]
At(s, ts) == [s EXCEPT !.ts = ts]

\* ---- hash of a case (only used to pick the exported sample deterministically)
AtomCode(v) == CASE v = "n1" -> 1 [] v = "n3" -> 2 [] v = "sx" -> 3 [] v = "sy" -> 4 [] v = "none" -> 5
                 [] v = "p" -> 6 [] v = "q" -> 7 [] v = "zz" -> 8 [] v = "xy" -> 9 [] v = "pq" -> 10
                 [] v = "a" -> 11 [] v = "b" -> 12 [] v = "name" -> 13 [] v = "dur" -> 14 [] OTHER -> 0
OpCode(op) == CASE op = "=" -> 1 [] op = "!=" -> 2 [] op = ">" -> 3 [] op = ">=" -> 4 [] op = "<" -> 5
                [] op = "<=" -> 6 [] op = "=~" -> 7 [] op = "!~" -> 8 [] op = "&&" -> 9 [] op = "||" -> 10 [] OTHER -> 0
ShapeCode(sh) == CASE sh = "empty" -> 1 [] sh = "s1" -> 2 [] sh = "p1" -> 3 [] sh = "and2" -> 4 [] sh = "or2" -> 5
                   [] sh = "pand2" -> 6 [] sh = "and3" -> 7 [] sh = "or3" -> 8 [] sh = "ao" -> 9 [] sh = "oa" -> 10
                   [] sh = "pao" -> 11 [] sh = "apo" -> 12 [] sh = "poa" -> 13 [] sh = "opa" -> 14 [] sh = "papa" -> 15
                   [] sh = "popo" -> 16 [] sh = "nest" -> 17 [] sh = "nest2" -> 18 [] sh = "flat4" -> 19 [] OTHER -> 20
FnCode(f) == CASE f = "none" -> 0 [] f = "count" -> 1 [] f = "avg" -> 2 [] f = "min" -> 3 [] f = "max" -> 4 [] OTHER -> 5
TermCode(t) == AtomCode(t.cs) + 11 * t.cn + 59 * OpCode(t.op) + 7 * AtomCode(t.key) + (IF t.k = "num" THEN 3 ELSE 0)
SelCode(s) == 131 * ShapeCode(s.sh) + 2 * TermCode(s.t[1]) + 3 * TermCode(s.t[2]) + 5 * TermCode(s.t[3]) + 7 * TermCode(s.t[4])
              + 311 * FnCode(s.agg.fn) + 17 * AtomCode(s.agg.attr) + 29 * OpCode(s.agg.op) + 13 * s.agg.c
SpanCode(s) == AtomCode(s.a) + 6 * AtomCode(s.b) + 37 * AtomCode(s.nm) + 5 * s.dur + 3 * s.ts
RECURSIVE SeqSum(_, _, _)
SeqSum(f, i, n) == IF i > n THEN 0 ELSE f[i] + SeqSum(f, i + 1, n)
DbCode(db) == SeqSum([ti \in DOMAIN db |-> (97 * ti) * SeqSum([si \in DOMAIN db[ti] |-> (si + 1) * SpanCode(db[ti][si])], 1, Len(db[ti]))], 1, Len(db))
QCode(q) == SeqSum([i \in DOMAIN q.sels |-> (i + 1) * SelCode(q.sels[i])], 1, Len(q.sels))
            + SeqSum([i \in DOMAIN q.ops |-> (i + 2) * OpCode(q.ops[i])], 1, Len(q.ops))
            + q.from + 3 * q.to + 7 * q.limit + (IF q.kind = "search" THEN 0 ELSE 1)

\* =========================================================================
\* layer term: every term of the grammar against every kind of stored value
TermU ==
  {StrT("a", op, c, PfxOf(op)) : op \in StrOps, c \in {"n1", "n3", "sx", "sy", "zz", "xy"}}
  \cup {NumT("a", op, c, PfxOf(op)) : op \in CmpOps, c \in 0..4}
  \cup {DurT(op, c) : op \in CmpOps, c \in 0..4}
  \cup {NameT(op, c) : op \in StrOps, c \in {"p", "q", "zz", "pq"}}
TermQ == {Search1(Sel1(t, NoAgg), 0, 3, 5) : t \in TermU}
TermDB == {<< <<Span(a, "none", nm, dur, 1)>> >> : a \in {"n1", "n3", "sx", "sy", "none"}, nm \in {"p", "q"}, dur \in {1, 3}}

\* =========================================================================
\* layer bool: tree shapes x terms (with repetition); the bit set is per span
Shapes1 == {"s1", "p1"}
Shapes2 == {"and2", "or2", "pand2"}
Shapes3 == {"and3", "or3", "ao", "oa", "pao", "apo", "poa", "opa"}
Shapes4 == {"papa", "popo", "nest", "nest2", "flat4", "flat4b"}
TB == {StrT("a", "=", "sx", "."), StrT("a", "!=", "sx", "span."), NumT("b", ">", 2, "resource."), DurT(">", 2)}
      \cup (IF Thorough THEN {NameT("=", "p")} ELSE {})
TB4 == IF Thorough THEN TB ELSE {StrT("a", "=", "sx", "."), NumT("b", ">", 2, "resource."), DurT(">", 2)}
BoolSpans == {Span(a, b, nm, dur, 1) : a \in {"sx", "sy", "none"}, b \in {"n1", "n3", "none"},
                                       nm \in (IF Thorough THEN {"p", "q"} ELSE {"p"}), dur \in {1, 3}}
BoolSels ==
  {Sel(sh, t1, Fill, Fill, Fill, NoAgg) : sh \in Shapes1, t1 \in TB}
  \cup {Sel(sh, t1, t2, Fill, Fill, NoAgg) : sh \in Shapes2, t1 \in TB, t2 \in TB}
  \cup {Sel(sh, t1, t2, t3, Fill, NoAgg) : sh \in Shapes3, t1 \in TB, t2 \in TB, t3 \in TB}
  \cup {Sel(sh, t1, t2, t3, t4, NoAgg) : sh \in Shapes4, t1 \in TB4, t2 \in TB4, t3 \in TB4, t4 \in TB4}
BoolQ == {Search1(sel, 0, 3, 5) : sel \in BoolSels}
BoolDB(q) == {<< <<s>> >> : s \in BoolSpans}
             \cup (IF q.sels[1].sh \in {"and2", "or2"} \/ (Thorough /\ q.sels[1].sh \in {"ao", "apo"})
                   THEN {<< <<pp[1], At(pp[2], 2)>> >> : pp \in {x \in BoolSpans \X BoolSpans : Thorough \/ SpanCode(x[2]) >= SpanCode(x[1])}}
                   ELSE {})

\* =========================================================================
\* layer agg: aggregate filters over the matched spans of a trace
AggTerms == {StrT("a", "=", "sx", "."), DurT(">", 2)} \cup (IF Thorough THEN {StrT("a", "=~", "xy", "span.")} ELSE {})
Aggs == {[fn |-> "count", attr |-> "-", op |-> op, c |-> c] : op \in CmpOps, c \in 1..3}
        \cup {[fn |-> fn, attr |-> at, op |-> op, c |-> c] :
                fn \in {"avg", "min", "max"}, at \in {"dur", "b"}, op \in CmpOps, c \in {1, 2, 3}}
        \cup {[fn |-> "sum", attr |-> at, op |-> op, c |-> c] : at \in {"dur", "b"}, op \in CmpOps, c \in {2, 3, 4}}
AggQ == {Search1(Sel1(t, g), 0, 3, 5) : t \in AggTerms, g \in Aggs}
\* only the dimensions the query looks at vary (quick); everything varies (thorough)
AggSpansOf(q) ==
  LET sel == q.sels[1]
      useA == sel.t[1].k = "str"
      useD == sel.t[1].k = "dur" \/ sel.agg.attr = "dur"
      useB == sel.agg.attr = "b"
  IN {Span(a, b, "p", dur, 1) :
        a \in (IF Thorough THEN {"sx", "sy", "none"} ELSE IF useA THEN {"sx", "none"} ELSE {"sx"}),
        b \in (IF Thorough \/ useB THEN {"n1", "n3", "sx", "none"} ELSE {"n1"}),
        dur \in (IF Thorough \/ useD THEN {1, 3} ELSE {3})}
AggDB(q) ==
  LET S == AggSpansOf(q)
  IN {<< <<pp[1], At(pp[2], 2)>> >> : pp \in {x \in S \X S : Thorough \/ SpanCode(x[2]) >= SpanCode(x[1])}}
     \cup (IF q.sels[1].agg.fn \in {"count", "avg", "sum"} /\ q.sels[1].t[1].k = "str"
           THEN {<< <<s1, At(s2, 2), At(s3, 2)>> >> : s1 \in {s \in S : s.a = "sx" /\ s.b # "none"},
                       s2 \in {s \in S : s.b \in {"n1", "n3"}}, s3 \in {s \in S : s.a = "sx" /\ s.b \in {"n3", "sx"}}}
           ELSE {})

\* =========================================================================
\* layer chain: selectors combined with && / ||
ChainTerms == {StrT("a", "=", "sx", "."), StrT("a", "=", "sy", "span."), NumT("b", ">", 2, ".")}
ChainSels == {Sel1(t, g) : t \in ChainTerms, g \in {NoAgg, CountGt1}}
ChainQ2 == {Query("search", <<s1, s2>>, <<op>>, 0, 3, lim, "-") : s1 \in ChainSels, s2 \in ChainSels, op \in {"&&", "||"}, lim \in {1, 5}}
ChainQ3 == {Query("search", <<Sel1(t1, NoAgg), Sel1(t2, NoAgg), Sel1(t3, NoAgg)>>, <<o1, o2>>, 0, 3, 5, "-") :
              t1 \in ChainTerms, t2 \in ChainTerms, t3 \in ChainTerms \cup {DurT(">", 2)}, o1 \in {"&&", "||"}, o2 \in {"&&", "||"}}
ChainQ == ChainQ2 \cup ChainQ3
ChainSpans == {Span(a, b, "p", 3, ts) : a \in {"sx", "sy", "none"}, b \in {"n1", "n3"}, ts \in {1, 2}}
ChainTraces == {<<s1>> : s1 \in ChainSpans} \cup {<<s1, s2>> : s1 \in ChainSpans, s2 \in ChainSpans}
ChainSpansB == {s \in ChainSpans : s.b = "n3"}
ChainTracesSmall == {<<s1>> : s1 \in ChainSpansB} \cup {<<s1, s2>> : s1 \in ChainSpansB, s2 \in ChainSpansB}
UsesB(q) == \E i \in DOMAIN q.sels : q.sels[i].t[1].key = "b"
HasAgg(q) == \E i \in DOMAIN q.sels : q.sels[i].agg.fn # "none"
ChainDB(q) ==
  IF Len(q.sels) = 3 THEN {<<tr>> : tr \in {<<s1>> : s1 \in ChainSpans}}
  ELSE IF q.limit = 5 THEN {<<tr>> : tr \in (IF Thorough THEN ChainTraces
                                               ELSE {<<s1>> : s1 \in ChainSpans} \cup {<<s1, s2>> : s1 \in ChainSpans, s2 \in ChainSpansB})}
  ELSE \* limit 1: two traces, which one is the most recent
       IF (UsesB(q) \/ HasAgg(q)) /\ ~Thorough THEN {}
       ELSE {<<tr1, tr2>> : tr1 \in ChainTracesSmall, tr2 \in (IF Thorough THEN ChainTracesSmall ELSE {<<s1>> : s1 \in ChainSpansB} \cup {<<Span("sx", "n3", "p", 3, 1), Span("sy", "n3", "p", 3, 2)>>, <<Span("sy", "n3", "p", 3, 1), Span("sx", "n3", "p", 3, 2)>>})}

\* =========================================================================
\* layer win: window [1, 4) of ticks 0..4, limit, order, {} and tags / values
WinSpans == {Span(a, "none", "p", 1, ts) : a \in {"sx", "none"}, ts \in 0..4}
WinTraces == {<<s1>> : s1 \in WinSpans} \cup {<<s1, s2>> : s1 \in WinSpans, s2 \in {s \in WinSpans : s.ts >= 2}}
WinTraces1 == {<<s1>> : s1 \in WinSpans}
WinTracesSmall == WinTraces1 \cup {<<s1, s2>> : s1 \in {s \in WinSpans : s.a = "sx"}, s2 \in {s \in WinSpans : s.a = "none" /\ s.ts \in {0, 3}}}
WinSels == {Sel1(StrT("a", "=", "sx", "."), NoAgg), Sel1(StrT("a", "=", "sx", "."), CountGt1),
            Sel("empty", Fill, Fill, Fill, Fill, NoAgg)}
TagSels == {Sel1(StrT("a", "=", "sx", "."), NoAgg), Sel1(NumT("b", ">", 2, "."), NoAgg)}
WinQ == {Search1(sel, 1, 4, lim) : sel \in WinSels, lim \in {1, 2, 3}}
        \cup {Query(kind, <<sel>>, <<>>, 1, 4, 100, "b") : kind \in {"tags", "values"}, sel \in TagSels}
WinDB(q) ==
  IF q.kind # "search"
  THEN {<< <<s1>>, <<s2>> >> : s1 \in {Span(a, b, "p", 1, ts) : a \in {"sx", "sy"}, b \in {"n3", "none"}, ts \in {0, 2}},
                                s2 \in {Span("sx", "n1", "q", 1, 2), Span("none", "n3", "q", 1, 3)}}
  ELSE IF q.limit < 3 THEN {<<tr1, tr2>> : tr1 \in WinTraces, tr2 \in (IF Thorough THEN WinTraces ELSE WinTracesSmall)}
  ELSE {<<tr1, tr2, tr3>> : tr1 \in (IF Thorough THEN WinTracesSmall ELSE WinTraces1),
                            tr2 \in (IF Thorough THEN WinTracesSmall ELSE WinTraces1), tr3 \in WinTraces1}

\* =========================================================================
\* layer portion: the evaluator.  Window [1, 4) of ticks 0..3; a span is a function of (a, ts):
\* b is numeric 3 at odd ticks and 1 at even ticks, dur is 3 from tick 2 on, so that cutting
\* spans off a trace changes aggregates and duration terms as well.
PS(a, ts) == Span(a, IF ts % 2 = 1 THEN "n3" ELSE "n1", "p", IF ts >= 2 THEN 3 ELSE 1, ts)
PortSingles == {<<PS("sx", ts)>> : ts \in 0..3} \cup {<<PS("none", 2)>>}
PortPairs == {<<PS("sx", 1), PS("sx", 3)>>, <<PS("sx", 0), PS("sx", 2)>>, <<PS("none", 1), PS("sx", 3)>>,
              <<PS("sx", 1), PS("none", 3)>>, <<PS("none", 0), PS("sx", 2)>>, <<PS("sx", 2), PS("sx", 3)>>}
PortTraces == PortSingles \cup PortPairs
ASx == StrT("a", "=", "sx", ".")
PortSels == {Sel1(ASx, NoAgg), Sel1(ASx, CountGt1),
             Sel("or2", ASx, DurT(">", 2), Fill, Fill, NoAgg),
             Sel("and2", StrT("a", "=~", "xy", "span."), NumT("b", ">", 2, "resource."), Fill, Fill, NoAgg),
             Sel1(StrT("a", "!=", "sy", "."), [fn |-> "max", attr |-> "b", op |-> ">", c |-> 2])}
PortQ1(lim) == {Search1(sel, 1, 4, lim) : sel \in PortSels}
PortQ2(lim) == {Query("search", <<Sel1(ASx, NoAgg), Sel1(NumT("b", ">", 2, "."), NoAgg)>>, <<op>>, 1, 4, lim, "-") : op \in {"&&", "||"}}
\* complexity answers: below / at the threshold, around two and three times the threshold
PortCx == {Threshold, Threshold + 1, 2 * Threshold - 1, 2 * Threshold, 2 * Threshold + 1, 3 * Threshold}
PortParts ==
  {[layer |-> "portion", q |-> q, i |-> 0, cx |-> cx] : q \in PortQ1(1) \cup PortQ1(2) \cup PortQ2(1) \cup PortQ2(2), cx \in {Threshold, 2 * Threshold, 3 * Threshold}}
  \cup {[layer |-> "portion", q |-> q, i |-> 1, cx |-> cx] : q \in {Search1(Sel1(ASx, NoAgg), 1, 4, 2)}, cx \in {0, Threshold - 1} \cup PortCx \cup {3 * Threshold + 1}}
Splits(db, n) == IF n = 0 THEN {[ti \in DOMAIN db |-> 0]} ELSE [DOMAIN db -> 0..(n - 1)]
TrCode(tr) == SeqSum([si \in DOMAIN tr |-> (si + 1) * SpanCode(tr[si])], 1, Len(tr))
\* two traces: every split enumerates both roles, so unordered pairs are enough (quick)
PortDB2 == {<<pp[1], pp[2]>> : pp \in {x \in PortTraces \X PortTraces : Thorough \/ TrCode(x[2]) >= TrCode(x[1])}}
PortDB3 == {<<tr1, tr2, tr3>> : tr1 \in PortTraces, tr2 \in PortSingles,
                                tr3 \in (IF Thorough THEN PortSingles ELSE {<<PS("sx", 1)>>, <<PS("sx", 3)>>, <<PS("none", 2)>>})}
\* three portions: every trace in its own portion (both directions), two traces sharing the first /
\* the last portion, a portion without a trace of its own
PortSplits3 == {<<0, 1, 2>>, <<2, 1, 0>>, <<1, 0, 0>>, <<0, 2, 2>>} \cup (IF Thorough THEN {<<1, 1, 2>>, <<2, 0, 1>>} ELSE {})
PortCases(p) ==
  LET n == Portions(p.cx)
  IN IF p.i = 1   \* the decision: how many executions
     THEN {[db |-> db, cx |-> p.cx, part |-> [ti \in DOMAIN db |-> IF n = 0 THEN 0 ELSE (ti - 1) % n], ph |-> DbCode(db) % 2] :
             db \in {<<tr1, tr2, <<PS("sx", 1)>> >> : tr1 \in PortSingles, tr2 \in PortPairs}}
     ELSE IF n = 1
     THEN {[db |-> db, cx |-> p.cx, part |-> <<0, 0>>, ph |-> DbCode(db) % 2] :
             db \in {x \in PortDB2 : Thorough \/ Len(x[1]) = 1}}
     ELSE IF n = 2
     THEN {[db |-> db, cx |-> p.cx, part |-> part, ph |-> ph] : db \in PortDB2, part \in Splits(<<1, 2>>, n), ph \in Phases}
     ELSE LET sel == p.q.sels[1]
              three == Len(p.q.sels) = 1 /\ sel.sh \in {"s1", "or2"} /\ (Thorough \/ sel.agg.fn \in {"none", "count"})
          IN IF ~three THEN {}
             ELSE {[db |-> db, cx |-> p.cx, part |-> part, ph |-> ph] : db \in PortDB3, part \in PortSplits3, ph \in Phases}

\* the other layers: every PortEvery-th case in 2 or 3 portions, the split derived from the hash
AutoCx(h, q) == IF PortEvery > 0 /\ Splittable(q) /\ h % PortEvery = 0 THEN Threshold * (2 + ((h \div PortEvery) % 2)) ELSE 0
AutoPart(h, db, cx) == LET n == Portions(cx)
                       IN [ti \in DOMAIN db |-> IF n = 0 THEN 0 ELSE ((h \div 5) + ti * (1 + ((h \div 11) % 2))) % n]
AutoPh(h) == (h \div 7) % 2

\* =========================================================================
Parts ==
  (IF "term" \in Layers THEN {[layer |-> "term", q |-> q, i |-> 0, cx |-> 0] : q \in TermQ} ELSE {})
  \cup (IF "bool" \in Layers THEN {[layer |-> "bool", q |-> q, i |-> 0, cx |-> 0] : q \in BoolQ} ELSE {})
  \cup (IF "agg" \in Layers THEN {[layer |-> "agg", q |-> q, i |-> 0, cx |-> 0] : q \in AggQ} ELSE {})
  \cup (IF "chain" \in Layers THEN {[layer |-> "chain", q |-> q, i |-> 0, cx |-> 0] : q \in ChainQ} ELSE {})
  \cup (IF "win" \in Layers THEN {[layer |-> "win", q |-> q, i |-> 0, cx |-> 0] : q \in WinQ} ELSE {})
  \cup (IF "portion" \in Layers THEN PortParts ELSE {})

DBsOf(p) ==
  CASE p.layer = "term" -> TermDB
    [] p.layer = "bool" -> BoolDB(p.q)
    [] p.layer = "agg" -> AggDB(p.q)
    [] p.layer = "chain" -> ChainDB(p.q)
    [] p.layer = "win" -> WinDB(p.q)

\* the cases of a part: database, complexity answer, hash class of every trace
CasesOf(p) ==
  IF p.layer = "portion" THEN PortCases(p)
  ELSE {(LET h == QCode(p.q) + DbCode(db)
             cx == AutoCx(h, p.q)
         IN [db |-> db, cx |-> cx, part |-> AutoPart(h, db, cx), ph |-> AutoPh(h)]) : db \in DBsOf(p)}
PartCode(part) == SeqSum([ti \in DOMAIN part |-> (ti + 2) * part[ti]], 1, Len(part))

Init == cs = [st |-> "root"]
Next ==
  \/ /\ cs.st = "root"
     /\ \/ \E p \in Parts : cs' = [st |-> "part", layer |-> p.layer, q |-> p.q, i |-> p.i, cx |-> p.cx]
        \/ /\ "rand" \in Layers
           /\ \E c \in RandCases : cs' = [st |-> "case", layer |-> "rand", q |-> c.q, db |-> c.db, h |-> QCode(c.q) + DbCode(c.db), i |-> 0,
                                           cx |-> c.cx, part |-> c.part, ph |-> c.ph]
  \/ /\ cs.st = "part"
     /\ \E c \in CasesOf(cs) :
          cs' = [st |-> "case", layer |-> cs.layer, q |-> cs.q, db |-> c.db,
                 h |-> QCode(cs.q) + DbCode(c.db) + (IF cs.layer = "portion" THEN PartCode(c.part) + (c.cx \div 999983) + 1013 * c.ph ELSE 0),
                 i |-> cs.i, cx |-> c.cx, part |-> c.part, ph |-> c.ph]
Spec == Init /\ [][Next]_cs

\* =========================================================================
\* invariants (evaluated on the case states)
IsCase == cs.st = "case"
Def == Eval(cs.q, cs.db)
Mech == RunEval(cs.q, cs.db, cs.cx, cs.part, cs.ph, CodeFlags)
Ideal == RunEval(cs.q, cs.db, cs.cx, cs.part, cs.ph, {})

\* the design of the plan (bit per term, groupBitOr, HAVING tree, INTERSECT / UNION ALL, limits) is right
IdealConforms == IsCase => ConformsAll(Ideal, Def, cs.q, cs.db)

\* sanity of the definition itself
DefSaneOf(d) == /\ d.M \subseteq Traces(cs.db)
                /\ \A ti \in d.M : d.ms[ti] # {}
                /\ \A p \in d.seqs : Len(p) <= cs.q.limit
                /\ (cs.q.kind = "search" => d.seqs # {})
                /\ DOMAIN cs.part = DOMAIN cs.db
                /\ \A ti \in DOMAIN cs.part : cs.part[ti] \in 0..(IF Portions(cs.cx) = 0 THEN 0 ELSE Portions(cs.cx) - 1)
                /\ cs.ph \in Phases
DefSane == IsCase => DefSaneOf(Def)

\* the date bound of init.go is implied by the timestamp bound
DateBoundImplied == IsCase => \A ti \in Traces(cs.db) : \A si \in Spans(cs.db, ti) :
                                 InWindow(cs.db[ti][si], cs.q) => InitRow(cs.db[ti][si], cs.q)

Selected == LET m == Mods[cs.layer] IN ((((cs.h + Seed) % 9973) * 7919) % 9973) % m = 0

\* the query without the unused term slots
TrimQ(q) == [q EXCEPT !.sels = [i \in DOMAIN q.sels |-> [q.sels[i] EXCEPT !.t = SubSeq(q.sels[i].t, 1, Arity(q.sels[i].sh))]]]

\* the three invariants above evaluated with the definition computed once, plus the export of
\* the selected cases (binding input).  TLC re-evaluates state-level definitions at every use.
CheckCase ==
  IsCase =>
  LET d == Def
      ideal == Ideal
  IN /\ ConformsAll(ideal, d, cs.q, cs.db)
     /\ DefSaneOf(d)
     /\ DateBoundImplied
     /\ IF Selected
        THEN LET m == Mech
                 cand == ~ConformsAll(m, d, cs.q, cs.db)
             IN PrintT(<<"C11CASE", ToJson([layer |-> cs.layer, h |-> cs.h, i |-> cs.i, q |-> TrimQ(cs.q), db |-> cs.db,
                                             cx |-> cs.cx, np |-> IF Splittable(cs.q) THEN Portions(cs.cx) ELSE 0, part |-> cs.part, ph |-> cs.ph,
                                             def |-> d, mech |-> m, cand |-> cand,
                                             explain |-> IF cand THEN ExplainRun(cs.q, cs.db, cs.cx, cs.part, cs.ph, d, CodeFlags) ELSE {}])>>)
        ELSE TRUE
=============================================================================

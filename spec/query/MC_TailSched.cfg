\* schedule generation: tlc -simulate file=beh/b,num=N -depth 80 -config MC_TailSched.cfg MC_TailSched.tla
SPECIFICATION SSpec
CONSTANTS
  Lines = {1, 2, 3, 4}
  MaxT = 6
  Dev = {"spin_on_closed", "err_frame", "row_err_unnoticed", "cursor_stuck", "silent_refusal"}
  Mixed = FALSE
  Faults = {"version", "query", "row", "scan"}
  MaxStale = 1
  MaxWire = 2
  ReqKinds = {"ok"}
  MaxTicks = 4
  LeaveAfter = 2
  MinTs = 0
  NoFuture = FALSE
  StoresPerTick = 1
CHECK_DEADLOCK FALSE

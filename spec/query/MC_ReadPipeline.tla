---- MODULE MC_ReadPipeline ----
EXTENDS ReadPipeline
MShapes == { <<>>, <<"map">>, <<"fix">>, <<"limit">>, <<"map", "fix">>, <<"limit", "map">>, <<"map", "limit">>, <<"fix", "map">>, <<"map", "map", "fix">>,
             <<"hold">>, <<"map", "hold">>, <<"hold", "map">>, <<"limit", "hold">>, <<"map", "hold", "fix">> }
====

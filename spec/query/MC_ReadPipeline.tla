---- MODULE MC_ReadPipeline ----
EXTENDS ReadPipeline
MShapes == { <<>>, <<"map">>, <<"fix">>, <<"limit">>, <<"map", "fix">>, <<"limit", "map">>, <<"map", "limit">>, <<"fix", "map">>, <<"map", "map", "fix">> }
====

--------------------------- MODULE MC_LabelIndex ---------------------------
(* Case enumeration + export for X06.  A state is a database (a sequence of stored series, built one series at a  *)
(* time in increasing code order, no two with the same label set AND type) and, in the leaves, one request of the  *)
(* configuration's plan.  In every leaf TLC checks: the mechanism with every quirk repaired equals the definition, *)
(* every difference between the mechanism as coded (and the mechanism with every quirk) and the definition is      *)
(* accounted for by a quirk, and the laws that tie the definitions together.  For the databases selected by        *)
(* ExportMod / ExportSeed the case is printed as JSON for harness/cmd/x06.                                         *)
EXTENDS LabelIndex, Json, SequencesExt

CONSTANTS
    MaxSeries,
    TypePool,    \* the signal types a stored series may have
    DayPool,     \* the day codes (1 = {1}, 2 = {2}, 3 = {1,2})
    FlipOn,      \* TRUE: series on both days with >= 2 labels may have the second document in another key order
    Plan,        \* "W" (windows / signals / documents, few selectors) | "M" (matchers, the whole window)
    ExportMod, ExportSeed,
    Repaired     \* the quirks of AllQuirks the code no longer has (x06.py: REPAIRED)

VARIABLES db, req
vars == <<db, req>>

(******************************* the pools *********************************)
MCNames == {"a", "b", "n"}
L(a, b, n) == [k \in MCNames |-> CASE k = "a" -> a [] k = "b" -> b [] OTHER -> n]
\* {a:x}  {a:x,b:x}  {a:x,b:""}  {a:x,n:x}
MCLS4 == <<L("x", "#", "#"), L("x", "x", "#"), L("x", "", "#"), L("x", "#", "x")>>
\* + {b:x}: a label present on some series only, without the others
MCLS5 == MCLS4 \o <<L("#", "x", "#")>>
\* {a:x} {a:xy} {a:x,b:x} {a:x,b:""} {n:x,a:x} {n:xy,a:x} {n:x} {b:x} {n:x,a:xy,b:x}
MCLS9 == <<L("x", "#", "#"), L("xy", "#", "#"), L("x", "x", "#"), L("x", "", "#"), L("x", "#", "x"), L("x", "#", "xy"),
           L("#", "#", "x"), L("#", "x", "#"), L("xy", "x", "x")>>
\* every label set over the three names
MCLSAll == SetToSeq({f \in [MCNames -> {"#", "", "x", "xy"}] : \E k \in MCNames : f[k] # "#"})
\* metric series for the syntax configurations: {n:x,a:x} {n:xy,a:x} {a:xy} {n:xy,a:xy,b:x}
MCLSS == <<L("x", "#", "x"), L("x", "#", "xy"), L("xy", "#", "#"), L("xy", "x", "xy")>>
\* every label set over a and n (b absent), and "" only on a
MCLS2N == <<L("#", "#", "x"), L("#", "#", "xy"), L("", "#", "#"), L("", "#", "x"), L("", "#", "xy"), L("x", "#", "#"), L("x", "#", "x"),
            L("x", "#", "xy"), L("xy", "#", "#"), L("xy", "#", "x"), L("xy", "#", "xy")>>

M(n, o, p) == [name |-> n, op |-> o, pat |-> p]
S1(m)      == [bare |-> "", ms |-> {m}]
S2(m1, m2) == [bare |-> "", ms |-> {m1, m2}]
SB(v, X)   == [bare |-> v, ms |-> X]
AllM(names) == {M(n, o, p) : n \in names, o \in {"=", "!="}, p \in {"x", "xy", ""}}
          \cup {M(n, o, p) : n \in names, o \in {"=~", "!~"}, p \in {"x", ".*", ".+"}}
PA == {M("a", "=", "x"), M("a", "!=", "x"), M("a", "=~", ".+"), M("a", "!~", ".*")}
PB == {M("b", "=", "x"), M("b", "!=", "x"), M("b", "=", ""), M("b", "=~", ".*"), M("n", "=", "x"), M("n", "!=", "xy")}
PC == {M("a", "=", "x"), M("a", "!=", "x"), M("b", "=", ""), M("b", "=~", ".+")}

\* plan W: few selectors
W1 == {S1(M("a", "=", "x")), S1(M("b", "!=", "x")), SB("x", {})}
W2 == {<<S1(M("a", "=", "x")), S1(M("b", "=", "x"))>>, <<S1(M("n", "=", "x")), S2(M("a", "=~", ".+"), M("b", "=", ""))>>}
\* plan M: every single matcher, pairs of matchers, bare metric names with and without a matcher; pairs of selectors
M1 == {S1(m) : m \in AllM(MCNames)} \cup {S2(m1, m2) : m1 \in PA, m2 \in PB}
      \cup {SB(v, {}) : v \in {"x", "xy"}} \cup {SB(v, {m}) : v \in {"x", "xy"}, m \in PC}
P6 == <<S1(M("a", "=", "x")), S1(M("a", "=~", ".+")), S1(M("b", "!=", "x")), S1(M("n", "=", "x")), S1(M("b", "=", "")), SB("xy", {})>>
M2 == {<<P6[p[1]], P6[p[2]]>> : p \in {q \in (1..6) \X (1..6) : q[1] < q[2]}}

Sel1Pool == IF Plan = "W" THEN W1 ELSE M1
Sel2Pool == IF Plan = "W" THEN W2 ELSE M2
SelLists == {<<s>> : s \in Sel1Pool} \cup Sel2Pool
Wins     == IF Plan = "W" THEN {<<1, 1>>, <<2, 2>>, <<1, 2>>} ELSE {<<1, 2>>}
ValNames == IF Plan = "W" THEN {"a", "b"} ELSE {"a", "b", "n", "z"}
Posts(w) == IF Plan = "W" /\ w = <<1, 2>> THEN {FALSE, TRUE} ELSE {FALSE}
LokiOK(q) == \A sel \in Items(q) : sel.bare = ""
\* the PromQL parser (label values go through it) wants a matcher in every selector that the empty string does not satisfy,
\* as Prometheus does; such selectors are not sent to the Prometheus API
Empty == [k \in MCNames |-> ""]
PromOK(q) == \A sel \in Items(q) : sel.bare # "" \/ \E m \in sel.ms : ~Sel!Holds(m, Empty)

(****************************** the requests *******************************)
Rq(api, ep, w, name, q, p) == [api |-> api, ep |-> ep, from |-> w[1], to |-> w[2], name |-> name, sels |-> q, post |-> p]
None == Rq("none", "none", <<0, 0>>, "", <<>>, FALSE)
Apis == {"loki", "prom"}
Requests ==
         {Rq(api, "labels", w, "", <<>>, FALSE) : api \in Apis, w \in Wins \cup {<<3, 3>>}}
    \cup {Rq(api, "labels", <<1, 2>>, "", <<>>, TRUE) : api \in (IF Plan = "W" THEN Apis ELSE {})}
    \cup UNION {{Rq("prom", "labels", w, "", q, p) : p \in Posts(w)} : w \in Wins, q \in {x \in SelLists : PromOK(x)}}
    \cup UNION {{Rq("loki", "values", w, n, q, p) : p \in Posts(w)} : w \in Wins, n \in ValNames, q \in {x \in SelLists \cup {<<>>} : LokiOK(x)}}
    \cup {Rq("prom", "values", w, n, q, FALSE) : w \in Wins, n \in ValNames, q \in {x \in SelLists \cup {<<>>} : PromOK(x)}}
    \cup UNION {{Rq("loki", "series", w, "", q, p) : p \in Posts(w)} : w \in Wins, q \in {x \in SelLists : LokiOK(x)}}
    \cup UNION {{Rq("prom", "series", w, "", q, p) : p \in Posts(w)} : w \in Wins, q \in {x \in SelLists : PromOK(x)}}

(******************************* the series ********************************)
Code(s) == ((s.l * 3 + s.tp) * 4 + s.d) * 2 + s.f
SeriesPool == {s \in [l : DOMAIN LSPool, tp : TypePool, d : DayPool, f : {0, 1}] :
                  s.f = 1 => (FlipOn /\ s.d = 3 /\ Cardinality(CarriedL(s.l)) >= 2)}

(******************************* behaviour *********************************)
Init == db = <<>> /\ req = None
AddSeries(s) ==
    /\ req = None
    /\ Len(db) < MaxSeries
    /\ IF db = <<>> THEN TRUE ELSE Code(s) > Code(db[Len(db)])
    /\ \A i \in DOMAIN db : ~(db[i].l = s.l /\ db[i].tp = s.tp)
    /\ db' = Append(db, s)
    /\ UNCHANGED req
Ask(r) ==
    /\ req = None
    /\ db # <<>>
    /\ req' = r
    /\ UNCHANGED db
Next == (\E s \in SeriesPool : AddSeries(s)) \/ (\E r \in Requests : Ask(r))
Spec == Init /\ [][Next]_vars

(******************************* invariants ********************************)
AsCoded == AllQuirks \ Repaired
IsCase  == req.ep # "none"
MechEqDef     == IsCase => Mech(db, req, {}) = Def(db, req)
QuirksExplain == IsCase =>
                 /\ LET ma == Mech(db, req, AllQuirks) IN ma # Def(db, req) => FiredOf(db, req, ma, AllQuirks) # {}
                 /\ LET ma == Mech(db, req, AsCoded)   IN ma # Def(db, req) => FiredOf(db, req, ma, AsCoded) # {}
\* NOT an invariant (MC_LabelIndex_ascoded.cfg): TLC refutes it with the smallest database / request on which the code departs
CodedEqDef    == IsCase => Mech(db, req, AsCoded) = Def(db, req)
Laws == IsCase => /\ LawUnion(db, req) /\ LawDays(db, req) /\ LawTies(db, req) /\ LawSignal(db, req)
\* label_absent can only fire where a matcher holds on a label that a series in scope does not carry
AbsentLocal == IsCase => LET ma == Mech(db, req, AsCoded) IN
                         ("label_absent" \in FiredOf(db, req, ma, AsCoded)) => AbsentOps(db, req) # {}

(********************************* export **********************************)
Prime(i) == CASE i = 1 -> 17 [] i = 2 -> 19 [] OTHER -> 23
RECURSIVE SumTo(_, _)
SumTo(f, n) == IF n = 0 THEN 0 ELSE f[n] + SumTo(f, n - 1)
DbHash == SumTo([i \in DOMAIN db |-> Prime(i) * Code(db[i])], Len(db)) + Len(db)
Selected == IsCase /\ ExportMod # 0 /\ (DbHash + ExportSeed) % ExportMod = 0
\* when the predicted answer is an error, the case also carries the prediction without the error quirks (a code base in
\* which an error quirk has been repaired is still recognised)
Second(ma, Q, d) == IF ma.err THEN LET m2 == Mech(db, req, Q \ ErrQuirks)
                                   IN  [ans |-> <<m2>>, fired |-> IF m2 = d THEN {} ELSE FiredOf(db, req, m2, Q \ ErrQuirks)]
                    ELSE [ans |-> <<>>, fired |-> {}]
CaseRec(d, ma, fired, mm, mfired) ==
    LET s2 == Second(ma, AsCoded, d)
        t2 == Second(mm, AllQuirks, d)
    IN
    [db    |-> [i \in DOMAIN db |-> [l |-> db[i].l, ls |-> LS(db[i]), tp |-> db[i].tp, days |-> DaysOf(db[i]), flip |-> db[i].f]],
     req   |-> req,
     colon |-> ColonVals, ctrl |-> CtrlVals,
     def   |-> d,
     coded |-> ma, fired |-> fired,
     coded2 |-> s2.ans, fired2 |-> s2.fired,
     \* the mechanism with EVERY quirk, the repaired ones included (<<>>: the same as coded)
     mut   |-> IF mm = ma THEN <<>> ELSE <<mm>>, mutfired |-> mfired,
     mut2  |-> t2.ans, mutfired2 |-> t2.fired,
     absent_ops |-> AbsentOps(db, req)]

\* all invariants and the export in ONE evaluation of the definition and of the mechanisms per state (x06.py checks this
\* one; when it fails the run is repeated with the named invariants to say which)
AllChecks ==
    IsCase =>
    LET d      == Def(db, req)
        ma     == Mech(db, req, AsCoded)
        fired  == IF ma = d THEN {} ELSE FiredOf(db, req, ma, AsCoded)
        mm     == IF Repaired = {} THEN ma ELSE Mech(db, req, AllQuirks)
        mfired == IF Repaired = {} THEN fired ELSE IF mm = d THEN {} ELSE FiredOf(db, req, mm, AllQuirks)
    IN  /\ Mech(db, req, {}) = d
        /\ ma # d => fired # {}
        /\ mm # d => mfired # {}
        /\ ("label_absent" \in fired) => AbsentOps(db, req) # {}
        /\ LawUnion(db, req) /\ LawDays(db, req) /\ LawTies(db, req) /\ LawSignal(db, req)
        /\ Selected => PrintT(<<"X06CASE", ToJson(CaseRec(d, ma, fired, mm, mfired))>>)
=============================================================================

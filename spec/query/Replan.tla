------------------------------- MODULE Replan -------------------------------
(* C14: query translation is deterministic and a prepared plan can be re-executed.                          *)
(*                                                                                                           *)
(* A plan is a chain of planner OBJECTS with mutable fields; Process(ctx) reads and writes fields.  This     *)
(* module transcribes the planners of /repo/reader that keep state, one operator per planner, over small     *)
(* abstract data:                                                                                            *)
(*   LineFilterPlanner.Process        (planner_line_filter.go)   field Val        -> ProcLF                  *)
(*   WithConnectorPlanner.Process     (planner_with_connector.go) field *WithCache -> UseCache               *)
(*     (FingerprintFilterPlanner.FingerprintSelectWithCache = planner.fpCache, built with the FIRST ctx)     *)
(*   MainFinalizerPlanner.Process     (planner_main_finalizer.go) field Alias      -> set once, idempotent   *)
(*   ByWithoutPlanner.Process/processTSTable (planner_by_without.go) field *LabelsCache, cleared on entry     *)
(*   LineFormatPlanner.ProcessTpl     (planner_line_format.go)   fields formatStr, args -> ProcLFmt          *)
(*     (not reachable from logql_transpiler_v2.Plan: a line_format always moves to the in-process stages)    *)
(*   AttrConditionPlanner.Process     (traceql attr_condition.go) fields sqlConds, where, AggregatedAttr     *)
(*     -> ProcAC; ComplexRequestProcessor calls it once per portion on the same objects                      *)
(*   sqlMatch.patternObj, AggregatorPlanner.fCmpVal, internal_planner fields: recomputed from immutable      *)
(*     inputs on every call (idempotent) - not state.  sql.Select.String() does not write.                   *)
(* The constant Mutates is GENERATED from the code: the set of these fields that the real Process calls were *)
(* observed to write (field probe of the driver).  A rule writes its field back only if the field is in      *)
(* Mutates, otherwise it computes locally - so the specification follows the code when a write is removed.   *)
(*                                                                                                           *)
(* State: the live plan objects (query class, fields, number of executions) and the last call.  Actions:     *)
(* New(p, q), Proc(p) for two (or three) plans interleaved in one process; there is no package level state   *)
(* in the planners (the only globals are the immutable template function map and the plugin registry).       *)
(* Meaning is defined on small abstract databases; Diverges(q, k) - execution k of one plan object means     *)
(* something else than a fresh plan executed with ctx_k - is exported per query class as the EXPECTED result *)
(* and confirmed or refuted on the real code by the driver.                                                  *)
EXTENDS Integers, Sequences, FiniteSets, TLC

CONSTANTS Mutates,     \* subset of Fields, generated from the code
          PlanIds,     \* e.g. {1, 2}
          MaxExec,     \* executions per plan object
          CrossDay     \* TRUE: ctx_3 lies on the next day (FormatFromDate changes)

Fields == {"LineFilterPlanner.Val", "FingerprintFilterPlanner.FingerprintSelectWithCache", "MainFinalizerPlanner.Alias",
           "ByWithoutPlanner.LabelsCache", "LineFormatPlanner.formatStr",
           "AttrConditionPlanner.sqlConds", "AttrConditionPlanner.where", "AttrConditionPlanner.AggregatedAttr"}
\* written by the first execution only, and every later execution finds what it would have computed itself
SetOnce == {"FingerprintFilterPlanner.FingerprintSelectWithCache", "MainFinalizerPlanner.Alias", "AttrConditionPlanner.sqlConds",
            "ByWithoutPlanner.LabelsCache"}

Writes(f) == f \in Mutates

-----------------------------------------------------------------------------
(* Contexts: ctx_k = execution k.  From and To advance (Tail: From = newest line + 1 ns, To = now).          *)
Slots == 1..5
From(k) == CASE k = 1 -> 1 [] k = 2 -> 2 [] OTHER -> 3
To(k)   == CASE k = 1 -> 4 [] k = 2 -> 5 [] OTHER -> 6
DayOf(t) == IF CrossDay /\ t >= 3 THEN 2 ELSE 1
Day(k) == DayOf(From(k))          \* the date bound rendered from ctx.From

-----------------------------------------------------------------------------
(* Line filter values (texts) and lines, abstract.  Parse = regexp/syntax.Parse + the test of re2Like: is the *)
(* expression one literal (flags PerlX|FoldCase only), which runes, case folding.                            *)
Texts == {"lit", "esc", "esc1", "escl", "escl1", "lit4", "escfix", "lit2", "fold", "lit3", "foldesc", "esc1f", "rx"}
InitTexts == {"lit", "esc", "escl", "escfix", "fold", "foldesc", "rx"}     \* what a query can be written with
NoLit == [lit |-> FALSE, runes |-> "", fold |-> FALSE]
Parse(t) == CASE t = "lit"     -> [lit |-> TRUE, runes |-> "lit",   fold |-> FALSE]
              [] t = "esc"     -> [lit |-> TRUE, runes |-> "esc1",  fold |-> FALSE]   \* a\.b  -> a.b
              [] t = "esc1"    -> NoLit                                              \* a.b is not a literal
              [] t = "escl"    -> [lit |-> TRUE, runes |-> "escl1", fold |-> FALSE]   \* \[x\] -> [x]
              [] t = "escl1"   -> [lit |-> TRUE, runes |-> "lit4",  fold |-> FALSE]   \* [x]   -> x   (a one-character class IS a literal)
              [] t = "lit4"    -> [lit |-> TRUE, runes |-> "lit4",  fold |-> FALSE]
              [] t = "escfix"  -> [lit |-> TRUE, runes |-> "lit2",  fold |-> FALSE]   \* a\-b  -> a-b
              [] t = "lit2"    -> [lit |-> TRUE, runes |-> "lit2",  fold |-> FALSE]
              [] t = "fold"    -> [lit |-> TRUE, runes |-> "lit3",  fold |-> TRUE]    \* (?i)ab -> AB, fold
              [] t = "lit3"    -> [lit |-> TRUE, runes |-> "lit3",  fold |-> FALSE]
              [] t = "foldesc" -> [lit |-> TRUE, runes |-> "esc1f", fold |-> TRUE]    \* (?i)a\.b
              [] t = "esc1f"   -> NoLit
              [] OTHER         -> NoLit                                              \* rx
Lines == {"l_lit", "l_esc1", "l_esc1_any", "l_escl1", "l_lit4", "l_lit2", "l_lit3", "l_lit3_case", "l_esc1f", "l_esc1f_case", "l_esc1f_any", "l_rx", "l_none"}
\* lines containing the text literally (LIKE '%t%'; ILIKE with fold)
LikeSet(t, fold) == CASE t = "lit"   -> {"l_lit"}
                      [] t = "esc1"  -> {"l_esc1"}
                      [] t = "escl1" -> {"l_escl1"}
                      [] t = "lit4"  -> {"l_lit4", "l_escl1"}           \* the line [x] contains x
                      [] t = "lit2"  -> {"l_lit2"}
                      [] t = "lit3"  -> IF fold THEN {"l_lit3", "l_lit3_case"} ELSE {"l_lit3"}
                      [] t = "esc1f" -> IF fold THEN {"l_esc1f", "l_esc1f_case"} ELSE {"l_esc1f"}
                      [] OTHER -> {}
\* lines the text matches as a regular expression (match(string, t))
MatchSet(t) == CASE t = "lit"     -> {"l_lit"}
                 [] t = "esc"     -> {"l_esc1"}
                 [] t = "esc1"    -> {"l_esc1", "l_esc1_any"}
                 [] t = "escl"    -> {"l_escl1"}
                 [] t = "escl1"   -> {"l_lit4", "l_escl1"}
                 [] t = "lit4"    -> {"l_lit4", "l_escl1"}
                 [] t = "escfix"  -> {"l_lit2"}
                 [] t = "lit2"    -> {"l_lit2"}
                 [] t = "fold"    -> {"l_lit3", "l_lit3_case"}
                 [] t = "lit3"    -> {"l_lit3"}
                 [] t = "foldesc" -> {"l_esc1f", "l_esc1f_case"}
                 [] t = "esc1f"   -> {"l_esc1f", "l_esc1f_any"}
                 [] OTHER         -> {"l_rx"}
\* the definition of a LogQL line filter
FilterDef(op, t) == CASE op = "|=" -> LikeSet(t, FALSE)
                      [] op = "!=" -> Lines \ LikeSet(t, FALSE)
                      [] op = "|~" -> MatchSet(t)
                      [] OTHER     -> Lines \ MatchSet(t)
\* the rewrite of a literal regular expression to LIKE is sound (mechanism = definition for ONE execution)
RewriteSound == \A t \in Texts : Parse(t).lit => LikeSet(Parse(t).runes, Parse(t).fold) = MatchSet(t)

-----------------------------------------------------------------------------
(* Query classes *)
Ops == {"|=", "!=", "|~", "!~"}
Attrs == {"p0", "p1", "p2", "duration", "none"}      \* aggregated attribute: x | .x, span.x | .span.x, span.span.x | duration | none
Strip(a) == CASE a = "p2" -> "p1" [] a = "p1" -> "p0" [] OTHER -> a   \* one pass over the prefixes span. resource. .
NoQ == [kind |-> "none", op |-> "", text |-> "", attr |-> ""]
Queries ==
       {[kind |-> "sel", op |-> "", text |-> "", attr |-> ""]}                              \* {a="b"}: caches and alias only
  \cup {[kind |-> "lf", op |-> o, text |-> t, attr |-> ""] : o \in Ops, t \in InitTexts}    \* {a="b"} op "text"
  \cup {[kind |-> "bw", op |-> "", text |-> "", attr |-> ""]}                               \* sum by (a) (rate({a="b"}[1m]))
  \cup {[kind |-> "lfmt", op |-> "", text |-> "", attr |-> ""]}                             \* LineFormatPlanner object (dead code)
  \cup {[kind |-> "ac", op |-> "", text |-> "", attr |-> a] : a \in Attrs}                  \* {.a="b"} | avg(attr) > 1
IsLogQL(q) == q.kind \in {"sel", "lf", "bw", "lfmt"}

(* Fields of a plan object (one record for all kinds) *)
InitF(q) == [val |-> q.text, cache |-> 0, alias |-> "", lcache |-> 0, fmt |-> 0,
             conds |-> 0, where |-> <<>>, attr |-> q.attr]

-----------------------------------------------------------------------------
(* Process, one execution with ctx_k.  Result: new fields, the written fields, the semantics of the statement. *)
Sem0 == [lines |-> {}, day |-> 0, from |-> 0, to |-> 0, valid |-> TRUE, fmt |-> 0, agg |-> "", keys |-> {}, ctx |-> 0]

\* WithConnectorPlanner: the fingerprint sub-select is built with the first ctx and kept
UseCache(f, k) == LET c == IF f.cache = 0 THEN k ELSE f.cache
                  IN [used |-> c, cache |-> IF Writes("FingerprintFilterPlanner.FingerprintSelectWithCache") THEN c ELSE 0]

ProcLogQL(q, f, k) ==
  LET uc == UseCache(f, k)
      alias2 == IF Writes("MainFinalizerPlanner.Alias") THEN "prefinal" ELSE f.alias
      \* LineFilterPlanner.Process
      p == Parse(f.val)
      rewrite == q.kind = "lf" /\ q.op \in {"|~", "!~"} /\ p.lit
      val2 == IF rewrite /\ Writes("LineFilterPlanner.Val") THEN p.runes ELSE f.val
      pos == CASE q.kind # "lf" -> Lines
               [] q.op \in {"|=", "!="} -> LikeSet(f.val, FALSE)
               [] rewrite -> LikeSet(p.runes, p.fold)
               [] OTHER -> MatchSet(f.val)
      lines == IF q.kind = "lf" /\ q.op \in {"!=", "!~"} THEN Lines \ pos ELSE pos
      \* ByWithoutPlanner.Process clears *LabelsCache when an execution enters it (the cache chains the label
      \* sub-selects of ONE execution); processTSTable: with *LabelsCache set the labels sub-select reads from the
      \* cached WITH - were that the WITH of the previous execution, its alias would be the one being defined
      lc0 == IF q.kind = "bw" THEN 0 ELSE f.lcache
      valid == ~(q.kind = "bw" /\ lc0 = 1)
      lcache2 == IF q.kind = "bw" /\ Writes("ByWithoutPlanner.LabelsCache") THEN 1 ELSE f.lcache
      \* LineFormatPlanner.ProcessTpl appends the template to formatStr on every call
      fmt2 == IF q.kind = "lfmt" /\ Writes("LineFormatPlanner.formatStr") THEN f.fmt + 1 ELSE f.fmt
      f2 == [f EXCEPT !.val = val2, !.cache = uc.cache, !.alias = alias2, !.lcache = lcache2, !.fmt = fmt2]
  IN [f |-> f2,
      sem |-> [Sem0 EXCEPT !.lines = lines, !.day = Day(uc.used), !.from = From(k), !.to = To(k), !.valid = valid,
                           !.fmt = IF q.kind = "lfmt" THEN f.fmt + 1 ELSE 0]]

\* AttrConditionPlanner.Process (+ aggregator()): sqlConds/where built on the first call; every call strips the
\* scope prefix of AggregatedAttr in place and appends key = AggregatedAttr to where
ProcAC(q, f, k) ==
  LET agg == f.attr \notin {"none", "duration"}
      a2 == IF agg THEN Strip(f.attr) ELSE f.attr
      attr2 == IF agg /\ Writes("AttrConditionPlanner.AggregatedAttr") THEN a2 ELSE f.attr
      where2 == IF agg /\ Writes("AttrConditionPlanner.where") THEN Append(f.where, a2) ELSE f.where
      keys == IF agg THEN {where2[i] : i \in 1..Len(where2)} \cup {a2} ELSE {}
      f2 == [f EXCEPT !.attr = attr2, !.where = where2, !.conds = IF Writes("AttrConditionPlanner.sqlConds") THEN 1 ELSE f.conds]
  IN [f |-> f2,
      sem |-> [Sem0 EXCEPT !.agg = a2, !.keys = keys, !.from = From(k), !.to = To(k), !.ctx = k]]   \* ctx: random filter / cached ids of portion k

Process(q, f, k) == IF IsLogQL(q) THEN ProcLogQL(q, f, k) ELSE ProcAC(q, f, k)

WrittenBy(f, f2) ==
     (IF f.val # f2.val THEN {"LineFilterPlanner.Val"} ELSE {})
  \cup (IF f.cache # f2.cache THEN {"FingerprintFilterPlanner.FingerprintSelectWithCache"} ELSE {})
  \cup (IF f.alias # f2.alias THEN {"MainFinalizerPlanner.Alias"} ELSE {})
  \cup (IF f.lcache # f2.lcache THEN {"ByWithoutPlanner.LabelsCache"} ELSE {})
  \cup (IF f.fmt # f2.fmt THEN {"LineFormatPlanner.formatStr"} ELSE {})
  \cup (IF f.conds # f2.conds THEN {"AttrConditionPlanner.sqlConds"} ELSE {})
  \* (maybeCreateWhere builds where together with sqlConds on the first call)
  \cup (IF f.where # f2.where \/ (f.conds # f2.conds /\ Writes("AttrConditionPlanner.where")) THEN {"AttrConditionPlanner.where"} ELSE {})
  \cup (IF f.attr # f2.attr THEN {"AttrConditionPlanner.AggregatedAttr"} ELSE {})

\* fields of one plan object after n executions (ctx_1 .. ctx_n)
RECURSIVE FieldsAfter(_, _)
FieldsAfter(q, n) == IF n = 0 THEN InitF(q) ELSE Process(q, FieldsAfter(q, n - 1), n).f
ExecK(q, k) == Process(q, FieldsAfter(q, k - 1), k)          \* k-th execution of one plan object
Fresh(q, k) == Process(q, InitF(q), k)                       \* a new plan object, executed with ctx_k

-----------------------------------------------------------------------------
(* Meaning on data.  LogQL: every database the writer can produce over the slots - a sample at slot t has a   *)
(* series row of day DayOf(t) (the writer registers a series on every day it receives samples for it).        *)
DBs == SUBSET Slots
ResultLog(db, s) == IF ~s.valid THEN {"<statement rejected>"}
                    ELSE {<<t, l>> \in db \X s.lines :
                            /\ s.from <= t /\ t < s.to
                            /\ \E t2 \in db : DayOf(t2) >= s.day}     \* the stream's series rows with date >= bound
MeaningLog(s) == [db \in DBs |-> ResultLog(db, s)]
\* TraceQL: the aggregated value is taken from rows with key = agg; these rows are selected iff agg is among the
\* OR-ed keys; further keys only add groups that the HAVING on the condition bits removes
MeaningAC(s) == [agg |-> s.agg, covered |-> (s.agg = "" \/ s.agg \in s.keys \/ s.agg \in {"none", "duration"}), from |-> s.from, to |-> s.to, ctx |-> s.ctx]
SameMeaning(q, s1, s2) ==
    \/ s1 = s2                           \* the same statement
    \/ IF IsLogQL(q) THEN MeaningLog(s1) = MeaningLog(s2) /\ s1.fmt = s2.fmt
       ELSE MeaningAC(s1) = MeaningAC(s2)

\* THE PROPERTY, per query class and execution number: the expected outcome for the real code
Diverges(q, k) == ~SameMeaning(q, ExecK(q, k).sem, Fresh(q, k).sem)
\* (tables: TLC evaluates a constant definition once)
DivT == [q \in Queries |-> [k \in 1..MaxExec |-> Diverges(q, k)]]
FieldsT == [q \in Queries |-> [n \in 0..MaxExec |-> FieldsAfter(q, n)]]

\* lemmas that hold whatever Mutates is
\* a stale fingerprint cache alone never changes the meaning while From only advances
StaleCacheBenign ==
    \A k \in 1..MaxExec : \A c \in 1..k :
        LET s == [Sem0 EXCEPT !.lines = Lines, !.from = From(k), !.to = To(k)]
        IN MeaningLog([s EXCEPT !.day = Day(c)]) = MeaningLog([s EXCEPT !.day = Day(k)])
\* the first execution of any plan object is the definition
FirstIsDef == \A q \in Queries :
    /\ ~Diverges(q, 1)
    /\ q.kind = "lf" => ExecK(q, 1).sem.lines = FilterDef(q.op, q.text)
\* a divergence needs a written field that is not set-once-idempotent
DivergenceNeedsState == \A q \in Queries, k \in 2..MaxExec :
    Diverges(q, k) => \E j \in 1..(k - 1) : WrittenBy(FieldsAfter(q, j - 1), FieldsAfter(q, j)) \ (SetOnce \ {"ByWithoutPlanner.LabelsCache"}) # {}

ASSUME RewriteSound

-----------------------------------------------------------------------------
(* The process: plan objects alive at the same time, their executions interleaved *)
VARIABLES plans, last
vars == <<plans, last>>

NoPlan == [q |-> NoQ, f |-> InitF(NoQ), n |-> 0]
NoCall == [p |-> 0, k |-> 0, q |-> NoQ, writes |-> {}, same |-> TRUE]

Init == plans = [p \in PlanIds |-> NoPlan] /\ last = NoCall

New(p, q) == /\ plans[p] = NoPlan
             /\ plans' = [plans EXCEPT ![p] = [q |-> q, f |-> InitF(q), n |-> 0]]
             /\ last' = [NoCall EXCEPT !.p = p, !.q = q]

Proc(p) == /\ plans[p] # NoPlan /\ plans[p].n < MaxExec
           /\ LET pl == plans[p]
                  k == pl.n + 1
                  r == Process(pl.q, pl.f, k)
              IN /\ plans' = [plans EXCEPT ![p] = [pl EXCEPT !.f = r.f, !.n = k]]
                 /\ last' = [p |-> p, k |-> k, q |-> pl.q, writes |-> WrittenBy(pl.f, r.f),
                             same |-> SameMeaning(pl.q, r.sem, Fresh(pl.q, k).sem)]

\* a finished plan object is dropped (a tail ends, a request is answered)
Drop(p) == /\ plans[p] # NoPlan /\ plans[p].n = MaxExec
           /\ plans' = [plans EXCEPT ![p] = NoPlan] /\ last' = NoCall

Next == \E p \in PlanIds : (\E q \in Queries : New(p, q)) \/ Proc(p) \/ Drop(p)
Spec == Init /\ [][Next]_vars

TypeOK == /\ \A p \in PlanIds : plans[p].n \in 0..MaxExec /\ plans[p].q \in Queries \cup {NoQ}
          /\ last.writes \subseteq Fields
\* what a call does depends on its own plan object only: however the calls of the plans interleave, the fields of a
\* plan are those of n executions in isolation, and the last call behaved as the k-th execution in isolation
Independent == /\ \A p \in PlanIds : plans[p] # NoPlan => plans[p].f = FieldsT[plans[p].q][plans[p].n]
               /\ last.k > 0 => /\ last.same = ~DivT[last.q][last.k]
                                /\ last.writes = WrittenBy(FieldsT[last.q][last.k - 1], FieldsT[last.q][last.k])
\* set-once fields are written by the first execution only
SetOnceOnce == last.k > 1 => last.writes \cap SetOnce = {}
\* only observed-to-be-written fields are ever written
OnlyMutates == last.writes \subseteq Mutates
\* THE PROPERTY as an invariant of the process (violated by the transcription of the unchanged code: the
\* counterexamples are CANDIDATES for the driver; the check uses the per-class export below instead)
ReExecutable == last.k > 0 => last.same
=============================================================================

\* reference configuration for the Pyroscope selector (tools/props/c17.py generates the ones it runs);
\* "INVARIANTS MechEqDef" is the property itself
INIT MCInit
NEXT MCNext
CONSTANTS
  KV = {"n1"}
  GL = {"g1"}
  MaxSeries = 2
  MaxMatchers = 2
  SVals = {"", "x", "xy"}
  EqPats = {"", "x", "xy"}
  RePats = {"x", "xy", "y", ".*", ".+", ""}
  Ops = {"=", "!=", "=~", "!~"}
  BitWidth = 64
  AllowEmpty = TRUE
  AlwaysRow = TRUE
  Plan1 = 202
  Plan2 = 0
  SampleDB = 0
  SampleMS = 0
  SampleSeries = 3
  SampleMatchers = 3
  OutFile = "prof_cases.json"
INVARIANTS MechEqDefOnSafe MechSubset PerSeries
CONSTRAINT PlanOK
CHECK_DEADLOCK FALSE

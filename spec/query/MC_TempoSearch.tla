--------------------------- MODULE MC_TempoSearch ---------------------------
(* Case enumeration + export for X07.  A state is a database (a sequence of traces, built one span at a time: a    *)
(* span is appended to the last trace or opens a new trace; traces are opened in non-decreasing order of their     *)
(* first span) and, in the leaves, one request of the configuration's plan.  In every leaf TLC checks: the         *)
(* mechanism with every quirk repaired equals the definition, every difference between the mechanism as coded (and *)
(* the mechanism with every quirk) and the definition is accounted for by a quirk, and the laws that tie the        *)
(* definitions together.  For the databases selected by ExportMod / ExportSeed the case is printed as JSON for     *)
(* harness/cmd/x07.                                                                                                *)
EXTENDS TempoSearch, Json

CONSTANTS
    MaxTraces, MaxSpans,
    SvcPool, NmPool,     \* service / span name atoms
    TickPool,            \* the ticks a span may start at (0..4)
    DurPool,             \* durations in units of 0.5 ms
    ParMode,             \* "tree": span 1 is the root, the others its children; "free": roots anywhere, orphans, two roots
    Plan,                \* "T" (tags, the tag endpoints) | "I" (trace by id) | "D" (duration bounds) | "W" (windows, limit)
    ExportMod, ExportSeed,
    Repaired             \* the quirks of AllQuirks the code no longer has (x07.py: REPAIRED)

VARIABLES db, req
vars == <<db, req>>

(******************************* the pools *********************************)
MCKeys == {"a", "b"}
TG(a, b) == [k \in MCKeys |-> IF k = "a" THEN a ELSE b]
\* {}  {a:x}  {b:y}  {a:x,b:y}  {a:y}
MCTags5 == <<TG("#", "#"), TG("x", "#"), TG("#", "y"), TG("x", "y"), TG("y", "#")>>
\* {}  {a:x}  {b:y}
MCTags3 == <<TG("#", "#"), TG("x", "#"), TG("#", "y")>>
\* {}  {a:x}
MCTags2 == <<TG("#", "#"), TG("x", "#")>>
\* {a:x}
MCTags1 == <<TG("x", "#")>>

T(k, v) == [k |-> k, v |-> v]
TagsT == {<<>>, <<T("a", "x")>>, <<T("a", "y")>>, <<T("b", "y")>>, <<T("a", "x"), T("b", "y")>>, <<T("svc", "s1")>>, <<T("nm", "n1")>>,
          <<T("svc", "s1"), T("a", "x")>>, <<T("nm", "n2"), T("svc", "s2")>>, <<T("z", "x")>>}
TagsD == {<<>>, <<T("a", "x")>>}
TagsW == {<<>>, <<T("a", "x")>>, <<T("a", "x"), T("b", "y")>>}
Bounds == {<<4, 0>>, <<5, 0>>, <<0, 4>>, <<0, 5>>, <<4, 5>>, <<1, 0>>, <<0, 1>>, <<5, 8>>}

(****************************** the requests *******************************)
Rq(ep, tags, b, lim, w, name, tgt, form, acc) ==
    [ep |-> ep, tags |-> tags, min |-> b[1], max |-> b[2], lim |-> lim, from |-> w[1], to |-> w[2], name |-> name, tgt |-> tgt, form |-> form, acc |-> acc]
None == Rq("none", <<>>, <<0, 0>>, 0, <<0, 0>>, "", 0, "", "")
Search(tags, b, lim, w) == Rq("search", tags, b, lim, w, "", 0, "", "")
ById(tgt, form, acc)    == Rq("byid", <<>>, <<0, 0>>, 0, <<0, 0>>, "", tgt, form, acc)
Requests(d) ==
    CASE Plan = "T" ->
             {Search(tags, <<0, 0>>, 0, <<1, 3>>) : tags \in TagsT}
        \cup {Rq("tags", <<>>, <<0, 0>>, 0, <<0, 0>>, "", 0, "", ""), Rq("echo", <<>>, <<0, 0>>, 0, <<0, 0>>, "", 0, "", "")}
        \cup {Rq("values", <<>>, <<0, 0>>, 0, <<0, 0>>, n, 0, "", "") : n \in {"a", "b", "svc", "nm", "z"}}
      [] Plan = "I" ->
             {ById(t, f, "json") : t \in DOMAIN d, f \in {"lower", "upper", "short"}}
        \cup {ById(t, "lower", "proto") : t \in DOMAIN d}
        \cup {ById(0, "lower", "json"), ById(0, "lower", "proto"), ById(0, "nothex", "json"), ById(0, "long", "json")}
        \cup {Search(<<>>, <<0, 0>>, 0, <<1, 3>>), Rq("echo", <<>>, <<0, 0>>, 0, <<0, 0>>, "", 0, "", "")}
      [] Plan = "D" ->
             {Search(tags, b, 0, <<1, 3>>) : tags \in TagsD, b \in Bounds}
        \cup {Search(<<T("a", "x")>>, b, 1, <<1, 3>>) : b \in {<<4, 0>>, <<0, 5>>}}
      [] Plan = "W" ->
             {Search(tags, <<0, 0>>, lim, w) : tags \in TagsW, lim \in {0, 1, 2}, w \in {<<1, 3>>, <<2, 2>>}}
        \cup {Search(<<T("a", "x")>>, <<4, 0>>, 1, <<1, 3>>)}
        \cup {Rq("tags", <<>>, <<0, 0>>, 0, <<0, 0>>, "", 0, "", ""), Rq("values", <<>>, <<0, 0>>, 0, <<0, 0>>, "a", 0, "", "")}

(******************************** the spans ********************************)
ParPool(k) == IF ParMode = "tree" THEN (IF k = 1 THEN {0} ELSE {1})
              ELSE IF k = 1 THEN {0, 2, 9} ELSE {0, 1, 9}
SpanPool(k) == [par : ParPool(k), svc : SvcPool, nm : NmPool, tk : TickPool, du : DurPool, tg : DOMAIN TagPool]
SvcNo(s) == IF s = "s1" THEN 0 ELSE 1
NmNo(s)  == IF s = "n1" THEN 0 ELSE 1
Code(s)  == ((((s.par * 2 + SvcNo(s.svc)) * 2 + NmNo(s.nm)) * 5 + s.tk) * 9 + s.du) * 5 + (s.tg - 1)

(******************************* behaviour *********************************)
Init == db = <<>> /\ req = None
NewTrace(s) ==
    /\ req = None
    /\ Len(db) < MaxTraces
    /\ db # <<>> => Code(s) >= Code(db[Len(db)][1])
    /\ db' = Append(db, <<s>>)
    /\ UNCHANGED req
AddSpan(s) ==
    /\ req = None
    /\ db # <<>>
    /\ Len(db[Len(db)]) < MaxSpans
    /\ db' = [db EXCEPT ![Len(db)] = Append(@, s)]
    /\ UNCHANGED req
Ask(r) ==
    /\ req = None
    /\ req' = r
    /\ UNCHANGED db
Next == \/ \E s \in SpanPool(1) : NewTrace(s)
        \/ (db # <<>> /\ \E s \in SpanPool(Len(db[Len(db)]) + 1) : AddSpan(s))
        \/ \E r \in Requests(db) : Ask(r)
Spec == Init /\ [][Next]_vars

(******************************* invariants ********************************)
AsCoded == AllQuirks \ Repaired
IsCase  == req.ep # "none"
MechEqDef     == IsCase => Mech(db, req, {}) = Def(db, req)
QuirksExplain == IsCase =>
                 /\ LET ma == Mech(db, req, AllQuirks) IN ma # Def(db, req) => FiredOf(db, req, ma, AllQuirks) # {}
                 /\ LET ma == Mech(db, req, AsCoded)   IN ma # Def(db, req) => FiredOf(db, req, ma, AsCoded) # {}
\* NOT an invariant (MC_TempoSearch_ascoded.cfg): TLC refutes it with the smallest database / request on which the code departs
CodedEqDef    == IsCase => Mech(db, req, AsCoded) = Def(db, req)
Laws == IsCase => LawOnce(db, req) /\ LawLimit(db, req) /\ LawTagsShrink(db, req) /\ LawTagsValues(db, req)

(********************************* export **********************************)
RECURSIVE SumSeq(_, _)
SumSeq(f, n) == IF n = 0 THEN 0 ELSE f[n] + SumSeq(f, n - 1)
TrHash(tr) == SumSeq([i \in DOMAIN tr |-> (i + 6) * Code(tr[i])], Len(tr))
DbHash == SumSeq([i \in DOMAIN db |-> (2 * i + 15) * TrHash(db[i])], Len(db)) + Len(db)
Selected == IsCase /\ ExportMod # 0 /\ (DbHash + ExportSeed) % ExportMod = 0
SpanRec(s) == [par |-> s.par, svc |-> s.svc, nm |-> s.nm, tk |-> s.tk, du |-> s.du, tg |-> s.tg, tags |-> TagPool[s.tg]]
CaseRec(d, ma, fired, mm, mfired) ==
    [db    |-> [i \in DOMAIN db |-> [j \in DOMAIN db[i] |-> SpanRec(db[i][j])]],
     req   |-> req,
     v2    |-> V2, scoped |-> ScopedKeys,
     def   |-> d,
     coded |-> ma, fired |-> fired,
     \* the mechanism with EVERY quirk, the repaired ones included (<<>>: the same as coded)
     mut   |-> IF mm = ma THEN <<>> ELSE <<mm>>, mutfired |-> mfired]

\* all invariants and the export in ONE evaluation of the definition and of the mechanisms per state (x07.py checks this
\* one; when it fails the run is repeated with the named invariants to say which)
AllChecks ==
    IsCase =>
    LET d      == Def(db, req)
        ma     == Mech(db, req, AsCoded)
        fired  == IF ma = d THEN {} ELSE FiredOf(db, req, ma, AsCoded)
        mm     == IF Repaired = {} THEN ma ELSE Mech(db, req, AllQuirks)
        mfired == IF Repaired = {} THEN fired ELSE IF mm = d THEN {} ELSE FiredOf(db, req, mm, AllQuirks)
    IN  /\ Mech(db, req, {}) = d
        /\ ma # d => fired # {}
        /\ mm # d => mfired # {}
        /\ LawOnce(db, req) /\ LawLimit(db, req) /\ LawTagsShrink(db, req) /\ LawTagsValues(db, req)
        /\ Selected => PrintT(<<"X07CASE", ToJson(CaseRec(d, ma, fired, mm, mfired))>>)
=============================================================================

------------------------------ MODULE LogQLSem ------------------------------
(***************************************************************************************************************)
(* What a LogQL query MEANS (properties C07 and C08): a declarative definition over a small abstract          *)
(* database.  Nothing in this module knows about SQL, label indexes, bit masks or the Go post-processors;    *)
(* that is LogQLPlan.tla.  The binding (harness/cmd/c07) concretises the atoms and compares what the REAL    *)
(* reader returns with Eval / EvalMetric of this module.                                                      *)
(*                                                                                                             *)
(* Abstract data (DESIGN section 4)                                                                            *)
(*   value atoms     "v1" "v2" (plain strings), "w" (a string that is NOT a number but looks like one),        *)
(*                   "n0" "n1" "n2" "n3" (strings that denote the numbers 0 1 2 3), "" = the label is absent   *)
(*                   (LogQL: a missing label has the empty value), "@msg" = the text of the entry's msg field  *)
(*   stream          a function  {"a","b"} -> value atom                                                       *)
(*   entry           [s stream, t tick, feats SUBSET {"f1","f2","f3"}, ty "log"|"metric", fmt "plain"|"json",  *)
(*                    fld [x, ox, n -> value atom]]   -- fld are the fields a json / regexp stage can extract: *)
(*                    json line {"msg":.., "x":fld.x, "o":{"x":fld.ox}, "n":fld.n}; plain line ".. [x:..] [n:..]"*)
(*   database        a sequence of entries (the index is the entry's identity)                                 *)
(*   regex atoms     defined by the SET of atoms they match (ReVals / ReFeats); the concretiser realises them  *)
(*                   as patterns that match exactly those members of the pools                                 *)
(***************************************************************************************************************)
EXTENDS Integers, Sequences, FiniteSets, TLC

StreamLabelNames == {"a", "b"}
ExtractedNames   == {"x", "y", "o_x", "n", "msg"}
LabelNames       == StreamLabelNames \cup ExtractedNames
NoLabels         == [l \in LabelNames |-> ""]

NumVal  == ("n0" :> 0) @@ ("n1" :> 1) @@ ("n2" :> 2) @@ ("n3" :> 3)
IsNum(v) == v \in DOMAIN NumVal

(* regex atoms over label values: the set of value atoms matched; R_any is .* (matches the empty value too),   *)
(* R_some is .+                                                                                                *)
ReVals == ("R_v1" :> {"v1"}) @@ ("R_v2" :> {"v2"}) @@ ("R_v1v2" :> {"v1", "v2"}) @@ ("R_n" :> {"n1", "n3"})
ReMatches(r, v) == CASE r = "R_any"  -> TRUE
                     [] r = "R_some" -> v # ""
                     [] OTHER        -> v \in ReVals[r]

(* regex atoms over lines: the line matches iff it contains one of the features.  L_* are regexes that are one *)
(* literal, R_* are not (alternations, classes, metacharacters)                                                *)
ReFeats == ("L_f1" :> {"f1"}) @@ ("L_f2" :> {"f2"}) @@ ("R_f1" :> {"f1"}) @@ ("R_f2" :> {"f2"}) @@
           ("R_f1f2" :> {"f1", "f2"}) @@ ("R_f2f3" :> {"f2", "f3"})
LineReMatches(r, feats) == feats \cap ReFeats[r] # {}

StreamLbls(s) == [l \in LabelNames |-> IF l \in DOMAIN s THEN s[l] ELSE ""]

(*------------------------------------------- stream selector ------------------------------------------------*)
MatcherHolds(m, s) ==
    LET v == IF m.name \in DOMAIN s THEN s[m.name] ELSE ""
    IN  CASE m.op = "="  -> v = m.val
          [] m.op = "!=" -> v # m.val
          [] m.op = "=~" -> ReMatches(m.val, v)
          [] m.op = "!~" -> ~ReMatches(m.val, v)

StreamSelected(ms, s) == \A i \in DOMAIN ms : MatcherHolds(ms[i], s)

(*------------------------------------------- pipeline stages ------------------------------------------------*)
LineHolds(st, e) ==
    CASE st.op = "|=" -> st.arg \in e.feats
      [] st.op = "!=" -> st.arg \notin e.feats
      [] st.op = "|~" -> LineReMatches(st.arg, e.feats)
      [] st.op = "!~" -> ~LineReMatches(st.arg, e.feats)

NumCmp(op, x, k) ==
    CASE op = "==" -> x = k
      [] op = "!=" -> x # k
      [] op = ">"  -> x > k
      [] op = ">=" -> x >= k
      [] op = "<"  -> x < k
      [] op = "<=" -> x <= k

(* a leaf is [t |-> "leaf", lbl, op, num, val, k]: num = TRUE is a numeric comparison with the number k (it   *)
(* holds only when the label's value denotes a number), otherwise a string comparison with val                *)
LeafHolds(lf, lbls) ==
    LET v == lbls[lf.lbl]
    IN  IF lf.num THEN IsNum(v) /\ NumCmp(lf.op, NumVal[v], lf.k)
        ELSE CASE lf.op = "="  -> v = lf.val
               [] lf.op = "!=" -> v # lf.val
               [] lf.op = "=~" -> ReMatches(lf.val, v)
               [] lf.op = "!~" -> ~ReMatches(lf.val, v)

RECURSIVE TreeHolds(_, _)
TreeHolds(tr, lbls) ==
    IF tr.t = "leaf" THEN LeafHolds(tr, lbls)
    ELSE IF tr.t = "and" THEN TreeHolds(tr.l, lbls) /\ TreeHolds(tr.r, lbls)
    ELSE TreeHolds(tr.l, lbls) \/ TreeHolds(tr.r, lbls)

FieldAt(e, path) == CASE path = "x" -> e.fld.x [] path = "o.x" -> e.fld.ox [] path = "n" -> e.fld.n

Put(lbls, name, v) == IF v = "" THEN lbls ELSE [lbls EXCEPT ![name] = v]

RECURSIVE PutParams(_, _, _, _)
PutParams(lbls, params, i, e) ==
    IF i > Len(params) THEN lbls
    ELSE PutParams(Put(lbls, params[i].lbl, FieldAt(e, params[i].path)), params, i + 1, e)

RECURSIVE PutGroups(_, _, _, _)
PutGroups(lbls, groups, i, e) ==
    IF i > Len(groups) THEN lbls
    ELSE PutGroups(Put(lbls, groups[i], FieldAt(e, groups[i])), groups, i + 1, e)

(* label-changing stages.  An extraction stage applied to a line of the other format extracts nothing.        *)
StageLabels(st, e, lbls) ==
    CASE st.k = "json"   -> IF e.fmt = "json"
                            THEN Put(Put(Put(Put(lbls, "x", e.fld.x), "o_x", e.fld.ox), "n", e.fld.n), "msg", "@msg")
                            ELSE lbls
      [] st.k = "jsonp"  -> IF e.fmt = "json" THEN PutParams(lbls, st.params, 1, e) ELSE lbls
      [] st.k = "regexp" -> IF e.fmt = "plain" THEN PutGroups(lbls, st.groups, 1, e) ELSE lbls
      [] st.k = "drop"   -> [l \in LabelNames |-> IF l \in st.names THEN "" ELSE lbls[l]]
      [] st.k = "dropv"  -> [l \in LabelNames |-> IF l = st.name /\ lbls[l] = st.val THEN "" ELSE lbls[l]]
      [] OTHER           -> lbls

IsFilterStage(st) == st.k \in {"lf", "lbl"}

RECURSIVE RunPipe(_, _, _, _)
RunPipe(p, i, e, lbls) ==
    IF i > Len(p) THEN [ok |-> TRUE, lbls |-> lbls]
    ELSE LET st == p[i]
         IN  IF st.k = "lf"
             THEN IF LineHolds(st, e) THEN RunPipe(p, i + 1, e, lbls) ELSE [ok |-> FALSE, lbls |-> lbls]
             ELSE IF st.k = "lbl"
             THEN IF TreeHolds(st.tree, lbls) THEN RunPipe(p, i + 1, e, lbls) ELSE [ok |-> FALSE, lbls |-> lbls]
             ELSE RunPipe(p, i + 1, e, StageLabels(st, e, lbls))

(*------------------------------------------- log queries (C07) ----------------------------------------------*)
(* q = [m matchers, p pipeline, from, to (ticks, window [from,to)), lim (0 = no limit), fwd]                   *)
InWindow(q, e)   == q.from <= e.t /\ e.t < q.to
Candidates(q, db) == {i \in DOMAIN db : db[i].ty = "log" /\ InWindow(q, db[i]) /\ StreamSelected(q.m, db[i].s)}
PipeOf(q, db, i)  == RunPipe(q.p, 1, db[i], StreamLbls(db[i].s))
Passing(q, db)    == {i \in Candidates(q, db) : PipeOf(q, db, i).ok}

(* j comes before i in the requested direction (ties broken by identity so that the definition is total)      *)
Before(db, fwd, j, i) == IF db[j].t = db[i].t THEN j < i
                         ELSE IF fwd THEN db[j].t < db[i].t ELSE db[j].t > db[i].t
FirstN(S, db, fwd, n) == {i \in S : Cardinality({j \in S : Before(db, fwd, j, i)}) < n}

(* the exact answer: the selected entries, each with the labels of its own stream as changed by the pipeline  *)
Eval(q, db) ==
    LET P == Passing(q, db)
        S == IF q.lim = 0 THEN P ELSE FirstN(P, db, q.fwd, q.lim)
    IN  {[id |-> i, lbls |-> PipeOf(q, db, i).lbls] : i \in S}
=============================================================================

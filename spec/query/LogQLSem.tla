------------------------------ MODULE LogQLSem ------------------------------
(***************************************************************************************************************)
(* What a LogQL query MEANS (properties C07 and C08): a declarative definition over a small abstract          *)
(* database.  Nothing in this module knows about SQL, label indexes, bit masks or the Go post-processors;    *)
(* that is LogQLPlan.tla.  The binding (harness/cmd/c07) concretises the atoms and compares what the REAL    *)
(* reader returns with Eval / EvalMetric of this module.                                                      *)
(*                                                                                                             *)
(* Abstract data (DESIGN section 4)                                                                            *)
(*   value atoms     "v1" "v2" (plain strings), "w" (a string that is NOT a number but looks like one),        *)
(*                   "n0" "n1" "n2" "n3" (strings that denote the numbers 0 1 2 3), "" = the label is absent   *)
(*                   (LogQL: a missing label has the empty value), "@msg" = the text of the entry's msg field  *)
(*   stream          a function  {"a","b"} -> value atom                                                       *)
(*   entry           [s stream, t tick, feats SUBSET {"f1","f2","f3"}, ty "log"|"metric", fmt "plain"|"json",  *)
(*                    fld [x, ox, n -> value atom]]   -- fld are the fields a json / regexp stage can extract: *)
(*                    json line {"msg":.., "x":fld.x, "o":{"x":fld.ox}, "n":fld.n}; plain line ".. [x:..] [n:..]"*)
(*   database        a sequence of entries (the index is the entry's identity)                                 *)
(*   regex atoms     defined by the SET of atoms they match (ReVals / ReFeats); the concretiser realises them  *)
(*                   as patterns that match exactly those members of the pools                                 *)
(***************************************************************************************************************)
EXTENDS Integers, Sequences, FiniteSets, TLC

StreamLabelNames == {"a", "b"}
ExtractedNames   == {"x", "y", "o_x", "n", "msg"}
LabelNames       == StreamLabelNames \cup ExtractedNames
NoLabels         == [l \in LabelNames |-> ""]

NumVal  == ("n0" :> 0) @@ ("n1" :> 1) @@ ("n2" :> 2) @@ ("n3" :> 3)
IsNum(v) == v \in DOMAIN NumVal

(* extension atoms: values that CONTAIN a plain value without being it.  "v1s" = v1 followed by more          *)
(* characters (v1 is a proper prefix), "pv2" = characters followed by v2 (v2 is a proper suffix), "pv1s" = v1  *)
(* in the middle.  A label regex (stream matcher, label filter) is matched against the WHOLE value (LogQL /    *)
(* Prometheus matchers are fully anchored), so a regex atom that matches v1 / v2 does NOT match an extension:  *)
(* ReMatches is membership in ReVals, whatever the value contains.  Searching the pattern anywhere in the      *)
(* value, or anchoring only the first / last alternative of a|b, accepts them.                                 *)
ExtVals == {"v1s", "pv2", "pv1s"}
(* regex atoms over label values: the set of value atoms matched; R_any is .* (matches the empty value too),   *)
(* R_some is .+                                                                                                *)
ReVals == ("R_v1" :> {"v1"}) @@ ("R_v2" :> {"v2"}) @@ ("R_v1v2" :> {"v1", "v2"}) @@ ("R_n" :> {"n1", "n3"})
ReMatches(r, v) == CASE r = "R_any"  -> TRUE
                     [] r = "R_some" -> v # ""
                     [] OTHER        -> v \in ReVals[r]

(* regex atoms over lines: the line matches iff it contains one of the features.  L_* are regexes that are one *)
(* literal, R_* are not (alternations, classes, metacharacters)                                                *)
ReFeats == ("L_f1" :> {"f1"}) @@ ("L_f2" :> {"f2"}) @@ ("R_f1" :> {"f1"}) @@ ("R_f2" :> {"f2"}) @@
           ("R_f1f2" :> {"f1", "f2"}) @@ ("R_f2f3" :> {"f2", "f3"})
LineReMatches(r, feats) == feats \cap ReFeats[r] # {}

StreamLbls(s) == [l \in LabelNames |-> IF l \in DOMAIN s THEN s[l] ELSE ""]

(*------------------------------------------- stream selector ------------------------------------------------*)
MatcherHolds(m, s) ==
    LET v == IF m.name \in DOMAIN s THEN s[m.name] ELSE ""
    IN  CASE m.op = "="  -> v = m.val
          [] m.op = "!=" -> v # m.val
          [] m.op = "=~" -> ReMatches(m.val, v)
          [] m.op = "!~" -> ~ReMatches(m.val, v)

StreamSelected(ms, s) == \A i \in DOMAIN ms : MatcherHolds(ms[i], s)

(*------------------------------------------- pipeline stages ------------------------------------------------*)
LineHolds(st, e) ==
    CASE st.op = "|=" -> st.arg \in e.feats
      [] st.op = "!=" -> st.arg \notin e.feats
      [] st.op = "|~" -> LineReMatches(st.arg, e.feats)
      [] st.op = "!~" -> ~LineReMatches(st.arg, e.feats)

NumCmp(op, x, k) ==
    CASE op = "==" -> x = k
      [] op = "!=" -> x # k
      [] op = ">"  -> x > k
      [] op = ">=" -> x >= k
      [] op = "<"  -> x < k
      [] op = "<=" -> x <= k

(* a leaf is [t |-> "leaf", lbl, op, num, val, k]: num = TRUE is a numeric comparison with the number k (it   *)
(* holds only when the label's value denotes a number), otherwise a string comparison with val                *)
LeafHolds(lf, lbls) ==
    LET v == lbls[lf.lbl]
    IN  IF lf.num THEN IsNum(v) /\ NumCmp(lf.op, NumVal[v], lf.k)
        ELSE CASE lf.op = "="  -> v = lf.val
               [] lf.op = "!=" -> v # lf.val
               [] lf.op = "=~" -> ReMatches(lf.val, v)
               [] lf.op = "!~" -> ~ReMatches(lf.val, v)

RECURSIVE TreeHolds(_, _)
TreeHolds(tr, lbls) ==
    IF tr.t = "leaf" THEN LeafHolds(tr, lbls)
    ELSE IF tr.t = "and" THEN TreeHolds(tr.l, lbls) /\ TreeHolds(tr.r, lbls)
    ELSE TreeHolds(tr.l, lbls) \/ TreeHolds(tr.r, lbls)

FieldAt(e, path) == CASE path = "x" -> e.fld.x [] path = "o.x" -> e.fld.ox [] path = "n" -> e.fld.n

Put(lbls, name, v) == IF v = "" THEN lbls ELSE [lbls EXCEPT ![name] = v]

RECURSIVE PutParams(_, _, _, _)
PutParams(lbls, params, i, e) ==
    IF i > Len(params) THEN lbls
    ELSE PutParams(Put(lbls, params[i].lbl, FieldAt(e, params[i].path)), params, i + 1, e)

RECURSIVE PutGroups(_, _, _, _)
PutGroups(lbls, groups, i, e) ==
    IF i > Len(groups) THEN lbls
    ELSE PutGroups(Put(lbls, groups[i], FieldAt(e, groups[i])), groups, i + 1, e)

(* label-changing stages.  An extraction stage applied to a line of the other format extracts nothing.        *)
StageLabels(st, e, lbls) ==
    CASE st.k = "json"   -> IF e.fmt = "json"
                            THEN Put(Put(Put(Put(lbls, "x", e.fld.x), "o_x", e.fld.ox), "n", e.fld.n), "msg", "@msg")
                            ELSE lbls
      [] st.k = "jsonp"  -> IF e.fmt = "json" THEN PutParams(lbls, st.params, 1, e) ELSE lbls
      [] st.k = "regexp" -> IF e.fmt = "plain" THEN PutGroups(lbls, st.groups, 1, e) ELSE lbls
      [] st.k = "drop"   -> [l \in LabelNames |-> IF l \in st.names THEN "" ELSE lbls[l]]
      [] st.k = "dropv"  -> [l \in LabelNames |-> IF l = st.name /\ lbls[l] = st.val THEN "" ELSE lbls[l]]
      [] OTHER           -> lbls

IsFilterStage(st) == st.k \in {"lf", "lbl"}

RECURSIVE RunPipe(_, _, _, _)
RunPipe(p, i, e, lbls) ==
    IF i > Len(p) THEN [ok |-> TRUE, lbls |-> lbls]
    ELSE LET st == p[i]
         IN  IF st.k = "lf"
             THEN IF LineHolds(st, e) THEN RunPipe(p, i + 1, e, lbls) ELSE [ok |-> FALSE, lbls |-> lbls]
             ELSE IF st.k = "lbl"
             THEN IF TreeHolds(st.tree, lbls) THEN RunPipe(p, i + 1, e, lbls) ELSE [ok |-> FALSE, lbls |-> lbls]
             ELSE RunPipe(p, i + 1, e, StageLabels(st, e, lbls))

(*------------------------------------------- log queries (C07) ----------------------------------------------*)
(* q = [m matchers, p pipeline, from, to (ticks, window [from,to)), lim (0 = no limit), fwd]                   *)
InWindow(q, e)   == q.from <= e.t /\ e.t < q.to
Candidates(q, db) == {i \in DOMAIN db : db[i].ty = "log" /\ InWindow(q, db[i]) /\ StreamSelected(q.m, db[i].s)}
PipeOf(q, db, i)  == RunPipe(q.p, 1, db[i], StreamLbls(db[i].s))
Passing(q, db)    == {i \in Candidates(q, db) : PipeOf(q, db, i).ok}

(* j comes before i in the requested direction (ties broken by identity so that the definition is total)      *)
Before(db, fwd, j, i) == IF db[j].t = db[i].t THEN j < i
                         ELSE IF fwd THEN db[j].t < db[i].t ELSE db[j].t > db[i].t
FirstN(S, db, fwd, n) == {i \in S : Cardinality({j \in S : Before(db, fwd, j, i)}) < n}

(* the exact answer: the selected entries, each with the labels of its own stream as changed by the pipeline  *)
Eval(q, db) ==
    LET P == Passing(q, db)
        S == IF q.lim = 0 THEN P ELSE FirstN(P, db, q.fwd, q.lim)
    IN  {[id |-> i, lbls |-> PipeOf(q, db, i).lbls] : i \in S}

(*------------------------------------------- metric queries (C08) -------------------------------------------*)
(* q.mq = [fn, range, step, unit, ugrp, uglbls, agg, grp, glbls, cmpl, cmpa, topfn, topk, cmpt]                 *)
(*   range, step and the window q.from, q.to are in ticks; one tick is `unit` seconds (only rates and the 15 s  *)
(*   shortcut of the mechanism care).  Entries carry len (abstract byte length of the line) and, when the       *)
(*   pipeline ends with an unwrap stage, the unwrapped value NumVal[labels[unwrap label]].                      *)
(*   A value is a rational [num, den] in abstract units (the concretiser applies the scale of counts / bytes /  *)
(*   unwrapped numbers and the seconds per tick); cmpl / cmpa / cmpt = [op, k4]: compare with k4/4 (per second  *)
(*   for a rate), op = "" when there is no comparison.  A comparison belongs to the expression it is written    *)
(*   after: cmpl to the range function, cmpa to the vector aggregation, cmpt to topk / bottomk (it filters the  *)
(*   OUTPUT of the k-selection: bottomk(1, X) > c is empty when the smallest value of X is not above c).        *)
(*                                                                                                              *)
(* Definition (the property's words): bucket the matching entries into windows of the range duration            *)
(* (Bucket(t) = intDiv(t, range) * range), apply the range function, then the vector aggregation with its       *)
(* by / without grouping, the comparison, topk / bottomk and the comparison written after it.  The entries that *)
(* may contribute are those of the query window widened to whole range buckets.  The output has a point at      *)
(* start + i*step (i = 0 .. (end - start) div step) with the value of the range bucket that contains that       *)
(* instant.                                                                                                     *)
Bucket(t, r) == (t \div r) * r
WidenedFrom(q) == Bucket(q.from, q.mq.range)
WidenedTo(q)   == Bucket(q.to, q.mq.range) + q.mq.range

IsRateFn(fn)   == fn \in {"rate", "bytes_rate"}
IsUnwrapFn(fn) == fn \in {"sum_over_time", "avg_over_time", "min_over_time", "max_over_time", "first_over_time",
                          "last_over_time", "rate_unwrap"}
UnwrapLabel(q) == q.p[Len(q.p)].lbl

(* rationals with positive denominators *)
RLess(a, b)  == a.num * b.den < b.num * a.den
REq(a, b)    == a.num * b.den = b.num * a.den
RAdd(a, b)   == IF a.den = b.den THEN [num |-> a.num + b.num, den |-> a.den]
                ELSE [num |-> a.num * b.den + b.num * a.den, den |-> a.den * b.den]
RCmp(op, a, b) == CASE op = ">"  -> RLess(b, a)
                    [] op = ">=" -> ~RLess(a, b)
                    [] op = "<"  -> RLess(a, b)
                    [] op = "<=" -> ~RLess(b, a)
                    [] op = "==" -> REq(a, b)
                    [] op = "!=" -> ~REq(a, b)
RECURSIVE RSum(_)
RSum(S) == IF S = {} THEN [num |-> 0, den |-> 1]      \* S: set of [k, v] records (k makes equal values distinct)
           ELSE LET x == CHOOSE x \in S : TRUE IN RAdd(x.v, RSum(S \ {x}))
RMin(S) == (CHOOSE x \in S : \A y \in S : ~RLess(y.v, x.v)).v
RMax(S) == (CHOOSE x \in S : \A y \in S : ~RLess(x.v, y.v)).v

RECURSIVE SumOver(_, _)
SumOver(S, f) == IF S = {} THEN 0 ELSE LET x == CHOOSE x \in S : TRUE IN f[x] + SumOver(S \ {x}, f)

(* the entries that contribute, with their labels after the pipeline *)
MLabels(q, db, i) == RunPipe(q.p, 1, db[i], StreamLbls(db[i].s))
MCandidates(q, db) ==
    {i \in DOMAIN db : /\ db[i].ty = "log" /\ WidenedFrom(q) <= db[i].t /\ db[i].t < WidenedTo(q)
                       /\ StreamSelected(q.m, db[i].s) /\ MLabels(q, db, i).ok
                       /\ (IsUnwrapFn(q.mq.fn) => IsNum(MLabels(q, db, i).lbls[UnwrapLabel(q)]))}
Group(kind, names, lbls) ==
    CASE kind = "by"      -> [l \in LabelNames |-> IF l \in names THEN lbls[l] ELSE ""]
      [] kind = "without" -> [l \in LabelNames |-> IF l \in names THEN "" ELSE lbls[l]]
      [] OTHER            -> lbls
RangeLabels(q, db, i) == Group(q.mq.ugrp, q.mq.uglbls, MLabels(q, db, i).lbls)

(* the range function over the entries E (non-empty) of one series and one bucket *)
RangeValue(q, db, E) ==
    LET fn  == q.mq.fn
        uv  == [i \in E |-> IF IsUnwrapFn(fn) THEN NumVal[MLabels(q, db, i).lbls[UnwrapLabel(q)]] ELSE 0]
        ln  == [i \in E |-> db[i].len]
        n   == Cardinality(E)
        fst == CHOOSE i \in E : \A j \in E : db[i].t < db[j].t \/ (db[i].t = db[j].t /\ i <= j)
        lst == CHOOSE i \in E : \A j \in E : db[i].t > db[j].t \/ (db[i].t = db[j].t /\ i >= j)
    IN  CASE fn = "rate"            -> [num |-> n, den |-> q.mq.range]
          [] fn = "count_over_time" -> [num |-> n, den |-> 1]
          [] fn = "bytes_rate"      -> [num |-> SumOver(E, ln), den |-> q.mq.range]
          [] fn = "bytes_over_time" -> [num |-> SumOver(E, ln), den |-> 1]
          [] fn = "sum_over_time"   -> [num |-> SumOver(E, uv), den |-> 1]
          [] fn = "avg_over_time"   -> [num |-> SumOver(E, uv), den |-> n]
          [] fn = "min_over_time"   -> [num |-> CHOOSE x \in {uv[i] : i \in E} : \A y \in {uv[i] : i \in E} : x <= y, den |-> 1]
          [] fn = "max_over_time"   -> [num |-> CHOOSE x \in {uv[i] : i \in E} : \A y \in {uv[i] : i \in E} : x >= y, den |-> 1]
          [] fn = "first_over_time" -> [num |-> uv[fst], den |-> 1]
          [] fn = "last_over_time"  -> [num |-> uv[lst], den |-> 1]
          [] fn = "rate_unwrap"     -> [num |-> SumOver(E, uv), den |-> q.mq.range]

Threshold(q, cmp) == [num |-> cmp.k4, den |-> 4 * (IF IsRateFn(q.mq.fn) \/ q.mq.fn = "rate_unwrap" THEN q.mq.range ELSE 1)]
CmpHolds(q, cmp, v) == cmp.op = "" \/ RCmp(cmp.op, v, Threshold(q, cmp))

(* rows [lbls, b, v] of the range function *)
RangeRows(q, db) ==
    LET C == MCandidates(q, db)
        keys == {<<RangeLabels(q, db, i), Bucket(db[i].t, q.mq.range)>> : i \in C}
    IN  {r \in {[lbls |-> k[1], b |-> k[2],
                 v |-> RangeValue(q, db, {i \in C : RangeLabels(q, db, i) = k[1] /\ Bucket(db[i].t, q.mq.range) = k[2]})] : k \in keys} :
            CmpHolds(q, q.mq.cmpl, r.v)}

AggValue(agg, S) ==      \* S: non-empty set of [k, v]
    CASE agg = "sum"   -> RSum(S)
      [] agg = "min"   -> RMin(S)
      [] agg = "max"   -> RMax(S)
      [] agg = "avg"   -> LET t == RSum(S) IN [num |-> t.num, den |-> t.den * Cardinality(S)]
      [] agg = "count" -> [num |-> Cardinality(S), den |-> 1]

AggRows(q, db) ==
    LET R == RangeRows(q, db)
    IN  IF q.mq.agg = "" THEN R
        ELSE LET G(l) == IF q.mq.grp = "" THEN NoLabels ELSE Group(q.mq.grp, q.mq.glbls, l)
                 keys == {<<G(r.lbls), r.b>> : r \in R}
             IN  {a \in {[lbls |-> k[1], b |-> k[2],
                          v |-> AggValue(q.mq.agg, {[k |-> r.lbls, v |-> r.v] : r \in {rr \in R : G(rr.lbls) = k[1] /\ rr.b = k[2]}})] : k \in keys} :
                     CmpHolds(q, q.mq.cmpa, a.v)}

(* topk / bottomk per bucket.  sure: the row is among the k best whatever the order of equal values; maybe: it   *)
(* ties with the k-th value (the definition leaves the choice open)                                             *)
Better(q, x, y) == IF q.mq.topfn = "topk" THEN RLess(y.v, x.v) ELSE RLess(x.v, y.v)
TopSel(q, A) ==          \* the k-selection over the rows A of its operand
    IF q.mq.topfn = "" THEN {[lbls |-> r.lbls, b |-> r.b, v |-> r.v, opt |-> FALSE] : r \in A}
    ELSE LET same(r) == {x \in A : x.b = r.b}
             nbetter(r) == Cardinality({x \in same(r) : Better(q, x, r)})
             nnotworse(r) == Cardinality({x \in same(r) : ~Better(q, r, x)})   \* better or equal, including r
         IN  {[lbls |-> r.lbls, b |-> r.b, v |-> r.v, opt |-> nnotworse(r) > q.mq.topk] :
                r \in {rr \in A : nbetter(rr) < q.mq.topk}}
TopRows(q, db) == TopSel(q, AggRows(q, db))
(* the comparison attached to topk / bottomk keeps, of the selected rows, those whose value passes: selection     *)
(* first, threshold second.  The two do not commute when the threshold cuts on the side the selection prefers     *)
(* (bottomk with > >= !=, topk with < <= !=, == on either): a selected row that fails is NOT replaced by the next.*)
CmpTopRows(q, db) == {r \in TopRows(q, db) : CmpHolds(q, q.mq.cmpt, r.v)}

(* the output points.  The property fixes the VALUES (whole range buckets of matching entries) and the window,   *)
(* not which instant reports which bucket; the definition therefore only demands                                *)
(*   - a point at instant T carries the value of a range bucket b near T:  b - step < T <= b + range            *)
(*     (the bucket containing T, the bucket whose right edge is T = the (T-range, T] convention, or the bucket  *)
(*     that starts within the step after T),                                                                    *)
(*   - when the bucket that CONTAINS T has a row, there is a point at T (opt = FALSE marks that record).         *)
Instants(q) == {q.from + i * q.mq.step : i \in 0..((q.to - q.from) \div q.mq.step)}
Near(q, b, t) == b - q.mq.step < t /\ t <= b + q.mq.range
PointsOf(q, T) ==         \* T: rows [lbls, b, v, opt]
    LET series == {r.lbls : r \in T}
        near(l) == {[t |-> t, v |-> r.v, opt |-> ~(r.b = Bucket(t, q.mq.range) /\ ~r.opt)] :
                      <<t, r>> \in {<<tt, rr>> \in Instants(q) \X {x \in T : x.lbls = l} : Near(q, rr.b, tt)}}
    IN  {s \in {[lbls |-> l, pts |-> near(l)] : l \in series} : s.pts # {}}
EvalMetric(q, db) == PointsOf(q, CmpTopRows(q, db))

(* NOT the definition: the same query with the threshold of cmpt applied to the operand of the k-selection        *)
(* (bottomk(k, X > c) instead of bottomk(k, X) > c).  The case enumeration uses it to tell on which cases the     *)
(* order of the two is observable.                                                                               *)
EvalMetricCmpBeforeTop(q, db) == PointsOf(q, TopSel(q, {a \in AggRows(q, db) : CmpHolds(q, q.mq.cmpt, a.v)}))
=============================================================================

SPECIFICATION Spec
CONSTANTS
  MaxLen = 3
  ExportLen = 0
  SampleMod = 1000003
  Seed = 1
INVARIANTS MatcherStructure
CHECK_DEADLOCK FALSE

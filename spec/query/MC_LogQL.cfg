SPECIFICATION Spec
CONSTANTS
  Frag = "M"
  MaxStreams = 3
  MaxMatchers = 2
  MaxEntries = 3
  ExportMod = 1
  ExportSeed = 0
  ExportModDev = 1
  SCases <- EmptyCases
INVARIANTS DefinitionWellFormed MechanismWellFormed NoLimitMonotone Export
CHECK_DEADLOCK FALSE

---------------------------- MODULE MC_PromDown ----------------------------
(* Enumerates every (database, request) of the bounds, checks Mech({}) = Def, and exports for every case the definition's
   answer, the as-coded answer and the smallest quirk sets that reproduce the as-coded answer (tools/props/x08.py,
   harness/cmd/x08). *)
EXTENDS PromDown, TLC, Json

CONSTANTS NS,          \* series 1..NS
          SB,          \* the 15 s buckets samples live in (a set of numbers 0..63)
          EB,          \* the buckets a request may start and end at
          Vals,        \* value pool
          MaxSamples,
          Fns, Ranges, Steps,
          MaxEvals,    \* at most this many evaluation times per request
          ExportMod, ExportSeed

VARIABLES db, req
vars == <<db, req>>

None == [fn |-> "none", R |-> 0, S |-> 1, st |-> 0, en |-> 0]
Samples == [s : 1..NS, b : SB, p : 0..2, v : Vals]
Slot(x) == (x.s * 64 + x.b) * 3 + x.p
Requests == {r \in [fn : Fns, R : Ranges \cup {0}, S : Steps, st : EB, en : EB] :
                /\ r.st <= r.en
                /\ (r.fn \in InstFns) = (r.R = 0)
                /\ (r.en - r.st) \div r.S < MaxEvals}

DbHash == SumF([i \in 1..Len(db) |-> (i * 7 + 3) * (Slot(db[i]) * 11 + db[i].v)], 1..Len(db)) + Len(db)
Selected == ExportMod # 0 /\ (DbHash + ExportSeed) % ExportMod = 0

Init == db = <<>> /\ req = None
AddSample(x) ==
    /\ req.fn = "none"
    /\ Len(db) < MaxSamples
    /\ (IF db = <<>> THEN TRUE ELSE Slot(db[Len(db)]) < Slot(x))
    /\ db' = Append(db, x)
    /\ UNCHANGED req
Ask(r) ==
    /\ req.fn = "none"
    /\ db # <<>>
    /\ Selected
    /\ req' = r
    /\ UNCHANGED db
Next == (\E x \in Samples : AddSample(x)) \/ (\E r \in Requests : Ask(r))
Spec == Init /\ [][Next]_vars

D == {db[i] : i \in 1..Len(db)}
AsCoded == AllQuirks

CaseRec(d, ma, fired) ==
    [db |-> db, req |-> req, lb |-> LB, def |-> d, coded |-> ma, fired |-> fired]

\* the smallest quirk sets whose mechanism gives the as-coded answer ma (searched by increasing size)
ExplainK(ma, k) == {Q \in SUBSET AsCoded : Cardinality(Q) = k /\ Mech(D, req, Q) = ma}
RECURSIVE ExplainFrom(_, _)
ExplainFrom(ma, k) == LET e == ExplainK(ma, k) IN IF e # {} \/ k >= Cardinality(AsCoded) THEN e ELSE ExplainFrom(ma, k + 1)
Explain(ma) == ExplainFrom(ma, 1)

AllChecks ==
    req.fn # "none" =>
        LET d     == Def(D, req)
            ma    == Mech(D, req, AsCoded)
            fired == IF ma = d THEN {} ELSE Explain(ma)
        IN  /\ Mech(D, req, {}) = d
            /\ ma # d => ({} \notin fired /\ fired # {})
            /\ PrintT(<<"X08CASE", ToJson(CaseRec(d, ma, fired))>>)
=============================================================================

----------------------------- MODULE Trace_Replan -----------------------------
(* Trace validation for Replan: the calls the driver made on REAL plan objects (two alive at a time, their   *)
(* executions interleaved; query classes concretised from the cases TLC enumerated) must be a behaviour of   *)
(* Replan: every Process call writes exactly the modelled fields the specification writes at that point      *)
(* (observed by the field probe on the real objects) and its statement means / does not mean what a fresh    *)
(* plan means (observed on the populated store) exactly when the specification says so.                      *)
EXTENDS Replan, Json, TLCExt

TraceLog == ndJsonDeserialize("trace.ndjson")
VARIABLE l
tvars == <<vars, l>>

Ev == TraceLog[l]
More == l <= Len(TraceLog)
Is(e) == More /\ Ev.ev = e
Consume == l' = l + 1
SeqToSet(s) == {s[i] : i \in 1..Len(s)}

TraceInit == Init /\ l = 1

TraceNew == /\ Is("New") /\ Consume
            /\ [kind |-> Ev.q.kind, op |-> Ev.q.op, text |-> Ev.q.text, attr |-> Ev.q.attr] \in Queries
            /\ New(Ev.p, [kind |-> Ev.q.kind, op |-> Ev.q.op, text |-> Ev.q.text, attr |-> Ev.q.attr])

TraceProc == /\ Is("Process") /\ Consume
             /\ Proc(Ev.p)
             /\ last'.k = Ev.k
             /\ last'.writes = SeqToSet(Ev.writes)
             /\ last'.same = Ev.same

TraceDrop == Is("Drop") /\ Consume /\ Drop(Ev.p)

TraceNext == TraceNew \/ TraceProc \/ TraceDrop
TraceSpec == TraceInit /\ [][TraceNext]_tvars

Accept == (l = Len(TraceLog) + 1) => (PrintT("TRACE-ACCEPTED") /\ TLCSet("exit", TRUE))
HW == TLCGetOrDefault(1, 0)
HighWaterPrint == (l > HW) => (PrintT(<<"HW", l>>) /\ TLCSet(1, l))
=============================================================================

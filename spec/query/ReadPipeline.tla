---------------------------- MODULE ReadPipeline ----------------------------
(***************************************************************************)
(* Goroutine pipeline of one LogQL read request (C12).  Channels are       *)
(* unbuffered; every stage is a goroutine:                                 *)
(*   scan     shared/planner_clickhouse_getter.go Scan/ScanMatrix: one     *)
(*            message per 100 rows; a row error is sent as the LAST        *)
(*            message, then the channel is closed; ctx cancel: flush+close *)
(*   map      internal_planner/planner_generic.go WrapProcess (filters,    *)
(*            parsers, ZeroEater, Limit...): forward; on an own error send *)
(*            one error message, spawn a drainer for the upstream, close   *)
(*   limit    WrapProcess + ctx.CancelCtx() when the limit is reached; it  *)
(*            keeps receiving (and dropping) until the upstream closes     *)
(*   fix      planner_from_fix.go FixPeriodPlanner / MatrixStepPlanner:    *)
(*            receive until the upstream closes, forward, close            *)
(*   hold     internal_planner ResponseOptimizerPlanner (and the in-process*)
(*            aggregators): keeps everything it receives, an upstream error*)
(*            entry included, and only when the upstream has closed sends  *)
(*            it on as several messages in MAP ORDER - an error message can*)
(*            come out BEFORE data messages                                *)
(*   export   service/queryRangeService.go exportStreamsValue / matrix     *)
(*            writer: on an error message write the error tail and return; *)
(*            ExportDrainsOnError says whether it keeps receiving (drains) *)
(*            its input so that the stages upstream can finish             *)
(*   handler  controller: `for str := range ch { w.Write }`                *)
(* Environment: the database delivers Rows rows, may fail at any row, the  *)
(* request context may be cancelled at any time (client gone / limit).     *)
(* Property: every goroutine terminates (nothing stays blocked on a send   *)
(* nobody will receive), for every pipeline shape and fault position.      *)
(***************************************************************************)
EXTENDS Integers, Sequences, FiniteSets, TLC

CONSTANTS
    Shapes,     \* set of pipelines: sequences of stage kinds between scan and export, e.g. <<>>, <<"map">>, <<"limit","fix">>
    MaxRows,    \* the database has 0..MaxRows rows
    FaultRows,  \* the database may fail before delivering row k, k \in FaultRows (0 = no failure)
    ExportDrainsOnError  \* TRUE: the exporter drains its input after an error message (the code since the fix recorded in
                         \* known_findings.json); FALSE: it just returns (mutation: with a "hold" stage a goroutine stays blocked)

VARIABLES
    shape, nrows, failAt,
    scanPos, scanSt,    \* rows delivered, "run" | "done"
    st,                 \* st[i]: state of intermediate stage i: "run" | "done"
    held,               \* held[i]: message a stage has received and must forward ("none" | "data" | "err")
    bag,                \* bag[i]: what a "hold" stage keeps: [data |-> n, err |-> n]
    ch,                 \* ch[i]: message offered on the channel INTO stage i (i = 1..n+1; n+1 = export): "none"|"data"|"err"
    closed,             \* closed[i]: channel into stage i is closed
    drainer,            \* drainer[i]: a drainer goroutine consumes the channel into stage i
    expSt,              \* "run" | "done"
    resCh, resClosed,   \* response channel to the handler
    hSt,                \* handler "run" | "done"
    cancelled,          \* request context cancelled
    limitHit            \* the limit stage already cancelled

vars == <<shape, nrows, failAt, scanPos, scanSt, st, held, bag, ch, closed, drainer, expSt, resCh, resClosed, hSt, cancelled, limitHit>>

N == Len(shape)
Stage == 1..N
Chan == 1..(N + 1)

Init ==
    /\ shape \in Shapes /\ nrows \in 0..MaxRows /\ failAt \in FaultRows
    /\ scanPos = 0 /\ scanSt = "run"
    /\ st = [i \in 1..Len(shape) |-> "run"] /\ held = [i \in 1..Len(shape) |-> "none"]
    /\ bag = [i \in 1..Len(shape) |-> [data |-> 0, err |-> 0]]
    /\ ch = [i \in 1..(Len(shape) + 1) |-> "none"] /\ closed = [i \in 1..(Len(shape) + 1) |-> FALSE]
    /\ drainer = [i \in 1..(Len(shape) + 1) |-> FALSE]
    /\ expSt = "run" /\ resCh = "none" /\ resClosed = FALSE /\ hSt = "run"
    /\ cancelled = FALSE /\ limitHit = FALSE

\* ---- scan goroutine: offers a message on channel 1
ScanSend ==
    /\ scanSt = "run" /\ ch[1] = "none"
    /\ IF cancelled
         THEN scanSt' = "done" /\ closed' = [closed EXCEPT ![1] = TRUE] /\ UNCHANGED <<ch, scanPos>>
         ELSE IF failAt # 0 /\ scanPos + 1 = failAt
           THEN ch' = [ch EXCEPT ![1] = "err"] /\ scanSt' = "closing" /\ UNCHANGED <<closed, scanPos>>
           ELSE IF scanPos < nrows
             THEN ch' = [ch EXCEPT ![1] = "data"] /\ scanPos' = scanPos + 1 /\ UNCHANGED <<closed, scanSt>>
             ELSE ch' = [ch EXCEPT ![1] = "data"] /\ scanSt' = "closing" /\ UNCHANGED <<closed, scanPos>>   \* final EOF batch
    /\ UNCHANGED <<shape, nrows, failAt, st, held, bag, drainer, expSt, resCh, resClosed, hSt, cancelled, limitHit>>

\* after its last message was taken the scan goroutine closes the channel
ScanClose ==
    /\ scanSt = "closing" /\ ch[1] = "none"
    /\ scanSt' = "done" /\ closed' = [closed EXCEPT ![1] = TRUE]
    /\ UNCHANGED <<shape, nrows, failAt, scanPos, st, held, bag, ch, drainer, expSt, resCh, resClosed, hSt, cancelled, limitHit>>

\* ---- intermediate stage i: receive from channel i
StageRecv(i) ==
    /\ shape[i] # "hold"
    /\ st[i] = "run" /\ held[i] = "none" /\ ch[i] # "none"
    /\ held' = [held EXCEPT ![i] = ch[i]]
    /\ ch' = [ch EXCEPT ![i] = "none"]
    /\ UNCHANGED bag
    /\ UNCHANGED <<shape, nrows, failAt, scanPos, scanSt, st, closed, drainer, expSt, resCh, resClosed, hSt, cancelled, limitHit>>

\* forward what was received to channel i+1 (blocks while the previous message was not taken)
StageSend(i) ==
    /\ st[i] = "run" /\ held[i] # "none" /\ ch[i + 1] = "none"
    /\ IF shape[i] = "limit" /\ limitHit
         THEN UNCHANGED ch                                   \* past the limit: drop
         ELSE ch' = [ch EXCEPT ![i + 1] = held[i]]
    /\ held' = [held EXCEPT ![i] = "none"]
    /\ UNCHANGED bag
    /\ IF shape[i] = "limit" /\ ~limitHit /\ held[i] = "data"
         THEN (\/ limitHit' = TRUE /\ cancelled' = TRUE        \* this message reached the limit: CancelCtx()
               \/ UNCHANGED <<limitHit, cancelled>>)
         ELSE UNCHANGED <<limitHit, cancelled>>
    /\ UNCHANGED <<shape, nrows, failAt, scanPos, scanSt, st, closed, drainer, expSt, resCh, resClosed, hSt>>

\* the upstream channel is closed and drained: the stage finishes and closes its output
StageFinish(i) ==
    /\ shape[i] # "hold"
    /\ st[i] = "run" /\ held[i] = "none" /\ ch[i] = "none" /\ closed[i]
    /\ ch[i + 1] = "none"
    /\ st' = [st EXCEPT ![i] = "done"]
    /\ closed' = [closed EXCEPT ![i + 1] = TRUE]
    /\ UNCHANGED <<shape, nrows, failAt, scanPos, scanSt, held, bag, ch, drainer, expSt, resCh, resClosed, hSt, cancelled, limitHit>>

\* a map stage hits an error of its own (e.g. a pipeline function fails): sends one error message,
\* spawns a drainer for its upstream and returns
StageOwnError(i) ==
    /\ st[i] = "run" /\ shape[i] = "map" /\ held[i] = "data" /\ ch[i + 1] = "none"
    /\ ch' = [ch EXCEPT ![i + 1] = "err"]
    /\ held' = [held EXCEPT ![i] = "none"]
    /\ UNCHANGED bag
    /\ st' = [st EXCEPT ![i] = "closing"]
    /\ drainer' = [drainer EXCEPT ![i] = TRUE]
    /\ UNCHANGED <<shape, nrows, failAt, scanPos, scanSt, closed, expSt, resCh, resClosed, hSt, cancelled, limitHit>>

StageCloseAfterError(i) ==
    /\ st[i] = "closing" /\ ch[i + 1] = "none"
    /\ st' = [st EXCEPT ![i] = "done"] /\ closed' = [closed EXCEPT ![i + 1] = TRUE]
    /\ UNCHANGED <<shape, nrows, failAt, scanPos, scanSt, held, bag, ch, drainer, expSt, resCh, resClosed, hSt, cancelled, limitHit>>

\* ---- a holding stage: keeps every message until the upstream has closed, then sends them on in any order
HoldRecv(i) ==
    /\ shape[i] = "hold" /\ st[i] = "run" /\ ch[i] # "none"
    /\ bag' = [bag EXCEPT ![i][ch[i]] = @ + 1]
    /\ ch' = [ch EXCEPT ![i] = "none"]
    /\ UNCHANGED <<shape, nrows, failAt, scanPos, scanSt, st, held, closed, drainer, expSt, resCh, resClosed, hSt, cancelled, limitHit>>

HoldEmit(i) ==
    /\ shape[i] = "hold" /\ st[i] = "run" /\ ch[i] = "none" /\ closed[i] /\ ch[i + 1] = "none"
    /\ \E m \in {"data", "err"} :
        /\ bag[i][m] > 0
        /\ bag' = [bag EXCEPT ![i][m] = @ - 1]
        /\ ch' = [ch EXCEPT ![i + 1] = m]
    /\ UNCHANGED <<shape, nrows, failAt, scanPos, scanSt, st, held, closed, drainer, expSt, resCh, resClosed, hSt, cancelled, limitHit>>

HoldFinish(i) ==
    /\ shape[i] = "hold" /\ st[i] = "run" /\ ch[i] = "none" /\ closed[i] /\ ch[i + 1] = "none"
    /\ bag[i].data = 0 /\ bag[i].err = 0
    /\ st' = [st EXCEPT ![i] = "done"]
    /\ closed' = [closed EXCEPT ![i + 1] = TRUE]
    /\ UNCHANGED <<shape, nrows, failAt, scanPos, scanSt, held, bag, ch, drainer, expSt, resCh, resClosed, hSt, cancelled, limitHit>>

Drain(i) ==
    /\ drainer[i] /\ ch[i] # "none"
    /\ ch' = [ch EXCEPT ![i] = "none"]
    /\ UNCHANGED <<shape, nrows, failAt, scanPos, scanSt, st, held, bag, closed, drainer, expSt, resCh, resClosed, hSt, cancelled, limitHit>>

\* ---- exporter goroutine: reads channel N+1, writes to the response channel
ExportRecv ==
    /\ expSt = "run" /\ ch[N + 1] # "none" /\ resCh = "none"
    /\ resCh' = ch[N + 1]
    /\ ch' = [ch EXCEPT ![N + 1] = "none"]
    /\ expSt' = IF ch[N + 1] = "err" THEN "closing" ELSE "run"      \* on error: write the tail and return
    /\ drainer' = IF ch[N + 1] = "err" /\ ExportDrainsOnError THEN [drainer EXCEPT ![N + 1] = TRUE] ELSE drainer
    /\ UNCHANGED <<shape, nrows, failAt, scanPos, scanSt, st, held, bag, closed, resClosed, hSt, cancelled, limitHit>>

ExportFinish ==
    /\ \/ expSt = "run" /\ ch[N + 1] = "none" /\ closed[N + 1]
       \/ expSt = "closing"
    /\ resCh = "none"
    /\ expSt' = "done" /\ resClosed' = TRUE
    /\ UNCHANGED <<shape, nrows, failAt, scanPos, scanSt, st, held, bag, ch, closed, drainer, resCh, hSt, cancelled, limitHit>>

\* ---- handler
HandlerRecv ==
    /\ hSt = "run" /\ resCh # "none"
    /\ resCh' = "none"
    /\ UNCHANGED <<shape, nrows, failAt, scanPos, scanSt, st, held, bag, ch, closed, drainer, expSt, resClosed, hSt, cancelled, limitHit>>

HandlerFinish ==
    /\ hSt = "run" /\ resCh = "none" /\ resClosed
    /\ hSt' = "done"
    /\ UNCHANGED <<shape, nrows, failAt, scanPos, scanSt, st, held, bag, ch, closed, drainer, expSt, resCh, resClosed, cancelled, limitHit>>

\* ---- environment: the client goes away (request context cancelled)
ClientGone ==
    /\ ~cancelled /\ cancelled' = TRUE
    /\ UNCHANGED <<shape, nrows, failAt, scanPos, scanSt, st, held, bag, ch, closed, drainer, expSt, resCh, resClosed, hSt, limitHit>>

Next ==
    \/ ScanSend \/ ScanClose \/ ExportRecv \/ ExportFinish \/ HandlerRecv \/ HandlerFinish \/ ClientGone
    \/ \E i \in Stage : StageRecv(i) \/ StageSend(i) \/ StageFinish(i) \/ StageOwnError(i) \/ StageCloseAfterError(i)
                        \/ HoldRecv(i) \/ HoldEmit(i) \/ HoldFinish(i)
    \/ \E i \in Chan : Drain(i)

Fair ==
    /\ WF_vars(ScanSend) /\ WF_vars(ScanClose) /\ WF_vars(ExportRecv) /\ WF_vars(ExportFinish)
    /\ WF_vars(HandlerRecv) /\ WF_vars(HandlerFinish)
    /\ \A i \in 1..3 : WF_vars(i \in Stage /\ (StageRecv(i) \/ StageSend(i) \/ StageFinish(i) \/ StageCloseAfterError(i)
                                               \/ HoldRecv(i) \/ HoldEmit(i) \/ HoldFinish(i)))
    /\ \A i \in 1..4 : WF_vars(i \in Chan /\ Drain(i))
Spec == Init /\ [][Next]_vars /\ Fair

AllTerminated ==
    /\ scanSt = "done" /\ expSt = "done" /\ hSt = "done"
    /\ \A i \in Stage : st[i] = "done"

\* every goroutine of the request eventually terminates
EventuallyAllTerminated == <>[]AllTerminated
\* the handler always gets its response closed (the request is answered)
Answered == <>(hSt = "done")
=============================================================================

--------------------------- MODULE MC_LogQLMetric ---------------------------
(***************************************************************************************************************)
(* Case enumeration for C08: every state is one metric query + database with exp = LogQLSem!EvalMetric (the    *)
(* definition: bucket, range function, vector aggregation, comparison, topk, instants) and pl =                *)
(* LogQLPlan!PlanMetric (SQL planners + ZeroEater + FixPeriodPlanner as functions on rows).                    *)
(* Frags is the set of fragments enumerated in one run:                                                        *)
(*   Frag = "R"  range functions without unwrap, range x step (<, =, >) x window alignment x unit (1 s: plain  *)
(*               path, 15 s: metrics_15s shortcut), every database of <= MaxEntries entries on ticks 0..7      *)
(*   Frag = "U"  unwrap functions with by / without, every database of <= MaxEntries entries on ticks 2..7     *)
(*   Frag = "A"  vector aggregations x grouping (prefix / suffix), comparisons, topk / bottomk over every      *)
(*               assignment of {none, s1, s2, s3} to 4 ticks                                                   *)
(*   Frag = "H"  the 15 s shortcut at one-second resolution: ranges of 15, 16 and 20 s                         *)
(*   Frag = "T"  a comparison written after topk / bottomk, in both directions (the threshold cuts on the side *)
(*               the k-selection prefers or on the other), on every planning path (range of 4 s: plain path;   *)
(*               60 s: metrics_15s shortcut; 60 s with a line filter: getFunctionOrder at a long range), over   *)
(*               the range function, over a vector aggregation, next to the comparisons of those; databases:    *)
(*               every assignment of 0..3 entries per range bucket to each of three series                      *)
(*   Frag = "B"  results longer than one slice of the ClickHouse getter (LogQLPlan!GetterBatch rows): 12 series *)
(*               x 10 range buckets, one or two entries per series and bucket, so that the rows of the SQL      *)
(*               reach the Go post-processors (ZeroEater, FixPeriodPlanner) in two slices whose cut falls      *)
(*               inside a series; on every planning path (short range, metrics_15s shortcut, long range with a  *)
(*               line filter), with step = range and step < range, count / rate / bytes functions, a vector     *)
(*               aggregation that keeps every series and one that merges them (a single slice again)            *)
(*   Frag = "S"  sampled product cases (SCases)                                                                *)
(***************************************************************************************************************)
EXTENDS LogQLPlan, Json, SequencesExt

CONSTANTS Frags, Mods, ModsDev, DBMods, MaxEntries, ExportSeed, SCases

VARIABLES idx, c, exp, pl
vars == <<idx, c, exp, pl>>

EmptyCases == <<>>
NoFld == [x |-> "", ox |-> "", n |-> ""]
MEnt(s, t, len, ty, fmt, fld) == [s |-> s, t |-> t, feats |-> {}, ty |-> ty, fmt |-> fmt, fld |-> fld, len |-> len]
M(name, op, val) == [name |-> name, op |-> op, val |-> val]
NoCmp == [op |-> "", k4 |-> 0]
Cmp(op, k4) == [op |-> op, k4 |-> k4]
MQ(fn, range, step, unit) ==
    [fn |-> fn, range |-> range, step |-> step, unit |-> unit, ugrp |-> "", uglbls |-> {}, agg |-> "", grp |-> "",
     gpos |-> "prefix", glbls |-> {}, cmpl |-> NoCmp, cmpa |-> NoCmp, topfn |-> "", topk |-> 0, cmpt |-> NoCmp]
Q(m, p, from, to, mq) == [m |-> m, p |-> p, from |-> from, to |-> to, lim |-> 0, fwd |-> FALSE, mq |-> mq]
SLeaf(l, o, v) == [t |-> "leaf", lbl |-> l, op |-> o, num |-> FALSE, val |-> v, k |-> 0]
NLeaf(l, o, k) == [t |-> "leaf", lbl |-> l, op |-> o, num |-> TRUE, val |-> "", k |-> k]
Lbl(tr)        == [k |-> "lbl", tree |-> tr]
JP(params)     == [k |-> "jsonp", params |-> params]
Par(l, path)   == [lbl |-> l, path |-> path]
RX(groups)     == [k |-> "regexp", groups |-> groups]
Unwrap(l)      == [k |-> "unwrap", lbl |-> l]

RECURSIVE PowN(_, _)
PowN(b, n) == IF n = 0 THEN 1 ELSE b * PowN(b, n - 1)
Bit(mask, t) == (mask \div Pow2(t)) % 2 = 1
SelA == <<M("a", "=", "v1")>>

(*--------------------------------------------- fragment R --------------------------------------------------*)
R1 == [a |-> "v1", b |-> "v1"]
R2 == [a |-> "v1", b |-> "v2"]
KindR(k, t) == CASE k = 0 -> MEnt(R1, t, 1, "log", "plain", NoFld)
                 [] k = 1 -> MEnt(R1, t, 2, "log", "plain", NoFld)
                 [] k = 2 -> MEnt(R2, t, 1, "log", "plain", NoFld)
                 [] k = 3 -> MEnt(R1, t, 1, "metric", "plain", NoFld)
TicksOfR(mask) == {t \in 0..7 : Bit(mask, t)}
DBOfR(mask, digits) == LET ts == SortSeq(SetToSeq(TicksOfR(mask)), <)
                       IN  [i \in 1..Len(ts) |-> KindR((digits \div PowN(4, i - 1)) % 4, ts[i])]
DIsR == IF "R" \notin Frags THEN {} ELSE UNION {{m * 64 + d : d \in 0..(PowN(4, Cardinality(TicksOfR(m))) - 1)} :
                 m \in {mm \in 1..255 : Cardinality(TicksOfR(mm)) <= MaxEntries}}
QueriesR == IF "R" \notin Frags THEN {} ELSE
    {Q(SelA, <<>>, from, to, MQ("count_over_time", r, s, u)) : r \in {1, 2}, s \in {1, 2, 4}, from \in {2, 3}, to \in {5, 6}, u \in {1, 15}}
    \cup {Q(SelA, <<>>, 2, 6, MQ(fn, 2, 2, u)) : fn \in {"rate", "bytes_rate", "bytes_over_time"}, u \in {1, 15}}
    \cup {Q(SelA, <<Lbl(SLeaf("b", "=", "v1"))>>, 2, 6, MQ(fn, 2, 2, u)) : fn \in {"count_over_time", "rate"}, u \in {1, 15}}

(*--------------------------------------------- fragment U --------------------------------------------------*)
U1 == [a |-> "v1", b |-> "n1"]
U2 == [a |-> "v1", b |-> "n3"]
U3 == [a |-> "v2", b |-> "n1"]
FldN(n) == [x |-> "v1", ox |-> "", n |-> n]
KindU(k, t, fmt) == CASE k = 0 -> MEnt(U1, t, 1, "log", fmt, FldN("n1"))
                      [] k = 1 -> MEnt(U1, t, 1, "log", fmt, FldN("n3"))
                      [] k = 2 -> MEnt(U2, t, 1, "log", fmt, FldN("n1"))
                      [] k = 3 -> MEnt(U2, t, 1, "log", fmt, FldN("n2"))
                      [] k = 4 -> MEnt(U3, t, 1, "log", fmt, FldN("n3"))
                      [] k = 5 -> MEnt(U1, t, 1, "log", fmt, FldN("w"))
                      [] k = 6 -> MEnt(U1, t, 1, "log", fmt, FldN(""))
                      [] k = 7 -> MEnt(U3, t, 1, "log", fmt, FldN("n0"))
TicksOfU(mask) == {t \in 2..7 : Bit(mask, t - 2)}
DBOfU(mask, digits, fmt) == LET ts == SortSeq(SetToSeq(TicksOfU(mask)), <)
                            IN  [i \in 1..Len(ts) |-> KindU((digits \div PowN(8, i - 1)) % 8, ts[i], fmt)]
DIsU == IF "U" \notin Frags THEN {} ELSE UNION {{m * 512 + d : d \in 0..(PowN(8, Cardinality(TicksOfU(m))) - 1)} :
                 m \in {mm \in 1..63 : Cardinality(TicksOfU(mm)) <= MaxEntries}}
UnwrapFns == {"sum_over_time", "avg_over_time", "min_over_time", "max_over_time", "first_over_time", "last_over_time", "rate_unwrap"}
UGrp(mq, kind, names) == [mq EXCEPT !.ugrp = kind, !.uglbls = names]
QueriesU == IF "U" \notin Frags THEN {} ELSE
    {Q(SelA \o <<M("b", "=~", "R_any")>>, <<JP(<<Par("n", "n")>>), Unwrap("n")>>, 2, 6, UGrp(MQ(fn, 2, 2, 1), g[1], g[2])) :
        fn \in UnwrapFns, g \in {<<"by", {"a"}>>, <<"by", {"a", "b"}>>, <<"without", {"n", "b", "x"}>>}}
    \cup {Q(<<M("a", "=~", "R_v1v2")>>, <<RX(<<"n">>), Unwrap("n")>>, 2, 6, UGrp(MQ(fn, 2, 2, 1), "by", {"a"})) :
            fn \in {"sum_over_time", "max_over_time"}}
    \cup {Q(SelA, <<JP(<<Par("n", "n")>>), Lbl(NLeaf("n", ">", 1)), Unwrap("n")>>, 2, 6, UGrp(MQ("sum_over_time", 2, 2, 1), "by", {"a"}))}
    (* unwrap of a stream label with no parser stage before it *)
    \cup {Q(SelA, <<Unwrap("b")>>, 2, 6, UGrp(MQ("sum_over_time", 2, 2, 1), "by", {"a"}))}
    (* range 16 s or more: the unwrap keeps the query off the 15 s shortcut *)
    \cup {Q(SelA, <<JP(<<Par("n", "n")>>), Unwrap("n")>>, 2, 6, UGrp(MQ("sum_over_time", 2, 2, 15), "by", {"a"}))}
    (* a vector aggregation over an unwrap function *)
    \cup {Q(SelA, <<JP(<<Par("n", "n")>>), Unwrap("n")>>, 2, 6,
            [UGrp(MQ("sum_over_time", 2, 2, 1), "by", {"a", "b"}) EXCEPT !.agg = ag, !.grp = "by", !.glbls = {"a"}]) : ag \in {"sum", "max"}}
FmtOfQ(q) == IF \E i \in DOMAIN q.p : q.p[i].k = "regexp" THEN "plain" ELSE "json"

(*--------------------------------------------- fragment A --------------------------------------------------*)
A1 == [a |-> "v1", b |-> "v1"]
A2 == [a |-> "v1", b |-> "v2"]
A3 == [a |-> "v2", b |-> "v1"]
DBOfA(code) ==      \* digit i (base 4) of code: what tick 1+i holds: nothing, A1, A2 or A3
    LET ks == [i \in 1..4 |-> (code \div PowN(4, i - 1)) % 4]
        present == SortSeq(SetToSeq({i \in 1..4 : ks[i] # 0}), <)
    IN  [j \in 1..Len(present) |-> MEnt(CASE ks[present[j]] = 1 -> A1 [] ks[present[j]] = 2 -> A2 [] OTHER -> A3,
                                        1 + present[j], 1, "log", "plain", NoFld)]
SelAll == <<M("a", "=~", "R_v1v2")>>
Agg(mq, ag, kind, pos, names) == [mq EXCEPT !.agg = ag, !.grp = kind, !.gpos = pos, !.glbls = names]
Groupings == {<<"", "prefix", {}>>, <<"by", "prefix", {"a"}>>, <<"by", "suffix", {"a"}>>, <<"by", "prefix", {"b"}>>,
              <<"without", "prefix", {"b"}>>, <<"without", "suffix", {"a"}>>, <<"by", "suffix", {"a", "b"}>>}
Base == MQ("count_over_time", 2, 2, 1)
QA(mq) == Q(SelAll, <<>>, 2, 6, mq)
QueriesA == IF "A" \notin Frags THEN {} ELSE
    {QA(Agg(Base, ag, g[1], g[2], g[3])) : ag \in {"sum", "min", "max", "avg", "count"}, g \in Groupings}
    \cup {QA(Agg(MQ("rate", 2, 2, 1), ag, "by", "prefix", {"a"})) : ag \in {"sum", "avg"}}
    \cup {QA([Base EXCEPT !.cmpl = Cmp(o, 6)]) : o \in {">", ">=", "<", "<="}}
    \cup {QA([Base EXCEPT !.cmpl = Cmp(o, k)]) : o \in {"==", "!="}, k \in {4, 8}}
    \cup {QA([Agg(Base, "sum", "by", "prefix", {"a"}) EXCEPT !.cmpa = cm]) : cm \in {Cmp(">", 6), Cmp("<", 10), Cmp("==", 8)}}
    \cup {QA([Agg(Base, "sum", "by", "prefix", {"a"}) EXCEPT !.cmpl = Cmp(">", 6)])}
    \cup {QA([Agg(MQ("rate", 2, 2, 1), "avg", "by", "suffix", {"b"}) EXCEPT !.cmpa = Cmp(">", 5)])}
    \cup {QA([Base EXCEPT !.topfn = tf, !.topk = k]) : tf \in {"topk", "bottomk"}, k \in {1, 2}}
    \cup {QA([Agg(Base, "sum", "by", "prefix", {"b"}) EXCEPT !.topfn = "topk", !.topk = 1]),
          QA([Agg(Base, "sum", "by", "suffix", {"a", "b"}) EXCEPT !.topfn = "bottomk", !.topk = 2])}
    \cup {QA(Agg(MQ("rate", 2, 2, 15), "sum", "by", "prefix", {"a"})),
          QA(Agg(MQ("count_over_time", 2, 2, 15), "max", "without", "prefix", {"b"})),
          QA([MQ("count_over_time", 2, 2, 15) EXCEPT !.topfn = "topk", !.topk = 1]),
          QA([MQ("count_over_time", 2, 2, 15) EXCEPT !.cmpl = Cmp(">", 6)])}

(*--------------------------------------------- fragment H --------------------------------------------------*)
(* one tick = one second; entries at the seconds around the 15 s and the range boundaries                       *)
SecondsH == <<14, 15, 16, 29, 30, 31, 32, 33, 44, 45, 47, 48, 59, 60, 63>>
DBOfH(mask) == LET ps == SortSeq(SetToSeq({i \in 1..Len(SecondsH) : Bit(mask, i - 1)}), <)
               IN  [j \in 1..Len(ps) |-> MEnt(A1, SecondsH[ps[j]], 1, "log", "plain", NoFld)]
DIsH == IF "H" \notin Frags THEN {} ELSE {m \in 1..(Pow2(Len(SecondsH)) - 1) : Cardinality({i \in 1..Len(SecondsH) : Bit(m, i - 1)}) <= 2}
QueriesH == IF "H" \notin Frags THEN {} ELSE
    {Q(SelA, <<>>, r, 3 * r, MQ(fn, r, r, 1)) : fn \in {"count_over_time", "rate"}, r \in {15, 16, 20}}

(*--------------------------------------------- fragment T --------------------------------------------------*)
(* digit j (base 4) of code: how many entries series j has in the range bucket [4, 8); the bucket [8, 12) holds  *)
(* the same counts rotated by one series, so the two timestamps of one request select different series.         *)
(* Entries of different series may share a tick.                                                                *)
SerT(j) == CASE j = 1 -> A1 [] j = 2 -> A2 [] OTHER -> A3
CntT(code, j) == (code \div PowN(4, j - 1)) % 4
SlotsT(code) == {sl \in (1..3) \X (1..3) \X {0, 1} :
                    sl[2] <= CntT(code, IF sl[3] = 0 THEN sl[1] ELSE (sl[1] % 3) + 1)}
TickT(sl) == IF sl[3] = 0 THEN 4 + ((sl[1] + sl[2]) % 4) ELSE 8 + ((2 * sl[1] + sl[2]) % 4)
DBOfT(code) ==
    LET sq == SortSeq(SetToSeq(SlotsT(code)),
                      LAMBDA x, y : TickT(x) < TickT(y) \/ (TickT(x) = TickT(y) /\ (x[1] < y[1] \/ (x[1] = y[1] /\ x[2] < y[2]))))
    IN  [n \in 1..Len(sq) |-> MEnt(SerT(sq[n][1]), TickT(sq[n]), 1, "log", "plain", NoFld)]
TopCmp(mq, tf, k, cm) == [mq EXCEPT !.topfn = tf, !.topk = k, !.cmpt = cm]
QT(p, mq) == Q(SelAll, p, 4, 11, mq)
TopFns  == {"topk", "bottomk"}
OrdOps  == {">", ">=", "<", "<="}
AllCmps(kOrd, kEq) == {Cmp(o, kOrd) : o \in OrdOps} \cup {Cmp(o, kEq) : o \in {"==", "!="}}
NotF1   == <<[k |-> "lf", op |-> "!=", arg |-> "f1"]>>     \* holds for every entry of the fragment; keeps the query off the shortcut
SumByB(mq, pos) == Agg(mq, "sum", "by", pos, {"b"})
QueriesT == IF "T" \notin Frags THEN {} ELSE
    (* directly over the range function; thresholds 1.5 and 2 (counts), 2.5 / range (rates)                       *)
    {QT(<<>>, TopCmp(MQ("count_over_time", 4, 4, u), tf, k, cm)) : u \in {1, 15}, tf \in TopFns, k \in {1, 2}, cm \in AllCmps(6, 8)}
    \cup {QT(NotF1, TopCmp(MQ("count_over_time", 4, 4, 15), tf, 1, cm)) : tf \in TopFns, cm \in AllCmps(6, 8)}
    \cup {QT(<<>>, TopCmp(MQ("rate", 4, 4, u), tf, k, Cmp(o, 10))) : u \in {1, 15}, tf \in TopFns, k \in {1, 2}, o \in OrdOps}
    (* step < range: every range bucket is reported at two instants                                              *)
    \cup {QT(<<>>, TopCmp(MQ("count_over_time", 4, 2, u), tf, 1, cm)) : u \in {1, 15}, tf \in TopFns, cm \in {Cmp(">", 6), Cmp("<", 6)}}
    (* a label filter (hoisted to time_series on every path) under the k-selection                              *)
    \cup {QT(<<Lbl(SLeaf("a", "=", "v1"))>>, TopCmp(MQ("count_over_time", 4, 4, u), tf, 1, cm)) :
            u \in {1, 15}, tf \in TopFns, cm \in {Cmp(">", 6), Cmp("<", 6)}}
    (* over a vector aggregation (series A1 and A3 share b): thresholds 2.5 and 3                                *)
    \cup {QT(<<>>, TopCmp(SumByB(MQ("count_over_time", 4, 4, u), pos), tf, 1, cm)) :
            u \in {1, 15}, pos \in {"prefix", "suffix"}, tf \in TopFns, cm \in {Cmp(">", 10), Cmp("<", 10), Cmp("==", 12), Cmp("!=", 12)}}
    (* two comparisons in one query: each belongs to the expression it is written after                          *)
    \cup {QT(<<>>, [TopCmp(MQ("count_over_time", 4, 4, u), tf, 1, Cmp(o, 10)) EXCEPT !.cmpl = Cmp(">", 6)]) :
            u \in {1, 15}, tf \in TopFns, o \in {">", "<"}}
    \cup {QT(<<>>, [TopCmp(SumByB(MQ("count_over_time", 4, 4, u), "prefix"), tf, 1, Cmp(o, 14)) EXCEPT !.cmpa = Cmp(">", 6)]) :
            u \in {1, 15}, tf \in TopFns, o \in {">", "<"}}

(*--------------------------------------------- fragment B --------------------------------------------------*)
(* series j in 0..11: a in {v1, v2} x b in {absent, v1, v2, n1, n2, n3}; range bucket k in 0..NBucketsB-1 starts *)
(* at tick FromB + 2k.  Entry n (1..12*NBucketsB) is the first entry of series / bucket; the entries after them  *)
(* are the second entries of a third of the (series, bucket) pairs.  code shifts the pattern.                    *)
NBucketsB == 10
FromB == 4
ToB == FromB + 2 * NBucketsB - 1
BValsB == <<"", "v1", "v2", "n1", "n2", "n3">>
SerB(j) == [a |-> IF j % 2 = 0 THEN "v1" ELSE "v2", b |-> BValsB[(j \div 2) + 1]]
TwoB(j, k, code) == (j + 2 * k + code) % 3 = 0
DBOfB(code) ==
    LET n1 == 12 * NBucketsB
        firsts == [n \in 1..n1 |-> LET k == (n - 1) \div 12
                                       j == (n - 1) % 12
                                   IN  MEnt(SerB(j), FromB + 2 * k + ((j + k + code) % 2), 1 + ((j + k) % 2), "log", "plain", NoFld)]
        seconds == SelectSeq([n \in 1..n1 |-> n], LAMBDA n : TwoB((n - 1) % 12, (n - 1) \div 12, code))
    IN  firsts \o [i \in 1..Len(seconds) |-> LET k == (seconds[i] - 1) \div 12
                                                  j == (seconds[i] - 1) % 12
                                              IN  MEnt(SerB(j), FromB + 2 * k + ((j + k + code + 1) % 2), 1, "log", "plain", NoFld)]
QB(p, mq) == Q(SelAll, p, FromB, ToB, mq)
(* the core (every tier): one query per planning path, step < range, a vector aggregation that keeps and one that *)
(* merges the series; the rest only when every database of the fragment is enumerated (DBMods.B = 1)             *)
QueriesBCore ==
    {QB(<<>>, MQ("count_over_time", 2, 2, 1))}
    \cup {QB(<<>>, MQ("count_over_time", 2, 1, 1))}                                     \* step < range
    \cup {QB(<<>>, MQ("rate", 2, 2, 15))}                                               \* metrics_15s shortcut
    \cup {QB(NotF1, MQ("count_over_time", 2, 2, 15))}                                   \* long range, samples table
    \cup {QB(<<>>, Agg(MQ("count_over_time", 2, 2, 1), "sum", "by", "prefix", {"a", "b"}))}
    \cup {QB(<<>>, Agg(MQ("count_over_time", 2, 2, 1), "sum", "without", "suffix", {"b"}))}   \* merges: two series
QueriesBMore ==
    {QB(<<>>, MQ(fn, 2, 2, 1)) : fn \in {"rate", "bytes_over_time"}}
    \cup {QB(<<>>, MQ("count_over_time", 2, 2, 15))}
    \cup {QB(<<>>, Agg(MQ("count_over_time", 2, 2, 15), "sum", "by", "prefix", {"a", "b"}))}
    \cup {QB(<<>>, [MQ("count_over_time", 2, 2, 1) EXCEPT !.cmpl = Cmp(">", 6)])}        \* keeps the counts of 2
QueriesB == IF "B" \notin Frags THEN {} ELSE QueriesBCore \cup (IF DBMods["B"] = 1 THEN QueriesBMore ELSE {})

(*--------------------------------------------- enumeration -------------------------------------------------*)
Tag(f, S) == {[frag |-> f, q |-> q, db0 |-> <<>>] : q \in S}
QSeq == SetToSeq(Tag("R", QueriesR) \cup Tag("U", QueriesU) \cup Tag("A", QueriesA) \cup Tag("H", QueriesH) \cup Tag("T", QueriesT)
                 \cup Tag("B", QueriesB))
        \o (IF "S" \in Frags THEN (LET sc == SCases IN [i \in DOMAIN sc |-> [frag |-> "S", q |-> sc[i].q, db0 |-> sc[i].db]]) ELSE <<>>)
DIs(f) == CASE f = "R" -> DIsR
            [] f = "U" -> DIsU
            [] f = "A" -> 1..256
            [] f = "H" -> DIsH
            [] f = "T" -> 1..64
            [] f = "B" -> 1..3
            [] OTHER -> {1}
DBAt(cq, di) == CASE cq.frag = "R" -> DBOfR(di \div 64, di % 64)
                  [] cq.frag = "U" -> DBOfU(di \div 512, di % 512, FmtOfQ(cq.q))
                  [] cq.frag = "A" -> DBOfA(di - 1)
                  [] cq.frag = "H" -> DBOfH(di)
                  [] cq.frag = "T" -> DBOfT(di - 1)
                  [] cq.frag = "B" -> DBOfB(di - 1)
                  [] cq.frag = "S" -> cq.db0

IsCase == idx % 100000 # 0
NoRes == [err |-> FALSE, series |-> {}]
Init == LET qs == QSeq IN
        \E qi \in DOMAIN qs :
            /\ idx = qi * 100000
            /\ c = [frag |-> qs[qi].frag, q |-> qs[qi].q, db0 |-> qs[qi].db0, db |-> <<>>]
            /\ exp = {}
            /\ pl = NoRes
Next == /\ ~IsCase
        /\ \E di \in DIs(c.frag) :
            (* DBMods[frag] = 1: every database; n > 1: the seeded 1/n sample of the databases (quick tier)          *)
            /\ (di * 31 + (idx \div 100000) * 17 + ExportSeed) % DBMods[c.frag] = 0
            /\ idx' = idx + di
            /\ c' = [c EXCEPT !.db = DBAt(c, di)]
            /\ exp' = EvalMetric(c'.q, c'.db)
            /\ pl' = PlanMetric(c'.q, c'.db)
Spec == Init /\ [][Next]_vars

(*--------------------------------------------- invariants --------------------------------------------------*)
(* the definition: every point is at an instant of the request, carries the value of a bucket of the widened   *)
(* window, every series has the labels of at least one matching entry's group, no two series share labels      *)
InstantsOK(S) == \A s \in S : \A p \in s.pts : p.t \in Instants(c.q) /\ p.v.den > 0
DistinctSeries(S) == \A s1 \in S, s2 \in S : s1.lbls = s2.lbls => s1 = s2
DefinitionWellFormed == IsCase => InstantsOK(exp) /\ DistinctSeries(exp)
MechanismWellFormed  == IsCase => InstantsOK(pl.series)
(* no entry outside the widened window contributes to the definition: removing them changes nothing            *)
OnlyWidenedWindowContributes ==      \* (fragment B: every entry is inside the window; the re-evaluation is skipped)
    IsCase /\ c.frag # "B" => LET inside == SelectSeq(c.db, LAMBDA e : WidenedFrom(c.q) <= e.t /\ e.t < WidenedTo(c.q))
              IN  EvalMetric(c.q, inside) = exp

(* the comparison written after topk / bottomk only removes rows of the k-selection: every series and point of    *)
(* the answer is one of the answer to the same query without that comparison, at most k series per instant are    *)
(* mandatory                                                                                                      *)
ComparisonAfterSelection ==
    IsCase /\ c.q.mq.cmpt.op # "" =>
        LET bare == EvalMetric([c.q EXCEPT !.mq.cmpt = NoCmp], c.db)
        IN  /\ \A s \in exp : \E s0 \in bare : s0.lbls = s.lbls /\ s.pts \subseteq s0.pts
            /\ \A t \in Instants(c.q) : Cardinality({s \in exp : \E p \in s.pts : p.t = t /\ ~p.opt}) <= c.q.mq.topk

(* E: what the definition allows / demands, P: what the mechanism yields                                       *)
PtsAgree(E, P) ==
    /\ \A p \in P : p.opt \/ \E e \in E : e.t = p.t /\ REq(e.v, p.v)
    /\ \A e \in E : e.opt \/ \E p \in P : p.t = e.t
PtsOf(S, l) == UNION {s.pts : s \in {x \in S : x.lbls = l}}
AgreesS(E, P) == \A l \in {s.lbls : s \in E \cup P} : PtsAgree(PtsOf(E, l), PtsOf(P, l))
Agrees == AgreesS(exp, pl.series)
(* the order of k-selection and threshold is observable on this case: the answer with the threshold applied to    *)
(* the operand of topk / bottomk is not one the definition allows                                                 *)
OrderObservable == c.q.mq.cmpt.op # "" /\ ~AgreesS(exp, EvalMetricCmpBeforeTop(c.q, c.db))
Differs == pl.err \/ ~Agrees
DevClass ==
    IF pl.err THEN "error"
    ELSE IF {s.lbls : s \in {x \in exp : \E p \in x.pts : ~p.opt}} # {s.lbls : s \in {x \in pl.series : \E p \in x.pts : ~p.opt}} THEN "series"
    ELSE IF \E l \in {s.lbls : s \in exp} : {p.t : p \in {x \in PtsOf(exp, l) : ~x.opt}} # {p.t : p \in {x \in PtsOf(pl.series, l) : ~x.opt}} THEN "instants"
    ELSE "values"

PtOut(p) == [t |-> p.t, num |-> p.v.num, den |-> p.v.den, opt |-> p.opt]
SerOut(S) == LET sq == SetToSeq(S)
             IN  [i \in 1..Len(sq) |-> [lbls |-> sq[i].lbls, pts |-> LET ps == SetToSeq(sq[i].pts) IN [j \in 1..Len(ps) |-> PtOut(ps[j])]]]
(* the rows of the SQL result and the slices they arrive in (computed for the fragments where it matters)          *)
NRows == IF c.frag \in {"B", "S"} THEN Cardinality(PlanMetricRows(c.q, c.db)) ELSE 0
(* fragment B is about results cut into slices: the cases the last query of the fragment merges into few rows     *)
(* aside, every case has a cut, and a cut inside a series (no multiple of the rows per series)                    *)
MultiSlice == IsCase /\ c.frag = "B" /\ c.q.mq.grp # "without" /\ c.q.mq.cmpl.op = "" => Batches(NRows) >= 2 /\ BatchCuts(NRows) # {}
CaseRec == [frag |-> c.frag, idx |-> idx, q |-> c.q, db |-> c.db, mexp |-> SerOut(exp), nrows |-> NRows,
            dev |-> Differs, plerr |-> pl.err, mpl |-> IF Differs THEN SerOut(pl.series) ELSE <<>>, ordobs |-> OrderObservable]
Hash == ((idx \div 100000) * 7919 + (idx % 100000) * 10007 + ExportSeed) % 1000003
Selected == IF Differs THEN ModsDev[c.frag] > 0 /\ Hash % ModsDev[c.frag] = 0
            ELSE Mods[c.frag] > 0 /\ Hash % Mods[c.frag] = 0
Export == IsCase =>
          /\ Differs => PrintT(<<"C08DEV", idx, c.frag, DevClass>>)
          /\ Selected => PrintT(<<"C08CASE", ToJson(CaseRec)>>)
=============================================================================
